"""G1 + G6 (C03): regenerate Pms/Gen/Gr.lean from PyMatterSim/static/gr.py and utils/funcs.py.

For each of gr.unary … gr.quinary: the DataFrame column list, every accumulated column with the selector
attached to it (`distance[(countsum == a) & (countsub == b)]`), the normalisation right-hand sides, `nideal`
and `r`; the `getresults` dispatch; the attributes derived in `__init__` (boxvolume, rhototal, rhotype,
maxbin, nidealfac) and `funcs.nidealfac`.  The glue between these fragments (pair loop, remove_pbc call,
definition of countsum / countsub / TIJ, histogram arguments, binleft / binright) must have exactly the
known shape, otherwise `Unrecognised` (a broken tie)."""
import ast

from pms2lean import Unrecognised, find_class, find_func, generator, read, strip_doc

REL = "PyMatterSim/static/gr.py"
REL_F = "PyMatterSim/utils/funcs.py"
METHODS = ["unary", "binary", "ternary", "quarternary", "quinary"]

ATOMS = {
    "self.nsnapshots": "nsnap", "self.nparticle": "npart", "self.boxvolume": "boxvolume",
    "self.rhototal": "rhototal", "self.nidealfac": "nidealfac", "nideal": "nideal", "np.pi": "pi",
    "binleft": "binleft", "binright": "binright", "self.rdelta": "rdelta",
    "np.prod(self.snapshots.snapshots[0].boxlength)": "prodbox",
    "self.snapshots.snapshots[0].boxlength.min()": "minbox",
    "self.typecount": "tcElem",
}
HIST_RANGE = "(0, self.maxbin * self.rdelta)"
GLUE = {
    "RIJ": ["snapshot.positions[i + 1:] - snapshot.positions[i]", "remove_pbc(RIJ, snapshot.hmatrix, self.ppp)"],
    "distance": ["np.linalg.norm(RIJ, axis=1)"],
    "TIJ": ["np.c_[snapshot.particle_type[i + 1:], np.zeros_like(snapshot.particle_type[i + 1:]) + snapshot.particle_type[i]]"],
    "countsum": ["TIJ.sum(axis=1)"],
    "countsub": ["np.abs(TIJ[:, 0] - TIJ[:, 1])"],
}


def nexpr(e, count_col=None):
    """Python arithmetic -> Lean `NExpr` term"""
    txt = ast.unparse(e)
    if txt in ATOMS:
        return f"(.atom .{ATOMS[txt]})"
    if isinstance(e, ast.Subscript) and ast.unparse(e.value) == "grresults" and isinstance(e.slice, ast.Constant):
        if count_col is None or e.slice.value != count_col:
            raise Unrecognised(f"normaliser of {count_col} reads grresults[{e.slice.value!r}]")
        return "(.atom .count)"
    if isinstance(e, ast.Subscript) and ast.unparse(e.value) in ("self.typecount", "self.rhotype") \
            and isinstance(e.slice, ast.Constant) and isinstance(e.slice.value, int) and e.slice.value >= 0:
        return f"(.{'tc' if ast.unparse(e.value) == 'self.typecount' else 'rho'} {e.slice.value})"
    if isinstance(e, ast.Constant) and not isinstance(e.value, bool):
        v = e.value
        if isinstance(v, int) and v >= 0:
            return f"(.lit {v})"
        if isinstance(v, float) and v >= 0:
            from fractions import Fraction
            q = Fraction(repr(v))
            if q.denominator == 1:
                return f"(.lit {q.numerator})"
            return f"(.div (.lit {q.numerator}) (.lit {q.denominator}))"
        raise Unrecognised(f"constant {v!r}")
    if isinstance(e, ast.BinOp):
        if isinstance(e.op, ast.Pow):
            if ast.unparse(e.right) == "self.ndim":
                return f"(.powNdim {nexpr(e.left, count_col)})"
            if isinstance(e.right, ast.Constant) and isinstance(e.right.value, int) and not isinstance(e.right.value, bool) and e.right.value >= 0:
                return f"(.pow {nexpr(e.left, count_col)} {e.right.value})"
            raise Unrecognised("exponent " + ast.unparse(e.right))
        op = {ast.Add: "add", ast.Sub: "sub", ast.Mult: "mul", ast.Div: "div"}.get(type(e.op))
        if op is None:
            raise Unrecognised("operator " + type(e.op).__name__)
        return f"(.{op} {nexpr(e.left, count_col)} {nexpr(e.right, count_col)})"
    raise Unrecognised("expression " + txt[:100])


def selector(mask):
    """boolean mask over countsum / countsub -> Lean `Sel` term"""
    if isinstance(mask, ast.BinOp) and isinstance(mask.op, ast.BitAnd):
        return f"(.and {selector(mask.left)} {selector(mask.right)})"
    if isinstance(mask, ast.Compare) and len(mask.ops) == 1 and isinstance(mask.ops[0], ast.Eq) and isinstance(mask.left, ast.Name) \
            and isinstance(mask.comparators[0], ast.Constant) and isinstance(mask.comparators[0].value, int) \
            and not isinstance(mask.comparators[0].value, bool) and mask.comparators[0].value >= 0:
        n = mask.comparators[0].value
        if mask.left.id == "countsum":
            return f"(.sum {n})"
        if mask.left.id == "countsub":
            return f"(.sub {n})"
    raise Unrecognised("selector " + ast.unparse(mask)[:100])


def is_logger(st):
    return isinstance(st, ast.Expr) and isinstance(st.value, ast.Call) and ast.unparse(st.value.func).startswith("logger.")


def hist_call(st):
    """`countvalue, binedge = np.histogram(X, bins=self.maxbin, range=(0, self.maxbin * self.rdelta))` -> X"""
    if not (isinstance(st, ast.Assign) and len(st.targets) == 1 and ast.unparse(st.targets[0]) in ("(countvalue, binedge)", "countvalue, binedge")):
        return None
    c = st.value
    if not (isinstance(c, ast.Call) and ast.unparse(c.func) == "np.histogram" and len(c.args) == 1):
        raise Unrecognised("histogram call " + ast.unparse(st)[:100])
    kws = {k.arg: ast.unparse(k.value) for k in c.keywords}
    if kws != {"bins": "self.maxbin", "range": HIST_RANGE}:
        raise Unrecognised(f"histogram keywords {kws}")
    return c.args[0]


def method(cls, name):
    fn = find_func(cls, name)
    if [a.arg for a in fn.args.args] != ["self"]:
        raise Unrecognised(f"{name} parameters")
    body = [st for st in strip_doc(fn.body) if not is_logger(st)]
    if len(body) < 4:
        raise Unrecognised(f"{name}: body too short")
    # 1. the frame
    st = body[0]
    if not (isinstance(st, ast.Assign) and ast.unparse(st.targets[0]) == "grresults" and isinstance(st.value, ast.Call)
            and ast.unparse(st.value.func) == "pd.DataFrame"):
        raise Unrecognised(f"{name}: first statement is not the DataFrame")
    call = st.value
    pos = [ast.unparse(a) for a in call.args]
    kws = {k.arg: k.value for k in call.keywords}
    if pos != ["0"] or set(kws) != {"index", "columns"} or ast.unparse(kws["index"]) != "range(self.maxbin)":
        raise Unrecognised(f"{name}: DataFrame arguments")
    cv = kws["columns"]
    if not (isinstance(cv, ast.Call) and isinstance(cv.func, ast.Attribute) and cv.func.attr == "split" and not cv.args
            and isinstance(cv.func.value, ast.Constant) and isinstance(cv.func.value.value, str)):
        raise Unrecognised(f"{name}: columns expression")
    columns = cv.func.value.value.split()
    # 2. the pair loop
    loop = body[1]
    if not (isinstance(loop, ast.For) and ast.unparse(loop.target) == "snapshot" and ast.unparse(loop.iter) == "self.snapshots.snapshots"
            and not loop.orelse and len(loop.body) == 1):
        raise Unrecognised(f"{name}: frame loop")
    inner = loop.body[0]
    if not (isinstance(inner, ast.For) and ast.unparse(inner.target) == "i" and ast.unparse(inner.iter) == "range(self.nparticle - 1)" and not inner.orelse):
        raise Unrecognised(f"{name}: particle loop")
    seen_glue = {}
    accum = []          # (column, selector)
    pending = None
    for s in inner.body:
        if pending is not None:
            if not (isinstance(s, ast.AugAssign) and isinstance(s.op, ast.Add) and ast.unparse(s.value) == "countvalue"
                    and isinstance(s.target, ast.Subscript) and ast.unparse(s.target.value) == "grresults"
                    and isinstance(s.target.slice, ast.Constant) and isinstance(s.target.slice.value, str)):
                raise Unrecognised(f"{name}: statement after a histogram is not an accumulation: {ast.unparse(s)[:80]}")
            accum.append((s.target.slice.value, pending))
            pending = None
            continue
        x = hist_call(s)
        if x is not None:
            if "distance" not in seen_glue:
                raise Unrecognised(f"{name}: histogram before distance is defined")
            if isinstance(x, ast.Name) and x.id == "distance":
                pending = ".all"
            elif isinstance(x, ast.Subscript) and ast.unparse(x.value) == "distance":
                for nm in ("countsum", "countsub"):
                    if nm in ast.unparse(x.slice) and nm not in seen_glue:
                        raise Unrecognised(f"{name}: {nm} used before its definition")
                pending = selector(x.slice)
            else:
                raise Unrecognised(f"{name}: histogram of {ast.unparse(x)[:60]}")
            continue
        if isinstance(s, ast.Assign) and len(s.targets) == 1 and isinstance(s.targets[0], ast.Name) and s.targets[0].id in GLUE:
            nm = s.targets[0].id
            k = seen_glue.get(nm, 0)
            want = GLUE[nm]
            if k >= len(want) or ast.unparse(s.value) != want[k]:
                raise Unrecognised(f"{name}: {nm} = {ast.unparse(s.value)[:100]}")
            seen_glue[nm] = k + 1
            continue
        raise Unrecognised(f"{name}: loop statement {ast.unparse(s)[:80]}")
    if pending is not None:
        raise Unrecognised(f"{name}: histogram result not accumulated")
    if seen_glue.get("RIJ") != 2:
        raise Unrecognised(f"{name}: RIJ / remove_pbc statements")
    # 3. normalisation
    tail = body[2:]
    want_tail = ["binleft = binedge[:-1]", "binright = binedge[1:]"]
    for s, w in zip(tail[:2], want_tail):
        if ast.unparse(s) != w:
            raise Unrecognised(f"{name}: expected `{w}`, found `{ast.unparse(s)[:60]}`")
    tail = tail[2:]
    nideal = rexpr = None
    norms = {}
    i = 0
    while i < len(tail):
        s = tail[i]
        if isinstance(s, ast.Assign) and len(s.targets) == 1 and ast.unparse(s.targets[0]) == "nideal":
            if nideal is not None or norms:
                raise Unrecognised(f"{name}: nideal assigned twice or too late")
            nideal = nexpr(s.value)
        elif isinstance(s, ast.Assign) and len(s.targets) == 1 and isinstance(s.targets[0], ast.Subscript) \
                and ast.unparse(s.targets[0].value) == "grresults" and isinstance(s.targets[0].slice, ast.Constant):
            col = s.targets[0].slice.value
            if col == "r":
                if rexpr is not None:
                    raise Unrecognised(f"{name}: r assigned twice")
                rexpr = nexpr(s.value)
            else:
                if col in norms:
                    raise Unrecognised(f"{name}: {col} normalised twice")
                if nideal is None:
                    raise Unrecognised(f"{name}: normalisation before nideal")
                norms[col] = nexpr(s.value, count_col=col)
        else:
            break
        i += 1
    rest = [ast.unparse(s) for s in tail[i:]]
    if rest != ["if self.outputfile:\n    grresults.to_csv(self.outputfile, float_format='%.6f', index=False)", "return grresults"]:
        raise Unrecognised(f"{name}: trailing statements {rest}")
    if nideal is None or rexpr is None:
        raise Unrecognised(f"{name}: nideal or r missing")
    names = [c for c, _ in accum]
    if len(set(names)) != len(names):
        raise Unrecognised(f"{name}: a column is accumulated twice: {names}")
    if set(names) != set(norms):
        raise Unrecognised(f"{name}: accumulated {sorted(names)} but normalised {sorted(norms)}")
    cols = []
    for c, sel in accum:
        if c == "gr":
            a = b = 0
        elif len(c) == 4 and c.startswith("gr") and c[2:].isdigit():
            a, b = int(c[2]), int(c[3])
        else:
            raise Unrecognised(f"{name}: column name {c!r}")
        cols.append((c, a, b, sel, norms[c]))
    return columns, cols, nideal, rexpr


def dispatch(cls):
    fn = find_func(cls, "getresults")
    rows = []
    for st in strip_doc(fn.body):
        if not (isinstance(st, ast.If) and not st.orelse):
            raise Unrecognised("getresults statement " + ast.unparse(st)[:60])
        t = st.test
        if not (isinstance(t, ast.Compare) and len(t.ops) == 1 and ast.unparse(t.left) == "len(self.typenumber)"
                and isinstance(t.comparators[0], ast.Constant) and isinstance(t.comparators[0].value, int)):
            raise Unrecognised("getresults test " + ast.unparse(t))
        op = {ast.Eq: ".eq", ast.Gt: ".gt"}.get(type(t.ops[0]))
        if op is None:
            raise Unrecognised("getresults comparison " + ast.unparse(t))
        b = [s for s in st.body if not is_logger(s)]
        if not (len(b) == 1 and isinstance(b[0], ast.Return) and isinstance(b[0].value, ast.Call) and not b[0].value.args
                and not b[0].value.keywords and isinstance(b[0].value.func, ast.Attribute) and ast.unparse(b[0].value.func.value) == "self"):
            raise Unrecognised("getresults branch " + ast.unparse(st)[:80])
        rows.append((op, t.comparators[0].value, b[0].value.func.attr))
    return rows


def init_defs(cls):
    fn = find_func(cls, "__init__")
    want = {"boxvolume": None, "rhototal": None, "rhotype": None, "maxbin": None, "nidealfac": None}
    plain = {"snapshots": "snapshots", "ppp": "ppp", "rdelta": "rdelta", "outputfile": "outputfile",
             "nsnapshots": "self.snapshots.nsnapshots", "ndim": "self.snapshots.snapshots[0].positions.shape[1]",
             "nparticle": "snapshots.snapshots[0].nparticle"}
    order = []
    for st in strip_doc(fn.body):
        if is_logger(st) or isinstance(st, ast.Assert):
            continue
        if not (isinstance(st, ast.Assign) and len(st.targets) == 1):
            raise Unrecognised("__init__ statement " + ast.unparse(st)[:80])
        tgt = ast.unparse(st.targets[0])
        val = ast.unparse(st.value)
        if tgt in ("(self.typenumber, self.typecount)", "self.typenumber, self.typecount"):
            if val != "np.unique(self.snapshots.snapshots[0].particle_type, return_counts=True)":
                raise Unrecognised("typecount = " + val)
            order.append("typecount")
            continue
        if not tgt.startswith("self."):
            raise Unrecognised("__init__ target " + tgt)
        nm = tgt[5:]
        if nm in plain:
            if val != plain[nm]:
                raise Unrecognised(f"self.{nm} = {val}")
            continue
        if nm not in want or want[nm] is not None:
            raise Unrecognised(f"__init__ assigns self.{nm}")
        order.append(nm)
        if nm == "nidealfac":
            if val != "nidealfac(self.ndim)":
                raise Unrecognised("self.nidealfac = " + val)
            want[nm] = True
        elif nm == "maxbin":
            v = st.value
            if not (isinstance(v, ast.Call) and ast.unparse(v.func) == "int" and len(v.args) == 1 and not v.keywords):
                raise Unrecognised("self.maxbin = " + val)
            want[nm] = nexpr(v.args[0])
        else:
            want[nm] = nexpr(st.value)
    if any(v is None for v in want.values()):
        raise Unrecognised("__init__ misses " + ", ".join(k for k, v in want.items() if v is None))
    # definition order: boxvolume before rhototal / rhotype; typecount before rhotype
    for later, earlier in (("rhototal", "boxvolume"), ("rhotype", "boxvolume"), ("rhotype", "typecount")):
        if order.index(earlier) > order.index(later):
            raise Unrecognised(f"__init__: {later} defined before {earlier}")
    return want


def nidealfac_rows(repo):
    tree = ast.parse(read(repo, REL_F))
    fn = find_func(tree, "nidealfac")
    if [a.arg for a in fn.args.args] != ["ndim"]:
        raise Unrecognised("nidealfac parameters")
    rows = []
    body = strip_doc(fn.body)
    if len(body) != 1 or not isinstance(body[0], ast.If):
        raise Unrecognised("nidealfac body")
    node = body[0]
    while True:
        t = node.test
        if not (isinstance(t, ast.Compare) and len(t.ops) == 1 and isinstance(t.ops[0], ast.Eq) and ast.unparse(t.left) == "ndim"
                and isinstance(t.comparators[0], ast.Constant) and isinstance(t.comparators[0].value, int)):
            raise Unrecognised("nidealfac test " + ast.unparse(t))
        if not (len(node.body) == 1 and isinstance(node.body[0], ast.Return)):
            raise Unrecognised("nidealfac branch")
        rows.append((t.comparators[0].value, nexpr(node.body[0].value)))
        if len(node.orelse) == 1 and isinstance(node.orelse[0], ast.If):
            node = node.orelse[0]
            continue
        if len(node.orelse) == 1 and isinstance(node.orelse[0], ast.Raise):
            break
        raise Unrecognised("nidealfac else-branch")
    return rows


def lean_list(xs):
    return "[" + ", ".join('"' + x + '"' for x in xs) + "]"


@generator("gr")
def gen_gr(repo):
    tree = ast.parse(read(repo, REL))
    cls = find_class(tree, "gr")
    imports = [ast.unparse(st) for st in tree.body if isinstance(st, ast.ImportFrom)]
    if "from ..utils.funcs import nidealfac" not in imports or "from ..utils.pbc import remove_pbc" not in imports:
        raise Unrecognised("gr.py does not import nidealfac / remove_pbc from the utils package")
    out = ["import Pms.Model.GrTab",
           f"/-! REGENERATED by translator/gens/gr.py from {REL} and {REL_F} — do not edit -/",
           "namespace Pms.Gen.Gr", "open Pms.Gr", ""]
    for m in METHODS:
        columns, cols, nideal, rexpr = method(cls, m)
        out.append(f"def {m} : Method := {{")
        out.append(f"  name := \"{m}\",")
        out.append(f"  columns := {lean_list(columns)},")
        out.append("  cols := [")
        out.append(",\n".join(f"    {{ name := \"{c}\", a := {a}, b := {b}, sel := {sel},\n      norm := {norm} }}" for c, a, b, sel, norm in cols))
        out.append("  ],")
        out.append(f"  nideal := {nideal},")
        out.append(f"  r := {rexpr} }}")
        out.append("")
    out.append("def methods : List Method := [" + ", ".join(METHODS) + "]")
    out.append("")
    out.append("/-- rows of `getresults`: (comparison of len(typenumber), constant, method called), in source order -/")
    out.append("def dispatch : List (Cmp × Nat × String) := [" + ", ".join(f"({op}, {n}, \"{m}\")" for op, n, m in dispatch(cls)) + "]")
    out.append("")
    d = init_defs(cls)
    rows = nidealfac_rows(repo)
    out.append("def defs : Defs := {")
    out.append(f"  boxvolume := {d['boxvolume']},")
    out.append(f"  rhototal := {d['rhototal']},")
    out.append(f"  rhotype := {d['rhotype']},")
    out.append(f"  maxbinArg := {d['maxbin']},")
    out.append("  nidealfac := [" + ", ".join(f"({n}, {e})" for n, e in rows) + "] }")
    out.append("")
    out.append("end Pms.Gen.Gr")
    return [("Pms/Gen/Gr.lean", "\n".join(out) + "\n", [REL, REL_F])]
