"""G10 (C14 part): PyMatterSim/dynamic/time_corr.py -> lean/Pms/Gen/TimeCorr.lean

Regenerated, as data consumed by the interpreter `Pms.TimeCorr.Program.run` and by the theorems of Props/C14:
  * the linear/log detection expression `len(set(np.diff(timesteps))) <cmp> <k>` and which label each arm assigns;
  * for each of the six branches: the tested `len(condition.shape)`, which detection outcome selects it, the loop
    nest (double `n, nn` with inner bound `n + c`, single, or vectorised), which operand is conjugated and which frame
    index each operand reads, the slot of `results` that is updated and whether by `=` or `+=`, the reduction
    (`.sum().real` or per-particle `np.trace(np.matmul(..))`), where `counts[..] += 1` sits, whether `results /= counts` follows;
  * the index in `results /= results[0]`, the time-axis expression (shallow term), the column order and names.
Anything else in a recognised position raises Unrecognised (a broken tie)."""
import ast

from pms2lean import generator, Unrecognised, read, find_func, strip_doc, lean_str_list

REL = "PyMatterSim/dynamic/time_corr.py"

CMPS = {ast.Eq: "eq", ast.NotEq: "ne", ast.LtE: "le", ast.Lt: "lt", ast.GtE: "ge", ast.Gt: "gt"}


def u(n):
    return ast.unparse(n)


def _is_logger(st):
    return isinstance(st, ast.Expr) and isinstance(st.value, ast.Call) and u(st.value.func).startswith("logger.")


def _idx(e):
    s = u(e)
    table = {"n": "n", "nn": "nn", "n - nn": "nMinusNn", "0": "zero"}
    if s not in table:
        raise Unrecognised(f"frame/slot index `{s}`")
    return table[s]


def _operand(e, per_particle):
    """condition[IDX] | np.conj(condition[IDX])  (per particle: condition[IDX, i]) -> (conj, idx)"""
    conj = False
    if isinstance(e, ast.Call) and u(e.func) in ("np.conj", "np.conjugate") and len(e.args) == 1 and not e.keywords:
        conj, e = True, e.args[0]
    if not (isinstance(e, ast.Subscript) and u(e.value) == "condition"):
        raise Unrecognised(f"operand `{u(e)}`")
    sl = e.slice
    if per_particle:
        if not (isinstance(sl, ast.Tuple) and len(sl.elts) == 2 and u(sl.elts[1]) == "i"):
            raise Unrecognised(f"per-particle operand `{u(e)}`")
        return conj, _idx(sl.elts[0])
    if isinstance(sl, ast.Tuple):
        raise Unrecognised(f"operand `{u(e)}`")
    return conj, _idx(sl)


def _product(e, per_particle):
    """-> (kind, lhs, rhs)"""
    if per_particle:
        if isinstance(e, ast.Attribute) and e.attr == "real":
            e = e.value
        if not (isinstance(e, ast.Call) and u(e.func) == "np.trace" and len(e.args) == 1 and not e.keywords):
            raise Unrecognised(f"per-particle term `{u(e)}`")
        m = e.args[0]
        if not (isinstance(m, ast.Call) and u(m.func) == "np.matmul" and len(m.args) == 2 and not m.keywords):
            raise Unrecognised(f"per-particle term `{u(e)}`")
        return "tracePerParticle", _operand(m.args[0], True), _operand(m.args[1], True)
    # (X * Y).sum().real
    if not (isinstance(e, ast.Attribute) and e.attr == "real" and isinstance(e.value, ast.Call)
            and isinstance(e.value.func, ast.Attribute) and e.value.func.attr == "sum"
            and not e.value.args and not e.value.keywords):
        raise Unrecognised(f"term `{u(e)}`")
    prod = e.value.func.value
    if not (isinstance(prod, ast.BinOp) and isinstance(prod.op, ast.Mult)):
        raise Unrecognised(f"term `{u(e)}`")
    return "sumAll", _operand(prod.left, False), _operand(prod.right, False)


def _vectorised(e):
    """(OP * OP).sum(axis=1).real with OP ::= [np.conj(] condition | condition[0][np.newaxis, :] [)]"""
    if not (isinstance(e, ast.Attribute) and e.attr == "real" and isinstance(e.value, ast.Call)
            and isinstance(e.value.func, ast.Attribute) and e.value.func.attr == "sum" and not e.value.args
            and [(k.arg, u(k.value)) for k in e.value.keywords] == [("axis", "1")]):
        raise Unrecognised(f"vectorised term `{u(e)}`")
    prod = e.value.func.value
    if not (isinstance(prod, ast.BinOp) and isinstance(prod.op, ast.Mult)):
        raise Unrecognised(f"vectorised term `{u(e)}`")

    def opnd(x):
        conj = False
        if isinstance(x, ast.Call) and u(x.func) in ("np.conj", "np.conjugate") and len(x.args) == 1 and not x.keywords:
            conj, x = True, x.args[0]
        s = u(x)
        if s == "condition":
            return conj, "n"
        if s in ("condition[0][np.newaxis, :]", "condition[0][np.newaxis]", "condition[0][None, :]", "condition[0]"):
            return conj, "zero"
        raise Unrecognised(f"vectorised operand `{s}`")
    return "sumAll", opnd(prod.left), opnd(prod.right)


def _range_of(loop, var, want):
    if not (isinstance(loop, ast.For) and isinstance(loop.target, ast.Name) and loop.target.id == var and not loop.orelse
            and isinstance(loop.iter, ast.Call) and u(loop.iter.func) == "range" and len(loop.iter.args) == 1):
        raise Unrecognised(f"loop over `{var}`: `{u(loop)[:60]}`")
    a = u(loop.iter.args[0])
    if want is not None and a != want:
        raise Unrecognised(f"range of `{var}` is `{a}`, expected `{want}`")
    return loop.iter.args[0]


def _acc_stmt(st):
    """results[SLOT] (+=|=) EXPR -> (slot, assign, expr)"""
    if isinstance(st, ast.AugAssign) and isinstance(st.op, ast.Add):
        tgt, assign = st.target, False
    elif isinstance(st, ast.Assign) and len(st.targets) == 1:
        tgt, assign = st.targets[0], True
    else:
        raise Unrecognised(f"statement `{u(st)[:60]}`")
    if not (isinstance(tgt, ast.Subscript) and u(tgt.value) == "results"):
        raise Unrecognised(f"statement `{u(st)[:60]}`")
    return _idx(tgt.slice), assign, st.value


def _cnt_stmt(st):
    if not (isinstance(st, ast.AugAssign) and isinstance(st.op, ast.Add) and isinstance(st.target, ast.Subscript)
            and u(st.target.value) == "counts" and u(st.value) == "1"):
        raise Unrecognised(f"counts statement `{u(st)[:60]}`")
    return _idx(st.target.slice)


def _inner(body):
    """innermost statements of a loop nest -> dict(kind, slot, assign, lhs, rhs, counted, countSlot, countPerParticle)"""
    PART = "snapshots.snapshots[0].nparticle"
    out = {"counted": False, "countSlot": "zero", "countPerParticle": False}
    if body and isinstance(body[0], ast.For):
        _range_of(body[0], "i", PART)
        ib = body[0].body
        if not ib:
            raise Unrecognised("empty particle loop")
        slot, assign, expr = _acc_stmt(ib[0])
        kind, lhs, rhs = _product(expr, True)
        if len(ib) == 2:
            out.update(counted=True, countSlot=_cnt_stmt(ib[1]), countPerParticle=True)
        elif len(ib) != 1:
            raise Unrecognised("particle loop body")
        if len(body) == 2:
            if out["counted"]:
                raise Unrecognised("counts incremented twice")
            out.update(counted=True, countSlot=_cnt_stmt(body[1]), countPerParticle=False)
        elif len(body) != 1:
            raise Unrecognised("loop body after the particle loop")
    else:
        if not body:
            raise Unrecognised("empty loop body")
        slot, assign, expr = _acc_stmt(body[0])
        kind, lhs, rhs = _product(expr, False)
        if len(body) == 2:
            out.update(counted=True, countSlot=_cnt_stmt(body[1]))
        elif len(body) != 1:
            raise Unrecognised("loop body")
    out.update(kind=kind, slot=slot, assign=assign, lhs=lhs, rhs=rhs)
    return out


def _branch(stmts, shape_len, when_even):
    T = "snapshots.nsnapshots"
    b = {"shapeLen": shape_len, "whenEven": when_even, "double": False, "innerExtra": 0, "divCounts": False}
    if not stmts:
        raise Unrecognised("empty branch")
    first = stmts[0]
    rest = stmts[1:]
    if isinstance(first, ast.For):
        _range_of(first, "n", T)
        body = first.body
        if len(body) == 1 and isinstance(body[0], ast.For) and isinstance(body[0].target, ast.Name) and body[0].target.id == "nn":
            bound = _range_of(body[0], "nn", None)
            s = u(bound)
            if s == "n":
                extra = 0
            elif isinstance(bound, ast.BinOp) and isinstance(bound.op, ast.Add) and u(bound.left) == "n" \
                    and isinstance(bound.right, ast.Constant) and isinstance(bound.right.value, int) and bound.right.value >= 0:
                extra = bound.right.value
            else:
                raise Unrecognised(f"inner range `{s}`")
            b.update(double=True, innerExtra=extra)
            b.update(_inner(body[0].body))
        else:
            b.update(_inner(body))
            if "nn" in (b["slot"], b["lhs"][1], b["rhs"][1], b["countSlot"]) or "nMinusNn" in (b["slot"], b["lhs"][1], b["rhs"][1]):
                raise Unrecognised("`nn` used outside a loop over nn")
    elif isinstance(first, ast.Assign) and len(first.targets) == 1 and u(first.targets[0]) == "results":
        if shape_len != 2:
            raise Unrecognised("vectorised expression outside the scalar branch")
        kind, lhs, rhs = _vectorised(first.value)
        b.update(kind=kind, slot="n", assign=True, lhs=lhs, rhs=rhs, counted=False, countSlot="zero", countPerParticle=False)
    else:
        raise Unrecognised(f"branch starts with `{u(first)[:60]}`")
    if rest:
        if len(rest) == 1 and isinstance(rest[0], ast.AugAssign) and isinstance(rest[0].op, ast.Div) \
                and u(rest[0].target) == "results" and u(rest[0].value) == "counts":
            b["divCounts"] = True
        else:
            raise Unrecognised(f"after the loop nest: `{u(rest[0])[:60]}`")
    return b


class _AxisPrinter:
    """element-wise numpy expression in `timesteps` / `dt` -> Lean term for element k"""

    def p(self, e):
        if isinstance(e, ast.Name) and e.id == "timesteps":
            return "timesteps k"
        if isinstance(e, ast.Name) and e.id == "dt":
            return "dt"
        if isinstance(e, ast.Subscript) and u(e.value) == "timesteps" and isinstance(e.slice, ast.Constant) \
                and isinstance(e.slice.value, int) and e.slice.value >= 0:
            return f"timesteps {e.slice.value}"
        if isinstance(e, ast.BinOp):
            op = {ast.Add: "+", ast.Sub: "-", ast.Mult: "*", ast.Div: "/"}.get(type(e.op))
            if op is None:
                raise Unrecognised("time-axis operator")
            return f"({self.p(e.left)} {op} {self.p(e.right)})"
        if isinstance(e, ast.UnaryOp) and isinstance(e.op, ast.USub):
            return f"(-{self.p(e.operand)})"
        raise Unrecognised(f"time-axis expression `{u(e)}`")


def _lean_bool(x):
    return "true" if x else "false"


def _lean_branch(b):
    def opnd(o):
        return "{ conj := %s, frame := .%s }" % (_lean_bool(o[0]), o[1])
    return ("  { shapeLen := %d, whenEven := %s, double := %s, innerExtra := %d, kind := .%s, assign := %s, slot := .%s,\n"
            "    lhs := %s, rhs := %s,\n"
            "    counted := %s, countSlot := .%s, countPerParticle := %s, divCounts := %s }") % (
        b["shapeLen"], _lean_bool(b["whenEven"]), _lean_bool(b["double"]), b["innerExtra"], b["kind"], _lean_bool(b["assign"]),
        b["slot"], opnd(b["lhs"]), opnd(b["rhs"]), _lean_bool(b["counted"]), b["countSlot"], _lean_bool(b["countPerParticle"]),
        _lean_bool(b["divCounts"]))


@generator("timecorr")
def gen_timecorr(repo):
    src = read(repo, REL)
    tree = ast.parse(src)
    fn = find_func(tree, "time_correlation")
    params = [a.arg for a in fn.args.args]
    if params != ["snapshots", "condition", "dt", "outputfile"]:
        raise Unrecognised(f"time_correlation parameters {params}")
    body = [st for st in strip_doc(fn.body) if not _is_logger(st)]
    want_prelude = ["timesteps = np.array([snapshot.timestep for snapshot in snapshots.snapshots])"]
    if len(body) < 9:
        raise Unrecognised("time_correlation body too short")
    pos = 0
    if u(body[pos]) != want_prelude[0]:
        raise Unrecognised(f"timesteps definition `{u(body[pos])[:80]}`")
    pos += 1
    # detection
    det = body[pos]
    pos += 1
    if not (isinstance(det, ast.If) and isinstance(det.test, ast.Compare) and len(det.test.ops) == 1
            and u(det.test.left) == "len(set(np.diff(timesteps)))" and type(det.test.ops[0]) in CMPS
            and isinstance(det.test.comparators[0], ast.Constant) and isinstance(det.test.comparators[0].value, int)
            and not isinstance(det.test.comparators[0].value, bool) and det.test.comparators[0].value >= 0):
        raise Unrecognised(f"detection `{u(det.test) if isinstance(det, ast.If) else u(det)[:60]}`")
    cmp_, rhs = CMPS[type(det.test.ops[0])], det.test.comparators[0].value

    def label(stmts):
        if not (len(stmts) == 1 and isinstance(stmts[0], ast.Assign) and u(stmts[0].targets[0]) == "cal_type"
                and isinstance(stmts[0].value, ast.Constant) and isinstance(stmts[0].value.value, str)):
            raise Unrecognised("detection arm")
        return stmts[0].value.value
    then_label, else_label = label(det.body), label(det.orelse)
    if then_label == else_label:
        raise Unrecognised("both detection arms assign the same label")
    # arrays
    for want in ("results = np.zeros(snapshots.nsnapshots)", "counts = np.zeros_like(results)"):
        if u(body[pos]) != want:
            raise Unrecognised(f"expected `{want}`, found `{u(body[pos])[:80]}`")
        pos += 1
    # if / elif chain over len(condition.shape)
    chain = body[pos]
    pos += 1
    branches = []
    node = chain
    while True:
        if not (isinstance(node, ast.If) and isinstance(node.test, ast.Compare) and len(node.test.ops) == 1
                and isinstance(node.test.ops[0], ast.Eq) and u(node.test.left) == "len(condition.shape)"
                and isinstance(node.test.comparators[0], ast.Constant) and isinstance(node.test.comparators[0].value, int)):
            raise Unrecognised(f"shape dispatch `{u(node)[:60]}`")
        shape_len = node.test.comparators[0].value
        inner = node.body
        if not (len(inner) == 1 and isinstance(inner[0], ast.If) and isinstance(inner[0].test, ast.Compare)
                and len(inner[0].test.ops) == 1 and isinstance(inner[0].test.ops[0], ast.Eq)
                and u(inner[0].test.left) == "cal_type" and isinstance(inner[0].test.comparators[0], ast.Constant)):
            raise Unrecognised(f"cal_type dispatch in the branch for shape length {shape_len}")
        lab = inner[0].test.comparators[0].value
        if lab not in (then_label, else_label):
            raise Unrecognised(f"cal_type compared with unknown label {lab!r}")
        then_even = (lab == then_label)
        branches.append(_branch(inner[0].body, shape_len, then_even))
        if not inner[0].orelse:
            raise Unrecognised("cal_type dispatch without else")
        branches.append(_branch(inner[0].orelse, shape_len, not then_even))
        if len(node.orelse) == 1 and isinstance(node.orelse[0], ast.If):
            node = node.orelse[0]
            continue
        if not (len(node.orelse) == 1 and isinstance(node.orelse[0], ast.Raise)):
            raise Unrecognised("shape dispatch does not end in raise")
        break
    # normalisation
    nrm = body[pos]
    pos += 1
    # `results /= results[K]` or, equivalently for the model (which divides out of place), `results = results / results[K]`
    if isinstance(nrm, ast.Assign) and len(nrm.targets) == 1 and u(nrm.targets[0]) == "results" and isinstance(nrm.value, ast.BinOp) \
            and isinstance(nrm.value.op, ast.Div) and u(nrm.value.left) == "results":
        den = nrm.value.right
    elif isinstance(nrm, ast.AugAssign) and isinstance(nrm.op, ast.Div) and u(nrm.target) == "results":
        den = nrm.value
    else:
        raise Unrecognised(f"normalisation `{u(nrm)[:60]}`")
    if not (isinstance(den, ast.Subscript) and u(den.value) == "results"
            and isinstance(den.slice, ast.Constant) and isinstance(den.slice.value, int) and den.slice.value >= 0):
        raise Unrecognised(f"normalisation `{u(nrm)[:60]}`")
    norm_index = den.slice.value
    # time axis and columns
    stk = body[pos]
    pos += 1
    if not (isinstance(stk, ast.Assign) and u(stk.targets[0]) == "results" and isinstance(stk.value, ast.Call)
            and u(stk.value.func) == "np.column_stack" and len(stk.value.args) == 1 and isinstance(stk.value.args[0], ast.Tuple)
            and len(stk.value.args[0].elts) == 2):
        raise Unrecognised(f"column_stack `{u(stk)[:80]}`")
    c0, c1 = stk.value.args[0].elts
    order = []
    axis = None
    for c in (c0, c1):
        if u(c) == "results":
            order.append("results")
        else:
            axis = _AxisPrinter().p(c)
            order.append("time")
    if sorted(order) != ["results", "time"]:
        raise Unrecognised("column_stack arguments")
    df = body[pos]
    pos += 1
    if not (isinstance(df, ast.Assign) and u(df.targets[0]) == "results" and isinstance(df.value, ast.Call)
            and u(df.value.func) == "pd.DataFrame" and len(df.value.args) == 1 and u(df.value.args[0]) == "results"
            and [k.arg for k in df.value.keywords] == ["columns"]):
        raise Unrecognised(f"DataFrame `{u(df)[:80]}`")
    cols = df.value.keywords[0].value
    try:
        columns = list(ast.literal_eval(cols)) if not isinstance(cols, ast.Call) else None
    except Exception:
        columns = None
    if columns is None:
        if not (isinstance(cols, ast.Call) and isinstance(cols.func, ast.Attribute) and cols.func.attr == "split"
                and isinstance(cols.func.value, ast.Constant) and isinstance(cols.func.value.value, str) and not cols.args):
            raise Unrecognised("DataFrame columns")
        columns = cols.func.value.value.split()
    # tail: optional csv, return
    tail = body[pos:]
    for st in tail:
        if isinstance(st, ast.If) and u(st.test) == "outputfile" and not st.orelse and len(st.body) == 1 \
                and u(st.body[0]).startswith("results.to_csv("):
            continue
        if isinstance(st, ast.Return) and u(st.value) == "results":
            continue
        raise Unrecognised(f"tail statement `{u(st)[:60]}`")
    if not (tail and isinstance(tail[-1], ast.Return)):
        raise Unrecognised("no `return results`")

    out = ["import Pms.Model.TimeCorr", "/-! REGENERATED by translator/gens/timecorr.py from " + REL + " — do not edit -/",
           "namespace Pms.Gen.TimeCorr", "open Pms.TimeCorr", "",
           "/-- detection, the six branches in source order, normalisation index -/",
           "def program : Program := {",
           "  detect := { cmp := .%s, rhs := %d }," % (cmp_, rhs),
           "  branches := [",
           ",\n".join(_lean_branch(b) for b in branches) + "],",
           "  normIndex := %d }" % norm_index, "",
           "/-- labels assigned by the detection arms (then, else) -/",
           "def labels : List String := " + lean_str_list([then_label, else_label]), "",
           "/-- element k of the first column -/",
           "def timeAxis {α : Type} [Add α] [Sub α] [Mul α] [Div α] [Neg α] (timesteps : Nat → α) (dt : α) (k : Nat) : α :=",
           "  " + axis, "",
           "/-- order of the stacked columns and their names -/",
           "def stackOrder : List String := " + lean_str_list(order),
           "def columns : List String := " + lean_str_list(columns), "",
           "end Pms.Gen.TimeCorr"]
    return [("Pms/Gen/TimeCorr.lean", "\n".join(out) + "\n", [REL])]
