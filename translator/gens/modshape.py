"""Module shapes and pinned function bodies -> lean/Pms/Gen/ModShape.lean  (generator "modshape")

For every source file a property is anchored in (properties.jsonl, `anchors.files`):

  * `shape_<file>` : List String — the module's top level in source order: every import / assignment / other statement as
    unparsed text, every function as `@decorators def name(signature) -> ret`, every class as its header followed by its
    class-level statements and method headers.  State that could outlive a call lives here or in a decorator: a module-level
    cache (`_CACHE = {}`), a `global`, an `@lru_cache`, a mutable default argument (defaults are part of the signature), a
    class attribute.  Docstrings are dropped (comments never reach the AST).
  * `body_<file>__<qualname>` : List String — for the anchored routines whose statements are not regenerated semantically
    by another generator (C01, C02, C10, C15 have hand-written models tied by correspondence): every statement of the body
    as unparsed text (docstring and `logger.*(…)` calls dropped).

The hand-owned theorems `Cxx_module_shape` / `Cxx_body_shape` in `Pms/Props/CxxMod.lean` pin these lists (`rfl`): an edit of
the anchored code that no semantic generator sees still breaks a proof obligation of exactly the properties anchored there,
the search then looks for a failing input, and a harmless edit costs a `no-failing-input-found` report (DESIGN §3.3)."""
import ast
import json
import os

from pms2lean import generator, Unrecognised, read, strip_doc

HERE = os.path.dirname(os.path.dirname(os.path.dirname(os.path.abspath(__file__))))

# routines whose bodies are pinned here (file, qualified name)
BODIES = [
    ("PyMatterSim/reader/lammps_reader_helper.py", "read_lammps_wrapper"),
    ("PyMatterSim/reader/lammps_reader_helper.py", "read_lammps"),
    ("PyMatterSim/reader/dump_reader.py", "DumpReader.__init__"),
    ("PyMatterSim/reader/dump_reader.py", "DumpReader.read_onefile"),
    ("PyMatterSim/utils/pbc.py", "remove_pbc"),
    ("PyMatterSim/static/boo.py", "boo_2d.__init__"),
    ("PyMatterSim/static/boo.py", "boo_2d.lthorder"),
    ("PyMatterSim/static/boo.py", "boo_2d.time_average"),
    ("PyMatterSim/static/boo.py", "boo_2d.spatial_corr"),
    ("PyMatterSim/static/boo.py", "boo_2d.time_corr"),
    ("PyMatterSim/static/vector.py", "participation_ratio"),
    ("PyMatterSim/static/vector.py", "local_vector_alignment"),
    ("PyMatterSim/static/vector.py", "phase_quotient"),
    ("PyMatterSim/static/vector.py", "divergence_curl"),
    ("PyMatterSim/static/vector.py", "vibrability"),
    ("PyMatterSim/static/vector.py", "vector_decomposition_sq"),
    ("PyMatterSim/static/vector.py", "vector_fft_corr"),
    ("PyMatterSim/reader/reader_utils.py", "SingleSnapshot"),
    ("PyMatterSim/reader/reader_utils.py", "Snapshots"),
]


def anchored_files():
    fs = []
    with open(os.path.join(HERE, "properties.jsonl")) as f:
        for line in f:
            if line.strip():
                for x in json.loads(line)["anchors"]["files"]:
                    if x not in fs:
                        fs.append(x)
    for x, _ in BODIES:
        if x not in fs:
            fs.append(x)
    return sorted(fs)


def ident(s):
    return "".join(ch if ch.isalnum() else "_" for ch in s.replace("PyMatterSim/", "").replace(".py", ""))


def lean_string(s):
    out = []
    for ch in s:
        if ch == "\\":
            out.append("\\\\")
        elif ch == '"':
            out.append('\\"')
        elif ch == "\n":
            out.append("\\n")
        elif ch == "\t":
            out.append("\\t")
        elif 32 <= ord(ch) < 127:
            out.append(ch)
        else:
            out.append("\\u{%x}" % ord(ch))
    return '"' + "".join(out) + '"'


def lean_list(xs, indent="   "):
    if not xs:
        return "[]"
    return "[" + (",\n" + indent).join(lean_string(x) for x in xs) + "]"


def is_doc(st):
    return isinstance(st, ast.Expr) and isinstance(st.value, ast.Constant) and isinstance(st.value.value, str)


def is_log(st):
    return (isinstance(st, ast.Expr) and isinstance(st.value, ast.Call) and isinstance(st.value.func, ast.Attribute)
            and isinstance(st.value.func.value, ast.Name) and st.value.func.value.id == "logger")


def header(fn):
    decs = "".join("@" + ast.unparse(d) + " " for d in fn.decorator_list)
    ret = " -> " + ast.unparse(fn.returns) if fn.returns is not None else ""
    kw = "async def" if isinstance(fn, ast.AsyncFunctionDef) else "def"
    return f"{decs}{kw} {fn.name}({ast.unparse(fn.args)}){ret}"


def shape_of(tree):
    out = []
    for st in tree.body:
        if is_doc(st):
            continue
        if isinstance(st, (ast.FunctionDef, ast.AsyncFunctionDef)):
            out.append(header(st))
        elif isinstance(st, ast.ClassDef):
            decs = "".join("@" + ast.unparse(d) + " " for d in st.decorator_list)
            bases = ", ".join([ast.unparse(b) for b in st.bases] + [ast.unparse(k) for k in st.keywords])
            out.append(f"{decs}class {st.name}({bases})")
            for m in st.body:
                if is_doc(m):
                    continue
                if isinstance(m, (ast.FunctionDef, ast.AsyncFunctionDef)):
                    out.append("  " + header(m))
                else:
                    out.append("  " + ast.unparse(m))
        else:
            out.append(ast.unparse(st))
    return out


def find(tree, qual):
    node = tree
    for part in qual.split("."):
        for n in node.body:
            if isinstance(n, (ast.FunctionDef, ast.AsyncFunctionDef, ast.ClassDef)) and n.name == part:
                node = n
                break
        else:
            raise Unrecognised(f"{qual} not found")
    return node


def body_of(node):
    if isinstance(node, ast.ClassDef):
        return [ast.unparse(st) for st in node.body if not is_doc(st) and not isinstance(st, (ast.FunctionDef, ast.AsyncFunctionDef))]
    return [ast.unparse(st) for st in strip_doc(node.body) if not is_log(st)]


def collect(repo):
    """{lean name: [strings]} in a stable order, plus the source list"""
    defs = []
    files = anchored_files()
    trees = {}
    for rel in files:
        p = os.path.join(repo, rel)
        if not os.path.exists(p):
            raise Unrecognised(f"anchored file {rel} is missing")
        trees[rel] = ast.parse(read(repo, rel))
        defs.append(("shape_" + ident(rel), shape_of(trees[rel]), rel))
    for rel, qual in BODIES:
        defs.append(("body_" + ident(rel) + "__" + qual.replace(".", "_"), body_of(find(trees[rel], qual)), rel))
    return defs, files


@generator("modshape")
def gen_modshape(repo):
    defs, files = collect(repo)
    out = ["/-! REGENERATED by translator/gens/modshape.py from the anchored source files — do not edit.",
           "Module top levels (imports, module-level state, decorators and signatures) and the bodies of the routines whose",
           "statements no semantic generator reads, as unparsed text. -/", "namespace Pms.Gen.ModShape", ""]
    for name, xs, rel in defs:
        out.append(f"/-- {rel} -/")
        out.append(f"def {name} : List String :=\n  {lean_list(xs)}")
        out.append("")
    out.append("end Pms.Gen.ModShape")
    return [("Pms/Gen/ModShape.lean", "\n".join(out) + "\n", files)]
