"""G2 + G8 (C04): static/sq.py and utils/wavevector.py -> Pms/Gen/Sq.lean, Pms/Gen/Wave.lean (core only).

From every `sq.unary … sq.quinary` body the walker extracts, as data the model interprets:
  the column list, the accumulator keys, the unconditional accumulator, the if/elif/else species routing,
  the product statements  sqresults[col] += (exp_thetas[a] * np.conj(exp_thetas[b])).real,
  the divisor statements  sqresults[col] /= (self.nsnapshots * <nparticle | typecount[i] | sqrt(typecount[i]*typecount[j])>),
  the number of digits of the `round`, and (as text, decided against the expected text) the phase expression, the
  `exp(-1j*thetas)` expression and the group-by statement.
From `getresults` the dispatch rows, from `__init__` the wave-vector set-up (text + shallow arithmetic).
From `choosewavevector` the loop nest (bounds, perfect-square test, row), the axis filters, the zero-row removal and the
`onlypositive is True` filter.
Anything else in these bodies raises Unrecognised."""
import ast

from pms2lean import generator, Unrecognised, ExprPrinter, read, find_class, find_func, strip_doc, lean_escape

SQ = "PyMatterSim/static/sq.py"
WV = "PyMatterSim/utils/wavevector.py"
METHODS = ["unary", "binary", "ternary", "quarternary", "quinary"]


def q(s):
    return '"' + lean_escape(s) + '"'


def qlist(xs):
    return "[" + ", ".join(q(x) for x in xs) + "]"


def is_logger(st):
    return isinstance(st, ast.Expr) and isinstance(st.value, ast.Call) and ast.unparse(st.value.func).startswith("logger.")


def sub_key(node, base):
    """node is  base["key"]  ->  key"""
    if isinstance(node, ast.Subscript) and ast.unparse(node.value) == base and isinstance(node.slice, ast.Constant) \
            and isinstance(node.slice.value, str):
        return node.slice.value
    raise Unrecognised(f"expected {base}[\"…\"], got {ast.unparse(node)[:60]}")


def acc_ref(node, scalar):
    """exp_thetas (unary, scalar accumulator, named "all") or exp_thetas["k"]"""
    if scalar:
        if isinstance(node, ast.Name) and node.id == "exp_thetas":
            return "all"
        raise Unrecognised("scalar accumulator expected: " + ast.unparse(node)[:60])
    return sub_key(node, "exp_thetas")


def typecount_index(node):
    if isinstance(node, ast.Subscript) and ast.unparse(node.value) == "self.typecount" and isinstance(node.slice, ast.Constant) \
            and isinstance(node.slice.value, int) and not isinstance(node.slice.value, bool) and node.slice.value >= 0:
        return node.slice.value
    raise Unrecognised("expected self.typecount[<n>]: " + ast.unparse(node)[:60])


def divisor(node):
    """self.nsnapshots * X  ->  Lean Dv term"""
    if not (isinstance(node, ast.BinOp) and isinstance(node.op, ast.Mult) and ast.unparse(node.left) == "self.nsnapshots"):
        raise Unrecognised("divisor shape: " + ast.unparse(node)[:80])
    x = node.right
    if ast.unparse(x) == "self.nparticle":
        return "Dv.total"
    if isinstance(x, ast.Call) and isinstance(x.func, ast.Name) and x.func.id == "sqrt" and len(x.args) == 1 and not x.keywords:
        a = x.args[0]
        if isinstance(a, ast.BinOp) and isinstance(a.op, ast.Mult):
            return f"Dv.cross {typecount_index(a.left)} {typecount_index(a.right)}"
        raise Unrecognised("sqrt argument: " + ast.unparse(a)[:60])
    return f"Dv.diag {typecount_index(x)}"


def walk_method(fn):
    body = [st for st in strip_doc(fn.body) if not is_logger(st)]
    scalar = fn.name == "unary"
    m = {"name": fn.name, "products": [], "divisors": [], "chain": [], "else": None, "total": None}
    it = iter(body)
    st = next(it)
    # sqresults = pd.DataFrame(0, index=self.df_qvector.index, columns="…".split())
    if not (isinstance(st, ast.Assign) and ast.unparse(st.targets[0]) == "sqresults" and isinstance(st.value, ast.Call)
            and ast.unparse(st.value.func) == "pd.DataFrame" and len(st.value.args) == 1 and ast.unparse(st.value.args[0]) == "0"):
        raise Unrecognised(f"{fn.name}: sqresults initialiser")
    kws = {k.arg: k.value for k in st.value.keywords}
    if sorted(kws) != ["columns", "index"] or ast.unparse(kws["index"]) != "self.df_qvector.index":
        raise Unrecognised(f"{fn.name}: DataFrame keywords")
    c = kws["columns"]
    if not (isinstance(c, ast.Call) and isinstance(c.func, ast.Attribute) and c.func.attr == "split" and not c.args
            and isinstance(c.func.value, ast.Constant) and isinstance(c.func.value.value, str)):
        raise Unrecognised(f"{fn.name}: columns expression")
    m["columns"] = c.func.value.value.split()
    st = next(it)
    if ast.unparse(st) != "sqresults['q'] = self.qvalue":
        raise Unrecognised(f"{fn.name}: q column: {ast.unparse(st)[:60]}")
    st = next(it)
    if not (isinstance(st, ast.For) and ast.unparse(st.target) == "snapshot" and ast.unparse(st.iter) == "self.snapshots.snapshots" and not st.orelse):
        raise Unrecognised(f"{fn.name}: frame loop")
    fb = list(st.body)
    # accumulator initialiser
    s0 = fb[0]
    if not (isinstance(s0, ast.Assign) and ast.unparse(s0.targets[0]) == "exp_thetas"):
        raise Unrecognised(f"{fn.name}: accumulator initialiser")
    if scalar:
        if ast.unparse(s0.value) != "0":
            raise Unrecognised("unary accumulator")
        m["buckets"] = ["all"]
    else:
        if not (isinstance(s0.value, ast.Dict) and all(isinstance(k, ast.Constant) and isinstance(k.value, str) for k in s0.value.keys)
                and all(ast.unparse(v) == "0" for v in s0.value.values)):
            raise Unrecognised(f"{fn.name}: accumulator dict")
        m["buckets"] = [k.value for k in s0.value.keys]
    # particle loop
    pl = fb[1]
    if not (isinstance(pl, ast.For) and ast.unparse(pl.target) == "i" and ast.unparse(pl.iter) == "range(snapshot.nparticle)" and not pl.orelse):
        raise Unrecognised(f"{fn.name}: particle loop")
    pb = list(pl.body)
    if not (isinstance(pb[0], ast.Assign) and ast.unparse(pb[0].targets[0]) == "thetas"):
        raise Unrecognised(f"{fn.name}: thetas")
    m["thetas"] = ast.unparse(pb[0].value)
    if scalar:
        if not (len(pb) == 2 and isinstance(pb[1], ast.AugAssign) and isinstance(pb[1].op, ast.Add)
                and acc_ref(pb[1].target, True) == "all"):
            raise Unrecognised("unary particle loop")
        m["medium"] = ast.unparse(pb[1].value)
        m["total"] = "all"
    else:
        if not (isinstance(pb[1], ast.Assign) and ast.unparse(pb[1].targets[0]) == "medium"):
            raise Unrecognised(f"{fn.name}: medium")
        m["medium"] = ast.unparse(pb[1].value)
        if not (len(pb) == 4 and isinstance(pb[2], ast.AugAssign) and isinstance(pb[2].op, ast.Add) and ast.unparse(pb[2].value) == "medium"):
            raise Unrecognised(f"{fn.name}: unconditional accumulation")
        m["total"] = acc_ref(pb[2].target, False)
        node = pb[3]
        while True:
            if not isinstance(node, ast.If):
                raise Unrecognised(f"{fn.name}: routing chain")
            t = node.test
            if not (isinstance(t, ast.Compare) and len(t.ops) == 1 and isinstance(t.ops[0], ast.Eq)
                    and ast.unparse(t.left) == "snapshot.particle_type[i]" and isinstance(t.comparators[0], ast.Constant)
                    and isinstance(t.comparators[0].value, int) and not isinstance(t.comparators[0].value, bool)
                    and t.comparators[0].value >= 0):
                raise Unrecognised(f"{fn.name}: routing test {ast.unparse(t)[:60]}")

            def one_add(stmts):
                if not (len(stmts) == 1 and isinstance(stmts[0], ast.AugAssign) and isinstance(stmts[0].op, ast.Add)
                        and ast.unparse(stmts[0].value) == "medium"):
                    raise Unrecognised(f"{fn.name}: routing branch body")
                return acc_ref(stmts[0].target, False)
            m["chain"].append((t.comparators[0].value, one_add(node.body)))
            if len(node.orelse) == 1 and isinstance(node.orelse[0], ast.If):
                node = node.orelse[0]
                continue
            if not node.orelse:
                break
            m["else"] = one_add(node.orelse)
            break
    # products
    for st in fb[2:]:
        if not (isinstance(st, ast.AugAssign) and isinstance(st.op, ast.Add)):
            raise Unrecognised(f"{fn.name}: product statement {ast.unparse(st)[:60]}")
        col = sub_key(st.target, "sqresults")
        v = st.value
        if not (isinstance(v, ast.Attribute) and v.attr == "real" and isinstance(v.value, ast.BinOp) and isinstance(v.value.op, ast.Mult)):
            raise Unrecognised(f"{fn.name}: product value {ast.unparse(v)[:60]}")
        lhs, rhs = v.value.left, v.value.right
        if not (isinstance(rhs, ast.Call) and ast.unparse(rhs.func) == "np.conj" and len(rhs.args) == 1 and not rhs.keywords):
            raise Unrecognised(f"{fn.name}: conj operand {ast.unparse(rhs)[:60]}")
        m["products"].append((col, acc_ref(lhs, scalar), acc_ref(rhs.args[0], scalar)))
    # after the frame loop: divisors, csv blocks, round, group, return
    m["round"] = None
    m["group"] = None
    ret = None
    for st in it:
        if isinstance(st, ast.AugAssign) and isinstance(st.op, ast.Div):
            if m["round"] is not None:
                raise Unrecognised(f"{fn.name}: divisor after rounding")
            m["divisors"].append((sub_key(st.target, "sqresults"), divisor(st.value)))
        elif isinstance(st, ast.If) and ast.unparse(st.test) in ("self.saveqvectors", "self.outputfile") and not st.orelse \
                and all(isinstance(x, ast.Expr) and isinstance(x.value, ast.Call) and ast.unparse(x.value.func).endswith(".to_csv") for x in st.body):
            continue    # csv output: glue, covered by the correspondence (file vs returned frame)
        elif isinstance(st, ast.Assign) and ast.unparse(st.targets[0]) == "sqresults" and isinstance(st.value, ast.Call) \
                and ast.unparse(st.value.func) == "sqresults.round" and len(st.value.args) == 1 and not st.value.keywords \
                and isinstance(st.value.args[0], ast.Constant) and isinstance(st.value.args[0].value, int) \
                and not isinstance(st.value.args[0].value, bool) and st.value.args[0].value >= 0 and m["round"] is None:
            m["round"] = st.value.args[0].value
        elif isinstance(st, ast.Assign) and ast.unparse(st.targets[0]) == "results" and m["round"] is not None and m["group"] is None:
            m["group"] = ast.unparse(st.value)
        elif isinstance(st, ast.Return) and m["group"] is not None:
            ret = ast.unparse(st.value)
        else:
            raise Unrecognised(f"{fn.name}: statement {ast.unparse(st)[:80]}")
    if ret != "results" or m["round"] is None:
        raise Unrecognised(f"{fn.name}: tail (round/group/return)")
    return m


def lean_method(m):
    chain = ", ".join(f"({t}, {q(b)})" for t, b in m["chain"])
    prods = ",\n      ".join(f"({q(c)}, {q(a)}, {q(b)})" for c, a, b in m["products"])
    divs = ",\n      ".join(f"({q(c)}, {d})" for c, d in m["divisors"])
    els = "none" if m["else"] is None else f"some {q(m['else'])}"
    return "\n".join([
        f"def {m['name']} : Method where",
        f"  name := {q(m['name'])}",
        f"  columns := {qlist(m['columns'])}",
        f"  buckets := {qlist(m['buckets'])}",
        f"  totalBucket := {q(m['total'])}",
        f"  chain := [{chain}]",
        f"  elseBucket := {els}",
        f"  products := [\n      {prods}]",
        f"  divisors := [\n      {divs}]",
        f"  roundDigits := {m['round']}",
        f"  shape := {qlist([m['thetas'], m['medium'], m['group']])}",
        ""])


@generator("sq")
def gen_sq(repo):
    src = read(repo, SQ)
    tree = ast.parse(src)
    cls = find_class(tree, "sq")
    out = ["import Pms.Model.Sq", f"/-! REGENERATED by translator/gens/sq.py from {SQ} — do not edit -/",
           "namespace Pms.Gen.Sq", "open Pms.Sq", ""]
    for name in METHODS:
        out.append(lean_method(walk_method(find_func(cls, name))))
    out.append("def methods : List Method := [" + ", ".join(METHODS) + "]")
    out.append("")
    # dispatch
    rows = []
    for st in strip_doc(find_func(cls, "getresults").body):
        if not (isinstance(st, ast.If) and not st.orelse):
            raise Unrecognised("getresults statement " + ast.unparse(st)[:60])
        t = st.test
        if not (isinstance(t, ast.Compare) and len(t.ops) == 1 and ast.unparse(t.left) == "len(self.typenumber)"
                and isinstance(t.comparators[0], ast.Constant) and isinstance(t.comparators[0].value, int)
                and not isinstance(t.comparators[0].value, bool) and t.comparators[0].value >= 0):
            raise Unrecognised("getresults test " + ast.unparse(t)[:60])
        op = {ast.Eq: "==", ast.Gt: ">", ast.GtE: ">=", ast.Lt: "<", ast.LtE: "<="}.get(type(t.ops[0]))
        if op is None:
            raise Unrecognised("getresults comparison")
        b = [x for x in st.body if not is_logger(x)]
        if not (len(b) == 1 and isinstance(b[0], ast.Return) and isinstance(b[0].value, ast.Call) and not b[0].value.args
                and not b[0].value.keywords and isinstance(b[0].value.func, ast.Attribute) and ast.unparse(b[0].value.func.value) == "self"):
            raise Unrecognised("getresults branch " + ast.unparse(st)[:80])
        rows.append((op, t.comparators[0].value, b[0].value.func.attr))
    out.append("/-- (comparison, constant, method) rows of `getresults`, tested against len(typenumber) in source order -/")
    out.append("def dispatch : List (String × Nat × String) := [" + ", ".join(f"({q(o)}, {n}, {q(mm)})" for o, n, mm in rows) + "]")
    out.append("")
    # __init__: wave-vector set-up
    init = find_func(cls, "__init__")
    stmts = [st for st in strip_doc(init.body) if not is_logger(st)]
    texts = [ast.unparse(st) for st in stmts]
    try:
        k = next(i for i, t in enumerate(texts) if t.startswith("ndim = "))
    except StopIteration:
        raise Unrecognised("__init__: no `ndim = …`")
    out.append("/-- statements of `sq.__init__` from `ndim = …` on (wave-vector set-up), unparsed -/")
    out.append("def initSrc : List String := [\n  " + ",\n  ".join(q(t) for t in texts[k:]) + "]")
    out.append("/-- statements of `sq.__init__` before that which bind an attribute used by the methods -/")
    keep = [t for t in texts[:k] if t.split(" = ")[0] in ("self.nsnapshots", "self.nparticle", "(self.typenumber, self.typecount)", "self.typenumber, self.typecount")]
    out.append("def initAttrs : List String := [\n  " + ",\n  ".join(q(t) for t in keep) + "]")
    out.append("")
    # shallow arithmetic of twopidl / numofq
    tw = nq = None
    for st in ast.walk(init):
        if isinstance(st, ast.Assign) and isinstance(st.targets[0], ast.Name):
            if st.targets[0].id == "twopidl":
                tw = st.value
            if st.targets[0].id == "numofq":
                nq = st.value
    if tw is None or nq is None:
        raise Unrecognised("__init__: twopidl / numofq not found")
    if not (isinstance(tw, ast.BinOp) and isinstance(tw.op, ast.Div) and ast.unparse(tw.right) == "self.snapshots.snapshots[0].boxlength"):
        raise Unrecognised("twopidl shape")
    if not (isinstance(nq, ast.Call) and isinstance(nq.func, ast.Name) and nq.func.id == "int" and len(nq.args) == 1):
        raise Unrecognised("numofq shape")

    class Ren(ast.NodeTransformer):
        def visit_Call(self, node):
            if ast.unparse(node) == "twopidl.min()":
                return ast.Name(id="twopidl_min")
            return self.generic_visit(node)
    nq_text = ast.unparse(nq)
    nq_arg = Ren().visit(nq.args[0])
    for ty, pi in (("Float", None), ("Rat", "pi")):
        pr = ExprPrinter("float" if ty == "Float" else "field")
        pr.ty = ty
        extra = "" if pi is None else f"(pi : {ty}) "
        out.append(f"/-- `twopidl = {ast.unparse(tw)}` per axis -/")
        out.append(f"def twopidl{ty[0]} {extra}(boxlength : {ty}) : {ty} := ({pr.p(tw.left)} / boxlength)")
        out.append(f"/-- the argument of `int(…)` in `numofq = {nq_text}` -/")
        out.append(f"def numofqArg{ty[0]} (qrange twopidl_min : {ty}) : {ty} := {pr.p(nq_arg)}")
    out.append("")
    out.append("end Pms.Gen.Sq")
    return [("Pms/Gen/Sq.lean", "\n".join(out) + "\n", [SQ])]


# --------------------------------------------------------------------------- G8: choosewavevector

def cond_terms(node):
    """(qvectors[:, a] > 0) * (qvectors[:, b] == 0) * …  ->  [(a, ">"), (b, "==")]"""
    if isinstance(node, ast.BinOp) and isinstance(node.op, ast.Mult):
        return cond_terms(node.left) + cond_terms(node.right)
    if isinstance(node, ast.Compare) and len(node.ops) == 1 and ast.unparse(node.comparators[0]) == "0":
        l = node.left
        if isinstance(l, ast.Subscript) and ast.unparse(l.value) == "qvectors" and isinstance(l.slice, ast.Tuple) and len(l.slice.elts) == 2 \
                and ast.unparse(l.slice.elts[0]) == ":" and isinstance(l.slice.elts[1], ast.Constant) and isinstance(l.slice.elts[1].value, int):
            op = {ast.Gt: "Cmp.gt0", ast.Eq: "Cmp.eq0", ast.GtE: "Cmp.ge0", ast.Lt: "Cmp.lt0", ast.LtE: "Cmp.le0", ast.NotEq: "Cmp.ne0"}.get(type(node.ops[0]))
            if op:
                return [(l.slice.elts[1].value, op)]
    raise Unrecognised("axis filter condition " + ast.unparse(node)[:80])


def bound(node, var="nhalf"):
    if isinstance(node, ast.Name) and node.id == var:
        return "Bnd.pos"
    if isinstance(node, ast.UnaryOp) and isinstance(node.op, ast.USub) and isinstance(node.operand, ast.Name) and node.operand.id == var:
        return "Bnd.neg"
    if isinstance(node, ast.Constant) and node.value == 0:
        return "Bnd.zero"
    raise Unrecognised("loop bound " + ast.unparse(node)[:40])


def walk_branch(ifnode, ndim):
    body = list(ifnode.body)
    if ast.unparse(body[0]) != "index = 0":
        raise Unrecognised(f"ndim {ndim}: index initialiser")
    loops, node = [], body[1]
    while isinstance(node, ast.For):
        if not (isinstance(node.target, ast.Name) and isinstance(node.iter, ast.Call) and ast.unparse(node.iter.func) == "range"
                and len(node.iter.args) == 2 and not node.orelse and len(node.body) == 1):
            raise Unrecognised(f"ndim {ndim}: loop shape")
        loops.append((node.target.id, bound(node.iter.args[0]), bound(node.iter.args[1])))
        node = node.body[0]
    names = [l[0] for l in loops]
    if len(set(names)) != len(names):
        raise Unrecognised("repeated loop variable")
    if not (isinstance(node, ast.If) and not node.orelse and len(node.body) == 2):
        raise Unrecognised(f"ndim {ndim}: innermost statement")
    t = node.test
    # modf(sqrt(<sum of squares>))[0] == 0
    if not (isinstance(t, ast.Compare) and len(t.ops) == 1 and isinstance(t.ops[0], ast.Eq) and ast.unparse(t.comparators[0]) == "0"
            and isinstance(t.left, ast.Subscript) and ast.unparse(t.left.slice) == "0" and isinstance(t.left.value, ast.Call)
            and ast.unparse(t.left.value.func) == "modf" and len(t.left.value.args) == 1 and isinstance(t.left.value.args[0], ast.Call)
            and ast.unparse(t.left.value.args[0].func) == "sqrt" and len(t.left.value.args[0].args) == 1):
        raise Unrecognised(f"ndim {ndim}: perfect-square test {ast.unparse(t)[:60]}")

    def squares(e):
        if isinstance(e, ast.BinOp) and isinstance(e.op, ast.Add):
            return squares(e.left) + squares(e.right)
        if isinstance(e, ast.BinOp) and isinstance(e.op, ast.Pow) and isinstance(e.left, ast.Name) and e.left.id in names \
                and isinstance(e.right, ast.Constant) and e.right.value == 2:
            return [names.index(e.left.id)]
        if isinstance(e, ast.BinOp) and isinstance(e.op, ast.Mult) and isinstance(e.left, ast.Name) and isinstance(e.right, ast.Name) \
                and e.left.id == e.right.id and e.left.id in names:
            return [names.index(e.left.id)]
        raise Unrecognised("sum of squares " + ast.unparse(e)[:60])
    sq = squares(t.left.value.args[0].args[0])
    a, inc = node.body
    if not (isinstance(a, ast.Assign) and ast.unparse(a.targets[0]) == "qvectors[index]" and isinstance(a.value, ast.List)
            and all(isinstance(x, ast.Name) and x.id in names for x in a.value.elts)):
        raise Unrecognised(f"ndim {ndim}: row assignment")
    row = [names.index(x.id) for x in a.value.elts]
    if ast.unparse(inc) != "index += 1":
        raise Unrecognised(f"ndim {ndim}: index increment")
    # axis filters
    filters = []
    rest = body[2:]
    if rest:
        if len(rest) != 1:
            raise Unrecognised(f"ndim {ndim}: statements after the loop nest")
        node = rest[0]
        while True:
            if not isinstance(node, ast.If):
                raise Unrecognised("axis filter chain")
            t = node.test
            if not (isinstance(t, ast.Compare) and len(t.ops) == 1 and isinstance(t.ops[0], ast.Eq) and ast.unparse(t.left) == "onlypositive"
                    and isinstance(t.comparators[0], ast.Constant) and isinstance(t.comparators[0].value, str)):
                raise Unrecognised("axis filter test " + ast.unparse(t)[:60])
            b = node.body
            if not (len(b) == 2 and isinstance(b[0], ast.Assign) and ast.unparse(b[0].targets[0]) == "condition"
                    and ast.unparse(b[1]) == "qvectors = qvectors[condition]"):
                raise Unrecognised("axis filter body")
            filters.append((t.comparators[0].value, cond_terms(b[0].value)))
            if len(node.orelse) == 1 and isinstance(node.orelse[0], ast.If):
                node = node.orelse[0]
                continue
            if node.orelse:
                raise Unrecognised("axis filter else")
            break
    ltxt = ", ".join(f"({lo}, {hi})" for _, lo, hi in loops)
    ftxt = ", ".join("(%s, [%s])" % (q(k), ", ".join(f"({c}, {o})" for c, o in terms)) for k, terms in filters)
    return (f"  {{ ndim := {ndim}, loops := [{ltxt}], squares := {sq}, row := {row},\n"
            f"    filters := [{ftxt}] }}")


@generator("wave")
def gen_wave(repo):
    src = read(repo, WV)
    tree = ast.parse(src)
    fn = find_func(tree, "choosewavevector")
    if [a.arg for a in fn.args.args] != ["ndim", "numofq", "onlypositive"]:
        raise Unrecognised("choosewavevector parameters")
    body = strip_doc(fn.body)
    texts = [ast.unparse(st) for st in body]
    branches, other = [], []
    for st in body:
        if isinstance(st, ast.If) and isinstance(st.test, ast.Compare) and ast.unparse(st.test.left) == "ndim" \
                and isinstance(st.test.ops[0], ast.Eq) and isinstance(st.test.comparators[0], ast.Constant) and not st.orelse:
            branches.append(walk_branch(st, st.test.comparators[0].value))
        else:
            other.append(ast.unparse(st))
    out = ["import Pms.Model.Wave", f"/-! REGENERATED by translator/gens/sq.py from {WV} — do not edit -/",
           "namespace Pms.Gen.Wave", "open Pms.Wave", "",
           "/-- one entry per `if ndim == d:` block of choosewavevector: loop bounds (in terms of ±nhalf), indices of the loop",
           "variables squared inside `modf(sqrt(…))[0] == 0`, indices of the loop variables written to the row, axis filters -/",
           "def branches : List Branch := [", ",\n".join(branches) + "]", "",
           "/-- every other statement of choosewavevector, unparsed, in order (allocation, nhalf, zero-row removal, bool filter, return) -/",
           "def frame : List String := [\n  " + ",\n  ".join(q(t) for t in other) + "]", "",
           "end Pms.Gen.Wave"]
    return [("Pms/Gen/Wave.lean", "\n".join(out) + "\n", [WV])]
