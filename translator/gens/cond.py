"""C13: regenerate Pms/Gen/Cond.lean from PyMatterSim/static/gr.py::conditional_gr, static/sq.py::conditional_sq and
utils/funcs.py::nidealfac.

conditional_gr: the dtype / `conditiontype` if-chain as a decision tree whose leaves say what the branch does (cast to
int, `Natom = condition.sum()`, `np.conj` vs `.copy()`, `norminator`); the `if not conditiontype … elif …` chain of pair
loops with the `SIJ` expression of each loop (which operand is the conjugated array, which particle it indexes, product /
dot / trace); the normalisation statements in source order (`nideal`, `r`, the two `rhototal` assignments, `gr`, `gA`) and
the statements under `if norminator:`; the argument of `int(…)` in `maxbin`.
conditional_sq: one row per branch (test, selected-particle loop or all particles, what multiplies the phase, the divisor
under the square root, |·|² or its sum over components, the FFT columns), the rounding, the group-by.
The glue between these fragments must have exactly the known text, otherwise `Unrecognised` (a broken tie)."""
import ast
from fractions import Fraction

from pms2lean import Unrecognised, find_func, generator, read, strip_doc

REL_G = "PyMatterSim/static/gr.py"
REL_S = "PyMatterSim/static/sq.py"
REL_F = "PyMatterSim/utils/funcs.py"

DTYPES = {"bool": "bool", "np.bool_": "bool", "int64": "int64", "int": "int64", "float32": "float32", "float64": "float64",
          "float": "float64", "complex64": "complex64", "complex128": "complex128", "complex": "complex128",
          "np.complex128": "complex128", "np.complex64": "complex64", "np.float64": "float64", "np.float32": "float32",
          "np.int64": "int64"}
COMPLEX_TESTS = {"np.iscomplexobj(condition)", "np.issubdtype(condition.dtype, np.complexfloating)", "condition.dtype.kind == 'c'",
                 "np.iscomplex(condition).any() or np.iscomplexobj(condition)"}
ATOMS = {
    "snapshot.nparticle": "npart", "Natom": "natom", "np.prod(snapshot.boxlength)": "prodbox",
    "snapshot.boxlength.min()": "minbox", "np.pi": "pi", "nidealfac(ndim)": "nidealfac", "nideal": "nideal",
    "rhototal": "rhototal", "binleft": "binleft", "binright": "binright", "rdelta": "rdelta",
    "mean_square": "meanSquare", "square_mean": "squareMean",
    "condition.mean()": "condMean", "np.mean(condition)": "condMean",
    "np.square(condition).mean()": "condSqMean", "np.mean(np.square(condition))": "condSqMean",
    "(condition ** 2).mean()": "condSqMean", "np.mean(condition ** 2)": "condSqMean",
}
COLS = {"r": "colR", "gr": "colGr", "gA": "colGA", "gA_norm": "colGAnorm"}
TARGETS = {"nideal": "nideal", "rhototal": "rhototal", "mean_square": "meanSquare", "square_mean": "squareMean"}
HIST = "np.histogram(distance, bins=maxbin, range=(0, maxbin * rdelta))"
HISTW = "np.histogram(distance, bins=maxbin, range=(0, maxbin * rdelta), weights=SIJ)"
LOOP_HEAD = ["RIJ = snapshot.positions[i + 1:] - snapshot.positions[i]",
             "RIJ = remove_pbc(RIJ, snapshot.hmatrix, ppp)",
             "distance = np.linalg.norm(RIJ, axis=1)",
             "countvalue, binedge = " + HIST,
             "grresults['gr'] += countvalue"]
LOOP_TAIL = ["countvalue, binedge = " + HISTW, "grresults['gA'] += countvalue"]


def is_logger(st):
    return isinstance(st, ast.Expr) and isinstance(st.value, ast.Call) and ast.unparse(st.value.func).startswith("logger.")


def clean(body):
    return [st for st in strip_doc(body) if not is_logger(st)]


def lit(v):
    if isinstance(v, bool):
        raise Unrecognised("boolean literal")
    if isinstance(v, int) and v >= 0:
        return f"(.lit {v})"
    if isinstance(v, float) and v >= 0:
        q = Fraction(repr(v))
        return f"(.lit {q.numerator})" if q.denominator == 1 else f"(.div (.lit {q.numerator}) (.lit {q.denominator}))"
    raise Unrecognised(f"constant {v!r}")


def cexpr(e):
    """Python arithmetic -> Lean `CExpr`"""
    txt = ast.unparse(e)
    if txt in ATOMS:
        return f"(.atom .{ATOMS[txt]})"
    if isinstance(e, ast.Subscript) and ast.unparse(e.value) == "grresults" and isinstance(e.slice, ast.Constant) and e.slice.value in COLS:
        return f"(.atom .{COLS[e.slice.value]})"
    if isinstance(e, ast.Constant):
        return lit(e.value)
    if isinstance(e, ast.Call) and ast.unparse(e.func) == "np.square" and len(e.args) == 1 and not e.keywords:
        return f"(.square {cexpr(e.args[0])})"
    if isinstance(e, ast.BinOp):
        if isinstance(e.op, ast.Pow):
            if ast.unparse(e.right) == "ndim":
                return f"(.powNdim {cexpr(e.left)})"
            if isinstance(e.right, ast.Constant) and e.right.value == 2 and not isinstance(e.right.value, bool):
                return f"(.square {cexpr(e.left)})"
            raise Unrecognised("exponent " + ast.unparse(e.right))
        op = {ast.Add: "add", ast.Sub: "sub", ast.Mult: "mul", ast.Div: "div"}.get(type(e.op))
        if op is None:
            raise Unrecognised("operator " + type(e.op).__name__)
        return f"(.{op} {cexpr(e.left)} {cexpr(e.right)})"
    raise Unrecognised("expression " + txt[:100])


def stmt(st):
    """`x = e` with x a known local or grresults[col] -> Lean `Stmt`"""
    if not (isinstance(st, ast.Assign) and len(st.targets) == 1):
        raise Unrecognised("normalisation statement " + ast.unparse(st)[:80])
    t = st.targets[0]
    if isinstance(t, ast.Name) and t.id in TARGETS:
        tgt = TARGETS[t.id]
    elif isinstance(t, ast.Subscript) and ast.unparse(t.value) == "grresults" and isinstance(t.slice, ast.Constant) and t.slice.value in COLS:
        tgt = COLS[t.slice.value]
    else:
        raise Unrecognised("normalisation target " + ast.unparse(t)[:60])
    return f"{{ target := .{tgt}, rhs := {cexpr(st.value)} }}"


# --------------------------------------------------------------------------- tests

def dtype_name(e):
    if isinstance(e, ast.Constant) and isinstance(e.value, str):
        k = e.value
    else:
        k = ast.unparse(e)
    if k not in DTYPES:
        raise Unrecognised(f"dtype name {k!r}")
    return DTYPES[k]


def dtest(t):
    """test on `condition` -> Lean `DTest` or None"""
    txt = ast.unparse(t)
    if txt in COMPLEX_TESTS:
        return ".isComplex"
    if txt in ("len(condition.shape) > 1", "condition.ndim > 1", "len(condition.shape) >= 2", "condition.ndim >= 2"):
        return ".shapeGt1"
    if isinstance(t, ast.Compare) and len(t.ops) == 1 and isinstance(t.ops[0], ast.Eq) and ast.unparse(t.left) == "condition.dtype":
        return f'(.dtypeEq "{dtype_name(t.comparators[0])}")'
    return None


def ctest(t):
    """test on `conditiontype` -> Lean `CTest` or None"""
    if isinstance(t, ast.UnaryOp) and isinstance(t.op, ast.Not) and ast.unparse(t.operand) == "conditiontype":
        return ".falsy"
    if isinstance(t, ast.Compare) and len(t.ops) == 1 and isinstance(t.ops[0], ast.Eq) and ast.unparse(t.left) == "conditiontype" \
            and isinstance(t.comparators[0], ast.Constant) and isinstance(t.comparators[0].value, str):
        s = t.comparators[0].value
        if not s.isalnum():
            raise Unrecognised(f"conditiontype literal {s!r}")
        return f'(.eq "{s}")'
    return None


# --------------------------------------------------------------------------- conditional_gr

def prep_leaf(body):
    flags = {"castInt": False, "natomSum": False, "conj": None, "norm": False}
    for st in body:
        txt = ast.unparse(st)
        if txt == "condition = condition.astype(np.int32)":
            if flags["conj"] is not None or flags["natomSum"]:
                raise Unrecognised("cast after conj_condition / Natom")
            flags["castInt"] = True
        elif txt == "Natom = condition.sum()":
            flags["natomSum"] = True
        elif txt == "conj_condition = np.conj(condition)":
            if flags["conj"] is not None:
                raise Unrecognised("conj_condition assigned twice")
            flags["conj"] = True
        elif txt == "conj_condition = condition.copy()":
            if flags["conj"] is not None:
                raise Unrecognised("conj_condition assigned twice")
            flags["conj"] = False
        elif txt == "norminator = True":
            flags["norm"] = True
        else:
            raise Unrecognised("branch statement " + txt[:80])
    if flags["conj"] is None:
        raise Unrecognised("branch does not define conj_condition")
    b = lambda v: "true" if v else "false"
    return (f"(.leaf {{ castInt := {b(flags['castInt'])}, natomSum := {b(flags['natomSum'])}, "
            f"conj := {b(flags['conj'])}, norm := {b(flags['norm'])} }})")


def prep_tree(body, ind):
    body = [st for st in body if not is_logger(st)]
    if len(body) == 1 and isinstance(body[0], ast.If):
        node = body[0]
        d, c = dtest(node.test), ctest(node.test)
        if d is None and c is None:
            raise Unrecognised("branch test " + ast.unparse(node.test)[:80])
        if not node.orelse:
            raise Unrecognised("if-chain without else: conj_condition may be undefined")
        pad = " " * ind
        head = f"(.onDtype {d}" if d is not None else f"(.onCtype {c}"
        return f"{head}\n{pad}  {prep_tree(node.body, ind + 2)}\n{pad}  {prep_tree(node.orelse, ind + 2)})"
    return prep_leaf(body)


def operand(e, want_axis=False):
    """`condition[i + 1:]`, `conj_condition[i]`, `…[i][np.newaxis, :]`, `…[j + i + 1]` -> (src, idx)"""
    if want_axis and isinstance(e, ast.Subscript) and ast.unparse(e.slice) in ("(np.newaxis, :)", "np.newaxis, :", "(None, :)"):
        e = e.value
    if not (isinstance(e, ast.Subscript) and isinstance(e.value, ast.Name) and e.value.id in ("condition", "conj_condition")):
        raise Unrecognised("SIJ operand " + ast.unparse(e)[:60])
    src = ".cond" if e.value.id == "condition" else ".conj"
    s = ast.unparse(e.slice)
    if s == "i":
        idx = ".i"
    elif s in ("i + 1:", "j + i + 1", "i + 1 + j", "i + j + 1"):
        idx = ".j"
    else:
        raise Unrecognised("SIJ index " + s)
    return f"{{ src := {src}, idx := {idx} }}"


def weight_of(body):
    """statements between the `gr` accumulation and the weighted histogram -> Lean `Weight`"""
    if len(body) == 1:
        st = body[0]
        if not (isinstance(st, ast.Assign) and ast.unparse(st.targets[0]) == "SIJ"):
            raise Unrecognised("SIJ statement " + ast.unparse(st)[:80])
        e = st.value
        op = ".mul"

        def strip_sum(e):
            if isinstance(e, ast.Call) and isinstance(e.func, ast.Attribute) and e.func.attr == "sum":
                if [(k.arg, ast.unparse(k.value)) for k in e.keywords] != [("axis", "1")] or e.args:
                    raise Unrecognised("SIJ sum arguments")
                return e.func.value, True
            return e, False
        # `(…).sum(axis=1).real` and `(…).real.sum(axis=1)` are the same numbers (the real part is additive)
        e, summed = strip_sum(e)
        if not (isinstance(e, ast.Attribute) and e.attr == "real"):
            raise Unrecognised("SIJ is not the real part of a product: " + ast.unparse(e)[:80])
        e = e.value
        if not summed:
            e, summed = strip_sum(e)
        if summed:
            op = ".dot"
        if not (isinstance(e, ast.BinOp) and isinstance(e.op, ast.Mult)):
            raise Unrecognised("SIJ product " + ast.unparse(e)[:80])
        return f"{{ op := {op}, left := {operand(e.left, op == '.dot')}, right := {operand(e.right, op == '.dot')} }}"
    if len(body) == 2:
        a, b = body
        if ast.unparse(a) != "SIJ = np.zeros(snapshot.nparticle - (i + 1))":
            raise Unrecognised("tensor SIJ allocation " + ast.unparse(a)[:80])
        if not (isinstance(b, ast.For) and ast.unparse(b.target) == "j" and ast.unparse(b.iter) == "range(SIJ.shape[0])"
                and not b.orelse and len(b.body) == 1):
            raise Unrecognised("tensor inner loop")
        st = b.body[0]
        if not (isinstance(st, ast.Assign) and ast.unparse(st.targets[0]) == "SIJ[j]"):
            raise Unrecognised("tensor SIJ[j] statement")
        e = st.value
        if not (isinstance(e, ast.Call) and ast.unparse(e.func) == "np.trace" and len(e.args) == 1 and not e.keywords):
            raise Unrecognised("tensor weight " + ast.unparse(e)[:80])
        mm = e.args[0]
        if isinstance(mm, ast.Call) and ast.unparse(mm.func) in ("np.matmul", "np.dot") and len(mm.args) == 2 and not mm.keywords:
            l, r = mm.args
        elif isinstance(mm, ast.BinOp) and isinstance(mm.op, ast.MatMult):
            l, r = mm.left, mm.right
        else:
            raise Unrecognised("tensor product " + ast.unparse(mm)[:80])
        return f"{{ op := .trace, left := {operand(l)}, right := {operand(r)} }}"
    raise Unrecognised("SIJ block of %d statements" % len(body))


def pair_loop(body):
    body = [st for st in body if not is_logger(st)]
    if not (len(body) == 1 and isinstance(body[0], ast.For) and ast.unparse(body[0].target) == "i"
            and ast.unparse(body[0].iter) == "range(snapshot.nparticle - 1)" and not body[0].orelse):
        raise Unrecognised("pair loop header")
    inner = [st for st in body[0].body if not is_logger(st)]
    n, m = len(LOOP_HEAD), len(LOOP_TAIL)
    if len(inner) < n + m + 1:
        raise Unrecognised("pair loop too short")
    for st, w in zip(inner[:n], LOOP_HEAD):
        if ast.unparse(st) != w:
            raise Unrecognised(f"pair loop: expected `{w}`, found `{ast.unparse(st)[:80]}`")
    for st, w in zip(inner[-m:], LOOP_TAIL):
        if ast.unparse(st) != w:
            raise Unrecognised(f"pair loop: expected `{w}`, found `{ast.unparse(st)[:80]}`")
    return weight_of(inner[n:-m])


def loop_chain(node):
    rows = []
    while True:
        c = ctest(node.test)
        if c is None:
            raise Unrecognised("loop-chain test " + ast.unparse(node.test)[:80])
        rows.append((c, pair_loop(node.body)))
        if len(node.orelse) == 1 and isinstance(node.orelse[0], ast.If):
            node = node.orelse[0]
            continue
        oe = [st for st in node.orelse if not is_logger(st)]
        if len(oe) == 1 and isinstance(oe[0], ast.Raise) and ast.unparse(oe[0].exc).startswith("ValueError("):
            return rows
        raise Unrecognised("loop chain does not end in `else: raise ValueError`")


def nidealfac_rows(repo):
    tree = ast.parse(read(repo, REL_F))
    fn = find_func(tree, "nidealfac")
    if [a.arg for a in fn.args.args] != ["ndim"]:
        raise Unrecognised("nidealfac parameters")
    body = strip_doc(fn.body)
    if len(body) != 1 or not isinstance(body[0], ast.If):
        raise Unrecognised("nidealfac body")
    node = body[0]
    rows = []
    while True:
        t = node.test
        if not (isinstance(t, ast.Compare) and len(t.ops) == 1 and isinstance(t.ops[0], ast.Eq) and ast.unparse(t.left) == "ndim"
                and isinstance(t.comparators[0], ast.Constant) and isinstance(t.comparators[0].value, int)):
            raise Unrecognised("nidealfac test " + ast.unparse(t))
        if not (len(node.body) == 1 and isinstance(node.body[0], ast.Return)):
            raise Unrecognised("nidealfac branch")
        rows.append((t.comparators[0].value, cexpr(node.body[0].value)))
        if len(node.orelse) == 1 and isinstance(node.orelse[0], ast.If):
            node = node.orelse[0]
            continue
        if len(node.orelse) == 1 and isinstance(node.orelse[0], ast.Raise):
            return rows
        raise Unrecognised("nidealfac else-branch")


def gen_gr(repo):
    tree = ast.parse(read(repo, REL_G))
    imports = [ast.unparse(st) for st in tree.body if isinstance(st, ast.ImportFrom)]
    if "from ..utils.funcs import nidealfac" not in imports or "from ..utils.pbc import remove_pbc" not in imports:
        raise Unrecognised("gr.py does not import nidealfac / remove_pbc from the utils package")
    fn = find_func(tree, "conditional_gr")
    args = [a.arg for a in fn.args.args]
    if args != ["snapshot", "condition", "conditiontype", "ppp", "rdelta"]:
        raise Unrecognised(f"conditional_gr parameters {args}")
    if ast.unparse(fn.args.defaults[0]) != "None":
        raise Unrecognised("default of conditiontype")
    body = clean(fn.body)
    head = ["Natom = snapshot.nparticle", "ndim = snapshot.positions.shape[1]"]
    for st, w in zip(body[:2], head):
        if ast.unparse(st) != w:
            raise Unrecognised(f"expected `{w}`, found `{ast.unparse(st)[:80]}`")
    st = body[2]
    if not (isinstance(st, ast.Assign) and ast.unparse(st.targets[0]) == "maxbin" and isinstance(st.value, ast.Call)
            and ast.unparse(st.value.func) == "int" and len(st.value.args) == 1 and not st.value.keywords):
        raise Unrecognised("maxbin statement " + ast.unparse(st)[:80])
    maxbin_arg = cexpr(st.value.args[0])
    st = body[3]
    if not (isinstance(st, ast.Assign) and ast.unparse(st.targets[0]) == "grresults" and isinstance(st.value, ast.Call)
            and ast.unparse(st.value.func) == "pd.DataFrame"):
        raise Unrecognised("DataFrame statement")
    call = st.value
    kws = {k.arg: k.value for k in call.keywords}
    if [ast.unparse(a) for a in call.args] != ["0"] or set(kws) != {"index", "columns"} or ast.unparse(kws["index"]) != "range(maxbin)":
        raise Unrecognised("DataFrame arguments")
    cv = kws["columns"]
    if not (isinstance(cv, ast.Call) and isinstance(cv.func, ast.Attribute) and cv.func.attr == "split" and not cv.args
            and isinstance(cv.func.value, ast.Constant) and isinstance(cv.func.value.value, str)):
        raise Unrecognised("columns expression")
    columns = cv.func.value.value.split()
    if ast.unparse(body[4]) != "norminator = False":
        raise Unrecognised("expected `norminator = False`")
    if not isinstance(body[5], ast.If):
        raise Unrecognised("dtype if-chain missing")
    prep = prep_tree([body[5]], 4)
    if not isinstance(body[6], ast.If):
        raise Unrecognised("loop chain missing")
    loops = loop_chain(body[6])
    tail = body[7:]
    for st, w in zip(tail[:2], ["binleft = binedge[:-1]", "binright = binedge[1:]"]):
        if ast.unparse(st) != w:
            raise Unrecognised(f"expected `{w}`, found `{ast.unparse(st)[:60]}`")
    tail = tail[2:]
    norm, norm_if = [], None
    i = 0
    while i < len(tail) and isinstance(tail[i], ast.Assign):
        norm.append(stmt(tail[i]))
        i += 1
    rest = tail[i:]
    if len(rest) == 2 and isinstance(rest[0], ast.If) and ast.unparse(rest[0].test) == "norminator" and not rest[0].orelse:
        norm_if = [stmt(s) for s in rest[0].body if not is_logger(s)]
        rest = rest[1:]
    if norm_if is None or [ast.unparse(s) for s in rest] != ["return grresults"]:
        raise Unrecognised("trailing statements " + "; ".join(ast.unparse(s)[:60] for s in rest))
    rows = nidealfac_rows(repo)
    out = ["def grSrc : GrSrc := {",
           "  columns := [" + ", ".join(f'"{c}"' for c in columns) + "],",
           f"  maxbinArg := {maxbin_arg},",
           "  nidealfac := [" + ", ".join(f"({n}, {e})" for n, e in rows) + "],",
           "  prep :=", "    " + prep + ",",
           "  loops := [",
           ",\n".join(f"    ({c}, {w})" for c, w in loops),
           "  ],",
           "  norm := [", ",\n".join("    " + s for s in norm), "  ],",
           "  normIf := [", ",\n".join("    " + s for s in norm_if), "  ] }"]
    return "\n".join(out)


# --------------------------------------------------------------------------- conditional_sq

SQ_HEAD = ["ndim = snapshot.positions.shape[1]",
           "sqresults = pd.DataFrame(0, index=range(qvector.shape[0]), columns='q Sq'.split())",
           "twopidl = 2 * np.pi / snapshot.boxlength",
           "qvector = qvector.astype(np.float64) * twopidl[np.newaxis, :]",
           "df_qvector = pd.DataFrame(qvector, columns=[f'q{i}' for i in range(ndim)])",
           "sqresults['q'] = np.linalg.norm(qvector, axis=1)"]
SQ_WEIGHTS = {"np.exp(-1j * thetas)": ".one",
              "np.exp(-1j * thetas) * condition[i]": ".scalar", "condition[i] * np.exp(-1j * thetas)": ".scalar",
              "np.exp(-1j * thetas)[:, np.newaxis] * condition[i][np.newaxis, :]": ".vector",
              "condition[i][np.newaxis, :] * np.exp(-1j * thetas)[:, np.newaxis]": ".vector"}
SQ_RED = {"(exp_thetas * np.conj(exp_thetas)).real": ".abs2", "(np.conj(exp_thetas) * exp_thetas).real": ".abs2",
          "(exp_thetas * np.conj(exp_thetas)).sum(axis=1).real": ".abs2Sum",
          "(np.conj(exp_thetas) * exp_thetas).sum(axis=1).real": ".abs2Sum"}
SQ_DIV = {"sqrt(Natom)": ".natom", "np.sqrt(Natom)": ".natom", "math.sqrt(Natom)": ".natom",
          "sqrt(snapshot.nparticle)": ".npart", "np.sqrt(snapshot.nparticle)": ".npart", "math.sqrt(snapshot.nparticle)": ".npart"}


def sq_branch(test, body):
    body = [st for st in body if not is_logger(st)]
    txt = [ast.unparse(st) for st in body]
    select = False
    if txt and txt[0] == "Natom = condition.sum()":
        select = True
        txt, body = txt[1:], body[1:]
    if not txt or txt[0] != "exp_thetas = 0":
        raise Unrecognised("sq branch: expected `exp_thetas = 0`")
    txt, body = txt[1:], body[1:]
    if select:
        if not txt or txt[0] != "positions = snapshot.positions[condition]":
            raise Unrecognised("sq branch: selected positions")
        txt, body = txt[1:], body[1:]
    loop = body[0]
    want_iter = "range(Natom)" if select else "range(snapshot.nparticle)"
    want_theta = ("thetas = (qvector * positions[i][np.newaxis, :]).sum(axis=1)" if select
                  else "thetas = (qvector * snapshot.positions[i][np.newaxis, :]).sum(axis=1)")
    if not (isinstance(loop, ast.For) and ast.unparse(loop.target) == "i" and ast.unparse(loop.iter) == want_iter
            and not loop.orelse and len(loop.body) == 2 and ast.unparse(loop.body[0]) == want_theta):
        raise Unrecognised("sq branch: particle loop " + ast.unparse(loop)[:120])
    acc = loop.body[1]
    if not (isinstance(acc, ast.AugAssign) and isinstance(acc.op, ast.Add) and ast.unparse(acc.target) == "exp_thetas"
            and ast.unparse(acc.value) in SQ_WEIGHTS):
        raise Unrecognised("sq branch: accumulation " + ast.unparse(acc)[:100])
    weight = SQ_WEIGHTS[ast.unparse(acc.value)]
    rest = body[1:]
    if len(rest) < 3:
        raise Unrecognised("sq branch: too short")
    dv = rest[0]
    if not (isinstance(dv, ast.AugAssign) and isinstance(dv.op, ast.Div) and ast.unparse(dv.target) == "exp_thetas"
            and ast.unparse(dv.value) in SQ_DIV):
        raise Unrecognised("sq branch: divisor " + ast.unparse(dv)[:80])
    div = SQ_DIV[ast.unparse(dv.value)]
    if div == ".natom" and not select:
        raise Unrecognised("sq branch: Natom used without being defined")
    sqst = rest[1]
    if not (isinstance(sqst, ast.Assign) and ast.unparse(sqst.targets[0]) == "sqresults['Sq']" and ast.unparse(sqst.value) in SQ_RED):
        raise Unrecognised("sq branch: Sq statement " + ast.unparse(sqst)[:100])
    red = SQ_RED[ast.unparse(sqst.value)]
    ft = [ast.unparse(s) for s in rest[2:]]
    if ft == ["sqresults['FFT'] = exp_thetas"]:
        fft = '["FFT"]'
    elif ft == ["dim_fft = pd.DataFrame(exp_thetas, columns=[f'FFT{i}' for i in range(ndim)])", "sqresults = sqresults.join(dim_fft)"]:
        fft = '["FFT*"]'
    else:
        raise Unrecognised("sq branch: FFT statements " + "; ".join(ft)[:120])
    t = "none" if test is None else f"some {test}"
    return (f"{{ test := {t}, select := {'true' if select else 'false'}, weight := {weight}, div := {div}, "
            f"red := {red}, fft := {fft} }}")


def gen_sq(repo):
    tree = ast.parse(read(repo, REL_S))
    imports = [ast.unparse(st) for st in tree.body if isinstance(st, (ast.ImportFrom, ast.Import))]
    if "from math import sqrt" not in imports:
        raise Unrecognised("sq.py does not import sqrt from math")
    fn = find_func(tree, "conditional_sq")
    if [a.arg for a in fn.args.args] != ["snapshot", "qvector", "condition"]:
        raise Unrecognised("conditional_sq parameters")
    body = clean(fn.body)
    for st, w in zip(body[:len(SQ_HEAD)], SQ_HEAD):
        if ast.unparse(st) != w:
            raise Unrecognised(f"expected `{w}`, found `{ast.unparse(st)[:80]}`")
    node = body[len(SQ_HEAD)]
    if not isinstance(node, ast.If):
        raise Unrecognised("conditional_sq if-chain missing")
    rows = []
    while True:
        t = dtest(node.test)
        if t is None:
            raise Unrecognised("conditional_sq test " + ast.unparse(node.test)[:80])
        rows.append(sq_branch(t, node.body))
        if len(node.orelse) == 1 and isinstance(node.orelse[0], ast.If):
            node = node.orelse[0]
            continue
        if not node.orelse:
            raise Unrecognised("conditional_sq chain without else")
        rows.append(sq_branch(None, node.orelse))
        break
    tail = [ast.unparse(s) for s in body[len(SQ_HEAD) + 1:]]
    if len(tail) != 4 or tail[0] != "sqresults = df_qvector.join(sqresults)" \
            or tail[2] != "ave_sqresults = sqresults['Sq'].groupby(sqresults['q']).mean().reset_index()" \
            or tail[3] != "return (sqresults, ave_sqresults)":
        raise Unrecognised("conditional_sq trailing statements " + "; ".join(tail)[:200])
    rd = body[len(SQ_HEAD) + 2]
    if not (isinstance(rd, ast.Assign) and ast.unparse(rd.targets[0]) == "sqresults" and isinstance(rd.value, ast.Call)
            and ast.unparse(rd.value.func) == "sqresults.round" and len(rd.value.args) == 1 and not rd.value.keywords
            and isinstance(rd.value.args[0], ast.Constant) and isinstance(rd.value.args[0].value, int)):
        raise Unrecognised("round statement " + tail[1][:80])
    out = ["def sqBranches : List SqBranch := [", ",\n".join("  " + r for r in rows), "]", "",
           f"def sqRound : Nat := {rd.value.args[0].value}"]
    return "\n".join(out)


@generator("cond")
def gen_cond(repo):
    out = ["import Pms.Model.Cond",
           f"/-! REGENERATED by translator/gens/cond.py from {REL_G} (conditional_gr), {REL_S} (conditional_sq) and {REL_F} (nidealfac) — do not edit -/",
           "namespace Pms.Gen.Cond", "open Pms.Cond", "",
           gen_gr(repo), "", gen_sq(repo), "", "end Pms.Gen.Cond"]
    return [("Pms/Gen/Cond.lean", "\n".join(out) + "\n", [REL_G, REL_S, REL_F])]
