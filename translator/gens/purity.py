"""G9 — effect IR of every public analysis entry point (property C18).

Python `ast`  ->  lean/Pms/Gen/Purity.lean  (+ Purity.json: variable names / source lines for diagnostics)

Per entry point the walker emits the statements of `Pms.Purity.Stmt`
    fresh x | alias x ys | store x ys | mutate x | write x | ret xs
over numbered variables, with package-internal callees INLINED (fresh variable names per call site).

Conservative by construction:
  * a value is `fresh` only if the expression is recognised as allocating (arithmetic, comparisons, literals,
    numpy functions not listed as view-returning, reductions, `.copy()`, `.astype()` …); everything else is an
    alias of every variable it mentions (names, attributes, subscripts, views, containers, unknown-but-pure methods);
  * `x op= e`, `x[...] = e`, `x.attr = e`, `.sort()/.fill()/…`, `out=`, `inplace=True`, `np.put/place/copyto/…`,
    `ufunc.at` are `mutate` of every variable the target expression mentions;
  * `.append/.extend/.insert/.update/.add`, `d[k] = v` on a python container are `store`;
  * a method / function that is in none of the tables raises `Unrecognised` (broken tie), as do `lambda`, `global`,
    `nonlocal`, `exec/eval`, recursion;
  * default arguments that are arrays/dicts are shared objects: they are inputs (tainted) like any argument;
  * in a METHOD every `self.<attr>` the class ever assigns is an input (object state must not be modified);
    an attribute REBINDING `self.a = …` inside a method is recorded in `stateWrites` (object state, reviewed list);
  * RNG use, process-global settings, external processes and calls of callables passed as arguments are recorded in
    `globalEffects` / `assumptions` (reviewed lists, decided equal in Props/C18.lean).
Top-level (straight-line) re-assignments of a local name get a new version (`x@2`), so `x = x - mean` followed by an
in-place operation on the new x is not blamed on the parameter; nested re-assignments keep one name (flow-insensitive).
"""
import ast
import json
import os

from pms2lean import generator, Unrecognised, read

PKG = "PyMatterSim"
ENTRY_MODULES = [
    "static/shape.py", "static/gr.py", "static/sq.py", "static/boo.py", "static/vector.py", "static/geometric.py",
    "static/nematic.py", "static/pairentropy.py", "static/hessians.py",
    "dynamic/dynamics.py", "dynamic/time_corr.py",
    "utils/coarse_graining.py", "utils/funcs.py", "utils/fft.py", "utils/geometry.py", "utils/pbc.py",
    "utils/wavevector.py", "utils/fitting.py",
    "neighbors/calculate_neighbors.py", "neighbors/freud_neighbors.py",
]
SUPPORT_MODULES = ["neighbors/read_neighbors.py", "utils/spherical_harmonics.py", "reader/reader_utils.py", "utils/logging.py"]
# entry points that are not analysis routines of their own (documented in design/C18.md)
SKIP_ENTRIES = {"get_logger_handle"}

EXT_MODULE_ALIASES = {"np", "numpy", "pd", "pandas", "os", "re", "subprocess", "freud", "math", "cmath", "sp", "scipy", "sys", "logging"}

BUILTIN_FRESH = {"len", "int", "float", "str", "bool", "complex", "range", "round", "abs", "isinstance", "print", "open", "repr",
                 "type", "hasattr", "ord", "chr", "divmod", "pow", "id", "callable", "format",
                 "sqrt", "modf", "floor", "ceil", "exp", "log", "cos", "sin", "wigner_3j", "sph_harm", "sph_harm_y", "ValueError", "IOError", "ImportError",
                 "TypeError", "KeyError", "IndexError", "RuntimeError", "Exception", "NotImplementedError"}
# results are containers/iterators over (references to) the arguments
BUILTIN_ALIAS = {"tuple", "list", "set", "dict", "enumerate", "zip", "map", "sorted", "reversed", "iter", "next", "filter",
                 "combinations", "permutations", "product", "chain", "min", "max", "sum", "any", "all", "getattr", "frozenset"}
BUILTIN_FORBIDDEN = {"exec", "eval", "compile", "globals", "locals", "setattr", "delattr", "vars", "__import__", "input"}

NP_VIEW = {"asarray", "asanyarray", "ascontiguousarray", "asfortranarray", "ravel", "reshape", "squeeze", "transpose", "atleast_1d",
           "atleast_2d", "atleast_3d", "real", "imag", "diagonal", "broadcast_to", "broadcast_arrays", "expand_dims", "swapaxes",
           "moveaxis", "rollaxis", "array_split", "split", "hsplit", "vsplit", "dsplit", "nan_to_num", "require", "frombuffer",
           "lib", "nditer", "flatiter", "ndindex", "meshgrid", "ix_", "take_along_axis", "compress", "asmatrix", "mat", "view", "as_strided", "sliding_window_view"}
NP_MUTATE_FIRST = {"put", "place", "copyto", "fill_diagonal", "putmask", "put_along_axis", "shuffle"}
NP_UFUNC_BINARY = {"add", "subtract", "multiply", "divide", "true_divide", "floor_divide", "power", "float_power", "mod", "remainder", "fmod",
                   "maximum", "minimum", "fmax", "fmin", "arctan2", "hypot", "dot", "matmul", "logical_and", "logical_or", "logical_xor",
                   "bitwise_and", "bitwise_or", "bitwise_xor", "greater", "less", "equal", "not_equal", "copysign", "outer", "cross_out"}
NP_UFUNC_UNARY = {"sqrt", "square", "exp", "exp2", "expm1", "log", "log2", "log10", "log1p", "abs", "absolute", "fabs", "negative", "positive",
                  "conj", "conjugate", "rint", "floor", "ceil", "trunc", "sin", "cos", "tan", "arcsin", "arccos", "arctan", "sinh", "cosh",
                  "tanh", "sign", "reciprocal", "cbrt", "logical_not", "invert", "isnan", "isfinite", "isinf", "deg2rad", "rad2deg"}
NP_WRITE = {"save", "savetxt", "savez", "savez_compressed"}
NP_GLOBAL = {"set_printoptions", "seterr", "seterrcall", "setbufsize", "set_string_function"}

SCALAR_ATTRS = {"shape", "ndim", "size", "dtype", "itemsize", "nbytes", "name", "__name__"}

M_MUTATE = {"sort", "fill", "resize", "put", "itemset", "setflags", "partition", "byteswap", "setfield", "pop", "remove", "clear",
            "reverse", "popitem", "__setitem__", "__iadd__", "__imul__", "__isub__", "__itruediv__", "drop_duplicates_inplace"}
M_STORE = {"append", "extend", "insert", "add", "update", "setdefault", "appendleft"}
M_VIEW = {"reshape", "ravel", "view", "transpose", "squeeze", "swapaxes", "to_numpy", "get", "items", "keys", "values", "head", "tail",
          "diagonal", "flat", "groupby", "reset_index", "set_index", "join", "merge", "round", "rename", "sort_values", "sort_index",
          "drop", "dropna", "fillna", "replace", "where", "mask", "apply", "applymap", "map", "to_frame", "to_list", "tolist", "item",
          "__getitem__", "take", "compress", "repeat", "clip", "iterrows", "itertuples", "filter", "query", "assign", "astype_view",
          "swaplevel", "stack", "unstack", "pivot", "melt", "explode", "squeeze", "xs", "first", "last", "nth", "agg", "aggregate",
          "transform", "pipe", "evalf", "from_box"}
M_FRESH = {"sum", "mean", "min", "max", "std", "var", "prod", "cumsum", "cumprod", "astype", "copy", "argsort", "argmax", "argmin",
           "any", "all", "dot", "conj", "conjugate", "flatten", "nonzero", "trace", "split", "rsplit", "endswith", "startswith", "format",
           "readline", "readlines", "read", "close", "compute", "strip", "lstrip", "rstrip", "lower", "upper", "count", "index",
           "isin", "abs", "ptp", "searchsorted", "nunique", "unique", "to_string", "tobytes", "is_integer", "median", "norm",
           "info", "debug", "warning", "error", "flush", "seek", "tell", "isdigit", "isalpha", "find", "encode", "decode", "zfill",
           "total_seconds", "bit_length", "argpartition", "cumcount", "corr", "cov", "describe", "idxmax", "idxmin", "quantile",
           "value_counts", "isna", "notna", "isnull", "notnull", "duplicated", "equals", "nbytes", "title", "splitlines", "partition_str"}
M_FILEWRITE = {"write", "writelines"}          # on file handles: formatted text, not an array write
M_WRITE = {"to_csv", "to_pickle", "to_excel", "to_json", "tofile", "dump", "to_hdf", "to_parquet"}


class Mod:
    def __init__(self, rel, tree):
        self.rel = rel
        self.dotted = rel[:-3].replace("/", ".")
        self.tree = tree
        self.functions = {}
        self.classes = {}
        self.imports = {}
        self.globals = set()
        self.global_alias = {}
        self.global_const = set()
        body = list(tree.body)
        for n in tree.body:             # `try: from x import y / except ImportError: …` compatibility imports
            if isinstance(n, ast.Try):
                body += n.body + [b for h in n.handlers for b in h.body] + n.orelse
        for n in body:
            if isinstance(n, ast.FunctionDef):
                self.functions[n.name] = n
            elif isinstance(n, ast.ClassDef):
                self.classes[n.name] = n
            elif isinstance(n, ast.Import):
                for a in n.names:
                    self.imports[a.asname or a.name.split(".")[0]] = ("extmod", a.name)
            elif isinstance(n, ast.ImportFrom):
                if n.level > 0:
                    base = self.dotted.split(".")[:-n.level]
                    target = ".".join(base + (n.module.split(".") if n.module else []))
                    for a in n.names:
                        self.imports[a.asname or a.name] = ("pkg", target, a.name)
                else:
                    for a in n.names:
                        self.imports[a.asname or a.name] = ("ext", n.module, a.name)
            elif isinstance(n, ast.Assign):
                for t in n.targets:
                    if isinstance(t, ast.Name):
                        self.globals.add(t.id)
                        alts = self.ext_function_alias(n.value)
                        if alts:
                            self.global_alias[t.id] = alts      # `_trapezoid = getattr(np, "trapezoid", None) or np.trapz`
                        elif isinstance(n.value, ast.Constant) and isinstance(n.value.value, (int, float, str, bool, type(None), complex)):
                            self.global_const.add(t.id)         # immutable module constant

    def ext_function_alias(self, e):
        """module-level alias of a function of an external module: list of (root, attribute chain), or None"""
        if isinstance(e, ast.BoolOp):
            out = []
            for v in e.values:
                a = self.ext_function_alias(v)
                if a is None:
                    return None
                out += a
            return out
        if isinstance(e, ast.Constant) and e.value is None:
            return []
        if isinstance(e, ast.Call) and isinstance(e.func, ast.Name) and e.func.id == "getattr" and len(e.args) >= 2 \
                and isinstance(e.args[0], ast.Name) and isinstance(e.args[1], ast.Constant) and isinstance(e.args[1].value, str):
            root = e.args[0].id
            if self.imports.get(root, ("",))[0] == "extmod":
                return [(root, [e.args[1].value])]
            return None
        if isinstance(e, ast.Attribute):
            parts = []
            x = e
            while isinstance(x, ast.Attribute):
                parts.append(x.attr)
                x = x.value
            if isinstance(x, ast.Name) and self.imports.get(x.id, ("",))[0] == "extmod":
                return [(x.id, list(reversed(parts)))]
        return None


SCALAR_ANN = {"int", "float", "str", "bool", "complex"}


def scalar_params(fn):
    """parameters annotated int / float / str / bool hold immutable values: nothing can be modified through them"""
    return {a.arg for a in fn.args.args if isinstance(a.annotation, ast.Name) and a.annotation.id in SCALAR_ANN}


def stored_names(fn):
    return {n.id for n in ast.walk(fn) if isinstance(n, ast.Name) and isinstance(n.ctx, (ast.Store, ast.Del))}


def falsy_const(e):
    return isinstance(e, ast.Constant) and not e.value


def methods_of(cls):
    return {n.name: n for n in cls.body if isinstance(n, ast.FunctionDef)}


def self_attrs(cls):
    out = []
    for n in ast.walk(cls):
        if isinstance(n, ast.Attribute) and isinstance(n.value, ast.Name) and n.value.id == "self" and isinstance(n.ctx, ast.Store):
            if n.attr not in out:
                out.append(n.attr)
    return out


def is_dataclass(cls):
    for d in cls.decorator_list:
        s = ast.unparse(d)
        if "dataclass" in s:
            return True
    return any(isinstance(b, ast.Name) and b.id == "Enum" for b in cls.bases)


class Frame:
    def __init__(self, mod, prefix, selfprefix, cls=None, top=False):
        self.mod, self.prefix, self.selfprefix, self.cls, self.top = mod, prefix, selfprefix, cls, top
        self.version = {}      # local name -> current version number
        self.rets = []         # list of alias sets
        self.objs = {}         # local name -> (Mod, ClassDef, selfprefix)
        self.pycont = set()    # local names known to hold python containers
        self.locals = set()
        self.constfalse = set()  # parameters bound to a falsy constant at this call site


class Walker:
    """one entry point"""

    def __init__(self, pkg, name):
        self.pkg, self.name = pkg, name
        self.out = []           # (kind, x, ys, file, line)
        self.vars = {}
        self.varinfo = []
        self.params = []
        self.state_writes = []
        self.global_effects = []
        self.assumptions = []
        self.counter = 0
        self.stack = []
        self.file = ""
        self.last_inline_must = None
        self.last_constructed = None
        self.method_mode_attrs = None

    # ---- variables
    def vid(self, name):
        if name not in self.vars:
            self.vars[name] = len(self.vars)
            self.varinfo.append(name)
        return self.vars[name]

    def emit(self, kind, x, ys=(), node=None):
        line = getattr(node, "lineno", 0)
        ys = sorted(set(ys))
        self.out.append((kind, x, ys, self.file, line))

    def bind(self, x, aliases, node=None):
        if aliases:
            self.emit("alias", x, aliases, node)
        else:
            self.emit("fresh", x, (), node)

    def lname(self, fr, name, new=False):
        """versioned local variable name"""
        if new:
            fr.version[name] = fr.version.get(name, 0) + 1
        v = fr.version.get(name, 1)
        fr.version.setdefault(name, 1)
        return f"{fr.prefix}{name}" + (f"@{v}" if v > 1 else "")

    # ---- expressions: returns the set of variables the value may share memory with (empty = fresh)
    def ev(self, e, fr):
        if e is None or isinstance(e, (ast.Constant, ast.JoinedStr)):
            if isinstance(e, ast.JoinedStr):
                for v in e.values:
                    if isinstance(v, ast.FormattedValue):
                        self.ev(v.value, fr)
            return set()
        if isinstance(e, ast.Name):
            return self.ev_name(e.id, fr, e)
        if isinstance(e, ast.Attribute):
            return self.ev_attr(e, fr)
        if isinstance(e, ast.Subscript):
            base = self.ev(e.value, fr)
            self.ev_slice(e.slice, fr)
            return base
        if isinstance(e, ast.Starred):
            return self.ev(e.value, fr)
        if isinstance(e, (ast.Tuple, ast.List, ast.Set)):
            s = set()
            for x in e.elts:
                s |= self.ev(x, fr)
            return s
        if isinstance(e, ast.Dict):
            s = set()
            for k, v in zip(e.keys, e.values):
                if k is not None:
                    s |= self.ev(k, fr)
                s |= self.ev(v, fr)
            return s
        if isinstance(e, ast.Compare):
            self.ev(e.left, fr)
            for c in e.comparators:
                self.ev(c, fr)
            return set()
        if isinstance(e, ast.BoolOp):
            s = set()
            for v in e.values:
                s |= self.ev(v, fr)
            return s            # `a or b` returns one of the operands
        if isinstance(e, ast.UnaryOp):
            self.ev(e.operand, fr)
            return set()
        if isinstance(e, ast.BinOp):
            a, b = self.ev(e.left, fr), self.ev(e.right, fr)
            if isinstance(e.op, (ast.Add, ast.Mult)) and (self.is_pycontainer(e.left, fr) or self.is_pycontainer(e.right, fr)):
                return a | b    # list concatenation / repetition keeps references
            if isinstance(e.op, ast.Mod) and isinstance(e.left, (ast.Constant, ast.JoinedStr, ast.BinOp)):
                return set()    # string formatting
            return set()        # numpy / pandas / scalar arithmetic allocates its result (contract)
        if isinstance(e, ast.IfExp):
            self.ev(e.test, fr)
            return self.ev(e.body, fr) | self.ev(e.orelse, fr)
        if isinstance(e, (ast.ListComp, ast.SetComp, ast.GeneratorExp, ast.DictComp)):
            for g in e.generators:
                it = self.ev_iter(g.iter, fr)
                self.assign_target(g.target, it, fr, g.iter, comp=True)
                for c in g.ifs:
                    self.ev(c, fr)
            if isinstance(e, ast.DictComp):
                return self.ev(e.key, fr) | self.ev(e.value, fr)
            return self.ev(e.elt, fr)
        if isinstance(e, ast.Call):
            return self.ev_call(e, fr)
        if isinstance(e, ast.Slice):
            self.ev_slice(e, fr)
            return set()
        raise Unrecognised(f"{self.name}: expression {type(e).__name__} at {self.file}:{getattr(e, 'lineno', 0)}")

    def ev_slice(self, s, fr):
        if isinstance(s, ast.Slice):
            for p in (s.lower, s.upper, s.step):
                if p is not None:
                    self.ev(p, fr)
        elif isinstance(s, ast.Tuple):
            for x in s.elts:
                self.ev_slice(x, fr)
        else:
            self.ev(s, fr)

    def ev_iter(self, e, fr):
        if isinstance(e, ast.Call) and isinstance(e.func, ast.Name) and e.func.id == "range":
            for a in e.args:
                self.ev(a, fr)
            return set()
        return self.ev(e, fr)

    def is_pycontainer(self, e, fr):
        if isinstance(e, (ast.List, ast.ListComp, ast.Tuple, ast.Dict, ast.Set)):
            return True
        if isinstance(e, ast.Name) and e.id in fr.pycont:
            return True
        if isinstance(e, ast.BinOp):
            return self.is_pycontainer(e.left, fr) or self.is_pycontainer(e.right, fr)
        if isinstance(e, ast.Call) and isinstance(e.func, ast.Name) and e.func.id in ("list", "tuple", "dict", "set"):
            return True
        if isinstance(e, ast.Call) and isinstance(e.func, ast.Attribute) and e.func.attr == "split":
            return True
        return False

    def ev_name(self, name, fr, node):
        if name in fr.locals:
            return {self.vid(self.lname(fr, name))}
        if name in ("True", "False", "None"):
            return set()
        imp = fr.mod.imports.get(name)
        if imp or name in fr.mod.functions or name in fr.mod.classes:
            return set()        # module / function / class object
        if name in fr.mod.globals:
            if name == "logger" or name in fr.mod.global_alias or name in fr.mod.global_const:
                return set()
            raise Unrecognised(f"{self.name}: reads module-level variable {name} ({self.file}:{node.lineno})")
        if name in BUILTIN_FRESH or name in BUILTIN_ALIAS or name in ("self",):
            if name == "self":
                raise Unrecognised(f"{self.name}: bare `self` used as a value ({self.file}:{node.lineno})")
            return set()
        if name in ("__name__", "__file__"):
            return set()
        raise Unrecognised(f"{self.name}: unknown name {name} ({self.file}:{node.lineno})")

    def dotted(self, e):
        parts = []
        while isinstance(e, ast.Attribute):
            parts.append(e.attr)
            e = e.value
        if isinstance(e, ast.Name):
            return e.id, list(reversed(parts))
        return None, list(reversed(parts))

    def is_extmod_root(self, root, fr):
        if root is None or root in fr.locals:
            return False
        imp = fr.mod.imports.get(root)
        return bool(imp and imp[0] == "extmod") or (root == "logger" and "logger" in fr.mod.globals)

    def ev_attr(self, e, fr):
        root, chain = self.dotted(e)
        if root == "self" and "self" not in fr.locals:
            if fr.selfprefix is None:
                raise Unrecognised(f"{self.name}: self outside a method")
            v = self.vid(f"{fr.selfprefix}.{chain[0]}")
            if len(chain) > 1 and chain[-1] in SCALAR_ATTRS | self.pkg.int_fields:
                return set()
            return {v}
        if root is not None and root in fr.objs and root in fr.locals:
            _, _, sp = fr.objs[root]
            return {self.vid(f"{sp}.{chain[0]}")}
        if self.is_extmod_root(root, fr):
            return set()        # np.pi, np.newaxis, np.int32 …
        if root is not None and root not in fr.locals and (root in fr.mod.classes or (fr.mod.imports.get(root, ("",))[0] in ("pkg", "ext"))):
            return set()        # Enum member / class attribute
        if e.attr in SCALAR_ATTRS or e.attr in self.pkg.int_fields:
            self.ev(e.value, fr)
            return set()
        return self.ev(e.value, fr)

    # ---- calls
    def args_of(self, e, fr):
        s = set()
        per = []
        for a in e.args:
            v = self.ev(a, fr)
            per.append(v)
            s |= v
        kw = {}
        for k in e.keywords:
            v = self.ev(k.value, fr)
            kw[k.arg] = v
            s |= v
        return s, per, kw

    def mutate_all(self, vs, node):
        for v in sorted(vs):
            self.emit("mutate", v, (), node)

    def kw_true(self, e, name):
        for k in e.keywords:
            if k.arg == name and not (isinstance(k.value, ast.Constant) and k.value.value in (False, None)):
                return True
        return False

    def ev_call(self, e, fr):
        f = e.func
        if isinstance(f, ast.Name):
            name = f.id
            if name in fr.locals:      # a callable held in a variable / passed as argument
                s, _, _ = self.args_of(e, fr)
                self.note("assumptions", f"callable-argument:{name}")
                return s | self.ev_name(name, fr, f)
            if name in fr.mod.functions:
                return self.inline(fr.mod, fr.mod.functions[name], e, fr, None, None)
            if name in fr.mod.global_alias and fr.mod.global_alias[name]:
                res = set()
                for root, chain in fr.mod.global_alias[name]:   # any of the aliased external functions
                    res |= self.ext_call(root, chain, e, fr)
                return res
            if name in fr.mod.classes:
                return self.construct(fr.mod, fr.mod.classes[name], e, fr)
            imp = fr.mod.imports.get(name)
            if imp and imp[0] == "pkg":
                m = self.pkg.mods.get(imp[1])
                if m is None:
                    raise Unrecognised(f"{self.name}: import {imp} not resolvable")
                if imp[2] in m.functions:
                    return self.inline(m, m.functions[imp[2]], e, fr, None, None)
                if imp[2] in m.classes:
                    return self.construct(m, m.classes[imp[2]], e, fr)
                raise Unrecognised(f"{self.name}: {imp[2]} not found in {imp[1]}")
            if name in BUILTIN_FORBIDDEN:
                raise Unrecognised(f"{self.name}: {name}() ({self.file}:{e.lineno})")
            s, _, _ = self.args_of(e, fr)
            if name == "curve_fit":
                self.note("assumptions", "callable-argument:curve_fit")
                return set()
            if name in BUILTIN_FRESH:
                return set()
            if name in BUILTIN_ALIAS:
                return s
            if imp and imp[0] == "ext":
                raise Unrecognised(f"{self.name}: external function {imp[1]}.{imp[2]} not in the tables ({self.file}:{e.lineno})")
            raise Unrecognised(f"{self.name}: call of unknown name {name} ({self.file}:{e.lineno})")
        if isinstance(f, ast.Attribute):
            root, chain = self.dotted(f)
            if root == "self" and "self" not in fr.locals and len(chain) == 1:
                cls = fr.cls
                if cls is None:
                    raise Unrecognised(f"{self.name}: self.method outside class")
                ms = methods_of(cls[1])
                if chain[0] in ms:
                    return self.inline(cls[0], ms[chain[0]], e, fr, fr.selfprefix, cls)
                # a callable stored in an attribute
                raise Unrecognised(f"{self.name}: self.{chain[0]}() is not a method ({self.file}:{e.lineno})")
            if root is not None and root in fr.locals and root in fr.objs and len(chain) == 1:
                m, cls, sp = fr.objs[root]
                ms = methods_of(cls)
                if chain[0] in ms:
                    return self.inline(m, ms[chain[0]], e, fr, sp, (m, cls))
            if self.is_extmod_root(root, fr):
                return self.ext_call(root, chain, e, fr)
            return self.method_call(f, e, fr)
        raise Unrecognised(f"{self.name}: call of {type(f).__name__} ({self.file}:{e.lineno})")

    def note(self, what, s):
        lst = getattr(self, {"assumptions": "assumptions", "global": "global_effects"}[what])
        if s not in lst:
            lst.append(s)

    def ext_call(self, root, chain, e, fr):
        modname = fr.mod.imports.get(root, ("extmod", root))[1].split(".")[0]
        s, per, kw = self.args_of(e, fr)
        last = chain[-1]
        if "out" in kw and kw["out"]:
            self.mutate_all(kw["out"], e)
        if root == "logger":
            return set()
        if modname == "numpy":
            if "random" in chain:
                self.note("assumptions", f"rng:np.{'.'.join(chain)}")
                if last in NP_MUTATE_FIRST and per:
                    self.mutate_all(per[0], e)
                return set()
            if "ndarray" in chain[:-1] or "DataFrame" in chain[:-1]:
                # unbound-method form np.ndarray.sort(x): same effect as x.sort()
                if last in M_MUTATE or last in M_STORE:
                    if per:
                        self.mutate_all(per[0], e)
                    return set()
                return s
            if last == "at" and len(chain) >= 2:
                if per:
                    self.mutate_all(per[0], e)
                return set()
            if last in NP_MUTATE_FIRST:
                if per:
                    self.mutate_all(per[0], e)
                return set()
            if last == "nan_to_num" and self.kw_false(e, "copy"):
                if per:
                    self.mutate_all(per[0], e)
                return s
            # positional `out` of ufuncs / dot / matmul
            if last in NP_UFUNC_BINARY and len(per) >= 3:
                self.mutate_all(per[2], e)
                return per[2]
            if last in NP_UFUNC_UNARY and len(per) >= 2:
                self.mutate_all(per[1], e)
                return per[1]
            if last in NP_WRITE:
                for v in sorted(set().union(*per[1:2]) if len(per) > 1 else set()):
                    self.emit("write", v, (), e)
                return set()
            if last in NP_GLOBAL:
                self.note("global", f"np.{last}")
                return set()
            if last in NP_VIEW:
                return s
            if last == "array" and self.kw_false(e, "copy"):
                return s
            return set()
        if modname == "pandas":
            if last in ("DataFrame", "Series"):
                return (per[0] if per else set()) | kw.get("data", set())   # index / columns are immutable Index objects
            if last in ("concat", "Index", "MultiIndex", "merge"):
                return s
            return set()
        if modname == "subprocess":
            self.note("assumptions", f"external-process:{'.'.join(chain)}")
            return set()
        if modname in ("os", "re", "math", "cmath", "sys", "logging"):
            return set()
        if modname == "freud":
            return set()        # freud copies / only reads its inputs (contract, monitored at run time)
        if modname == "scipy":
            return set()
        raise Unrecognised(f"{self.name}: call into module {modname} not in the tables ({self.file}:{e.lineno})")

    def kw_false(self, e, name):
        for k in e.keywords:
            if k.arg == name and isinstance(k.value, ast.Constant) and k.value.value is False:
                return True
        return False

    def method_call(self, f, e, fr):
        recv = self.ev(f.value, fr)
        s, per, kw = self.args_of(e, fr)
        m = f.attr
        if "out" in kw and kw["out"]:
            self.mutate_all(kw["out"], e)
        if self.kw_true(e, "inplace"):
            self.mutate_all(recv, e)
        if m == "copy" and self.kw_false(e, "deep"):
            return recv
        if m == "astype" and self.kw_false(e, "copy"):
            return recv
        if m in M_MUTATE:
            self.mutate_all(recv, e)
            return recv
        if m in M_STORE:
            tgt = self.store_target(f.value, fr)
            if tgt is not None:
                self.emit("store", tgt, s, e)
            else:
                self.mutate_all(recv, e)
                for v in sorted(recv):
                    self.emit("alias", v, {v} | s, e)
            return set()
        if m in M_FILEWRITE:
            return set()
        if m in M_WRITE:
            for v in sorted(recv):
                self.emit("write", v, (), e)
            return set()
        if m in M_FRESH:
            return set()
        if m in M_VIEW:
            return recv | s
        raise Unrecognised(f"{self.name}: method .{m}() is in none of the tables ({self.file}:{e.lineno})")

    def store_target(self, e, fr):
        if isinstance(e, ast.Name) and e.id in fr.locals:
            return self.vid(self.lname(fr, e.id))
        if isinstance(e, ast.Attribute) and isinstance(e.value, ast.Name) and e.value.id == "self" and "self" not in fr.locals \
                and fr.selfprefix is not None:
            return self.vid(f"{fr.selfprefix}.{e.attr}")
        return None

    # ---- inlining
    def inline(self, mod, fn, call, fr, selfprefix, cls):
        key = (mod.rel, fn.name, selfprefix)
        if (mod.rel, fn.name) in [(a, b) for a, b, _ in self.stack]:
            raise Unrecognised(f"{self.name}: recursion through {fn.name}")
        if len(self.stack) > 12:
            raise Unrecognised(f"{self.name}: inlining too deep")
        # evaluate the arguments in the caller's frame
        pos = [self.ev(a, fr) for a in call.args] if call is not None else []
        if call is not None and any(isinstance(a, ast.Starred) for a in call.args):
            raise Unrecognised(f"{self.name}: *args in a call of package function {fn.name}")
        kws = {k.arg: self.ev(k.value, fr) for k in call.keywords} if call is not None else {}
        if None in kws:
            raise Unrecognised(f"{self.name}: **kwargs in a call of package function {fn.name}")
        self.counter += 1
        nf = Frame(mod, f"{fn.name}#{self.counter}:", selfprefix, cls)
        self.stack.append(key)
        saved_file = self.file
        self.file = mod.rel
        params = [a.arg for a in fn.args.args]
        if fn.args.vararg or fn.args.kwarg or fn.args.kwonlyargs:
            raise Unrecognised(f"{self.name}: *args/**kwargs in the signature of {fn.name}")
        if selfprefix is not None and params and params[0] == "self":
            params = params[1:]
        defaults = dict(zip(params[len(params) - len(fn.args.defaults):], fn.args.defaults))
        scal = scalar_params(fn)
        stored = stored_names(fn)
        kwexpr = {k.arg: k.value for k in call.keywords} if call is not None else {}
        for i, p in enumerate(params):
            nf.locals.add(p)
            x = self.vid(self.lname(nf, p))
            given = call.args[i] if (call is not None and i < len(call.args)) else kwexpr.get(p, defaults.get(p) if p in defaults else None)
            if p not in stored and given is not None and falsy_const(given):
                nf.constfalse.add(p)        # bound to a falsy constant and never re-assigned: `if p:` is dead here
            if p in scal:
                self.bind(x, set(), call)
            elif i < len(pos):
                self.bind(x, pos[i], call)
            elif p in kws:
                self.bind(x, kws[p], call)
            elif p in defaults:
                self.bind(x, self.default_value(mod, fn, p, defaults[p]), call)
            else:
                raise Unrecognised(f"{self.name}: missing argument {p} in a call of {fn.name}")
        self.collect_locals(fn, nf)
        self.block(fn.body, nf, toplevel=True)
        self.stack.pop()
        self.file = saved_file
        res = set()
        for r in nf.rets:
            res |= r
        rets = [n for n in ast.walk(fn) if isinstance(n, ast.Return)]
        self.last_inline_must = (next(iter(res)), call) if (len(res) == 1 and rets and all(isinstance(r.value, ast.Name) for r in rets)) else None
        return res

    def default_value(self, mod, fn, p, d):
        """a default that is a mutable object is shared by all calls: it is an INPUT"""
        if isinstance(d, ast.Constant) or (isinstance(d, ast.UnaryOp) and isinstance(d.operand, ast.Constant)):
            return set()
        if isinstance(d, (ast.BinOp, ast.Tuple)) and all(isinstance(x, (ast.Constant, ast.BinOp, ast.Attribute, ast.Name, ast.operator, ast.Load, ast.Tuple, ast.expr_context))
                                                          for x in ast.walk(d)) and not any(isinstance(x, ast.Call) for x in ast.walk(d)):
            return set()        # 2 * np.pi, () …
        v = self.vid(f"default:{mod.dotted}.{fn.name}.{p}")
        if v not in self.params:
            self.params.append(v)
        return {v}

    def construct(self, mod, cls, call, fr):
        if is_dataclass(cls):
            s, _, _ = self.args_of(call, fr)
            return s
        ms = methods_of(cls)
        self.counter += 1
        sp = f"{fr.prefix}obj#{self.counter}<{cls.name}>"
        if "__init__" in ms:
            self.inline(mod, ms["__init__"], call, fr, sp, (mod, cls))
        self.last_constructed = (mod, cls, sp)
        return {self.vid(f"{sp}.{a}") for a in self_attrs(cls)}

    def collect_locals(self, fn, fr):
        for n in ast.walk(fn):
            if isinstance(n, ast.Name) and isinstance(n.ctx, (ast.Store, ast.Del)):
                fr.locals.add(n.id)
            elif isinstance(n, (ast.Global, ast.Nonlocal)):
                raise Unrecognised(f"{self.name}: global/nonlocal statement in {fn.name}")
            elif isinstance(n, ast.Lambda) or (isinstance(n, (ast.FunctionDef, ast.AsyncFunctionDef, ast.ClassDef)) and n is not fn):
                raise Unrecognised(f"{self.name}: nested function/lambda/class in {fn.name}")
            elif isinstance(n, (ast.Yield, ast.YieldFrom, ast.Await)):
                raise Unrecognised(f"{self.name}: generator/async in {fn.name}")
            elif isinstance(n, ast.ExceptHandler) and n.name:
                fr.locals.add(n.name)

    # ---- statements
    def block(self, body, fr, toplevel=False):
        for st in body:
            self.stmt(st, fr, toplevel)

    def assign_target(self, t, aliases, fr, node, toplevel=False, comp=False, value=None):
        if isinstance(t, ast.Name):
            fr.locals.add(t.id)
            x = self.vid(self.lname(fr, t.id, new=toplevel))
            self.bind(x, aliases, node)
            if value is not None and self.is_pycontainer(value, fr):
                fr.pycont.add(t.id)
            return
        if isinstance(t, (ast.Tuple, ast.List)):
            for x in t.elts:
                self.assign_target(x, aliases, fr, node, toplevel, comp)
            return
        if isinstance(t, ast.Starred):
            self.assign_target(t.value, aliases, fr, node, toplevel, comp)
            return
        if isinstance(t, ast.Attribute):
            if isinstance(t.value, ast.Name) and t.value.id == "self" and "self" not in fr.locals and fr.selfprefix is not None:
                x = self.vid(f"{fr.selfprefix}.{t.attr}")
                self.bind(x, aliases, node)
                if fr.selfprefix == "self" and self.method_mode_attrs is not None:
                    sw = f"{self.name}:{t.attr}"
                    if sw not in self.state_writes:
                        self.state_writes.append(sw)
                return
            base = self.ev(t.value, fr)
            self.mutate_all(base, node)
            for v in sorted(base):
                self.emit("alias", v, {v} | aliases, node)
            return
        if isinstance(t, ast.Subscript):
            base = self.ev(t.value, fr)
            self.ev_slice(t.slice, fr)
            tgt = self.store_target(t.value, fr)
            if tgt is not None and isinstance(t.value, ast.Name) and t.value.id in fr.pycont:
                self.emit("store", tgt, aliases, node)      # d[k] = v on a python container
                return
            self.mutate_all(base, node)     # element / slice / column assignment copies VALUES into the target (numpy, pandas)
            return
        raise Unrecognised(f"{self.name}: assignment target {type(t).__name__}")

    def stmt(self, st, fr, toplevel):
        if isinstance(st, ast.Expr):
            if isinstance(st.value, ast.Constant):
                return
            self.ev(st.value, fr)
        elif isinstance(st, ast.Assign):
            # constructor of a package class: remember which object the name denotes
            self.last_constructed = None
            self.last_inline_must = None
            val = self.ev(st.value, fr)
            must = self.last_inline_must
            if (toplevel and must is not None and must[1] is st.value and len(st.targets) == 1 and isinstance(st.targets[0], ast.Name)
                    and val == {must[0]}):
                # `x = f(...)` at the top level, f inlined and returning one of its locals: x IS that object
                t = st.targets[0]
                fr.locals.add(t.id)
                self.vars[self.lname(fr, t.id, new=True)] = must[0]
                return
            for t in st.targets:
                self.assign_target(t, val, fr, st, toplevel, value=st.value)
                if self.last_constructed is not None and isinstance(t, ast.Name) and isinstance(st.value, ast.Call):
                    fr.objs[t.id] = self.last_constructed
                elif isinstance(t, ast.Name) and t.id in fr.objs:
                    del fr.objs[t.id]
        elif isinstance(st, ast.AnnAssign):
            if st.value is not None:
                val = self.ev(st.value, fr)
                self.assign_target(st.target, val, fr, st, toplevel, value=st.value)
        elif isinstance(st, ast.AugAssign):
            val = self.ev(st.value, fr)
            t = st.target
            if isinstance(t, ast.Name):
                if t.id not in fr.locals:
                    raise Unrecognised(f"{self.name}: augmented assignment to non-local {t.id}")
                x = self.vid(self.lname(fr, t.id))
                # array: in place, values copied in; immutable scalar/str: rebinding to a fresh value; list: extended (store)
                self.emit("mutate", x, (), st)
                if val and t.id in fr.pycont:
                    self.emit("store", x, val, st)
            elif isinstance(t, ast.Attribute) and isinstance(t.value, ast.Name) and t.value.id == "self" and "self" not in fr.locals \
                    and fr.selfprefix is not None:
                x = self.vid(f"{fr.selfprefix}.{t.attr}")
                self.emit("mutate", x, (), st)
            else:
                base = self.ev(t.value, fr) if isinstance(t, (ast.Attribute, ast.Subscript)) else set()
                if isinstance(t, ast.Subscript):
                    self.ev_slice(t.slice, fr)
                self.mutate_all(base, st)
        elif isinstance(st, ast.For):
            it = self.ev_iter(st.iter, fr)
            self.assign_target(st.target, it, fr, st)
            self.block(st.body, fr)
            self.block(st.orelse, fr)
        elif isinstance(st, ast.While):
            self.ev(st.test, fr)
            self.block(st.body, fr)
            self.block(st.orelse, fr)
        elif isinstance(st, ast.If):
            t = st.test
            if isinstance(t, ast.Name) and t.id in fr.constfalse:
                self.block(st.orelse, fr)
                return
            if isinstance(t, ast.UnaryOp) and isinstance(t.op, ast.Not) and isinstance(t.operand, ast.Name) and t.operand.id in fr.constfalse:
                self.block(st.body, fr)
                return
            self.ev(st.test, fr)
            self.block(st.body, fr)
            self.block(st.orelse, fr)
        elif isinstance(st, ast.With):
            for item in st.items:
                v = self.ev(item.context_expr, fr)
                if item.optional_vars is not None:
                    self.assign_target(item.optional_vars, v, fr, st)
            self.block(st.body, fr)
        elif isinstance(st, ast.Try):
            self.block(st.body, fr)
            for h in st.handlers:
                if h.type is not None:
                    self.ev(h.type, fr)
                if h.name:
                    self.bind(self.vid(self.lname(fr, h.name)), set(), st)
                self.block(h.body, fr)
            self.block(st.orelse, fr)
            self.block(st.finalbody, fr)
        elif isinstance(st, ast.Return):
            val = self.ev(st.value, fr) if st.value is not None else set()
            fr.rets.append(val)
            if fr.top:
                self.emit("ret", -1, val, st)
        elif isinstance(st, ast.Assert):
            self.ev(st.test, fr)
            if st.msg is not None:
                self.ev(st.msg, fr)
        elif isinstance(st, ast.Raise):
            if st.exc is not None:
                self.ev(st.exc, fr)
        elif isinstance(st, ast.Delete):
            for t in st.targets:
                if isinstance(t, ast.Name):
                    pass
                elif isinstance(t, (ast.Subscript, ast.Attribute)):
                    self.mutate_all(self.ev(t.value, fr), st)
        elif isinstance(st, (ast.Pass, ast.Break, ast.Continue, ast.Import, ast.ImportFrom)):
            pass
        else:
            raise Unrecognised(f"{self.name}: statement {type(st).__name__} ({self.file}:{st.lineno})")

    # ---- entry points
    def run_function(self, mod, fn, cls=None, method_attrs=None):
        self.file = mod.rel
        selfprefix = "self" if cls is not None else None
        fr = Frame(mod, "", selfprefix, cls, top=True)
        self.method_mode_attrs = method_attrs
        params = [a.arg for a in fn.args.args]
        if fn.args.vararg or fn.args.kwarg or fn.args.kwonlyargs:
            raise Unrecognised(f"{self.name}: *args/**kwargs in the signature")
        if cls is not None:
            params = params[1:]
        scal = scalar_params(fn)
        for p in params:
            fr.locals.add(p)
            x = self.vid(self.lname(fr, p))
            if p in scal:
                self.bind(x, set(), fn)
            else:
                self.params.append(x)
        if method_attrs is not None:
            for a in method_attrs:
                self.params.append(self.vid(f"self.{a}"))
        self.stack.append((mod.rel, fn.name, selfprefix))
        self.collect_locals(fn, fr)
        self.block(fn.body, fr, toplevel=True)
        if not fr.rets or not isinstance(fn.body[-1], ast.Return):
            self.emit("ret", -1, set(), fn)
        return self


def finalize(w):
    """dedupe (keep last), prune variables that are only ever bound, never used"""
    stmts = [(k, x, tuple(ys)) for k, x, ys, _, _ in w.out]
    where = {}
    for (k, x, ys, f, l) in w.out:
        where.setdefault((k, x, tuple(ys)), []).append(f"{f}:{l}")
    changed = True
    while changed:
        changed = False
        used = set(w.params)
        for k, x, ys in stmts:
            if k in ("alias", "store"):
                used |= {y for y in ys if y != x}
            elif k in ("mutate", "write"):
                used.add(x)
            elif k == "ret":
                used |= set(ys)
        keep = [s for s in stmts if not (s[0] in ("fresh", "alias", "store") and s[1] not in used)]
        if len(keep) != len(stmts):
            stmts = keep
            changed = True
    seen = set()
    out = []
    for s in reversed(stmts):
        if s[0] in ("ret", "write") or s not in seen:
            seen.add(s)
            out.append(s)
    out.reverse()
    return out, where


class Package:
    def __init__(self, repo):
        self.mods = {}
        self.srcs = []
        for rel in ENTRY_MODULES + SUPPORT_MODULES:
            full = f"{PKG}/{rel}"
            text = read(repo, full)
            self.srcs.append(full)
            m = Mod(full, ast.parse(text))
            self.mods[m.dotted] = m
        self.int_fields = set()
        ru = self.mods[f"{PKG}.reader.reader_utils"]
        for cls in ru.classes.values():
            for n in cls.body:
                if isinstance(n, ast.AnnAssign) and isinstance(n.target, ast.Name) and isinstance(n.annotation, ast.Name) \
                        and n.annotation.id in ("int", "float", "str", "bool"):
                    self.int_fields.add(n.target.id)

    def entries(self):
        out = []
        for rel in ENTRY_MODULES:
            m = self.mods[f"{PKG}/{rel}"[:-3].replace("/", ".")]
            for n in m.tree.body:
                if isinstance(n, ast.FunctionDef) and not n.name.startswith("_") and n.name not in SKIP_ENTRIES:
                    body = [b for b in n.body if not (isinstance(b, ast.Expr) and isinstance(b.value, ast.Constant))]
                    if not body or all(isinstance(b, ast.Pass) for b in body):
                        continue        # declared but empty routine
                    out.append((f"{m.dotted.split('.', 1)[1]}.{n.name}", m, n, None))
                elif isinstance(n, ast.ClassDef) and not n.name.startswith("_") and not is_dataclass(n):
                    for mn, fn in methods_of(n).items():
                        if mn.startswith("_") and mn != "__init__":
                            continue
                        out.append((f"{m.dotted.split('.', 1)[1]}.{n.name}.{mn}", m, fn, n))
        return out


def lean_str(s):
    return '"' + s.replace("\\", "\\\\").replace('"', '\\"') + '"'


def render_stmt(s):
    k, x, ys = s
    if k == "fresh":
        return f".fresh {x}"
    if k == "alias":
        return f".alias {x} [{', '.join(map(str, ys))}]"
    if k == "store":
        return f".store {x} [{', '.join(map(str, ys))}]"
    if k == "mutate":
        return f".mutate {x}"
    if k == "write":
        return f".write {x}"
    return f".ret [{', '.join(map(str, ys))}]"


def analyse(repo):
    pkg = Package(repo)
    routines, side = [], {}
    state_writes, global_effects, assumptions = [], [], []
    for name, mod, fn, cls in pkg.entries():
        w = Walker(pkg, name)
        if cls is not None:
            attrs = self_attrs(cls) if fn.name != "__init__" else None
            w.run_function(mod, fn, (mod, cls), attrs)
        else:
            w.run_function(mod, fn)
        stmts, where = finalize(w)
        routines.append((name, list(w.params), stmts))
        side[name] = {"vars": w.varinfo, "params": list(w.params),
                      "where": {f"{k} {x} {list(ys)}": v[:4] for (k, x, ys), v in where.items() if k in ("mutate", "store", "write")}}
        state_writes += w.state_writes
        global_effects += [f"{name}:{g}" for g in w.global_effects]
        assumptions += [f"{name}:{a}" for a in w.assumptions]
    return pkg, routines, side, state_writes, global_effects, assumptions


@generator("purity")
def gen_purity(repo):
    pkg, routines, side, state_writes, global_effects, assumptions = analyse(repo)
    L = ["import Pms.Model.Purity",
         "/-! REGENERATED by translator/gens/purity.py from the pymattersim sources — do not edit -/",
         "namespace Pms.Gen.Purity", "open Pms.Purity", ""]
    for i, (name, params, stmts) in enumerate(routines):
        L.append(f"def r{i} : Routine := {{ name := {lean_str(name)}, params := [{', '.join(map(str, params))}], prog := [")
        L.append(",\n".join("    " + render_stmt(s) for s in stmts) + "] }")
        L.append("")
    L.append("def routines : List Routine := [" + ", ".join(f"r{i}" for i in range(len(routines))) + "]")
    L.append("")
    for nm, lst in (("stateWrites", state_writes), ("globalEffects", global_effects), ("assumptions", assumptions)):
        L.append(f"def {nm} : List String := [" + ", ".join(lean_str(s) for s in lst) + "]")
    L += ["", "end Pms.Gen.Purity", ""]
    sidecar = json.dumps({"routines": side, "stateWrites": state_writes, "globalEffects": global_effects,
                          "assumptions": assumptions}, indent=0, sort_keys=True)
    return [("Pms/Gen/Purity.lean", "\n".join(L), pkg.srcs), ("Pms/Gen/Purity.json", sidecar, pkg.srcs)]
