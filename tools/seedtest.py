#!/usr/bin/env python3
"""tools/seedtest.py <seed-id> <property> --from <dir with patch.diff, demo.py[, notes.json]> [--tier quick|thorough] [--also Cyy ...]
   tools/seedtest.py <seed-id> <property> --recheck          (seed already stored: only re-run the checks against it)

1. confirms the seeded change in a scratch worktree of /repo HEAD (outside /repo and /verif): demo exits 0 without the
   patch and non-zero with it; the repository's whole test suite gives the same PASSED set with the patch as the baseline
   (tools/runtests.sh; baseline cached in /root/work/baseline_tests.txt, regenerated when /repo HEAD changes);
2. stores it as seeded/<seed-id>/{patch.diff, demo.py, meta.json};
3. applies it to /repo, runs ./check <property> (and --also ...), reverts (`git checkout -- .`), records what was reported."""
import argparse
import json
import os
import shutil
import subprocess
import tempfile

VERIF = os.path.dirname(os.path.dirname(os.path.abspath(__file__)))
PY = "/venv/bin/python"
BASE = "/root/work/baseline_tests.txt"


def sh(cmd, cwd=None, env=None, timeout=7200):
    p = subprocess.run(cmd, shell=True, cwd=cwd, env=env, capture_output=True, text=True, timeout=timeout)
    return p.returncode, (p.stdout + p.stderr)


def head():
    return sh("git -C /repo rev-parse HEAD")[1].strip()


def baseline(wt):
    tag = BASE + ".head"
    if os.path.exists(BASE) and os.path.exists(tag) and open(tag).read().strip() == head() and os.path.getsize(BASE) > 0:
        return open(BASE).read()
    rc, out = sh(f"{VERIF}/tools/runtests.sh {wt}")
    os.makedirs(os.path.dirname(BASE), exist_ok=True)
    open(BASE, "w").write(out)
    open(tag, "w").write(head())
    return out


def passed(txt):
    return sorted(l.split(" ", 1)[1].strip() for l in txt.splitlines() if l.startswith("PASSED "))


def run_checks(dest, props, tier):
    import fcntl
    lock = open("/root/work/repo.lock", "w")
    fcntl.flock(lock, fcntl.LOCK_EX)      # /repo's working tree is shared with tools/mergeprop.sh
    try:
        return _run_checks(dest, props, tier)
    finally:
        fcntl.flock(lock, fcntl.LOCK_UN)


def _run_checks(dest, props, tier):
    rc, out = sh("git -C /repo status --porcelain --untracked-files=no")
    assert out.strip() == "", "/repo not clean: " + out
    rc, out = sh(f"git -C /repo apply {dest}/patch.diff")
    assert rc == 0, "patch does not apply to /repo: " + out
    res = []
    try:
        for p in props:
            rcc, oc = sh(f"./check {p} --tier {tier}", cwd=VERIF, timeout=7200)
            lines = [l for l in oc.splitlines() if l.startswith("VIOLATION") or l.startswith("  ->") or l.startswith("KNOWN") or l.startswith("INFRA")]
            rp = None
            for l in lines:
                if l.startswith("VIOLATION") and "replay=" in l:
                    rp = l.split("replay=")[1].split()[0]
                    break
            rep = None
            if rp and os.path.exists(os.path.join(VERIF, rp)):
                r1, o1 = sh(f"./check {p} --replay {rp}", cwd=VERIF, timeout=1800)
                rep = {"on_mutant_rc": r1, "tail": o1.strip().splitlines()[-1:] }
            res.append({"cmd": f"./check {p} --tier {tier}", "rc": rcc, "lines": lines[:8], "replay": rp, "replay_on_mutant": rep,
                        "caught": rcc == 1 and any(l.startswith("VIOLATION") for l in lines),
                        "with_failing_input": any(l.startswith("VIOLATION") and "no-failing-input-found" not in l for l in lines)})
    finally:
        sh("git -C /repo checkout -- .")
    # back on the clean tree: the check must be green again (this also restores regenerated Lean files and evidence)
    for p in props:
        rcc, oc = sh(f"./check {p} --tier quick", cwd=VERIF, timeout=7200)
        for r in res:
            if r["cmd"].split()[1] == p:
                r["clean_tree_rc_after_revert"] = rcc
    # replay on the clean tree must NOT reproduce
    for r in res:
        if r["replay"] and os.path.exists(os.path.join(VERIF, r["replay"])):
            p = r["cmd"].split()[1]
            r0, o0 = sh(f"./check {p} --replay {r['replay']}", cwd=VERIF, timeout=1800)
            r["replay_on_clean_rc"] = r0
    return res


def main():
    ap = argparse.ArgumentParser()
    ap.add_argument("seed_id"); ap.add_argument("prop")
    ap.add_argument("--from", dest="src")
    ap.add_argument("--recheck", action="store_true")
    ap.add_argument("--tier", default="quick")
    ap.add_argument("--also", nargs="*", default=[])
    ap.add_argument("--skip-suite", action="store_true")
    ap.add_argument("--confirm-only", action="store_true", help="phase A only: confirm in a scratch worktree, store; do not touch /repo")
    a = ap.parse_args()
    dest = os.path.join(VERIF, "seeded", a.seed_id)
    mp = os.path.join(dest, "meta.json")
    if a.recheck:
        meta = json.load(open(mp))
    else:
        os.makedirs(dest, exist_ok=True)
        for fn in ("patch.diff", "demo.py"):
            shutil.copy(os.path.join(a.src, fn), os.path.join(dest, fn))
        notes = {}
        if os.path.exists(os.path.join(a.src, "notes.json")):
            try:
                notes = json.load(open(os.path.join(a.src, "notes.json")))
            except Exception:
                notes = {"raw": open(os.path.join(a.src, "notes.json")).read()[:2000]}
        meta = {"seed_id": a.seed_id, "property": a.prop, "summary": notes.get("summary", ""), "needs": notes.get("needs", ""),
                "author": "independent sub-agent given only the property text and a scratch worktree", "repo_head": head(), "ran": []}
        wt = tempfile.mkdtemp(prefix="seedchk-", dir="/tmp")
        os.rmdir(wt)
        try:
            rc, out = sh(f"git -C /repo worktree add -q --detach {wt} HEAD")
            assert rc == 0, out
            env = dict(os.environ, PYTHONPATH=wt)
            rc0, o0 = sh(f"{PY} {dest}/demo.py", cwd=wt, env=env)
            meta["ran"].append({"cmd": "demo on unchanged tree", "rc": rc0, "tail": o0[-300:]})
            base = None if a.skip_suite else baseline(wt)
            rc, out = sh(f"git apply {dest}/patch.diff", cwd=wt)
            assert rc == 0, "patch does not apply: " + out
            rc1, o1 = sh(f"{PY} {dest}/demo.py", cwd=wt, env=env)
            meta["ran"].append({"cmd": "demo with patch", "rc": rc1, "tail": o1[-400:]})
            if not a.skip_suite:
                rc, out = sh(f"{VERIF}/tools/runtests.sh {wt}")
                pb, pp = passed(base), passed(out)
                meta["suite"] = {"cmd": "tools/runtests.sh <worktree> (whole suite)", "baseline_passed": len(pb), "patched_passed": len(pp),
                                 "lost": sorted(set(pb) - set(pp))}
                meta["tests_same"] = set(pb) <= set(pp)
            meta["confirmed"] = (rc0 == 0 and rc1 != 0)
        finally:
            sh(f"git -C /repo worktree remove --force {wt}")
            shutil.rmtree(wt, ignore_errors=True)
    if meta.get("confirmed") and meta.get("tests_same", True) and not a.confirm_only:
        meta["checks"] = run_checks(dest, [a.prop] + a.also, a.tier)
        meta["caught"] = any(c["caught"] for c in meta["checks"])
        meta["with_failing_input"] = any(c["with_failing_input"] for c in meta["checks"])
    with open(mp, "w") as f:
        json.dump(meta, f, indent=1)
    print(json.dumps({k: meta.get(k) for k in ("seed_id", "confirmed", "tests_same", "caught", "with_failing_input")}))
    for c in meta.get("checks", []):
        print(c["cmd"], "rc", c["rc"], "replay_on_mutant", c.get("replay_on_mutant"), "replay_on_clean_rc", c.get("replay_on_clean_rc"))
        print("\n".join(c["lines"]))


if __name__ == "__main__":
    main()
