#!/usr/bin/env python3
"""tools/seedtest.py <seed-id> <property> <patch> <demo> [--tests tests/x_test.py ...] [--needs "..."]
Confirms a seeded change in a scratch worktree (demo passes without / fails with; relevant tests same with and
without), stores it under seeded/<seed-id>/, then applies it to /repo, runs ./check <property> (quick), reverts,
and records the outcome in meta.json."""
import argparse
import json
import os
import shutil
import subprocess
import sys
import tempfile

VERIF = os.path.dirname(os.path.dirname(os.path.abspath(__file__)))
PY = "/venv/bin/python"


def sh(cmd, cwd=None, env=None, timeout=3600):
    p = subprocess.run(cmd, shell=True, cwd=cwd, env=env, capture_output=True, text=True, timeout=timeout)
    return p.returncode, (p.stdout + p.stderr)


def main():
    ap = argparse.ArgumentParser()
    ap.add_argument("seed_id"); ap.add_argument("prop"); ap.add_argument("patch"); ap.add_argument("demo")
    ap.add_argument("--tests", nargs="*", default=[])
    ap.add_argument("--needs", default="")
    ap.add_argument("--tier", default="quick")
    ap.add_argument("--skip-confirm", action="store_true")
    a = ap.parse_args()
    dest = os.path.join(VERIF, "seeded", a.seed_id)
    os.makedirs(dest, exist_ok=True)
    if os.path.abspath(a.patch) != os.path.join(dest, "patch.diff"):
        shutil.copy(a.patch, os.path.join(dest, "patch.diff"))
    demo_name = "demo.py"
    if os.path.abspath(a.demo) != os.path.join(dest, demo_name):
        shutil.copy(a.demo, os.path.join(dest, demo_name))
    meta = {"seed_id": a.seed_id, "property": a.prop, "needs": a.needs, "ran": []}
    mp = os.path.join(dest, "meta.json")
    if a.skip_confirm and os.path.exists(mp):
        meta = json.load(open(mp))
    wt = tempfile.mkdtemp(prefix="seedwt-", dir="/tmp")
    os.rmdir(wt)
    try:
        rc, out = sh(f"git -C /repo worktree add -q --detach {wt} HEAD")
        assert rc == 0, out
        env = dict(os.environ, PYTHONPATH=wt)
        if not a.skip_confirm:
            rc0, o0 = sh(f"{PY} {dest}/{demo_name}", cwd=wt, env=env)
            meta["ran"].append({"cmd": "demo on clean tree", "rc": rc0, "tail": o0[-300:]})
            t0 = None
            if a.tests:
                t0, to0 = sh(f"{PY} -m pytest -q -p no:cacheprovider {' '.join(a.tests)} 2>&1 | tail -3", cwd=wt, env=env)
                meta["ran"].append({"cmd": "tests on clean tree: " + " ".join(a.tests), "tail": to0[-300:]})
            rc, out = sh(f"git apply {dest}/patch.diff", cwd=wt)
            assert rc == 0, "patch does not apply: " + out
            rc1, o1 = sh(f"{PY} {dest}/{demo_name}", cwd=wt, env=env)
            meta["ran"].append({"cmd": "demo with patch", "rc": rc1, "tail": o1[-300:]})
            if a.tests:
                t1, to1 = sh(f"{PY} -m pytest -q -p no:cacheprovider {' '.join(a.tests)} 2>&1 | tail -3", cwd=wt, env=env)
                meta["ran"].append({"cmd": "tests with patch", "tail": to1[-300:]})
                meta["tests_same"] = (to0.strip().splitlines()[-1:] == to1.strip().splitlines()[-1:]) or \
                    (to0.split(" in ")[0].split("\n")[-1] == to1.split(" in ")[0].split("\n")[-1])
            meta["confirmed"] = (rc0 == 0 and rc1 != 0)
        # now against our checks
        rc, out = sh("git -C /repo status --porcelain --untracked-files=no")
        assert out.strip() == "", "/repo not clean: " + out
        rc, out = sh(f"git -C /repo apply {dest}/patch.diff")
        assert rc == 0, out
        try:
            rcc, oc = sh(f"./check {a.prop} --tier {a.tier}", cwd=VERIF, timeout=3000)
        finally:
            sh("git -C /repo checkout -- .")
        lines = [l for l in oc.splitlines() if l.startswith("VIOLATION") or l.startswith("  ->") or l.startswith("KNOWN")]
        meta["check"] = {"cmd": f"./check {a.prop} --tier {a.tier}", "rc": rcc, "lines": lines[:8]}
        meta["caught"] = rcc == 1 and any(l.startswith("VIOLATION") for l in lines)
        meta["with_failing_input"] = any(l.startswith("VIOLATION") and "no-failing-input-found" not in l for l in lines)
    finally:
        sh(f"git -C /repo worktree remove --force {wt}")
        shutil.rmtree(wt, ignore_errors=True)
    with open(os.path.join(dest, "meta.json"), "w") as f:
        json.dump(meta, f, indent=1)
    print(json.dumps({k: meta.get(k) for k in ("seed_id", "confirmed", "tests_same", "caught", "with_failing_input")}), "\n", "\n".join(meta["check"]["lines"]))


if __name__ == "__main__":
    main()
