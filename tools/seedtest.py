#!/usr/bin/env python3
"""tools/seedtest.py <seed-id> <property> --from <dir with patch.diff, demo.py[, notes.json]> [--tier quick|thorough] [--also Cyy ...]
   tools/seedtest.py <seed-id> <property> --recheck          (seed already stored: only re-run the checks against it)

1. confirms the seeded change in a scratch worktree of /repo HEAD (outside /repo and /verif): demo exits 0 without the
   patch and non-zero with it; the repository's whole test suite gives the same PASSED set with the patch as the baseline
   (tools/runtests.sh; baseline cached in /root/work/baseline_tests.txt, regenerated when /repo HEAD changes);
2. stores it as seeded/<seed-id>/{patch.diff, demo.py, meta.json};
3. applies it to /repo, runs ./check <property> (and --also ...), reverts (`git checkout -- .`), records what was reported."""
import argparse
import json
import os
import shutil
import subprocess
import tempfile

VERIF = os.path.dirname(os.path.dirname(os.path.abspath(__file__)))
PY = "/venv/bin/python"
BASE = "/root/work/baseline_tests.txt"


def sh(cmd, cwd=None, env=None, timeout=7200):
    p = subprocess.run(cmd, shell=True, cwd=cwd, env=env, capture_output=True, text=True, timeout=timeout)
    return p.returncode, (p.stdout + p.stderr)


def head():
    return sh("git -C /repo rev-parse HEAD")[1].strip()


def baseline(wt):
    tag = BASE + ".head"
    if os.path.exists(BASE) and os.path.exists(tag) and open(tag).read().strip() == head() and os.path.getsize(BASE) > 0:
        return open(BASE).read()
    rc, out = sh(f"{VERIF}/tools/runtests.sh {wt}")
    os.makedirs(os.path.dirname(BASE), exist_ok=True)
    open(BASE, "w").write(out)
    open(tag, "w").write(head())
    return out


def affected_tests(wt, patch):
    """test files of the repository whose import closure (static `import` / `from … import` statements, followed through the package)
    contains a file the patch touches — the only tests whose outcome the patch can change"""
    import ast
    import re
    changed = set(re.findall(r"^\+\+\+ b/(\S+)", open(patch).read(), re.M))

    def deps(path):
        out = set()
        try:
            tree = ast.parse(open(os.path.join(wt, path)).read())
        except (OSError, SyntaxError):
            return out
        pkg = os.path.dirname(path).split("/")
        for n in ast.walk(tree):
            mods = []
            if isinstance(n, ast.Import):
                mods = [a.name for a in n.names]
            elif isinstance(n, ast.ImportFrom):
                base = (pkg[:len(pkg) - (n.level - 1)] if n.level else [])
                m = ".".join(base + ([n.module] if n.module else []))
                mods = [m] + [m + "." + a.name for a in n.names]
            for m in mods:
                for cand in (m.replace(".", "/") + ".py", m.replace(".", "/") + "/__init__.py"):
                    if os.path.exists(os.path.join(wt, cand)):
                        out.add(cand)
        return out
    memo = {}

    def closure(path):
        if path in memo:
            return memo[path]
        memo[path] = seen = {path}
        stack = [path]
        while stack:
            for d in deps(stack.pop()):
                if d not in seen:
                    seen.add(d)
                    stack.append(d)
        return seen
    tests = []
    for root, _, files in os.walk(os.path.join(wt, "tests")):
        for fn in files:
            if fn.endswith("_test.py") or fn.startswith("test_"):
                rel = os.path.relpath(os.path.join(root, fn), wt)
                if closure(rel) & changed:
                    tests.append(rel)
    return sorted(tests), sorted(changed)


def passed(txt):
    return sorted(l.split(" ", 1)[1].strip() for l in txt.splitlines() if l.startswith("PASSED "))


PAIR = None     # (framework worktree, library worktree): checks run there with PMS_REPO instead of in /verif against /repo


def run_checks(dest, props, tier):
    if PAIR:
        return _run_checks(dest, props, tier)
    import fcntl
    lock = open("/root/work/repo.lock", "w")
    fcntl.flock(lock, fcntl.LOCK_EX)      # /repo's working tree is shared with tools/mergeprop.sh
    try:
        return _run_checks(dest, props, tier)
    finally:
        fcntl.flock(lock, fcntl.LOCK_UN)


def _run_checks(dest, props, tier):
    global VERIF
    REPO = "/repo"
    env = None
    if PAIR:
        VERIF, REPO = PAIR
        env = dict(os.environ, PMS_REPO=REPO)
        sh(f"git -C {REPO} checkout -q -- .")
    rc, out = sh(f"git -C {REPO} status --porcelain --untracked-files=no")
    assert out.strip() == "", f"{REPO} not clean: " + out
    rc, out = sh(f"git -C {REPO} apply {dest}/patch.diff")
    assert rc == 0, f"patch does not apply to {REPO}: " + out
    res = []
    try:
        for p in props:
            rcc, oc = sh(f"./check {p} --tier {tier}", cwd=VERIF, timeout=7200, env=env)
            lines = [l for l in oc.splitlines() if l.startswith("VIOLATION") or l.startswith("  ->") or l.startswith("KNOWN") or l.startswith("INFRA")]
            rp = None
            for l in lines:
                if l.startswith("VIOLATION") and "replay=" in l:
                    rp = l.split("replay=")[1].split()[0]
                    break
            rep = None
            if rp and os.path.exists(os.path.join(VERIF, rp)):
                r1, o1 = sh(f"./check {p} --replay {rp}", cwd=VERIF, timeout=1800, env=env)
                rep = {"on_mutant_rc": r1, "tail": o1.strip().splitlines()[-1:] }
            res.append({"cmd": f"./check {p} --tier {tier}", "rc": rcc, "lines": lines[:8], "replay": rp, "replay_on_mutant": rep,
                        "caught": rcc == 1 and any(l.startswith("VIOLATION") for l in lines),
                        "with_failing_input": any(l.startswith("VIOLATION") and "no-failing-input-found" not in l for l in lines)})
    finally:
        sh(f"git -C {REPO} checkout -- .")
    # back on the clean tree: the check must be green again (this also restores regenerated Lean files and evidence)
    for p in props:
        rcc, oc = sh(f"./check {p} --tier quick", cwd=VERIF, timeout=7200, env=env)
        for r in res:
            if r["cmd"].split()[1] == p:
                r["clean_tree_rc_after_revert"] = rcc
    # replay on the clean tree must NOT reproduce
    for r in res:
        if r["replay"] and os.path.exists(os.path.join(VERIF, r["replay"])):
            p = r["cmd"].split()[1]
            r0, o0 = sh(f"./check {p} --replay {r['replay']}", cwd=VERIF, timeout=1800, env=env)
            r["replay_on_clean_rc"] = r0
    return res


def main():
    ap = argparse.ArgumentParser()
    ap.add_argument("seed_id"); ap.add_argument("prop")
    ap.add_argument("--from", dest="src")
    ap.add_argument("--recheck", action="store_true")
    ap.add_argument("--tier", default="quick")
    ap.add_argument("--also", nargs="*", default=[])
    ap.add_argument("--skip-suite", action="store_true")
    ap.add_argument("--affected-only", action="store_true", help="run only the test files whose import closure contains a patched file")
    ap.add_argument("--pair", help="run the checks in the builder worktrees /root/work/dev<pair> + /root/work/repo-dev<pair> (PMS_REPO) instead of /verif + /repo")
    ap.add_argument("--confirm-only", action="store_true", help="phase A only: confirm in a scratch worktree, store; do not touch /repo")
    a = ap.parse_args()
    global PAIR
    if a.pair is not None:
        PAIR = (f"/root/work/dev{a.pair}", f"/root/work/repo-dev{a.pair}")
    dest = os.path.join(VERIF, "seeded", a.seed_id)
    mp = os.path.join(dest, "meta.json")
    if a.recheck:
        meta = json.load(open(mp))
    else:
        os.makedirs(dest, exist_ok=True)
        for fn in ("patch.diff", "demo.py"):
            shutil.copy(os.path.join(a.src, fn), os.path.join(dest, fn))
        notes = {}
        if os.path.exists(os.path.join(a.src, "notes.json")):
            try:
                notes = json.load(open(os.path.join(a.src, "notes.json")))
            except Exception:
                notes = {"raw": open(os.path.join(a.src, "notes.json")).read()[:2000]}
        meta = {"seed_id": a.seed_id, "property": a.prop, "summary": notes.get("summary", ""), "needs": notes.get("needs", ""),
                "author": "independent sub-agent given only the property text and a scratch worktree", "repo_head": head(), "ran": []}
        wt = tempfile.mkdtemp(prefix="seedchk-", dir="/tmp")
        os.rmdir(wt)
        try:
            rc, out = sh(f"git -C /repo worktree add -q --detach {wt} HEAD")
            assert rc == 0, out
            env = dict(os.environ, PYTHONPATH=wt)
            rc0, o0 = sh(f"{PY} {dest}/demo.py", cwd=wt, env=env)
            meta["ran"].append({"cmd": "demo on unchanged tree", "rc": rc0, "tail": o0[-300:]})
            base = None if a.skip_suite else baseline(wt)
            rc, out = sh(f"git apply {dest}/patch.diff", cwd=wt)
            assert rc == 0, "patch does not apply: " + out
            rc1, o1 = sh(f"{PY} {dest}/demo.py", cwd=wt, env=env)
            meta["ran"].append({"cmd": "demo with patch", "rc": rc1, "tail": o1[-400:]})
            if not a.skip_suite:
                if a.affected_only:
                    tests, changed = affected_tests(wt, f"{dest}/patch.diff")
                    rc, out = sh(f"{VERIF}/tools/runtests.sh {wt} {' '.join(tests)}") if tests else (0, "")
                    pref = tuple(t[:-3].replace("/", ".") if False else t for t in tests)
                    pb = [x for x in passed(base) if x.split("::")[0] in tests]
                    pp = passed(out)
                    meta["suite"] = {"cmd": "tools/runtests.sh <worktree> <the test files whose import closure contains a patched file>",
                                     "patched_files": changed, "test_files_run": tests, "baseline_passed": len(pb), "patched_passed": len(pp),
                                     "lost": sorted(set(pb) - set(pp)),
                                     "note": "the other test files import none of the patched files, their outcome cannot change"}
                else:
                    rc, out = sh(f"{VERIF}/tools/runtests.sh {wt}")
                    pb, pp = passed(base), passed(out)
                    meta["suite"] = {"cmd": "tools/runtests.sh <worktree> (whole suite)", "baseline_passed": len(pb), "patched_passed": len(pp),
                                     "lost": sorted(set(pb) - set(pp))}
                meta["tests_same"] = set(pb) <= set(pp)
            meta["confirmed"] = (rc0 == 0 and rc1 != 0)
        finally:
            sh(f"git -C /repo worktree remove --force {wt}")
            shutil.rmtree(wt, ignore_errors=True)
    if meta.get("confirmed") and meta.get("tests_same", True) and not a.confirm_only:
        meta["checks"] = run_checks(dest, [a.prop] + a.also, a.tier)
        if PAIR:
            meta["ran_in"] = ("builder worktrees: the framework at /verif HEAD (%s) with PMS_REPO = a scratch worktree of /repo HEAD carrying the patch; "
                              "/repo itself untouched" % sh("git -C %s rev-parse --short HEAD" % PAIR[0])[1].strip())
        meta["caught"] = any(c["caught"] for c in meta["checks"])
        meta["with_failing_input"] = any(c["with_failing_input"] for c in meta["checks"])
    with open(mp, "w") as f:
        json.dump(meta, f, indent=1)
    print(json.dumps({k: meta.get(k) for k in ("seed_id", "confirmed", "tests_same", "caught", "with_failing_input")}))
    for c in meta.get("checks", []):
        print(c["cmd"], "rc", c["rc"], "replay_on_mutant", c.get("replay_on_mutant"), "replay_on_clean_rc", c.get("replay_on_clean_rc"))
        print("\n".join(c["lines"]))


if __name__ == "__main__":
    main()
