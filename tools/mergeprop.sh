#!/bin/sh
# tools/mergeprop.sh Cxx — merge a builder's branches: wip-Cxx into /verif main, fix-Cxx commits into /repo main,
# regenerate the generated files, run the check on /repo itself.
P=$1
if [ -z "$MERGE_LOCKED" ]; then MERGE_LOCKED=1 exec flock /root/work/repo.lock env MERGE_LOCKED=1 "$0" "$@"; fi
cd /verif || exit 2
if ! git diff --quiet || ! git diff --cached --quiet; then echo "/verif has uncommitted changes"; exit 2; fi
echo "== fix commits"
git -C /repo log --oneline main..fix-$P
for c in $(git -C /repo rev-list --reverse main..fix-$P); do
  git -C /repo cherry-pick $c || { echo "cherry-pick failed for $c"; exit 3; }
done
echo "== merge wip-$P"
git merge --no-ff --no-commit wip-$P > /tmp/merge-$P.log 2>&1
for f in lean/Driver.lean MANIFEST.json; do
  if git status --porcelain | grep -q "^\(UU\|AA\|DU\|UD\) $f"; then git checkout --ours -- $f 2>/dev/null; git add $f; fi
done
for f in $(git status --porcelain | grep -E '^(UU|AA) lean/Pms/Audit/' | awk '{print $2}'); do git checkout --theirs -- $f; git add $f; done
if git status --porcelain | grep -E '^(UU|AA|DU|UD) '; then echo "UNRESOLVED CONFLICTS (see above)"; exit 4; fi
python3 tools/mkdrivers.py; python3 tools/mkmanifest.py
git add -A; git commit -qm "merge $P builder branch (wip-$P)"
echo "== check"
./check --setup 2>&1 | tail -2
./check $P --tier quick; echo "rc=$?"
git add -A; git commit -qm "evidence $P from /repo; regenerated files" >/dev/null
