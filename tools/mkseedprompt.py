#!/usr/bin/env python3
"""tools/mkseedprompt.py Cxx [n] [suffix] -> /tmp/seedprompts/seed-Cxx.txt, creates /tmp/seedwt-Cxx (worktree of /repo HEAD)"""
import json, os, subprocess, sys
P = sys.argv[1]; N = sys.argv[2] if len(sys.argv) > 2 else "2"
here = os.path.dirname(os.path.dirname(os.path.abspath(__file__)))
p = [json.loads(l) for l in open(os.path.join(here, "properties.jsonl")) if json.loads(l)["id"] == P][0]
SUF = sys.argv[3] if len(sys.argv) > 3 else ""
wt = f"/tmp/seedwt-{P}{SUF}"; out = f"/tmp/seedout{SUF}"
os.makedirs(out, exist_ok=True); os.makedirs("/tmp/seedprompts", exist_ok=True)
if not os.path.exists(wt):
    subprocess.run(["git", "-C", "/repo", "worktree", "add", "-q", "--detach", wt, "HEAD"], check=True)
t = open(os.path.join(here, "tools", ("seed_prompt_r7.txt" if SUF.endswith("r7") else "seed_prompt_r6.txt" if SUF.endswith("r6") else "seed_prompt_r5.txt" if SUF.endswith("r5") else "seed_prompt_r4.txt" if SUF.endswith("r4") else "seed_prompt_r3.txt" if SUF.endswith("r3") else "seed_prompt.txt"))).read()
for k, v in {"{WT}": wt, "{OUT}": out, "{P}": P, "{N}": N, "{TITLE}": p["title"], "{STATEMENT}": p["statement"],
             "{QUANT}": p["quantifier"]["text"], "{FILES}": ", ".join(p["anchors"]["files"])}.items():
    t = t.replace(k, v)
open(f"/tmp/seedprompts/seed-{P}{SUF}.txt", "w").write(t)
print(f"/tmp/seedprompts/seed-{P}{SUF}.txt")
