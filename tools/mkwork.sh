#!/bin/sh
# tools/mkwork.sh Cxx — creates the two builder worktrees for one property
set -e
P=$1
mkdir -p /root/work
git -C /verif worktree add -q /root/work/$P -b wip-$P 2>/dev/null || git -C /verif worktree add -q /root/work/$P wip-$P
git -C /repo worktree add -q /root/work/repo-$P -b fix-$P 2>/dev/null || git -C /repo worktree add -q /root/work/repo-$P fix-$P
echo "created /root/work/$P (wip-$P) and /root/work/repo-$P (fix-$P)"
