#!/bin/sh
# tools/triage_batch.sh <round suffix, e.g. -r5> Cxx [Cyy ...] — triage.sh for the changes of each property in /tmp/seedout<suffix>;
# serialised over the shared builder worktrees by a lock; one log per property in /root/sweep/triage<suffix>-Cxx.log
SUF=$1; shift
mkdir -p /root/sweep
for P in "$@"; do
  (
    flock 9
    for D in /tmp/seedout$SUF/$P-[0-9]*; do
      [ -f $D/patch.diff ] || continue
      echo "=== $(basename $D)"
      sh "$(dirname $0)/triage.sh" $D $P 2>&1 | tail -12
    done
  ) 9> /root/work/triage.lock > /root/sweep/triage$SUF-$P.log 2>&1
done
