#!/bin/sh
# tools/triage_batch.sh <round suffix, e.g. -r5> Cxx [Cyy ...] — triage.sh for the two (or more) changes of each property in /tmp/seedout<suffix>
SUF=$1; shift
for P in "$@"; do
  for D in /tmp/seedout$SUF/$P-[0-9]*; do
    [ -f $D/patch.diff ] || continue
    echo "=== $(basename $D)"
    sh "$(dirname $0)/triage.sh" $D $P 2>&1 | tail -12
  done
done
