#!/usr/bin/env python3
"""writes MANIFEST.json from the table below (kept here so it is edited in one place)"""
import json, os
HERE = os.path.dirname(os.path.dirname(os.path.abspath(__file__)))
BASE_CMD = "cd /repo && /venv/bin/python -m pytest -ra -q -p no:cacheprovider --timeout=900 --continue-on-collection-errors"

CLAIMED = {
 "C02": dict(
   text="Machine-checked Lean 4 theorems (any ordered field, any dimension, any mask): lattice-only shifts, half-cell fractional coordinates, lattice-shift invariance away from ties, idempotence, orthogonal-cell shortest image; the model is tied to pbc.py by a differential correspondence in exact rational arithmetic under a margin guard plus exact monitors of the proved statements on the real output.",
   note="np.linalg.inv (two-sided inverse) and np.rint (nearest, half-even at ±1/2, odd) are contracts; float64≈ℝ validated by correspondence, not proved; model hand-written (Pms/Model/Pbc.lean).",
   technique="Lean 4 proof over ordered fields + differential correspondence (exact ℚ driver)", ref="§6 C02"),
 "C12": dict(
   text="Lean 4 theorems (Mathlib HasDerivAt over ℝ) that the s1/s2 formulas REGENERATED from hessians.py on every run are d/dr and d²/dr² of the documented Lennard-Jones, inverse-power-law (real exponent) and harmonic/Hertz (real exponent inside contact, integer exponent everywhere) potentials for all parameters; cutoff term and selector table decided; translation validated numerically against the real methods; failing-input search against 40-digit derivatives.",
   note="translator expression printer trusted but numerically validated each run; float64 pow/div ≈ ℝ is a contract; documented potentials transcribed by hand from docs/hessian.md.",
   technique="Lean 4 proof (HasDerivAt identities) over source-regenerated terms + translation validation", ref="§6 C12"),
 "C08": dict(
   text="Lean 4: the 120 closed forms, REGENERATED from spherical_harmonics.py as exact rational data on every run, are proved equal to the orthonormal Condon–Shortley Y_lm (defined in Lean from Rodrigues' formula) identically in both angles (generic soundness lemma + kernel-evaluated decision over the whole table, which also fixes the order m=−l..l); conjugation symmetry, 2π-periodicity and the delegated l>10 branch under the library contract are theorems; Unsöld's identity is a decided polynomial identity for l≤12; dispatcher and delegated-call source are decided against the regenerated text. Extraction validated numerically every run; failing-input search against an independent reference.",
   note="Y_lm is defined in Pms/Props/C08.lean; translator table extractor trusted but validated numerically; np.sin/cos/exp/sqrt float64 and scipy sph_harm(_y)=Y_lm are contracts (l>10 exercised numerically against mpmath).",
   technique="Lean 4 proof (generic entry soundness + decide +kernel over regenerated table) + translation validation", ref="§6 C08"),
}
NOT_BUILT = {}

def main():
    props = [json.loads(l) for l in open(os.path.join(HERE, "properties.jsonl"))]
    checks, na = [], []
    for p in props:
        pid = p["id"]
        if pid in CLAIMED:
            c = CLAIMED[pid]
            checks.append({
                "property_id": pid,
                "quick_cmd": f"./check {pid} --tier quick",
                "thorough_cmd": f"./check {pid} --tier thorough",
                "evidence_file": f"evidence/{pid}.json",
                "replay_cmd_template": f"./check {pid} --replay {{path}}",
                "engine": "lean-proofs+correspondence",
                "level_claimed": {"category": "proof", "text": c["text"], "design_ref": c["ref"]},
                "level_note": c["note"],
                "technique": c["technique"],
            })
        else:
            na.append({"property_id": pid, "reason": NOT_BUILT.get(pid, "check not built yet in this session (design in DESIGN.md §6); not claimed until its quick command is green on the clean tree and catches its mutants")})
    m = {
        "version": 1,
        "setup_cmd": "./check --setup",
        "hooks": {"guard": "PYMATTERSIM_VERIF", "enable": "no guarded source changes exist; checks observe public return values, files and argument arrays only",
                  "baseline_off_cmd": BASE_CMD, "source_commits": [], "add_only": True},
        "engines": [
            {"name": "lean-proofs", "path": "lean/", "serves_properties": sorted(CLAIMED), "kind_free_text": "Lean 4 + Mathlib theorems about executable models; lake build + #print axioms audit"},
            {"name": "pms2lean-translator", "path": "translator/pms2lean.py", "serves_properties": [], "kind_free_text": "Python ast -> Lean tables/terms regenerated from /repo on every run"},
            {"name": "correspondence-harness", "path": "harness/", "serves_properties": sorted(CLAIMED), "kind_free_text": "differential testing of the compiled Lean model driver against the real pymattersim code"},
        ],
        "checks": checks,
        "not_applicable": na,
        "notes": "Single entry point ./check <id>. Exit 0 ok / 1 VIOLATION / 2 infrastructure. See DESIGN.md.",
    }
    json.dump(m, open(os.path.join(HERE, "MANIFEST.json"), "w"), indent=1)
    print("claimed", len(checks), "not_applicable", len(na))

if __name__ == "__main__":
    main()
