#!/usr/bin/env python3
"""writes MANIFEST.json: one claimed check per manifest.d/Cxx.json ({text, note, technique, ref, [na_reason]});
every other property is listed under not_applicable (reason from manifest.d/Cxx.na.txt when present)."""
import json, os
HERE = os.path.dirname(os.path.dirname(os.path.abspath(__file__)))
BASE_CMD = "cd /repo && /venv/bin/python -m pytest -ra -q -p no:cacheprovider --timeout=900 --continue-on-collection-errors"
DEFAULT_NA = "check not built yet (design in DESIGN.md §6); not claimed until its quick command is green on the clean tree and catches its seeded changes"


def main():
    props = [json.loads(l) for l in open(os.path.join(HERE, "properties.jsonl"))]
    checks, na, claimed = [], [], []
    tr = []
    for p in props:
        pid = p["id"]
        f = os.path.join(HERE, "manifest.d", pid + ".json")
        if os.path.exists(f):
            c = json.load(open(f))
            claimed.append(pid)
            if c.get("translator"):
                tr.append(pid)
            checks.append({
                "property_id": pid,
                "quick_cmd": f"./check {pid} --tier quick",
                "thorough_cmd": f"./check {pid} --tier thorough",
                "evidence_file": f"evidence/{pid}.json",
                "replay_cmd_template": f"./check {pid} --replay {{path}}",
                "engine": "lean-proofs+correspondence",
                "level_claimed": {"category": "proof", "text": c["text"], "design_ref": c.get("ref", "§6 " + pid)},
                "level_note": c["note"],
                "technique": c["technique"],
            })
        else:
            r = os.path.join(HERE, "manifest.d", pid + ".na.txt")
            na.append({"property_id": pid, "reason": open(r).read().strip() if os.path.exists(r) else DEFAULT_NA})
    m = {
        "version": 1,
        "setup_cmd": "./check --setup",
        "hooks": {"guard": "PYMATTERSIM_VERIF", "enable": "no guarded source changes exist; checks observe public return values, files and argument arrays only",
                  "baseline_off_cmd": BASE_CMD, "source_commits": [], "add_only": True},
        "engines": [
            {"name": "lean-proofs", "path": "lean/", "serves_properties": claimed, "kind_free_text": "Lean 4 + Mathlib theorems about executable models; lake build + #print axioms audit"},
            {"name": "pms2lean-translator", "path": "translator/", "serves_properties": tr, "kind_free_text": "Python ast -> Lean tables/terms regenerated from /repo on every run"},
            {"name": "correspondence-harness", "path": "harness/", "serves_properties": claimed, "kind_free_text": "differential testing of the compiled Lean model driver against the real pymattersim code"},
        ],
        "checks": checks,
        "not_applicable": na,
        "notes": "Single entry point ./check <id>. Exit 0 ok / 1 VIOLATION / 2 infrastructure. See DESIGN.md; per-property build notes in design/Cxx.md.",
    }
    json.dump(m, open(os.path.join(HERE, "MANIFEST.json"), "w"), indent=1)
    print("claimed", len(checks), "not_applicable", len(na))


if __name__ == "__main__":
    main()
