#!/usr/bin/env python3
"""tools/mkmodprops.py [Cxx ...] — (re)writes lean/Pms/Props/CxxMod.lean, the HAND-OWNED pinned statements about the module shapes
and routine bodies of the files property Cxx is anchored in, from the CURRENT /repo tree (PMS_REPO).  Run by the maintainer of
the checks only — when a `fix:` commit or an accepted refactoring changes the anchored text on purpose — never by a check."""
import importlib.util
import json
import os
import sys

H = os.path.dirname(os.path.dirname(os.path.abspath(__file__)))
sys.path.insert(0, os.path.join(H, "translator"))
import pms2lean  # noqa: E402

spec = importlib.util.spec_from_file_location("modshape_tool", os.path.join(H, "translator", "gens", "modshape.py"))
ms = importlib.util.module_from_spec(spec)
spec.loader.exec_module(ms)
REPO = os.environ.get("PMS_REPO", "/repo")

# bodies pinned per property (the other properties' routines are regenerated semantically by their own generators)
BODY_PROPS = {
    "C01": ["PyMatterSim/reader/lammps_reader_helper.py::read_lammps_wrapper", "PyMatterSim/reader/lammps_reader_helper.py::read_lammps",
            "PyMatterSim/reader/dump_reader.py::DumpReader.__init__", "PyMatterSim/reader/dump_reader.py::DumpReader.read_onefile",
            "PyMatterSim/reader/reader_utils.py::SingleSnapshot",
            "PyMatterSim/reader/reader_utils.py::Snapshots"],
    "C02": ["PyMatterSim/utils/pbc.py::remove_pbc"],
    "C10": ["PyMatterSim/static/boo.py::boo_2d.__init__", "PyMatterSim/static/boo.py::boo_2d.lthorder", "PyMatterSim/static/boo.py::boo_2d.time_average",
            "PyMatterSim/static/boo.py::boo_2d.spatial_corr", "PyMatterSim/static/boo.py::boo_2d.time_corr"],
    "C15": ["PyMatterSim/static/vector.py::" + f for f in ("participation_ratio", "local_vector_alignment", "phase_quotient", "divergence_curl",
                                                          "vibrability", "vector_decomposition_sq", "vector_fft_corr")],
    "C18": ["PyMatterSim/reader/reader_utils.py::SingleSnapshot", "PyMatterSim/reader/reader_utils.py::Snapshots"],
}


def main():
    props = [json.loads(l) for l in open(os.path.join(H, "properties.jsonl")) if l.strip()]
    want = sys.argv[1:] or [p["id"] for p in props]
    defs, _ = ms.collect(REPO)
    byname = {n: (xs, rel) for n, xs, rel in defs}
    for p in props:
        pid = p["id"]
        if pid not in want:
            continue
        files = sorted(p["anchors"]["files"])
        shapes = ["shape_" + ms.ident(f) for f in files]
        bodies = []
        for b in BODY_PROPS.get(pid, []):
            rel, qual = b.split("::")
            bodies.append("body_" + ms.ident(rel) + "__" + qual.replace(".", "_"))
        out = ["import Pms.Gen.ModShape", "",
               f"/-! # {pid} — pinned source text (property theorems only; statements written by tools/mkmodprops.py from the tree the",
               "checks were validated on, hand-owned afterwards).  `Pms.Gen.ModShape` is REGENERATED from /repo on every run; these",
               "theorems say that the module top levels (imports, module-level state, decorators, signatures and defaults) of the files",
               f"{pid} is anchored in — and, where listed, the statements of the anchored routines — are still the text the model was",
               "written against and the correspondence was run on.  An edit there breaks this obligation; the check then searches for",
               "a failing input and reports `no-failing-input-found` when there is none (a harmless edit). -/",
               "namespace Pms.ModShape", "open Pms.Gen.ModShape", ""]

        def thm(name, names, doc):
            out.append(f"/-- {doc} -/")
            out.append(f"theorem {name} :")
            parts = [f"    {n} =\n  {ms.lean_list(byname[n][0])}" for n in names]
            out.append(" ∧\n".join(parts) + " :=")
            out.append("  " + ("rfl" if len(names) == 1 else "⟨" + ", ".join(["rfl"] * len(names)) + "⟩"))
            out.append("")
        thm(f"{pid}_module_shape", shapes, "module top levels of " + ", ".join(files))
        if bodies:
            thm(f"{pid}_body_shape", bodies, "statements of " + ", ".join(b.split("::")[1] for b in BODY_PROPS[pid]))
        out.append("end Pms.ModShape")
        path = os.path.join(H, "lean", "Pms", "Props", f"{pid}Mod.lean")
        open(path, "w").write("\n".join(out) + "\n")
        print("wrote", path)


if __name__ == "__main__":
    main()
