#!/bin/sh
# tools/storebatch.sh <round tag, e.g. r5> <pair suffix: "" 1 2 3> <Cxx-k ...> — confirm (demo without/with the patch, affected test files) and
# store each change of /tmp/seedout-<round>/ as seeded/Cxx-<round>s<k>, then run its property's check against it in the builder worktree pair
R=$1; PAIR=$2; shift 2
for X in "$@"; do
  P=${X%-*}; K=${X#*-}
  ALSO=""
  case "$X-$R" in C18-1-r5) ALSO="--also C16";; esac
  python3 "$(dirname $0)/seedtest.py" $P-${R}s$K $P --from /tmp/seedout-$R/$X --affected-only --pair "$PAIR" $ALSO 2>&1 | tail -4 | cut -c1-400
done
