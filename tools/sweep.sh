#!/bin/sh
# tools/sweep.sh <tier> <seeds...> — clean-tree sweep of every claimed check; for `vp run --with-repo` (uses $VP_RUN_REPO when set)
TIER=$1; shift
[ -n "$VP_RUN_REPO" ] && export PMS_REPO=$VP_RUN_REPO
[ -d lean/.lake/build ] || ./check --setup > /dev/null 2>&1
PROPS=$(python3 -c "import json; print(' '.join(c['property_id'] for c in json.load(open('MANIFEST.json'))['checks']))")
for seed in "$@"; do
  for p in $PROPS; do
    s=$(date +%s)
    VERIF_SEED=$seed ./check $p --tier $TIER > sweep-$p-$seed.log 2>&1; rc=$?
    echo "seed=$seed $p tier=$TIER rc=$rc $(( $(date +%s)-s ))s $(grep -E '^(VIOLATION|KNOWN|INFRA)' sweep-$p-$seed.log | head -3 | tr '\n' ' ')"
  done
done
