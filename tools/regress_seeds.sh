#!/bin/sh
# tools/regress_seeds.sh [seed-id-pattern] — re-runs every stored seeded change against the CURRENT checks in the builder worktrees
# (/root/work/dev + /root/work/repo-dev; no test-suite run): applies seeded/<id>/patch.diff, runs the quick check of its property,
# reverts.  Prints one line per seed: caught with a failing input / caught without / MISSED / patch does not apply.
PAT=${1:-.}
R=${R:-/root/work/repo-dev}; V=${V:-/root/work/dev}; SHARD=${SHARD:-0}; NSHARD=${NSHARD:-1}; n=0
for d in /verif/seeded/*/; do
  id=$(basename $d)
  echo "$id" | grep -q "$PAT" || continue
  [ -f $d/patch.diff ] || continue
  n=$((n+1)); [ $((n % NSHARD)) -eq $SHARD ] || continue
  P=$(echo $id | cut -c1-3)
  git -C $R checkout -q -- .
  if ! git -C $R apply $d/patch.diff 2>/dev/null; then echo "$id: patch does not apply to the current tree"; continue; fi
  out=$(cd $V && PMS_REPO=$R VERIF_SEED=${VERIF_SEED:-0} timeout 900 ./check $P --tier quick 2>&1); rc=$?
  git -C $R checkout -q -- .
  if echo "$out" | grep -q "^VIOLATION" && echo "$out" | grep "^VIOLATION" | grep -qv "no-failing-input-found"; then echo "$id: caught (failing input)";
  elif echo "$out" | grep -q "^VIOLATION"; then echo "$id: caught (no-failing-input-found)";
  else echo "$id: MISSED rc=$rc"; fi
done
