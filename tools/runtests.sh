#!/bin/sh
# tools/runtests.sh <pymattersim tree> — runs the repository's whole suite in that tree (parallel by file), then re-runs
# every test that failed once more serially (some tests share scratch files and interfere when run concurrently);
# prints "PASSED|FAILED nodeid" lines, sorted
T=$1; shift
cd "$T" || exit 2
R=$(mktemp)
PYTHONPATH="$T" /venv/bin/python -m pytest -q -p no:cacheprovider --timeout=900 --continue-on-collection-errors -n 8 --dist loadfile -rA "$@" 2>&1 \
  | grep -E '^(PASSED|FAILED|ERROR) ' | sed 's/ - .*//' > "$R"
F=$(grep -E '^FAILED ' "$R" | cut -d' ' -f2 | sed 's/::.*//' | sort -u | tr '\n' ' ')   # whole files: some tests need files written by an earlier test of their file
if [ -n "$F" ]; then
  PYTHONPATH="$T" /venv/bin/python -m pytest -q -p no:cacheprovider --timeout=900 -rA $F 2>&1 \
    | grep -E '^(PASSED|FAILED|ERROR) ' | sed 's/ - .*//' > "$R.2"
  grep -E '^PASSED ' "$R.2" | while read -r _ id; do sed -i "s#^FAILED $id\$#PASSED $id#" "$R"; done
fi
sort "$R"; rm -f "$R" "$R.2"
