#!/bin/sh
# tools/runtests.sh <pymattersim tree> [pytest args] — runs the repository's suite in that tree (parallel by file), prints "PASSED/FAILED nodeid" lines sorted
T=$1; shift
cd "$T" && PYTHONPATH="$T" /venv/bin/python -m pytest -q -p no:cacheprovider --timeout=900 --continue-on-collection-errors -n 8 --dist loadfile -rA "$@" 2>&1 \
  | grep -E '^(PASSED|FAILED|ERROR) ' | sed 's/ - .*//' | sort
