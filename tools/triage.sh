#!/bin/sh
# tools/triage.sh <seed dir with patch.diff demo.py> <Cxx> [more Cyy ...] — quick look (no test-suite run): demo without/with the patch
# and the quick checks against the patched tree, in the builder worktrees /root/work/dev (framework) and /root/work/repo-dev (library).
D=$1; shift
R=/root/work/repo-dev; V=/root/work/dev
git -C $R checkout -q -- . ; git -C $R status --porcelain --untracked-files=no | grep -q . && { echo "repo-dev dirty"; exit 2; }
( cd $R && PYTHONPATH=$R timeout 600 /venv/bin/python $D/demo.py > /dev/null 2>&1 ); echo "demo clean rc=$?"
git -C $R apply $D/patch.diff || { echo "patch does not apply"; exit 2; }
( cd $R && PYTHONPATH=$R timeout 600 /venv/bin/python $D/demo.py > /dev/null 2>&1 ); echo "demo patched rc=$?"
for P in "$@"; do
  ( cd $V && PMS_REPO=$R VERIF_SEED=${VERIF_SEED:-0} ./check $P --tier ${TIER:-quick} 2>&1 | grep -E "^(VIOLATION|KNOWN|INFRA|  ->)" | cut -c1-330 | head -8 ); echo "== $P done"
done
git -C $R checkout -q -- .
for P in "$@"; do ( cd $V && PMS_REPO=$R VERIF_SEED=${VERIF_SEED:-0} ./check $P --tier quick > /dev/null 2>&1; echo "clean again $P rc=$?" ); done
