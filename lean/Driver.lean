import Pms.Model.PbcDriver
import Pms.Model.GenDriver
import Pms.Model.SphDriver
/-! `pmsdriver`: one operation per input line, one result per output line. -/
open Pms Pms.Io

def dispatch (line : String) : String :=
  match words line with
  | "pbc" :: rest => (Pms.Pbc.handlePbc rest).getD "bad-op"
  | "pairf" :: rest => (Pms.GenDriver.handlePairF rest).getD "bad-op"
  | "sph" :: rest => (Pms.Sph.handleSph rest).getD "bad-op"
  | "ping" :: _ => "pong"
  | _ => "bad-op"

partial def loop (h : IO.FS.Stream) (out : IO.FS.Stream) : IO Unit := do
  let line ← h.getLine
  if line.isEmpty then return ()
  out.putStrLn (dispatch line)
  loop h out

def main : IO Unit := do
  let out ← IO.getStdout
  loop (← IO.getStdin) out
  out.flush
