-- This module serves as the root of the `Pms` library.
-- Import modules here that should be built as part of the library.
import Pms.Basic
