import Pms.Lemmas.LocalOrder
import Mathlib.Tactic.IntervalCases
import Mathlib.Data.List.Perm.Subperm

/-!
# C17 — local order parameters equal their definitions

Property theorems only.  `K` is any ordered field (so ℝ and ℚ); `exp log sqrt : K → K`, `pi : K`
are arbitrary (the statements hold for every interpretation, in particular Mathlib's real functions).
-/
set_option linter.unusedSectionVars false
open Finset
namespace Pms.LocalOrder
open Pms

variable {K : Type} [Field K] [LinearOrder K] [IsStrictOrderedRing K]

/-! ## tetrahedral order -/

/-- the double loop of `q8_tetrahedral` is `1 - 3/32 Σ_{j<k} (cos ψ_jk + 1/3)²` over the list of the
four selected neighbours -/
theorem C17_tetra_def (sqrt : K → K) (R : ℕ → ℕ → K) (nb : ℕ → ℕ) :
    tetraImpl sqrt R nb = tetraSpec (cosPair sqrt R) [nb 0, nb 1, nb 2, nb 3] := by
  simp [tetraImpl, tetraSpec, pairLoop, sumRange, pairSumList, tetraTerm]
  ring

/-- perfect tetrahedral coordination (all six cosines −1/3) gives exactly 1 -/
theorem C17_tetra_perfect (sqrt : K → K) (R : ℕ → ℕ → K) (nb : ℕ → ℕ)
    (h : ∀ j k, j < k → k < 4 → cosPair sqrt R (nb j) (nb k) = -1/3) :
    tetraImpl sqrt R nb = 1 := by
  rw [C17_tetra_def]
  simp [tetraSpec, pairSumList, h 0 1, h 0 2, h 0 3, h 1 2, h 1 3, h 2 3]
  norm_num


/-- the value does not depend on the order in which `argpartition` lists the four neighbours -/
theorem C17_tetra_order_independent (sqrt : K → K) (R : ℕ → ℕ → K) (nb nb' : ℕ → ℕ)
    (h : List.Perm [nb' 0, nb' 1, nb' 2, nb' 3] [nb 0, nb 1, nb 2, nb 3]) :
    tetraImpl sqrt R nb' = tetraImpl sqrt R nb := by
  rw [C17_tetra_def, C17_tetra_def]
  unfold tetraSpec
  rw [pairSumList_perm _ (fun a b => by rw [cosPair_symm]) h]

/-- a selection of four neighbours of `i` that are strictly closer than every other particle -/
def IsNearestSel (N i : ℕ) (dist : ℕ → K) (l : List ℕ) : Prop :=
  l.Nodup ∧ l.length = 4 ∧ (∀ a ∈ l, a < N ∧ a ≠ i) ∧
    ∀ a ∈ l, ∀ b, b < N → b ≠ i → b ∉ l → dist a < dist b

/-- the four nearest neighbours are unique as a set: any two conforming selections are permutations of
each other, hence (by `C17_tetra_order_independent`) give the same order parameter -/
theorem C17_tetra_four_nearest (N i : ℕ) (dist : ℕ → K) (l₁ l₂ : List ℕ)
    (h₁ : IsNearestSel N i dist l₁) (h₂ : IsNearestSel N i dist l₂) : l₁.Perm l₂ := by
  obtain ⟨nd₁, len₁, mem₁, sep₁⟩ := h₁
  obtain ⟨nd₂, len₂, mem₂, sep₂⟩ := h₂
  have sub : l₁ ⊆ l₂ := by
    intro a ha
    by_contra hna
    -- some b ∈ l₂ is not in l₁ (otherwise l₂ ⊆ l₁.erase a, too short)
    have : ∃ b ∈ l₂, b ∉ l₁ := by
      by_contra hcon
      push Not at hcon
      have hsub : l₂ ⊆ l₁.erase a := by
        intro b hb
        have hb1 := hcon b hb
        refine (List.mem_erase_of_ne ?_).mpr hb1
        rintro rfl; exact hna hb
      have hle := (List.subperm_of_subset nd₂ hsub).length_le
      rw [List.length_erase_of_mem ha] at hle
      omega
    obtain ⟨b, hb2, hb1⟩ := this
    have hab := sep₁ a ha b (mem₂ b hb2).1 (mem₂ b hb2).2 hb1
    have hba := sep₂ b hb2 a (mem₁ a ha).1 (mem₁ a ha).2 hna
    exact lt_asymm hab hba
  exact (List.subperm_of_subset nd₁ sub).perm_of_length_le (by omega)

/-- the value depends on the configuration only through the displacement vectors of the four
selected neighbours -/
theorem C17_tetra_local (sqrt : K → K) (R R' : ℕ → ℕ → K) (nb : ℕ → ℕ)
    (h : ∀ j < 4, ∀ x < 3, R (nb j) x = R' (nb j) x) :
    tetraImpl sqrt R nb = tetraImpl sqrt R' nb := by
  have hd : ∀ j < 4, ∀ k < 4, dot 3 (R (nb j)) (R (nb k)) = dot 3 (R' (nb j)) (R' (nb k)) := by
    intro j hj k hk
    simp only [dot_eq]
    exact Finset.sum_congr rfl fun x hx => by
      rw [h j hj x (Finset.mem_range.mp hx), h k hk x (Finset.mem_range.mp hx)]
  have hc : ∀ j < 4, ∀ k < 4, cosPair sqrt R (nb j) (nb k) = cosPair sqrt R' (nb j) (nb k) := by
    intro j hj k hk
    simp only [cosPair, norm, hd j hj k hk, hd j hj j hj, hd k hk k hk]
  simp [tetraImpl, pairLoop, sumRange, hc]

/-- `q ≤ 1`, with equality exactly for perfect tetrahedral coordination -/
theorem C17_tetra_le_one (sqrt : K → K) (R : ℕ → ℕ → K) (nb : ℕ → ℕ) :
    tetraImpl sqrt R nb ≤ 1 ∧
    (tetraImpl sqrt R nb = 1 ↔ ∀ j k, j < k → k < 4 → cosPair sqrt R (nb j) (nb k) = -1/3) := by
  rw [C17_tetra_def]
  simp only [tetraSpec, pairSumList, List.foldr_cons, List.foldr_nil, add_zero, Nat.cast_ofNat]
  set c01 := cosPair sqrt R (nb 0) (nb 1)
  set c02 := cosPair sqrt R (nb 0) (nb 2)
  set c03 := cosPair sqrt R (nb 0) (nb 3)
  set c12 := cosPair sqrt R (nb 1) (nb 2)
  set c13 := cosPair sqrt R (nb 1) (nb 3)
  set c23 := cosPair sqrt R (nb 2) (nb 3)
  have s01 := mul_self_nonneg (c01 + 1/3)
  have s02 := mul_self_nonneg (c02 + 1/3)
  have s03 := mul_self_nonneg (c03 + 1/3)
  have s12 := mul_self_nonneg (c12 + 1/3)
  have s13 := mul_self_nonneg (c13 + 1/3)
  have s23 := mul_self_nonneg (c23 + 1/3)
  refine ⟨by linarith, ⟨fun h => ?_, fun h => ?_⟩⟩
  · have z : ∀ x : K, 0 ≤ (x + 1/3) * (x + 1/3) → (x + 1/3) * (x + 1/3) ≤ 0 → x = -1/3 := by
      intro x _ h2
      have : (x + 1/3) * (x + 1/3) = 0 := le_antisymm h2 (mul_self_nonneg _)
      have := mul_self_eq_zero.mp this
      linarith
    intro j k hjk hk
    have hj : j < 3 := by omega
    interval_cases k <;> interval_cases j <;> first | omega | (apply z <;> linarith)
  · have e01 := h 0 1 (by omega) (by omega)
    have e02 := h 0 2 (by omega) (by omega)
    have e03 := h 0 3 (by omega) (by omega)
    have e12 := h 1 2 (by omega) (by omega)
    have e13 := h 1 3 (by omega) (by omega)
    have e23 := h 2 3 (by omega) (by omega)
    simp only [c01, c02, c03, c12, c13, c23] at *
    rw [e01, e02, e03, e12, e13, e23]; norm_num


/-! ## S2 -/

/-- the smeared particle g(r) built by the loop over the deleted-and-filtered arrays is the Gaussian
sum over all other particles within `rmax`, with the pair-type width, divided by the shell factor -/
theorem C17_s2_g_def (exp sqrt : K → K) (pi : K) (d N i ndelta : ℕ) (hi : i < N) (rdelta rho : K)
    (dist : ℕ → K) (typ : ℕ → ℕ) (sig : ℕ → ℕ → K) (k : ℕ) :
    grImplK exp sqrt pi d N i rdelta rho dist typ sig (keepImpl i dist (rmax rdelta ndelta)) k
      = gSpec exp sqrt pi d N i ndelta rdelta rho dist typ sig k := by
  unfold grImplK gSpec keptList keepImpl
  rw [foldl_filter_range, sumRange_eq]
  congr 1
  simp only [decide_eq_true_eq]
  refine (sum_skip N i hi (fun j => if dist j < rmax rdelta ndelta then
      gauss exp sqrt pi (bin rdelta k - dist j) (sig (typ i) (typ j)) else 0)).trans ?_
  refine Finset.sum_congr rfl fun j _ => ?_
  by_cases h1 : j ≠ i <;> by_cases h2 : dist j < rmax rdelta ndelta <;> simp [h1, h2]

/-- `particle_s2` = `-(d-1) π ρ` × trapezoid rule of `(g ln g - g + 1) r^{d-1}` on the bin centres, with
`g` the Gaussian-smeared pair distribution of the statement — for every N, particle, dimension, bin
setting, width matrix and every interpretation of exp / log / sqrt / π -/
theorem C17_s2_def (exp log sqrt : K → K) (pi : K) (d N i ndelta : ℕ) (hi : i < N) (rdelta rho : K)
    (dist : ℕ → K) (typ : ℕ → ℕ) (sig : ℕ → ℕ → K) :
    s2Impl exp log sqrt pi d N i ndelta rdelta rho dist typ sig
      = s2Spec exp log sqrt pi d N i ndelta rdelta rho dist typ sig := by
  have hg : grImplK exp sqrt pi d N i rdelta rho dist typ sig (keepImpl i dist (rmax rdelta ndelta))
      = gSpec exp sqrt pi d N i ndelta rdelta rho dist typ sig :=
    funext fun k => C17_s2_g_def exp sqrt pi d N i ndelta hi rdelta rho dist typ sig k
  unfold s2Impl s2ImplK s2Spec s2Integral trapz integrand
  simp only [hg, sumRange_eq, Finset.mul_sum]
  refine Finset.sum_congr rfl fun k _ => ?_
  ring

/-- the trapezoid rule is exact on affine integrands (telescoping): it is the trapezoid rule -/
theorem C17_trapz_affine (n : ℕ) (x : ℕ → K) (a b : K) :
    trapz (n + 1) x (fun k => a * x k + b)
      = a * (x n ^ 2 - x 0 ^ 2) / 2 + b * (x n - x 0) := by
  unfold trapz
  rw [sumRange_eq]
  simp only [Nat.add_sub_cancel, Nat.cast_ofNat]
  induction n with
  | zero => simp
  | succ n ih => rw [Finset.sum_range_succ, ih]; ring

/-- on the uniform bin centres `r_k = k·δ + δ/2` the rule is `δ Σ_k (y_k + y_{k+1})/2` -/
theorem C17_trapz_uniform (n : ℕ) (rdelta : K) (y : ℕ → K) :
    trapz n (bin rdelta) y = rdelta * ∑ k ∈ range (n - 1), (y (k + 1) + y k) / 2 := by
  unfold trapz bin
  rw [sumRange_eq, Finset.mul_sum]
  refine Finset.sum_congr rfl fun k _ => ?_
  push_cast; ring

end Pms.LocalOrder
