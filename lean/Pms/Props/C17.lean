import Pms.Lemmas.LocalOrder
import Mathlib.Tactic.IntervalCases
import Mathlib.Algebra.BigOperators.Field
import Mathlib.Tactic.LinearCombination
import Mathlib.Tactic.Positivity
import Mathlib.Data.List.Perm.Subperm

/-!
# C17 — local order parameters equal their definitions

Property theorems only.  `K` is any ordered field (so ℝ and ℚ); `exp log sqrt : K → K`, `pi : K`
are arbitrary (the statements hold for every interpretation, in particular Mathlib's real functions).
-/
set_option linter.unusedSectionVars false
open Finset
namespace Pms.LocalOrder
open Pms

variable {K : Type} [Field K] [LinearOrder K] [IsStrictOrderedRing K]

/-! ## tetrahedral order -/

/-- the double loop of `q8_tetrahedral` is `1 - 3/32 Σ_{j<k} (cos ψ_jk + 1/3)²` over the list of the
four selected neighbours -/
theorem C17_tetra_def (sqrt : K → K) (R : ℕ → ℕ → K) (nb : ℕ → ℕ) :
    tetraImpl sqrt R nb = tetraSpec (cosPair sqrt R) [nb 0, nb 1, nb 2, nb 3] := by
  simp [tetraImpl, tetraSpec, pairLoop, sumRange, pairSumList, tetraTerm]
  ring

/-- perfect tetrahedral coordination (all six cosines −1/3) gives exactly 1 -/
theorem C17_tetra_perfect (sqrt : K → K) (R : ℕ → ℕ → K) (nb : ℕ → ℕ)
    (h : ∀ j k, j < k → k < 4 → cosPair sqrt R (nb j) (nb k) = -1/3) :
    tetraImpl sqrt R nb = 1 := by
  rw [C17_tetra_def]
  simp [tetraSpec, pairSumList, h 0 1, h 0 2, h 0 3, h 1 2, h 1 3, h 2 3]
  norm_num


/-- the value does not depend on the order in which `argpartition` lists the four neighbours -/
theorem C17_tetra_order_independent (sqrt : K → K) (R : ℕ → ℕ → K) (nb nb' : ℕ → ℕ)
    (h : List.Perm [nb' 0, nb' 1, nb' 2, nb' 3] [nb 0, nb 1, nb 2, nb 3]) :
    tetraImpl sqrt R nb' = tetraImpl sqrt R nb := by
  rw [C17_tetra_def, C17_tetra_def]
  unfold tetraSpec
  rw [pairSumList_perm _ (fun a b => by rw [cosPair_symm]) h]

/-- a selection of four neighbours of `i` that are strictly closer than every other particle -/
def IsNearestSel (N i : ℕ) (dist : ℕ → K) (l : List ℕ) : Prop :=
  l.Nodup ∧ l.length = 4 ∧ (∀ a ∈ l, a < N ∧ a ≠ i) ∧
    ∀ a ∈ l, ∀ b, b < N → b ≠ i → b ∉ l → dist a < dist b

/-- the four nearest neighbours are unique as a set: any two conforming selections are permutations of
each other, hence (by `C17_tetra_order_independent`) give the same order parameter -/
theorem C17_tetra_four_nearest (N i : ℕ) (dist : ℕ → K) (l₁ l₂ : List ℕ)
    (h₁ : IsNearestSel N i dist l₁) (h₂ : IsNearestSel N i dist l₂) : l₁.Perm l₂ := by
  obtain ⟨nd₁, len₁, mem₁, sep₁⟩ := h₁
  obtain ⟨nd₂, len₂, mem₂, sep₂⟩ := h₂
  have sub : l₁ ⊆ l₂ := by
    intro a ha
    by_contra hna
    -- some b ∈ l₂ is not in l₁ (otherwise l₂ ⊆ l₁.erase a, too short)
    have : ∃ b ∈ l₂, b ∉ l₁ := by
      by_contra hcon
      push Not at hcon
      have hsub : l₂ ⊆ l₁.erase a := by
        intro b hb
        have hb1 := hcon b hb
        refine (List.mem_erase_of_ne ?_).mpr hb1
        rintro rfl; exact hna hb
      have hle := (List.subperm_of_subset nd₂ hsub).length_le
      rw [List.length_erase_of_mem ha] at hle
      omega
    obtain ⟨b, hb2, hb1⟩ := this
    have hab := sep₁ a ha b (mem₂ b hb2).1 (mem₂ b hb2).2 hb1
    have hba := sep₂ b hb2 a (mem₁ a ha).1 (mem₁ a ha).2 hna
    exact lt_asymm hab hba
  exact (List.subperm_of_subset nd₁ sub).perm_of_length_le (by omega)

/-- the value depends on the configuration only through the displacement vectors of the four
selected neighbours -/
theorem C17_tetra_local (sqrt : K → K) (R R' : ℕ → ℕ → K) (nb : ℕ → ℕ)
    (h : ∀ j < 4, ∀ x < 3, R (nb j) x = R' (nb j) x) :
    tetraImpl sqrt R nb = tetraImpl sqrt R' nb := by
  have hd : ∀ j < 4, ∀ k < 4, dot 3 (R (nb j)) (R (nb k)) = dot 3 (R' (nb j)) (R' (nb k)) := by
    intro j hj k hk
    simp only [dot_eq]
    exact Finset.sum_congr rfl fun x hx => by
      rw [h j hj x (Finset.mem_range.mp hx), h k hk x (Finset.mem_range.mp hx)]
  have hc : ∀ j < 4, ∀ k < 4, cosPair sqrt R (nb j) (nb k) = cosPair sqrt R' (nb j) (nb k) := by
    intro j hj k hk
    simp only [cosPair, norm, hd j hj k hk, hd j hj j hj, hd k hk k hk]
  simp [tetraImpl, pairLoop, sumRange, hc]

/-- `q ≤ 1`, with equality exactly for perfect tetrahedral coordination -/
theorem C17_tetra_le_one (sqrt : K → K) (R : ℕ → ℕ → K) (nb : ℕ → ℕ) :
    tetraImpl sqrt R nb ≤ 1 ∧
    (tetraImpl sqrt R nb = 1 ↔ ∀ j k, j < k → k < 4 → cosPair sqrt R (nb j) (nb k) = -1/3) := by
  rw [C17_tetra_def]
  simp only [tetraSpec, pairSumList, List.foldr_cons, List.foldr_nil, add_zero, Nat.cast_ofNat]
  set c01 := cosPair sqrt R (nb 0) (nb 1)
  set c02 := cosPair sqrt R (nb 0) (nb 2)
  set c03 := cosPair sqrt R (nb 0) (nb 3)
  set c12 := cosPair sqrt R (nb 1) (nb 2)
  set c13 := cosPair sqrt R (nb 1) (nb 3)
  set c23 := cosPair sqrt R (nb 2) (nb 3)
  have s01 := mul_self_nonneg (c01 + 1/3)
  have s02 := mul_self_nonneg (c02 + 1/3)
  have s03 := mul_self_nonneg (c03 + 1/3)
  have s12 := mul_self_nonneg (c12 + 1/3)
  have s13 := mul_self_nonneg (c13 + 1/3)
  have s23 := mul_self_nonneg (c23 + 1/3)
  refine ⟨by linarith, ⟨fun h => ?_, fun h => ?_⟩⟩
  · have z : ∀ x : K, 0 ≤ (x + 1/3) * (x + 1/3) → (x + 1/3) * (x + 1/3) ≤ 0 → x = -1/3 := by
      intro x _ h2
      have : (x + 1/3) * (x + 1/3) = 0 := le_antisymm h2 (mul_self_nonneg _)
      have := mul_self_eq_zero.mp this
      linarith
    intro j k hjk hk
    have hj : j < 3 := by omega
    interval_cases k <;> interval_cases j <;> first | omega | (apply z <;> linarith)
  · have e01 := h 0 1 (by omega) (by omega)
    have e02 := h 0 2 (by omega) (by omega)
    have e03 := h 0 3 (by omega) (by omega)
    have e12 := h 1 2 (by omega) (by omega)
    have e13 := h 1 3 (by omega) (by omega)
    have e23 := h 2 3 (by omega) (by omega)
    simp only [c01, c02, c03, c12, c13, c23] at *
    rw [e01, e02, e03, e12, e13, e23]; norm_num


/-! ## S2 -/

/-- the smeared particle g(r) built by the loop over the deleted-and-filtered arrays is the Gaussian
sum over all other particles within `rmax`, with the pair-type width, divided by the shell factor -/
theorem C17_s2_g_def (exp sqrt : K → K) (pi : K) (d N i ndelta : ℕ) (hi : i < N) (rdelta rho : K)
    (dist : ℕ → K) (typ : ℕ → ℕ) (sig : ℕ → ℕ → K) (k : ℕ) :
    grImplK exp sqrt pi d N i rdelta rho dist typ sig (keepImpl i dist (rmax rdelta ndelta)) k
      = gSpec exp sqrt pi d N i ndelta rdelta rho dist typ sig k := by
  unfold grImplK gSpec keptList keepImpl
  rw [foldl_filter_range, sumRange_eq]
  congr 1
  simp only [decide_eq_true_eq]
  refine (sum_skip N i hi (fun j => if dist j < rmax rdelta ndelta then
      gauss exp sqrt pi (bin rdelta k - dist j) (sig (typ i) (typ j)) else 0)).trans ?_
  refine Finset.sum_congr rfl fun j _ => ?_
  by_cases h1 : j ≠ i <;> by_cases h2 : dist j < rmax rdelta ndelta <;> simp [h1, h2]

/-- `particle_s2` = `-(d-1) π ρ` × trapezoid rule of `(g ln g - g + 1) r^{d-1}` on the bin centres, with
`g` the Gaussian-smeared pair distribution of the statement — for every N, particle, dimension, bin
setting, width matrix and every interpretation of exp / log / sqrt / π -/
theorem C17_s2_def (exp log sqrt : K → K) (pi : K) (d N i ndelta : ℕ) (hi : i < N) (rdelta rho : K)
    (dist : ℕ → K) (typ : ℕ → ℕ) (sig : ℕ → ℕ → K) :
    s2Impl exp log sqrt pi d N i ndelta rdelta rho dist typ sig
      = s2Spec exp log sqrt pi d N i ndelta rdelta rho dist typ sig := by
  have hg : grImplK exp sqrt pi d N i rdelta rho dist typ sig (keepImpl i dist (rmax rdelta ndelta))
      = gSpec exp sqrt pi d N i ndelta rdelta rho dist typ sig :=
    funext fun k => C17_s2_g_def exp sqrt pi d N i ndelta hi rdelta rho dist typ sig k
  unfold s2Impl s2ImplK s2Spec s2Integral trapz integrand
  simp only [hg, sumRange_eq, Finset.mul_sum]
  refine Finset.sum_congr rfl fun k _ => ?_
  ring

/-- the same with the geometry spelled out: distances are norms of the minimum-image displacements
(`remove_pbc`, model of C02, any cell matrix, mask and `rint`), density is `N / Π boxlength` -/
theorem C17_s2_full (exp log sqrt : K → K) (pi : K) (rint : K → ℤ) (d N i ndelta : ℕ) (hi : i < N)
    (rdelta : K) (L : ℕ → K) (H Hinv : ℕ → ℕ → K) (ppp : ℕ → K) (pos : ℕ → ℕ → K)
    (typ : ℕ → ℕ) (sig : ℕ → ℕ → K) :
    s2Impl exp log sqrt pi d N i ndelta rdelta (rhoTotal d N L)
        (fun j => norm sqrt d (disp d rint H Hinv ppp pos i j)) typ sig
      = s2Spec exp log sqrt pi d N i ndelta rdelta (rhoTotal d N L)
        (fun j => norm sqrt d (disp d rint H Hinv ppp pos i j)) typ sig :=
  C17_s2_def exp log sqrt pi d N i ndelta hi rdelta _ _ typ sig

/-- `rhototal`: `np.prod(boxlength)` is the product of the box lengths -/
theorem C17_s2_rho (d N : ℕ) (L : ℕ → K) : rhoTotal d N L = (N : K) / ∏ x ∈ range d, L x := by
  unfold rhoTotal
  congr 1
  induction d with
  | zero => simp [foldRange]
  | succ d ih => rw [foldRange_succ, ih, Finset.prod_range_succ]

/-- the trapezoid rule is exact on affine integrands (telescoping): it is the trapezoid rule -/
theorem C17_trapz_affine (n : ℕ) (x : ℕ → K) (a b : K) :
    trapz (n + 1) x (fun k => a * x k + b)
      = a * (x n ^ 2 - x 0 ^ 2) / 2 + b * (x n - x 0) := by
  unfold trapz
  rw [sumRange_eq]
  simp only [Nat.add_sub_cancel, Nat.cast_ofNat]
  induction n with
  | zero => simp
  | succ n ih => rw [Finset.sum_range_succ, ih]; ring

/-- on the uniform bin centres `r_k = k·δ + δ/2` the rule is `δ Σ_k (y_k + y_{k+1})/2` -/
theorem C17_trapz_uniform (n : ℕ) (rdelta : K) (y : ℕ → K) :
    trapz n (bin rdelta) y = rdelta * ∑ k ∈ range (n - 1), (y (k + 1) + y k) / 2 := by
  unfold trapz bin
  rw [sumRange_eq, Finset.mul_sum]
  refine Finset.sum_congr rfl fun k _ => ?_
  push_cast; ring


/-! ## nematic tensor -/

/-- the raw tensor `(d u uᵀ − I)/2` is symmetric and, for a unit vector, traceless (any dimension) -/
theorem C17_nematic_tensor_raw (d : ℕ) (u : ℕ → K) :
    (∀ x y, qRaw d u x y = qRaw d u y x) ∧
    ((∑ x ∈ range d, u x * u x) = 1 → trace d (qRaw d u) = 0) := by
  constructor
  · intro x y
    unfold qRaw
    by_cases h : x = y
    · subst h; rfl
    · have h' : ¬ y = x := fun e => h e.symm
      simp only [h, h', if_false]; ring
  · intro hu
    rw [trace_eq]
    unfold qRaw
    have : ∀ x ∈ range d, ((d : K) * u x * u x - (if x = x then 1 else 0)) / ((2 : ℕ) : K)
        = ((d : K) * (u x * u x) - 1) / 2 := by
      intro x _; simp; ring
    rw [Finset.sum_congr rfl this, ← Finset.sum_div, Finset.sum_sub_distrib, ← Finset.mul_sum, hu]
    simp

/-- `spatial_average` of the tensor field is `(Q_i + Σ_{j ∈ nbr i} Q_j) / (1 + cn_i)` -/
theorem C17_nematic_cg_def (Q : ℕ → ℕ → ℕ → K) (nbr : ℕ → List ℕ) (i x y : ℕ) :
    cgAvg Q nbr i x y
      = (Q i x y + ((nbr i).map fun j => Q j x y).sum) / (1 + ((nbr i).length : K)) := by
  unfold cgAvg
  rw [foldl_add_eq]
  push_cast; rfl

/-- symmetric and traceless are preserved by the neighbour average, for every neighbour list -/
theorem C17_nematic_tensor (d : ℕ) (Q : ℕ → ℕ → ℕ → K) (nbr : ℕ → List ℕ) (i : ℕ)
    (hsym : ∀ j x y, Q j x y = Q j y x) (htr : ∀ j, trace d (Q j) = 0) :
    (∀ x y, cgAvg Q nbr i x y = cgAvg Q nbr i y x) ∧ trace d (cgAvg Q nbr i) = 0 := by
  constructor
  · intro x y
    rw [C17_nematic_cg_def, C17_nematic_cg_def, hsym i x y]
    congr 3
    exact List.map_congr_left fun j _ => hsym j x y
  · have h1 : trace d (cgAvg Q nbr i)
        = trace d (fun x y => (nbr i).foldl (fun acc j => acc + Q j x y) (Q i x y))
          / ((1 + (nbr i).length : ℕ) : K) := by
      simp only [trace_eq, cgAvg, Finset.sum_div]
    rw [h1, trace_foldl d Q (nbr i) (Q i)]
    have h2 : ∀ (l : List ℕ) (s : K), l.foldl (fun acc j => acc + trace d (Q j)) s = s := by
      intro l
      induction l with
      | nil => intro s; rfl
      | cons a t ih => intro s; simp only [List.foldl_cons, htr a, add_zero]; exact ih s
    rw [h2, htr i, zero_div]

/-- 2-D: for a symmetric traceless `Q = [[a,b],[b,−a]]` every eigenvalue satisfies `λ² = a² + b²`, the
spectrum is `{λ, −λ}`, and `(2λ)² = d/(d−1) · tr(Q·Q)` with `d = 2` -/
theorem C17_nematic_2d (Q : ℕ → ℕ → K) (hs : Q 1 0 = Q 0 1) (ht : Q 1 1 = - Q 0 0) (lam : K)
    (h : IsEig2 Q lam) :
    lam ^ 2 = Q 0 0 ^ 2 + Q 0 1 ^ 2 ∧ IsEig2 Q (-lam) ∧
    (2 * lam) ^ 2 = traceSq 2 Q * (((2 : ℕ) : K) / ((2 - 1 : ℕ) : K)) := by
  obtain ⟨v0, v1, hv, h1, h2⟩ := h
  rw [hs] at h2; rw [ht] at h2
  have e0 : (lam ^ 2 - Q 0 0 ^ 2 - Q 0 1 ^ 2) * v0 = 0 := by
    linear_combination (-(lam + Q 0 0)) * h1 + (-(Q 0 1)) * h2
  have e1 : (lam ^ 2 - Q 0 0 ^ 2 - Q 0 1 ^ 2) * v1 = 0 := by
    linear_combination (-(Q 0 1)) * h1 + (Q 0 0 - lam) * h2
  have hl : lam ^ 2 = Q 0 0 ^ 2 + Q 0 1 ^ 2 := by
    rcases hv with hv | hv
    · have := (mul_eq_zero.mp e0).resolve_right hv; linear_combination this
    · have := (mul_eq_zero.mp e1).resolve_right hv; linear_combination this
  refine ⟨hl, ⟨-v1, v0, ?_, ?_, ?_⟩, ?_⟩
  · rcases hv with hv | hv
    · exact Or.inr hv
    · exact Or.inl (neg_ne_zero.mpr hv)
  · linear_combination h2
  · rw [hs, ht]; linear_combination (-1 : K) * h1
  · simp only [traceSq, sumRange, hs, ht]
    norm_num
    linear_combination 4 * hl

/-- hence the trace branch `sqrt(d/(d−1) tr Q²)` returns twice the largest (= non-negative) eigenvalue -/
theorem C17_nematic_2d_scalar (sqrt : K → K) (hsq : ∀ x : K, 0 ≤ x → sqrt (x * x) = x)
    (Q : ℕ → ℕ → K) (hs : Q 1 0 = Q 0 1) (ht : Q 1 1 = - Q 0 0) (lam : K)
    (h : IsEig2 Q lam) (hpos : 0 ≤ lam) : nematicTrace sqrt 2 Q = 2 * lam := by
  unfold nematicTrace
  rw [← (C17_nematic_2d Q hs ht lam h).2.2, pow_two]
  exact hsq _ (by linarith)

example : IsEig2 (K := ℚ) (fun x y => if x = 0 ∧ y = 0 then 3/10 else if x = 1 ∧ y = 1 then -3/10 else 4/10) (1/2) :=
  ⟨2, 1, Or.inl (by norm_num), by norm_num, by norm_num⟩

/-! ## gyration tensor -/

/-- the loop over `combinations` with mirrored assignment yields the centred second-moment tensor,
which is symmetric -/
theorem C17_gyration_def (N : ℕ) (P : ℕ → ℕ → K) (m n : ℕ) :
    gyrImpl N P m n = gyrSpec N P m n ∧ gyrSpec N P m n = gyrSpec N P n m := by
  have hsym : ∀ a b, gyrSpec N P a b = gyrSpec N P b a := by
    intro a b
    unfold gyrSpec
    congr 1
    simp only [sumRange_eq]
    exact Finset.sum_congr rfl fun i _ => mul_comm _ _
  refine ⟨?_, hsym m n⟩
  unfold gyrImpl
  split
  · rfl
  · exact hsym n m

/-- the tensor does not depend on the origin: translating the cloud leaves it unchanged -/
theorem C17_gyration_translation (N : ℕ) (hN : N ≠ 0) (P : ℕ → ℕ → K) (t : ℕ → K) (m n : ℕ) :
    gyrSpec N (fun i x => P i x + t x) m n = gyrSpec N P m n := by
  have hN' : (N : K) ≠ 0 := Nat.cast_ne_zero.mpr hN
  have hm : ∀ x, meanCol N (fun i x => P i x + t x) x = meanCol N P x + t x := by
    intro x
    unfold meanCol
    simp only [sumRange_eq, Finset.sum_add_distrib, Finset.sum_const, Finset.card_range, nsmul_eq_mul]
    field_simp
  unfold gyrSpec
  congr 1
  simp only [sumRange_eq, hm]
  exact Finset.sum_congr rfl fun i _ => by ring

/-- `tr S = (1/N) Σ_i |r_i − r̄|²`: the squared radius of gyration -/
theorem C17_gyration_trace (d N : ℕ) (P : ℕ → ℕ → K) :
    trace d (gyrSpec N P)
      = (∑ i ∈ range N, ∑ m ∈ range d, (P i m - meanCol N P m) ^ 2) / (N : K) := by
  rw [trace_eq]
  unfold gyrSpec
  simp only [sumRange_eq]
  rw [← Finset.sum_div, Finset.sum_comm]
  congr 1
  exact Finset.sum_congr rfl fun i _ => Finset.sum_congr rfl fun m _ => by ring

/-- 3-D descriptors as functions of the spectrum (eigen-solver contract = Vieta relations):
`Rg² = tr S`, `asphericity = λ₂ − (λ₀+λ₁)/2`, and the shape anisotropy is the rotation invariant
`3/2 · tr S² / (tr S)² − 1/2` -/
theorem C17_gyration_descriptors (sqrt : K → K) (hsq : ∀ x : K, 0 ≤ x → sqrt x * sqrt x = x)
    (S : ℕ → ℕ → K) (l : ℕ → K) (h : IsSpectrum3 S l) (htr : 0 ≤ trace 3 S) :
    radGyr sqrt 3 l * radGyr sqrt 3 l = trace 3 S ∧
    asph l = l 2 - (l 0 + l 1) / 2 ∧
    acyl l = l 1 - l 0 ∧
    (trace 3 S ≠ 0 → aniso sqrt l = 3 / 2 * traceSq 3 S / trace 3 S ^ 2 - 1 / 2) := by
  obtain ⟨h1, h2, _⟩ := h
  have hsum : sumRange 3 l = trace 3 S := by rw [← h1]; simp [sumRange]
  have hrg : radGyr sqrt 3 l * radGyr sqrt 3 l = trace 3 S := by
    unfold radGyr; rw [hsum]; exact hsq _ htr
  refine ⟨hrg, ?_, rfl, ?_⟩
  · unfold asph; simp only [sumRange, Nat.cast_ofNat]; ring
  · intro hne
    have h4 : powNat (radGyr sqrt 3 l) 4 = trace 3 S ^ 2 := by
      rw [powNat_eq, ← hrg]; ring
    unfold aniso
    rw [h4, powNat_eq, powNat_eq]
    unfold asph acyl
    simp only [sumRange, Nat.cast_ofNat]
    have hne2 : trace 3 S ^ 2 ≠ 0 := pow_ne_zero _ hne
    rw [div_eq_iff hne2]
    have e2 : traceSq 3 S = trace 3 S ^ 2 - 2 * (l 0 * l 1 + l 0 * l 2 + l 1 * l 2) := by
      rw [h2]; ring
    rw [sub_mul, div_mul_cancel₀ _ hne2, e2, ← h1]
    ring

/-- for a positive-semidefinite spectrum sorted ascending: asphericity, acylindricity ≥ 0 and
`0 ≤ asphericity² + ¾ acylindricity² ≤ (Σλ)²`, i.e. the shape anisotropy lies in [0, 1] -/
theorem C17_gyration_bounds (l : ℕ → K) (h0 : 0 ≤ l 0) (h01 : l 0 ≤ l 1) (h12 : l 1 ≤ l 2) :
    0 ≤ acyl l ∧ 0 ≤ asph l ∧
    0 ≤ asph l ^ 2 + 3 / 4 * acyl l ^ 2 ∧
    asph l ^ 2 + 3 / 4 * acyl l ^ 2 ≤ (l 0 + l 1 + l 2) ^ 2 := by
  unfold acyl asph
  simp only [sumRange, Nat.cast_ofNat]
  have h1 : 0 ≤ l 1 := le_trans h0 h01
  have h2 : 0 ≤ l 2 := le_trans h1 h12
  refine ⟨by linarith, by linarith, by positivity, ?_⟩
  nlinarith [mul_nonneg h0 h1, mul_nonneg h0 h2, mul_nonneg h1 h2]

/-- 2-D: acylindricity² = (λ₁ − λ₀)² = (S₀₀ − S₁₁)² + 4 S₀₁ S₁₀ and `Rg² = tr S` -/
theorem C17_gyration_2d (sqrt : K → K) (hsq : ∀ x : K, 0 ≤ x → sqrt x * sqrt x = x)
    (S : ℕ → ℕ → K) (l : ℕ → K) (h : IsSpectrum2 S l) (htr : 0 ≤ trace 2 S) :
    radGyr sqrt 2 l * radGyr sqrt 2 l = trace 2 S ∧
    acyl l ^ 2 = (S 0 0 - S 1 1) ^ 2 + 4 * (S 0 1 * S 1 0) := by
  obtain ⟨h1, h2⟩ := h
  constructor
  · unfold radGyr
    have : sumRange 2 l = trace 2 S := by rw [← h1]; simp [sumRange]
    rw [this]; exact hsq _ htr
  · unfold acyl
    have ht : trace 2 S = S 0 0 + S 1 1 := by simp [trace, sumRange]
    rw [ht] at h1
    linear_combination (l 0 + l 1 + S 0 0 + S 1 1) * h1 - 4 * h2

example : IsSpectrum2 (K := ℚ) (fun x y => if x = y then (if x = 0 then 2 else 3) else 0) (fun k => if k = 0 then 2 else 3) := by
  constructor <;> simp [trace, sumRange]

end Pms.LocalOrder
