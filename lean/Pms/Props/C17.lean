import Pms.Lemmas.LocalOrder

/-!
# C17 — local order parameters equal their definitions

Property theorems only.  `K` is any ordered field (so ℝ and ℚ); `exp log sqrt : K → K`, `pi : K`
are arbitrary (the statements hold for every interpretation, in particular Mathlib's real functions).
-/
open Finset
namespace Pms.LocalOrder
open Pms

variable {K : Type} [Field K] [LinearOrder K] [IsStrictOrderedRing K]

/-! ## tetrahedral order -/

/-- the double loop of `q8_tetrahedral` is `1 - 3/32 Σ_{j<k} (cos ψ_jk + 1/3)²` over the list of the
four selected neighbours -/
theorem C17_tetra_def (sqrt : K → K) (R : ℕ → ℕ → K) (nb : ℕ → ℕ) :
    tetraImpl sqrt R nb = tetraSpec (cosPair sqrt R) [nb 0, nb 1, nb 2, nb 3] := by
  simp [tetraImpl, tetraSpec, pairLoop, sumRange, pairSumList, tetraTerm]
  ring

/-- perfect tetrahedral coordination (all six cosines −1/3) gives exactly 1 -/
theorem C17_tetra_perfect (sqrt : K → K) (R : ℕ → ℕ → K) (nb : ℕ → ℕ)
    (h : ∀ j k, j < k → k < 4 → cosPair sqrt R (nb j) (nb k) = -1/3) :
    tetraImpl sqrt R nb = 1 := by
  rw [C17_tetra_def]
  simp [tetraSpec, pairSumList, h 0 1, h 0 2, h 0 3, h 1 2, h 1 3, h 2 3]
  norm_num

end Pms.LocalOrder
