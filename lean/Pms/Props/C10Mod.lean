import Pms.Gen.ModShape

/-! # C10 — pinned source text (property theorems only; statements written by tools/mkmodprops.py from the tree the
checks were validated on, hand-owned afterwards).  `Pms.Gen.ModShape` is REGENERATED from /repo on every run; these
theorems say that the module top levels (imports, module-level state, decorators, signatures and defaults) of the files
C10 is anchored in — and, where listed, the statements of the anchored routines — are still the text the model was
written against and the correspondence was run on.  An edit there breaks this obligation; the check then searches for
a failing input and reports `no-failing-input-found` when there is none (a harmless edit). -/
namespace Pms.ModShape
open Pms.Gen.ModShape

/-- module top levels of PyMatterSim/static/boo.py, PyMatterSim/utils/coarse_graining.py -/
theorem C10_module_shape :
    shape_static_boo =
  ["from typing import Tuple",
   "import numpy as np",
   "import numpy.typing as npt",
   "import pandas as pd",
   "from ..dynamic.time_corr import time_correlation",
   "from ..neighbors.read_neighbors import read_neighbors",
   "from ..reader.reader_utils import Snapshots",
   "from ..static.gr import conditional_gr",
   "from ..utils.coarse_graining import time_average as utils_time_average",
   "from ..utils.funcs import Wignerindex",
   "from ..utils.logging import get_logger_handle",
   "from ..utils.pbc import remove_pbc",
   "from ..utils.spherical_harmonics import sph_harm_l",
   "logger = get_logger_handle(__name__)",
   "class boo_3d()",
   "  def __init__(self, snapshots: Snapshots, l: int, neighborfile: str, weightsfile: str=None, ppp: npt.NDArray=np.array([1, 1, 1]), Nmax: int=30) -> None",
   "  def qlm_Qlm(self) -> Tuple[npt.NDArray, npt.NDArray]",
   "  def ql_Ql(self, coarse_graining: bool=False, outputfile: str=None) -> npt.NDArray",
   "  def sij_ql_Ql(self, coarse_graining: bool=False, c: float=0.7, outputqlQl: str=None, outputsij: str=None) -> list[npt.NDArray]",
   "  def w_W_cap(self, coarse_graining: bool=False, outputw: str=None, outputwcap: str=None) -> Tuple[npt.NDArray, npt.NDArray]",
   "  def spatial_corr(self, coarse_graining: bool=False, rdelta: float=0.01, outputfile: str='') -> pd.DataFrame",
   "  def time_corr(self, coarse_graining: bool=False, dt: float=0.002, outputfile: str='') -> pd.DataFrame",
   "class boo_2d()",
   "  def __init__(self, snapshots: Snapshots, l: int, neighborfile: str, weightsfile: str='', ppp: npt.NDArray=np.array([1, 1]), Nmax: int=10, output_phi: str='') -> None",
   "  def lthorder(self, output_phi: str='') -> npt.NDArray",
   "  def time_average(self, time_period: float, dt: float=0.002, average_complex: bool=True, outputfile: str='') -> Tuple[npt.NDArray, npt.NDArray]",
   "  def spatial_corr(self, rdelta: float=0.01, outputfile: str='') -> pd.DataFrame",
   "  def time_corr(self, dt: float=0.002, outputfile: str='') -> pd.DataFrame"] ∧
    shape_utils_coarse_graining =
  ["from typing import Tuple",
   "import numpy as np",
   "import numpy.typing as npt",
   "from ..neighbors.read_neighbors import read_neighbors",
   "from ..reader.reader_utils import Snapshots",
   "from ..utils.funcs import grid_gaussian",
   "from ..utils.logging import get_logger_handle",
   "from ..utils.pbc import remove_pbc",
   "logger = get_logger_handle(__name__)",
   "def time_average(snapshots: Snapshots, input_property: npt.NDArray, time_period: float=0.0, dt: float=0.002) -> Tuple[npt.NDArray, npt.NDArray]",
   "def spatial_average(input_property: npt.NDArray, neighborfile: str, Nmax: int=30, outputfile: str='') -> npt.NDArray",
   "def gaussian_blurring(snapshots: Snapshots, condition: npt.NDArray, ngrids: npt.NDArray, sigma: float=2.0, ppp: npt.NDArray=np.array([1, 1, 1]), gaussian_cut: float=6.0, outputfile: str='')",
   "def atomic_position_average()"] :=
  ⟨rfl, rfl⟩

/-- statements of boo_2d.__init__, boo_2d.lthorder, boo_2d.time_average, boo_2d.spatial_corr, boo_2d.time_corr -/
theorem C10_body_shape :
    body_static_boo__boo_2d___init__ =
  ["self.snapshots = snapshots",
   "self.l = l",
   "self.neighborfile = neighborfile",
   "self.weightsfile = weightsfile",
   "self.ppp = ppp",
   "self.Nmax = Nmax",
   "self.nparticle = snapshots.snapshots[0].nparticle",
   "assert len({snapshot.nparticle for snapshot in self.snapshots.snapshots}) == 1, 'Paticle number changes during simulation'",
   "self.boxlength = snapshots.snapshots[0].boxlength",
   "assert len({tuple(snapshot.boxlength) for snapshot in self.snapshots.snapshots}) == 1, 'Simulation box length changes during simulation'",
   "self.ParticlePhi = self.lthorder(output_phi)"] ∧
    body_static_boo__boo_2d_lthorder =
  ["fneighbor = open(self.neighborfile, 'r', encoding='utf-8')",
   "if self.weightsfile:\n    fweights = open(self.weightsfile, 'r', encoding='utf-8')",
   "results = np.zeros((self.snapshots.nsnapshots, self.nparticle), dtype=np.complex128)",
   "for n, snapshot in enumerate(self.snapshots.snapshots):\n    Neighborlist = read_neighbors(fneighbor, snapshot.nparticle, self.Nmax)\n    if not self.weightsfile:\n        for i in range(snapshot.nparticle):\n            cnlist = Neighborlist[i, 1:Neighborlist[i, 0] + 1]\n            RIJ = snapshot.positions[cnlist] - snapshot.positions[i][np.newaxis, :]\n            RIJ = remove_pbc(RIJ, snapshot.hmatrix, self.ppp)\n            theta = np.arctan2(RIJ[:, 1], RIJ[:, 0])\n            results[n, i] = np.exp(1j * self.l * theta).mean()\n    else:\n        weightslist = read_neighbors(fweights, snapshot.nparticle, self.Nmax)\n        if (weightslist < 0).any():\n            logger.info(f'Negative weights for {n} - snapshot, normalization by sum of absolutes')\n        for i in range(snapshot.nparticle):\n            cnlist = Neighborlist[i, 1:Neighborlist[i, 0] + 1]\n            RIJ = snapshot.positions[cnlist] - snapshot.positions[i][np.newaxis, :]\n            RIJ = remove_pbc(RIJ, snapshot.hmatrix, self.ppp)\n            theta = np.arctan2(RIJ[:, 1], RIJ[:, 0])\n            weights = weightslist[i, 1:Neighborlist[i, 0] + 1]\n            weights /= np.abs(weights).sum()\n            results[n, i] = (weights * np.exp(1j * self.l * theta)).sum()",
   "fneighbor.close()",
   "if self.weightsfile:\n    fweights.close()",
   "if output_phi:\n    np.save(output_phi, results)",
   "return results"] ∧
    body_static_boo__boo_2d_time_average =
  ["assert time_period > 0, 'time_period must be greater than 0'",
   "if average_complex:\n    average_quantity, average_snapshot_id = utils_time_average(snapshots=self.snapshots, input_property=self.ParticlePhi, time_period=time_period, dt=dt)\nelse:\n    average_modulus, average_snapshot_id = utils_time_average(snapshots=self.snapshots, input_property=np.abs(self.ParticlePhi), time_period=time_period, dt=dt)\n    average_phase, average_snapshot_id = utils_time_average(snapshots=self.snapshots, input_property=np.angle(self.ParticlePhi), time_period=time_period, dt=dt)\n    average_quantity = average_modulus.real * np.exp(1j * average_phase.real)",
   "if outputfile:\n    np.save(outputfile, average_quantity)\n    np.savetxt(outputfile + '.snapshot_id.dat', average_snapshot_id[:, np.newaxis], fmt='%d', header='middle_snapshot_id', comments='')",
   "return (average_quantity, average_snapshot_id)"] ∧
    body_static_boo__boo_2d_spatial_corr =
  ["glresults = 0",
   "for n, snapshot in enumerate(self.snapshots.snapshots):\n    glresults += conditional_gr(snapshot=snapshot, condition=self.ParticlePhi[n], conditiontype=None, ppp=self.ppp, rdelta=rdelta)",
   "glresults /= self.snapshots.nsnapshots",
   "if outputfile:\n    glresults.to_csv(outputfile, float_format='%.8f', index=False)",
   "return glresults"] ∧
    body_static_boo__boo_2d_time_corr =
  ["gl_time = time_correlation(snapshots=self.snapshots, condition=self.ParticlePhi, dt=dt, outputfile=outputfile)",
   "return gl_time"] :=
  ⟨rfl, rfl, rfl, rfl, rfl⟩

end Pms.ModShape
