import Pms.GenR.Extra
import Mathlib.Tactic.FieldSimp
import Mathlib.Tactic.Ring
import Mathlib.Tactic.LinearCombination
import Mathlib.Analysis.SpecialFunctions.Trigonometric.Inverse
import Mathlib.Analysis.SpecialFunctions.Trigonometric.Basic

/-!
# Beyond the 20 listed properties — helper geometry (`utils/geometry.py`) and two `utils/funcs.py` formulas

The terms are REGENERATED from the source (`translator/gens/extra.py` → `Pms.GenR.Extra`); the theorems say what they mean,
over an arbitrary field (hence ℝ).  Tie: regeneration on every `./check EXTRA` run + numeric validation of the regenerated
Float terms against the real functions (driver op `extraf`).  Not part of MANIFEST.json (no listed property is about these
routines); built by `./check --setup` and checked by `./check EXTRA`.
-/
namespace Pms.Extra
open Pms.GenR.Extra

section field
variable {K : Type} [Field K]

/-- 2-D cross product of (a − o) and (b − o): zero iff o, a, b are collinear -/
def cross (ox oy ax ay bx by_ : K) : K := (ax - ox) * (by_ - oy) - (ay - oy) * (bx - ox)

/-- **lines_intersection**: for non-parallel lines (`D ≠ 0`) the returned point `(Px/D, Py/D)` lies on the line through P1, P2 and
on the line through P3, P4. -/
theorem E_lines_intersection (x1 y1 x2 y2 x3 y3 x4 y4 : K) (hD : li_D x1 y1 x2 y2 x3 y3 x4 y4 ≠ 0) :
    cross x1 y1 x2 y2 (li_PxNum x1 y1 x2 y2 x3 y3 x4 y4 / li_D x1 y1 x2 y2 x3 y3 x4 y4)
        (li_PyNum x1 y1 x2 y2 x3 y3 x4 y4 / li_D x1 y1 x2 y2 x3 y3 x4 y4) = 0 ∧
    cross x3 y3 x4 y4 (li_PxNum x1 y1 x2 y2 x3 y3 x4 y4 / li_D x1 y1 x2 y2 x3 y3 x4 y4)
        (li_PyNum x1 y1 x2 y2 x3 y3 x4 y4 / li_D x1 y1 x2 y2 x3 y3 x4 y4) = 0 := by
  unfold cross
  constructor
  · field_simp
    unfold li_PxNum li_PyNum li_D
    ring
  · field_simp
    unfold li_PxNum li_PyNum li_D
    ring

/-- `D` is the cross product of the two direction vectors: it vanishes exactly for parallel lines (then the code divides by 0) -/
theorem E_lines_parallel (x1 y1 x2 y2 x3 y3 x4 y4 : K) :
    li_D x1 y1 x2 y2 x3 y3 x4 y4 = (x1 - x2) * (y3 - y4) - (y1 - y2) * (x3 - x4) := by
  unfold li_D; ring

/-- **triangle_angle** is the law of cosines: if `c² = a² + b² − 2ab·κ` (κ the cosine of the angle between the sides a and b)
then `cos_theta = κ`. -/
theorem E_triangle_angle (a b c κ : K) (ha : a ≠ 0) (hb : b ≠ 0) (h2 : (2 : K) ≠ 0)
    (hlaw : c ^ 2 = a ^ 2 + b ^ 2 - 2 * a * b * κ) : ta_cos a b c = κ := by
  unfold ta_cos
  rw [hlaw]
  field_simp
  ring

/-- **triangle_area** is Heron's formula, and Heron's radicand is the squared half cross product: with side lengths
a = |u|, b = |v|, c = |u − v| (squares given), `p(p−a)(p−b)(p−c) = (|u|²|v|² − (u·v)²)/4`. -/
theorem E_heron (a b c uu vv uv : K) (h2 : (2 : K) ≠ 0) (ha : a ^ 2 = uu) (hb : b ^ 2 = vv) (hc : c ^ 2 = uu + vv - 2 * uv) :
    tr_rad (tr_p a b c) a b c = (uu * vv - uv ^ 2) / 4 := by
  unfold tr_rad tr_p
  have h4 : (4 : K) ≠ 0 := by
    have : (4 : K) = 2 * 2 := by norm_num
    rw [this]; exact mul_ne_zero h2 h2
  have key : 16 * ((a + b + c) / 2 * ((a + b + c) / 2 - a) * ((a + b + c) / 2 - b) * ((a + b + c) / 2 - c))
      = 2 * a ^ 2 * b ^ 2 + 2 * b ^ 2 * c ^ 2 + 2 * c ^ 2 * a ^ 2 - (a ^ 2) ^ 2 - (b ^ 2) ^ 2 - (c ^ 2) ^ 2 := by
    field_simp
    ring
  have h16 : (16 : K) ≠ 0 := by
    have : (16 : K) = 4 * 4 := by norm_num
    rw [this]; exact mul_ne_zero h4 h4
  apply mul_left_cancel₀ h16
  rw [key, ha, hb, hc]
  field_simp
  ring

/-- **Legendre_polynomials(x, ndim)**: the second Legendre polynomial `(3x² − 1)/2` in 3-D; in 2-D the code returns
`(2x² − 1)/2`, i.e. HALF of the 2-D analogue `cos 2θ = 2x² − 1` (stated as it is; no listed property is about this routine) -/
theorem E_legendre2 (x : K) :
    legendre2 x 3 = (3 * x ^ 2 - 1) / 2 ∧ legendre2 x 2 = (2 * x ^ 2 - 1) / 2 := by
  unfold legendre2
  exact ⟨rfl, rfl⟩

/-- **moment_of_inertia** returns `[Ixx, Iyy, Izz, Ixy, Ixz, Iyz]` -/
theorem E_inertia_order : inertiaOrder = [(0, 0), (1, 1), (2, 2), (0, 1), (0, 2), (1, 2)] := rfl

end field

/-- over ℝ: `triangle_angle` returns the angle itself for γ ∈ [0, π] -/
theorem E_triangle_angle_real (a b c γ : ℝ) (ha : a ≠ 0) (hb : b ≠ 0) (h0 : 0 ≤ γ) (hπ : γ ≤ Real.pi)
    (hlaw : c ^ 2 = a ^ 2 + b ^ 2 - 2 * a * b * Real.cos γ) : Real.arccos (ta_cos a b c) = γ := by
  rw [E_triangle_angle a b c (Real.cos γ) ha hb two_ne_zero hlaw]
  exact Real.arccos_cos h0 hπ

/-- over ℝ: `legendre2 (cos θ) 2 = cos(2θ)/2` -/
theorem E_legendre2_cos (θ : ℝ) : legendre2 (Real.cos θ) 2 = Real.cos (2 * θ) / 2 := by
  rw [(E_legendre2 (Real.cos θ)).2, Real.cos_two_mul]

/-- non-vacuity: the lines y = x and y = 1 − x meet in (1/2, 1/2) -/
example : li_D (0 : ℚ) 0 1 1 0 1 1 0 ≠ 0 ∧ li_PxNum (0 : ℚ) 0 1 1 0 1 1 0 / li_D (0 : ℚ) 0 1 1 0 1 1 0 = 1 / 2 := by
  unfold li_D li_PxNum; norm_num

end Pms.Extra
