import Pms.Gen.ModShape

/-! # C19 — pinned source text (property theorems only; statements written by tools/mkmodprops.py from the tree the
checks were validated on, hand-owned afterwards).  `Pms.Gen.ModShape` is REGENERATED from /repo on every run; these
theorems say that the module top levels (imports, module-level state, decorators, signatures and defaults) of the files
C19 is anchored in — and, where listed, the statements of the anchored routines — are still the text the model was
written against and the correspondence was run on.  An edit there breaks this obligation; the check then searches for
a failing input and reports `no-failing-input-found` when there is none (a harmless edit). -/
namespace Pms.ModShape
open Pms.Gen.ModShape

/-- module top levels of PyMatterSim/reader/gsd_reader_helper.py, PyMatterSim/reader/lammps_reader_helper.py, PyMatterSim/reader/simulation_log.py, PyMatterSim/writer/lammps_writer.py -/
theorem C19_module_shape :
    shape_reader_gsd_reader_helper =
  ["import os",
   "from dataclasses import replace",
   "from typing import Any",
   "import numpy as np",
   "from ..reader.reader_utils import SingleSnapshot, Snapshots",
   "from ..utils.logging import get_logger_handle",
   "logger = get_logger_handle(__name__)",
   "def read_gsd_wrapper(file_name: str, ndim: int) -> Snapshots",
   "def read_gsd_dcd_wrapper(file_name: str, ndim: int) -> Snapshots",
   "def read_gsd(f: Any, ndim: int) -> Snapshots",
   "def read_gsd_dcd(f_gsd: Any, f_dcd: Any, ndim: int) -> Snapshots"] ∧
    shape_reader_lammps_reader_helper =
  ["from typing import Any, Dict, List",
   "import numpy as np",
   "import numpy.typing as npt",
   "import pandas as pd",
   "from ..reader.reader_utils import SingleSnapshot, Snapshots",
   "from ..utils.logging import get_logger_handle",
   "logger = get_logger_handle(__name__)",
   "def read_lammps_wrapper(file_name: str, ndim: int) -> Snapshots",
   "def read_lammps_centertype_wrapper(file_name: str, ndim: int, moltypes: Dict[int, int]) -> Snapshots",
   "def read_lammps_vector_wrapper(file_name: str, ndim: int, columnsids: List[int]) -> Snapshots",
   "def read_lammps(f: Any, ndim: int) -> SingleSnapshot",
   "def read_lammps_centertype(f: Any, ndim: int, moltypes: Dict[int, int]) -> SingleSnapshot",
   "def read_lammps_vector(f: Any, ndim: int, columnsids: List[int]) -> SingleSnapshot",
   "def read_additions(dumpfile, ncol) -> npt.NDArray"] ∧
    shape_reader_simulation_log =
  ["import numpy as np",
   "import pandas as pd",
   "from ..utils.logging import get_logger_handle",
   "logger = get_logger_handle(__name__)",
   "def read_lammpslog(filename) -> [pd.DataFrame]"] ∧
    shape_writer_lammps_writer =
  ["import numpy.typing as npt",
   "def write_dump_header(timestep: int, nparticle: int, boxbounds: npt.NDArray, addson: str=None) -> str",
   "def write_data_header(nparticle: int, nparticle_type: int, boxbounds: npt.NDArray) -> str"] :=
  ⟨rfl, rfl, rfl, rfl⟩

end Pms.ModShape
