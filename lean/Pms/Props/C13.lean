import Pms.Lemmas.Cond
import Pms.Lemmas.CondSq
import Pms.Lemmas.CondComplex

/-!
# C13 — conditional g(r) and S(q)

`Pms.Gen.Cond` (the dtype / `conditiontype` if-chain of `conditional_gr` with what each branch does, the `SIJ`
expression of each pair loop, the normalisation statements in source order, `funcs.nidealfac`; the branch table of
`conditional_sq`) is REGENERATED from the source on every run.  `Impl` (Pms/Model/Cond.lean) interprets that data step for
step; `Spec` is the definition in the property statement, written on the weighted ordered-pair histogram
`Pms.Gr.pairHist` / `Pms.Gr.Spec` of C03 and compared with `Pms.Sq.Spec` of C04.  `K` is any ordered field (ℝ, ℚ);
complex numbers are pairs over K (`Pms.Sq.Cx`), tied to Mathlib's ℂ in `C13_weight_complex` / `C13_sq_complex`.
Property theorems only; helper lemmas are in Pms/Lemmas/Cond.lean and Pms/Lemmas/CondSq.lean.
-/
open Finset
namespace Pms.Cond
open Pms
open Pms.Sq (Cx reMulConj phase SqrtOK)
open Pms.Gen.Cond

variable {K : Type} [Field K] [LinearOrder K] [IsStrictOrderedRing K]

/-- **Dispatch.**  Over the whole quantifier domain — every condition kind, every numpy dtype of that kind
(bool; int64/float32/float64; complex64/complex128; all five for vectors; the real ones for tensors), the
`conditiontype` prescribed for it (None or '' for scalars, 'vector', 'tensor') — the regenerated if-chain reaches a
branch that conjugates exactly when the values can be complex, counts the selected particles only for a mask and
sets `norminator` only for a real scalar; and the regenerated loop chain reaches the loop whose `SIJ` is the
product / dot product / trace.  Any other `conditiontype` is rejected (the `else: raise ValueError`). -/
theorem C13_dispatch :
    (∀ kind ∈ Spec.Kind.all, ∀ dt ∈ kind.dtypes, ∀ ct ∈ kind.ctypes,
      prepOK kind dt (grSrc.prep.eval dt kind.rank ct) = true ∧ selectLoop grSrc.loops ct = some (expectedWeight kind)) ∧
    (∀ ct ∈ [some "matrix", some "Vector", some "scalar", some "None"], selectLoop grSrc.loops ct = none) ∧
    grSrc.columns = ["r", "gr", "gA"] :=
  ⟨dispatch_table, by decide +kernel, by decide +kernel⟩

/-- **conditional g(r) is the weighted pair histogram** (per branch).  For every single configuration (T = 1, any
cell, any mask, any N), every condition kind, every dtype of that kind, the prescribed `conditiontype`, and every
bin k, the row returned by the algorithm of `conditional_gr` (regenerated dispatch, regenerated `SIJ`, pair loop
i<j, regenerated normalisation statements executed in source order) is
`r` = bin centre, `gr` = the total g(r) of C03, and
`gA` = V/n² · (ORDERED-pair histogram weighted by Re(A_i conj A_j) | Σ_c Re(A_ic conj A_jc) | tr(A_i A_j)) / shell_k,
n = number of selected particles for a mask and N otherwise; `gA_norm` exists exactly for a real scalar and is
(g_A − ⟨A⟩²)/(⟨A²⟩ − ⟨A⟩²). -/
theorem C13_gr_def (rint : K → ℤ) (tr : Gr.Traj K) (hwf : WFc rint tr) (kind : Spec.Kind) (x : Input K)
    (hx : Valid kind tr.N x) (ct : Option String) (hct : ct ∈ kind.ctypes) (k : ℕ) :
    Impl.condGr grSrc tr (Gr.binOf tr (Gr.dist2 rint tr)) x ct k
      = some (Gr.Spec.r tr k, Gr.Spec.gTotal rint tr k,
              Spec.gA tr (Gr.binOf tr (Gr.dist2 rint tr)) kind (Spec.nOf kind tr.N x) x.m x.A k,
              if kind = .real then some (Spec.gAnorm tr (Gr.binOf tr (Gr.dist2 rint tr)) x.A k) else none) := by
  obtain ⟨hp, hloop⟩ := dispatch_table kind (mem_all kind) x.dtype hx.dtype ct hct
  unfold Impl.condGr
  simp only [hx.rank, hloop]
  generalize grSrc.prep.eval x.dtype kind.rank ct = p at hp ⊢
  have hB : ∀ f i j, Gr.binOf tr (Gr.dist2 rint tr) f i j k = Gr.binOf tr (Gr.dist2 rint tr) f j i k :=
    fun f i j => Gr.binOf_symm rint hwf.rint_he tr f i j k
  have hN : (tr.N : K) ≠ 0 := Nat.cast_ne_zero.mpr (by have := hwf.N_pos; omega)
  have hnat := natom_eq kind tr.N x hx p hp
  have hn : Impl.natom p tr.N x.A ≠ 0 := by
    rw [hnat]; exact Nat.cast_ne_zero.mpr (by have := nOf_pos kind tr.N hwf.N_pos x hx; omega)
  obtain ⟨hR, hGr, hGA, hNorm⟩ := final_cols tr hwf.dim hwf.V_ne hN hwf.pi_ne hwf.delta_ne p x.A hn
    (Impl.rawGr tr (Gr.binOf tr (Gr.dist2 rint tr)) k)
    (Impl.rawGA tr (Gr.binOf tr (Gr.dist2 rint tr)) (expectedWeight kind) p x.m x.A k) k
  have hGA' : Impl.final grSrc tr p x.A (Impl.rawGr tr (Gr.binOf tr (Gr.dist2 rint tr)) k)
      (Impl.rawGA tr (Gr.binOf tr (Gr.dist2 rint tr)) (expectedWeight kind) p x.m x.A k) k .colGA
        = Spec.gA tr (Gr.binOf tr (Gr.dist2 rint tr)) kind (Spec.nOf kind tr.N x) x.m x.A k := by
    rw [hGA, hnat, rawGA_eq tr _ kind x hx p hp k, gA_loop tr hwf.T_one _ kind _ x.m x.A k hB]
  have hT : Gr.Spec.gTotal rint tr k
      = Gr.Spec.V tr / ((tr.N : K) * (tr.N : K)) * (2 * Impl.rawGr tr (Gr.binOf tr (Gr.dist2 rint tr)) k) / Gr.Spec.shell tr k :=
    gTotal_loop tr hwf.T_one _ k hB
  have hnorm := prepOK_norm hp
  rw [hR, hGr, hGA', ← hT]
  cases kind
  case real =>
    have h := hNorm (by rw [hnorm]; rfl)
    rw [hGA'] at h
    rw [h, hnorm]
    have hn : Spec.nOf .real tr.N x = tr.N := by simp [Spec.nOf]
    simp only [hn, expectedPrep, if_true]
    rfl
  all_goals simp [hnorm, expectedPrep]

/-- **A boolean selection of one species reproduces that species' partial g_aa** — the `Spec.g a a` of C03, stated
against C03's definition itself: if the mask selects exactly the particles of type a, the `gA` column is g_aa. -/
theorem C13_bool_is_partial (rint : K → ℤ) (tr : Gr.Traj K) (hwf : WFc rint tr) (a : ℕ) (x : Input K)
    (hx : Valid .bool tr.N x) (hsel : ∀ i, x.sel i = decide ((tr.frame 0).typ i = a)) (ct : Option String)
    (hct : ct ∈ Spec.Kind.bool.ctypes) (k : ℕ) :
    (Impl.condGr grSrc tr (Gr.binOf tr (Gr.dist2 rint tr)) x ct k).map (fun row => row.2.2.1)
      = some (Gr.Spec.g rint tr a a k) := by
  rw [C13_gr_def rint tr hwf .bool x hx ct hct k]
  simp only [Option.map_some]
  congr 1
  exact gA_bool_eq_partial tr hwf.T_one _ a x hx hsel k

/-- **A = 1 reproduces the total g(r)** (C03's `Spec.gTotal`): for the constant real field 1 the `gA` column, like the
reference column `gr`, is the total pair correlation. -/
theorem C13_ones_is_total (rint : K → ℤ) (tr : Gr.Traj K) (hwf : WFc rint tr) (x : Input K)
    (hx : Valid .real tr.N x) (hone : ∀ i c, x.A i c = ⟨1, 0⟩) (ct : Option String) (hct : ct ∈ Spec.Kind.real.ctypes) (k : ℕ) :
    (Impl.condGr grSrc tr (Gr.binOf tr (Gr.dist2 rint tr)) x ct k).map (fun row => (row.2.1, row.2.2.1))
      = some (Gr.Spec.gTotal rint tr k, Gr.Spec.gTotal rint tr k) := by
  rw [C13_gr_def rint tr hwf .real x hx ct hct k]
  simp only [Option.map_some]
  congr 2
  exact gA_ones_eq_total tr _ x hone k

/-- **A vector field equals the sum over its components**: the `gA` column for a (real or complex) vector field
with `conditiontype = 'vector'` is the sum of the `gA` columns obtained by passing each component as a scalar
condition (of the same dtype, `conditiontype = None`). -/
theorem C13_vector_is_sum_of_components (rint : K → ℤ) (tr : Gr.Traj K) (hwf : WFc rint tr) (x : Input K)
    (hx : Valid .vector tr.N x) (k : ℕ) :
    ∃ g : ℕ → K,
      (∀ c, (Impl.condGr grSrc tr (Gr.binOf tr (Gr.dist2 rint tr)) (component x c) none k).map (fun row => row.2.2.1)
          = some (g c)) ∧
      (Impl.condGr grSrc tr (Gr.binOf tr (Gr.dist2 rint tr)) x (some "vector") k).map (fun row => row.2.2.1)
          = some (∑ c ∈ range x.m, g c) := by
  refine ⟨fun c => Spec.gA tr (Gr.binOf tr (Gr.dist2 rint tr)) (scalarKind x.dtype) tr.N 1 (component x c).A k, ?_, ?_⟩
  · intro c
    have hv := component_valid tr.N x hx c
    rw [C13_gr_def rint tr hwf (scalarKind x.dtype) (component x c) hv none (scalarKind_none x.dtype) k]
    simp only [Option.map_some]
    congr 1
    rw [nOf_scalarKind]; rfl
  · rw [C13_gr_def rint tr hwf .vector x hx (some "vector") (by decide) k]
    simp only [Option.map_some]
    congr 1
    exact gA_vector_sum tr _ x k

/-- **The normalised scalar variant** is (g_A − ⟨A⟩²)/(⟨A²⟩ − ⟨A⟩²), ⟨·⟩ the plain average over the N particles: the
`gA_norm` column exists for a real scalar condition, has this value, and no other kind of condition gets one. -/
theorem C13_norm_variant (rint : K → ℤ) (tr : Gr.Traj K) (hwf : WFc rint tr) (kind : Spec.Kind) (x : Input K)
    (hx : Valid kind tr.N x) (ct : Option String) (hct : ct ∈ kind.ctypes) (k : ℕ) :
    (Impl.condGr grSrc tr (Gr.binOf tr (Gr.dist2 rint tr)) x ct k).map (fun row => row.2.2.2)
      = some (if kind = .real then
          some ((Spec.gA tr (Gr.binOf tr (Gr.dist2 rint tr)) .real tr.N 1 x.A k - Spec.mean tr.N x.A * Spec.mean tr.N x.A)
                / (Spec.meanSq tr.N x.A - Spec.mean tr.N x.A * Spec.mean tr.N x.A))
        else none) := by
  rw [C13_gr_def rint tr hwf kind x hx ct hct k]
  rfl

/-- for SYMMETRIC tensors (the property's case) the trace of the product is the full contraction Σ_ab A_i[ab]·A_j[ab] -/
theorem C13_tensor_symmetric (d m : ℕ) (A : ℕ → ℕ → Cx K) (i j : ℕ)
    (hsym : ∀ a < d, ∀ b < d, A j (b * d + a) = A j (a * d + b)) :
    Spec.weight .tensor d m A i j
      = ∑ a ∈ range d, ∑ b ∈ range d, (Cx.mul (A i (a * d + b)) (A j (a * d + b))).re := by
  simp only [Spec.weight, sumRange_eq]
  refine Finset.sum_congr rfl fun a ha => Finset.sum_congr rfl fun b hb => ?_
  rw [hsym a (mem_range.mp ha) b (mem_range.mp hb)]

/-- the bins are those of C03: the regenerated argument of `int(…)` is L_min/(2·width) -/
theorem C13_gr_bins (tr : Gr.Traj K) (hδ : tr.rdelta ≠ 0) : Impl.maxbinArg grSrc tr = Gr.Spec.maxbinArg tr := by
  simp only [Impl.maxbinArg, grSrc, CExpr.eval, Impl.state0, Gr.Spec.maxbinArg, Gr.Spec.Lmin]
  push_cast
  field_simp

/-! ### conditional S(q) -/

/-- **Dispatch of conditional_sq.**  A mask (dtype bool) reaches the selected-particle branch (divisor: the number of
selected particles), a real or complex scalar of any dtype the scalar branch, a vector field (any dtype) the
component-wise branch (divisor N in both); the frame is rounded to 8 decimals before the group-by. -/
theorem C13_sq_dispatch :
    (∀ kind ∈ sqKinds, ∀ dt ∈ kind.dtypes,
      (selectBranch sqBranches dt kind.rank).map SqBranch.sem = some (expectedSem kind)) ∧ sqRound = 8 :=
  ⟨sq_dispatch_table, by decide +kernel⟩

/-- **conditional S(q) is |Σ_i A_i exp(−i q·r_i)|²/n** (summed over the components of a vector field), per wave
vector, for ARBITRARY phase arrays c_ik = cos(q_k·r_i), s_ik = sin(q_k·r_i): the algorithm of `conditional_sq`
(regenerated branch, particle loop, division by √n, |·|²) returns the definition with n = number of selected
particles for a mask and n = N otherwise.  `sqrt` is any non-negative root (contract of `math.sqrt`). -/
theorem C13_sq_def (sqrt : K → K) (hs : SqrtOK sqrt) (N : ℕ) (hN : 0 < N) (kind : Spec.Kind) (hk : kind ∈ sqKinds)
    (x : Input K) (hx : Valid kind N x) (c s : ℕ → ℕ → K) (k : ℕ) :
    Impl.condSq sqBranches sqrt N x c s k
      = some (Spec.condSq (Spec.nOf kind N x) N (if kind = .vector then x.m else 1) x.A c s k) :=
  condSq_eval sqrt hs N hN kind hk x hx c s k

/-- **A boolean selection of one species reproduces that species' partial S_aa** — `Spec.S a a` of C04 itself (one
frame): if the mask selects exactly the particles of type a, the `Sq` column is Re[ρ_a conj ρ_a]/√(N_a N_a). -/
theorem C13_sq_bool_is_partial (sqrt : K → K) (hs : SqrtOK sqrt) (N : ℕ) (hN : 0 < N) (ty : ℕ → ℕ) (a : ℕ) (x : Input K)
    (hx : Valid .bool N x) (hsel : ∀ i, x.sel i = decide (ty i = a)) (c s : ℕ → ℕ → K) (k : ℕ) :
    Impl.condSq sqBranches sqrt N x c s k
      = some (Sq.Spec.S sqrt 1 N (fun _ => ty) (fun _ => c) (fun _ => s) a a k) := by
  rw [condSq_eval sqrt hs N hN .bool (by decide) x hx c s k]
  congr 1
  have hn : Spec.nOf .bool N x = Sq.countType N ty a := by
    simp only [Spec.nOf, if_true]; exact count_eq_countType N ty a x.sel hsel
  simp only [Spec.condSq, Sq.Spec.S, sumRange_one, reduceCtorEq, if_false, (hx.mask rfl).1, hn, hs.sq_nat,
    cmode_ind_eq_rho N ty a x.sel hsel c s k]
  simp

/-- **A = 1 reproduces the total S(q)** — `Spec.Stot` of C04 (one frame): |ρ(q)|²/N. -/
theorem C13_sq_ones_is_total (sqrt : K → K) (hs : SqrtOK sqrt) (N : ℕ) (hN : 0 < N) (x : Input K)
    (hx : Valid .real N x) (hone : ∀ i c, x.A i c = ⟨1, 0⟩) (c s : ℕ → ℕ → K) (k : ℕ) :
    Impl.condSq sqBranches sqrt N x c s k = some (Sq.Spec.Stot 1 N (fun _ => c) (fun _ => s) k) := by
  rw [condSq_eval sqrt hs N hN .real (by decide) x hx c s k]
  congr 1
  have hn : Spec.nOf .real N x = N := by simp [Spec.nOf]
  simp only [Spec.condSq, Sq.Spec.Stot, sumRange_one, reduceCtorEq, if_false, hn, cmode_one_eq_rhoAll N x.A hone c s k]
  simp

/-- **A vector field equals the sum over its components** (S(q)): the `Sq` column of a vector condition is the sum of
the `Sq` columns of its components passed as scalar conditions of the same dtype. -/
theorem C13_sq_vector_is_sum_of_components (sqrt : K → K) (hs : SqrtOK sqrt) (N : ℕ) (hN : 0 < N) (x : Input K)
    (hx : Valid .vector N x) (c s : ℕ → ℕ → K) (k : ℕ) :
    ∃ g : ℕ → K, (∀ a, Impl.condSq sqBranches sqrt N (component x a) c s k = some (g a)) ∧
      Impl.condSq sqBranches sqrt N x c s k = some (∑ a ∈ range x.m, g a) := by
  refine ⟨fun a => Spec.condSq N N 1 (component x a).A c s k, ?_, ?_⟩
  · intro a
    have hk : scalarKind x.dtype ∈ sqKinds := by unfold scalarKind; split <;> decide
    have hnv : scalarKind x.dtype ≠ .vector := by unfold scalarKind; split <;> simp
    rw [condSq_eval sqrt hs N hN (scalarKind x.dtype) hk (component x a) (component_valid N x hx a) c s k,
      nOf_scalarKind, if_neg hnv]
  · rw [condSq_eval sqrt hs N hN .vector (by decide) x hx c s k]
    congr 1
    have hn : Spec.nOf .vector N x = N := by simp [Spec.nOf]
    simp only [Spec.condSq, if_true, hn, sumRange_one, component]
    simp only [sumRange_eq]
    rw [Finset.sum_div]

/-- **The averaged frame**: with ANY rounding map (the code's `round(8)`) and ANY grouping key (the rounded |q|), the
returned per-|q| frame lists the distinct keys in increasing order, each with the arithmetic mean of the rounded
definition over exactly the wave vectors of that key. -/
theorem C13_sq_group (sqrt rnd : K → K) (hs : SqrtOK sqrt) (N : ℕ) (hN : 0 < N) (kind : Spec.Kind) (hk : kind ∈ sqKinds)
    (x : Input K) (hx : Valid kind N x) (c s : ℕ → ℕ → K) {κ : Type} [LinearOrder κ] (nq : ℕ) (key : ℕ → κ) :
    (Sq.distinctKeys nq key).Pairwise (· < ·) ∧
    Sq.groupMean nq key (fun k => rnd ((Impl.condSq sqBranches sqrt N x c s k).getD 0))
      = (Sq.distinctKeys nq key).map fun q =>
          (q, (∑ k ∈ (range nq).filter (fun k => key k = q),
                rnd (Spec.condSq (Spec.nOf kind N x) N (if kind = .vector then x.m else 1) x.A c s k))
              / (((range nq).filter (fun k => key k = q)).card : K)) := by
  refine ⟨Sq.sorted_distinctKeys nq key, ?_⟩
  rw [Sq.groupMean_eq]
  refine List.map_congr_left fun q _ => ?_
  congr 2
  refine Finset.sum_congr rfl fun k _ => ?_
  rw [condSq_eval sqrt hs N hN kind hk x hx c s k]; rfl

/-! ### the pair model of complex numbers against ℂ -/

/-- the pair weight is the property's formula over ℂ: Re(A_i · conj A_j) -/
theorem C13_weight_complex (a b : Cx ℝ) : reMulConj a b = (toC a * (starRingEnd ℂ) (toC b)).re := by
  rw [Sq.reMulConj_eq, Complex.mul_re]
  simp [toC]

/-- with c = cos(q·r), s = sin(q·r) the model's |mode|² is |Σ_i A_i exp(−i q·r_i)|² over ℂ -/
theorem C13_sq_complex (N : ℕ) (A : ℕ → Cx ℝ) (θ : ℕ → ℝ) :
    reMulConj (cmode N A (fun i => Real.cos (θ i)) (fun i => Real.sin (θ i)))
              (cmode N A (fun i => Real.cos (θ i)) (fun i => Real.sin (θ i)))
      = Complex.normSq (modeC N A θ) := by
  rw [Sq.reMulConj_eq, cmode_re, cmode_im, Complex.normSq_apply]

/-! ### non-vacuity -/

/-- a concrete single configuration over ℚ (three particles, 2D, one frame) satisfies `WFc` -/
def exampleConf : Gr.Traj ℚ :=
  { d := 2, N := 3, T := 1,
    frame := fun _ => { pos := fun i k => (i : ℚ) * (7 / 10) + (k : ℚ) / 5,
                        typ := fun i => if i = 1 then 2 else 1,
                        H := fun i j => if i = j then 4 else 0,
                        Hinv := fun i j => if i = j then 1 / 4 else 0 },
    ppp := fun _ => 1, box := fun _ => 4, rdelta := 1 / 2, maxbin := 4, pi := 22 / 7,
    typecount := fun i => if i = 0 then 2 else 1 }

theorem C13_hypotheses_satisfiable : WFc ratRint exampleConf :=
  ⟨ratRint_isRintHE, Or.inl rfl, rfl, by decide, by decide +kernel, by decide +kernel, by decide +kernel⟩

/-- a mask selecting species 1 is a valid boolean condition; a real field, a complex field, a vector field and a
(symmetric) tensor field with a dtype of their kind are valid conditions -/
example : Valid (K := ℚ) .bool 3 { dtype := .bool, rank := 1, m := 1, sel := fun i => decide (i ≠ 1),
                                    A := boolValues fun i => decide (i ≠ 1) } :=
  ⟨by decide, rfl, fun _ i _ c => rfl, fun _ => ⟨fun i c => rfl, by decide⟩⟩

example : Valid (K := ℚ) .complex 3 { dtype := .complex64, rank := 1, m := 1, sel := fun _ => false,
                                       A := fun i _ => ⟨(i : ℚ), 1 - (i : ℚ)⟩ } :=
  ⟨by decide, rfl, fun h => by simp [Spec.Kind.isRealValued] at h, fun h => by simp at h⟩

example : Valid (K := ℚ) .tensor 3 { dtype := .float64, rank := 3, m := 4, sel := fun _ => false,
                                      A := fun i c => ⟨(i : ℚ) + (if c = 1 ∨ c = 2 then 1 / 2 else (c : ℚ)), 0⟩ } :=
  ⟨by decide, rfl, fun _ i _ c => rfl, fun h => by simp at h⟩

example : SqrtOK Real.sqrt := fun x hx => ⟨Real.sqrt_nonneg x, Real.mul_self_sqrt hx⟩

end Pms.Cond
