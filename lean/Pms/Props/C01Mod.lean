import Pms.Gen.ModShape

/-! # C01 — pinned source text (property theorems only; statements written by tools/mkmodprops.py from the tree the
checks were validated on, hand-owned afterwards).  `Pms.Gen.ModShape` is REGENERATED from /repo on every run; these
theorems say that the module top levels (imports, module-level state, decorators, signatures and defaults) of the files
C01 is anchored in — and, where listed, the statements of the anchored routines — are still the text the model was
written against and the correspondence was run on.  An edit there breaks this obligation; the check then searches for
a failing input and reports `no-failing-input-found` when there is none (a harmless edit). -/
namespace Pms.ModShape
open Pms.Gen.ModShape

/-- module top levels of PyMatterSim/reader/dump_reader.py, PyMatterSim/reader/lammps_reader_helper.py, PyMatterSim/reader/reader_utils.py -/
theorem C01_module_shape :
    shape_reader_dump_reader =
  ["from time import time",
   "from ..reader.gsd_reader_helper import read_gsd_dcd_wrapper, read_gsd_wrapper",
   "from ..reader.lammps_reader_helper import read_lammps_centertype_wrapper, read_lammps_vector_wrapper, read_lammps_wrapper",
   "from ..reader.reader_utils import DumpFileType, Snapshots",
   "from ..utils.logging import get_logger_handle",
   "logger = get_logger_handle(__name__)",
   "FILE_TYPE_MAP_READER = {DumpFileType.LAMMPS: read_lammps_wrapper, DumpFileType.LAMMPSCENTER: read_lammps_centertype_wrapper, DumpFileType.GSD: read_gsd_wrapper, DumpFileType.GSD_DCD: read_gsd_dcd_wrapper, DumpFileType.LAMMPSVECTOR: read_lammps_vector_wrapper}",
   "class DumpReader()",
   "  def __init__(self, filename: str, ndim: int, filetype: DumpFileType=DumpFileType.LAMMPS, moltypes: dict=None, columnsids: list=None) -> None",
   "  def read_onefile(self)"] ∧
    shape_reader_lammps_reader_helper =
  ["from typing import Any, Dict, List",
   "import numpy as np",
   "import numpy.typing as npt",
   "import pandas as pd",
   "from ..reader.reader_utils import SingleSnapshot, Snapshots",
   "from ..utils.logging import get_logger_handle",
   "logger = get_logger_handle(__name__)",
   "def read_lammps_wrapper(file_name: str, ndim: int) -> Snapshots",
   "def read_lammps_centertype_wrapper(file_name: str, ndim: int, moltypes: Dict[int, int]) -> Snapshots",
   "def read_lammps_vector_wrapper(file_name: str, ndim: int, columnsids: List[int]) -> Snapshots",
   "def read_lammps(f: Any, ndim: int) -> SingleSnapshot",
   "def read_lammps_centertype(f: Any, ndim: int, moltypes: Dict[int, int]) -> SingleSnapshot",
   "def read_lammps_vector(f: Any, ndim: int, columnsids: List[int]) -> SingleSnapshot",
   "def read_additions(dumpfile, ncol) -> npt.NDArray"] ∧
    shape_reader_reader_utils =
  ["from dataclasses import dataclass",
   "from enum import Enum",
   "from typing import List",
   "import numpy.typing as npt",
   "from ..utils.logging import get_logger_handle",
   "logger = get_logger_handle(__name__)",
   "class DumpFileType(Enum)",
   "  LAMMPS = 1",
   "  LAMMPSCENTER = 2",
   "  GSD = 3",
   "  GSD_DCD = 4",
   "  LAMMPSVECTOR = 5",
   "@dataclass(frozen=True) class SingleSnapshot()",
   "  timestep: int",
   "  nparticle: int",
   "  particle_type: npt.NDArray",
   "  positions: npt.NDArray",
   "  boxlength: npt.NDArray",
   "  boxbounds: npt.NDArray",
   "  realbounds: npt.NDArray",
   "  hmatrix: npt.NDArray",
   "@dataclass(frozen=True) class Snapshots()",
   "  nsnapshots: int",
   "  snapshots: List[SingleSnapshot]"] :=
  ⟨rfl, rfl, rfl⟩

/-- statements of read_lammps_wrapper, read_lammps, DumpReader.__init__, DumpReader.read_onefile, SingleSnapshot, Snapshots -/
theorem C01_body_shape :
    body_reader_lammps_reader_helper__read_lammps_wrapper =
  ["snapshots = []",
   "nsnapshots = 0",
   "with open(file_name, 'r', encoding='utf-8') as f:\n    while True:\n        snapshot = read_lammps(f, ndim)\n        if not snapshot:\n            break\n        snapshots.append(snapshot)\n        nsnapshots += 1",
   "return Snapshots(nsnapshots=nsnapshots, snapshots=snapshots)"] ∧
    body_reader_lammps_reader_helper__read_lammps =
  ["item = f.readline()",
   "if not item:\n    logger.info('Reach end of file.')\n    return None",
   "timestep = int(f.readline())",
   "item = f.readline()",
   "particle_number = int(f.readline())",
   "item = f.readline().split()",
   "if 'xy' not in item:\n    boxbounds = np.zeros((ndim, 2))\n    boxlength = np.zeros(ndim)\n    for i in range(ndim):\n        item = f.readline().split()\n        boxbounds[i, :] = item[:2]\n    boxlength = boxbounds[:, 1] - boxbounds[:, 0]\n    if ndim < 3:\n        for i in range(3 - ndim):\n            f.readline()\n    hmatrix = np.diag(boxlength)\n    item = f.readline().split()\n    names = item[2:]\n    positions = np.zeros((particle_number, ndim))\n    particle_type = np.zeros(particle_number, dtype=int)\n    if 'xu' in names or 'x' in names:\n        for i in range(particle_number):\n            item = f.readline().split()\n            atom_index = int(item[0]) - 1\n            particle_type[atom_index] = int(item[1])\n            positions[atom_index] = [float(j) for j in item[2:ndim + 2]]\n        if 'x' in names:\n            positions = np.where(positions < boxbounds[:, 0], positions + boxlength, positions)\n            positions = np.where(positions > boxbounds[:, 1], positions - boxlength, positions)\n    elif 'xs' in names:\n        for i in range(particle_number):\n            item = f.readline().split()\n            atom_index = int(item[0]) - 1\n            particle_type[atom_index] = int(item[1])\n            positions[atom_index] = [float(j) for j in item[2:ndim + 2]] * boxlength + boxbounds[:, 0]\n    snapshot = SingleSnapshot(timestep=timestep, nparticle=particle_number, particle_type=particle_type, positions=positions, boxlength=boxlength, boxbounds=boxbounds, realbounds=None, hmatrix=hmatrix)\nelse:\n    boxbounds = np.zeros((ndim, 3))\n    boxlength = np.zeros(ndim)\n    for i in range(ndim):\n        item = f.readline().split()\n        boxbounds[i, :] = item[:3]\n    if ndim < 3:\n        for i in range(3 - ndim):\n            item = f.readline().split()\n            boxbounds = np.vstack((boxbounds, np.array(item[:3], dtype=np.float64)))\n    xlo_bound, xhi_bound, xy = boxbounds[0, :]\n    ylo_bound, yhi_bound, xz = boxbounds[1, :]\n    zlo_bound, zhi_bound, yz = boxbounds[2, :]\n    xlo = xlo_bound - min((0.0, xy, xz, xy + xz))\n    xhi = xhi_bound - max((0.0, xy, xz, xy + xz))\n    ylo = ylo_bound - min((0.0, yz))\n    yhi = yhi_bound - max((0.0, yz))\n    zlo = zlo_bound\n    zhi = zhi_bound\n    h0 = xhi - xlo\n    h1 = yhi - ylo\n    h2 = zhi - zlo\n    h3 = yz\n    h4 = xz\n    h5 = xy\n    realbounds = np.array([xlo, xhi, ylo, yhi, zlo, zhi]).reshape((3, 2))\n    reallength = (realbounds[:, 1] - realbounds[:, 0])[:ndim]\n    boxbounds = boxbounds[:ndim, :2]\n    hmatrix = np.zeros((3, 3))\n    hmatrix[0] = [h0, 0, 0]\n    hmatrix[1] = [h5, h1, 0]\n    hmatrix[2] = [h4, h3, h2]\n    hmatrix = hmatrix[:ndim, :ndim]\n    item = f.readline().split()\n    names = item[2:]\n    positions = np.zeros((particle_number, ndim))\n    particle_type = np.zeros(particle_number, dtype=int)\n    if 'x' in names or 'xu' in names:\n        for i in range(particle_number):\n            item = f.readline().split()\n            atom_index = int(item[0]) - 1\n            particle_type[atom_index] = int(item[1])\n            positions[atom_index] = [float(j) for j in item[2:ndim + 2]]\n    elif 'xs' in names:\n        for i in range(particle_number):\n            item = f.readline().split()\n            atom_index = int(item[0]) - 1\n            particle_type[atom_index] = int(item[1])\n            if ndim == 3:\n                positions[atom_index, 0] = xlo + float(item[2]) * h0 + float(item[3]) * h5 + float(item[4]) * h4\n                positions[atom_index, 1] = ylo + float(item[3]) * h1 + float(item[4]) * h3\n                positions[atom_index, 2] = zlo + float(item[4]) * h2\n            elif ndim == 2:\n                positions[atom_index, 0] = xlo + float(item[2]) * h0 + float(item[3]) * h5\n                positions[atom_index, 1] = ylo + float(item[3]) * h1\n            else:\n                logger.info(f'cannot read for {ndim} dimensionality so far')\n                return None\n    snapshot = SingleSnapshot(timestep=timestep, nparticle=particle_number, particle_type=particle_type, positions=positions, boxlength=reallength, boxbounds=boxbounds, realbounds=realbounds[:ndim], hmatrix=hmatrix)",
   "return snapshot"] ∧
    body_reader_dump_reader__DumpReader___init__ =
  ["self.filename = filename",
   "self.ndim = ndim",
   "self.filetype = filetype",
   "self.moltypes = moltypes",
   "self.columnsids = columnsids",
   "self.snapshots: Snapshots = None"] ∧
    body_reader_dump_reader__DumpReader_read_onefile =
  ["reader_inputs = {'file_name': self.filename, 'ndim': self.ndim}",
   "if self.filetype == DumpFileType.LAMMPSCENTER:\n    reader_inputs['moltypes'] = self.moltypes",
   "if self.filetype == DumpFileType.LAMMPSVECTOR:\n    reader_inputs['columnsids'] = self.columnsids",
   "t0 = time()",
   "self.snapshots = FILE_TYPE_MAP_READER[self.filetype](**reader_inputs)"] ∧
    body_reader_reader_utils__SingleSnapshot =
  ["timestep: int",
   "nparticle: int",
   "particle_type: npt.NDArray",
   "positions: npt.NDArray",
   "boxlength: npt.NDArray",
   "boxbounds: npt.NDArray",
   "realbounds: npt.NDArray",
   "hmatrix: npt.NDArray"] ∧
    body_reader_reader_utils__Snapshots =
  ["nsnapshots: int",
   "snapshots: List[SingleSnapshot]"] :=
  ⟨rfl, rfl, rfl, rfl, rfl, rfl⟩

end Pms.ModShape
