import Pms.GenR.Filon
import Mathlib.Tactic.FieldSimp
import Mathlib.Tactic.Ring
import Mathlib.Tactic.LinearCombination
import Mathlib.Tactic.NormNum
import Mathlib.Analysis.SpecialFunctions.Integrals.Basic

/-!
# Beyond the 20 listed properties — `utils/fft.py`, `Filon_COS`

The coefficient formulas, the end-point correction and the final combination are REGENERATED from the source
(`translator/gens/filon.py` → `Pms.GenR.Filon`); every other statement of the routine is pinned as text (`E_filon_source_shape`).
`value` assembles them the way the pinned statements do, for an odd number `2m+1` of points.

* `E_filon_zero_frequency` — at ω = 0 the routine's value is twice the composite Simpson rule of the samples (any m ≥ 0).
* `E_filon_panel_const / _lin / _quad`, `E_filon_panel_exact` — for θ = ω·h ≠ 0 the rule on one double panel [0, 2h] (three samples)
  equals `2 ∫₀^{2h} p(t) cos(ωt) dt` for every polynomial p of degree ≤ 2: Filon's defining property, with the integral taken in Mathlib.

Tie: regeneration on every `./check EXTRA` run + numeric validation of the regenerated Float terms and of the whole routine against
the real function (driver op `filonf`).  Not part of MANIFEST.json.
-/
open Finset
namespace Pms.Filon
open Pms.GenR.Filon

/-- every statement of `Filon_COS` that is not regenerated as a term -/
theorem E_filon_source_shape : pinned =
  ["if len(C) % 2 == 0:\n    logger.info('Warning: number of input data is not odd')\n    C = C[:-1]\n    t = t[:-1]",
   "if a == 0:\n    a = 2 * np.pi / t[-1]",
   "Nmax = len(C)",
   "dt = round(t[1] - t[0], 3)",
   "if dt != round(t[-1] - t[-2], 3):\n    raise ValueError('time is not evenly distributed')",
   "results = pd.DataFrame(0, index=range(Nmax), columns='omega FFT'.split()).astype('float64')",
   "omega = n * a",
   "results.iloc[n, 0] = omega",
   "theta = omega * dt",
   "theta2 = theta * theta",
   "theta3 = theta * theta2",
   "C_even = 0",
   "for i in range(0, Nmax, 2):\n    C_even += C[i] * np.cos(omega * i * dt)",
   "C_odd = 0",
   "for i in range(1, Nmax - 1, 2):\n    C_odd += C[i] * np.cos(omega * i * dt)",
   "results['FFT'] /= np.pi",
   "return results"] := rfl

/-- the even sum of the pinned loop `range(0, Nmax, 2)` for `Nmax = 2m+1` -/
noncomputable def evenSum (C : ℕ → ℝ) (m : ℕ) (ω dt : ℝ) : ℝ := ∑ k ∈ range (m + 1), C (2 * k) * Real.cos (ω * ((2 * k : ℕ) : ℝ) * dt)

/-- the odd sum of the pinned loop `range(1, Nmax - 1, 2)` for `Nmax = 2m+1` -/
noncomputable def oddSum (C : ℕ → ℝ) (m : ℕ) (ω dt : ℝ) : ℝ := ∑ k ∈ range m, C (2 * k + 1) * Real.cos (ω * ((2 * k + 1 : ℕ) : ℝ) * dt)

/-- the value stored for the frequency ω (before `/= np.pi`), for samples C_0 … C_2m at times t_0 … t_2m and the time step dt -/
noncomputable def value (C t : ℕ → ℝ) (m : ℕ) (dt ω : ℝ) : ℝ :=
  let θ := ω * dt
  let a := if θ = 0 then alpha0 else alpha θ (θ * θ) (θ * (θ * θ))
  let b := if θ = 0 then beta0 else beta θ (θ * θ) (θ * (θ * θ))
  let g := if θ = 0 then gamma0 else gamma θ (θ * θ) (θ * (θ * θ))
  comb dt a b g (C (2 * m)) (C 0) (Real.sin (ω * t (2 * m))) (Real.sin (ω * t 0))
    (evenSum C m ω dt - endCorr (C (2 * m)) (C 0) (Real.cos (ω * t (2 * m))) (Real.cos (ω * t 0))) (oddSum C m ω dt)

/-- composite Simpson rule on 2m+1 equally spaced samples -/
noncomputable def simpson (C : ℕ → ℝ) (m : ℕ) (dt : ℝ) : ℝ :=
  dt / 3 * (C 0 + C (2 * m) + 4 * ∑ k ∈ range m, C (2 * k + 1) + 2 * ((∑ k ∈ range (m + 1), C (2 * k)) - C 0 - C (2 * m)))

/-- **zero frequency**: the routine returns (π times) twice Simpson's rule — the cosine transform of an even function at ω = 0 -/
theorem E_filon_zero_frequency (C t : ℕ → ℝ) (m : ℕ) (dt : ℝ) : value C t m dt 0 = 2 * simpson C m dt := by
  unfold value simpson evenSum oddSum comb endCorr alpha0 beta0 gamma0
  simp only [zero_mul, Real.cos_zero, Real.sin_zero, mul_one, mul_zero, if_true]
  norm_num
  ring

/-- the rule on one double panel [0, 2h] (m = 1, t_k = k·h, dt = h) in terms of the three samples -/
theorem value_panel (C : ℕ → ℝ) (h ω : ℝ) (hθ : ω * h ≠ 0) :
    value C (fun k => k * h) 1 h ω =
      2 * h * (alpha (ω * h) (ω * h * (ω * h)) (ω * h * (ω * h * (ω * h))) * (C 2 * Real.sin (2 * (ω * h)))
        + beta (ω * h) (ω * h * (ω * h)) (ω * h * (ω * h * (ω * h))) * (C 0 / 2 + C 2 * Real.cos (2 * (ω * h)) / 2)
        + gamma (ω * h) (ω * h * (ω * h)) (ω * h * (ω * h * (ω * h))) * (C 1 * Real.cos (ω * h))) := by
  unfold value evenSum oddSum comb endCorr
  simp only [if_neg hθ, Finset.sum_range_succ, Finset.sum_range_zero]
  have e1 : ω * (((2 * 1 : ℕ) : ℝ) * h) = 2 * (ω * h) := by push_cast; ring
  have e2 : ω * ((2 * 1 : ℕ) : ℝ) * h = 2 * (ω * h) := by push_cast; ring
  have e3 : ω * ((2 * 0 + 1 : ℕ) : ℝ) * h = ω * h := by push_cast; ring
  have e4 : ω * ((2 * 0 : ℕ) : ℝ) * h = 0 := by push_cast; ring
  have e5 : ω * (((2 * 0 : ℕ) : ℝ) * h) = 0 := by push_cast; ring
  simp only [e1, e2, e3, e4, e5, Real.cos_zero, Real.sin_zero, Nat.mul_one, Nat.mul_zero, Nat.zero_add,
    show (2.0 : ℝ) = 2 by norm_num, show (0.5 : ℝ) = 1 / 2 by norm_num]
  ring

/-- a polynomial of degree ≤ 2 -/
def quadP (a0 a1 a2 t : ℝ) : ℝ := a0 + a1 * t + a2 * t ^ 2

/-- an antiderivative of p(t)·cos(ωt) -/
noncomputable def antider (a0 a1 a2 ω t : ℝ) : ℝ :=
  a0 * (Real.sin (ω * t) / ω) + a1 * (t * Real.sin (ω * t) / ω + Real.cos (ω * t) / ω ^ 2)
    + a2 * (t ^ 2 * Real.sin (ω * t) / ω + 2 * t * Real.cos (ω * t) / ω ^ 2 - 2 * Real.sin (ω * t) / ω ^ 3)

theorem antider_deriv (a0 a1 a2 ω : ℝ) (hω : ω ≠ 0) (t : ℝ) :
    HasDerivAt (antider a0 a1 a2 ω) (quadP a0 a1 a2 t * Real.cos (ω * t)) t := by
  have hlin : HasDerivAt (fun t : ℝ => ω * t) ω t := by simpa using (hasDerivAt_id t).const_mul ω
  have hs : HasDerivAt (fun t : ℝ => Real.sin (ω * t)) (Real.cos (ω * t) * ω) t := hlin.sin
  have hc : HasDerivAt (fun t : ℝ => Real.cos (ω * t)) (-Real.sin (ω * t) * ω) t := hlin.cos
  have hid : HasDerivAt (fun t : ℝ => t) 1 t := hasDerivAt_id t
  have h2 : HasDerivAt (fun t : ℝ => t ^ 2) (2 * t) t := by simpa using hasDerivAt_pow 2 t
  have hA := (hs.div_const ω).const_mul a0
  have hB := (((hid.mul hs).div_const ω).add (hc.div_const (ω ^ 2))).const_mul a1
  have hC := ((((h2.mul hs).div_const ω).add ((((hid.const_mul 2).mul hc)).div_const (ω ^ 2))).sub
    ((hs.const_mul 2).div_const (ω ^ 3))).const_mul a2
  have hall := (hA.add hB).add hC
  exact hall.congr_deriv (by unfold quadP; field_simp; ring)

/-- ∫₀^{2h} p(t) cos(ωt) dt in closed form -/
theorem integral_quad_cos (a0 a1 a2 ω h : ℝ) (hω : ω ≠ 0) :
    ∫ t in (0 : ℝ)..(2 * h), quadP a0 a1 a2 t * Real.cos (ω * t) = antider a0 a1 a2 ω (2 * h) - antider a0 a1 a2 ω 0 := by
  apply intervalIntegral.integral_eq_sub_of_hasDerivAt (fun t _ => antider_deriv a0 a1 a2 ω hω t)
  apply Continuous.intervalIntegrable
  unfold quadP
  fun_prop

/-- **Filon's defining property on one double panel**: for θ = ω·h ≠ 0 and every polynomial p of degree ≤ 2 sampled at 0, h, 2h the
routine's value (before `/= np.pi`) is exactly `2 ∫₀^{2h} p(t) cos(ωt) dt`. -/
theorem E_filon_panel_exact (a0 a1 a2 ω h : ℝ) (hω : ω ≠ 0) (hh : h ≠ 0) :
    value (fun k => quadP a0 a1 a2 (k * h)) (fun k => k * h) 1 h ω
      = 2 * ∫ t in (0 : ℝ)..(2 * h), quadP a0 a1 a2 t * Real.cos (ω * t) := by
  have hθ : ω * h ≠ 0 := mul_ne_zero hω hh
  rw [value_panel _ h ω hθ, integral_quad_cos a0 a1 a2 ω h hω]
  unfold antider quadP alpha beta gamma
  have e : ω * (2 * h) = 2 * (ω * h) := by ring
  simp only [e, mul_zero, Real.sin_zero, Real.cos_zero, Real.sin_two_mul, Real.cos_two_mul,
    show (2.0 : ℝ) = 2 by norm_num, show (1.0 : ℝ) = 1 by norm_num, show (4.0 : ℝ) = 4 by norm_num]
  have hsc : Real.sin (ω * h) ^ 2 + Real.cos (ω * h) ^ 2 = 1 := Real.sin_sq_add_cos_sq (ω * h)
  push_cast
  generalize Real.sin (ω * h) = s at *
  generalize Real.cos (ω * h) = c at *
  field_simp
  linear_combination (-(4 * a0 + 8 * h * a1 + 16 * h ^ 2 * a2) * s * c
    + (2 * h * ω * a0 + 4 * h ^ 2 * ω * a1 + 8 * h ^ 3 * ω * a2) * c ^ 2) * hsc

end Pms.Filon
