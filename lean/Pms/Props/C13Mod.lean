import Pms.Gen.ModShape

/-! # C13 — pinned source text (property theorems only; statements written by tools/mkmodprops.py from the tree the
checks were validated on, hand-owned afterwards).  `Pms.Gen.ModShape` is REGENERATED from /repo on every run; these
theorems say that the module top levels (imports, module-level state, decorators, signatures and defaults) of the files
C13 is anchored in — and, where listed, the statements of the anchored routines — are still the text the model was
written against and the correspondence was run on.  An edit there breaks this obligation; the check then searches for
a failing input and reports `no-failing-input-found` when there is none (a harmless edit). -/
namespace Pms.ModShape
open Pms.Gen.ModShape

/-- module top levels of PyMatterSim/static/gr.py, PyMatterSim/static/sq.py -/
theorem C13_module_shape :
    shape_static_gr =
  ["from typing import Callable, Optional",
   "import numpy as np",
   "import numpy.typing as npt",
   "import pandas as pd",
   "from ..reader.reader_utils import SingleSnapshot, Snapshots",
   "from ..utils.funcs import nidealfac",
   "from ..utils.logging import get_logger_handle",
   "from ..utils.pbc import remove_pbc",
   "logger = get_logger_handle(__name__)",
   "def conditional_gr(snapshot: SingleSnapshot, condition: npt.NDArray, conditiontype: str=None, ppp: npt.NDArray=np.array([1, 1, 1]), rdelta: float=0.01) -> pd.DataFrame",
   "class gr()",
   "  def __init__(self, snapshots: Snapshots, ppp: npt.NDArray=np.array([1, 1, 1]), rdelta: float=0.01, outputfile: str=None) -> None",
   "  def getresults(self) -> Optional[Callable]",
   "  def unary(self) -> pd.DataFrame",
   "  def binary(self) -> pd.DataFrame",
   "  def ternary(self) -> pd.DataFrame",
   "  def quarternary(self) -> pd.DataFrame",
   "  def quinary(self) -> pd.DataFrame"] ∧
    shape_static_sq =
  ["from math import sqrt",
   "from typing import Callable, Optional, Tuple",
   "import numpy as np",
   "import numpy.typing as npt",
   "import pandas as pd",
   "from ..reader.reader_utils import SingleSnapshot, Snapshots",
   "from ..utils.logging import get_logger_handle",
   "from ..utils.wavevector import choosewavevector",
   "logger = get_logger_handle(__name__)",
   "def conditional_sq(snapshot: SingleSnapshot, qvector: npt.NDArray, condition: npt.NDArray) -> Tuple[pd.DataFrame, pd.DataFrame]",
   "class sq()",
   "  def __init__(self, snapshots: Snapshots, qrange: float=10.0, onlypositive: bool=False, qvector: npt.NDArray=None, saveqvectors: bool=False, outputfile: str=None) -> None",
   "  def getresults(self) -> Optional[Callable]",
   "  def unary(self) -> pd.DataFrame",
   "  def binary(self) -> pd.DataFrame",
   "  def ternary(self) -> pd.DataFrame",
   "  def quarternary(self) -> pd.DataFrame",
   "  def quinary(self) -> pd.DataFrame"] :=
  ⟨rfl, rfl⟩

end Pms.ModShape
