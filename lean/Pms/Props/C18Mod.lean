import Pms.Gen.ModShape

/-! # C18 — pinned source text (property theorems only; statements written by tools/mkmodprops.py from the tree the
checks were validated on, hand-owned afterwards).  `Pms.Gen.ModShape` is REGENERATED from /repo on every run; these
theorems say that the module top levels (imports, module-level state, decorators, signatures and defaults) of the files
C18 is anchored in — and, where listed, the statements of the anchored routines — are still the text the model was
written against and the correspondence was run on.  An edit there breaks this obligation; the check then searches for
a failing input and reports `no-failing-input-found` when there is none (a harmless edit). -/
namespace Pms.ModShape
open Pms.Gen.ModShape

/-- module top levels of PyMatterSim/dynamic/dynamics.py, PyMatterSim/neighbors/freud_neighbors.py, PyMatterSim/reader/reader_utils.py, PyMatterSim/static/boo.py, PyMatterSim/static/gr.py, PyMatterSim/static/shape.py, PyMatterSim/static/sq.py, PyMatterSim/static/vector.py, PyMatterSim/utils/coarse_graining.py -/
theorem C18_module_shape :
    shape_dynamic_dynamics =
  ["import numpy as np",
   "import numpy.typing as npt",
   "import pandas as pd",
   "from ..neighbors.read_neighbors import read_neighbors",
   "from ..reader.reader_utils import Snapshots",
   "from ..static.sq import conditional_sq",
   "from ..utils.funcs import alpha2factor",
   "from ..utils.logging import get_logger_handle",
   "from ..utils.pbc import remove_pbc",
   "from ..utils.wavevector import choosewavevector",
   "logger = get_logger_handle(__name__)",
   "def cage_relative(RII: npt.NDArray, cnlist: npt.NDArray) -> npt.NDArray",
   "class Dynamics()",
   "  def __init__(self, xu_snapshots: Snapshots=None, x_snapshots: Snapshots=None, dt: float=0.002, ppp: npt.NDArray=np.array([0, 0, 0]), diameters: dict[int, float]={1: 1.0, 2: 1.0}, a: float=0.3, cal_type: str='slow', neighborfile: str='', max_neighbors: int=30) -> None",
   "  def relaxation(self, qconst: float=2 * np.pi, condition: npt.NDArray=None, outputfile: str='') -> pd.DataFrame",
   "  def sq4(self, t: float, qrange: float=10.0, condition: npt.NDArray=None, outputfile: str='') -> pd.DataFrame",
   "class LogDynamics()",
   "  def __init__(self, xu_snapshots: Snapshots=None, x_snapshots: Snapshots=None, dt: float=0.002, ppp: npt.NDArray=np.array([0, 0, 0]), diameters: dict[int, float]={1: 1.0, 2: 1.0}, a: float=0.3, cal_type: str='slow', neighborfile: str='', max_neighbors: int=30) -> None",
   "  def relaxation(self, qconst: float=2 * np.pi, condition: npt.NDArray=None, outputfile: str='') -> pd.DataFrame"] ∧
    shape_neighbors_freud_neighbors =
  ["import freud",
   "import numpy as np",
   "import numpy.typing as npt",
   "from ..reader.reader_utils import Snapshots",
   "from ..utils.logging import get_logger_handle",
   "logger = get_logger_handle(__name__)",
   "def convert_configuration(snapshots: Snapshots)",
   "def cal_neighbors(snapshots: Snapshots, outputfile: str=None) -> None",
   "def VolumeMatrix(snapshots: Snapshots, ndim: int=2, nconfig: int=0, deltar: float=0.01, transform_matrix: bool=True, outputfile: str='') -> npt.NDArray"] ∧
    shape_reader_reader_utils =
  ["from dataclasses import dataclass",
   "from enum import Enum",
   "from typing import List",
   "import numpy.typing as npt",
   "from ..utils.logging import get_logger_handle",
   "logger = get_logger_handle(__name__)",
   "class DumpFileType(Enum)",
   "  LAMMPS = 1",
   "  LAMMPSCENTER = 2",
   "  GSD = 3",
   "  GSD_DCD = 4",
   "  LAMMPSVECTOR = 5",
   "@dataclass(frozen=True) class SingleSnapshot()",
   "  timestep: int",
   "  nparticle: int",
   "  particle_type: npt.NDArray",
   "  positions: npt.NDArray",
   "  boxlength: npt.NDArray",
   "  boxbounds: npt.NDArray",
   "  realbounds: npt.NDArray",
   "  hmatrix: npt.NDArray",
   "@dataclass(frozen=True) class Snapshots()",
   "  nsnapshots: int",
   "  snapshots: List[SingleSnapshot]"] ∧
    shape_static_boo =
  ["from typing import Tuple",
   "import numpy as np",
   "import numpy.typing as npt",
   "import pandas as pd",
   "from ..dynamic.time_corr import time_correlation",
   "from ..neighbors.read_neighbors import read_neighbors",
   "from ..reader.reader_utils import Snapshots",
   "from ..static.gr import conditional_gr",
   "from ..utils.coarse_graining import time_average as utils_time_average",
   "from ..utils.funcs import Wignerindex",
   "from ..utils.logging import get_logger_handle",
   "from ..utils.pbc import remove_pbc",
   "from ..utils.spherical_harmonics import sph_harm_l",
   "logger = get_logger_handle(__name__)",
   "class boo_3d()",
   "  def __init__(self, snapshots: Snapshots, l: int, neighborfile: str, weightsfile: str=None, ppp: npt.NDArray=np.array([1, 1, 1]), Nmax: int=30) -> None",
   "  def qlm_Qlm(self) -> Tuple[npt.NDArray, npt.NDArray]",
   "  def ql_Ql(self, coarse_graining: bool=False, outputfile: str=None) -> npt.NDArray",
   "  def sij_ql_Ql(self, coarse_graining: bool=False, c: float=0.7, outputqlQl: str=None, outputsij: str=None) -> list[npt.NDArray]",
   "  def w_W_cap(self, coarse_graining: bool=False, outputw: str=None, outputwcap: str=None) -> Tuple[npt.NDArray, npt.NDArray]",
   "  def spatial_corr(self, coarse_graining: bool=False, rdelta: float=0.01, outputfile: str='') -> pd.DataFrame",
   "  def time_corr(self, coarse_graining: bool=False, dt: float=0.002, outputfile: str='') -> pd.DataFrame",
   "class boo_2d()",
   "  def __init__(self, snapshots: Snapshots, l: int, neighborfile: str, weightsfile: str='', ppp: npt.NDArray=np.array([1, 1]), Nmax: int=10, output_phi: str='') -> None",
   "  def lthorder(self, output_phi: str='') -> npt.NDArray",
   "  def time_average(self, time_period: float, dt: float=0.002, average_complex: bool=True, outputfile: str='') -> Tuple[npt.NDArray, npt.NDArray]",
   "  def spatial_corr(self, rdelta: float=0.01, outputfile: str='') -> pd.DataFrame",
   "  def time_corr(self, dt: float=0.002, outputfile: str='') -> pd.DataFrame"] ∧
    shape_static_gr =
  ["from typing import Callable, Optional",
   "import numpy as np",
   "import numpy.typing as npt",
   "import pandas as pd",
   "from ..reader.reader_utils import SingleSnapshot, Snapshots",
   "from ..utils.funcs import nidealfac",
   "from ..utils.logging import get_logger_handle",
   "from ..utils.pbc import remove_pbc",
   "logger = get_logger_handle(__name__)",
   "def conditional_gr(snapshot: SingleSnapshot, condition: npt.NDArray, conditiontype: str=None, ppp: npt.NDArray=np.array([1, 1, 1]), rdelta: float=0.01) -> pd.DataFrame",
   "class gr()",
   "  def __init__(self, snapshots: Snapshots, ppp: npt.NDArray=np.array([1, 1, 1]), rdelta: float=0.01, outputfile: str=None) -> None",
   "  def getresults(self) -> Optional[Callable]",
   "  def unary(self) -> pd.DataFrame",
   "  def binary(self) -> pd.DataFrame",
   "  def ternary(self) -> pd.DataFrame",
   "  def quarternary(self) -> pd.DataFrame",
   "  def quinary(self) -> pd.DataFrame"] ∧
    shape_static_shape =
  ["from typing import Any, List",
   "import numpy as np",
   "import numpy.typing as npt",
   "from ..utils.logging import get_logger_handle",
   "logger = get_logger_handle(__name__)",
   "def gyration_tensor(pos_group: npt.NDArray) -> List[Any]"] ∧
    shape_static_sq =
  ["from math import sqrt",
   "from typing import Callable, Optional, Tuple",
   "import numpy as np",
   "import numpy.typing as npt",
   "import pandas as pd",
   "from ..reader.reader_utils import SingleSnapshot, Snapshots",
   "from ..utils.logging import get_logger_handle",
   "from ..utils.wavevector import choosewavevector",
   "logger = get_logger_handle(__name__)",
   "def conditional_sq(snapshot: SingleSnapshot, qvector: npt.NDArray, condition: npt.NDArray) -> Tuple[pd.DataFrame, pd.DataFrame]",
   "class sq()",
   "  def __init__(self, snapshots: Snapshots, qrange: float=10.0, onlypositive: bool=False, qvector: npt.NDArray=None, saveqvectors: bool=False, outputfile: str=None) -> None",
   "  def getresults(self) -> Optional[Callable]",
   "  def unary(self) -> pd.DataFrame",
   "  def binary(self) -> pd.DataFrame",
   "  def ternary(self) -> pd.DataFrame",
   "  def quarternary(self) -> pd.DataFrame",
   "  def quinary(self) -> pd.DataFrame"] ∧
    shape_static_vector =
  ["from typing import Optional, Tuple",
   "import numpy as np",
   "import numpy.typing as npt",
   "import pandas as pd",
   "from ..dynamic.time_corr import time_correlation",
   "from ..neighbors.read_neighbors import read_neighbors",
   "from ..reader.reader_utils import SingleSnapshot, Snapshots",
   "from ..static.sq import conditional_sq",
   "from ..utils.logging import get_logger_handle",
   "from ..utils.pbc import remove_pbc",
   "logger = get_logger_handle(__name__)",
   "def participation_ratio(vector: npt.NDArray) -> float",
   "def local_vector_alignment(vector: npt.NDArray, neighborfile: str) -> npt.NDArray",
   "def phase_quotient(vector: npt.NDArray, neighborfile: str) -> float",
   "def divergence_curl(snapshot: SingleSnapshot, vector: npt.NDArray, ppp: npt.NDArray, neighborfile: str) -> Tuple[npt.NDArray, Optional[npt.NDArray]]",
   "def kspace_decomposition()",
   "def vibrability(eigenfrequencies: npt.NDArray, eigenvectors: npt.NDArray, num_of_partices: int, outputfile: str='') -> npt.NDArray",
   "def vector_decomposition_sq(snapshot: SingleSnapshot, qvector: npt.NDArray, vector: npt.NDArray, outputfile: str='') -> Tuple[pd.DataFrame, pd.DataFrame]",
   "def vector_fft_corr(snapshots: Snapshots, qvector: npt.NDArray, vectors: npt.NDArray, dt: float=0.002, outputfile: str='') -> dict[str, pd.DataFrame]"] ∧
    shape_utils_coarse_graining =
  ["from typing import Tuple",
   "import numpy as np",
   "import numpy.typing as npt",
   "from ..neighbors.read_neighbors import read_neighbors",
   "from ..reader.reader_utils import Snapshots",
   "from ..utils.funcs import grid_gaussian",
   "from ..utils.logging import get_logger_handle",
   "from ..utils.pbc import remove_pbc",
   "logger = get_logger_handle(__name__)",
   "def time_average(snapshots: Snapshots, input_property: npt.NDArray, time_period: float=0.0, dt: float=0.002) -> Tuple[npt.NDArray, npt.NDArray]",
   "def spatial_average(input_property: npt.NDArray, neighborfile: str, Nmax: int=30, outputfile: str='') -> npt.NDArray",
   "def gaussian_blurring(snapshots: Snapshots, condition: npt.NDArray, ngrids: npt.NDArray, sigma: float=2.0, ppp: npt.NDArray=np.array([1, 1, 1]), gaussian_cut: float=6.0, outputfile: str='')",
   "def atomic_position_average()"] :=
  ⟨rfl, rfl, rfl, rfl, rfl, rfl, rfl, rfl, rfl⟩

/-- statements of SingleSnapshot, Snapshots -/
theorem C18_body_shape :
    body_reader_reader_utils__SingleSnapshot =
  ["timestep: int",
   "nparticle: int",
   "particle_type: npt.NDArray",
   "positions: npt.NDArray",
   "boxlength: npt.NDArray",
   "boxbounds: npt.NDArray",
   "realbounds: npt.NDArray",
   "hmatrix: npt.NDArray"] ∧
    body_reader_reader_utils__Snapshots =
  ["nsnapshots: int",
   "snapshots: List[SingleSnapshot]"] :=
  ⟨rfl, rfl⟩

end Pms.ModShape
