import Pms.Gen.ModShape

/-! # C20 — pinned source text (property theorems only; statements written by tools/mkmodprops.py from the tree the
checks were validated on, hand-owned afterwards).  `Pms.Gen.ModShape` is REGENERATED from /repo on every run; these
theorems say that the module top levels (imports, module-level state, decorators, signatures and defaults) of the files
C20 is anchored in — and, where listed, the statements of the anchored routines — are still the text the model was
written against and the correspondence was run on.  An edit there breaks this obligation; the check then searches for
a failing input and reports `no-failing-input-found` when there is none (a harmless edit). -/
namespace Pms.ModShape
open Pms.Gen.ModShape

/-- module top levels of PyMatterSim/neighbors/freud_neighbors.py, PyMatterSim/neighbors/read_neighbors.py -/
theorem C20_module_shape :
    shape_neighbors_freud_neighbors =
  ["import freud",
   "import numpy as np",
   "import numpy.typing as npt",
   "from ..reader.reader_utils import Snapshots",
   "from ..utils.logging import get_logger_handle",
   "logger = get_logger_handle(__name__)",
   "def convert_configuration(snapshots: Snapshots)",
   "def cal_neighbors(snapshots: Snapshots, outputfile: str=None) -> None",
   "def VolumeMatrix(snapshots: Snapshots, ndim: int=2, nconfig: int=0, deltar: float=0.01, transform_matrix: bool=True, outputfile: str='') -> npt.NDArray"] ∧
    shape_neighbors_read_neighbors =
  ["from typing import TextIO",
   "import numpy as np",
   "import numpy.typing as npt",
   "from ..utils.logging import get_logger_handle",
   "logger = get_logger_handle(__name__)",
   "def read_neighbors(f: TextIO, nparticle: int, Nmax: int=200) -> npt.NDArray"] :=
  ⟨rfl, rfl⟩

end Pms.ModShape
