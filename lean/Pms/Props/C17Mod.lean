import Pms.Gen.ModShape

/-! # C17 — pinned source text (property theorems only; statements written by tools/mkmodprops.py from the tree the
checks were validated on, hand-owned afterwards).  `Pms.Gen.ModShape` is REGENERATED from /repo on every run; these
theorems say that the module top levels (imports, module-level state, decorators, signatures and defaults) of the files
C17 is anchored in — and, where listed, the statements of the anchored routines — are still the text the model was
written against and the correspondence was run on.  An edit there breaks this obligation; the check then searches for
a failing input and reports `no-failing-input-found` when there is none (a harmless edit). -/
namespace Pms.ModShape
open Pms.Gen.ModShape

/-- module top levels of PyMatterSim/static/geometric.py, PyMatterSim/static/nematic.py, PyMatterSim/static/pairentropy.py, PyMatterSim/static/shape.py, PyMatterSim/utils/funcs.py -/
theorem C17_module_shape :
    shape_static_geometric =
  ["from itertools import combinations",
   "import numpy as np",
   "import numpy.typing as npt",
   "from ..neighbors.read_neighbors import read_neighbors",
   "from ..reader.reader_utils import Snapshots",
   "from ..utils.geometry import triangle_angle",
   "from ..utils.logging import get_logger_handle",
   "from ..utils.pbc import remove_pbc",
   "logger = get_logger_handle(__name__)",
   "def packing_capability_2d(snapshots: Snapshots, sigmas: npt.NDArray, neighborfile: str, ppp: npt.NDArray=np.array([1, 1]), outputfile: str='') -> npt.NDArray",
   "def q8_tetrahedral(snapshots: Snapshots, ppp: npt.NDArray=np.array([1, 1, 1]), outputfile: str='') -> npt.NDArray"] ∧
    shape_static_nematic =
  ["import numpy as np",
   "import numpy.typing as npt",
   "import pandas as pd",
   "from ..dynamic.time_corr import time_correlation",
   "from ..reader.reader_utils import Snapshots",
   "from ..static.gr import conditional_gr",
   "from ..utils.coarse_graining import spatial_average",
   "from ..utils.funcs import kronecker",
   "from ..utils.logging import get_logger_handle",
   "logger = get_logger_handle(__name__)",
   "class NematicOrder()",
   "  def __init__(self, snapshots_orientation: Snapshots, snapshots_position: Snapshots=None) -> None",
   "  def tensor(self, ndim: int=2, neighborfile: str='', Nmax: int=30, eigvals: bool=False, outputfile: str='') -> npt.NDArray",
   "  def spatial_corr(self, rdelta: float=0.01, ppp: npt.NDArray=np.array([1, 1]), outputfile: str='')",
   "  def time_corr(self, dt: float=0.002, outputfile: str='') -> pd.DataFrame"] ∧
    shape_static_pairentropy =
  ["import numpy as np",
   "import numpy.typing as npt",
   "import pandas as pd",
   "from ..dynamic.time_corr import time_correlation",
   "from ..reader.reader_utils import Snapshots",
   "from ..static.gr import conditional_gr",
   "from ..utils.funcs import grid_gaussian",
   "from ..utils.logging import get_logger_handle",
   "from ..utils.pbc import remove_pbc",
   "logger = get_logger_handle(__name__)",
   "_trapezoid = getattr(np, 'trapezoid', None) or np.trapz",
   "def s2_integral(gr: npt.NDArray, gr_bins: npt.NDArray, ndim: int=3) -> float",
   "class S2()",
   "  def __init__(self, snapshots: Snapshots, sigmas: npt.NDArray, ppp: npt.NDArray=np.array([1, 1, 1]), rdelta: float=0.02, ndelta: int=500) -> None",
   "  def particle_s2(self, savegr: bool=False, outputfile: str='') -> npt.NDArray",
   "  def spatial_corr(self, mean_norm: bool=False, outputfile: str='') -> pd.DataFrame",
   "  def time_corr(self, dt: float=0.002, outputfile: str='') -> pd.DataFrame"] ∧
    shape_static_shape =
  ["from typing import Any, List",
   "import numpy as np",
   "import numpy.typing as npt",
   "from ..utils.logging import get_logger_handle",
   "logger = get_logger_handle(__name__)",
   "def gyration_tensor(pos_group: npt.NDArray) -> List[Any]"] ∧
    shape_utils_funcs =
  ["import numpy as np",
   "import numpy.typing as npt",
   "from sympy.physics.wigner import wigner_3j",
   "from ..utils.logging import get_logger_handle",
   "logger = get_logger_handle(__name__)",
   "def kronecker(i: int, j: int) -> int",
   "def nidealfac(ndim: int=3) -> float",
   "def areafac(ndim: int=3) -> float",
   "def alpha2factor(ndim: int=3) -> float",
   "def moment_of_inertia(positions: npt.NDArray, m: int=1, matrix: bool=False) -> npt.NDArray",
   "def Wignerindex(l: int) -> npt.NDArray",
   "def grid_gaussian(distances: npt.NDArray, sigma: float=1) -> npt.NDArray",
   "def Legendre_polynomials(x, ndim)"] :=
  ⟨rfl, rfl, rfl, rfl, rfl⟩

end Pms.ModShape
