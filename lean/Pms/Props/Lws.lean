import Pms.Model.Lws
import Pms.Props.Extra

/-!
# Beyond the 20 listed properties — `LineWithinSquare` (`utils/geometry.py`)
The if / elif chain is REGENERATED (`Pms.Gen.Lws`); the statements before it are pinned as text.
-/
namespace Pms.Lws
open Pms.GenR.Extra Pms.Extra

/-- the regenerated chain is the documented one (edge k between the directions to corner k and corner k+1, the last edge otherwise),
and the statements that compute `R1`, `theta` and `angles` are as modelled -/
theorem E_lws_source :
    Pms.Gen.Lws.branches = [(0, 1, 0, 1), (1, 2, 1, 2), (2, 3, 2, 3)] ∧ Pms.Gen.Lws.elseEdge = (3, 0) ∧
    Pms.Gen.Lws.pre = ["R1 = R0 - vector", "theta = np.arctan2(-vector[1], -vector[0])", "points = np.zeros((4, 2))",
      "points[0, :] = P1", "points[1, :] = P2", "points[2, :] = P3", "points[3, :] = P4", "RtoP = points - R0",
      "angles = np.arctan2(RtoP[:, 1], RtoP[:, 0])"] := by decide

/-- **the chosen edge is one of the four edges, consecutive corners** — for every direction and every set of angles -/
theorem E_lws_edge {α : Type} [LT α] [LE α] [DecidableLT α] [DecidableLE α] (theta : α) (ang : ℕ → α) :
    chooseEdge Pms.Gen.Lws.branches Pms.Gen.Lws.elseEdge theta ang ∈ [((0 : ℕ), (1 : ℕ)), (1, 2), (2, 3), (3, 0)] := by
  rw [E_lws_source.1, E_lws_source.2.1]
  unfold chooseEdge
  simp only [List.find?]
  split <;> rename_i h
  · split at h
    · injection h with h; subst h; simp
    · split at h
      · injection h with h; subst h; simp
      · split at h
        · injection h with h; subst h; simp
        · simp at h
  · simp

/-- **the returned point lies on the chosen edge's line and on the line through R0 and R1 = R0 − vector**, whichever edge the chain
chooses (non-parallel lines) — `lines_intersection`'s theorem at the chosen corners -/
theorem E_lws_point {K : Type} [Field K] (x1 y1 x2 y2 rx ry vx vy : K)
    (hD : li_D x1 y1 x2 y2 rx ry (rx - vx) (ry - vy) ≠ 0) :
    cross x1 y1 x2 y2 (li_PxNum x1 y1 x2 y2 rx ry (rx - vx) (ry - vy) / li_D x1 y1 x2 y2 rx ry (rx - vx) (ry - vy))
        (li_PyNum x1 y1 x2 y2 rx ry (rx - vx) (ry - vy) / li_D x1 y1 x2 y2 rx ry (rx - vx) (ry - vy)) = 0 ∧
    cross rx ry (rx - vx) (ry - vy) (li_PxNum x1 y1 x2 y2 rx ry (rx - vx) (ry - vy) / li_D x1 y1 x2 y2 rx ry (rx - vx) (ry - vy))
        (li_PyNum x1 y1 x2 y2 rx ry (rx - vx) (ry - vy) / li_D x1 y1 x2 y2 rx ry (rx - vx) (ry - vy)) = 0 :=
  E_lines_intersection x1 y1 x2 y2 rx ry (rx - vx) (ry - vy) hD

end Pms.Lws
