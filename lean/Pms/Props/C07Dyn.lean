import Pms.Props.C07
import Pms.Props.C07Rot
import Pms.Model.Dyn
import Pms.Lemmas.Dyn
import Pms.Model.Boo
import Pms.Model.Boo2d

/-!
# C07 — relaxation functions under periodic images and relabelling; bond order under relabelling; non-vacuity

`Dyn.Spec.row` / `Dyn.Spec.logRow` are C06's definition of the rows (t, F_s, Q, χ4, MSD, α2).  (Translation invariance is
`C07_translation_dyn` in `Pms/Props/C07Pair.lean`.)
-/
open Finset
namespace Pms.Sym
open Pms Pms.Pbc

variable {K : Type} [Field K] [LinearOrder K] [IsStrictOrderedRing K]

/-- the wrapped-coordinate trajectory with particle `i` of frame `f` moved by `m f i` whole cell vectors -/
def imageDyn (X : Dyn.Traj K) (m : ℕ → ℕ → ℕ → ℤ) : Dyn.Traj K :=
  { X with pos := fun f => latticeShift X.d (X.H f) X.ppp (m f) (X.pos f) }

/-- **Image, relaxation functions.**  For wrapped coordinates (`self.PBC`, constant cell) replacing any particle of any
frame by a periodic image leaves every minimum-image displacement between frames — hence every row of C06's `Spec`, linear
and log sampling — unchanged (no displacement exactly at a half-cell tie). -/
theorem C07_image_dyn (rint : K → ℤ) (hr : IsRintHE rint) (cos : K → K) (X : Dyn.Traj K) (m : ℕ → ℕ → ℕ → ℤ)
    (hpbc : X.pbc = true) (hH : ∀ f, X.H f = X.H 0) (hHi : ∀ f, X.Hinv f = X.Hinv 0)
    (hinv : IsInv X.d (X.H 0) (X.Hinv 0)) (hp : ∀ a < X.d, X.ppp a = 0 ∨ X.ppp a = 1)
    (hnt : ∀ f g i, ∀ a < X.d, NoTie (frac X.d (X.Hinv 0) (fun k => X.pos g i k - X.pos f i k) a))
    (M interval : K) (k : ℕ) :
    Dyn.Spec.row rint cos (imageDyn X m) M interval k = Dyn.Spec.row rint cos X M interval k ∧
    Dyn.Spec.logRow rint cos (imageDyn X m) k = Dyn.Spec.logRow rint cos X k := by
  have h1 : ∀ p, Dyn.pbcDisp rint (imageDyn X m) p = Dyn.pbcDisp rint X p := by
    intro p
    funext i
    have e : (fun k => latticeShift X.d (X.H 0) X.ppp (m p.fin) (X.pos p.fin) i k
          - latticeShift X.d (X.H 0) X.ppp (m p.init) (X.pos p.init) i k)
        = fun k => (X.pos p.fin i k - X.pos p.init i k)
            + vecMul X.d (fun a => ((m p.fin i a - m p.init i a : ℤ) : K) * X.ppp a) (X.H 0) k := by
      funext k
      rw [← latticeVec_sub]
      simp only [latticeShift]; ring
    have key : removePbc X.d rint (X.H 0) (X.Hinv 0) X.ppp
          (fun k => latticeShift X.d (X.H 0) X.ppp (m p.fin) (X.pos p.fin) i k
            - latticeShift X.d (X.H 0) X.ppp (m p.init) (X.pos p.init) i k)
        = removePbc X.d rint (X.H 0) (X.Hinv 0) X.ppp (fun k => X.pos p.fin i k - X.pos p.init i k) := by
      rw [e]
      funext k
      exact C02_shift_invariant X.d rint hr (X.H 0) (X.Hinv 0) X.ppp _ (fun a => m p.fin i a - m p.init i a) hinv hp
        (hnt p.init p.fin i) k
    show (if (imageDyn X m).pbc = true then _ else _) = (if X.pbc = true then _ else _)
    have hpbc' : (imageDyn X m).pbc = true := hpbc
    rw [if_pos hpbc', if_pos hpbc]
    show removePbc X.d rint (X.H p.hm) (X.Hinv p.hm) X.ppp
        (fun k => latticeShift X.d (X.H p.fin) X.ppp (m p.fin) (X.pos p.fin) i k
          - latticeShift X.d (X.H p.init) X.ppp (m p.init) (X.pos p.init) i k) = _
    rw [hH p.hm, hHi p.hm, hH p.fin, hH p.init]
    exact key
  have hd : ∀ p, Dyn.dispTab rint (imageDyn X m) p = Dyn.dispTab rint X p := by
    intro p
    unfold Dyn.dispTab
    rw [h1 p]
    rfl
  have e1 : Dyn.Spec.isf rint cos (imageDyn X m) = Dyn.Spec.isf rint cos X := by
    funext o e; unfold Dyn.Spec.isf; rw [hd]; rfl
  have e2 : Dyn.Spec.q rint (imageDyn X m) = Dyn.Spec.q rint X := by
    funext o e; unfold Dyn.Spec.q; rw [hd]; rfl
  have e3 : Dyn.Spec.r2 rint (imageDyn X m) = Dyn.Spec.r2 rint X := by
    funext o e; unfold Dyn.Spec.r2; rw [hd]; rfl
  have e4 : Dyn.Spec.r4 rint (imageDyn X m) = Dyn.Spec.r4 rint X := by
    funext o e; unfold Dyn.Spec.r4; rw [hd]; rfl
  constructor
  · unfold Dyn.Spec.row
    rw [e1, e2, e3, e4]
    rfl
  · unfold Dyn.Spec.logRow
    rw [e1, e2, e3, e4]
    rfl

/-- the trajectory with particle ids permuted in every frame (no neighbour file: `cage = false`) -/
def relabelDyn (X : Dyn.Traj K) (σ : ℕ → ℕ) : Dyn.Traj K :=
  { X with pos := fun f => relabel σ (X.pos f), diam := relabel σ X.diam, sel := fun f => relabel σ (X.sel f) }

/-- **Relabelling, relaxation functions.**  Every row is built from means over the (selected) particles, so a permutation
of the particle ids (positions, diameters and selection permuted consistently; plain displacements, `cage = false`)
leaves every two-frame quantity F_s, Q, ⟨Δr²⟩, ⟨Δr⁴⟩ of C06's `Spec` unchanged, for every pair of frames. -/
theorem C07_relabel_dyn (rint : K → ℤ) (cos : K → K) (X : Dyn.Traj K) (σ : Equiv.Perm ℕ) (hσ : PermBelow X.N σ)
    (hc : X.cage = false) (o e : ℕ) :
    Dyn.Spec.isf rint cos (relabelDyn X σ) o e = Dyn.Spec.isf rint cos X o e ∧
    Dyn.Spec.q rint (relabelDyn X σ) o e = Dyn.Spec.q rint X o e ∧
    Dyn.Spec.r2 rint (relabelDyn X σ) o e = Dyn.Spec.r2 rint X o e ∧
    Dyn.Spec.r4 rint (relabelDyn X σ) o e = Dyn.Spec.r4 rint X o e := by
  have hget : ∀ (n mm : ℕ) (f : ℕ → ℕ → K), (Dyn.Tab2.tab n mm f).get = f := fun n mm f => Dyn.Tab2.get_tab' n mm f
  have hc' : (relabelDyn X σ).cage = false := hc
  have hD : ∀ p i, (Dyn.dispTab rint (relabelDyn X σ) p).get i = (Dyn.dispTab rint X p).get (σ i) := by
    intro p i
    unfold Dyn.dispTab
    simp only [hc, hc', Bool.false_eq_true, if_false, hget]
    rfl
  have hcnt : ∀ f, Dyn.selCount (relabelDyn X σ) f = Dyn.selCount X f := by
    intro f
    simp only [Dyn.selCount, sumRange_eq]
    exact sum_perm X.N σ hσ (fun i => if X.sel f i = true then (1 : K) else 0)
  have hmean : ∀ f (g g' : ℕ → K), (∀ i, g' i = g (σ i)) → Dyn.selMean (relabelDyn X σ) f g' = Dyn.selMean X f g := by
    intro f g g' hg
    simp only [Dyn.selMean, hcnt, sumRange_eq]
    congr 1
    rw [← sum_perm X.N σ hσ (fun i => if X.sel f i = true then g i else 0)]
    exact Finset.sum_congr rfl fun i _ => by rw [hg i]; rfl
  have hd2 : ∀ p i, Dyn.dist2 (relabelDyn X σ).d (Dyn.dispTab rint (relabelDyn X σ) p).get i
      = Dyn.dist2 X.d (Dyn.dispTab rint X p).get (σ i) := by
    intro p i
    show Dyn.dist2 X.d _ i = _
    simp only [Dyn.dist2, hD]
  refine ⟨?_, ?_, ?_, ?_⟩
  · simp only [Dyn.Spec.isf, Dyn.pairIsf, hcnt, sumRange_eq]
    congr 1
    rw [← sum_perm X.N σ hσ (fun i => if X.sel o i = true then
      ∑ k ∈ range X.d, cos ((Dyn.dispTab rint X (Dyn.Fr.spec o e)).get i k * (X.qconst / X.diam i)) else 0)]
    refine Finset.sum_congr rfl fun i _ => ?_
    simp only [hD]
    rfl
  · unfold Dyn.Spec.q Dyn.pairQ
    exact hmean o _ _ (fun i => by rw [hd2]; rfl)
  · unfold Dyn.Spec.r2 Dyn.pairR2
    exact hmean o _ _ (fun i => by rw [hd2])
  · unfold Dyn.Spec.r4 Dyn.pairR4
    exact hmean o _ _ (fun i => by rw [hd2])

/-! ## bond-orientational order: per-particle outputs permute under relabelling -/

/-- **Relabelling, q_lm / Q_lm (3-D).**  With the neighbour table renamed consistently (row `i` lists the new names
`σ⁻¹(nb(σ i, j))` of the neighbours of the old particle `σ i`), the local `q_lm` and the coarse-grained `Q_lm` of row `i` are
those of the old particle `σ i` — so q_l, Q_l, w_l, ŵ_l, which are functions of these vectors, permute with the ids. -/
theorem C07_relabel_boo {β : Type} [Add β] [Div β] [OfNat β 0] [NatCast β]
    (cn : ℕ → ℕ) (nb : ℕ → ℕ → ℕ) (Yv : ℕ → ℕ → ℕ → β) (σ : Equiv.Perm ℕ) (i k : ℕ) :
    Boo.qlmImpl (relabel σ cn) (relabel σ Yv) i k = Boo.qlmImpl cn Yv (σ i) k ∧
    Boo.QlmImpl (relabel σ cn) (fun i j => σ.symm (nb (σ i) j)) (Boo.qlmImpl (relabel σ cn) (relabel σ Yv)) i k
      = Boo.QlmImpl cn nb (Boo.qlmImpl cn Yv) (σ i) k := by
  refine ⟨rfl, ?_⟩
  simp only [Boo.QlmImpl, Boo.qlmImpl, relabel, Equiv.apply_symm_apply]

/-- **Relabelling, ψ_l (2-D).**  Same statement for `boo_2d.lthorder`: positions and neighbour table renamed consistently,
the value of row `i` is the value of the old particle `σ i`. -/
theorem C07_relabel_psi2d {α β : Type} [Add α] [Sub α] [Mul α] [Div α] [OfNat α 0] [IntCast α]
    [Add β] [Mul β] [Div β] [OfNat β 0] [OfNat β 1] [NatCast β]
    (E : α → α → β) (rint : α → ℤ) (H Hinv : ℕ → ℕ → α) (ppp : ℕ → α) (pos : ℕ → ℕ → α) (nl : ℕ → ℕ → ℕ)
    (σ : Equiv.Perm ℕ) (i : ℕ) :
    Boo2d.phi E rint H Hinv ppp (relabel σ pos)
        (fun i c => match c with | 0 => nl (σ i) 0 | m + 1 => σ.symm (nl (σ i) (m + 1))) i
      = Boo2d.phi E rint H Hinv ppp pos nl (σ i) := by
  simp only [Boo2d.phi, Boo2d.psi, Boo2d.bonds, relabel, Equiv.apply_symm_apply]

/-! ## the hypotheses are satisfiable (non-vacuity) -/

/-- an exactly orthogonal rational rotation (the harness uses such matrices): `RᵀR = 1` holds for (3/5, −4/5; 4/5, 3/5) -/
example : IsOrtho (K := ℚ) 2 (fun k a => if k = 0 ∧ a = 0 then 3/5 else if k = 0 ∧ a = 1 then -4/5
    else if k = 1 ∧ a = 0 then 4/5 else if k = 1 ∧ a = 1 then 3/5 else 0) := by
  intro a ha b hb
  interval_cases a <;> interval_cases b <;> norm_num [Finset.sum_range_succ]

/-- a non-trivial permutation of `range 3` -/
example : PermBelow 3 (Equiv.swap 0 2) := by
  intro i
  by_cases h0 : i = 0
  · subst h0; simp
  · by_cases h2 : i = 2
    · subst h2; simp
    · rw [Equiv.swap_apply_of_ne_of_ne h0 h2]

/-- the addition-theorem hypothesis of `C07_rot_ql_partial` is satisfiable: for l = 1 the three real functions
`Y u k = u_k` (the l = 1 harmonics up to normalisation and a unitary change of basis) have `Σ_k Y u k conj(Y v k) = u·v` -/
example : ∀ u v : ℕ → ℝ, ∑ k ∈ range (2 * 1 + 1), ((u k : ℝ) : ℂ) * (starRingEnd ℂ) ((v k : ℝ) : ℂ)
    = (fun x : ℝ => (x : ℂ)) (dot 3 u v) := by
  intro u v
  simp only [dot, sumRange_eq, Complex.conj_ofReal]
  push_cast
  rfl

end Pms.Sym
