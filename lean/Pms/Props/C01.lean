import Pms.Lemmas.Lammps
import Mathlib.Order.Lattice
import Mathlib.Tactic.Ring
import Mathlib.Tactic.Linarith

/-!
# C01 — LAMMPS dump reading (`lammps_reader_helper.py::read_lammps{,_wrapper}`)

Property theorems only.  `K` is any ordered field (ℝ — the intended meaning of the float code — and ℚ, the driver's
instance).  `pr : K → Tok K` is ANY rendering of numbers as tokens that `float()` reads back (`toFloat (pr x) = x`):
plain, scientific or integer-looking decimal strings.  `Spec.emit pr nd fs` writes the trajectory `fs` as a dump file
under the LAMMPS conventions; `Impl.readAll` is the model of the reader (tied to the source by the correspondence).
-/
set_option linter.unusedSectionVars false
set_option linter.unusedSimpArgs false
set_option linter.unnecessarySeqFocus false
namespace Pms.Lammps
open Impl

variable {K : Type} [Field K] [LinearOrder K] [IsStrictOrderedRing K]

/-- **Round trip.**  Reading the dump file of ANY trajectory — any number of frames, each frame orthogonal or triclinic
(tilts of either sign), style x / xs / xu, atom lines in any order (ids a permutation of 1..N), any extra trailing columns,
any origin — in 2-D or 3-D yields exactly one snapshot per frame, in file order, each equal to `Spec.expected`:
timestep, particle count, per-id types, per-id Cartesian positions, box lengths, bounds, real bounds and cell matrix. -/
theorem C01_roundtrip (pr : K → Tok K) (hpr : ∀ x, toFloat (pr x) = .ok x) (nd : ℕ) (hnd : nd = 2 ∨ nd = 3)
    (fs : List (FrameSpec K)) (hwf : ∀ f ∈ fs, Spec.WF f) :
    Impl.readAll nd (Spec.emit pr nd fs) = .ok (fs.map (Spec.expected nd)) :=
  readAllFuel_emit pr hpr nd hnd fs hwf _ (Nat.lt_succ_self _)

/-- one snapshot per frame (`nsnapshots`) -/
theorem C01_frame_count (pr : K → Tok K) (hpr : ∀ x, toFloat (pr x) = .ok x) (nd : ℕ) (hnd : nd = 2 ∨ nd = 3)
    (fs : List (FrameSpec K)) (hwf : ∀ f ∈ fs, Spec.WF f) :
    (Impl.readAll nd (Spec.emit pr nd fs)).toOption.map List.length = some fs.length := by
  rw [C01_roundtrip pr hpr nd hnd fs hwf]
  simp [Except.toOption]

/-- a single `read_lammps` call consumes exactly its frame: whatever follows is left for the next call -/
theorem C01_frame_consumed (pr : K → Tok K) (hpr : ∀ x, toFloat (pr x) = .ok x) (nd : ℕ) (hnd : nd = 2 ∨ nd = 3)
    (f : FrameSpec K) (hwf : Spec.WF f) (rest : Lines K) :
    Impl.readFrame nd (Spec.emitFrame pr nd f ++ rest) = .ok (some (Spec.expected nd f, rest)) :=
  readFrame_emitFrame pr hpr f hwf rest nd hnd

/-- the `while True` loop of the wrapper is modelled with fuel `length + 1`; this is adequate for EVERY file, well-formed
or not: each successful `readFrame` consumes at least one line, so more iterations never change the result -/
theorem C01_fuel_adequate (nd : ℕ) (ls : Lines K) (k : ℕ) :
    Impl.readAllFuel nd (ls.length + 1 + k) ls = Impl.readAll nd ls :=
  readAllFuel_irrelevant nd _ _ ls (by omega) (by omega)

/-- in a well-formed frame every id 1..N is carried by exactly one atom line, wherever it stands in the file:
`Spec.expected` never falls back to its default, and the line it picks is the only one with that id -/
theorem C01_per_id (f : FrameSpec K) (hwf : Spec.WF f) (k : ℕ) (hk : k < f.atoms.length) :
    ∃ a ∈ f.atoms, a.id = (k : ℤ) + 1 ∧ Spec.byId f.atoms k = some a ∧ ∀ b ∈ f.atoms, b.id = (k : ℤ) + 1 → b = a := by
  obtain ⟨a, ha, hid, hby⟩ := byId_some f hwf k hk
  refine ⟨a, ha, hid, hby, ?_⟩
  intro b hb hbid
  have hnd := wf_nodup f hwf
  exact id_inj_of_nodup hnd hb ha (by rw [hbid, hid])

/-- the snapshot does not depend on the order of the atom lines -/
theorem C01_order_irrelevant (nd : ℕ) (f g : FrameSpec K) (hwf : Spec.WF f)
    (hperm : g.atoms.Perm f.atoms)
    (hsame : g = { f with atoms := g.atoms }) :
    Spec.expected nd g = Spec.expected nd f := by
  have hlen : g.atoms.length = f.atoms.length := hperm.length_eq
  have hwg : Spec.WF g := by
    rw [hsame]
    refine ⟨?_, hwf.flags, hwf.names⟩
    show (g.atoms.map (·.id)).Perm _
    rw [hlen]
    exact (hperm.map _).trans hwf.ids
  have hby : ∀ k, k < f.atoms.length → Spec.byId g.atoms k = Spec.byId f.atoms k := by
    intro k hk
    obtain ⟨a, ha, hid, hbf, huniq⟩ := C01_per_id f hwf k hk
    obtain ⟨b, hb, hidb, hbg, _⟩ := C01_per_id g hwg k (by omega)
    rw [hbf, hbg, huniq b (hperm.mem_iff.mp hb) hidb]
  rw [hsame]
  unfold Spec.expected
  simp only [hlen]
  congr 1
  · apply List.map_congr_left
    intro k hk
    simp only [Spec.atId, hby k (List.mem_range.mp hk)]
  · apply List.map_congr_left
    intro k hk
    simp only [Spec.atId, hby k (List.mem_range.mp hk)]
    rfl

/-- **Wrapped coordinates of orthogonal cells**: with an excursion of at most one box length the result lies in the
box, differs from the file value by −L, 0 or +L, and a coordinate already inside is returned unchanged -/
theorem C01_wrap (lo hi x : K) (hx : lo - (hi - lo) ≤ x ∧ x ≤ hi + (hi - lo)) :
    (lo ≤ Spec.wrap lo hi x ∧ Spec.wrap lo hi x ≤ hi) ∧
    (Spec.wrap lo hi x = x + (hi - lo) ∨ Spec.wrap lo hi x = x ∨ Spec.wrap lo hi x = x - (hi - lo)) ∧
    (lo ≤ x ∧ x ≤ hi → Spec.wrap lo hi x = x) := by
  unfold Spec.wrap
  by_cases h1 : x < lo
  · rw [if_pos h1]
    refine ⟨⟨by linarith, by linarith⟩, Or.inl rfl, fun h => absurd h.1 (not_le.mpr h1)⟩
  · by_cases h2 : hi < x
    · rw [if_neg h1, if_pos h2]
      refine ⟨⟨by linarith, by linarith⟩, Or.inr (Or.inr rfl), fun h => absurd h.2 (not_le.mpr h2)⟩
    · rw [if_neg h1, if_neg h2]
      exact ⟨⟨not_lt.mp h1, not_lt.mp h2⟩, Or.inr (Or.inl rfl), fun _ => rfl⟩

example : ((2:ℚ) - (5 - 2) ≤ 7 ∧ (7:ℚ) ≤ 5 + (5 - 2)) ∧ Spec.wrap (2:ℚ) 5 7 = 4 := by decide +kernel

/-- the reader's two `np.where` passes are this wrap, for every input (no excursion bound needed) -/
theorem C01_wrap_impl (lo hi x : K) :
    wrapHi hi (hi - lo) (wrapLo lo (hi - lo) x) = Spec.wrap lo hi x := wrap_eq lo hi x

/-- Python's `min`/`max` on tuples are the order-theoretic min/max, so `Spec.bndLo/bndHi` are the LAMMPS formulas
`xlo_bound = xlo + MIN(0,xy,xz,xy+xz)`, `xhi_bound = xhi + MAX(0,xy,xz,xy+xz)`, `ylo_bound = ylo + MIN(0,yz)`, … -/
theorem C01_bounds_convention (f : FrameSpec K) (ht : f.tric = true) :
    Spec.bndLo f 0 = f.lo 0 + min (min (min 0 f.xy) f.xz) (f.xy + f.xz) ∧
    Spec.bndHi f 0 = f.hi 0 + max (max (max 0 f.xy) f.xz) (f.xy + f.xz) ∧
    Spec.bndLo f 1 = f.lo 1 + min 0 f.yz ∧ Spec.bndHi f 1 = f.hi 1 + max 0 f.yz ∧
    Spec.bndLo f 2 = f.lo 2 ∧ Spec.bndHi f 2 = f.hi 2 := by
  have hmin : ∀ a b : K, pmin a b = min a b := by
    intro a b; unfold pmin
    by_cases h : b < a
    · rw [if_pos h, min_eq_right h.le]
    · rw [if_neg h, min_eq_left (not_lt.mp h)]
  have hmax : ∀ a b : K, pmax a b = max a b := by
    intro a b; unfold pmax
    by_cases h : a < b
    · rw [if_pos h, max_eq_right h.le]
    · rw [if_neg h, max_eq_left (not_lt.mp h)]
  simp [Spec.bndLo, Spec.bndHi, ht, min4, max4, hmin, hmax]

/-- bound → real conversion of the reader inverts the real → bound conversion of the writer, for all tilt signs -/
theorem C01_bounds_inverse (f : FrameSpec K) :
    Spec.bndLo f 0 - min4 0 f.xy f.xz (f.xy + f.xz) = (if f.tric then f.lo 0 else f.lo 0 - min4 0 f.xy f.xz (f.xy + f.xz)) ∧
    (f.tric = true →
      Spec.bndLo f 0 - min4 0 f.xy f.xz (f.xy + f.xz) = f.lo 0 ∧
      Spec.bndHi f 0 - max4 0 f.xy f.xz (f.xy + f.xz) = f.hi 0 ∧
      Spec.bndLo f 1 - pmin 0 f.yz = f.lo 1 ∧ Spec.bndHi f 1 - pmax 0 f.yz = f.hi 1) := by
  constructor
  · cases h : f.tric <;> simp [Spec.bndLo, h]
  · intro h; simp [Spec.bndLo, Spec.bndHi, h]

/-- **Scaled coordinates**, written out: `r = lo + xs·a + ys·b + zs·c` with the cell vectors
a = (lx,0,0), b = (xy,ly,0), c = (xz,yz,lz) (tilts zero for an orthogonal cell) -/
theorem C01_scaled_cartesian (f : FrameSpec K) (a : AtomSpec K) (hs : f.style = .xs) :
    (Spec.cart 3 f a 0 = f.lo 0 + a.c 0 * (f.hi 0 - f.lo 0) + a.c 1 * (if f.tric then f.xy else 0) + a.c 2 * (if f.tric then f.xz else 0)) ∧
    (Spec.cart 3 f a 1 = f.lo 1 + a.c 1 * (f.hi 1 - f.lo 1) + a.c 2 * (if f.tric then f.yz else 0)) ∧
    (Spec.cart 3 f a 2 = f.lo 2 + a.c 2 * (f.hi 2 - f.lo 2)) ∧
    (Spec.cart 2 f a 0 = f.lo 0 + a.c 0 * (f.hi 0 - f.lo 0) + a.c 1 * (if f.tric then f.xy else 0)) ∧
    (Spec.cart 2 f a 1 = f.lo 1 + a.c 1 * (f.hi 1 - f.lo 1)) := by
  cases h : f.tric <;> simp [Spec.cart, hs, sumRange, Spec.hmat, h] <;> ring_nf <;> simp

/-- unwrapped coordinates (and all `x` coordinates of a triclinic cell) are returned verbatim -/
theorem C01_unwrapped_verbatim (nd : ℕ) (f : FrameSpec K) (a : AtomSpec K) (i : ℕ)
    (hs : f.style = .xu ∨ (f.style = .x ∧ f.tric = true)) : Spec.cart nd f a i = a.c i := by
  rcases hs with h | ⟨h, ht⟩ <;> simp [Spec.cart, h, *]

/-- the cell matrix is lower triangular with the box lengths on the diagonal -/
theorem C01_hmatrix_lower (f : FrameSpec K) (i j : ℕ) :
    (i < j → Spec.hmat f i j = 0) ∧ Spec.hmat f i i = f.hi i - f.lo i := by
  constructor
  · intro h
    have : i ≠ j := by omega
    unfold Spec.hmat
    rw [if_neg this]
    split_ifs <;> first | rfl | omega
  · simp [Spec.hmat]

/-! ### non-vacuity: a 2-frame, 3-atom file with a negative-tilt triclinic `xs` frame and a shuffled orthogonal `x` frame -/

def exAtoms : List (AtomSpec ℚ) :=
  [⟨3, 1, fun i => [1/4, 1/2, 3/4].getD i 0, [.num (3/2)]⟩, ⟨1, 2, fun i => [0, 1, 1/8].getD i 0, [.int 7]⟩,
   ⟨2, 1, fun i => [9/10, 1/10, 1/2].getD i 0, [.word "Cu"]⟩]
def exTric : FrameSpec ℚ :=
  ⟨100, true, .xs, fun i => [-1, 2, 0].getD i 0, fun i => [4, 5, 3].getD i 0, -3/2, 1/2, -1, ["pp", "pp", "pp"], ["q"], exAtoms⟩
def exOrth : FrameSpec ℚ :=
  ⟨200, false, .x, fun i => [-1, 2, 0].getD i 0, fun i => [4, 5, 3].getD i 0, 0, 0, 0, ["pp", "ff", "pp"], [], exAtoms⟩

example : Spec.WF exTric ∧ Spec.WF exOrth := by
  refine ⟨⟨?_, by decide, by decide⟩, ⟨?_, by decide, by decide⟩⟩ <;>
    · show List.Perm [3, 1, 2] [((0:ℕ):ℤ) + 1, ((1:ℕ):ℤ) + 1, ((2:ℕ):ℤ) + 1]
      decide

example : Impl.readAll 3 (Spec.emit Tok.num 3 [exTric, exOrth]) = .ok [Spec.expected 3 exTric, Spec.expected 3 exOrth] :=
  C01_roundtrip Tok.num (fun _ => rfl) 3 (Or.inr rfl) _ (by
    intro f hf
    simp only [List.mem_cons, List.not_mem_nil, or_false] at hf
    rcases hf with rfl | rfl
    · exact ⟨by show List.Perm [3, 1, 2] [((0:ℕ):ℤ) + 1, ((1:ℕ):ℤ) + 1, ((2:ℕ):ℤ) + 1]; decide, by decide, by decide⟩
    · exact ⟨by show List.Perm [3, 1, 2] [((0:ℕ):ℤ) + 1, ((1:ℕ):ℤ) + 1, ((2:ℕ):ℤ) + 1]; decide, by decide, by decide⟩)

end Pms.Lammps
