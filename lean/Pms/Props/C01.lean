import Pms.Model.Lammps
/-! placeholder: theorems follow -/
namespace Pms.Lammps
theorem C01_placeholder : True := trivial
end Pms.Lammps
