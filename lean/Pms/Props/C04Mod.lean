import Pms.Gen.ModShape

/-! # C04 — pinned source text (property theorems only; statements written by tools/mkmodprops.py from the tree the
checks were validated on, hand-owned afterwards).  `Pms.Gen.ModShape` is REGENERATED from /repo on every run; these
theorems say that the module top levels (imports, module-level state, decorators, signatures and defaults) of the files
C04 is anchored in — and, where listed, the statements of the anchored routines — are still the text the model was
written against and the correspondence was run on.  An edit there breaks this obligation; the check then searches for
a failing input and reports `no-failing-input-found` when there is none (a harmless edit). -/
namespace Pms.ModShape
open Pms.Gen.ModShape

/-- module top levels of PyMatterSim/static/sq.py, PyMatterSim/utils/wavevector.py -/
theorem C04_module_shape :
    shape_static_sq =
  ["from math import sqrt",
   "from typing import Callable, Optional, Tuple",
   "import numpy as np",
   "import numpy.typing as npt",
   "import pandas as pd",
   "from ..reader.reader_utils import SingleSnapshot, Snapshots",
   "from ..utils.logging import get_logger_handle",
   "from ..utils.wavevector import choosewavevector",
   "logger = get_logger_handle(__name__)",
   "def conditional_sq(snapshot: SingleSnapshot, qvector: npt.NDArray, condition: npt.NDArray) -> Tuple[pd.DataFrame, pd.DataFrame]",
   "class sq()",
   "  def __init__(self, snapshots: Snapshots, qrange: float=10.0, onlypositive: bool=False, qvector: npt.NDArray=None, saveqvectors: bool=False, outputfile: str=None) -> None",
   "  def getresults(self) -> Optional[Callable]",
   "  def unary(self) -> pd.DataFrame",
   "  def binary(self) -> pd.DataFrame",
   "  def ternary(self) -> pd.DataFrame",
   "  def quarternary(self) -> pd.DataFrame",
   "  def quinary(self) -> pd.DataFrame"] ∧
    shape_utils_wavevector =
  ["from math import modf, sqrt",
   "import numpy as np",
   "import numpy.typing as npt",
   "from ..utils.logging import get_logger_handle",
   "logger = get_logger_handle(__name__)",
   "def wavevector3d(numofq: int=500) -> npt.NDArray",
   "def wavevector2d(numofq: int=500) -> npt.NDArray",
   "def choosewavevector(ndim: int, numofq: int, onlypositive: bool=False) -> npt.NDArray",
   "def continuousvector(ndim: int, numofq: int=100, onlypositive: bool=False) -> npt.NDArray"] :=
  ⟨rfl, rfl⟩

end Pms.ModShape
