import Pms.Lemmas.Coarse
import Mathlib.Analysis.SpecialFunctions.Exp
import Mathlib.Analysis.SpecialFunctions.Sqrt
import Mathlib.Analysis.Real.Pi.Bounds

/-!
# C16 — coarse-graining (`PyMatterSim/utils/coarse_graining.py`)

Property theorems only.  `Pms.Gen.Coarse.*` is REGENERATED from the source on every run (loop nests, `indice`
expressions, slices, divisor, window length, middle index, Gaussian weight, cut-off comparison); `Pms.Coarse.*Impl`
assemble those terms; `Pms.Coarse.*Spec` are the definitions of the property statement.  `K` is any ordered field
(ℝ, ℚ); sizes, ranks, frame counts and histories are universally quantified.
-/
open Finset
namespace Pms.Coarse
open Pms Pms.Gen.Coarse

variable {K : Type} [Field K]

/-! ## spatial_average -/

/-- For every frame `n`, particle `i` and component `c` (any rank): the returned value is the mean over the particle
itself and the `cn` neighbours listed in its row of the table read for frame `n`. -/
theorem C16_spatial_avg (table : ℕ → ℕ → ℕ → ℤ) (x : ℕ → ℕ → ℕ → K) (n i c cn : ℕ)
    (hcn : table n i 0 = (cn : ℤ)) :
    spatialImpl table x n i c
      = (x n i c + ∑ t ∈ range cn, x n (table n i (1 + t)).toNat c) / ((1 + cn : ℕ) : K) := by
  unfold spatialImpl spatialOne nbHi nbLo divisor
  rw [fold_add_eq, hcn]
  have e : ((1 : ℤ) + (cn : ℤ) - 1).toNat = cn := by omega
  rw [e]
  push_cast
  rfl

/-- the same statement against the hand-written Spec -/
theorem C16_spatial_refines (table : ℕ → ℕ → ℕ → ℤ) (x : ℕ → ℕ → ℕ → K) (n i c cn : ℕ)
    (hcn : table n i 0 = (cn : ℤ)) :
    spatialImpl table x n i c
      = spatialSpec cn (fun t => (table n i (1 + t)).toNat) (fun j => x n j c) i := by
  rw [C16_spatial_avg table x n i c cn hcn]
  unfold spatialSpec
  rw [sumRange_eq]
  push_cast
  rfl

/-- frame by frame: the result for frame `n` depends only on frame `n` of the input and of the neighbour file -/
theorem C16_spatial_frame_local (table table' : ℕ → ℕ → ℕ → ℤ) (x x' : ℕ → ℕ → ℕ → K) (n i c : ℕ)
    (ht : table n = table' n) (hx : x n = x' n) :
    spatialImpl table x n i c = spatialImpl table' x' n i c := by
  unfold spatialImpl
  rw [ht, hx]

/-- non-vacuity: a 3-particle frame, particle 0 with neighbours 1 and 2: (1 + 2 + 6)/3 = 3 -/
example : spatialImpl (α := ℚ) (fun _ i k => if i = 0 then (if k = 0 then 2 else if k = 1 then 1 else 2) else 0)
    (fun _ j _ => if j = 0 then 1 else if j = 1 then 2 else 6) 0 0 0 = 3 := by
  rw [C16_spatial_avg _ _ 0 0 0 2 (by simp)]
  norm_num [Finset.sum_range_succ, Int.toNat]

/-! ## gaussian_blurring — the grid -/

/-- the regenerated 2-D flat index is the row-major index, x slowest -/
theorem C16_grid_index2 (n0 n1 i j : ℕ) : indice2 n0 n1 i j = i * n1 + j := by
  unfold indice2; ring

/-- the regenerated 3-D flat index is the row-major index, x slowest, z fastest -/
theorem C16_grid_index3 (n0 n1 n2 i j k : ℕ) : indice3 n0 n1 n2 i j k = (i * n1 + j) * n2 + k := by
  unfold indice3; ring

/-- 2-D, all grid sizes: the regenerated index maps `range n0 × range n1` one-to-one onto `range (n0·n1)`, and in
lexicographic (x slowest) order — each grid point exactly once -/
theorem C16_grid_bijection2 (n0 n1 : ℕ) :
    (∀ i < n0, ∀ j < n1, indice2 n0 n1 i j < n0 * n1) ∧
    (∀ i < n0, ∀ j < n1, ∀ i' < n0, ∀ j' < n1, indice2 n0 n1 i j = indice2 n0 n1 i' j' → i = i' ∧ j = j') ∧
    (∀ g < n0 * n1, ∃ i < n0, ∃ j < n1, indice2 n0 n1 i j = g) ∧
    (∀ i j i' j', j < n1 → (i < i' ∨ (i = i' ∧ j < j')) → indice2 n0 n1 i j < indice2 n0 n1 i' j') := by
  simp only [C16_grid_index2]
  refine ⟨fun i hi j hj => rm_lt n0 n1 i j hi hj, ?_, ?_, fun i j i' j' hj h => rm_lex n1 i j i' j' hj h⟩
  · intro i _ j hj i' _ j' hj' h
    have h1 := rm_div n1 i j hj
    have h2 := rm_mod n1 i j hj
    rw [h, rm_div n1 i' j' hj'] at h1
    rw [h, rm_mod n1 i' j' hj'] at h2
    exact ⟨h1.symm, h2.symm⟩
  · intro g hg
    have hn1 : 0 < n1 := by
      rcases Nat.eq_zero_or_pos n1 with h | h
      · subst h; simp at hg
      · exact h
    exact ⟨g / n1, rm_div_lt n0 n1 g hg, g % n1, Nat.mod_lt _ hn1, rm_decomp n1 g⟩

/-- 3-D, all grid sizes: one-to-one onto `range (n0·n1·n2)`, lexicographic order (x slowest, z fastest) -/
theorem C16_grid_bijection3 (n0 n1 n2 : ℕ) :
    (∀ i < n0, ∀ j < n1, ∀ k < n2, indice3 n0 n1 n2 i j k < n0 * n1 * n2) ∧
    (∀ i < n0, ∀ j < n1, ∀ k < n2, ∀ i' < n0, ∀ j' < n1, ∀ k' < n2,
        indice3 n0 n1 n2 i j k = indice3 n0 n1 n2 i' j' k' → i = i' ∧ j = j' ∧ k = k') ∧
    (∀ g < n0 * n1 * n2, ∃ i < n0, ∃ j < n1, ∃ k < n2, indice3 n0 n1 n2 i j k = g) ∧
    (∀ i j k i' j' k', j < n1 → k < n2 → (i < i' ∨ (i = i' ∧ (j < j' ∨ (j = j' ∧ k < k')))) →
        indice3 n0 n1 n2 i j k < indice3 n0 n1 n2 i' j' k') := by
  simp only [C16_grid_index3]
  refine ⟨?_, ?_, ?_, ?_⟩
  · intro i hi j hj k hk
    exact rm_lt (n0 * n1) n2 (i * n1 + j) k (rm_lt n0 n1 i j hi hj) hk
  · intro i _ j hj k hk i' _ j' hj' k' hk' h
    have h1 := rm_div n2 (i * n1 + j) k hk
    have h2 := rm_mod n2 (i * n1 + j) k hk
    rw [h, rm_div n2 _ k' hk'] at h1
    rw [h, rm_mod n2 _ k' hk'] at h2
    have h3 := rm_div n1 i j hj
    have h4 := rm_mod n1 i j hj
    rw [← h1, rm_div n1 i' j' hj'] at h3
    rw [← h1, rm_mod n1 i' j' hj'] at h4
    exact ⟨h3.symm, h4.symm, h2.symm⟩
  · intro g hg
    have hn2 : 0 < n2 := by
      rcases Nat.eq_zero_or_pos n2 with h | h
      · subst h; simp at hg
      · exact h
    have hq : g / n2 < n0 * n1 := rm_div_lt (n0 * n1) n2 g hg
    have hn1 : 0 < n1 := by
      rcases Nat.eq_zero_or_pos n1 with h | h
      · subst h; simp at hq
      · exact h
    refine ⟨g / n2 / n1, rm_div_lt n0 n1 _ hq, g / n2 % n1, Nat.mod_lt _ hn1, g % n2, Nat.mod_lt _ hn2, ?_⟩
    rw [rm_decomp n1 (g / n2), rm_decomp n2 g]
  · intro i j k i' j' k' hj hk h
    apply rm_lex n2 _ k _ k' hk
    rcases h with h | ⟨h, h2 | ⟨h2, h3⟩⟩
    · exact Or.inl (rm_lex n1 i j i' j' hj (Or.inl h))
    · exact Or.inl (rm_lex n1 i j i' j' hj (Or.inr ⟨h, h2⟩))
    · subst h; subst h2; exact Or.inr ⟨rfl, h3⟩

/-- the `np.linspace` contract gives equally spaced points spanning [lo, hi] -/
theorem C16_linspace_span [LinearOrder K] [IsStrictOrderedRing K] (lo hi : K) (n : ℕ) (hn : 2 ≤ n) :
    linspace lo hi n 0 = lo ∧ linspace lo hi n (n - 1) = hi ∧
    ∀ i, linspace lo hi n (i + 1) - linspace lo hi n i = (hi - lo) / ((n - 1 : ℕ) : K) := by
  have hne : ((n - 1 : ℕ) : K) ≠ 0 := by
    have : 0 < n - 1 := by omega
    exact_mod_cast this.ne'
  refine ⟨by simp [linspace], ?_, fun i => ?_⟩
  · unfold linspace; field_simp; ring
  · unfold linspace; push_cast; ring

/-- a single-point axis sits at the lower bound -/
theorem C16_linspace_one (lo hi : K) : linspace lo hi 1 0 = lo := by simp [linspace]

/-- 2-D, all grid sizes and box bounds: after the regenerated loop nest, slot `g` of `grid_positions[n]` holds the
Cartesian grid point `(X_{g / n1}, Y_{g % n1})` with `X`, `Y` the equally spaced axes spanning the box bounds -/
theorem C16_grid_positions2 (n0 n1 n2 : ℕ) (bb : ℕ → ℕ → K) (g c : ℕ) (hg : g < n0 * n1) :
    gridImpl 2 n0 n1 n2 bb g c = gridSpec 2 n0 n1 n2 bb g c := by
  obtain ⟨_, _, hsurj, _⟩ := C16_grid_bijection2 n0 n1
  obtain ⟨i, hi, j, hj, hij⟩ := hsurj g hg
  unfold gridImpl
  simp only [if_true]
  unfold gridLoop2
  have hw := Writes.loop n0
    (fun i acc => foldRange n1 (fun acc j => Pms.set acc (indice2 n0 n1 i j)
      (point2 (axisX linspace bb n0 n1 n2) (axisY linspace bb n0 n1 n2) i j)) acc)
    (fun i k => ∃ j < n1, k = indice2 n0 n1 i j)
    (fun g c => gridSpec 2 n0 n1 n2 bb g c)
    (fun i _ => Writes.loop n1 _ (fun j k => k = indice2 n0 n1 i j) _ (fun j hj => Writes.set _ _ _ (by
      funext c
      rw [C16_grid_index2]
      unfold gridSpec point2 axisX axisY
      simp only [if_true, rm_div n1 i j hj, rm_mod n1 i j hj])))
  have := hw.inside (fun _ _ => 0) g ⟨i, hi, j, hj, hij.symm⟩
  exact congrFun this c

/-- 3-D, all grid sizes and box bounds: slot `g` holds `(X_{g / (n1 n2)}, Y_{g / n2 % n1}, Z_{g % n2})` -/
theorem C16_grid_positions3 (n0 n1 n2 : ℕ) (bb : ℕ → ℕ → K) (g c : ℕ) (hg : g < n0 * n1 * n2) :
    gridImpl 3 n0 n1 n2 bb g c = gridSpec 3 n0 n1 n2 bb g c := by
  obtain ⟨_, _, hsurj, _⟩ := C16_grid_bijection3 n0 n1 n2
  obtain ⟨i, hi, j, hj, k, hk, hijk⟩ := hsurj g hg
  unfold gridImpl
  simp only [show (3 : ℕ) = 2 ↔ False by decide, if_false]
  unfold gridLoop3
  have hw := Writes.loop n0
    (fun i acc => foldRange n1 (fun acc j => foldRange n2 (fun acc k => Pms.set acc (indice3 n0 n1 n2 i j k)
      (point3 (axisX linspace bb n0 n1 n2) (axisY linspace bb n0 n1 n2) (axisZ linspace bb n0 n1 n2) i j k)) acc) acc)
    (fun i g => ∃ j < n1, ∃ k < n2, g = indice3 n0 n1 n2 i j k)
    (fun g c => gridSpec 3 n0 n1 n2 bb g c)
    (fun i _ => Writes.loop n1 _ (fun j g => ∃ k < n2, g = indice3 n0 n1 n2 i j k) _ (fun j hj =>
      Writes.loop n2 _ (fun k g => g = indice3 n0 n1 n2 i j k) _ (fun k hk => Writes.set _ _ _ (by
        funext c
        rw [C16_grid_index3]
        unfold gridSpec point3 axisX axisY axisZ
        have e1 : ((i * n1 + j) * n2 + k) / (n1 * n2) = i := by
          rw [Nat.mul_comm n1 n2, ← Nat.div_div_eq_div_mul, rm_div n2 _ k hk, rm_div n1 i j hj]
        simp only [show (3 : ℕ) = 2 ↔ False by decide, if_false, e1, rm_div n2 _ k hk, rm_mod n2 _ k hk,
          rm_mod n1 i j hj]))))
  have := hw.inside (fun _ _ => 0) g ⟨i, hi, j, hj, k, hk, hijk.symm⟩
  exact congrFun this c

/-- non-vacuity / the boundary case of the property: a 5×2 grid on [0,4]×[0,4]; slot 7 = (i,j) = (3,1) holds (3, 4) -/
example : gridImpl (α := ℚ) 2 5 2 1 (fun _ k => if k = 0 then 0 else 4) 7 0 = 3 ∧
    gridImpl (α := ℚ) 2 5 2 1 (fun _ k => if k = 0 then 0 else 4) 7 1 = 4 := by
  rw [C16_grid_positions2 5 2 1 _ 7 0 (by norm_num), C16_grid_positions2 5 2 1 _ 7 1 (by norm_num)]
  norm_num [gridSpec, linspace]

/-! ## gaussian_blurring — the values -/
section blurT
variable [LinearOrder K] [IsStrictOrderedRing K]

/-- the regenerated cut-off comparison `RIJ < gaussian_cut` on the Euclidean length equals the model's decision on
the squared length (so the driver needs no square root to decide it) -/
theorem C16_blur_cut (sqrtf : K → K) (hs : IsSqrt sqrtf) (cut d2 : K) (hd : 0 ≤ d2) :
    selected (sqrtf d2) cut = selectedSq cut d2 := by
  unfold selected selectedSq
  have h0 := hs.nonneg d2 hd
  have h1 := hs.sq d2 hd
  rw [Bool.eq_iff_iff]
  simp only [decide_eq_true_eq, Bool.and_eq_true]
  constructor
  · intro h
    refine ⟨lt_of_le_of_lt h0 h, ?_⟩
    rw [← h1]
    exact mul_self_lt_mul_self h0 h
  · rintro ⟨hc, h⟩
    by_contra hn
    have hn' : cut ≤ sqrtf d2 := not_lt.mp hn
    have := mul_self_le_mul_self hc.le hn'
    rw [h1] at this
    exact absurd h (not_lt.mpr this)

/-- the squared minimum-image length is non-negative -/
theorem C16_dist2_nonneg (d : ℕ) (rint : K → ℤ) (H Hinv : ℕ → ℕ → K) (ppp g p : ℕ → K) :
    0 ≤ dist2 d rint H Hinv ppp g p := by
  unfold dist2
  exact sumRange_sq_nonneg d _

omit [LinearOrder K] [IsStrictOrderedRing K] in
/-- the regenerated `grid_gaussian` is the normalised Gaussian exp(−r²/2σ²)/√(2πσ²), for any `exp`, `sqrt`, `π` -/
theorem C16_gauss_weight (expf sqrtf : K → K) (pi sigma r : K) :
    gridGaussian expf sqrtf pi r sigma = gauss expf sqrtf pi sigma r := by
  unfold gridGaussian gauss
  simp only []
  congr 2
  ring

/-- for one grid point and one component (any rank), all particle numbers: the value is the sum over the particles
whose Euclidean minimum-image distance √d2 is below the cut-off of gauss(√d2) · property -/
theorem C16_blur_def (expf sqrtf : K → K) (hs : IsSqrt sqrtf) (pi sigma cut : K) (np : ℕ) (d2 cond : ℕ → K)
    (hd : ∀ p, 0 ≤ d2 p) :
    blurImpl id expf sqrtf pi sigma cut np d2 cond
      = ∑ p ∈ (range np).filter (fun p => sqrtf (d2 p) < cut), gauss expf sqrtf pi sigma (sqrtf (d2 p)) * cond p := by
  unfold blurImpl
  rw [sumRange_eq, Finset.sum_filter]
  refine Finset.sum_congr rfl fun p _ => ?_
  rw [← C16_blur_cut sqrtf hs cut (d2 p) (hd p), C16_gauss_weight]
  unfold selected
  simp only [id, decide_eq_true_eq]

/-- the whole grid-point computation against the hand-written Spec: minimum-image displacement (C02's `removePbc`),
Euclidean length, cut-off, Gaussian weight, weighted sum — for every cell, mask, grid point and particle set -/
theorem C16_blur_refines (expf sqrtf : K → K) (hs : IsSqrt sqrtf) (pi sigma cut : K) (d np : ℕ) (rint : K → ℤ)
    (H Hinv : ℕ → ℕ → K) (ppp g : ℕ → K) (pos : ℕ → ℕ → K) (cond : ℕ → K) :
    blurImpl id expf sqrtf pi sigma cut np (fun p => dist2 d rint H Hinv ppp g (pos p)) cond
      = blurSpec expf sqrtf pi sigma cut np (fun p => sqrtf (dist2 d rint H Hinv ppp g (pos p))) cond := by
  rw [C16_blur_def expf sqrtf hs pi sigma cut np _ cond (fun p => C16_dist2_nonneg d rint H Hinv ppp g (pos p))]
  unfold blurSpec
  rw [sumRange_eq, Finset.sum_filter]

/-- the form of the Spec evaluated by the driver's `spec` mode (cut-off decided on the squared distance) is the Spec -/
theorem C16_blur_spec_sq (expf sqrtf : K → K) (hs : IsSqrt sqrtf) (pi sigma cut : K) (np : ℕ) (d2 cond : ℕ → K)
    (hd : ∀ p, 0 ≤ d2 p) :
    blurSpecSq id expf sqrtf pi sigma cut np d2 cond
      = blurSpec expf sqrtf pi sigma cut np (fun p => sqrtf (d2 p)) cond := by
  unfold blurSpecSq blurSpec
  rw [sumRange_eq, sumRange_eq]
  refine Finset.sum_congr rfl fun p _ => ?_
  rw [← C16_blur_cut sqrtf hs cut (d2 p) (hd p)]
  unfold selected
  simp only [id, decide_eq_true_eq]

end blurT

/-- over ℝ with the real `exp`, `√`, `π`: the contract `IsSqrt` is met (non-vacuity) and the value is
Σ_{√d2 < cut} exp(−(√d2)²/2σ²)/√(2πσ²) · property -/
theorem C16_blur_real (sigma cut : ℝ) (np : ℕ) (d2 cond : ℕ → ℝ) (hd : ∀ p, 0 ≤ d2 p) :
    blurImpl id Real.exp Real.sqrt Real.pi sigma cut np d2 cond
      = ∑ p ∈ (range np).filter (fun p => Real.sqrt (d2 p) < cut),
          Real.exp (-(Real.sqrt (d2 p) * Real.sqrt (d2 p)) / (2 * (sigma * sigma)))
            / Real.sqrt (2 * Real.pi * (sigma * sigma)) * cond p := by
  rw [C16_blur_def Real.exp Real.sqrt ⟨fun x _ => Real.sqrt_nonneg x, fun x hx => Real.mul_self_sqrt hx⟩
    Real.pi sigma cut np d2 cond hd]
  unfold gauss
  push_cast
  rfl

/-- the rank dispatch and the three rank branches of the source are the expected broadcasts (all are the
per-component weighted sum over the selected particles) -/
theorem C16_blur_rank_branches :
    rankBranches = [("cal_type == 'scalar'", "(probability * condition[n, selection]).sum()"),
      ("cal_type == 'vector'", "(probability[:, np.newaxis] * condition[n, selection]).sum(axis=0)"),
      ("else", "(probability[:, np.newaxis, np.newaxis] * condition[n, selection]).sum(axis=0)")] ∧
    calType = [("len(condition.shape) == 2", "cal_type = 'scalar'"), ("len(condition.shape) == 3", "cal_type = 'vector'"),
      ("len(condition.shape) == 4", "cal_type = 'tensor'"), ("else", "raise ValueError('Wrong input condition variable')")] ∧
    loopOrder2 = [("i", "n0"), ("j", "n1")] ∧ loopOrder3 = [("i", "n0"), ("j", "n1"), ("k", "n2")] := by
  decide +kernel

/-! ## time_average -/

/-- the frame interval is (timestep₁ − timestep₀)·dt -/
theorem C16_time_interval (t0 t1 dt : K) : timeInterval t0 t1 dt = (t1 - t0) * dt := rfl

/-- the regenerated window length `int(round(period/interval, 8))` is ⌊period/interval⌋ for every non-negative
quotient that is an integer (exact multiples) or lies at least 5·10⁻⁹ below the next integer; `rint` any
round-to-nearest, `trunc` Python's `int()` -/
theorem C16_window_len [LinearOrder K] [IsStrictOrderedRing K] [FloorRing K] (rint trunc : K → ℤ)
    (hr : IsRintHE rint) (ht : ∀ x, 0 ≤ x → trunc x = ⌊x⌋) (period interval : K)
    (hq : 0 ≤ period / interval) (hf : Int.fract (period / interval) < 1 - 1 / (2 * 10 ^ 8)) :
    windowLen rint trunc period interval = ⌊period / interval⌋ := by
  unfold windowLen
  set q := period / interval with hqdef
  have hN : (((10 ^ 8 : ℕ)) : K) = 10 ^ 8 := by norm_num
  rw [hN]
  have hNpos : (0 : K) < 10 ^ 8 := by positivity
  set r := rint (q * 10 ^ 8) with hrdef
  have hnear := hr.near (q * 10 ^ 8)
  rw [← hrdef] at hnear
  have hab := abs_le.mp hnear
  have hm1 : ((⌊q⌋ : ℤ) : K) ≤ q := Int.floor_le q
  have hfr : q - ((⌊q⌋ : ℤ) : K) < 1 - 1 / (2 * 10 ^ 8) := by
    have := hf; rwa [Int.fract] at this
  -- lower bound: ⌊q⌋·10⁸ ≤ r
  have hlo : (⌊q⌋ : ℤ) * 10 ^ 8 ≤ r := by
    have h1 : (((⌊q⌋ : ℤ) * 10 ^ 8 : ℤ) : K) - 1 < (r : K) := by
      push_cast
      have : ((⌊q⌋ : ℤ) : K) * 10 ^ 8 ≤ q * 10 ^ 8 := mul_le_mul_of_nonneg_right hm1 hNpos.le
      linarith [hab.2]
    have h2 : ((⌊q⌋ : ℤ) * 10 ^ 8 - 1 : ℤ) < r := by
      have : ((((⌊q⌋ : ℤ) * 10 ^ 8 - 1 : ℤ)) : K) < (r : K) := by push_cast; push_cast at h1; exact h1
      exact_mod_cast this
    omega
  -- upper bound: r < (⌊q⌋+1)·10⁸
  have hhi : r < ((⌊q⌋ : ℤ) + 1) * 10 ^ 8 := by
    have h1 : (r : K) < ((((⌊q⌋ : ℤ) + 1) * 10 ^ 8 : ℤ) : K) := by
      push_cast
      have h3 : q * 10 ^ 8 < (((⌊q⌋ : ℤ) : K) + 1 - 1 / (2 * 10 ^ 8)) * 10 ^ 8 :=
        mul_lt_mul_of_pos_right (by linarith) hNpos
      have h4 : (((⌊q⌋ : ℤ) : K) + 1 - 1 / (2 * 10 ^ 8)) * 10 ^ 8 = (((⌊q⌋ : ℤ) : K) + 1) * 10 ^ 8 - 1 / 2 := by
        field_simp
      linarith [hab.1]
    exact_mod_cast h1
  have hfl : ⌊((r : ℤ) : K) / 10 ^ 8⌋ = ⌊q⌋ := by
    rw [Int.floor_eq_iff]
    constructor
    · rw [le_div_iff₀ hNpos]
      have : ((((⌊q⌋ : ℤ) * 10 ^ 8 : ℤ)) : K) ≤ (r : K) := by exact_mod_cast hlo
      norm_num at this ⊢; linarith
    · rw [div_lt_iff₀ hNpos]
      have : (r : K) < (((((⌊q⌋ : ℤ) + 1) * 10 ^ 8 : ℤ)) : K) := by exact_mod_cast hhi
      norm_num at this ⊢; linarith
  have hnn : (0 : K) ≤ ((r : ℤ) : K) / 10 ^ 8 := by
    apply div_nonneg _ hNpos.le
    have h0 : (0 : ℤ) ≤ ⌊q⌋ := Int.floor_nonneg.mpr hq
    have : (0 : ℤ) ≤ r := le_trans (by positivity) hlo
    exact_mod_cast this
  rw [ht _ hnn, hfl]

/-- the contracts of `C16_window_len` are met by the driver's exact `round`/`int` on ℚ, and the boundary input of the
property (period 0.3, interval 0.1) gets the window 3 -/
theorem C16_window_len_rat (period t0 t1 dt : ℚ) (hq : 0 ≤ period / ((t1 - t0) * dt))
    (hf : Int.fract (period / ((t1 - t0) * dt)) < 1 - 1 / (2 * 10 ^ 8)) :
    windowImpl ratRint ratTrunc period t0 t1 dt = ⌊period / ((t1 - t0) * dt)⌋ := by
  unfold windowImpl
  rw [C16_time_interval]
  exact C16_window_len ratRint ratTrunc ratRint_isRintHE ratTrunc_nonneg period _ hq hf

example : windowImpl ratRint ratTrunc (3 / 10 : ℚ) 0 50 (2 / 1000) = 3 := by decide +kernel

/-- number of results, and every reported index has its full window inside the trajectory -/
theorem C16_time_results (T w n : ℕ) :
    nResults (T : ℤ) (w : ℤ) = (T : ℤ) - (w : ℤ) ∧ ((n : ℤ) < nResults (T : ℤ) (w : ℤ) → n + w ≤ T) := by
  unfold nResults
  exact ⟨rfl, fun h => by omega⟩

/-- the value at index `n` is the mean over the `w` consecutive frames n … n+w−1 (per particle / component) -/
theorem C16_time_avg (T w n : ℕ) (x : ℕ → K) (h : n + w ≤ T) :
    timeAvgImpl T (w : ℤ) x n = (∑ t ∈ range w, x (n + t)) / (w : K) := by
  unfold timeAvgImpl sliceLo sliceHi clip
  have e1 : min ((n : ℤ)).toNat T = n := by omega
  have e2 : min ((n : ℤ) + (w : ℤ)).toNat T = n + w := by omega
  simp only [e1, e2, Nat.add_sub_cancel_left, sumRange_eq]
  push_cast
  rfl

/-- non-vacuity: 4 frames with values 0,1,2,3, window 2, index 1: mean of frames 1,2 = 3/2 -/
example : timeAvgImpl (α := ℚ) 4 (2 : ℕ) (fun t => (t : ℚ)) 1 = 3 / 2 := by
  rw [C16_time_avg 4 2 1 _ (by norm_num)]
  norm_num [Finset.sum_range_succ]

/-- the same against the hand-written Spec -/
theorem C16_time_refines (T w n : ℕ) (x : ℕ → K) (h : n + w ≤ T) :
    timeAvgImpl T (w : ℤ) x n = timeAvgSpec w x n := by
  rw [C16_time_avg T w n x h]
  unfold timeAvgSpec
  rw [sumRange_eq]
  push_cast
  rfl

/-- the regenerated reported index is n + ⌊w/2⌋ for all n, w (whatever `round` is) -/
theorem C16_time_middle (rint : ℚ → ℤ) (n w : ℕ) : middle rint (n : ℤ) (w : ℤ) = ((middleSpec n w : ℕ) : ℤ) := by
  unfold middle middleSpec
  push_cast
  omega

/-- n + ⌊w/2⌋ is the window's central frame: it lies in the window n … n+w−1, the numbers of frames before and after
it differ by at most one, and are equal for odd `w` -/
theorem C16_middle_central (n w : ℕ) (hw : 1 ≤ w) :
    n ≤ middleSpec n w ∧ middleSpec n w ≤ n + w - 1 ∧
    (middleSpec n w - n = n + w - 1 - middleSpec n w ∨ middleSpec n w - n = n + w - 1 - middleSpec n w + 1) ∧
    (w % 2 = 1 → middleSpec n w - n = n + w - 1 - middleSpec n w) := by
  unfold middleSpec
  omega

end Pms.Coarse
