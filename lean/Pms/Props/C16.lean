import Pms.Lemmas.Coarse
import Mathlib.Analysis.SpecialFunctions.Exp
import Mathlib.Analysis.SpecialFunctions.Sqrt
import Mathlib.Analysis.Real.Pi.Bounds

/-!
# C16 — coarse-graining (`PyMatterSim/utils/coarse_graining.py`)

Property theorems only.  `Pms.Gen.Coarse.*` is REGENERATED from the source on every run (loop nests, `indice`
expressions, slices, divisor, window length, middle index, Gaussian weight, cut-off comparison); `Pms.Coarse.*Impl`
assemble those terms; `Pms.Coarse.*Spec` are the definitions of the property statement.  `K` is any ordered field
(ℝ, ℚ); sizes, ranks, frame counts and histories are universally quantified.
-/
open Finset
namespace Pms.Coarse
open Pms Pms.Gen.Coarse

variable {K : Type} [Field K]

/-! ## spatial_average -/

/-- For every frame `n`, particle `i` and component `c` (any rank): the returned value is the mean over the particle
itself and the `cn` neighbours listed in its row of the table read for frame `n`. -/
theorem C16_spatial_avg (table : ℕ → ℕ → ℕ → ℤ) (x : ℕ → ℕ → ℕ → K) (n i c cn : ℕ)
    (hcn : table n i 0 = (cn : ℤ)) :
    spatialImpl table x n i c
      = (x n i c + ∑ t ∈ range cn, x n (table n i (1 + t)).toNat c) / ((1 + cn : ℕ) : K) := by
  unfold spatialImpl spatialOne nbHi nbLo divisor
  rw [fold_add_eq, hcn]
  have e : ((1 : ℤ) + (cn : ℤ) - 1).toNat = cn := by omega
  rw [e]
  push_cast
  rfl

/-- the same statement against the hand-written Spec -/
theorem C16_spatial_refines (table : ℕ → ℕ → ℕ → ℤ) (x : ℕ → ℕ → ℕ → K) (n i c cn : ℕ)
    (hcn : table n i 0 = (cn : ℤ)) :
    spatialImpl table x n i c
      = spatialSpec cn (fun t => (table n i (1 + t)).toNat) (fun j => x n j c) i := by
  rw [C16_spatial_avg table x n i c cn hcn]
  unfold spatialSpec
  rw [sumRange_eq]
  push_cast
  rfl

/-- frame by frame: the result for frame `n` depends only on frame `n` of the input and of the neighbour file -/
theorem C16_spatial_frame_local (table table' : ℕ → ℕ → ℕ → ℤ) (x x' : ℕ → ℕ → ℕ → K) (n i c : ℕ)
    (ht : table n = table' n) (hx : x n = x' n) :
    spatialImpl table x n i c = spatialImpl table' x' n i c := by
  unfold spatialImpl
  rw [ht, hx]

/-- non-vacuity: a 3-particle frame, particle 0 with neighbours 1 and 2: (1 + 2 + 6)/3 = 3 -/
example : spatialImpl (α := ℚ) (fun _ i k => if i = 0 then (if k = 0 then 2 else if k = 1 then 1 else 2) else 0)
    (fun _ j _ => if j = 0 then 1 else if j = 1 then 2 else 6) 0 0 0 = 3 := by
  rw [C16_spatial_avg _ _ 0 0 0 2 (by simp)]
  norm_num [Finset.sum_range_succ, Int.toNat]

/-! ## gaussian_blurring — the grid -/

/-- the regenerated 2-D flat index is the row-major index, x slowest -/
theorem C16_grid_index2 (n0 n1 i j : ℕ) : indice2 n0 n1 i j = i * n1 + j := by
  unfold indice2; ring

/-- the regenerated 3-D flat index is the row-major index, x slowest, z fastest -/
theorem C16_grid_index3 (n0 n1 n2 i j k : ℕ) : indice3 n0 n1 n2 i j k = (i * n1 + j) * n2 + k := by
  unfold indice3; ring

/-- 2-D, all grid sizes: the regenerated index maps `range n0 × range n1` one-to-one onto `range (n0·n1)`, and in
lexicographic (x slowest) order — each grid point exactly once -/
theorem C16_grid_bijection2 (n0 n1 : ℕ) :
    (∀ i < n0, ∀ j < n1, indice2 n0 n1 i j < n0 * n1) ∧
    (∀ i < n0, ∀ j < n1, ∀ i' < n0, ∀ j' < n1, indice2 n0 n1 i j = indice2 n0 n1 i' j' → i = i' ∧ j = j') ∧
    (∀ g < n0 * n1, ∃ i < n0, ∃ j < n1, indice2 n0 n1 i j = g) ∧
    (∀ i j i' j', j < n1 → (i < i' ∨ (i = i' ∧ j < j')) → indice2 n0 n1 i j < indice2 n0 n1 i' j') := by
  simp only [C16_grid_index2]
  refine ⟨fun i hi j hj => rm_lt n0 n1 i j hi hj, ?_, ?_, fun i j i' j' hj h => rm_lex n1 i j i' j' hj h⟩
  · intro i _ j hj i' _ j' hj' h
    have h1 := rm_div n1 i j hj
    have h2 := rm_mod n1 i j hj
    rw [h, rm_div n1 i' j' hj'] at h1
    rw [h, rm_mod n1 i' j' hj'] at h2
    exact ⟨h1.symm, h2.symm⟩
  · intro g hg
    have hn1 : 0 < n1 := by
      rcases Nat.eq_zero_or_pos n1 with h | h
      · subst h; simp at hg
      · exact h
    exact ⟨g / n1, rm_div_lt n0 n1 g hg, g % n1, Nat.mod_lt _ hn1, rm_decomp n1 g⟩

/-- 3-D, all grid sizes: one-to-one onto `range (n0·n1·n2)`, lexicographic order (x slowest, z fastest) -/
theorem C16_grid_bijection3 (n0 n1 n2 : ℕ) :
    (∀ i < n0, ∀ j < n1, ∀ k < n2, indice3 n0 n1 n2 i j k < n0 * n1 * n2) ∧
    (∀ i < n0, ∀ j < n1, ∀ k < n2, ∀ i' < n0, ∀ j' < n1, ∀ k' < n2,
        indice3 n0 n1 n2 i j k = indice3 n0 n1 n2 i' j' k' → i = i' ∧ j = j' ∧ k = k') ∧
    (∀ g < n0 * n1 * n2, ∃ i < n0, ∃ j < n1, ∃ k < n2, indice3 n0 n1 n2 i j k = g) ∧
    (∀ i j k i' j' k', j < n1 → k < n2 → (i < i' ∨ (i = i' ∧ (j < j' ∨ (j = j' ∧ k < k')))) →
        indice3 n0 n1 n2 i j k < indice3 n0 n1 n2 i' j' k') := by
  simp only [C16_grid_index3]
  refine ⟨?_, ?_, ?_, ?_⟩
  · intro i hi j hj k hk
    exact rm_lt (n0 * n1) n2 (i * n1 + j) k (rm_lt n0 n1 i j hi hj) hk
  · intro i _ j hj k hk i' _ j' hj' k' hk' h
    have h1 := rm_div n2 (i * n1 + j) k hk
    have h2 := rm_mod n2 (i * n1 + j) k hk
    rw [h, rm_div n2 _ k' hk'] at h1
    rw [h, rm_mod n2 _ k' hk'] at h2
    have h3 := rm_div n1 i j hj
    have h4 := rm_mod n1 i j hj
    rw [← h1, rm_div n1 i' j' hj'] at h3
    rw [← h1, rm_mod n1 i' j' hj'] at h4
    exact ⟨h3.symm, h4.symm, h2.symm⟩
  · intro g hg
    have hn2 : 0 < n2 := by
      rcases Nat.eq_zero_or_pos n2 with h | h
      · subst h; simp at hg
      · exact h
    have hq : g / n2 < n0 * n1 := rm_div_lt (n0 * n1) n2 g hg
    have hn1 : 0 < n1 := by
      rcases Nat.eq_zero_or_pos n1 with h | h
      · subst h; simp at hq
      · exact h
    refine ⟨g / n2 / n1, rm_div_lt n0 n1 _ hq, g / n2 % n1, Nat.mod_lt _ hn1, g % n2, Nat.mod_lt _ hn2, ?_⟩
    rw [rm_decomp n1 (g / n2), rm_decomp n2 g]
  · intro i j k i' j' k' hj hk h
    apply rm_lex n2 _ k _ k' hk
    rcases h with h | ⟨h, h2 | ⟨h2, h3⟩⟩
    · exact Or.inl (rm_lex n1 i j i' j' hj (Or.inl h))
    · exact Or.inl (rm_lex n1 i j i' j' hj (Or.inr ⟨h, h2⟩))
    · subst h; subst h2; exact Or.inr ⟨rfl, h3⟩

/-- the `np.linspace` contract gives equally spaced points spanning [lo, hi] -/
theorem C16_linspace_span [LinearOrder K] [IsStrictOrderedRing K] (lo hi : K) (n : ℕ) (hn : 2 ≤ n) :
    linspace lo hi n 0 = lo ∧ linspace lo hi n (n - 1) = hi ∧
    ∀ i, linspace lo hi n (i + 1) - linspace lo hi n i = (hi - lo) / ((n - 1 : ℕ) : K) := by
  have hne : ((n - 1 : ℕ) : K) ≠ 0 := by
    have : 0 < n - 1 := by omega
    exact_mod_cast this.ne'
  refine ⟨by simp [linspace], ?_, fun i => ?_⟩
  · unfold linspace; field_simp; ring
  · unfold linspace; push_cast; ring

/-- a single-point axis sits at the lower bound -/
theorem C16_linspace_one (lo hi : K) : linspace lo hi 1 0 = lo := by simp [linspace]

/-- 2-D, all grid sizes and box bounds: after the regenerated loop nest, slot `g` of `grid_positions[n]` holds the
Cartesian grid point `(X_{g / n1}, Y_{g % n1})` with `X`, `Y` the equally spaced axes spanning the box bounds -/
theorem C16_grid_positions2 (n0 n1 n2 : ℕ) (bb : ℕ → ℕ → K) (g c : ℕ) (hg : g < n0 * n1) :
    gridImpl 2 n0 n1 n2 bb g c = gridSpec 2 n0 n1 n2 bb g c := by
  obtain ⟨_, _, hsurj, _⟩ := C16_grid_bijection2 n0 n1
  obtain ⟨i, hi, j, hj, hij⟩ := hsurj g hg
  unfold gridImpl
  simp only [if_true]
  unfold gridLoop2
  have hw := Writes.loop n0
    (fun i acc => foldRange n1 (fun acc j => Pms.set acc (indice2 n0 n1 i j)
      (point2 (axisX linspace bb n0 n1 n2) (axisY linspace bb n0 n1 n2) i j)) acc)
    (fun i k => ∃ j < n1, k = indice2 n0 n1 i j)
    (fun g c => gridSpec 2 n0 n1 n2 bb g c)
    (fun i _ => Writes.loop n1 _ (fun j k => k = indice2 n0 n1 i j) _ (fun j hj => Writes.set _ _ _ (by
      funext c
      rw [C16_grid_index2]
      unfold gridSpec point2 axisX axisY
      simp only [if_true, rm_div n1 i j hj, rm_mod n1 i j hj])))
  have := hw.inside (fun _ _ => 0) g ⟨i, hi, j, hj, hij.symm⟩
  exact congrFun this c

/-- 3-D, all grid sizes and box bounds: slot `g` holds `(X_{g / (n1 n2)}, Y_{g / n2 % n1}, Z_{g % n2})` -/
theorem C16_grid_positions3 (n0 n1 n2 : ℕ) (bb : ℕ → ℕ → K) (g c : ℕ) (hg : g < n0 * n1 * n2) :
    gridImpl 3 n0 n1 n2 bb g c = gridSpec 3 n0 n1 n2 bb g c := by
  obtain ⟨_, _, hsurj, _⟩ := C16_grid_bijection3 n0 n1 n2
  obtain ⟨i, hi, j, hj, k, hk, hijk⟩ := hsurj g hg
  unfold gridImpl
  simp only [show (3 : ℕ) = 2 ↔ False by decide, if_false]
  unfold gridLoop3
  have hw := Writes.loop n0
    (fun i acc => foldRange n1 (fun acc j => foldRange n2 (fun acc k => Pms.set acc (indice3 n0 n1 n2 i j k)
      (point3 (axisX linspace bb n0 n1 n2) (axisY linspace bb n0 n1 n2) (axisZ linspace bb n0 n1 n2) i j k)) acc) acc)
    (fun i g => ∃ j < n1, ∃ k < n2, g = indice3 n0 n1 n2 i j k)
    (fun g c => gridSpec 3 n0 n1 n2 bb g c)
    (fun i _ => Writes.loop n1 _ (fun j g => ∃ k < n2, g = indice3 n0 n1 n2 i j k) _ (fun j hj =>
      Writes.loop n2 _ (fun k g => g = indice3 n0 n1 n2 i j k) _ (fun k hk => Writes.set _ _ _ (by
        funext c
        rw [C16_grid_index3]
        unfold gridSpec point3 axisX axisY axisZ
        have e1 : ((i * n1 + j) * n2 + k) / (n1 * n2) = i := by
          rw [Nat.mul_comm n1 n2, ← Nat.div_div_eq_div_mul, rm_div n2 _ k hk, rm_div n1 i j hj]
        simp only [show (3 : ℕ) = 2 ↔ False by decide, if_false, e1, rm_div n2 _ k hk, rm_mod n2 _ k hk,
          rm_mod n1 i j hj]))))
  have := hw.inside (fun _ _ => 0) g ⟨i, hi, j, hj, k, hk, hijk.symm⟩
  exact congrFun this c

end Pms.Coarse
