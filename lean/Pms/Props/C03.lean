import Pms.Gen.Gr
import Pms.Model.Gr

/-!
# C03 — g(r): every total and partial column equals the normalised pair histogram
-/
namespace Pms.Gr
open Pms Pms.Gen.Gr

/-- the five methods, in the order K = 1..5 -/
def methodOfK : List (Nat × Method) := [(1, unary), (2, binary), (3, ternary), (4, quarternary), (5, quinary)]

/-- every regenerated column list is the documented one (r, gr, gr11 …, grKK, gr12 … in lexicographic order), the
accumulated columns are exactly the non-`r` columns, and every column name announces its species pair -/
theorem C03_columns : ∀ p ∈ methodOfK, columnsOK p.1 p.2 = true ∧ p.2.name = methodNameFor p.1 := by
  decide +kernel

/-- species-pair → column classification, exhaustive for K = 1..5: the selector attached to column `gr<a><b>`
accepts the (sum, |difference|) of type ids (x, y) ∈ (1..K)² exactly when {x, y} = {a, b}; the selector of the
total accepts every pair -/
theorem C03_selectors : ∀ p ∈ methodOfK, ∀ c ∈ p.2.cols, selOK p.1 c = true := by
  decide +kernel

/-- every unordered species pair lands in exactly one partial column (K = 2..5) -/
theorem C03_partition : ∀ p ∈ methodOfK, p.1 ≥ 2 → partitionOK p.1 p.2 = true := by
  decide +kernel

end Pms.Gr
