import Pms.Lemmas.Gr

/-!
# C03 — g(r): every total and partial column equals the normalised pair histogram

`Pms.Gen.Gr` (methods `unary … quinary` with their column lists, selectors, normalisers, `nideal`, `r`; the
`getresults` dispatch; the attributes derived in `__init__`; `funcs.nidealfac`) is REGENERATED from
`PyMatterSim/static/gr.py` and `utils/funcs.py` on every run.  `Impl` (Pms/Model/Gr.lean) is the algorithm of gr.py
evaluated with these tables; `Spec` is the definition in the property statement.  `K` is any ordered field (ℝ, ℚ).
Property theorems only; helper lemmas are in Pms/Lemmas/Gr.lean.
-/
open Finset
namespace Pms.Gr
open Pms Pms.Gen.Gr

variable {K : Type} [Field K] [LinearOrder K] [IsStrictOrderedRing K]

/-- every regenerated column list is the documented one (r, gr, gr11 …, grKK, then gr12 … in lexicographic order),
the accumulated columns are exactly the non-`r` columns in that order, every column name announces its species
pair, and the method serving K species has the expected name -/
theorem C03_columns : ∀ p ∈ methodOfK, columnsOK p.1 p.2 = true ∧ p.2.name = methodNameFor p.1 := by
  decide +kernel

/-- species-pair → column classification, exhaustive for K = 1..5: the selector attached to column `gr<a><b>`
accepts the (sum, |difference|) of the type ids (x, y) ∈ (1..K)² exactly when {x, y} = {a, b}; the selector of the
total accepts every pair -/
theorem C03_selectors : ∀ p ∈ methodOfK, ∀ c ∈ p.2.cols, ∀ x ∈ List.range p.1, ∀ y ∈ List.range p.1,
    c.sel.eval (x + 1) (y + 1) =
      (if c.a == 0 then true else ((x + 1 == c.a && y + 1 == c.b) || (x + 1 == c.b && y + 1 == c.a))) := by
  decide +kernel

/-- every unordered species pair lands in exactly one partial column (K = 2..5) -/
theorem C03_partition : ∀ p ∈ methodOfK, p.1 ≥ 2 → ∀ x ∈ List.range p.1, ∀ y ∈ List.range p.1,
    (p.2.cols.filter fun c => c.a != 0 && c.sel.eval (x + 1) (y + 1)).length = 1 := by
  decide +kernel

/-- `getresults`: K = 1..5 species are served by unary … quinary, and with more than five species only the total
is returned (the method called is `unary`, whose columns are r, gr) -/
theorem C03_dispatch (Kn : ℕ) (hK : 1 ≤ Kn) :
    dispatchEval dispatch Kn = some (methodNameFor Kn) ∧
    findMethod methods (methodNameFor Kn) = some (methodFor Kn) ∧
    (Kn ≤ 5 → (Kn, methodFor Kn) ∈ methodOfK) ∧ (5 < Kn → methodFor Kn = unary ∧ unary.columns = ["r", "gr"]) := by
  by_cases h5 : Kn ≤ 5
  · interval_cases Kn <;> exact ⟨by decide +kernel, by decide +kernel, fun _ => by decide +kernel, fun h => by omega⟩
  · have hm : methodNameFor Kn = "unary" := by
      unfold methodNameFor
      split <;> first | rfl | omega
    have hf : methodFor Kn = unary := by
      unfold methodFor
      split <;> first | rfl | omega
    rw [hm, hf]
    refine ⟨?_, by decide +kernel, fun h => by omega, fun _ => ⟨rfl, by decide +kernel⟩⟩
    have e : ∀ n, n ≤ 5 → (Kn == n) = false := fun n hn => by simp; omega
    have g : decide (Kn > 5) = true := by simp; omega
    simp [dispatch, dispatchEval, Cmp.eval, e, g]

/-- **Refinement.**  For every well-formed trajectory of K ∈ 1..5 species, every column of the method serving K
species, and every bin: the value computed by the algorithm of gr.py (pair loop i<j, regenerated selector,
regenerated normaliser, regenerated derived attributes) equals the definition — V/(N_a N_b) times the
frame-averaged number of ORDERED a-b pairs (i ≠ j) whose minimum-image distance falls in bin k, divided by the
ideal shell volume (3D) / area (2D); the column `gr` equals the same with all pairs and N². -/
theorem C03_refines (rint : K → ℤ) (tr : Traj K) (p : ℕ × Method) (hp : p ∈ methodOfK) (hwf : WF rint tr p.1)
    (c : Col) (hc : c ∈ p.2.cols) (k : ℕ) :
    Impl.value defs p.2 rint tr c k = Spec.column rint tr c k := by
  unfold Impl.value Impl.valueOf Spec.column
  rw [norm_eval tr p hp hwf.nonDeg k _ c hc]
  obtain ⟨h0, h1⟩ := table_shape p hp c hc
  by_cases ha : c.a = 0
  · obtain ⟨hsel, hb⟩ := h0 ha
    simp only [ha, if_true]
    unfold Spec.gTotal Spec.gTotalOf target nOf
    rw [pairCountAll_eq tr _ c.sel (by rw [hsel]; intro x y; rfl) k (fun f i j => binOf_symm rint hwf.rint_he tr f i j k)]
    simp [ha, hb]
  · obtain ⟨ha1, ha2, hb1, hb2⟩ := h1 ha
    simp only [ha, if_false]
    unfold Spec.g Spec.gOf target nOf
    rw [pairCount_eq tr _ p.1 c (table_selOK p hp c hc) ha hwf.types k (fun f i j => binOf_symm rint hwf.rint_he tr f i j k)]
    have hb : c.b ≠ 0 := by omega
    simp only [ha, hb, if_false]
    rw [hwf.unique c.a ha1 ha2, hwf.unique c.b hb1 hb2]

/-- with more than five species (or any type ids at all) the method that is called returns the total g(r):
no assumption on the type ids is needed for the column `gr` of `unary` -/
theorem C03_total_any_types (rint : K → ℤ) (hr : IsRintHE rint) (tr : Traj K) (hnd : NonDeg tr 0)
    (c : Col) (hc : c ∈ unary.cols) (k : ℕ) :
    Impl.value defs unary rint tr c k = Spec.gTotal rint tr k := by
  have hp : ((1, unary) : ℕ × Method) ∈ methodOfK := by decide +kernel
  have hall : ∀ c ∈ unary.cols, c.a = 0 := by decide +kernel
  unfold Impl.value Impl.valueOf
  rw [norm_eval_unary tr hnd k _ c hc]
  obtain ⟨hsel, hb⟩ := (table_shape (1, unary) hp c hc).1 (hall c hc)
  unfold Spec.gTotal Spec.gTotalOf target nOf
  rw [pairCountAll_eq tr _ c.sel (by rw [hsel]; intro x y; rfl) k (fun f i j => binOf_symm rint hr tr f i j k)]
  simp [hall c hc, hb]

/-- **Sum rule.**  N²·g(r_k) = Σ_a Σ_b N_a N_b g_ab(r_k) in every bin (a, b range over all ordered species pairs;
g_ab = g_ba), i.e. g = Σ_ab c_a c_b g_ab with c_a = N_a/N -/
theorem C03_total (rint : K → ℤ) (tr : Traj K) (Ksp : ℕ) (hwf : WF rint tr Ksp) (k : ℕ) :
    (tr.N : K) * (tr.N : K) * Spec.gTotal rint tr k
      = ∑ a ∈ Icc 1 Ksp, ∑ b ∈ Icc 1 Ksp, ((Spec.Na tr a : ℕ) : K) * ((Spec.Na tr b : ℕ) : K) * Spec.g rint tr a b k := by
  have hN : (tr.N : K) ≠ 0 := hwf.nonDeg.N_ne
  have hsh := shell_ne tr hwf.dim hwf.pi_ne hwf.delta_ne k
  have hNa : ∀ a ∈ Icc 1 Ksp, ((Spec.Na tr a : ℕ) : K) ≠ 0 := by
    intro a ha
    have := hwf.present a (mem_Icc.mp ha).1 (mem_Icc.mp ha).2
    exact Nat.cast_ne_zero.mpr (by omega)
  have hterm : ∀ a ∈ Icc 1 Ksp, ∀ b ∈ Icc 1 Ksp,
      ((Spec.Na tr a : ℕ) : K) * ((Spec.Na tr b : ℕ) : K) * Spec.g rint tr a b k
        = Spec.V tr / (tr.T : K) / Spec.shell tr k * Spec.pairCount tr (binOf tr (dist2 rint tr)) a b k := by
    intro a ha b hb
    have h1 := hNa a ha; have h2 := hNa b hb
    unfold Spec.g Spec.gOf
    field_simp
  rw [Finset.sum_congr rfl fun a ha => Finset.sum_congr rfl fun b hb => hterm a ha b hb]
  simp_rw [← Finset.mul_sum]
  have hsum : ∑ a ∈ Icc 1 Ksp, ∑ b ∈ Icc 1 Ksp, Spec.pairCount tr (binOf tr (dist2 rint tr)) a b k
      = Spec.pairCountAll tr (binOf tr (dist2 rint tr)) k := by
    unfold Spec.pairCount Spec.pairCountAll
    simp_rw [← pairHist_sum]
    apply pairHist_congr
    intro f hf i hi j hj
    rw [ind_pair_sum Ksp _ _ (hwf.types f hf i hi) (hwf.types f hf j hj)]
    simp
  rw [hsum]
  unfold Spec.gTotal Spec.gTotalOf
  field_simp

/-- the same in concentrations: g = Σ_ab c_a c_b g_ab with c_a = N_a / N -/
theorem C03_total_concentrations (rint : K → ℤ) (tr : Traj K) (Ksp : ℕ) (hwf : WF rint tr Ksp) (k : ℕ) :
    Spec.gTotal rint tr k
      = ∑ a ∈ Icc 1 Ksp, ∑ b ∈ Icc 1 Ksp,
          (((Spec.Na tr a : ℕ) : K) / (tr.N : K)) * (((Spec.Na tr b : ℕ) : K) / (tr.N : K)) * Spec.g rint tr a b k := by
  have hN : (tr.N : K) ≠ 0 := hwf.nonDeg.N_ne
  have h := C03_total rint tr Ksp hwf k
  have e : ∀ a b, (((Spec.Na tr a : ℕ) : K) / (tr.N : K)) * (((Spec.Na tr b : ℕ) : K) / (tr.N : K)) * Spec.g rint tr a b k
      = (((Spec.Na tr a : ℕ) : K) * ((Spec.Na tr b : ℕ) : K) * Spec.g rint tr a b k) * ((tr.N : K) * (tr.N : K))⁻¹ := by
    intro a b; field_simp
  simp_rw [e, ← Finset.sum_mul]
  rw [← h]
  field_simp

/-- **Bins.**  For each of the five regenerated methods: the returned `r` is the bin centre (k + ½)·δ; the
regenerated argument of `int(…)` is L_min/(2δ) (so the number of bins is int(L_min/(2·width)) — `int` = floor on
non-negatives is the contract); the bins start at zero, have the given width and are contiguous (edge_k = k·δ) -/
theorem C03_bins (tr : Traj K) (p : ℕ × Method) (hp : p ∈ methodOfK) (hδ : tr.rdelta ≠ 0) (k : ℕ) (cnt : K) :
    Impl.r defs p.2 tr k = Spec.r tr k ∧
    Impl.maxbinArg defs tr = Spec.maxbinArg tr ∧
    (Impl.env defs p.2 tr 0 cnt).binleft = 0 ∧
    (Impl.env defs p.2 tr k cnt).binright - (Impl.env defs p.2 tr k cnt).binleft = tr.rdelta ∧
    (Impl.env defs p.2 tr (k + 1) cnt).binleft = (Impl.env defs p.2 tr k cnt).binright := by
  simp only [methodOfK, List.mem_cons, List.not_mem_nil, or_false] at hp
  refine ⟨?_, ?_, ?_, ?_, ?_⟩
  · rcases hp with rfl | rfl | rfl | rfl | rfl <;>
    · simp only [Impl.r, Impl.env, Impl.env0, NExpr.eval, Env.get, unary, binary, ternary, quarternary, quinary, Spec.r]
      push_cast
      ring
  · simp only [Impl.maxbinArg, Impl.env0, NExpr.eval, Env.get, defs, Spec.maxbinArg, Spec.Lmin]
    push_cast
    field_simp
  · simp [Impl.env, Impl.env0]
  · simp only [Impl.env, Impl.env0]; push_cast; ring
  · simp [Impl.env, Impl.env0]

/-- the number of bins: floor of the regenerated expression = ⌊L_min / (2δ)⌋, and L_min is the smallest box length -/
theorem C03_maxbin [FloorSemiring K] (tr : Traj K) (hδ : tr.rdelta ≠ 0) (hd : 0 < tr.d) :
    ⌊Impl.maxbinArg defs tr⌋₊ = ⌊Spec.Lmin tr / (2 * tr.rdelta)⌋₊ ∧
    (∀ i < tr.d, Spec.Lmin tr ≤ tr.box i) ∧ (∃ i < tr.d, Spec.Lmin tr = tr.box i) := by
  refine ⟨?_, fun i hi => minRange_le tr.d tr.box i hi, minRange_mem tr.d hd tr.box⟩
  have h := (C03_bins tr (1, unary) (by decide +kernel) hδ 0 0).2.1
  rw [h]; unfold Spec.maxbinArg; norm_num

/-- "falls in bin k", stated on squared distances in the model, means k·δ ≤ dist < (k+1)·δ (≤ for the last bin,
np.histogram's convention) for any non-negative `s` with s·s = x (the distance) and positive width -/
theorem C03_bin_membership (δ : K) (hδ : 0 < δ) (maxbin k : ℕ) (x s : K) (hs : 0 ≤ s) (hx : s * s = x) :
    inBin δ maxbin x k = true ↔
      k < maxbin ∧ (k : K) * δ ≤ s ∧ (s < ((k : K) + 1) * δ ∨ (k + 1 = maxbin ∧ s ≤ ((k : K) + 1) * δ)) := by
  have hk : (0 : K) ≤ (k : K) * δ := mul_nonneg (Nat.cast_nonneg k) (le_of_lt hδ)
  have hk1 : (0 : K) ≤ ((k : K) + 1) * δ := mul_nonneg (by positivity) (le_of_lt hδ)
  have e1 : sq ((k : K) * δ) ≤ x ↔ (k : K) * δ ≤ s := by
    rw [← hx]; unfold sq; exact mul_self_le_mul_self_iff hk hs |>.symm
  have e2 : x < sq (((k + 1 : ℕ) : K) * δ) ↔ s < ((k : K) + 1) * δ := by
    rw [← hx]; unfold sq; push_cast; exact (mul_self_lt_mul_self_iff hs hk1).symm
  have e3 : x ≤ sq (((k + 1 : ℕ) : K) * δ) ↔ s ≤ ((k : K) + 1) * δ := by
    rw [← hx]; unfold sq; push_cast; exact (mul_self_le_mul_self_iff hs hk1).symm
  unfold inBin
  simp only [Bool.and_eq_true, Bool.or_eq_true, decide_eq_true_eq, beq_iff_eq, e1, e2, e3]
  tauto

/-- a distance falls in at most one bin (positive width) -/
theorem C03_bin_unique (δ : K) (hδ : 0 < δ) (maxbin k k' : ℕ) (x s : K) (hs : 0 ≤ s) (hx : s * s = x)
    (h : inBin δ maxbin x k = true) (h' : inBin δ maxbin x k' = true) : k = k' := by
  rw [C03_bin_membership δ hδ maxbin k x s hs hx] at h
  rw [C03_bin_membership δ hδ maxbin k' x s hs hx] at h'
  obtain ⟨hk, hlo, hhi⟩ := h
  obtain ⟨hk', hlo', hhi'⟩ := h'
  by_contra hne
  rcases Nat.lt_or_gt_of_ne hne with hlt | hlt
  · -- k < k': (k+1)δ ≤ k'δ ≤ s, so s is not below (k+1)δ and k is not the last bin
    have : ((k : K) + 1) * δ ≤ (k' : K) * δ := by
      apply mul_le_mul_of_nonneg_right _ (le_of_lt hδ); exact_mod_cast hlt
    rcases hhi with h1 | ⟨h1, _⟩
    · linarith
    · omega
  · have : ((k' : K) + 1) * δ ≤ (k : K) * δ := by
      apply mul_le_mul_of_nonneg_right _ (le_of_lt hδ); exact_mod_cast hlt
    rcases hhi' with h1 | ⟨h1, _⟩
    · linarith
    · omega

/-- non-vacuity: a concrete binary trajectory over ℚ (two frames, three particles, 2D) satisfies `WF` -/
def exampleTraj : Traj ℚ :=
  { d := 2, N := 3, T := 2,
    frame := fun f => { pos := fun i k => (i : ℚ) * (7 / 10) + (k : ℚ) / 5 + (f : ℚ) / 4,
                        typ := fun i => if i = 1 then 2 else 1,
                        H := fun i j => if i = j then 4 else 0,
                        Hinv := fun i j => if i = j then 1 / 4 else 0 },
    ppp := fun _ => 1, box := fun _ => 4, rdelta := 1 / 2, maxbin := 4, pi := 22 / 7,
    typecount := fun i => if i = 0 then 2 else 1 }

theorem C03_hypotheses_satisfiable : WF ratRint exampleTraj 2 := by
  refine ⟨ratRint_isRintHE, Or.inl rfl, by decide, by decide, by decide +kernel, by decide +kernel, by decide +kernel,
    ?_, ?_, ?_⟩
  · intro f _ i _
    simp only [exampleTraj]
    split <;> omega
  · intro a h1 h2
    have : a = 1 ∨ a = 2 := by omega
    rcases this with rfl | rfl <;> decide +kernel
  · intro a h1 h2
    have : a = 1 ∨ a = 2 := by omega
    rcases this with rfl | rfl <;> decide +kernel

end Pms.Gr
