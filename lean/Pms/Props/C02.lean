import Pms.Lemmas.Pbc
import Mathlib.Algebra.Order.BigOperators.Group.Finset
import Mathlib.Tactic.IntervalCases
import Mathlib.Tactic.NormNum

/-!
# C02 — minimum-image displacements (`PyMatterSim/utils/pbc.py::remove_pbc`)

Property theorems only.  `K` is any ordered field (so ℝ and ℚ); `d` any dimension;
`rint` any function meeting the `np.rint` contract `IsRintHE`; `Hinv` any two-sided
inverse of `H` (the contract of `np.linalg.inv`).
-/
open Finset
namespace Pms.Pbc
open Pms

variable {K : Type} [Field K] [LinearOrder K] [IsStrictOrderedRing K]

/-- output = input − Σ_i n_i·ppp_i·H_i with integer n_i -/
theorem C02_lattice (d : ℕ) (rint : K → ℤ) (H Hinv : ℕ → ℕ → K) (ppp r : ℕ → K)
    (hinv : IsInv d Hinv H) (k : ℕ) (hk : k < d) :
    removePbc d rint H Hinv ppp r k =
      r k - ∑ i ∈ range d, ((rint (frac d Hinv r i) : ℤ) : K) * ppp i * H i k := by
  have h1 := vecMul_inv d r Hinv H hinv k hk
  simp only [removePbc, frac, vecMul, sumRange_eq] at h1 ⊢
  rw [← h1, ← Finset.sum_sub_distrib]
  refine Finset.sum_congr rfl fun i _ => by ring

/-- fractional coordinates of the output -/
theorem C02_frac (d : ℕ) (rint : K → ℤ) (H Hinv : ℕ → ℕ → K) (ppp r : ℕ → K)
    (hinv : IsInv d H Hinv) (i : ℕ) (hi : i < d) :
    frac d Hinv (removePbc d rint H Hinv ppp r) i =
      frac d Hinv r i - ((rint (frac d Hinv r i) : ℤ) : K) * ppp i := by
  unfold removePbc frac
  exact vecMul_inv d _ H Hinv hinv i hi

/-- fractional coordinates lie in [-1/2, 1/2] on periodic axes and are untouched on the others -/
theorem C02_halfcell (d : ℕ) (rint : K → ℤ) (hr : IsRintHE rint)
    (H Hinv : ℕ → ℕ → K) (ppp r : ℕ → K) (hinv : IsInv d H Hinv) (i : ℕ) (hi : i < d) :
    (ppp i = 1 → |frac d Hinv (removePbc d rint H Hinv ppp r) i| ≤ 1/2) ∧
    (ppp i = 0 → frac d Hinv (removePbc d rint H Hinv ppp r) i = frac d Hinv r i) := by
  rw [C02_frac d rint H Hinv ppp r hinv i hi]
  constructor
  · intro h; rw [h, mul_one]; exact hr.near _
  · intro h; rw [h]; ring

/-- adding integer multiples of periodic cell vectors does not change the result,
away from exact half-cell ties -/
theorem C02_shift_invariant (d : ℕ) (rint : K → ℤ) (hr : IsRintHE rint)
    (H Hinv : ℕ → ℕ → K) (ppp r : ℕ → K) (m : ℕ → ℤ)
    (hinv : IsInv d H Hinv) (hp : ∀ i < d, ppp i = 0 ∨ ppp i = 1)
    (hnt : ∀ i < d, NoTie (frac d Hinv r i)) (k : ℕ) :
    removePbc d rint H Hinv ppp
        (fun k => r k + vecMul d (fun i => (m i : K) * ppp i) H k) k
      = removePbc d rint H Hinv ppp r k := by
  unfold removePbc
  apply vecMul_congr
  intro i hi
  have hf : vecMul d (fun k => r k + vecMul d (fun i => (m i : K) * ppp i) H k) Hinv i
      = vecMul d r Hinv i + (m i : K) * ppp i := by
    rw [vecMul_add, vecMul_inv d _ H Hinv hinv i hi]
  rw [hf]
  rcases hp i hi with h0 | h1
  · rw [h0]; simp
  · simp only [h1, mul_one]
    have hnt' := hnt i hi
    unfold frac at hnt'
    rw [hr.add_int _ hnt' (m i)]; push_cast; ring

/-- applying PBC removal twice equals applying it once -/
theorem C02_idempotent (d : ℕ) (rint : K → ℤ) (hr : IsRintHE rint)
    (H Hinv : ℕ → ℕ → K) (ppp r : ℕ → K)
    (hinv : IsInv d H Hinv) (hp : ∀ i < d, ppp i = 0 ∨ ppp i = 1) (k : ℕ) :
    removePbc d rint H Hinv ppp (removePbc d rint H Hinv ppp r) k
      = removePbc d rint H Hinv ppp r k := by
  conv_lhs => unfold removePbc
  conv_rhs => unfold removePbc
  apply vecMul_congr
  intro i hi
  have hf := C02_frac d rint H Hinv ppp r hinv i hi
  unfold frac removePbc at hf
  simp only at hf ⊢
  rw [hf]
  rcases hp i hi with h0 | h1
  · rw [h0]; simp
  · simp only [h1, mul_one]
    have := hr.zero _ (hr.near (vecMul d r Hinv i))
    rw [this]; simp

/-- odd symmetry: the image of −r is minus the image of r -/
theorem C02_odd (d : ℕ) (rint : K → ℤ) (hr : IsRintHE rint)
    (H Hinv : ℕ → ℕ → K) (ppp r : ℕ → K) (k : ℕ) :
    removePbc d rint H Hinv ppp (fun i => - r i) k = - removePbc d rint H Hinv ppp r k := by
  unfold removePbc
  rw [← vecMul_neg]
  apply vecMul_congr
  intro i _
  rw [vecMul_neg, hr.odd]; push_cast; ring

/-- a real at distance ≤ 1/2 from 0 is not farther from 0 than any of its integer translates -/
theorem abs_le_abs_add_int (g : K) (hg : |g| ≤ 1/2) (m : ℤ) : |g| ≤ |g + (m : K)| := by
  by_cases hm : m = 0
  · subst hm; simp
  · have h1 : (1 : K) ≤ |(m : K)| := by
      have : (1 : ℤ) ≤ |m| := Int.one_le_abs hm
      have : ((1 : ℤ) : K) ≤ ((|m| : ℤ) : K) := by exact_mod_cast this
      simpa using this
    have h2 : |(m : K)| ≤ |g + (m : K)| + |g| := by
      have := abs_sub (g + (m : K)) g
      simpa using this
    linarith

/-- orthogonal cell (H = diag L, L_i > 0): componentwise, hence in Euclidean norm, the
result is the shortest among all periodic images -/
theorem C02_orthogonal_shortest (d : ℕ) (rint : K → ℤ) (hr : IsRintHE rint)
    (L ppp r : ℕ → K) (hL : ∀ i < d, 0 < L i) (hp : ∀ i < d, ppp i = 0 ∨ ppp i = 1)
    (m : ℕ → ℤ) :
    let H : ℕ → ℕ → K := fun i k => if i = k then L i else 0
    let Hinv : ℕ → ℕ → K := fun i k => if i = k then 1 / L i else 0
    let out := removePbc d rint H Hinv ppp r
    (∀ k < d, out k ^ 2 ≤ (out k + (m k : K) * ppp k * L k) ^ 2) ∧
    ∑ k ∈ range d, out k ^ 2 ≤ ∑ k ∈ range d, (out k + (m k : K) * ppp k * L k) ^ 2 := by
  intro H Hinv out
  have hdiag : ∀ (v : ℕ → K) (D : ℕ → K) (k : ℕ), k < d →
      vecMul d v (fun i k => if i = k then D i else 0) k = v k * D k := by
    intro v D k hk
    simp only [vecMul, sumRange_eq]
    rw [Finset.sum_eq_single k]
    · simp
    · intro b _ hb; simp [hb]
    · intro h; exact absurd (Finset.mem_range.mpr hk) h
  have hout : ∀ k < d, out k = (r k / L k - ((rint (r k / L k) : ℤ) : K) * ppp k) * L k := by
    intro k hk
    show removePbc d rint H Hinv ppp r k = _
    unfold removePbc
    rw [hdiag _ L k hk, hdiag r (fun i => 1 / L i) k hk]
    ring_nf
  have hcomp : ∀ k < d, out k ^ 2 ≤ (out k + (m k : K) * ppp k * L k) ^ 2 := by
    intro k hk
    rw [hout k hk]
    have hLk := hL k hk
    set g := r k / L k - ((rint (r k / L k) : ℤ) : K) * ppp k with hg
    rcases hp k hk with h0 | h1
    · rw [h0]; simp
    · have hg' : |g| ≤ 1/2 := by rw [hg, h1, mul_one]; exact hr.near _
      have := abs_le_abs_add_int g hg' (m k)
      rw [h1, mul_one]
      have e : g * L k + (m k : K) * L k = (g + (m k : K)) * L k := by ring
      rw [e, mul_pow, mul_pow]
      apply mul_le_mul_of_nonneg_right _ (sq_nonneg _)
      rw [← sq_abs g, ← sq_abs (g + (m k : K))]
      exact pow_le_pow_left₀ (abs_nonneg g) this 2
  exact ⟨hcomp, Finset.sum_le_sum fun k hk => hcomp k (Finset.mem_range.mp hk)⟩

/-- the `np.rint` contract is satisfiable: the driver's exact half-even rounding meets it -/
theorem C02_contract_satisfiable : IsRintHE (K := ℚ) ratRint := ratRint_isRintHE

/-- non-vacuity: a concrete tilted 2-D cell with its inverse satisfies `IsInv` both ways -/
example : IsInv (K := ℚ) 2 (fun i k => if i = 0 ∧ k = 0 then 2 else if i = 1 ∧ k = 0 then 1 else if i = 1 ∧ k = 1 then 4 else 0)
    (fun i k => if i = 0 ∧ k = 0 then 1/2 else if i = 1 ∧ k = 0 then -1/8 else if i = 1 ∧ k = 1 then 1/4 else 0) := by
  intro i hi k hk
  interval_cases i <;> interval_cases k <;> norm_num [Finset.sum_range_succ]

end Pms.Pbc
