import Pms.Lemmas.Voro
import Pms.Lemmas.VoroMat
import Pms.Props.C05
import Mathlib.Algebra.Order.Field.Basic
import Mathlib.Tactic.NormNum
import Mathlib.Tactic.IntervalCases

/-!
# C20 — Voronoi neighbour output and the volume-response matrix
(`PyMatterSim/neighbors/freud_neighbors.py`, hand-off to `read_neighbors.py`)

Property theorems only.  freud's tessellation is an external library: NOTHING is proved about it.  What it returned for
a frame is `raw : Raw α` (`voro.nlist`, its weights, `voro.volumes`); its contract, as far as the writer needs it, is
`WF raw N` (sorted by the first index, every particle listed, one weight per bond, one volume per particle), a
hypothesis that is monitored at run time.  For the volume matrix freud is a parameter `voro`, or its finite-difference
volumes `V1`/`V2` are data.  `np.linalg.inv` is a parameter `M`; the theorems that need `M` to be an inverse say so.

All statements hold for every particle number, every number of frames, every neighbour list meeting the stated
hypotheses, every `Nmax`, every trailing file content; `K` is any ordered field / field (ℝ, ℚ), `R` any ring.
The index expressions, constants and format precisions are the ones REGENERATED from the source (`Pms/Gen/Voro.lean`).
-/
namespace Pms.Voro
open Pms Pms.Neigh Finset

/-! ## the three files -/
section Files
variable {α : Type} [OfNat α 0]

/-- `cal_neighbors` on any number of frames that meet freud's contract: the guard never fires and the neighbour file
is, frame after frame, header + one line per particle in id order with the 1-based ids of exactly the neighbours freud
lists for that particle (C05's `render` of the adjacency table); the bond file the same with the `%.6f` weights of
those bonds in the same order; the overall file one header and then one `id cn volume` line per particle per frame. -/
theorem C20_rows (fmt : ℕ → α → String) (ndim : ℕ) (frames : List (Raw α))
    (h : ∀ raw ∈ frames, WF raw raw.volumes.length) :
    Impl.calNeighbors fmt ndim frames = .ok
      { neighbor := frames.flatMap fun raw => Spec.neighborFrame raw raw.volumes.length,
        bond := frames.flatMap fun raw => Spec.bondFrame fmt ndim raw raw.volumes.length,
        overall := Gen.Voro.hdrOverall :: frames.flatMap fun raw => Spec.overallRows fmt raw raw.volumes.length } := by
  unfold Impl.calNeighbors
  rw [framesLines_wf fmt ndim frames h]

/-- the shape of one written frame: `N` rows after the header, row `i` carries id `i+1`, and its coordination number
is the number of listed neighbours, which is the number of listed weights; the coordination numbers add up to the
length of freud's neighbour list. -/
theorem C20_rows_shape (fmt : ℕ → α → String) (ndim : ℕ) (raw : Raw α) (N : ℕ) (h : WF raw N) :
    (Spec.neighborFrame raw N).length = N + 1 ∧ (Spec.bondFrame fmt ndim raw N).length = N + 1 ∧
    (Spec.overallRows fmt raw N).length = N ∧
    (∀ i, i < N →
      (Spec.neighborFrame raw N).getD (i + 1) [] =
        Nat.repr (i + 1) :: Nat.repr (adj raw i).length :: (adj raw i).map (fun j => Nat.repr (j + 1)) ∧
      (Spec.bondFrame fmt ndim raw N).getD (i + 1) [] =
        Nat.repr (i + 1) :: Nat.repr (adj raw i).length :: (adjW raw i).map (fmt 6) ∧
      (adjW raw i).length = (adj raw i).length ∧
      (Spec.overallRows fmt raw N).getD i [] =
        [Nat.repr (i + 1), Nat.repr (adj raw i).length, fmt 6 (raw.volumes.getD i 0)]) ∧
    ((List.range N).map fun i => (adj raw i).length).sum = raw.nlist.length := by
  refine ⟨?_, ?_, ?_, ?_, ?_⟩
  · simp [Spec.neighborFrame, render, length_renderTok, adjTable]
  · simp [Spec.bondFrame, length_renderTok]
  · simp [Spec.overallRows]
  · intro i hi
    refine ⟨?_, ?_, length_adjW raw h.wlen i, ?_⟩
    · rw [neighborFrame_line raw N i hi]; simp [rowLine, idToks, idToksOff]
    · unfold Spec.bondFrame
      rw [renderTok_line _ N i hi]
      simp [rowLine, length_adjW raw h.wlen i]
    · unfold Spec.overallRows
      rw [List.getD_eq_getElem?_getD, List.getElem?_map, List.getElem?_range hi]; rfl
  · have := sum_block_lengths (fun p : ℕ × ℕ => p.1) raw.nlist N
    simp only [adj, List.length_map]
    rw [this, List.filter_eq_self.mpr (by intro p hp; simpa using h.bound p hp)]

/-- the overall file has one header line and one line per particle per frame -/
theorem C20_overall_lines (fmt : ℕ → α → String) (ndim : ℕ) (frames : List (Raw α)) (N : ℕ)
    (h : ∀ raw ∈ frames, WF raw N) (files : Files) (hf : Impl.calNeighbors fmt ndim frames = .ok files) :
    files.overall.length = 1 + N * frames.length ∧ files.neighbor.length = (N + 1) * frames.length ∧
    files.bond.length = (N + 1) * frames.length := by
  have h' : ∀ raw ∈ frames, WF raw raw.volumes.length := fun raw hr => by rw [(h raw hr).vlen]; exact h raw hr
  rw [C20_rows fmt ndim frames h'] at hf
  simp only [Except.ok.injEq] at hf
  subst hf
  simp only [List.length_cons, List.length_flatMap]
  have e1 : ∀ raw ∈ frames, (Spec.overallRows fmt raw raw.volumes.length).length = N := by
    intro raw hr; simp [Spec.overallRows, (h raw hr).vlen]
  have e2 : ∀ raw ∈ frames, (Spec.neighborFrame raw raw.volumes.length).length = N + 1 := by
    intro raw hr; simp [Spec.neighborFrame, render, length_renderTok, adjTable, (h raw hr).vlen]
  have e3 : ∀ raw ∈ frames, (Spec.bondFrame fmt ndim raw raw.volumes.length).length = N + 1 := by
    intro raw hr; simp [Spec.bondFrame, length_renderTok, (h raw hr).vlen]
  rw [List.map_congr_left e1, List.map_congr_left e2, List.map_congr_left e3]
  simp only [List.map_const', List.sum_replicate, smul_eq_mul]
  refine ⟨by ring, by ring, by ring⟩

/-! ### the guard -/

/-- what the guard guarantees (PARTIAL with respect to `C20_guard_FullStatement` below, which is false for this code):
a frame is written only if the first indices that occur in freud's list are exactly
`0 .. K-1` for the number `K` of rows written, and the only error the row loop can produce is the guard's. -/
theorem C20_guard_partial (raw : Raw α) :
    (∀ rows, Impl.frameRows raw = .ok rows → ∀ a, (∃ j, (a, j) ∈ raw.nlist) ↔ a < rows.length) ∧
    (∀ e, Impl.frameRows raw = .error e → e = "neighbor list not sorted") :=
  ⟨fun rows h a => frameRows_ok_cover raw rows h a,
   fun e h => by unfold Impl.frameRows at h; exact walk_error _ _ _ _ _ _ _ _ h⟩

/-- hence: a list in which some particle index below an occurring one has no bond (not covering) raises, for the frame
and for the whole call -/
theorem C20_guard_raises (fmt : ℕ → α → String) (ndim : ℕ) (frames : List (Raw α)) (raw : Raw α) (hm : raw ∈ frames)
    (hbad : ¬ ∃ K, ∀ a, (∃ j, (a, j) ∈ raw.nlist) ↔ a < K) :
    Impl.frameRows raw = .error "neighbor list not sorted" ∧
    Impl.calNeighbors fmt ndim frames = .error "neighbor list not sorted" := by
  have h1 : Impl.frameRows raw = .error "neighbor list not sorted" := by
    cases hr : Impl.frameRows raw with
    | ok rows => exact absurd ⟨rows.length, frameRows_ok_cover raw rows hr⟩ hbad
    | error e => rw [(C20_guard_partial raw).2 e hr]
  refine ⟨h1, ?_⟩
  unfold Impl.calNeighbors
  rw [framesLines_error fmt ndim frames raw _ hm h1]

/-- the FULL statement one might expect of a guard called "neighbor list not sorted" — every list that is not sorted
by its first index raises — is FALSE for this guard (it only inspects the first entry of every block)… -/
def C20_guard_FullStatement : Prop :=
  ∀ raw : Raw ℕ, ¬ raw.nlist.Pairwise (fun a b => a.1 ≤ b.1) → ∃ e, Impl.frameRows raw = .error e

/-- … witnessed by the list `(0,1) (1,0) (1,2) (0,2)`: not sorted, passes.  freud's contract (sorted) is therefore a
genuine hypothesis of `C20_rows`; it is monitored on freud's raw output at run time. -/
theorem C20_guard_FullStatement_refuted : ¬ C20_guard_FullStatement := by
  intro h
  obtain ⟨e, he⟩ := h { nlist := [(0, 1), (1, 0), (1, 2), (0, 2)], weights := [1, 1, 1, 1], volumes := [1, 1] }
    (by decide)
  have : ∃ rows, Impl.frameRows (α := ℕ)
      { nlist := [(0, 1), (1, 0), (1, 2), (0, 2)], weights := [1, 1, 1, 1], volumes := [1, 1] } = .ok rows :=
    ⟨_, rfl⟩
  obtain ⟨rows, hr⟩ := this
  rw [hr] at he
  cases he

/-! ### symmetry and weights -/

omit [OfNat α 0] in
/-- the relation written in a neighbour frame is freud's relation: `j+1` is listed for `i+1` iff `(i, j)` is a bond
(with multiplicity: in a small periodic cell two particles can share several faces); hence the file relation is
symmetric iff freud's list is; and the list of `(i, j, weight)` triples the files contain, row by row, is freud's
bond list itself — nothing dropped, duplicated, reordered or re-paired. -/
theorem C20_symmetry_preserved (raw : Raw α) (N : ℕ) (h : WF raw N) (h2 : ∀ p ∈ raw.nlist, p.2 < N) :
    (∀ i j, i < N → (fileRel (Spec.neighborFrame raw N) i j ↔ (i, j) ∈ raw.nlist)) ∧
    (∀ i j, i < N → (((Spec.neighborFrame raw N).getD (i + 1) []).drop 2).count (Nat.repr (j + 1))
        = raw.nlist.count (i, j)) ∧
    ((∀ i j, i < N → j < N → fileRel (Spec.neighborFrame raw N) i j → fileRel (Spec.neighborFrame raw N) j i)
      ↔ (∀ i j, (i, j) ∈ raw.nlist → (j, i) ∈ raw.nlist)) ∧
    ((List.range N).flatMap (fun i => ((adj raw i).zip (adjW raw i)).map fun q => (i, q.1, q.2))
      = (raw.nlist.zip raw.weights).map fun p => (p.1.1, p.1.2, p.2)) := by
  refine ⟨fun i j hi => fileRel_neighborFrame raw N i j hi, ?_, ?_, bonds_preserved raw N h⟩
  · intro i j hi
    rw [neighborFrame_line raw N i hi, ← count_adj]
    simp only [rowLine, List.drop_succ_cons, List.drop_zero, idToks, idToksOff]
    exact List.count_map_of_injective (adj raw i) (fun j : ℕ => Nat.repr (j + 1))
      (fun a b hab => by have := repr_inj hab; omega) j
  · constructor
    · intro hs i j hij
      have hi := h.bound _ hij
      have hj := h2 _ hij
      exact (fileRel_neighborFrame raw N j i hj).mp
        (hs i j hi hj ((fileRel_neighborFrame raw N i j hi).mpr hij))
    · intro hs i j hi hj hf
      exact (fileRel_neighborFrame raw N j i hj).mpr (hs i j ((fileRel_neighborFrame raw N i j hi).mp hf))

end Files

/-- what `%.6f` preserves of "positive and equal in both directions" (for any `rint` meeting the `np.rint` contract;
`round6 rint x` is the value of the written token): equal weights are written as the same value; weights that differ
by ε are read back at most ε + 10⁻⁶ apart; a non-negative weight is read back non-negative, a weight ≥ 10⁻⁶ positive
(a positive weight below 5·10⁻⁷ is written as `0.000000`: positivity is preserved only from 10⁻⁶ on); the written
volumes add up to the sum of the cell volumes up to half a unit of the last digit per particle. -/
theorem C20_weights_rounding {K : Type} [Field K] [LinearOrder K] [IsStrictOrderedRing K] (rint : K → ℤ)
    (hr : IsRintHE rint) :
    (∀ a b : K, a = b → round6 rint a = round6 rint b) ∧
    (∀ a b : K, |round6 rint a - round6 rint b| ≤ |a - b| + 1 / 10 ^ 6) ∧
    (∀ a : K, |round6 rint a - a| ≤ 1 / 2 / 10 ^ 6) ∧
    (∀ a : K, 0 ≤ a → 0 ≤ round6 rint a) ∧ (∀ a : K, 1 / 10 ^ 6 ≤ a → 0 < round6 rint a) ∧
    (∀ (vols : List K) (V : K), |(vols.map (round6 rint)).sum - V| ≤ |vols.sum - V| + (vols.length : K) * (1 / 2 / 10 ^ 6)) := by
  refine ⟨fun a b e => by rw [e], round6_close rint hr, round6_err rint hr, round6_nonneg rint hr,
    round6_pos rint hr, ?_⟩
  intro vols V
  have h1 := sum_round6 rint hr vols
  have e : (vols.map (round6 rint)).sum - V = ((vols.map (round6 rint)).sum - vols.sum) + (vols.sum - V) := by ring
  rw [e]
  have := abs_add_le ((vols.map (round6 rint)).sum - vols.sum) (vols.sum - V)
  linarith

/-- volume sum as a corollary of freud's contract: if the cell volumes add up to the box volume `V`, the volumes read
back from the overall file add up to `V` within `N · 0.5·10⁻⁶` -/
theorem C20_volume_sum {K : Type} [Field K] [LinearOrder K] [IsStrictOrderedRing K] (rint : K → ℤ)
    (hr : IsRintHE rint) (vols : List K) (V : K) (hV : vols.sum = V) :
    |(vols.map (round6 rint)).sum - V| ≤ (vols.length : K) * (1 / 2 / 10 ^ 6) := by
  have := (C20_weights_rounding rint hr).2.2.2.2.2 vols V
  rw [hV, sub_self, abs_zero, zero_add] at this
  exact this

/-! ## hand-off to the neighbour-file reader (C05's model of `read_neighbors`) -/
section Reader
variable {R : Type} [Ring R]

/-- any number of frames of a file whose header does not contain `neighborlist` (the Voronoi bond files), read back
by successive calls on ONE handle with a per-call `Nmax`: values unshifted, cn / padding / truncation layout, handle
left at the first unread frame -/
theorem C20_weights_file_roundtrip (pNum : String → R) (hdr : Line) (hh : isNeighborList hdr = false) (n : ℕ)
    (frames : List (List (List String))) (hn : ∀ fr ∈ frames, fr.length = n)
    (nmaxs : List ℕ) (hlen : nmaxs.length ≤ frames.length) (rest : Lines) :
    Impl.readFrames pNum (frames.flatMap (renderTok hdr) ++ rest) n nmaxs =
      (List.zipWith (fun Nmax fr => Spec.expectedVals Nmax (fr.map fun toks => toks.map pNum)) nmaxs frames,
       (frames.drop nmaxs.length).flatMap (renderTok hdr) ++ rest) := by
  induction nmaxs generalizing frames with
  | nil => simp [Impl.readFrames]
  | cons m ms ih =>
    cases frames with
    | nil => simp at hlen
    | cons fr frs =>
      have hfr : fr.length = n := hn fr List.mem_cons_self
      simp only [Impl.readFrames, List.flatMap_cons, List.append_assoc]
      rw [← hfr, C05_weights_branch pNum hdr hh fr m]
      simp only
      rw [hfr, ih frs (fun f hf => hn f (List.mem_cons_of_mem _ hf)) (by simpa using hlen)]
      simp

variable {α : Type} [OfNat α 0]

/-- the files `cal_neighbors` writes are readable by `read_neighbors`, any number of frames sequentially from one
handle, any `Nmax` per call, anything after the frames: the neighbour file gives, per frame, cn and the ZERO-BASED
indices of freud's neighbours (truncated to `Nmax`, zero-padded to the largest cn) — `Spec.expectedTable` of the
adjacency table; the bond file goes through the weights branch and gives the written weights `rd w = float("%.6f" % w)`
in the same layout, with no shift.  `float()` is any function with `float(str(m)) = m`. -/
theorem C20_reader_handoff (fmt : ℕ → α → String) (ndim : ℕ) (frames : List (Raw α)) (N : ℕ)
    (h : ∀ raw ∈ frames, WF raw N) (files : Files) (hf : Impl.calNeighbors fmt ndim frames = .ok files)
    (pNum : String → R) (hpn : ∀ m : ℕ, pNum (Nat.repr m) = (m : R)) (rd : α → R)
    (hrd : ∀ w, pNum (fmt 6 w) = rd w) (nmaxs : List ℕ) (hlen : nmaxs.length ≤ frames.length) (rest : Lines) :
    Impl.readFrames pNum (files.neighbor ++ rest) N nmaxs =
      (List.zipWith Spec.expectedTable nmaxs (frames.map fun raw => adjTable raw N),
       (frames.drop nmaxs.length).flatMap (fun raw => Spec.neighborFrame raw N) ++ rest) ∧
    Impl.readFrames pNum (files.bond ++ rest) N nmaxs =
      (List.zipWith (fun Nmax raw => Spec.expectedVals Nmax ((List.range N).map fun i => (adjW raw i).map rd))
          nmaxs frames,
       (frames.drop nmaxs.length).flatMap (fun raw => Spec.bondFrame fmt ndim raw N) ++ rest) := by
  have h' : ∀ raw ∈ frames, WF raw raw.volumes.length := fun raw hr => by rw [(h raw hr).vlen]; exact h raw hr
  rw [C20_rows fmt ndim frames h'] at hf
  simp only [Except.ok.injEq] at hf
  subst hf
  simp only
  have eN : ∀ (g : Raw α → ℕ → Lines) (l : List (Raw α)), (∀ raw ∈ l, raw ∈ frames) →
      (l.flatMap fun raw => g raw raw.volumes.length) = l.flatMap fun raw => g raw N := by
    intro g l hl
    apply List.flatMap_congr
    intro raw hr; rw [(h raw (hl raw hr)).vlen]
  rw [eN (fun raw n => Spec.neighborFrame raw n) frames (fun _ hr => hr),
    eN (fun raw n => Spec.bondFrame fmt ndim raw n) frames (fun _ hr => hr)]
  constructor
  · have := C05_file_roundtrip pNum hpn N (frames.map fun raw => adjTable raw N)
      (by intro fr hfr; obtain ⟨raw, _, rfl⟩ := List.mem_map.mp hfr; simp [adjTable])
      nmaxs (by simpa using hlen) rest
    rw [List.flatMap_map, ← List.map_drop, List.flatMap_map] at this
    exact this
  · have hb : isNeighborList (bondHeader ndim) = false := by
      unfold bondHeader; split <;> decide
    have := C20_weights_file_roundtrip pNum (bondHeader ndim) hb N
      (frames.map fun raw => (List.range N).map fun i => (adjW raw i).map (fmt 6))
      (by intro fr hfr; obtain ⟨raw, _, rfl⟩ := List.mem_map.mp hfr; simp)
      nmaxs (by simpa using hlen) rest
    rw [List.flatMap_map, ← List.map_drop, List.flatMap_map, List.zipWith_map_right] at this
    rw [show (fun raw => Spec.bondFrame fmt ndim raw N)
        = fun raw => renderTok (bondHeader ndim) ((List.range N).map fun i => (adjW raw i).map (fmt 6)) from rfl]
    rw [this]
    congr 2
    funext Nmax raw
    congr 1
    rw [List.map_map]
    apply List.map_congr_left
    intro i _
    simp [Function.comp_def, hrd]

end Reader

/-! ## VolumeMatrix -/
section Matrix
variable {K : Type} [Field K]

/-- refinement: the loops of `VolumeMatrix` (placement by `condition`, self-term slice assignment, normalisation by
`original`) produce exactly the definition — central differences `(V1−V2)/(2δ)` of the volume of cell `k` with respect
to coordinate `j` of particle `i` in column `ndim·i+j`, the self response minus the sum of the responses to all other
particles, everything relative to the cell's own volume — in every entry of the `N × ndim·N` array; and the
transformed matrix is `Aᵀ·M·A`. -/
theorem C20_volume_refines (N ndim : ℕ) (V1 V2 : ℕ → ℕ → ℕ → K) (δ : K) (orig : ℕ → K) :
    (∀ k c, k < N → c < ndim * N →
      Impl.volumeMatrix N ndim V1 V2 δ orig k c = Spec.matrixA N ndim V1 V2 δ orig k c) ∧
    (∀ (A M : ℕ → ℕ → K) r c, Impl.transform N A M r c = Spec.projector N A M r c) :=
  ⟨fun k c hk hc => volumeMatrix_refines N ndim V1 V2 δ orig k c hk hc,
   fun A M r c => transform_eq_projector N A M r c⟩

/-- "rows that sum to zero over each displaced coordinate", for BOTH return values and ALL data (any finite-difference
volumes, any `deltar`, any `original` — so the property holds right after the self-term assignment, `original ≡ 1`,
and is preserved by the row normalisation):
* raw matrix (`transform_matrix=False`, shape `N × ndim·N`): for every cell `k` and coordinate `d`,
  `Σ_i A[k, ndim·i+d] = 0` (a rigid translation of all particles changes no volume);
* transformed matrix (`transform_matrix=True`, shape `ndim·N × ndim·N`): for every row `r` and coordinate `d`,
  `Σ_i P[r, ndim·i+d] = 0` — for ANY matrix `M` in place of the inverse (`P·t_d = Aᵀ·M·(A·t_d) = 0`). -/
theorem C20_rowsum_zero (N ndim : ℕ) (V1 V2 : ℕ → ℕ → ℕ → K) (δ : K) (orig : ℕ → K) (d : ℕ) (hd : d < ndim) :
    (∀ k, k < N → ∑ i ∈ range N, Impl.volumeMatrix N ndim V1 V2 δ orig k (ndim * i + d) = 0) ∧
    (∀ (M : ℕ → ℕ → K) r,
      ∑ i ∈ range N, Impl.transform N (Impl.volumeMatrix N ndim V1 V2 δ orig) M r (ndim * i + d) = 0) := by
  have hraw : ∀ k, k < N → ∑ i ∈ range N, Impl.volumeMatrix N ndim V1 V2 δ orig k (ndim * i + d) = 0 := by
    intro k hk
    rw [← spec_rowsum N ndim V1 V2 δ orig k d hk hd]
    apply Finset.sum_congr rfl
    intro i hi
    have hi' := Finset.mem_range.mp hi
    apply volumeMatrix_refines _ _ _ _ _ _ _ _ hk
    calc ndim * i + d < ndim * i + ndim := by omega
      _ = ndim * (i + 1) := by ring
      _ ≤ ndim * N := Nat.mul_le_mul_left _ (by omega)
  exact ⟨hraw, fun M r => transform_rowsum N ndim _ M d hraw r⟩

/-- with the inverse contract (`M` a right inverse of `A·Aᵀ` on the `N × N` block — what `np.linalg.inv` is asked
for) the transformed matrix is a symmetric idempotent (the orthogonal projector onto the row space of `A`); by symmetry
its COLUMNS sum to zero over each displaced coordinate as well. -/
theorem C20_transform_projector (N ndim : ℕ) (V1 V2 : ℕ → ℕ → ℕ → K) (δ : K) (orig : ℕ → K) (M : ℕ → ℕ → K)
    (hinv : ∀ k l, k < N → l < N →
      ∑ m ∈ range N, Impl.gram N ndim (Impl.volumeMatrix N ndim V1 V2 δ orig) k m * M m l = if k = l then 1 else 0) :
    let P := Impl.transform N (Impl.volumeMatrix N ndim V1 V2 δ orig) M
    (∀ r s, r < N * ndim → s < N * ndim → ∑ c ∈ range (N * ndim), P r c * P c s = P r s) ∧
    (∀ r s, r < N * ndim → s < N * ndim → P r s = P s r) ∧
    (∀ s d, s < N * ndim → d < ndim → ∑ i ∈ range N, P (ndim * i + d) s = 0) := by
  intro P
  have hp := transform_projector N (N * ndim) (Impl.volumeMatrix N ndim V1 V2 δ orig) M (by
    intro k l hk hl
    have := hinv k l hk hl
    simpa only [Impl.gram, sumRange_eq] using this)
  refine ⟨hp.1, hp.2, ?_⟩
  intro s d hs hd
  rw [← (C20_rowsum_zero N ndim V1 V2 δ orig d hd).2 M s]
  apply Finset.sum_congr rfl
  intro i hi
  have hi' := Finset.mem_range.mp hi
  refine (hp.2 s (ndim * i + d) hs ?_).symm
  calc ndim * i + d < ndim * i + ndim := by omega
    _ = (i + 1) * ndim := by ring
    _ ≤ N * ndim := Nat.mul_le_mul_right _ (by omega)

end Matrix

section FrameIndex
variable {β K : Type} [Field K]

/-- the requested frame is used: for any trajectory and any valid frame index `nconfig`, `VolumeMatrix` works on the box
and the points of frame `nconfig`, the particle number is the number of rows of THAT frame's points, and the result is
the volume matrix of the finite-difference volumes freud returns for that frame's points moved by ±δ. -/
theorem C20_frame_index (voro : β → (ℕ → ℕ → K) → ℕ → K) (frames : List (Frame β K)) (nconfig ndim : ℕ) (δ : K)
    (fr : Frame β K) (h : frames[nconfig]? = some fr) :
    Impl.vmSelect frames nconfig = .ok (fr.box, fr.pts, fr.pts.length) ∧
    Impl.volumeMatrixOf voro frames nconfig ndim δ =
      .ok (fr.pts.length,
           Impl.volumeMatrix fr.pts.length ndim (fun i j => voro fr.box (pertPlus (ptsFn fr.pts) i j δ))
             (fun i j => voro fr.box (pertMinus (ptsFn fr.pts) i j δ)) δ (voro fr.box (ptsFn fr.pts))) := by
  have hs : Impl.vmSelect frames nconfig = .ok (fr.box, fr.pts, fr.pts.length) := by
    unfold Impl.vmSelect Gen.Voro.vmBoxIndex Gen.Voro.vmPointsIndex Gen.Voro.vmShapeAxis
    rw [h]; rfl
  refine ⟨hs, ?_⟩
  unfold Impl.volumeMatrixOf
  rw [hs]
  simp

/-- so the result depends on nothing but the requested frame; a frame index beyond the trajectory is Python's
IndexError -/
theorem C20_frame_independent (voro : β → (ℕ → ℕ → K) → ℕ → K) (frames frames' : List (Frame β K)) (nconfig ndim : ℕ)
    (δ : K) :
    (frames[nconfig]? = frames'[nconfig]? → nconfig < frames.length →
      Impl.volumeMatrixOf voro frames nconfig ndim δ = Impl.volumeMatrixOf voro frames' nconfig ndim δ) ∧
    (frames.length ≤ nconfig →
      Impl.volumeMatrixOf voro frames nconfig ndim δ = .error "IndexError: list index out of range") := by
  constructor
  · intro he hl
    obtain ⟨fr, hfr⟩ : ∃ fr, frames[nconfig]? = some fr := ⟨frames[nconfig], List.getElem?_eq_getElem hl⟩
    rw [(C20_frame_index voro frames nconfig ndim δ fr hfr).2,
      (C20_frame_index voro frames' nconfig ndim δ fr (he ▸ hfr)).2]
  · intro hl
    have : frames[nconfig]? = none := List.getElem?_eq_none hl
    unfold Impl.volumeMatrixOf Impl.vmSelect Gen.Voro.vmBoxIndex Gen.Voro.vmPointsIndex
    rw [this]

/-- the three in-place updates `+= δ`, `-= 2δ`, `+= δ`: freud sees the points with coordinate `(i, j)` at `x+δ`, then
at `x−δ`, and the array is back at `x` before the next coordinate is perturbed (in a field; in float64 up to rounding,
which is why the correspondence replays the same three updates) -/
theorem C20_perturb_restores (p : ℕ → ℕ → K) (i j : ℕ) (δ : K) :
    pertPlus p i j δ i j = p i j + δ ∧ pertMinus p i j δ i j = p i j - δ ∧ pertBack p i j δ = p ∧
    (∀ a b, ¬ (a = i ∧ b = j) → pertPlus p i j δ a b = p a b ∧ pertMinus p i j δ a b = p a b) := by
  refine ⟨by simp [pertPlus, setAt], by simp [pertMinus, setAt]; ring, ?_, ?_⟩
  · funext a b
    unfold pertBack setAt
    split
    · rename_i h; rw [h.1, h.2]; ring
    · rfl
  · intro a b hab
    simp [pertPlus, pertMinus, setAt, hab]

end FrameIndex

/-! ## convert_configuration -/
section Convert
variable {K : Type} [Field K] [LinearOrder K] [IsStrictOrderedRing K]

/-- coordinates handed to freud, for any box origin: when `boxbounds.sum() ≠ 0` they are the positions relative to the
box centre `lo + L/2`; in every case they differ from those by one constant vector (a rigid translation, which a
periodic tessellation does not see — freud's contract), and by nothing when the box is centred on the origin; a position
inside the box lands in `[-L/2, L/2]`; in 2D a zero z column is appended (3 columns either way). -/
theorem C20_convert (d : ℕ) (lo hi len : ℕ → K) (pos : ℕ → ℕ → K) :
    (boundsSum d lo hi ≠ 0 → ∀ i k, k < d → Impl.convert d lo hi len pos i k = Spec.centre lo len pos i k) ∧
    (∃ t : ℕ → K, ∀ i k, k < d → Impl.convert d lo hi len pos i k = Spec.centre lo len pos i k + t k) ∧
    ((∀ k, k < d → lo k + len k / 2 = 0) → ∀ i k, k < d →
      Impl.convert d lo hi len pos i k = Spec.centre lo len pos i k) ∧
    (∀ i k, lo k ≤ pos i k → pos i k ≤ lo k + len k →
      -(len k / 2) ≤ Spec.centre lo len pos i k ∧ Spec.centre lo len pos i k ≤ len k / 2) ∧
    (d = 2 → ∀ i, Impl.convert d lo hi len pos i 2 = 0) ∧
    Impl.convertWidth 2 = 3 ∧ Impl.convertWidth 3 = 3 := by
  have hgen : ∀ i k, k < d → Impl.convert d lo hi len pos i k =
      if boundsSum d lo hi ≠ 0 then pos i k - (lo k + len k / 2) else pos i k := by
    intro i k hk
    unfold Impl.convert testZero Gen.Voro.shiftTest Gen.Voro.shiftExpr Gen.Voro.padDim
    have : ¬ (d = 2 ∧ k = d) := by omega
    rw [if_neg this]
    simp
  refine ⟨?_, ?_, ?_, ?_, ?_, rfl, rfl⟩
  · intro hs i k hk; rw [hgen i k hk, if_pos hs]; rfl
  · refine ⟨fun k => if boundsSum d lo hi ≠ 0 then 0 else lo k + len k / 2, ?_⟩
    intro i k hk
    rw [hgen i k hk]
    unfold Spec.centre
    split <;> ring
  · intro hc i k hk
    rw [hgen i k hk]
    unfold Spec.centre
    split
    · rfl
    · rw [hc k hk, sub_zero]
  · intro i k h1 h2
    unfold Spec.centre
    constructor <;> linarith
  · intro hd i
    unfold Impl.convert Gen.Voro.padDim
    rw [if_pos ⟨hd, hd.symm⟩]

end Convert

/-! ## the tie to the source -/

/-- every constant / index expression regenerated from `freud_neighbors.py` is the one the theorems above were proved
with; in particular `num_particles = points.shape[0]`, the box and the points come from frame `nconfig`, the column of
coordinate `j` of particle `i` is `ndim·i+j`, the self-term slice is `ndim·i : ndim·i+ndim` with a minus sign, ids are
shifted by 1, the bond/volume precision is 6, the guard is `atomid ≠ nlist[nn,0] ∨ i+1 ≠ atomid`, and both `np.save`
calls write the array that is returned into `outputfile`. -/
theorem C20_source_constants :
    (∀ n, Gen.Voro.vmBoxIndex n = n ∧ Gen.Voro.vmPointsIndex n = n ∧ Gen.Voro.vmShapeAxis n = 0) ∧
    (∀ nd i j, Gen.Voro.vmCol nd i j = nd * i + j ∧ Gen.Voro.vmSelfLo nd i = nd * i ∧
      Gen.Voro.vmSelfHi nd i = nd * i + nd) ∧
    Gen.Voro.selfNeg = true ∧ Gen.Voro.idShift = 1 ∧ Gen.Voro.wDecimals = 6 ∧ Gen.Voro.volDecimals = 6 ∧
    (∀ c, Gen.Voro.cnExpr c = c) ∧
    (∀ a f i, Gen.Voro.guardFails a f i = ((a != f) || (i + 1 != a))) ∧
    Gen.Voro.shiftTest = "NotEq" ∧ Gen.Voro.padDim = 2 ∧ Gen.Voro.edgeDim = 2 ∧
    (∀ x y : ℚ, Gen.Voro.shiftExpr x y = x + y / 2) ∧ (∀ a b c : ℚ, Gen.Voro.fd a b c = (a - b) / 2 / c) ∧
    Gen.Voro.vmSaveRaw = ["outputfile", Gen.Voro.vmRetRaw] ∧
    Gen.Voro.vmSaveTrans = ["outputfile", Gen.Voro.vmRetTrans] ∧
    Impl.saveOutcome Gen.Voro.vmSaveRaw Gen.Voro.vmRetRaw = .ok true ∧
    Impl.saveOutcome Gen.Voro.vmSaveTrans Gen.Voro.vmRetTrans = .ok true ∧
    Gen.Voro.hdrNeighbor = header ∧ isNeighborList Gen.Voro.hdrNeighbor = true ∧
    isNeighborList Gen.Voro.hdrEdge = false ∧ isNeighborList Gen.Voro.hdrFace = false ∧
    Gen.Voro.hdrOverall = ["id", "cn", "area_or_volume"] ∧
    Gen.Voro.suffixes = [".overall.dat", ".neighbor.dat", ".edgelength.dat", ".facearea.dat"] := by
  refine ⟨fun n => ⟨rfl, rfl, rfl⟩, fun nd i j => ⟨rfl, rfl, rfl⟩, rfl, rfl, rfl, rfl, fun c => rfl,
    fun a f i => rfl, by decide, rfl, rfl, fun x y => rfl, fun a b c => rfl, by decide, by decide, by decide,
    by decide, by decide, by decide, by decide, by decide, by decide, by decide⟩

/-- every statement of the three routines, pinned as text: an edit anywhere in the anchored code reaches this
obligation (the statements whose meaning is regenerated above are pinned as well) -/
theorem C20_source_shape :
    Gen.Voro.convBody = ["list_box = []",
   "list_points = []",
   "for snapshot in snapshots.snapshots:\n    if snapshot.boxbounds.sum() != 0:\n        shiftfactor = snapshot.boxbounds[:, 0] + snapshot.boxlength / 2\n        points = snapshot.positions - shiftfactor[np.newaxis, :]\n    else:\n        points = snapshot.positions.copy()\n    if snapshot.positions.shape[1] == 2:\n        points = np.hstack((points, np.zeros((snapshot.nparticle, 1))))\n    list_points.append(points)\n    list_box.append(freud.box.Box.from_box(snapshot.boxlength))",
   "return (list_box, list_points)"] ∧
    Gen.Voro.calPre = ["list_box, list_points = convert_configuration(snapshots)",
   "foverall = open(outputfile + '.overall.dat', 'w', encoding='utf-8')",
   "foverall.write('id cn area_or_volume\\n')",
   "fneighbors = open(outputfile + '.neighbor.dat', 'w', encoding='utf-8')",
   "ndim = snapshots.snapshots[0].positions.shape[1]",
   "if ndim == 2:\n    fbondinfos = open(outputfile + '.edgelength.dat', 'w', encoding='utf-8')\nelse:\n    fbondinfos = open(outputfile + '.facearea.dat', 'w', encoding='utf-8')"] ∧
    Gen.Voro.calFrame = ["fneighbors.write('id   cn   neighborlist\\n')",
   "if ndim == 2:\n    fbondinfos.write('id   cn   edgelengthlist\\n')\nelse:\n    fbondinfos.write('id   cn   facearealist\\n')",
   "box, points = (list_box[n], list_points[n])",
   "voro = freud.locality.Voronoi()",
   "voro.compute((box, points))",
   "nlist = np.array(voro.nlist) + 1",
   "weights = voro.nlist.weights",
   "volumes = voro.volumes",
   "unique, counts = np.unique(nlist[:, 0], return_counts=True)",
   "nn = 0"] ∧
    Gen.Voro.calRow = ["atomid = unique[i]",
   "if atomid != nlist[nn, 0] or i + 1 != atomid:\n    raise ValueError('neighbor list not sorted')",
   "i_cn = counts[i]",
   "fneighbors.write('%d %d ' % (atomid, i_cn))",
   "fbondinfos.write('%d %d ' % (atomid, i_cn))",
   "foverall.write('%d %d %.6f\\n' % (atomid, i_cn, volumes[i]))",
   "fneighbors.write('\\n')",
   "fbondinfos.write('\\n')"] ∧
    Gen.Voro.calInner = ["fneighbors.write('%d ' % nlist[nn, 1])",
   "fbondinfos.write('%.6f ' % weights[nn])",
   "nn += 1"] ∧
    Gen.Voro.calPost = ["fneighbors.close()",
   "fbondinfos.close()",
   "foverall.close()"] ∧
    Gen.Voro.formats = ["%d %d ", "%d %d ", "%d %d %.6f\n", "%d ", "%.6f "] ∧
    Gen.Voro.formatArgs = [["atomid", "i_cn"], ["atomid", "i_cn"], ["atomid", "i_cn", "volumes[i]"],
      ["nlist[nn, 1]"], ["weights[nn]"]] ∧
    Gen.Voro.vmDefaults = ["2", "0", "0.01", "True", "''"] ∧
    Gen.Voro.vmBody = ["list_box, list_points = convert_configuration(snapshots)",
   "box = list_box[nconfig]",
   "points = list_points[nconfig]",
   "num_particles = points.shape[0]",
   "matrixA = np.zeros((num_particles, num_particles * ndim))",
   "voro = freud.locality.Voronoi()",
   "original = voro.compute((box, points)).volumes",
   "atomids = np.arange(num_particles, dtype=np.int32)",
   "for i in range(num_particles):\n    condition = atomids != i\n    for j in range(ndim):\n        points[i, j] += deltar\n        voro = freud.locality.Voronoi()\n        V1 = voro.compute((box, points)).volumes\n        points[i, j] -= 2 * deltar\n        voro = freud.locality.Voronoi()\n        V2 = voro.compute((box, points)).volumes\n        points[i, j] += deltar\n        medium = (V1 - V2) / 2 / deltar\n        matrixA[condition, ndim * i + j] = medium[condition]",
   "for i in range(num_particles):\n    medium = matrixA[i].reshape(num_particles, ndim)\n    matrixA[i, ndim * i:ndim * i + ndim] = -medium.sum(axis=0)",
   "matrixA /= original[:, np.newaxis]",
   "if transform_matrix:\n    medium = np.matmul(matrixA, matrixA.T)\n    medium = np.linalg.inv(medium)\n    medium = np.matmul(matrixA.T, medium)\n    matrixA_transformation = np.matmul(medium, matrixA)\n    if outputfile:\n        np.save(outputfile, matrixA_transformation)\n    return matrixA_transformation",
   "if outputfile:\n    np.save(outputfile, matrixA)",
   "return matrixA"] :=
  ⟨rfl, rfl, rfl, rfl, rfl, rfl, rfl, rfl, rfl, rfl⟩

/-! ## non-vacuity -/

/-- freud's contract is satisfiable: three particles on a ring, every one bonded to the two others -/
example : WF (α := ℚ) { nlist := [(0, 1), (0, 2), (1, 0), (1, 2), (2, 0), (2, 1)],
                         weights := [1, 2, 1, 3, 2, 3], volumes := [4, 5, 6] } 3 :=
  { sorted := by decide, bound := by decide,
    cover := by intro i hi; interval_cases i <;> first | exact ⟨1, by decide⟩ | exact ⟨0, by decide⟩,
    wlen := rfl, vlen := rfl }

/-- … and the model run on it writes what `C20_rows` says (ids shifted, weights aligned, volumes by particle) -/
example : (Impl.calNeighbors (α := ℚ) (fun _ x => toString x.num) 2
      [{ nlist := [(0, 1), (0, 2), (1, 0), (1, 2), (2, 0), (2, 1)], weights := [1, 2, 1, 3, 2, 3],
         volumes := [4, 5, 6] }]).toOption.map (fun f => (f.neighbor, f.bond, f.overall)) =
    some ([["id", "cn", "neighborlist"], ["1", "2", "2", "3"], ["2", "2", "1", "3"], ["3", "2", "1", "2"]],
          [["id", "cn", "edgelengthlist"], ["1", "2", "1", "2"], ["2", "2", "1", "3"], ["3", "2", "2", "3"]],
          [["id", "cn", "area_or_volume"], ["1", "2", "4"], ["2", "2", "5"], ["3", "2", "6"]]) := by
  decide +kernel

/-- the `float()` contracts of `C20_reader_handoff` are satisfiable -/
example : ∀ m : ℕ, (fun s : String => ((s.toNat?.getD 0 : ℕ) : ℤ)) (Nat.repr m) = (m : ℤ) := by
  intro m; simp

/-- the inverse contract of `C20_transform_projector` is satisfiable: one cell, two coordinates -/
example : ∀ k l, k < 1 → l < 1 →
    ∑ m ∈ range 1, Impl.gram (α := ℚ) 1 2 (fun _ c => if c = 0 then 1 else -1) k m * (fun _ _ => (1 / 2 : ℚ)) m l
      = if k = l then 1 else 0 := by
  intro k l hk hl
  interval_cases k; interval_cases l
  simp [Impl.gram, sumRange]
  norm_num

/-- the `np.rint` contract of `C20_weights_rounding` is met by half-even rounding on ℚ -/
example : IsRintHE (K := ℚ) ratRint := ratRint_isRintHE

end Pms.Voro
