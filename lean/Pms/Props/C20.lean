import Pms.Model.Voro
namespace Pms.Voro
theorem C20_stub : True := trivial
end Pms.Voro
