import Pms.Lemmas.VecF
import Mathlib.Data.Complex.Basic
import Mathlib.Data.Complex.BigOperators
import Mathlib.Algebra.BigOperators.Field
import Mathlib.Analysis.SpecialFunctions.Sqrt
import Mathlib.Analysis.Complex.Exponential
import Mathlib.Analysis.SpecialFunctions.Trigonometric.Basic
import Mathlib.Tactic.FieldSimp
import Mathlib.Tactic.Ring
import Mathlib.Tactic.Linarith

/-!
# C15 — Fourier-space split of a vector field and its time correlation
(`vector_decomposition_sq`, `vector_fft_corr`; transform of `sq.py::conditional_sq`, vector branch)

The model definitions of `Pms/Model/Vec.lean` are used at `α = ℝ`, `C = ℂ` with
`ofReal = Complex.ofReal`, `conj = starRingEnd ℂ`, `re = Complex.re`, `sqrtf = Real.sqrt`,
`expNegI θ = exp(−iθ)`, `pi = Real.pi`.
-/
open Finset Complex ComplexConjugate
namespace Pms.Vec
open Pms

/-- the transform is `F_k(q_n) = N^{-1/2} Σ_i A_ik e^{-i q_n·r_i}` with `q_n = 2π n / L` -/
theorem C15_fft_def (N d : ℕ) (L : ℕ → ℝ) (nv pos A : ℕ → ℕ → ℝ) (n k : ℕ) :
    mode Complex.ofReal expNegI Real.sqrt N d (qvec Real.pi L nv) pos A n k
      = (∑ i ∈ range N,
            Complex.exp (-(Complex.I * ((∑ l ∈ range d, nv n l * (2 * Real.pi / L l) * pos i l : ℝ) : ℂ)))
              * (A i k : ℂ)) / ((Real.sqrt (N : ℝ) : ℝ) : ℂ) := by
  simp [mode, theta, qvec, expNegI, sumRange_eq]

/-- **the split.**  For a real unit vector `û` and any complex vector `F`:
`L = û (û·F)` is parallel to `û`, `T = F − L` is orthogonal to `û`, `L + T = F`, and
`Σ|F|² = Σ|L|² + Σ|T|²`; in the code's own terms `(F·F̄).real = (L·L̄).real + (T·T̄).real`. -/
theorem C15_decomposition (d : ℕ) (u : ℕ → ℝ) (F : ℕ → ℂ) (hu : ∑ k ∈ range d, u k * u k = 1) :
    let Lp := longPart Complex.ofReal d u F
    let Tp := transPart Complex.ofReal d u F
    (∀ k, Lp k = (u k : ℂ) * ∑ j ∈ range d, (u j : ℂ) * F j)
    ∧ (∑ k ∈ range d, (u k : ℂ) * Lp k = ∑ j ∈ range d, (u j : ℂ) * F j)
    ∧ (∑ k ∈ range d, (u k : ℂ) * Tp k = 0)
    ∧ (∀ k, Lp k + Tp k = F k)
    ∧ (∑ k ∈ range d, Complex.normSq (F k)
        = ∑ k ∈ range d, Complex.normSq (Lp k) + ∑ k ∈ range d, Complex.normSq (Tp k))
    ∧ specOf cconj Complex.re d F = specOf cconj Complex.re d Lp + specOf cconj Complex.re d Tp := by
  intro Lp Tp
  set c : ℂ := ∑ j ∈ range d, (u j : ℂ) * F j with hc
  have hL : ∀ k, Lp k = (u k : ℂ) * c := by
    intro k; simp [Lp, longPart, sumRange_eq, hc]
  have hT : ∀ k, Tp k = F k - (u k : ℂ) * c := by
    intro k; simp [Tp, transPart, longPart, sumRange_eq, hc]
  have hone : (∑ k ∈ range d, (u k : ℂ) * (u k : ℂ)) = 1 := by exact_mod_cast hu
  have hproj : ∑ k ∈ range d, (u k : ℂ) * ((u k : ℂ) * c) = c := by
    have : ∑ k ∈ range d, (u k : ℂ) * ((u k : ℂ) * c) = (∑ k ∈ range d, (u k : ℂ) * (u k : ℂ)) * c := by
      rw [Finset.sum_mul]; exact Finset.sum_congr rfl fun k _ => by ring
    rw [this, hone, one_mul]
  have horth : ∑ k ∈ range d, (u k : ℂ) * Tp k = 0 := by
    simp only [hT, mul_sub, Finset.sum_sub_distrib]
    rw [hproj, ← hc, sub_self]
  have hsum : ∀ k, Lp k + Tp k = F k := by
    intro k; rw [hL, hT]; ring
  have hcross : ∑ k ∈ range d, Lp k * conj (Tp k) = 0 := by
    have h1 : ∑ k ∈ range d, Lp k * conj (Tp k) = c * conj (∑ k ∈ range d, (u k : ℂ) * Tp k) := by
      rw [map_sum, Finset.mul_sum]
      refine Finset.sum_congr rfl fun k _ => ?_
      rw [hL, map_mul, Complex.conj_ofReal]; ring
    rw [h1, horth, map_zero, mul_zero]
  have hpyth : ∑ k ∈ range d, Complex.normSq (F k)
      = ∑ k ∈ range d, Complex.normSq (Lp k) + ∑ k ∈ range d, Complex.normSq (Tp k) := by
    have h2 : ∀ k, Complex.normSq (F k)
        = Complex.normSq (Lp k) + Complex.normSq (Tp k) + 2 * (Lp k * conj (Tp k)).re := by
      intro k; rw [← hsum k, Complex.normSq_add]
    simp only [h2, Finset.sum_add_distrib]
    rw [← Finset.mul_sum, ← Complex.re_sum, hcross]
    simp
  refine ⟨hL, ?_, horth, hsum, hpyth, ?_⟩
  · simp only [hL]; exact hproj
  · rw [specOf_eq, specOf_eq, specOf_eq]; exact hpyth

/-- non-vacuity: `û = (1, 0)` is a unit vector -/
example : ∑ k ∈ range 2, (fun k => if k = 0 then (1 : ℝ) else 0) k * (fun k => if k = 0 then (1 : ℝ) else 0) k = 1 := by
  simp

/-- `q / |q|` is a unit vector for every non-zero `q` -/
theorem C15_unitq (d : ℕ) (q : ℕ → ℕ → ℝ) (n : ℕ) (hq : ∃ k < d, q n k ≠ 0) :
    ∑ k ∈ range d, unitq Real.sqrt d q n k * unitq Real.sqrt d q n k = 1 := by
  obtain ⟨k0, hk0, hne⟩ := hq
  have hs : 0 < ∑ k ∈ range d, q n k * q n k := by
    have h1 : q n k0 * q n k0 ≤ ∑ k ∈ range d, q n k * q n k :=
      Finset.single_le_sum (f := fun k => q n k * q n k) (fun k _ => mul_self_nonneg _) (Finset.mem_range.mpr hk0)
    have h2 : 0 < q n k0 * q n k0 := mul_self_pos.mpr hne
    linarith
  unfold unitq qnorm
  simp only [sumRange_eq]
  set s := ∑ k ∈ range d, q n k * q n k with hsd
  have hsq : Real.sqrt s * Real.sqrt s = s := Real.mul_self_sqrt hs.le
  have hne' : Real.sqrt s ≠ 0 := (Real.sqrt_pos.mpr hs).ne'
  have : ∀ k, q n k / Real.sqrt s * (q n k / Real.sqrt s) = q n k * q n k / s := by
    intro k; rw [div_mul_div_comm, hsq]
  simp only [this]
  rw [← Finset.sum_div _ _ _, ← hsd, div_self hs.ne']

/-- **S = S_L + S_T for every wave vector**: the routine's own composition — the transform of the field
at wave vector `q_n = 2π n/L ≠ 0`, `û = q_n/|q_n|`, the projection and the remainder — satisfies
`Sq = Sq_L + Sq_T`, the longitudinal part is a multiple of `û`, the transverse part is orthogonal to it
and the two parts add up to the transform. -/
theorem C15_spectrum_split (N d : ℕ) (L : ℕ → ℝ) (nv pos A : ℕ → ℕ → ℝ) (n : ℕ)
    (hq : ∃ k < d, qvec Real.pi L nv n k ≠ 0) :
    let q := qvec Real.pi L nv
    let F := mode Complex.ofReal expNegI Real.sqrt N d q pos A n
    let u := unitq Real.sqrt d q n
    let Lp := longPart Complex.ofReal d u F
    let Tp := transPart Complex.ofReal d u F
    specOf cconj Complex.re d F = specOf cconj Complex.re d Lp + specOf cconj Complex.re d Tp
    ∧ (∀ k, Lp k = (u k : ℂ) * ∑ j ∈ range d, (u j : ℂ) * F j)
    ∧ (∑ k ∈ range d, (u k : ℂ) * Tp k = 0)
    ∧ (∀ k, Lp k + Tp k = F k) := by
  intro q F u Lp Tp
  have hu := C15_unitq d q n hq
  obtain ⟨h1, _, h3, h4, _, h6⟩ := C15_decomposition d u F hu
  exact ⟨h6, h1, h3, h4⟩

/-- non-vacuity of `hq`: with `L = 1` the wave vector `n = (1, 0)` is non-zero -/
example : ∃ k < 2, qvec Real.pi (fun _ => (1 : ℝ)) (fun _ k => if k = 0 then 1 else 0) 0 k ≠ 0 :=
  ⟨0, by omega, by simp [qvec, Real.pi_ne_zero]⟩

section Group
variable {K : Type} [Field K] {κ : Type} [DecidableEq κ]

/-- `groupby(q).mean()`: the mean over the wave vectors sharing the key of wave vector `n` -/
theorem C15_group_mean_def (nq : ℕ) (key : ℕ → κ) (x : ℕ → K) (n : ℕ) :
    groupMean nq key x n
      = (∑ m ∈ (range nq).filter (fun m => key m = key n), x m)
        / (((range nq).filter (fun m => key m = key n)).card : K) := by
  unfold groupMean
  simp only [sumRange_eq]
  rw [Finset.sum_filter, Finset.card_eq_sum_ones, Finset.sum_filter]

/-- the averaged spectra inherit the split: `⟨S⟩ = ⟨S_L⟩ + ⟨S_T⟩` in every `|q|` group -/
theorem C15_group_split (nq : ℕ) (key : ℕ → κ) (S SL ST : ℕ → K)
    (h : ∀ m < nq, S m = SL m + ST m) (n : ℕ) :
    groupMean nq key S n = groupMean nq key SL n + groupMean nq key ST n := by
  unfold groupMean
  simp only [sumRange_eq]
  rw [← add_div, ← Finset.sum_add_distrib]
  congr 1
  refine Finset.sum_congr rfl fun m hm => ?_
  split
  · exact h m (Finset.mem_range.mp hm)
  · simp

/-- the frame-averaged spectra written to `.spectra.csv` inherit the split as well -/
theorem C15_spectra_split (T nq : ℕ) (key : ℕ → κ) (S SL ST : ℕ → ℕ → K)
    (h : ∀ t < T, ∀ m < nq, S t m = SL t m + ST t m) (n : ℕ) :
    frameMean T (fun t => groupMean nq key (S t) n)
      = frameMean T (fun t => groupMean nq key (SL t) n) + frameMean T (fun t => groupMean nq key (ST t) n) := by
  unfold frameMean
  simp only [sumRange_eq]
  rw [← add_div, ← Finset.sum_add_distrib]
  congr 1
  exact Finset.sum_congr rfl fun t ht => C15_group_split nq key _ _ _ (h t (Finset.mem_range.mp ht)) n

end Group

/-! ### time correlation per wave vector -/

/-- `len(set(np.diff(timesteps))) == 1`: at least two frames and all spacings equal -/
theorem C15_isLinear_iff (T : ℕ) (ts : ℕ → ℤ) :
    isLinear T ts = true ↔ (2 ≤ T ∧ ∀ t, t + 1 < T → ts (t + 1) - ts t = ts 1 - ts 0) := by
  unfold isLinear
  simp only [Bool.and_eq_true, decide_eq_true_eq, List.all_eq_true, List.mem_range, beq_iff_eq]
  constructor
  · rintro ⟨h1, h2⟩; exact ⟨h1, fun t ht => h2 t (by omega)⟩
  · rintro ⟨h1, h2⟩; exact ⟨h1, fun t ht => h2 t (by omega)⟩

/-- linear (equally spaced) series: the entry for lag `nn` of the table FFT / T_FFT / L_FFT at wave
vector `n` is the origin-averaged correlation `⟨Re Σ_k X_k(t) X̄_k(t−nn)⟩_{t ≥ nn}` over the `T − nn`
available origins, divided by its zero-lag value -/
theorem C15_fft_corr_def (T d : ℕ) (X : ℕ → ℕ → ℕ → ℂ) (n nn : ℕ) :
    fftCorr cconj Complex.re T d true X n nn
      = ((∑ t ∈ (range T).filter (fun t => nn ≤ t), (∑ k ∈ range d, X t n k * conj (X (t - nn) n k)).re)
            / ((T - nn : ℕ) : ℝ))
        / ((∑ t ∈ range T, (∑ k ∈ range d, X t n k * conj (X t n k)).re) / (T : ℝ)) := by
  unfold fftCorr corrImpl corrRaw
  simp only [if_true]
  rw [originLoop_eq, originLoop_eq, originLoop_eq, originLoop_eq]
  have hcount : ∀ k : ℕ, (∑ _t ∈ (range T).filter (fun t => k ≤ t), (1 : ℝ)) = ((T - k : ℕ) : ℝ) := by
    intro k; rw [Finset.sum_const, origin_count]; simp
  rw [hcount, hcount]
  have hall : (range T).filter (fun t => 0 ≤ t) = range T := Finset.filter_true_of_mem fun _ _ => Nat.zero_le _
  rw [hall]
  simp [pairRe, cconj, sumRange_eq]

/-- log-spaced (or single-frame) series: correlation with the first frame, divided by its zero-lag value -/
theorem C15_fft_corr_log_def (T d : ℕ) (X : ℕ → ℕ → ℕ → ℂ) (n nn : ℕ) :
    fftCorr cconj Complex.re T d false X n nn
      = (∑ k ∈ range d, conj (X 0 n k) * X nn n k).re / (∑ k ∈ range d, conj (X 0 n k) * X 0 n k).re := by
  simp [fftCorr, corrImpl, corrRaw, cconj, sumRange_eq]

/-- the zero-lag entry is 1 whenever the zero-lag correlation does not vanish -/
theorem C15_fft_corr_zero_lag (T d : ℕ) (lin : Bool) (X : ℕ → ℕ → ℕ → ℂ) (n : ℕ)
    (h : corrRaw cconj Complex.re T d lin (fun t k => X t n k) 0 ≠ 0) :
    fftCorr cconj Complex.re T d lin X n 0 = 1 := by
  unfold fftCorr corrImpl
  exact div_self h

end Pms.Vec
