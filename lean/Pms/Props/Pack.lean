import Pms.Model.Pack
import Pms.GenR.Extra
import Pms.Lemmas.Pack
import Mathlib.Analysis.SpecialFunctions.Trigonometric.Inverse
import Mathlib.Analysis.SpecialFunctions.Sqrt

/-!
# Beyond the 20 listed properties — `packing_capability_2d` (`static/geometric.py`)

The model (`Pms.Model.Pack`) composes C02's minimum-image vectors, C05's neighbour rows and the REGENERATED `triangle_angle` term
(`Pms.GenR.Extra.ta_cos`).  Theorems over ℝ (`Real.arccos`, `Real.sqrt`, `|·|`), for every configuration and neighbour list.
Tie: `./check EXTRA` runs the real routine against the driver's composition (`pack2d`) and against the brute-force definition.
-/
namespace Pms.Pack
open Pms

/-- the reference angle of the code: `triangle_angle(σ_oi, σ_oj, σ_ij)` with the regenerated cosine -/
noncomputable def refAngle (σ : ℕ → ℕ → ℝ) (o i j : ℕ) : ℝ :=
  Real.arccos (Pms.GenR.Extra.ta_cos (σ o i) (σ o j) (σ i j))

/-- for a symmetric size matrix the reference angle does not depend on the order of the two neighbours -/
theorem E_pack_ref_symm (σ : ℕ → ℕ → ℝ) (hσ : ∀ a b, σ a b = σ b a) (o i j : ℕ) : refAngle σ o i j = refAngle σ o j i := by
  unfold refAngle Pms.GenR.Extra.ta_cos
  rw [hσ i j]
  congr 1
  ring

/-- **the value is a sum over unordered pairs**: `theta_o` is half the sum over all ordered pairs of distinct positions in the row —
`2·theta_o = Σ_{a ∈ row} Σ_{b ∈ row} term(a, b) − Σ_{a ∈ row} term(a, a)` — whenever the reference angles are symmetric -/
theorem E_pack_unordered (disp : ℕ → ℕ → ℕ → ℝ) (nb : ℕ → List ℕ) (ref : ℕ → ℕ → ℕ → ℝ) (typ : ℕ → ℕ) (o : ℕ)
    (href : ∀ t a b, ref t a b = ref t b a) :
    2 * thetaSum Real.arccos Real.sqrt (fun x => |x|) disp nb ref typ o =
      ((nb o).map fun a => ((nb o).map fun b => term Real.arccos Real.sqrt (fun x => |x|) disp nb ref typ o a b).sum).sum
      - ((nb o).map fun a => term Real.arccos Real.sqrt (fun x => |x|) disp nb ref typ o a a).sum := by
  rw [thetaSum_eq_sum]
  exact two_mul_pairs_sum _ (term_symm disp nb ref typ o href) (nb o)

/-- **order inside the neighbour rows does not matter**: if every row of `nb'` is a permutation of the corresponding row of `nb`
(and the reference angles are symmetric, e.g. a symmetric σ), every particle gets the same value -/
theorem E_pack_perm (disp : ℕ → ℕ → ℕ → ℝ) (nb nb' : ℕ → List ℕ) (cn : ℕ → ℕ) (ref : ℕ → ℕ → ℕ → ℝ) (typ : ℕ → ℕ) (o : ℕ)
    (href : ∀ t a b, ref t a b = ref t b a) (hperm : ∀ k, (nb' k).Perm (nb k)) :
    packing Real.arccos Real.sqrt (fun x => |x|) disp nb' cn ref typ o =
      packing Real.arccos Real.sqrt (fun x => |x|) disp nb cn ref typ o := by
  unfold packing
  congr 1
  have h2 : (2 : ℝ) * thetaSum Real.arccos Real.sqrt (fun x => |x|) disp nb' ref typ o =
      2 * thetaSum Real.arccos Real.sqrt (fun x => |x|) disp nb ref typ o := by
    rw [E_pack_unordered disp nb' ref typ o href, E_pack_unordered disp nb ref typ o href]
    have hterm : ∀ a b, term Real.arccos Real.sqrt (fun x => |x|) disp nb' ref typ o a b =
        term Real.arccos Real.sqrt (fun x => |x|) disp nb ref typ o a b := term_congr_perm disp nb nb' ref typ o hperm
    simp only [hterm]
    have hp := hperm o
    congr 1
    · refine ((hp.map _).sum_eq).trans ?_
      congr 1
      apply List.map_congr_left
      intro a _
      exact (hp.map _).sum_eq
    · exact (hp.map _).sum_eq
  linarith

/-- **non-negative** (every term is an absolute value, the divisor a coordination number) -/
theorem E_pack_nonneg (disp : ℕ → ℕ → ℕ → ℝ) (nb : ℕ → List ℕ) (cn : ℕ → ℕ) (ref : ℕ → ℕ → ℕ → ℝ) (typ : ℕ → ℕ) (o : ℕ) :
    0 ≤ packing Real.arccos Real.sqrt (fun x => |x|) disp nb cn ref typ o := by
  unfold packing
  apply div_nonneg _ (Nat.cast_nonneg _)
  rw [thetaSum_eq_sum]
  apply List.sum_nonneg
  intro x hx
  obtain ⟨p, _, rfl⟩ := List.mem_map.1 hx
  unfold term
  split
  · exact abs_nonneg _
  · exact le_refl _

/-- **law of cosines inside the code's expression**: if the two minimum-image vectors have lengths a, b > 0 and their difference
has length c, then `dot(u/|u|, v/|v|)` is the regenerated `cos_theta` of `triangle_angle(a, b, c)` -/
theorem E_pack_cos (u v : ℕ → ℝ) (a b c : ℝ) (ha : 0 < a) (hb : 0 < b)
    (hu : u 0 * u 0 + u 1 * u 1 = a ^ 2) (hv : v 0 * v 0 + v 1 * v 1 = b ^ 2)
    (huv : (u 0 - v 0) * (u 0 - v 0) + (u 1 - v 1) * (u 1 - v 1) = c ^ 2) :
    cosBetween Real.sqrt u v = Pms.GenR.Extra.ta_cos a b c := by
  unfold cosBetween Pms.GenR.Extra.ta_cos
  simp only []
  rw [hu, hv, Real.sqrt_sq ha.le, Real.sqrt_sq hb.le]
  have hdot : u 0 * v 0 + u 1 * v 1 = (a ^ 2 + b ^ 2 - c ^ 2) / 2 := by nlinarith
  field_simp
  linarith

/-- **touching discs pack perfectly**: if, for every pair (i, j) of mutual neighbours in the row of o, the triangle (o, i, j) has
exactly the reference side lengths σ_oi, σ_oj, σ_ij (> 0), the packing capability of o is 0 -/
theorem E_pack_ideal_zero (disp : ℕ → ℕ → ℕ → ℝ) (nb : ℕ → List ℕ) (cn : ℕ → ℕ) (σ : ℕ → ℕ → ℝ) (typ : ℕ → ℕ) (o : ℕ)
    (hpos : ∀ a b, 0 < σ a b)
    (hideal : ∀ p ∈ pairs (nb o), isMutual nb p.1 p.2 = true →
      disp o p.1 0 * disp o p.1 0 + disp o p.1 1 * disp o p.1 1 = σ (typ o) (typ p.1) ^ 2 ∧
      disp o p.2 0 * disp o p.2 0 + disp o p.2 1 * disp o p.2 1 = σ (typ o) (typ p.2) ^ 2 ∧
      (disp o p.1 0 - disp o p.2 0) * (disp o p.1 0 - disp o p.2 0) + (disp o p.1 1 - disp o p.2 1) * (disp o p.1 1 - disp o p.2 1)
        = σ (typ p.1) (typ p.2) ^ 2) :
    packing Real.arccos Real.sqrt (fun x => |x|) disp nb cn (refAngle σ) typ o = 0 := by
  unfold packing
  rw [thetaSum_eq_sum]
  have : ((pairs (nb o)).map fun p => term Real.arccos Real.sqrt (fun x => |x|) disp nb (refAngle σ) typ o p.1 p.2) =
      (pairs (nb o)).map fun _ => (0 : ℝ) := by
    apply List.map_congr_left
    intro p hp
    unfold term
    split
    · rename_i hm
      obtain ⟨h1, h2, h3⟩ := hideal p hp hm
      rw [E_pack_cos _ _ _ _ _ (hpos _ _) (hpos _ _) h1 h2 h3]
      unfold refAngle
      simp
    · rfl
  rw [this]
  simp

/-- the hypotheses of `E_pack_ideal_zero` are satisfiable: an equilateral triangle of side 1 (o = 0 at the origin, neighbours 1, 2
at (1, 0) and (1/2, √3/2) — here with the squared coordinates that matter), σ ≡ 1 -/
example : ∃ (u v : ℕ → ℝ), u 0 * u 0 + u 1 * u 1 = (1 : ℝ) ^ 2 ∧ v 0 * v 0 + v 1 * v 1 = (1 : ℝ) ^ 2 ∧
    (u 0 - v 0) * (u 0 - v 0) + (u 1 - v 1) * (u 1 - v 1) = (1 : ℝ) ^ 2 := by
  refine ⟨fun k => if k = 0 then 1 else 0, fun k => if k = 0 then 1 / 2 else Real.sqrt 3 / 2, by norm_num, ?_, ?_⟩
  · have : Real.sqrt 3 * Real.sqrt 3 = 3 := Real.mul_self_sqrt (by norm_num)
    norm_num
    nlinarith
  · have : Real.sqrt 3 * Real.sqrt 3 = 3 := Real.mul_self_sqrt (by norm_num)
    norm_num
    nlinarith

end Pms.Pack
