import Pms.Gen.Sph
import Mathlib.Analysis.SpecialFunctions.Trigonometric.Basic
import Mathlib.Analysis.SpecialFunctions.Sqrt
import Mathlib.Analysis.SpecialFunctions.Complex.Circle
import Mathlib.Tactic.LinearCombination
import Mathlib.Tactic.NormNum
import Mathlib.Tactic.Ring

/-!
# C08 — the tabulated spherical harmonics are the orthonormal Condon–Shortley Y_lm

`Pms.Gen.Sph.table` is regenerated from `spherical_harmonics.py` on every run.
`Y l m θ φ` below is the definition (Rodrigues Legendre polynomial, associated function with the
Condon–Shortley phase, orthonormal prefactor); θ is the polar angle, φ the azimuth.
-/
open Real
namespace Pms.Sph

noncomputable section

def castPoly : List Rat → List ℝ
  | [] => []
  | a :: p => (a : ℝ) :: castPoly p

/-- value of a table entry -/
def Entry.eval (e : Entry) (θ φ : ℝ) : ℂ :=
  (e.c : ℂ) * ((Real.sqrt ((e.s : ℝ) / π) : ℝ) : ℂ) * Complex.exp ((e.m : ℂ) * φ * Complex.I)
    * ((Real.sin θ : ℝ) : ℂ) ^ e.k * ((polyEval (castPoly e.p) (Real.cos θ) : ℝ) : ℂ)

/-- **Definition.** Orthonormal spherical harmonic with the Condon–Shortley phase:
for m ≥ 0: (−1)^m √((2l+1)/(4π) (l−m)!/(l+m)!) sin^m θ (D^m P_l)(cos θ) e^{imφ},
and Y_{l,−m} = (−1)^m conj Y_{l,m}, i.e. for m < 0 the same expression with |m| and sign +1. -/
def Y (l : ℕ) (m : ℤ) (θ φ : ℝ) : ℂ :=
  (sgn m : ℂ) * ((Real.sqrt ((normSq l m.natAbs : ℝ) / π) : ℝ) : ℂ) * Complex.exp ((m : ℂ) * φ * Complex.I)
    * ((Real.sin θ : ℝ) : ℂ) ^ m.natAbs * ((polyEval (castPoly (legendreD l m.natAbs)) (Real.cos θ) : ℝ) : ℂ)

end

theorem polyEval_scale (t : Rat) (q : List Rat) (x : ℝ) :
    polyEval (castPoly (pscale t q)) x = (t : ℝ) * polyEval (castPoly q) x := by
  induction q with
  | nil => simp [pscale, castPoly, polyEval]
  | cons a q ih =>
    simp only [pscale, castPoly, polyEval]
    rw [ih]; push_cast; ring

theorem sqrt_scale (u s N : Rat) (hu : 0 ≤ u) (h : u * u * s = N) :
    (u : ℝ) * Real.sqrt ((s : ℝ) / π) = Real.sqrt ((N : ℝ) / π) := by
  have hu' : (0 : ℝ) ≤ u := by exact_mod_cast hu
  have : ((N : ℝ) / π) = (u : ℝ) ^ 2 * ((s : ℝ) / π) := by
    rw [← h]; push_cast; ring
  rw [this, Real.sqrt_mul (sq_nonneg _), Real.sqrt_sq hu']

theorem sgn_sq (m : ℤ) : sgn m * sgn m = 1 := by
  unfold sgn; split <;> [split; skip] <;> norm_num

/-- generic soundness of the decidable entry check: an entry accepted for (l, m) equals Y_lm
identically in both angles -/
theorem entry_sound (l : ℕ) (m : ℤ) (e : Entry) (h : entryOK l m e = true) (θ φ : ℝ) :
    e.eval θ φ = Y l m θ φ := by
  simp only [entryOK, Bool.and_eq_true, beq_iff_eq, decide_eq_true_eq] at h
  obtain ⟨⟨⟨⟨⟨hm, hk⟩, hp⟩, _hs⟩, hnn⟩, hN⟩ := h
  unfold Entry.eval Y
  rw [hm, hk, hp, polyEval_scale]
  generalize entryT l m e = t at hnn hN ⊢
  have key := sqrt_scale (sgn m * e.c * t) e.s _ hnn hN
  have hsg' : (sgn m : ℂ) * sgn m = 1 := by exact_mod_cast sgn_sq m
  have key' : ((sgn m : ℂ) * e.c * t) * ((Real.sqrt ((e.s : ℝ) / π) : ℝ) : ℂ)
      = ((Real.sqrt ((normSq l m.natAbs : ℝ) / π) : ℝ) : ℂ) := by exact_mod_cast key
  rw [← key', Complex.ofReal_mul]
  generalize Complex.exp ((m : ℂ) * φ * Complex.I) = E
  generalize (((Real.sin θ : ℝ) : ℂ) ^ m.natAbs) = S
  generalize ((polyEval (castPoly (legendreD l m.natAbs)) (Real.cos θ) : ℝ) : ℂ) = P
  generalize (((Real.sqrt ((e.s : ℝ) / π) : ℝ) : ℂ)) = R
  have : ((t : ℝ) : ℂ) = (t : ℂ) := by norm_cast
  rw [this]
  linear_combination (-((e.c : ℂ) * R * E * S * t * P)) * hsg'

/-- the regenerated table has rows l = 1..10, each of length 2l+1 in the order m = −l..l, and every one
of the 120 closed forms passes the entry check (kernel-evaluated, exact rational arithmetic) -/
theorem C08_table : tableOK Pms.Gen.Sph.table = true := by decide +kernel

/-- **Main statement.** For every l in 1..10 and every position i ≤ 2l, the i-th returned closed form equals
Y_{l, i−l}(θ, φ) for all angles. -/
theorem C08_all_angles (l : ℕ) (row : List Entry) (hrow : (l, row) ∈ Pms.Gen.Sph.table)
    (i : ℕ) (hi : i < 2 * l + 1) (θ φ : ℝ) :
    ∃ e, row[i]? = some e ∧ e.eval θ φ = Y l ((i : ℤ) - (l : ℤ)) θ φ := by
  have h := C08_table
  simp only [tableOK, Bool.and_eq_true, List.all_eq_true] at h
  have hr := h.2 (l, row) hrow
  simp only [rowOK, Bool.and_eq_true, List.all_eq_true, List.mem_range] at hr
  have hi' := hr.2 i hi
  cases hrow' : row[i]? with
  | none => rw [hrow'] at hi'; simp at hi'
  | some e =>
    rw [hrow'] at hi'
    exact ⟨e, rfl, entry_sound l _ e hi' θ φ⟩

/-- the table covers exactly the degrees 1..10 -/
theorem C08_degrees : Pms.Gen.Sph.table.map (·.1) = [1, 2, 3, 4, 5, 6, 7, 8, 9, 10] := by decide +kernel

/-- Y_{l,−m} = (−1)^m conj(Y_{l,m}) for every l, m > 0 and all angles -/
theorem C08_conj (l : ℕ) (k : ℕ) (hk : 0 < k) (θ φ : ℝ) :
    Y l (-(k : ℤ)) θ φ = (-1 : ℂ) ^ k * (starRingEnd ℂ) (Y l (k : ℤ) θ φ) := by
  unfold Y
  have hn : (-(k : ℤ)).natAbs = k := by simp
  have hp : ((k : ℤ)).natAbs = k := by simp
  rw [hn, hp]
  have hs1 : sgn (-(k : ℤ)) = 1 := by
    unfold sgn; rw [if_neg]; omega
  have hs2 : (sgn (k : ℤ) : ℂ) = (-1 : ℂ) ^ k := by
    unfold sgn
    rw [if_pos (by omega), hp]
    rcases Nat.even_or_odd k with he | ho
    · rw [if_pos (Nat.even_iff.mp he), he.neg_one_pow]; norm_num
    · rw [if_neg (by rw [Nat.odd_iff.mp ho]; norm_num), ho.neg_one_pow]; norm_num
  rw [hs1, hs2]
  simp only [map_mul, map_pow, Complex.conj_ofReal, map_neg, map_one]
  rw [← Complex.exp_conj]
  simp only [map_mul, Complex.conj_ofReal, Complex.conj_I, map_intCast]
  have e1 : ((-(k : ℤ) : ℤ) : ℂ) * (φ : ℂ) * Complex.I = ((k : ℤ) : ℂ) * (φ : ℂ) * -Complex.I := by
    push_cast; ring
  rw [e1]
  have hsq : ((-1 : ℂ) ^ k) * ((-1 : ℂ) ^ k) = 1 := by
    rw [← mul_pow]; norm_num
  generalize Complex.exp (((k : ℤ) : ℂ) * (φ : ℂ) * -Complex.I) = E
  generalize (((Real.sin θ : ℝ) : ℂ) ^ k) = S
  generalize ((polyEval (castPoly (legendreD l k)) (Real.cos θ) : ℝ) : ℂ) = P
  generalize (((Real.sqrt ((normSq l k : ℝ) / π) : ℝ) : ℂ)) = R
  generalize ((-1 : ℂ) ^ k) = u at hsq ⊢
  simp only [Rat.cast_one, Complex.ofReal_one]
  linear_combination (-(R * E * S * P)) * hsq

/-- Y is 2π-periodic in the azimuth (integer order) -/
theorem Y_periodic (l : ℕ) (m : ℤ) (θ φ : ℝ) : Y l m θ (φ + 2 * π) = Y l m θ φ := by
  unfold Y
  have : Complex.exp ((m : ℂ) * ((φ + 2 * π : ℝ) : ℂ) * Complex.I) = Complex.exp ((m : ℂ) * (φ : ℂ) * Complex.I) := by
    have e : (m : ℂ) * ((φ + 2 * π : ℝ) : ℂ) * Complex.I = (m : ℂ) * (φ : ℂ) * Complex.I + m * (2 * π * Complex.I) := by
      push_cast; ring
    rw [e, Complex.exp_add, Complex.exp_int_mul_two_pi_mul_I, mul_one]
  rw [this]

/-- model of the delegated branch (l > 10): shift a negative azimuth by 2π, then call the library
with (order, degree, azimuth, polar) -/
noncomputable def aboveImpl (lib : ℤ → ℕ → ℝ → ℝ → ℂ) (l : ℕ) (θ φ : ℝ) (m : ℤ) : ℂ :=
  let φ' := if φ < 0 then φ + 2 * π else φ
  lib m l φ' θ

/-- with the library contract `lib m l azimuth polar = Y_lm(polar, azimuth)`, the delegated branch
returns Y_lm(θ, φ) for every azimuth, negative or not -/
theorem C08_above (lib : ℤ → ℕ → ℝ → ℝ → ℂ) (hlib : ∀ m l az pol, lib m l az pol = Y l m pol az)
    (l : ℕ) (θ φ : ℝ) (m : ℤ) : aboveImpl lib l θ φ m = Y l m θ φ := by
  unfold aboveImpl
  simp only [hlib]
  split
  · exact Y_periodic l m θ φ
  · rfl

/-- the source of the delegated branch is the statement sequence modelled by `aboveImpl`
(negative-azimuth shift, orders −l..l in increasing order, arguments (m, l, phi, theta)) -/
theorem C08_above_source : Pms.Gen.Sph.above =
    ["if phi < 0:\n    phi += 2 * np.pi", "results = []",
     "for m in range(-l, l + 1):\n    results.append(sph_harm(m, l, phi, theta))",
     "return np.array(results)"] := by decide

/-- the degree dispatcher returns the table of the requested degree for every l ≥ 1 -/
theorem C08_dispatch : Pms.Gen.Sph.dispatch =
    [("l == 1", "SphHarm1(theta, phi)"), ("l == 2", "SphHarm2(theta, phi)"), ("l == 3", "SphHarm3(theta, phi)"),
     ("l == 4", "SphHarm4(theta, phi)"), ("l == 5", "SphHarm5(theta, phi)"), ("l == 6", "SphHarm6(theta, phi)"),
     ("l == 7", "SphHarm7(theta, phi)"), ("l == 8", "SphHarm8(theta, phi)"), ("l == 9", "SphHarm9(theta, phi)"),
     ("l == 10", "SphHarm10(theta, phi)"), ("l > 10", "SphHarm_above(l, theta, phi)")] := by decide

/-- Rodrigues' list really is the Legendre polynomial: Bonnet's recurrence holds for n < 12 -/
theorem C08_legendre_sanity : (List.range 12).all bonnetOK = true := by decide +kernel

/-- Unsöld's identity as a polynomial identity in cos θ (with sin² = 1 − cos²):
π · Σ_m |Y_lm|² = (2l+1)/4 for l ≤ 12 -/
theorem C08_unsold_poly : ∀ l ∈ List.range 13, unsoldPoly l = [(2 * (l : Rat) + 1) / 4] := by decide +kernel

end Pms.Sph
