import Pms.Props.C07
import Pms.Lemmas.SymRot
import Pms.Model.LocalOrder
import Pms.Model.Vec
import Pms.Lemmas.Boo
import Pms.Props.C10
import Mathlib.LinearAlgebra.Matrix.Charpoly.Basic
import Mathlib.Algebra.BigOperators.Field

/-!
# C07 — rotation (and axis permutation as a special orthogonal map) of open clusters

An orthogonal map `R` (`RᵀR = 1`, proper or improper, any dimension) preserves every dot product (`C07_rot_dot`).
Consequences proved here, each for all cluster sizes and all `R`:
tetrahedral order (C17 `tetraImpl`/`tetraSpec`), participation ratio (C15 `prSpec`), gyration tensor (C17 `gyrSpec`:
conjugated by `R`, so trace and characteristic polynomial — hence all shape descriptors, which are functions of the
eigenvalues — are unchanged), |ψ_l| and the covariance ψ_l ↦ e^{ilα} ψ_l (C10), q_l (C09 `ql`, from the addition theorem
as a hypothesis: `_partial`).  For an open cluster (`ppp = 0`) `remove_pbc` is the identity, so the pair vectors of
the rotated cluster are the rotated pair vectors (`C07_rot_open_disp`).
-/
open Finset
namespace Pms.Sym
open Pms Pms.Pbc

section field
variable {K : Type} [Field K] [LinearOrder K] [IsStrictOrderedRing K]

/-- **Open cluster.**  With no periodic axis the minimum-image pair vector of the rotated cluster is the rotated pair
vector (any linear map `Rot`, any cell). -/
theorem C07_rot_open_disp (d : ℕ) (rint : K → ℤ) (H Hinv : ℕ → ℕ → K) (ppp : ℕ → K) (pos Rot : ℕ → ℕ → K)
    (hinv : IsInv d Hinv H) (hp : ∀ a < d, ppp a = 0) (i j k : ℕ) (hk : k < d) :
    removePbc d rint H Hinv ppp (fun x => rotate d Rot pos j x - rotate d Rot pos i x) k
      = matVec d Rot (removePbc d rint H Hinv ppp (fun x => pos j x - pos i x)) k := by
  rw [removePbc_open d rint H Hinv ppp _ hinv hp k hk]
  simp only [rotate]
  rw [← matVec_sub, matVec_eq, matVec_eq]
  refine Finset.sum_congr rfl fun a ha => ?_
  rw [removePbc_open d rint H Hinv ppp _ hinv hp a (Finset.mem_range.mp ha)]

/-- **Rotation, tetrahedral order.**  If the displacement vectors to all particles are rotated by an orthogonal map, the
cosines of all bond angles — hence `q8_tetrahedral`'s value for any four neighbours (`tetraImpl`) and the property's
formula for any neighbour set (`tetraSpec`) — are unchanged. -/
theorem C07_rot_tetra (sqrt : K → K) (Rot : ℕ → ℕ → K) (hR : IsOrtho 3 Rot) (R R' : ℕ → ℕ → K)
    (hR' : ∀ j, ∀ k < 3, R' j k = matVec 3 Rot (R j) k) (nb : ℕ → ℕ) (nbs : List ℕ) :
    LocalOrder.tetraImpl sqrt R' nb = LocalOrder.tetraImpl sqrt R nb ∧
    LocalOrder.tetraSpec (LocalOrder.cosPair sqrt R') nbs = LocalOrder.tetraSpec (LocalOrder.cosPair sqrt R) nbs := by
  have hdot : ∀ a b, LocalOrder.dot 3 (R' a) (R' b) = LocalOrder.dot 3 (R a) (R b) := by
    intro a b
    have h1 : LocalOrder.dot 3 (R' a) (R' b) = dot 3 (matVec 3 Rot (R a)) (matVec 3 Rot (R b)) := by
      simp only [LocalOrder.dot, dot, sumRange_eq]
      refine Finset.sum_congr rfl fun k hk => ?_
      rw [hR' a k (Finset.mem_range.mp hk), hR' b k (Finset.mem_range.mp hk)]
    rw [h1, dot_matVec 3 Rot hR]; rfl
  have hcos : LocalOrder.cosPair sqrt R' = LocalOrder.cosPair sqrt R := by
    funext a b
    simp only [LocalOrder.cosPair, LocalOrder.norm, hdot]
  constructor
  · unfold LocalOrder.tetraImpl; rw [hcos]
  · rw [hcos]

/-- **Rotation, participation ratio.**  Rotating every vector of a field by an orthogonal map leaves
`(Σ|e_i|²)² / (N Σ|e_i|⁴)` unchanged. -/
theorem C07_rot_pr (N d : ℕ) (Rot : ℕ → ℕ → K) (hR : IsOrtho d Rot) (v : ℕ → ℕ → K) :
    Vec.prSpec N d (rotate d Rot v) = Vec.prSpec N d v := by
  have h : Vec.norm2 d (rotate d Rot v) = Vec.norm2 d v := by
    funext i
    exact dot_matVec d Rot hR (v i) (v i)
  unfold Vec.prSpec; rw [h]

/-- **Rotation, gyration tensor.**  The gyration tensor of the rotated cluster is `R G Rᵀ`; its trace (= R_g²) and its
characteristic polynomial — hence its eigenvalues and every shape descriptor computed from them (radius of gyration,
asphericity, acylindricity, shape anisotropy, fractal dimension) — equal those of the original cluster. -/
theorem C07_rot_gyration (N d : ℕ) (Rot : ℕ → ℕ → K) (hR : IsOrtho d Rot) (P : ℕ → ℕ → K) :
    LocalOrder.trace d (LocalOrder.gyrSpec N (rotate d Rot P)) = LocalOrder.trace d (LocalOrder.gyrSpec N P) ∧
    (toMat d (LocalOrder.gyrSpec N (rotate d Rot P))).charpoly = (toMat d (LocalOrder.gyrSpec N P)).charpoly := by
  constructor
  · simp only [LocalOrder.trace, sumRange_eq, gyr_rotate]
    rw [Finset.sum_comm]
    refine Finset.sum_congr rfl fun a ha => ?_
    rw [Finset.sum_comm]
    have : ∀ b ∈ range d, ∑ m ∈ range d, Rot m a * Rot m b * LocalOrder.gyrSpec N P a b
        = if a = b then LocalOrder.gyrSpec N P a b else 0 := by
      intro b hb
      rw [← Finset.sum_mul, hR a (Finset.mem_range.mp ha) b (Finset.mem_range.mp hb)]
      split <;> simp
    rw [Finset.sum_congr rfl this, Finset.sum_ite_eq (range d) a]
    simp [ha]
  · have hconj : toMat d (LocalOrder.gyrSpec N (rotate d Rot P))
        = toMat d Rot * (toMat d (LocalOrder.gyrSpec N P) * (toMat d Rot).transpose) := by
      ext m n
      simp only [toMat, Matrix.mul_apply, Matrix.transpose_apply, gyr_rotate, Finset.mul_sum]
      rw [← Fin.sum_univ_eq_sum_range (fun a => ∑ b ∈ range d, Rot m a * Rot n b * LocalOrder.gyrSpec N P a b) d]
      refine Finset.sum_congr rfl fun a _ => ?_
      rw [← Fin.sum_univ_eq_sum_range (fun b => Rot m a * Rot n b * LocalOrder.gyrSpec N P a b) d]
      exact Finset.sum_congr rfl fun b _ => by ring
    have hortho : (toMat d Rot).transpose * toMat d Rot = 1 := by
      ext a b
      simp only [toMat, Matrix.mul_apply, Matrix.transpose_apply, Matrix.one_apply]
      rw [Fin.sum_univ_eq_sum_range (fun k => Rot k a * Rot k b) d, hR a a.isLt b b.isLt]
      simp [Fin.ext_iff]
    rw [hconj, Matrix.charpoly_mul_comm, Matrix.mul_assoc, hortho, Matrix.mul_one]

/-! ### axis permutations are orthogonal maps -/

/-- **Axis permutation is an orthogonal map**, so every rotational invariant above (tetrahedral order, participation
ratio, gyration-tensor trace and characteristic polynomial) is also invariant under permuting the coordinate axes. -/
theorem C07_axis_perm_ortho (d : ℕ) (π : Equiv.Perm ℕ) (hπ : PermBelow d π) : IsOrtho (K := K) d (permMatrix π) := by
  intro a ha b hb
  simp only [permMatrix]
  have : ∀ k ∈ range d, (if a = π k then (1 : K) else 0) * (if b = π k then 1 else 0)
      = if k = π.symm a then (if a = b then 1 else 0) else 0 := by
    intro k _
    have hiff : a = π k ↔ k = π.symm a := by
      constructor
      · intro h; rw [h]; simp
      · intro h; rw [h]; simp
    by_cases h1 : k = π.symm a
    · have ha' : a = π k := hiff.mpr h1
      rw [if_pos ha', if_pos h1, one_mul, ← ha']
      by_cases h2 : a = b
      · rw [if_pos h2, if_pos h2.symm]
      · rw [if_neg h2, if_neg (fun h => h2 h.symm)]
    · have ha' : ¬ a = π k := fun h => h1 (hiff.mp h)
      rw [if_neg ha', if_neg h1, zero_mul]
  rw [Finset.sum_congr rfl this, Finset.sum_ite_eq' (range d) (π.symm a)]
  have : π.symm a ∈ range d := Finset.mem_range.mpr ((hπ.symm a).mpr ha)
  simp [this]

/-- **Axis permutation, participation ratio and gyration tensor** (corollaries). -/
theorem C07_axis_perm_rotinv (N d : ℕ) (π : Equiv.Perm ℕ) (hπ : PermBelow d π) (v : ℕ → ℕ → K) :
    Vec.prSpec N d (rotate d (permMatrix π) v) = Vec.prSpec N d v ∧
    (toMat d (LocalOrder.gyrSpec N (rotate d (permMatrix π) v))).charpoly = (toMat d (LocalOrder.gyrSpec N v)).charpoly ∧
    (∀ i, ∀ k < d, rotate d (permMatrix π) v i k = permAxes π v i k) :=
  ⟨C07_rot_pr N d _ (C07_axis_perm_ortho d π hπ) v, (C07_rot_gyration N d _ (C07_axis_perm_ortho d π hπ) v).2,
   fun i k hk => matVec_permMatrix d π hπ (v i) k hk⟩

end field

/-! ### ψ_l (2-D) and q_l (3-D) -/

/-- **Rotation, ψ_l.**  Rotating all bonds of a particle by the angle α multiplies ψ_l by `e^{ilα}` (covariance, from
`C10_rotation`), so |ψ_l| is invariant — for every l, every coordination number, every α. -/
theorem C07_rot_psi2d (l : ℕ) (cn : ℕ) (d : ℕ → ℕ → ℝ) (α : ℝ) (hnz : ∀ m < cn, ¬ (d m 0 = 0 ∧ d m 1 = 0)) :
    let d' : ℕ → ℕ → ℝ := fun m k =>
      if k = 0 then d m 0 * Real.cos α - d m 1 * Real.sin α else d m 0 * Real.sin α + d m 1 * Real.cos α
    Boo2d.psi (Boo2d.npE l) cn d' = Complex.exp (Complex.I * (l : ℂ) * (α : ℂ)) * Boo2d.psi (Boo2d.npE l) cn d ∧
    ‖Boo2d.psi (Boo2d.npE l) cn d'‖ = ‖Boo2d.psi (Boo2d.npE l) cn d‖ := by
  intro d'
  have h := (Boo2d.C10_rotation l cn d (fun _ => 0) α hnz).1
  refine ⟨h, ?_⟩
  rw [h, norm_mul]
  have : Complex.I * (l : ℂ) * (α : ℂ) = ((l * α : ℝ) : ℂ) * Complex.I := by push_cast; ring
  rw [this, Complex.norm_exp_ofReal_mul_I, one_mul]

/-- **Rotation, q_l — partial.**  PROVED FROM the spherical-harmonic addition theorem, which stays a HYPOTHESIS
(`hadd`: `Σ_m Y_lm(u) conj Y_lm(v)` depends only on `u·v`; it is `(2l+1)/(4π) P_l(u·v)` for unit vectors — not in
Mathlib): for any family `Y` of 2l+1 functions of the bond vector with that property, any orthogonal `Rot`, any bonds
`u i j` and coordination numbers, the local invariant `q_l` of C09's model is unchanged when all bonds are rotated. -/
theorem C07_rot_ql_partial (l : ℕ) (Y : (ℕ → ℝ) → ℕ → ℂ) (F : ℝ → ℂ)
    (hadd : ∀ u v : ℕ → ℝ, ∑ k ∈ range (2 * l + 1), Y u k * (starRingEnd ℂ) (Y v k) = F (dot 3 u v))
    (Rot : ℕ → ℕ → ℝ) (hR : IsOrtho 3 Rot) (cn : ℕ → ℕ) (u : ℕ → ℕ → ℕ → ℝ) (i : ℕ) :
    Boo.ql Boo.cOps l (Boo.qlmImpl cn (fun i j => Y (matVec 3 Rot (u i j))) i)
      = Boo.ql Boo.cOps l (Boo.qlmImpl cn (fun i j => Y (u i j)) i) := by
  have key : ∀ w : ℕ → ℕ → ℝ, ((Boo.sumSq Boo.cOps (2 * l + 1) (Boo.qlmImpl cn (fun i j => Y (w j)) i) : ℝ) : ℂ)
      = (∑ j ∈ range (cn i), ∑ j' ∈ range (cn i), F (dot 3 (w j) (w j'))) / (((cn i : ℕ) : ℂ) * ((cn i : ℕ) : ℂ)) := by
    intro w
    rw [← qlm_sum_kernel (2 * l + 1) Y F hadd (cn i) w]
    simp only [Boo.sumSq, Boo.qlmImpl, sumRange_eq, Boo.cOps]
    push_cast
    exact Finset.sum_congr rfl fun k _ => (Complex.mul_conj _).symm
  have hsum : Boo.sumSq Boo.cOps (2 * l + 1) (Boo.qlmImpl cn (fun i j => Y (matVec 3 Rot (u i j))) i)
      = Boo.sumSq Boo.cOps (2 * l + 1) (Boo.qlmImpl cn (fun i j => Y (u i j)) i) := by
    apply Complex.ofReal_injective
    have k1 := key (fun j => matVec 3 Rot (u i j))
    have k2 := key (fun j => u i j)
    have e1 : (fun i' j => Y (matVec 3 Rot (u i j))) = fun (i' : ℕ) j => Y ((fun j => matVec 3 Rot (u i j)) j) := rfl
    have hq : ∀ (A B : ℕ → ℕ → ℕ → ℂ), (∀ j k, A i j k = B i j k) → Boo.qlmImpl cn A i = Boo.qlmImpl cn B i := by
      intro A B h; funext k; simp only [Boo.qlmImpl, h]
    rw [hq (fun i j => Y (matVec 3 Rot (u i j))) (fun _ j => Y ((fun j => matVec 3 Rot (u i j)) j)) (fun _ _ => rfl), k1,
        hq (fun i j => Y (u i j)) (fun _ j => Y ((fun j => u i j) j)) (fun _ _ => rfl), k2]
    congr 1
    refine Finset.sum_congr rfl fun j _ => Finset.sum_congr rfl fun j' _ => ?_
    rw [dot_matVec 3 Rot hR]
  unfold Boo.ql Boo.qlSq
  rw [hsum]

/-- the FULL statement for q_l and ŵ_l.  Proved since: the q_l half for every degree l ≤ 12 — `C07_rot_ql` in
`Pms/Props/C07Ql.lean`, from the addition theorem `C09_addition_theorem` for the model's own spherical harmonics (a
kernel-decided polynomial identity).  Still NOT proved: degrees l > 12 (the code delegates those to scipy) and ŵ_l, whose
invariance needs the SO(3)-invariance of the Wigner-3j contraction (not available in Mathlib).  With the model's own
spherical harmonics `bondY`, `q_l` of every particle is unchanged by every rotation of the bonds: -/
def C07_rot_ql_wl_FullStatement : Prop :=
  ∀ (l : ℕ) (Rot : ℕ → ℕ → ℝ), IsOrtho 3 Rot →
    ∀ (cn : ℕ → ℕ) (u : ℕ → ℕ → ℕ → ℝ) (i : ℕ), (∀ j < cn i, dot 3 (u i j) (u i j) ≠ 0) →
      let Yv : (ℕ → ℕ → ℕ → ℝ) → ℕ → ℕ → ℕ → ℂ := fun b i j k =>
        Boo.bondY Boo.cOps l (b i j 0) (b i j 1) (b i j 2) ((k : ℤ) - (l : ℤ))
      Boo.ql Boo.cOps l (Boo.qlmImpl cn (Yv fun i j => matVec 3 Rot (u i j)) i)
        = Boo.ql Boo.cOps l (Boo.qlmImpl cn (Yv u) i)

end Pms.Sym
