import Pms.Model.Sq
import Pms.Model.Wave
import Pms.Gen.Sq
import Pms.Gen.Wave
import Pms.Lemmas.Sq

/-! C04 — S(q): property theorems.  The data `Pms.Gen.Sq.*`, `Pms.Gen.Wave.*` is regenerated from the source on every run. -/
namespace Pms.Sq
open Pms

/-- `getresults`: K = 1..5 species call the K-ary method -/
theorem C04_dispatch :
    (List.range' 1 5).map (dispatchOf Pms.Gen.Sq.dispatch) =
      [some "unary", some "binary", some "ternary", some "quarternary", some "quinary"] ∧
    (Pms.Gen.Sq.methods.map (·.name)) = ["unary", "binary", "ternary", "quarternary", "quinary"] := by
  decide +kernel

/-- species routing: in the K-ary method, type id t ∈ 1..K is accumulated into its own accumulator (pairwise different,
never the total one), for every K ≤ 5 -/
theorem C04_routing : ∀ K ∈ List.range' 2 4,
    checkFor Pms.Gen.Sq.methods Pms.Gen.Sq.dispatch K (fun m => m.okRouting K) = true := by
  decide +kernel

/-- products and normalisation: for every K ≤ 5 the K-ary method has exactly the documented columns, and each column
Sq_ab is fed by exactly one product `acc_a · conj(acc_b)` and divided exactly once, by `T·N_a` (a = b) or `T·√(N_a N_b)` -/
theorem C04_products_norm : ∀ K ∈ List.range' 1 5,
    checkFor Pms.Gen.Sq.methods Pms.Gen.Sq.dispatch K (fun m => m.ok K) = true := by
  decide +kernel

/-- for K > 5 species `getresults` runs the unary body, which is sound for the total S(q) and has no partial column -/
theorem C04_dispatch_many : ∀ K > 5, checkFor Pms.Gen.Sq.methods Pms.Gen.Sq.dispatch K (fun m => m.ok K) = true := by
  intro K hK
  have hd : Pms.Gen.Sq.dispatch = [("==", 1, "unary"), ("==", 2, "binary"), ("==", 3, "ternary"), ("==", 4, "quarternary"),
      ("==", 5, "quinary"), (">", 5, "unary")] := by decide +kernel
  have h6 : checkFor Pms.Gen.Sq.methods Pms.Gen.Sq.dispatch 6 (fun m => m.ok 6) = true := by decide +kernel
  have e : dispatchOf Pms.Gen.Sq.dispatch K = dispatchOf Pms.Gen.Sq.dispatch 6 := by
    rw [hd]
    have h1 : (K == 1) = false := by simp; omega
    have h2 : (K == 2) = false := by simp; omega
    have h3 : (K == 3) = false := by simp; omega
    have h4 : (K == 4) = false := by simp; omega
    have h5 : (K == 5) = false := by simp; omega
    have h7 : decide (K > 5) = true := by simp; omega
    simp [dispatchOf, cmpHolds, List.find?, h1, h2, h3, h4, h5, h7]
  have ek : ∀ m : Method, m.ok K = m.ok 6 := by
    intro m
    have p1 : Spec.pairs K = Spec.pairs 6 := by unfold Spec.pairs; simp; omega
    have c1 : (K == 1) = false := by simp; omega
    have c2 : decide (K > 5) = true := by simp; omega
    unfold Method.ok Spec.columns
    rw [p1]; simp [c1, c2]
  unfold checkFor methodFor at h6 ⊢
  rw [e]
  cases hh : dispatchOf Pms.Gen.Sq.dispatch 6 with
  | none => simp [hh] at h6
  | some nm =>
    simp only [hh] at h6 ⊢
    cases hm : List.find? (fun m => m.name == nm) Pms.Gen.Sq.methods with
    | none => simp [hm] at h6
    | some m => simp only [hm] at h6 ⊢; rw [ek]; exact h6

section refinement
variable {F : Type} [Field F] [LinearOrder F] [IsStrictOrderedRing F]

/-- **Impl = Spec, per wave vector** (before the rounding and the group-by, which are applied identically to both sides):
for every species count K (1..5: the K-ary body; > 5: the unary body), for every number of frames T, particles N,
wave vectors, every type assignment with ids in 1..K (`uniq = [1..K]` is `np.unique`'s output then) and ARBITRARY phase
arrays c, s: the method dispatched by the current source has exactly the documented columns, its `Sq` column is the
frame average of |ρ|²/N and each of its `Sq_ab` columns is the frame average of Re[ρ_a conj ρ_b]/√(N_a N_b). -/
theorem C04_refines (sqrt : F → F) (hs : SqrtOK sqrt) (K : ℕ) (hK : 1 ≤ K) (m : Method)
    (hm : methodFor Pms.Gen.Sq.methods Pms.Gen.Sq.dispatch K = some m)
    (T N : ℕ) (ty : ℕ → ℕ → ℕ) (hty : ∀ f < T, ∀ i < N, 1 ≤ ty f i ∧ ty f i ≤ K) (c s : ℕ → ℕ → ℕ → F) (k : ℕ) :
    m.columns = "q" :: Spec.columns K ∧
    m.value sqrt T N (typecount (List.range' 1 K) N (ty 0)) ty c s "Sq" k = Spec.Stot T N c s k ∧
    ∀ p ∈ Spec.pairs K, m.value sqrt T N (typecount (List.range' 1 K) N (ty 0)) ty c s (colName p.1 p.2) k
        = Spec.S sqrt T N ty c s p.1 p.2 k := by
  have hok : m.ok K = true := by
    by_cases h5 : K ≤ 5
    · have := C04_products_norm K (by rw [List.mem_range'_1]; omega)
      unfold checkFor at this; rw [hm] at this; exact this
    · have := C04_dispatch_many K (by omega)
      unfold checkFor at this; rw [hm] at this; exact this
  unfold Method.ok at hok
  simp only [Bool.and_eq_true, Bool.or_eq_true, beq_iff_eq, decide_eq_true_eq, List.all_eq_true] at hok
  obtain ⟨⟨⟨⟨hr, hn⟩, ht⟩, hc⟩, hp⟩ := hok
  refine ⟨hc, value_total sqrt hn ht _ ty c s k, ?_⟩
  intro p hpm
  obtain ⟨h2, h5, h1, h12, hk⟩ := mem_pairs hpm
  have hr' : m.okRouting K = true := by
    rcases hr with (h | h) | h
    · omega
    · omega
    · exact h
  exact value_pair hs hr' ty hty c s ⟨h1, by omega⟩ ⟨by omega, hk⟩ (hp p hpm) k

end refinement

end Pms.Sq
