import Pms.Model.Sq
import Pms.Model.Wave
import Pms.Gen.Sq
import Pms.Gen.Wave

/-! C04 — S(q): property theorems.  The data `Pms.Gen.Sq.*`, `Pms.Gen.Wave.*` is regenerated from the source on every run. -/
namespace Pms.Sq
open Pms

/-- `getresults`: K = 1..5 species call the K-ary method -/
theorem C04_dispatch :
    (List.range' 1 5).map (dispatchOf Pms.Gen.Sq.dispatch) =
      [some "unary", some "binary", some "ternary", some "quarternary", some "quinary"] ∧
    (Pms.Gen.Sq.methods.map (·.name)) = ["unary", "binary", "ternary", "quarternary", "quinary"] := by
  decide +kernel

/-- species routing: in the K-ary method, type id t ∈ 1..K is accumulated into its own accumulator (pairwise different,
never the total one), for every K ≤ 5 -/
theorem C04_routing : ∀ K ∈ List.range' 2 4,
    checkFor Pms.Gen.Sq.methods Pms.Gen.Sq.dispatch K (fun m => m.okRouting K) = true := by
  decide +kernel

/-- products and normalisation: for every K ≤ 5 the K-ary method has exactly the documented columns, and each column
Sq_ab is fed by exactly one product `acc_a · conj(acc_b)` and divided exactly once, by `T·N_a` (a = b) or `T·√(N_a N_b)` -/
theorem C04_products_norm : ∀ K ∈ List.range' 1 5,
    checkFor Pms.Gen.Sq.methods Pms.Gen.Sq.dispatch K (fun m => m.ok K) = true := by
  decide +kernel

end Pms.Sq
