import Pms.Model.Sq
import Pms.Model.Wave
import Pms.Gen.Sq
import Pms.Gen.Wave
import Pms.Lemmas.Sq
import Pms.Lemmas.Wave
import Pms.Lemmas.SqComplex
import Mathlib.Analysis.Real.Sqrt

/-! C04 — S(q): property theorems.  The data `Pms.Gen.Sq.*`, `Pms.Gen.Wave.*` is regenerated from the source on every run. -/
namespace Pms.Sq
open Pms

/-- `getresults`: K = 1..5 species call the K-ary method -/
theorem C04_dispatch :
    (List.range' 1 5).map (dispatchOf Pms.Gen.Sq.dispatch) =
      [some "unary", some "binary", some "ternary", some "quarternary", some "quinary"] ∧
    (Pms.Gen.Sq.methods.map (·.name)) = ["unary", "binary", "ternary", "quarternary", "quinary"] := by
  decide +kernel

/-- species routing: in the K-ary method, type id t ∈ 1..K is accumulated into its own accumulator (pairwise different,
never the total one), for every K ≤ 5 -/
theorem C04_routing : ∀ K ∈ List.range' 2 4,
    checkFor Pms.Gen.Sq.methods Pms.Gen.Sq.dispatch K (fun m => m.okRouting K) = true := by
  decide +kernel

/-- products and normalisation: for every K ≤ 5 the K-ary method has exactly the documented columns, and each column
Sq_ab is fed by exactly one product `acc_a · conj(acc_b)` and divided exactly once, by `T·N_a` (a = b) or `T·√(N_a N_b)` -/
theorem C04_products_norm : ∀ K ∈ List.range' 1 5,
    checkFor Pms.Gen.Sq.methods Pms.Gen.Sq.dispatch K (fun m => m.ok K) = true := by
  decide +kernel

/-- for K > 5 species `getresults` runs the unary body, which is sound for the total S(q) and has no partial column -/
theorem C04_dispatch_many : ∀ K > 5, checkFor Pms.Gen.Sq.methods Pms.Gen.Sq.dispatch K (fun m => m.ok K) = true := by
  intro K hK
  have hd : Pms.Gen.Sq.dispatch = [("==", 1, "unary"), ("==", 2, "binary"), ("==", 3, "ternary"), ("==", 4, "quarternary"),
      ("==", 5, "quinary"), (">", 5, "unary")] := by decide +kernel
  have h6 : checkFor Pms.Gen.Sq.methods Pms.Gen.Sq.dispatch 6 (fun m => m.ok 6) = true := by decide +kernel
  have e : dispatchOf Pms.Gen.Sq.dispatch K = dispatchOf Pms.Gen.Sq.dispatch 6 := by
    rw [hd]
    have h1 : (K == 1) = false := by simp; omega
    have h2 : (K == 2) = false := by simp; omega
    have h3 : (K == 3) = false := by simp; omega
    have h4 : (K == 4) = false := by simp; omega
    have h5 : (K == 5) = false := by simp; omega
    have h7 : decide (K > 5) = true := by simp; omega
    simp [dispatchOf, cmpHolds, List.find?, h1, h2, h3, h4, h5, h7]
  have ek : ∀ m : Method, m.ok K = m.ok 6 := by
    intro m
    have p1 : Spec.pairs K = Spec.pairs 6 := by unfold Spec.pairs; simp; omega
    have c1 : (K == 1) = false := by simp; omega
    have c2 : decide (K > 5) = true := by simp; omega
    unfold Method.ok Spec.columns
    rw [p1]; simp [c1, c2]
  unfold checkFor methodFor at h6 ⊢
  rw [e]
  cases hh : dispatchOf Pms.Gen.Sq.dispatch 6 with
  | none => simp [hh] at h6
  | some nm =>
    simp only [hh] at h6 ⊢
    cases hm : List.find? (fun m => m.name == nm) Pms.Gen.Sq.methods with
    | none => simp [hm] at h6
    | some m => simp only [hm] at h6 ⊢; rw [ek]; exact h6

section refinement
variable {F : Type} [Field F] [LinearOrder F] [IsStrictOrderedRing F]

/-- **Impl = Spec, per wave vector** (before the rounding and the group-by, which are applied identically to both sides):
for every species count K (1..5: the K-ary body; > 5: the unary body), for every number of frames T, particles N,
wave vectors, every type assignment with ids in 1..K (`uniq = [1..K]` is `np.unique`'s output then) and ARBITRARY phase
arrays c, s: the method dispatched by the current source has exactly the documented columns, its `Sq` column is the
frame average of |ρ|²/N and each of its `Sq_ab` columns is the frame average of Re[ρ_a conj ρ_b]/√(N_a N_b). -/
theorem C04_refines (sqrt : F → F) (hs : SqrtOK sqrt) (K : ℕ) (hK : 1 ≤ K) (m : Method)
    (hm : methodFor Pms.Gen.Sq.methods Pms.Gen.Sq.dispatch K = some m)
    (T N : ℕ) (ty : ℕ → ℕ → ℕ) (hty : ∀ f < T, ∀ i < N, 1 ≤ ty f i ∧ ty f i ≤ K) (c s : ℕ → ℕ → ℕ → F) (k : ℕ) :
    m.columns = "q" :: Spec.columns K ∧
    m.value sqrt T N (typecount (List.range' 1 K) N (ty 0)) ty c s "Sq" k = Spec.Stot T N c s k ∧
    ∀ p ∈ Spec.pairs K, m.value sqrt T N (typecount (List.range' 1 K) N (ty 0)) ty c s (colName p.1 p.2) k
        = Spec.S sqrt T N ty c s p.1 p.2 k := by
  have hok : m.ok K = true := by
    by_cases h5 : K ≤ 5
    · have := C04_products_norm K (by rw [List.mem_range'_1]; omega)
      unfold checkFor at this; rw [hm] at this; exact this
    · have := C04_dispatch_many K (by omega)
      unfold checkFor at this; rw [hm] at this; exact this
  unfold Method.ok at hok
  simp only [Bool.and_eq_true, Bool.or_eq_true, beq_iff_eq, decide_eq_true_eq, List.all_eq_true] at hok
  obtain ⟨⟨⟨⟨hr, hn⟩, ht⟩, hc⟩, hp⟩ := hok
  refine ⟨hc, value_total sqrt hn ht _ ty c s k, ?_⟩
  intro p hpm
  obtain ⟨h2, h5, h1, h12, hk⟩ := mem_pairs hpm
  have hr' : m.okRouting K = true := by
    rcases hr with (h | h) | h
    · omega
    · omega
    · exact h
  exact value_pair hs hr' ty hty c s ⟨h1, by omega⟩ ⟨by omega, hk⟩ (hp p hpm) k

/-- the Spec table looks its columns up unambiguously (K ≤ 5; for K > 5 there is no pair column) -/
theorem C04_spec_lookup : ∀ K ∈ List.range' 1 5, specLookupOK K = true := by decide +kernel

/-- **Impl = Spec, returned frame**: with ANY rounding map `rnd` (the code's `round(6)`) and ANY grouping key
(the code's rounded |q|) applied to both sides, the frame returned by the dispatched method equals the Spec frame:
columns Sq, Sq11 … in the documented order, each the per-key mean of the rounded density-mode definition. -/
theorem C04_table (sqrt rnd : F → F) (hs : SqrtOK sqrt) (K : ℕ) (hK : 1 ≤ K) (m : Method)
    (hm : methodFor Pms.Gen.Sq.methods Pms.Gen.Sq.dispatch K = some m)
    (T N : ℕ) (ty : ℕ → ℕ → ℕ) (hty : ∀ f < T, ∀ i < N, 1 ≤ ty f i ∧ ty f i ≤ K) (c s : ℕ → ℕ → ℕ → F)
    {κ : Type} [LinearOrder κ] (nq : ℕ) (key : ℕ → κ) :
    m.table sqrt rnd T N (typecount (List.range' 1 K) N (ty 0)) ty nq key c s
      = Spec.table sqrt rnd K T N ty nq key c s := by
  have hcols := (C04_refines sqrt hs K hK m hm T N ty hty c s 0).1
  unfold Method.table Spec.table tableOf
  rw [hcols]
  simp only [List.drop]
  refine List.map_congr_left fun col hcol => ?_
  congr 2
  funext k
  congr 1
  obtain ⟨_, htot, hpair⟩ := C04_refines sqrt hs K hK m hm T N ty hty c s k
  unfold Spec.columns at hcol
  rcases List.mem_cons.1 hcol with rfl | hcol
  · rw [htot]; unfold Spec.value; rw [if_pos rfl]
  · obtain ⟨p, hp, rfl⟩ := List.mem_map.1 hcol
    rw [hpair p hp]
    obtain ⟨h2, h5, _⟩ := mem_pairs hp
    have hl := C04_spec_lookup K (by rw [List.mem_range'_1]; omega)
    unfold specLookupOK at hl
    rw [List.all_eq_true] at hl
    have := hl p hp
    simp only [Bool.and_eq_true, bne_iff_ne, ne_eq, beq_iff_eq] at this
    unfold Spec.value
    rw [if_neg this.1, this.2]

/-- **sum rule** (per wave vector, every K ≥ 1, every composition with all species present):
N·S = Σ_a N_a S_aa + 2 Σ_{a<b} √(N_a N_b) S_ab   (species a+1, b+1 for a, b < K).  Uses only ρ = Σ_a ρ_a — no trigonometric identity. -/
theorem C04_sumrule (sqrt : F → F) (hs : SqrtOK sqrt) (K T N : ℕ) (hK : 1 ≤ K) (ty : ℕ → ℕ → ℕ)
    (hty : ∀ f < T, ∀ i < N, 1 ≤ ty f i ∧ ty f i ≤ K)
    (hpos : ∀ a, 1 ≤ a ∧ a ≤ K → 0 < countType N (ty 0) a) (c s : ℕ → ℕ → ℕ → F) (k : ℕ) :
    (N : F) * Spec.Stot T N c s k =
      ∑ a ∈ Finset.range K, (countType N (ty 0) (a + 1) : F) * Spec.S sqrt T N ty c s (a + 1) (a + 1) k
      + 2 * ∑ a ∈ Finset.range K, ∑ b ∈ Finset.range K,
          if a < b then sqrt ((countType N (ty 0) (a + 1) * countType N (ty 0) (b + 1) : ℕ) : F)
                          * Spec.S sqrt T N ty c s (a + 1) (b + 1) k else 0 :=
  sumrule hs hK ty hty hpos c s k

/-- **sum rule for the returned frame**: the returned numbers are per-|q| means of values rounded to 1e-6, so the sum
rule holds for them up to the rounding: if `rnd` moves no value by more than ε (ε = 5·10⁻⁷ for `round(6)`), then for
every group G of wave vectors (in particular the rows of equal |q|) the returned means satisfy
|N·S − Σ_a N_a S_aa − 2 Σ_{a<b} √(N_a N_b) S_ab| ≤ ε·(N + Σ_a N_a + 2 Σ_{a<b} √(N_a N_b));  with ε = 0 (no rounding) exactly. -/
theorem C04_sumrule_returned (sqrt rnd : F → F) (hs : SqrtOK sqrt) (ε : F) (hε : 0 ≤ ε) (hrnd : ∀ x, |rnd x - x| ≤ ε)
    (K T N : ℕ) (hK : 1 ≤ K) (ty : ℕ → ℕ → ℕ) (hty : ∀ f < T, ∀ i < N, 1 ≤ ty f i ∧ ty f i ≤ K)
    (hpos : ∀ a, 1 ≤ a ∧ a ≤ K → 0 < countType N (ty 0) a) (c s : ℕ → ℕ → ℕ → F) (G : Finset ℕ) :
    |(N : F) * ((∑ k ∈ G, rnd (Spec.Stot T N c s k)) / (G.card : F))
      - (∑ a ∈ Finset.range K, (countType N (ty 0) (a + 1) : F) *
            ((∑ k ∈ G, rnd (Spec.S sqrt T N ty c s (a + 1) (a + 1) k)) / (G.card : F))
         + 2 * ∑ a ∈ Finset.range K, ∑ b ∈ Finset.range K,
            if a < b then sqrt ((countType N (ty 0) (a + 1) * countType N (ty 0) (b + 1) : ℕ) : F)
                * ((∑ k ∈ G, rnd (Spec.S sqrt T N ty c s (a + 1) (b + 1) k)) / (G.card : F)) else 0)|
      ≤ ε * ((N : F) + (∑ a ∈ Finset.range K, (countType N (ty 0) (a + 1) : F)
              + 2 * ∑ a ∈ Finset.range K, ∑ b ∈ Finset.range K,
                  if a < b then sqrt ((countType N (ty 0) (a + 1) * countType N (ty 0) (b + 1) : ℕ) : F) else 0)) := by
  have hexact := mean_identity G K (N : F) (fun a => (countType N (ty 0) (a + 1) : F))
      (fun a b => sqrt ((countType N (ty 0) (a + 1) * countType N (ty 0) (b + 1) : ℕ) : F))
      (fun k => Spec.Stot T N c s k) (fun a k => Spec.S sqrt T N ty c s (a + 1) (a + 1) k)
      (fun a b k => Spec.S sqrt T N ty c s (a + 1) (b + 1) k)
      (fun k => sumrule hs hK ty hty hpos c s k)
  exact perturbed_identity K (N : F) _ _ (Nat.cast_nonneg _) (fun a => Nat.cast_nonneg _)
    (fun a b => (hs _ (Nat.cast_nonneg _)).1) _ _ _ _ _ _ ε hexact
    (mean_perturb G _ _ ε hε fun k => hrnd _) (fun a => mean_perturb G _ _ ε hε fun k => hrnd _)
    (fun a b => mean_perturb G _ _ ε hε fun k => hrnd _)

/-- **diagonal terms are non-negative**: per wave vector, and in the returned frame (after any rounding that keeps
non-negative numbers non-negative, and the per-|q| mean) -/
theorem C04_diag_nonneg (sqrt rnd : F → F) (hs : SqrtOK sqrt) (hr : ∀ x, 0 ≤ x → 0 ≤ rnd x) (T N : ℕ) (ty : ℕ → ℕ → ℕ)
    (c s : ℕ → ℕ → ℕ → F) (a : ℕ) {κ : Type} [LinearOrder κ] (nq : ℕ) (key : ℕ → κ) :
    (∀ k, 0 ≤ Spec.S sqrt T N ty c s a a k ∧ 0 ≤ Spec.Stot T N c s k) ∧
    (∀ e ∈ groupMean nq key (fun k => rnd (Spec.S sqrt T N ty c s a a k)), 0 ≤ e.2) ∧
    (∀ e ∈ groupMean nq key (fun k => rnd (Spec.Stot T N c s k)), 0 ≤ e.2) := by
  refine ⟨fun k => ⟨S_diag_nonneg hs T N ty c s a k, Stot_nonneg T N c s k⟩, ?_, ?_⟩
  · intro e he
    rw [groupMean_eq, List.mem_map] at he
    obtain ⟨x, _, rfl⟩ := he
    exact div_nonneg (Finset.sum_nonneg fun k _ => hr _ (S_diag_nonneg hs T N ty c s a k)) (Nat.cast_nonneg _)
  · intro e he
    rw [groupMean_eq, List.mem_map] at he
    obtain ⟨x, _, rfl⟩ := he
    exact div_nonneg (Finset.sum_nonneg fun k _ => hr _ (Stot_nonneg T N c s k)) (Nat.cast_nonneg _)

/-- **group-by**: the returned rows carry the distinct keys in strictly increasing order, each key of a supplied wave
vector exactly once, and the value is the arithmetic mean over exactly the wave vectors with that key -/
theorem C04_group {κ : Type} [LinearOrder κ] (nq : ℕ) (key : ℕ → κ) (v : ℕ → F) :
    (distinctKeys nq key).Pairwise (· < ·) ∧ (∀ x, x ∈ distinctKeys nq key ↔ ∃ k < nq, key k = x) ∧
    groupMean nq key v = (distinctKeys nq key).map fun x =>
      (x, (∑ k ∈ (Finset.range nq).filter (fun k => key k = x), v k) /
          (((Finset.range nq).filter (fun k => key k = x)).card : F)) :=
  ⟨sorted_distinctKeys nq key, mem_distinctKeys nq key, groupMean_eq nq key v⟩

end refinement

/-- the `np.unique` step: when the type ids of frame 0 are exactly 1..K (all in range, every species present) the
sorted distinct ids computed by the model's `uniqTypes` are [1..K] — the `uniq` under which `C04_refines`/`C04_table`
are stated — so `typecount` is the composition N_1 … N_K and `len(typenumber)` = K -/
theorem C04_unique (K N : ℕ) (ty0 : ℕ → ℕ) (hty : ∀ i < N, 1 ≤ ty0 i ∧ ty0 i ≤ K)
    (hpos : ∀ a, 1 ≤ a ∧ a ≤ K → 0 < countType N ty0 a) :
    uniqTypes N ty0 = List.range' 1 K ∧ (uniqTypes N ty0).length = K ∧
    ∀ a, 1 ≤ a ∧ a ≤ K → typecount (uniqTypes N ty0) N ty0 (a - 1) = countType N ty0 a := by
  have h := uniqTypes_eq ty0 hty hpos
  refine ⟨h, by rw [h]; simp, fun a ha => ?_⟩
  rw [h]; exact typecount_range' ty0 ha

/-! ### the density modes over ℂ -/

/-- **the pair form is the property's formula**: with c = cos(q·r), s = sin(q·r) the model's Re(ρ_a · conj ρ_b) is
Re[ρ_a(q) · ρ_b(−q)] with ρ defined by the complex exponential (ρ_b(−q) has the phases −θ) -/
theorem C04_density_modes (N : ℕ) (ty : ℕ → ℕ) (θ : ℕ → ℝ) (a b k : ℕ) :
    reMulConj (Spec.rho N ty (fun i _ => Real.cos (θ i)) (fun i _ => Real.sin (θ i)) a k)
              (Spec.rho N ty (fun i _ => Real.cos (θ i)) (fun i _ => Real.sin (θ i)) b k)
      = (rhoC N ty θ a * rhoC N ty (fun i => -θ i) b).re := by
  rw [reMulConj_eq, Complex.mul_re, rhoC_re, rhoC_im, rhoC_re, rhoC_im]
  have e : ∀ (a : ℕ), (Spec.rho N ty (fun i _ => Real.cos (θ i)) (fun i _ => Real.sin (θ i)) a k).re
        = ∑ i ∈ Finset.range N, if ty i = a then Real.cos (θ i) else 0 := by
    intro a; unfold Spec.rho; rw [mode_re]
    refine Finset.sum_congr rfl fun i _ => ?_
    unfold ind; split <;> simp
  have e' : ∀ (a : ℕ), (Spec.rho N ty (fun i _ => Real.cos (θ i)) (fun i _ => Real.sin (θ i)) a k).im
        = ∑ i ∈ Finset.range N, if ty i = a then -Real.sin (θ i) else 0 := by
    intro a; unfold Spec.rho; rw [mode_im]
    refine Finset.sum_congr rfl fun i _ => ?_
    unfold ind; split <;> simp
  rw [e, e, e', e']
  simp only [Real.cos_neg, Real.sin_neg, neg_neg]
  have : ∀ g : ℕ → ℝ, (∑ i ∈ Finset.range N, if ty i = a then -g i else 0) = -(∑ i ∈ Finset.range N, if ty i = a then g i else 0) := by
    intro g; rw [← Finset.sum_neg_distrib]; refine Finset.sum_congr rfl fun i _ => ?_; split <;> simp
  have h2 : ∀ g : ℕ → ℝ, (∑ i ∈ Finset.range N, if ty i = b then -g i else 0) = -(∑ i ∈ Finset.range N, if ty i = b then g i else 0) := by
    intro g; rw [← Finset.sum_neg_distrib]; refine Finset.sum_congr rfl fun i _ => ?_; split <;> simp
  rw [this, h2]; ring

/-- …in particular for θ_i = q·r_i with q = 2π n / L: the property's ρ_a(q) = Σ_{a-particles} exp(−i q·r) -/
theorem C04_density_modes_q (d : ℕ) (n : ℕ → ℤ) (L : ℕ → ℝ) (r : ℕ → ℕ → ℝ) (N : ℕ) (ty : ℕ → ℕ) (a b k : ℕ) :
    reMulConj (Spec.rho N ty (fun i _ => Real.cos (qdotr d n L r i)) (fun i _ => Real.sin (qdotr d n L r i)) a k)
              (Spec.rho N ty (fun i _ => Real.cos (qdotr d n L r i)) (fun i _ => Real.sin (qdotr d n L r i)) b k)
      = (rhoC N ty (qdotr d n L r) a * rhoC N ty (qdotr d (fun j => -n j) L r) b).re := by
  rw [C04_density_modes]
  have : (fun i => -qdotr d n L r i) = qdotr d (fun j => -n j) L r := by
    funext i; unfold qdotr; rw [← Finset.sum_neg_distrib]
    refine Finset.sum_congr rfl fun j _ => ?_
    push_cast; ring
  rw [this]

/-- non-vacuity: the real square root satisfies the `sqrt` contract -/
example : SqrtOK Real.sqrt := fun x hx => ⟨Real.sqrt_nonneg x, Real.mul_self_sqrt hx⟩

/-- non-vacuity of the typing hypotheses (two species, three particles, one frame) -/
example : (∀ f < 1, ∀ i < 3, 1 ≤ (fun (_ i : ℕ) => if i = 0 then 1 else 2) f i ∧ (fun (_ i : ℕ) => if i = 0 then 1 else 2) f i ≤ 2) ∧
    (∀ a, 1 ≤ a ∧ a ≤ 2 → 0 < countType 3 ((fun (_ i : ℕ) => if i = 0 then 1 else 2) 0) a) := by
  constructor
  · intro f _ i _; by_cases h : i = 0 <;> simp [h]
  · intro a ha
    have : a = 1 ∨ a = 2 := by omega
    rcases this with rfl | rfl <;> decide

/-! ### the default wave-vector set -/
open Pms.Wave

/-- the regenerated loop nest / filters of `choosewavevector` are the documented ones, and the remaining statements
(allocation of numofq^ndim rows, `nhalf = int(numofq/2)`, zero-row removal, `>= 0` filter for `True`) are as modelled -/
theorem C04_wave_source : Pms.Gen.Wave.branches = [std2, std3] ∧ Pms.Gen.Wave.frame =
    ["qvectors = np.zeros((numofq ** ndim, ndim), dtype=np.int32)", "nhalf = int(numofq / 2)",
     "condition = (qvectors == 0).all(axis=1)", "qvectors = qvectors[~condition]",
     "if isinstance(onlypositive, bool) and onlypositive:\n    condition = (qvectors >= 0).all(axis=1)\n    qvectors = qvectors[condition]",
     "return qvectors"] := by
  decide +kernel

/-- **default wave-vector set**: for the regenerated `choosewavevector`, with h = ⌊numofq/2⌋, the returned list contains
exactly the non-zero integer vectors with every component in [−h, h) whose norm is an integer (restricted by the
`onlypositive` option as documented), each exactly once.  (2-D and 3-D.) -/
theorem C04_default_vectors (n : ℕ) (pos : Pos) :
    (∀ v, v ∈ choose Pms.Gen.Wave.branches 2 n pos ↔
      ∃ x y : ℤ, v = [x, y] ∧ (-((n / 2 : ℕ) : ℤ) ≤ x ∧ x < ((n / 2 : ℕ) : ℤ)) ∧ (-((n / 2 : ℕ) : ℤ) ≤ y ∧ y < ((n / 2 : ℕ) : ℤ)) ∧
        (∃ r : ℕ, (r : ℤ) * r = x * x + y * y) ∧ (x ≠ 0 ∨ y ≠ 0) ∧ posOK2 pos x y) ∧
    (∀ v, v ∈ choose Pms.Gen.Wave.branches 3 n pos ↔
      ∃ x y z : ℤ, v = [x, y, z] ∧ (-((n / 2 : ℕ) : ℤ) ≤ x ∧ x < ((n / 2 : ℕ) : ℤ)) ∧
        (-((n / 2 : ℕ) : ℤ) ≤ y ∧ y < ((n / 2 : ℕ) : ℤ)) ∧ (-((n / 2 : ℕ) : ℤ) ≤ z ∧ z < ((n / 2 : ℕ) : ℤ)) ∧
        (∃ r : ℕ, (r : ℤ) * r = x * x + y * y + z * z) ∧ (x ≠ 0 ∨ y ≠ 0 ∨ z ≠ 0) ∧ posOK3 pos x y z) ∧
    (choose Pms.Gen.Wave.branches 2 n pos).Nodup ∧ (choose Pms.Gen.Wave.branches 3 n pos).Nodup := by
  rw [C04_wave_source.1]
  exact ⟨mem_choose2 n pos, mem_choose3 n pos, (nodup_choose n pos).1, (nodup_choose n pos).2⟩

/-- the text-checked parts of the source: phase expression q·r, `exp(-1j·θ)`, `round(6)`, group-by on the q column,
and the wave-vector set-up of `__init__` (q = n · 2π/L per axis, |q| by `np.linalg.norm`, numofq = int(qrange·2/min 2π/L)) -/
theorem C04_source_shape :
    (∀ m ∈ Pms.Gen.Sq.methods, m.roundDigits = 6 ∧ m.shape =
      ["(self.qvector * snapshot.positions[i][np.newaxis, :]).sum(axis=1)", "np.exp(-1j * thetas)",
       "sqresults.groupby(sqresults['q']).mean().reset_index()"]) ∧
    Pms.Gen.Sq.initSrc =
      ["ndim = snapshots.snapshots[0].positions.shape[1]",
       "twopidl = 2 * np.pi / self.snapshots.snapshots[0].boxlength",
       "if qvector is not None:\n    self.qvector = qvector\nelse:\n    numofq = int(qrange * 2.0 / twopidl.min())\n    self.qvector = choosewavevector(ndim, numofq, onlypositive)",
       "self.df_qvector = pd.DataFrame(self.qvector, columns=[f'q{i}' for i in range(ndim)])",
       "self.qvector = self.qvector.astype(np.float64) * twopidl[np.newaxis, :]",
       "self.qvalue = np.linalg.norm(self.qvector, axis=1)"] ∧
    Pms.Gen.Sq.initAttrs =
      ["self.nsnapshots = snapshots.nsnapshots", "self.nparticle = snapshots.snapshots[0].nparticle",
       "self.typenumber, self.typecount = np.unique(self.snapshots.snapshots[0].particle_type, return_counts=True)"] := by
  decide +kernel

end Pms.Sq
