import Pms.Gen.ModShape

/-! # C15 — pinned source text (property theorems only; statements written by tools/mkmodprops.py from the tree the
checks were validated on, hand-owned afterwards).  `Pms.Gen.ModShape` is REGENERATED from /repo on every run; these
theorems say that the module top levels (imports, module-level state, decorators, signatures and defaults) of the files
C15 is anchored in — and, where listed, the statements of the anchored routines — are still the text the model was
written against and the correspondence was run on.  An edit there breaks this obligation; the check then searches for
a failing input and reports `no-failing-input-found` when there is none (a harmless edit). -/
namespace Pms.ModShape
open Pms.Gen.ModShape

/-- module top levels of PyMatterSim/static/sq.py, PyMatterSim/static/vector.py -/
theorem C15_module_shape :
    shape_static_sq =
  ["from math import sqrt",
   "from typing import Callable, Optional, Tuple",
   "import numpy as np",
   "import numpy.typing as npt",
   "import pandas as pd",
   "from ..reader.reader_utils import SingleSnapshot, Snapshots",
   "from ..utils.logging import get_logger_handle",
   "from ..utils.wavevector import choosewavevector",
   "logger = get_logger_handle(__name__)",
   "def conditional_sq(snapshot: SingleSnapshot, qvector: npt.NDArray, condition: npt.NDArray) -> Tuple[pd.DataFrame, pd.DataFrame]",
   "class sq()",
   "  def __init__(self, snapshots: Snapshots, qrange: float=10.0, onlypositive: bool=False, qvector: npt.NDArray=None, saveqvectors: bool=False, outputfile: str=None) -> None",
   "  def getresults(self) -> Optional[Callable]",
   "  def unary(self) -> pd.DataFrame",
   "  def binary(self) -> pd.DataFrame",
   "  def ternary(self) -> pd.DataFrame",
   "  def quarternary(self) -> pd.DataFrame",
   "  def quinary(self) -> pd.DataFrame"] ∧
    shape_static_vector =
  ["from typing import Optional, Tuple",
   "import numpy as np",
   "import numpy.typing as npt",
   "import pandas as pd",
   "from ..dynamic.time_corr import time_correlation",
   "from ..neighbors.read_neighbors import read_neighbors",
   "from ..reader.reader_utils import SingleSnapshot, Snapshots",
   "from ..static.sq import conditional_sq",
   "from ..utils.logging import get_logger_handle",
   "from ..utils.pbc import remove_pbc",
   "logger = get_logger_handle(__name__)",
   "def participation_ratio(vector: npt.NDArray) -> float",
   "def local_vector_alignment(vector: npt.NDArray, neighborfile: str) -> npt.NDArray",
   "def phase_quotient(vector: npt.NDArray, neighborfile: str) -> float",
   "def divergence_curl(snapshot: SingleSnapshot, vector: npt.NDArray, ppp: npt.NDArray, neighborfile: str) -> Tuple[npt.NDArray, Optional[npt.NDArray]]",
   "def kspace_decomposition()",
   "def vibrability(eigenfrequencies: npt.NDArray, eigenvectors: npt.NDArray, num_of_partices: int, outputfile: str='') -> npt.NDArray",
   "def vector_decomposition_sq(snapshot: SingleSnapshot, qvector: npt.NDArray, vector: npt.NDArray, outputfile: str='') -> Tuple[pd.DataFrame, pd.DataFrame]",
   "def vector_fft_corr(snapshots: Snapshots, qvector: npt.NDArray, vectors: npt.NDArray, dt: float=0.002, outputfile: str='') -> dict[str, pd.DataFrame]"] :=
  ⟨rfl, rfl⟩

/-- statements of participation_ratio, local_vector_alignment, phase_quotient, divergence_curl, vibrability, vector_decomposition_sq, vector_fft_corr -/
theorem C15_body_shape :
    body_static_vector__participation_ratio =
  ["num_of_particles = vector.shape[0]",
   "value_PR = 1.0 / (np.sum(np.square((vector * vector).sum(axis=1))) * num_of_particles)",
   "value_PR *= np.square((vector * vector).sum())",
   "return value_PR"] ∧
    body_static_vector__local_vector_alignment =
  ["num_of_particles = vector.shape[0]",
   "with open(neighborfile, 'r', encoding='utf-8') as f:\n    cnlist = read_neighbors(f, num_of_particles)",
   "results = np.zeros(num_of_particles)",
   "for i in range(num_of_particles):\n    medium = (vector[i] * vector[cnlist[i, 1:1 + cnlist[i, 0]]]).sum(axis=1)\n    results[i] = medium.mean()",
   "return results"] ∧
    body_static_vector__phase_quotient =
  ["num_of_particles = vector.shape[0]",
   "with open(neighborfile, 'r', encoding='utf-8') as f:\n    cnlist = read_neighbors(f, num_of_particles)",
   "sum_0, sum_1 = (0, 0)",
   "for i in range(num_of_particles):\n    medium = (vector[i] * vector[cnlist[i, 1:1 + cnlist[i, 0]]]).sum(axis=1)\n    sum_0 += medium.sum()\n    sum_1 += np.abs(medium).sum()",
   "return sum_0 / sum_1"] ∧
    body_static_vector__divergence_curl =
  ["num_of_particles, ndim = vector.shape",
   "with open(neighborfile, 'r', encoding='utf-8') as f:\n    cnlist = read_neighbors(f, num_of_particles)",
   "divergence = np.zeros(num_of_particles)",
   "if ndim == 3:\n    curl = np.zeros((num_of_particles, ndim))",
   "for i in range(num_of_particles):\n    i_cnlist = cnlist[i, 1:cnlist[i, 0] + 1]\n    RIJ = snapshot.positions[i_cnlist] - snapshot.positions[i]\n    RIJ = remove_pbc(RIJ, snapshot.hmatrix, ppp)\n    UIJ = vector[i_cnlist] - vector[i]\n    divergence[i] = (RIJ * UIJ).sum(axis=1).mean()\n    if ndim == 3:\n        for j in range(cnlist[i, 0]):\n            curl[i] += np.cross(RIJ[j], UIJ[j])\n        curl[i] /= cnlist[i, 0]",
   "if ndim == 2:\n    return divergence",
   "return (divergence, curl)"] ∧
    body_static_vector__vibrability =
  ["results = np.zeros(num_of_partices)",
   "eigenvalues = np.square(eigenfrequencies)",
   "for i in range(eigenvectors.shape[1]):\n    medium = eigenvectors[:, i].reshape(num_of_partices, -1)\n    results += np.square(medium).sum(axis=1) / eigenvalues[i]",
   "if outputfile:\n    np.save(outputfile, results)",
   "return results"] ∧
    body_static_vector__vector_decomposition_sq =
  ["ndim = qvector.shape[1]",
   "vector_fft = conditional_sq(snapshot, qvector, vector)[0]",
   "unitq = vector_fft[[f'q{i}' for i in range(ndim)]].values",
   "unitq = unitq / vector_fft['q'].values[:, np.newaxis]",
   "fft_columns = vector_fft[[f'FFT{i}' for i in range(ndim)]].values",
   "vector_L = np.zeros_like(fft_columns)",
   "for n in range(qvector.shape[0]):\n    medium = np.dot(unitq[n], fft_columns[n])\n    vector_L[n] = unitq[n] * medium",
   "vector_T = fft_columns - vector_L",
   "medium = pd.DataFrame(vector_T, columns=[f'T_FFT{i}' for i in range(ndim)])",
   "vector_fft = vector_fft.join(medium)",
   "vector_fft['Sq_T'] = (vector_T * np.conj(vector_T)).sum(axis=1).real",
   "medium = pd.DataFrame(vector_L, columns=[f'L_FFT{i}' for i in range(ndim)])",
   "vector_fft = vector_fft.join(medium)",
   "vector_fft['Sq_L'] = (vector_L * np.conj(vector_L)).sum(axis=1).real",
   "vector_fft = vector_fft.round(8)",
   "ave_sqresults = vector_fft[['Sq', 'Sq_T', 'Sq_L']].groupby(vector_fft['q']).mean().reset_index()",
   "if outputfile:\n    if not outputfile.endswith('.csv'):\n        outputfile += '.csv'\n    ave_sqresults.to_csv(outputfile, float_format='%.8f', index=False)",
   "return (vector_fft, ave_sqresults)"] ∧
    body_static_vector__vector_fft_corr =
  ["ndim = qvector.shape[1]",
   "spectra = 0",
   "vectors_fft = []",
   "for n, snapshot in enumerate(snapshots.snapshots):\n    vector_fft, ave_sqresults = vector_decomposition_sq(snapshot=snapshot, qvector=qvector, vector=vectors[n])\n    spectra += ave_sqresults\n    vectors_fft.append(vector_fft)",
   "spectra /= snapshots.nsnapshots",
   "spectra.to_csv(outputfile + '.spectra.csv', float_format='%.8f', index=False)",
   "alldata = {}",
   "for header in ['FFT', 'T_FFT', 'L_FFT']:\n    logger.info(f'Calculate autocorrelation for {header} vector')\n    cal_data = pd.DataFrame(0, columns=np.arange(qvector.shape[0]), index=np.arange(snapshots.nsnapshots))\n    column_name = [f'{header}{i}' for i in range(ndim)]\n    for n in range(qvector.shape[0]):\n        condition = [item[column_name].values[n] for item in vectors_fft]\n        medium = time_correlation(snapshots=snapshots, condition=np.array(condition), dt=dt)\n        cal_data[n] = medium['time_corr'].values\n    cal_data.index = medium['t'].values\n    final_data = pd.concat([vectors_fft[0][[f'q{i}' for i in range(ndim)] + ['q']], cal_data.T], axis=1).round(8)\n    np.save(outputfile + '.' + header + '.npy', final_data.values)\n    alldata[header] = final_data",
   "return alldata"] :=
  ⟨rfl, rfl, rfl, rfl, rfl, rfl, rfl⟩

end Pms.ModShape
