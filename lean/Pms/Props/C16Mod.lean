import Pms.Gen.ModShape

/-! # C16 — pinned source text (property theorems only; statements written by tools/mkmodprops.py from the tree the
checks were validated on, hand-owned afterwards).  `Pms.Gen.ModShape` is REGENERATED from /repo on every run; these
theorems say that the module top levels (imports, module-level state, decorators, signatures and defaults) of the files
C16 is anchored in — and, where listed, the statements of the anchored routines — are still the text the model was
written against and the correspondence was run on.  An edit there breaks this obligation; the check then searches for
a failing input and reports `no-failing-input-found` when there is none (a harmless edit). -/
namespace Pms.ModShape
open Pms.Gen.ModShape

/-- module top levels of PyMatterSim/utils/coarse_graining.py, PyMatterSim/utils/funcs.py -/
theorem C16_module_shape :
    shape_utils_coarse_graining =
  ["from typing import Tuple",
   "import numpy as np",
   "import numpy.typing as npt",
   "from ..neighbors.read_neighbors import read_neighbors",
   "from ..reader.reader_utils import Snapshots",
   "from ..utils.funcs import grid_gaussian",
   "from ..utils.logging import get_logger_handle",
   "from ..utils.pbc import remove_pbc",
   "logger = get_logger_handle(__name__)",
   "def time_average(snapshots: Snapshots, input_property: npt.NDArray, time_period: float=0.0, dt: float=0.002) -> Tuple[npt.NDArray, npt.NDArray]",
   "def spatial_average(input_property: npt.NDArray, neighborfile: str, Nmax: int=30, outputfile: str='') -> npt.NDArray",
   "def gaussian_blurring(snapshots: Snapshots, condition: npt.NDArray, ngrids: npt.NDArray, sigma: float=2.0, ppp: npt.NDArray=np.array([1, 1, 1]), gaussian_cut: float=6.0, outputfile: str='')",
   "def atomic_position_average()"] ∧
    shape_utils_funcs =
  ["import numpy as np",
   "import numpy.typing as npt",
   "from sympy.physics.wigner import wigner_3j",
   "from ..utils.logging import get_logger_handle",
   "logger = get_logger_handle(__name__)",
   "def kronecker(i: int, j: int) -> int",
   "def nidealfac(ndim: int=3) -> float",
   "def areafac(ndim: int=3) -> float",
   "def alpha2factor(ndim: int=3) -> float",
   "def moment_of_inertia(positions: npt.NDArray, m: int=1, matrix: bool=False) -> npt.NDArray",
   "def Wignerindex(l: int) -> npt.NDArray",
   "def grid_gaussian(distances: npt.NDArray, sigma: float=1) -> npt.NDArray",
   "def Legendre_polynomials(x, ndim)"] :=
  ⟨rfl, rfl⟩

end Pms.ModShape
