import Pms.Lemmas.Gram
import Pms.Lemmas.AdditionCheck
import Pms.Props.C07Rot

/-!
# C07 — rotation invariance of q_l, proved in full for l ≤ 12 (property theorems only)

`C07_rot_ql_partial` proves the invariance from the addition theorem as a HYPOTHESIS for an abstract family `Y`.
Here the hypothesis is discharged for the model's own spherical harmonics (`Boo.bondY`, the unit-vector form of the
C08 table — `C09_angles`) by `C09_addition_theorem` (degrees 0..12, a kernel-decided polynomial identity):
the local invariant q_l of every particle is unchanged when all its bonds are rotated by any orthogonal matrix, and also
when each bond is rescaled by its own positive factor (q_l depends on bond DIRECTIONS only).

`C07_rot_Ql` (coarse-grained Q_l) and `C07_rot_sij` (bond coherence) follow from the same source: both are functions of the Gram
matrix Γ(p,p') = Σ_m q_lm(p) conj q_lm(p'), which the addition theorem expresses through bond–bond cosines (`Lemmas/Gram.lean`).

Still not proved (kept in `C07_rot_ql_wl_FullStatement`): degrees l > 12 (delegated to scipy in the code) and ŵ_l, whose
invariance needs the SO(3)-invariance of the Wigner-3j contraction.
-/
open Finset
namespace Pms.Sym
open Pms.Boo Pms.Sph Pms.PolyN

/-- **Rotation, q_l (l ≤ 12).**  This is the q_l half of `C07_rot_ql_wl_FullStatement`, for every degree the library
evaluates with its own closed forms (and l = 11, 12). -/
theorem C07_rot_ql (l : ℕ) (hl : l ∈ List.range 13) (Rot : ℕ → ℕ → ℝ) (hR : IsOrtho 3 Rot)
    (cn : ℕ → ℕ) (u : ℕ → ℕ → ℕ → ℝ) (i : ℕ) (hnz : ∀ j < cn i, dot 3 (u i j) (u i j) ≠ 0) :
    let Yv : (ℕ → ℕ → ℕ → ℝ) → ℕ → ℕ → ℕ → ℂ := fun b i j k =>
      Boo.bondY Boo.cOps l (b i j 0) (b i j 1) (b i j 2) ((k : ℤ) - (l : ℤ))
    Boo.ql Boo.cOps l (Boo.qlmImpl cn (Yv fun i j => matVec 3 Rot (u i j)) i)
      = Boo.ql Boo.cOps l (Boo.qlmImpl cn (Yv u) i) := by
  intro Yv
  have hpos : ∀ j < cn i, 0 < dot 3 (u i j) (u i j) := by
    intro j hj
    have h0 : 0 ≤ dot 3 (u i j) (u i j) := by
      rw [dot3]; nlinarith [mul_self_nonneg (u i j 0), mul_self_nonneg (u i j 1), mul_self_nonneg (u i j 2)]
    exact lt_of_le_of_ne h0 (Ne.symm (hnz j hj))
  have hpos' : ∀ j < cn i, 0 < dot 3 (matVec 3 Rot (u i j)) (matVec 3 Rot (u i j)) := by
    intro j hj; rw [dot_matVec 3 Rot hR]; exact hpos j hj
  have e1 : Yv (fun i j => matVec 3 Rot (u i j)) = Boo.Yv l (fun i j => matVec 3 Rot (u i j)) := rfl
  have e2 : Yv u = Boo.Yv l u := rfl
  unfold Boo.ql
  rw [e1, e2, qlSq_cosines l (additionOK_le12 l hl) cn (fun i j => matVec 3 Rot (u i j)) i hpos', qlSq_cosines l (additionOK_le12 l hl) cn u i hpos]
  simp only [cosG_rot Rot hR]

/-- **Bond rescaling, q_l (l ≤ 12).**  q_l depends on the bond directions only: multiplying every bond by its own
positive factor (a dilation of the cluster is the special case of equal factors) changes nothing. -/
theorem C07_scale_ql (l : ℕ) (hl : l ∈ List.range 13) (s : ℕ → ℕ → ℝ) (hs : ∀ i j, 0 < s i j)
    (cn : ℕ → ℕ) (u : ℕ → ℕ → ℕ → ℝ) (i : ℕ) (hnz : ∀ j < cn i, 0 < dot 3 (u i j) (u i j)) :
    Boo.ql Boo.cOps l (Boo.qlmImpl cn (Boo.Yv l fun i j k => s i j * u i j k) i)
      = Boo.ql Boo.cOps l (Boo.qlmImpl cn (Boo.Yv l u) i) := by
  have hd : ∀ j j', dot 3 (fun k => s i j * u i j k) (fun k => s i j' * u i j' k) = s i j * s i j' * dot 3 (u i j) (u i j') := by
    intro j j'; simp only [dot3]; ring
  have hpos' : ∀ j < cn i, 0 < dot 3 (fun k => s i j * u i j k) (fun k => s i j * u i j k) := by
    intro j hj; rw [hd]; exact mul_pos (mul_pos (hs i j) (hs i j)) (hnz j hj)
  unfold Boo.ql
  rw [qlSq_cosines l (additionOK_le12 l hl) cn (fun i j k => s i j * u i j k) i hpos', qlSq_cosines l (additionOK_le12 l hl) cn u i hnz]
  congr 2
  refine Finset.sum_congr rfl fun j hj => Finset.sum_congr rfl fun j' hj' => ?_
  congr 1
  unfold cosG
  rw [hd, hd, hd]
  have h1 := hs i j
  have h2 := hs i j'
  have e1 : Real.sqrt (s i j * s i j * dot 3 (u i j) (u i j)) = s i j * Real.sqrt (dot 3 (u i j) (u i j)) := by
    rw [show s i j * s i j * dot 3 (u i j) (u i j) = (s i j) ^ 2 * dot 3 (u i j) (u i j) by ring,
      Real.sqrt_mul (sq_nonneg _), Real.sqrt_sq h1.le]
  have e2 : Real.sqrt (s i j' * s i j' * dot 3 (u i j') (u i j')) = s i j' * Real.sqrt (dot 3 (u i j') (u i j')) := by
    rw [show s i j' * s i j' * dot 3 (u i j') (u i j') = (s i j') ^ 2 * dot 3 (u i j') (u i j') by ring,
      Real.sqrt_mul (sq_nonneg _), Real.sqrt_sq h2.le]
  rw [e1, e2]
  have hq1 : 0 < Real.sqrt (dot 3 (u i j) (u i j)) := Real.sqrt_pos.2 (hnz j (Finset.mem_range.1 hj))
  have hq2 : 0 < Real.sqrt (dot 3 (u i j') (u i j')) := Real.sqrt_pos.2 (hnz j' (Finset.mem_range.1 hj'))
  field_simp

/-- **Rotation, coarse-grained Q_l (l ≤ 12).**  Rotating ALL bonds of the configuration by one orthogonal matrix leaves
the coarse-grained invariant `Q_l` of every particle unchanged: Σ_m |Q_lm(i)|² is the mean over the members {i} ∪ nb(i) of
the Gram matrix Γ(p,p') = Σ_m q_lm(p) conj q_lm(p'), and Γ depends on the bond–bond cosines only (addition theorem). -/
theorem C07_rot_Ql (l : ℕ) (hl : l ∈ List.range 13) (Rot : ℕ → ℕ → ℝ) (hR : IsOrtho 3 Rot)
    (cn : ℕ → ℕ) (nb : ℕ → ℕ → ℕ) (u : ℕ → ℕ → ℕ → ℝ) (i : ℕ) (hnz : ∀ p, ∀ j < cn p, 0 < dot 3 (u p j) (u p j)) :
    Boo.ql Boo.cOps l (Boo.QlmImpl cn nb (Boo.qlmImpl cn (Boo.Yv l fun i j => matVec 3 Rot (u i j))) i)
      = Boo.ql Boo.cOps l (Boo.QlmImpl cn nb (Boo.qlmImpl cn (Boo.Yv l u)) i) := by
  unfold Boo.ql Boo.qlSq
  congr 2
  apply Complex.ofReal_injective
  rw [sumSq_Qlm_gram, sumSq_Qlm_gram]
  congr 1
  refine Finset.sum_congr rfl fun a _ => Finset.sum_congr rfl fun b _ => ?_
  exact gram_rot l (additionOK_le12 l hl) Rot hR cn u _ _ (hnz _) (hnz _)

/-- **Rotation, bond coherence s_ij (l ≤ 12).**  `s_ij = Re Γ(i,j) / √(Γ(i,i) Γ(j,j))` is unchanged, hence so is the
thresholded count of "solid-like" bonds. -/
theorem C07_rot_sij (l : ℕ) (hl : l ∈ List.range 13) (Rot : ℕ → ℕ → ℝ) (hR : IsOrtho 3 Rot)
    (cn : ℕ → ℕ) (u : ℕ → ℕ → ℕ → ℝ) (i j : ℕ) (hnz : ∀ p, ∀ a < cn p, 0 < dot 3 (u p a) (u p a)) :
    Boo.sij Boo.cOps (2 * l + 1) (Boo.qlmImpl cn (Boo.Yv l fun i j => matVec 3 Rot (u i j)) i)
        (Boo.qlmImpl cn (Boo.Yv l fun i j => matVec 3 Rot (u i j)) j)
      = Boo.sij Boo.cOps (2 * l + 1) (Boo.qlmImpl cn (Boo.Yv l u) i) (Boo.qlmImpl cn (Boo.Yv l u) j) := by
  have hg := fun p p' => gram_rot l (additionOK_le12 l hl) Rot hR cn u p p' (hnz p) (hnz p')
  have hs : ∀ p, Boo.sumSq Boo.cOps (2 * l + 1) (Boo.qlmImpl cn (Boo.Yv l fun i j => matVec 3 Rot (u i j)) p)
      = Boo.sumSq Boo.cOps (2 * l + 1) (Boo.qlmImpl cn (Boo.Yv l u) p) := by
    intro p
    apply Complex.ofReal_injective
    rw [sumSq_eq_gram (2 * l + 1) (fun p => Boo.qlmImpl cn (Boo.Yv l fun i j => matVec 3 Rot (u i j)) p) p,
        sumSq_eq_gram (2 * l + 1) (fun p => Boo.qlmImpl cn (Boo.Yv l u) p) p]
    exact hg p p
  unfold Boo.sij Boo.vnorm
  rw [hs i, hs j]
  congr 1
  unfold Boo.sijUp
  rw [sumRange_eq, sumRange_eq]
  exact congrArg Complex.re (hg i j)

/-- the hypotheses are satisfiable: the three bonds e_x, e_y, e_z, rotated by a quarter turn about z -/
example : IsOrtho 3 (fun a b : ℕ => if (a = 0 ∧ b = 1) then (-1 : ℝ) else if (a = 1 ∧ b = 0) ∨ (a = 2 ∧ b = 2) then 1 else 0)
    ∧ ∀ j < 3, dot 3 ((fun (_ j k : ℕ) => if j = k then (1 : ℝ) else 0) 0 j) ((fun (_ j k : ℕ) => if j = k then (1 : ℝ) else 0) 0 j) ≠ 0 := by
  refine ⟨?_, ?_⟩
  · intro a ha b hb
    interval_cases a <;> interval_cases b <;> simp [Finset.sum_range_succ]
  · intro j hj
    interval_cases j <;> simp [dot, sumRange]

end Pms.Sym
