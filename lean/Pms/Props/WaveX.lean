import Pms.Gen.WaveX
import Pms.Lemmas.WaveX
import Mathlib.Tactic.Linarith

/-!
# Beyond the 20 listed properties — `wavevector3d`, `wavevector2d`, `continuousvector` (`utils/wavevector.py`)

(`choosewavevector`, the fourth routine of the file, is C04's.)  The loop nests, the appended row, the cut of the ravelled
array, the reshape width and the sort column are REGENERATED from the source on every run (`Pms.Gen.WaveX`); the theorems say what
the routines return for EVERY `numofq`.  Tie: regeneration + the real routines against the driver's model for a range of `numofq`
(`./check EXTRA`).  Not part of MANIFEST.json (no listed property is about these routines).
-/
namespace Pms.WaveX
open Pms.Wave

def T3 : SqTable :=
  { name := "wavevector3d", nvars := 3, squares := [0, 1, 2], row := [none, some 0, some 1, some 2], drop := 4, width := 4, sortCol := 0 }
def T2 : SqTable :=
  { name := "wavevector2d", nvars := 2, squares := [0, 1], row := [none, some 0, some 1], drop := 3, width := 3, sortCol := 0 }
def C2 : CBranch := { ndim := 2, loops := [(Bnd.neg, Bnd.pos), (Bnd.neg, Bnd.pos)], row := [0, 1] }
def C3 : CBranch := { ndim := 3, loops := [(Bnd.neg, Bnd.pos), (Bnd.neg, Bnd.pos), (Bnd.neg, Bnd.pos)], row := [0, 1, 2] }

/-- the regenerated data are the documented loop nests, and every other statement of `continuousvector` is as modelled -/
theorem E_wavex_source :
    Pms.Gen.WaveX.tables = [T3, T2] ∧ Pms.Gen.WaveX.contBranches = [C2, C3] ∧ Pms.Gen.WaveX.contFrame =
      ["qvectors = np.zeros((numofq ** ndim, ndim), dtype=np.int32)", "nhalf = int(numofq / 2)",
       "condition = (qvectors == 0).all(axis=1)", "qvectors = qvectors[~condition]",
       "if onlypositive:\n    condition = (qvectors >= 0).all(axis=1)\n    qvectors = qvectors[condition]",
       "return qvectors"] := by
  decide +kernel

/-- what makes the cut `np.ravel(…)[drop:]` remove exactly the first appended row -/
def SqTable.WF (T : SqTable) : Prop :=
  T.row.length = T.width ∧ T.drop = T.width ∧ 0 < T.width ∧ 0 < T.nvars

theorem T3_wf : T3.WF := ⟨rfl, rfl, by decide, by decide⟩
theorem T2_wf : T2.WF := ⟨rfl, rfl, by decide, by decide⟩

/-- **`wavevector3d` / `wavevector2d` (any table that cuts exactly one row), every `numofq`.**  The routine never raises, and what it
returns is the Spec: the tuples of `range(numofq)^k` whose squared norm is one of `0², …, (numofq−1)²`, the ZERO TUPLE EXCLUDED, as
rows, sorted by the key column.  (The code appends the zero tuple first and cuts the first `drop` numbers off the ravelled array:
that removes the zero vector and nothing else because the nest starts at it, it always passes the test when `numofq ≥ 1`, and it
occurs once.) -/
theorem E_wv_refines (T : SqTable) (hwf : T.WF) (n : ℕ) : T.run n = some (T.spec n) := by
  obtain ⟨hrow, hdrop, hw, hk⟩ := hwf
  unfold SqTable.run SqTable.spec SqTable.appended
  rcases Nat.eq_zero_or_pos n with rfl | hn
  · rw [nest_zero _ hk]; simp [chunks]
  · obtain ⟨rest, hnest, hrest⟩ := nest_head n T.nvars hn
    have hz : isZero (List.replicate T.nvars (0 : ℤ)) = true := by simp [isZero]
    have hp : inSquares n (sumSq T.squares (List.replicate T.nvars 0)) = true := by
      rw [sumSq_zeros, inSquares_iff]; exact ⟨0, hn, by simp⟩
    rw [hnest, List.filter_cons_of_pos (by simpa using hp), List.filter_cons_of_neg (by simp [hp, hz]),
      ← filter_and_notZero _ _ hrest]
    set R := (rest.filter fun t => inSquares n (sumSq T.squares t)).map T.rowOf with hR
    have hRl : ∀ r ∈ R, r.length = T.width := by
      intro r hr
      obtain ⟨t, _, rfl⟩ := List.mem_map.1 hr
      rw [length_rowOf, hrow]
    have hflat : ((T.rowOf (List.replicate T.nvars 0) :: R).flatten).drop T.drop = R.flatten := by
      rw [List.flatten_cons, hdrop, ← hrow, ← length_rowOf T (List.replicate T.nvars 0)]
      simp
    simp only [List.map_cons]
    rw [hflat, chunks_flatten T.width hw R hRl _ (length_flatten_ge R T.width hw hRl)]
    rfl

/-- the regenerated routines return their Spec for every `numofq` -/
theorem E_wavevector_refines (n : ℕ) : ∀ T ∈ Pms.Gen.WaveX.tables, T.run n = some (T.spec n) := by
  rw [E_wavex_source.1]
  intro T hT
  simp only [List.mem_cons, List.not_mem_nil, or_false] at hT
  rcases hT with rfl | rfl
  · exact E_wv_refines _ T3_wf n
  · exact E_wv_refines _ T2_wf n

/-- **`wavevector3d`, membership.**  `[d, a, b, c]` is returned iff 0 ≤ a, b, c < numofq, not all zero, d = a² + b² + c² and
d = k² for some k < numofq; nothing else is returned. -/
theorem E_wavevector3d_mem (n : ℕ) (r : List ℤ) :
    r ∈ T3.spec n ↔ ∃ a b c : ℤ, (0 ≤ a ∧ a < n) ∧ (0 ≤ b ∧ b < n) ∧ (0 ≤ c ∧ c < n) ∧ ¬ (a = 0 ∧ b = 0 ∧ c = 0) ∧
      (∃ k : ℕ, k < n ∧ (k : ℤ) * k = a * a + b * b + c * c) ∧ r = [a * a + b * b + c * c, a, b, c] := by
  unfold SqTable.spec
  simp only [List.mem_mergeSort, List.mem_map, List.mem_filter, nest, mem_tuples, Bool.and_eq_true, inSquares_iff,
    Bool.not_eq_true', T3, List.replicate]
  constructor
  · rintro ⟨t, ⟨ht, ⟨k, hk, hkk⟩, hnz⟩, rfl⟩
    simp only [List.forall₂_cons_left_iff, List.forall₂_nil_left_iff, Bnd.val] at ht
    obtain ⟨a, t1, ha, ⟨b, t2, hb, ⟨c, t3, hc, rfl, rfl⟩, rfl⟩, rfl⟩ := ht
    simp only [sumSq, List.foldl, List.getD_cons_zero, List.getD_cons_succ] at hkk
    refine ⟨a, b, c, ha, hb, hc, ?_, ⟨k, hk, by linarith⟩, ?_⟩
    · rintro ⟨rfl, rfl, rfl⟩; simp [isZero] at hnz
    · simp [SqTable.rowOf, sumSq]
  · rintro ⟨a, b, c, ha, hb, hc, hnz, ⟨k, hk, hkk⟩, rfl⟩
    refine ⟨[a, b, c], ⟨?_, ⟨k, hk, ?_⟩, ?_⟩, by simp [SqTable.rowOf, sumSq]⟩
    · simp only [List.forall₂_cons_left_iff, List.forall₂_nil_left_iff, Bnd.val]
      exact ⟨a, [b, c], ha, ⟨b, [c], hb, ⟨c, [], hc, rfl, rfl⟩, rfl⟩, rfl⟩
    · simp only [sumSq, List.foldl, List.getD_cons_zero, List.getD_cons_succ]; linarith
    · simp only [isZero, List.all_cons, List.all_nil, Bool.and_true, Bool.and_eq_false_imp, beq_iff_eq]
      by_contra hcon
      apply hnz
      simp only [Classical.not_imp, Bool.not_eq_false, beq_iff_eq] at hcon
      tauto

/-- **`wavevector2d`, membership.** -/
theorem E_wavevector2d_mem (n : ℕ) (r : List ℤ) :
    r ∈ T2.spec n ↔ ∃ a b : ℤ, (0 ≤ a ∧ a < n) ∧ (0 ≤ b ∧ b < n) ∧ ¬ (a = 0 ∧ b = 0) ∧
      (∃ k : ℕ, k < n ∧ (k : ℤ) * k = a * a + b * b) ∧ r = [a * a + b * b, a, b] := by
  unfold SqTable.spec
  simp only [List.mem_mergeSort, List.mem_map, List.mem_filter, nest, mem_tuples, Bool.and_eq_true, inSquares_iff,
    Bool.not_eq_true', T2, List.replicate]
  constructor
  · rintro ⟨t, ⟨ht, ⟨k, hk, hkk⟩, hnz⟩, rfl⟩
    simp only [List.forall₂_cons_left_iff, List.forall₂_nil_left_iff, Bnd.val] at ht
    obtain ⟨a, t1, ha, ⟨b, t2, hb, rfl, rfl⟩, rfl⟩ := ht
    simp only [sumSq, List.foldl, List.getD_cons_zero, List.getD_cons_succ] at hkk
    refine ⟨a, b, ha, hb, ?_, ⟨k, hk, by linarith⟩, ?_⟩
    · rintro ⟨rfl, rfl⟩; simp [isZero] at hnz
    · simp [SqTable.rowOf, sumSq]
  · rintro ⟨a, b, ha, hb, hnz, ⟨k, hk, hkk⟩, rfl⟩
    refine ⟨[a, b], ⟨?_, ⟨k, hk, ?_⟩, ?_⟩, by simp [SqTable.rowOf, sumSq]⟩
    · simp only [List.forall₂_cons_left_iff, List.forall₂_nil_left_iff, Bnd.val]
      exact ⟨a, [b], ha, ⟨b, [], hb, rfl, rfl⟩, rfl⟩
    · simp only [sumSq, List.foldl, List.getD_cons_zero, List.getD_cons_succ]; linarith
    · simp only [isZero, List.all_cons, List.all_nil, Bool.and_true, Bool.and_eq_false_imp, beq_iff_eq]
      by_contra hcon
      apply hnz
      simp only [Classical.not_imp, Bool.not_eq_false, beq_iff_eq] at hcon
      tauto

/-- **sorted by the key column** (the statement about the returned array that does not depend on which sorting permutation numpy
picks), and the same rows as before the sort -/
theorem E_wv_sorted (T : SqTable) (n : ℕ) :
    (T.spec n).Pairwise (fun r s => r.getD T.sortCol 0 ≤ s.getD T.sortCol 0) ∧
    (T.spec n).Perm (((nest n T.nvars).filter fun t => inSquares n (sumSq T.squares t) && !isZero t).map T.rowOf) := by
  constructor
  · have := List.pairwise_mergeSort (le := keyLE T.sortCol)
      (fun a b c hab hbc => by simp only [keyLE, decide_eq_true_eq] at *; omega)
      (fun a b => by simp only [keyLE, Bool.or_eq_true, decide_eq_true_eq]; omega)
      (((nest n T.nvars).filter fun t => inSquares n (sumSq T.squares t) && !isZero t).map T.rowOf)
    exact this.imp (by intro a b h; simpa [keyLE] using h)
  · exact List.mergeSort_perm _ _

/-! ### continuousvector -/

/-- **`continuousvector`, every `ndim`, `numofq`, `onlypositive`.**  The over-allocated array never overflows
(`(2⌊numofq/2⌋)^d ≤ numofq^d`, so no IndexError), and removing the zero rows leaves exactly the written non-zero rows: the
routine returns its Spec.  For a dimension without a block (`ndim ∉ {2, 3}`) nothing is written and the result is empty. -/
theorem E_continuous_refines (d n : ℕ) (pos : Bool) :
    contImpl Pms.Gen.WaveX.contBranches d n pos = some (contSpec Pms.Gen.WaveX.contBranches d n pos) := by
  rw [E_wavex_source.2.1]
  have hlen : (written [C2, C3] d ((n / 2 : ℕ) : ℤ)).length ≤ n ^ d := by
    unfold written
    by_cases h2 : d = 2
    · subst h2
      have : ([C2, C3].find? fun b => b.ndim == 2) = some C2 := by decide
      rw [this]
      simp only [List.length_map, C2]
      have := length_tuples_sym (n / 2) 2
      simp only [List.replicate] at this
      rw [this]
      exact Nat.pow_le_pow_left (by omega) 2
    · by_cases h3 : d = 3
      · subst h3
        have : ([C2, C3].find? fun b => b.ndim == 3) = some C3 := by decide
        rw [this]
        simp only [List.length_map, C3]
        have := length_tuples_sym (n / 2) 3
        simp only [List.replicate] at this
        rw [this]
        exact Nat.pow_le_pow_left (by omega) 3
      · have : ([C2, C3].find? fun b => b.ndim == d) = none := by
          rw [List.find?_eq_none]
          intro b hb
          simp only [List.mem_cons, List.not_mem_nil, or_false] at hb
          rcases hb with rfl | rfl <;> simp [C2, C3] <;> omega
        rw [this]; simp
  unfold contImpl contSpec
  simp only [Nat.not_lt.2 hlen, if_false, List.filter_append, filter_replicate_zeros, List.append_nil]

/-- **`continuousvector(3, numofq, onlypositive)`, membership**: exactly the non-zero integer vectors with every component in
`[−h, h)`, h = ⌊numofq/2⌋ (all components ≥ 0 when `onlypositive`), each once, in lexicographic order of the loops -/
theorem E_continuous3_mem (n : ℕ) (pos : Bool) (v : List ℤ) :
    v ∈ contSpec [C2, C3] 3 n pos ↔ ∃ x y z : ℤ, v = [x, y, z] ∧ (-((n / 2 : ℕ) : ℤ) ≤ x ∧ x < ((n / 2 : ℕ) : ℤ)) ∧
      (-((n / 2 : ℕ) : ℤ) ≤ y ∧ y < ((n / 2 : ℕ) : ℤ)) ∧ (-((n / 2 : ℕ) : ℤ) ≤ z ∧ z < ((n / 2 : ℕ) : ℤ)) ∧
      ¬ (x = 0 ∧ y = 0 ∧ z = 0) ∧ (pos = true → 0 ≤ x ∧ 0 ≤ y ∧ 0 ≤ z) := by
  have hf : ([C2, C3].find? fun b => b.ndim == 3) = some C3 := by decide
  have key : ∀ v, v ∈ (written [C2, C3] 3 ((n / 2 : ℕ) : ℤ)).filter (fun v => !isZero v) ↔
      ∃ x y z : ℤ, v = [x, y, z] ∧ (-((n / 2 : ℕ) : ℤ) ≤ x ∧ x < ((n / 2 : ℕ) : ℤ)) ∧
      (-((n / 2 : ℕ) : ℤ) ≤ y ∧ y < ((n / 2 : ℕ) : ℤ)) ∧ (-((n / 2 : ℕ) : ℤ) ≤ z ∧ z < ((n / 2 : ℕ) : ℤ)) ∧
      ¬ (x = 0 ∧ y = 0 ∧ z = 0) := by
    intro v
    unfold written
    rw [hf]
    simp only [List.mem_filter, List.mem_map, mem_tuples, C3]
    constructor
    · rintro ⟨⟨t, ht, rfl⟩, hnz⟩
      simp only [List.forall₂_cons_left_iff, List.forall₂_nil_left_iff, Bnd.val] at ht
      obtain ⟨x, t1, hx, ⟨y, t2, hy, ⟨z, t3, hz, rfl, rfl⟩, rfl⟩, rfl⟩ := ht
      refine ⟨x, y, z, by simp, hx, hy, hz, ?_⟩
      rintro ⟨rfl, rfl, rfl⟩; simp [isZero] at hnz
    · rintro ⟨x, y, z, rfl, hx, hy, hz, hnz⟩
      refine ⟨⟨[x, y, z], ?_, by simp⟩, ?_⟩
      · simp only [List.forall₂_cons_left_iff, List.forall₂_nil_left_iff, Bnd.val]
        exact ⟨x, [y, z], hx, ⟨y, [z], hy, ⟨z, [], hz, rfl, rfl⟩, rfl⟩, rfl⟩
      · simp only [isZero, List.all_cons, List.all_nil, Bool.and_true, Bool.not_eq_true', Bool.and_eq_false_imp, beq_iff_eq]
        by_contra hcon
        apply hnz
        simp only [Classical.not_imp, Bool.not_eq_false, beq_iff_eq] at hcon
        tauto
  unfold contSpec
  cases pos with
  | false =>
    simp only [Bool.false_eq_true, if_false, false_imp_iff, and_true]
    exact key v
  | true =>
    simp only [if_true, List.mem_filter, key, true_imp_iff]
    constructor
    · rintro ⟨⟨x, y, z, rfl, hx, hy, hz, hnz⟩, hall⟩
      simp only [List.all_cons, List.all_nil, Bool.and_true, Bool.and_eq_true, decide_eq_true_eq] at hall
      exact ⟨x, y, z, rfl, hx, hy, hz, hnz, hall.1, hall.2.1, hall.2.2⟩
    · rintro ⟨x, y, z, rfl, hx, hy, hz, hnz, h0, h1, h2⟩
      exact ⟨⟨x, y, z, rfl, hx, hy, hz, hnz⟩, by simp [h0, h1, h2]⟩

/-- **`continuousvector(2, …)`, membership** -/
theorem E_continuous2_mem (n : ℕ) (pos : Bool) (v : List ℤ) :
    v ∈ contSpec [C2, C3] 2 n pos ↔ ∃ x y : ℤ, v = [x, y] ∧ (-((n / 2 : ℕ) : ℤ) ≤ x ∧ x < ((n / 2 : ℕ) : ℤ)) ∧
      (-((n / 2 : ℕ) : ℤ) ≤ y ∧ y < ((n / 2 : ℕ) : ℤ)) ∧ ¬ (x = 0 ∧ y = 0) ∧ (pos = true → 0 ≤ x ∧ 0 ≤ y) := by
  have hf : ([C2, C3].find? fun b => b.ndim == 2) = some C2 := by decide
  have key : ∀ v, v ∈ (written [C2, C3] 2 ((n / 2 : ℕ) : ℤ)).filter (fun v => !isZero v) ↔
      ∃ x y : ℤ, v = [x, y] ∧ (-((n / 2 : ℕ) : ℤ) ≤ x ∧ x < ((n / 2 : ℕ) : ℤ)) ∧
      (-((n / 2 : ℕ) : ℤ) ≤ y ∧ y < ((n / 2 : ℕ) : ℤ)) ∧ ¬ (x = 0 ∧ y = 0) := by
    intro v
    unfold written
    rw [hf]
    simp only [List.mem_filter, List.mem_map, mem_tuples, C2]
    constructor
    · rintro ⟨⟨t, ht, rfl⟩, hnz⟩
      simp only [List.forall₂_cons_left_iff, List.forall₂_nil_left_iff, Bnd.val] at ht
      obtain ⟨x, t1, hx, ⟨y, t2, hy, rfl, rfl⟩, rfl⟩ := ht
      refine ⟨x, y, by simp, hx, hy, ?_⟩
      rintro ⟨rfl, rfl⟩; simp [isZero] at hnz
    · rintro ⟨x, y, rfl, hx, hy, hnz⟩
      refine ⟨⟨[x, y], ?_, by simp⟩, ?_⟩
      · simp only [List.forall₂_cons_left_iff, List.forall₂_nil_left_iff, Bnd.val]
        exact ⟨x, [y], hx, ⟨y, [], hy, rfl, rfl⟩, rfl⟩
      · simp only [isZero, List.all_cons, List.all_nil, Bool.and_true, Bool.not_eq_true', Bool.and_eq_false_imp, beq_iff_eq]
        by_contra hcon
        apply hnz
        simp only [Classical.not_imp, Bool.not_eq_false, beq_iff_eq] at hcon
        tauto
  unfold contSpec
  cases pos with
  | false =>
    simp only [Bool.false_eq_true, if_false, false_imp_iff, and_true]
    exact key v
  | true =>
    simp only [if_true, List.mem_filter, key, true_imp_iff]
    constructor
    · rintro ⟨⟨x, y, rfl, hx, hy, hnz⟩, hall⟩
      simp only [List.all_cons, List.all_nil, Bool.and_true, Bool.and_eq_true, decide_eq_true_eq] at hall
      exact ⟨x, y, rfl, hx, hy, hnz, hall.1, hall.2⟩
    · rintro ⟨x, y, rfl, hx, hy, hnz, h0, h1⟩
      exact ⟨⟨x, y, rfl, hx, hy, hnz⟩, by simp [h0, h1]⟩

/-- no vector is returned twice -/
theorem E_continuous_nodup (d n : ℕ) (pos : Bool) : (contSpec [C2, C3] d n pos).Nodup := by
  have hw : (written [C2, C3] d ((n / 2 : ℕ) : ℤ)).Nodup := by
    unfold written
    by_cases h2 : d = 2
    · subst h2
      have : ([C2, C3].find? fun b => b.ndim == 2) = some C2 := by decide
      rw [this]
      have hid : ∀ t ∈ tuples ((n / 2 : ℕ) : ℤ) C2.loops, (C2.row.map fun j => t.getD j 0) = id t := by
        intro t ht
        have ht := (mem_tuples _ _ _).1 ht
        simp only [C2, List.forall₂_cons_left_iff, List.forall₂_nil_left_iff] at ht
        obtain ⟨x, t1, _, ⟨y, t2, _, rfl, rfl⟩, rfl⟩ := ht
        simp [C2]
      show ((tuples ((n / 2 : ℕ) : ℤ) C2.loops).map fun t => C2.row.map fun j => t.getD j 0).Nodup
      rw [List.map_congr_left hid, List.map_id]
      exact nodup_tuples _ _
    · by_cases h3 : d = 3
      · subst h3
        have : ([C2, C3].find? fun b => b.ndim == 3) = some C3 := by decide
        rw [this]
        have hid : ∀ t ∈ tuples ((n / 2 : ℕ) : ℤ) C3.loops, (C3.row.map fun j => t.getD j 0) = id t := by
          intro t ht
          have ht := (mem_tuples _ _ _).1 ht
          simp only [C3, List.forall₂_cons_left_iff, List.forall₂_nil_left_iff] at ht
          obtain ⟨x, t1, _, ⟨y, t2, _, ⟨z, t3, _, rfl, rfl⟩, rfl⟩, rfl⟩ := ht
          simp [C3]
        show ((tuples ((n / 2 : ℕ) : ℤ) C3.loops).map fun t => C3.row.map fun j => t.getD j 0).Nodup
        rw [List.map_congr_left hid, List.map_id]
        exact nodup_tuples _ _
      · have : ([C2, C3].find? fun b => b.ndim == d) = none := by
          rw [List.find?_eq_none]
          intro b hb
          simp only [List.mem_cons, List.not_mem_nil, or_false] at hb
          rcases hb with rfl | rfl <;> simp [C2, C3] <;> omega
        rw [this]; simp
  unfold contSpec
  cases pos
  · exact hw.filter _
  · exact (hw.filter _).filter _

end Pms.WaveX
