import Pms.Props.C07
import Pms.Lemmas.SymRot
import Mathlib.Analysis.SpecialFunctions.Trigonometric.Basic

/-!
# C07 — symmetries of S(q)  (stated on C04's `Sq.Spec.S`, `Sq.Spec.Stot`)

`Sq.Spec.S sqrt T N ty c s a b k` is the frame-averaged `Re[ρ_a(q_k) conj ρ_b(q_k)] / √(N_a N_b)` with the phases
entering as `c f i k = cos(q_k·r_i)`, `s f i k = sin(q_k·r_i)` (frame f).  The algebraic theorems hold over any
ordered field `K` with the phases transformed by the addition formulas; the `_real` theorems instantiate them with
Mathlib's `Real.cos`, `Real.sin` and the phase `theta` of `Pms/Model/Sym.lean` (the wave vectors of sq.py:
`q = n · 2π/L`, n integer — box-commensurate).
-/
open Finset
namespace Pms.Sym
open Pms

section algebraic
variable {K : Type} [Field K] [LinearOrder K] [IsStrictOrderedRing K]

/-- **Translation, S(q) (Spec level).**  Advancing every phase of frame `f`, wave vector `k` by a common angle with
cosine `cφ f k` and sine `sφ f k` leaves every partial S_ab(q_k) and the total S(q_k) unchanged. -/
theorem C07_translation_sq_spec (sqrt : K → K) (T N : ℕ) (ty : ℕ → ℕ → ℕ) (c s : ℕ → ℕ → ℕ → K)
    (cφ sφ : ℕ → ℕ → K) (h : ∀ f k, cφ f k * cφ f k + sφ f k * sφ f k = 1) (a b k : ℕ) :
    Sq.Spec.S sqrt T N ty (fun f i k => c f i k * cφ f k - s f i k * sφ f k)
        (fun f i k => s f i k * cφ f k + c f i k * sφ f k) a b k = Sq.Spec.S sqrt T N ty c s a b k ∧
    Sq.Spec.Stot T N (fun f i k => c f i k * cφ f k - s f i k * sφ f k)
        (fun f i k => s f i k * cφ f k + c f i k * sφ f k) k = Sq.Spec.Stot T N c s k := by
  constructor
  · simp only [Sq.Spec.S, Sq.Spec.rho, sumRange_eq]
    congr 1
    refine Finset.sum_congr rfl fun f _ => ?_
    rw [C07_translation_sq N _ _ (fun i => c f i k) (fun i => s f i k) (cφ f k) (sφ f k) (h f k)]
  · simp only [Sq.Spec.Stot, Sq.Spec.rhoAll, sumRange_eq]
    congr 1
    refine Finset.sum_congr rfl fun f _ => ?_
    rw [C07_translation_sq N _ _ (fun i => c f i k) (fun i => s f i k) (cφ f k) (sφ f k) (h f k)]

/-- **Relabelling, S(q).**  Density modes are sums over particles, so a permutation σ of the particle ids (types and
phases permuted consistently) leaves every partial and the total S(q) unchanged. -/
theorem C07_relabel_sq (sqrt : K → K) (T N : ℕ) (σ : Equiv.Perm ℕ) (hσ : PermBelow N σ) (ty : ℕ → ℕ → ℕ)
    (c s : ℕ → ℕ → ℕ → K) (a b k : ℕ) :
    Sq.Spec.S sqrt T N (fun f => relabel σ (ty f)) (fun f => relabel σ (c f)) (fun f => relabel σ (s f)) a b k
      = Sq.Spec.S sqrt T N ty c s a b k ∧
    Sq.Spec.Stot T N (fun f => relabel σ (c f)) (fun f => relabel σ (s f)) k = Sq.Spec.Stot T N c s k := by
  have hct : ∀ x, Sq.countType N (relabel σ (ty 0)) x = Sq.countType N (ty 0) x := by
    intro x
    simp only [Sq.countType, sumRange_eq, relabel]
    exact sum_perm N σ hσ (fun i => if ty 0 i = x then 1 else 0)
  have hrho : ∀ f x, Sq.Spec.rho N (relabel σ (ty f)) (relabel σ (c f)) (relabel σ (s f)) x k
      = Sq.Spec.rho N (ty f) (c f) (s f) x k := by
    intro f x
    exact mode_relabel N σ hσ (Sq.ind (ty f) x) (fun i => c f i k) (fun i => s f i k)
  have hall : ∀ f, Sq.Spec.rhoAll N (relabel σ (c f)) (relabel σ (s f)) k = Sq.Spec.rhoAll N (c f) (s f) k := by
    intro f
    exact mode_relabel N σ hσ (fun _ => 1) (fun i => c f i k) (fun i => s f i k)
  constructor
  · simp only [Sq.Spec.S, hrho, hct]
  · simp only [Sq.Spec.Stot, hall]

/-- **Species swap, S(q).**  Exchanging the labels `a ↔ b` only renames the partial columns; the total never reads the
types. -/
theorem C07_species_swap_sq (sqrt : K → K) (T N : ℕ) (ty : ℕ → ℕ → ℕ) (c s : ℕ → ℕ → ℕ → K) (a b x y k : ℕ) :
    Sq.Spec.S sqrt T N (fun f => swapTypes a b (ty f)) c s (swapLabel a b x) (swapLabel a b y) k
      = Sq.Spec.S sqrt T N ty c s x y k := by
  have hind : ∀ f z, (Sq.ind (swapTypes a b (ty f)) (swapLabel a b z) : ℕ → K) = Sq.ind (ty f) z := by
    intro f z; funext i; simp only [Sq.ind, swapTypes, swapLabel_inj]
  have hct : ∀ z, Sq.countType N (swapTypes a b (ty 0)) (swapLabel a b z) = Sq.countType N (ty 0) z := by
    intro z; simp only [Sq.countType, swapTypes, swapLabel_inj]
  simp only [Sq.Spec.S, Sq.Spec.rho, hind, hct]

/-- **Axis permutation, S(q).**  The phase `q·r` and the squared wave number are unchanged when the axes of the
positions, of the integer wave vector and of `2π/L` are permuted together; the permuted set of wave vectors has the
same |q| shells. -/
theorem C07_axis_perm_sq (d : ℕ) (π : Equiv.Perm ℕ) (hπ : PermBelow d π) (n : ℕ → ℤ) (tw r : ℕ → K) :
    theta d (permVec π n) (permVec π tw) (permVec π r) = theta d n tw r ∧
    (∑ k ∈ range d, (((permVec π n k : ℤ) : K) * permVec π tw k) ^ 2) = ∑ k ∈ range d, (((n k : ℤ) : K) * tw k) ^ 2 := by
  constructor
  · simp only [theta, sumRange_eq, permVec]
    exact sum_perm d π hπ (fun k => ((n k : ℤ) : K) * tw k * r k)
  · simp only [permVec]
    exact sum_perm d π hπ (fun k => (((n k : ℤ) : K) * tw k) ^ 2)

end algebraic

/-! ### with Mathlib's cosine and sine -/

/-- **Translation, S(q) over ℝ.**  With the phases `q_k·r_i` of sq.py, translating frame `f` rigidly by `cv f` leaves
every partial and the total S(q) unchanged (for ANY wave vectors, commensurate or not). -/
theorem C07_translation_sq_real (sqrt : ℝ → ℝ) (T N d : ℕ) (ty : ℕ → ℕ → ℕ) (qv : ℕ → ℕ → ℤ) (tw : ℕ → ℝ)
    (pos : ℕ → ℕ → ℕ → ℝ) (cv : ℕ → ℕ → ℝ) (a b k : ℕ) :
    Sq.Spec.S sqrt T N ty (fun f i k => Real.cos (theta d (qv k) tw (translate (pos f) (cv f) i)))
        (fun f i k => Real.sin (theta d (qv k) tw (translate (pos f) (cv f) i))) a b k
      = Sq.Spec.S sqrt T N ty (fun f i k => Real.cos (theta d (qv k) tw (pos f i)))
          (fun f i k => Real.sin (theta d (qv k) tw (pos f i))) a b k ∧
    Sq.Spec.Stot T N (fun f i k => Real.cos (theta d (qv k) tw (translate (pos f) (cv f) i)))
        (fun f i k => Real.sin (theta d (qv k) tw (translate (pos f) (cv f) i))) k
      = Sq.Spec.Stot T N (fun f i k => Real.cos (theta d (qv k) tw (pos f i)))
          (fun f i k => Real.sin (theta d (qv k) tw (pos f i))) k := by
  have hc : (fun f i k => Real.cos (theta d (qv k) tw (translate (pos f) (cv f) i)))
      = fun f i k => Real.cos (theta d (qv k) tw (pos f i)) * Real.cos (theta d (qv k) tw (cv f))
          - Real.sin (theta d (qv k) tw (pos f i)) * Real.sin (theta d (qv k) tw (cv f)) := by
    funext f i k
    show Real.cos (theta d (qv k) tw (fun x => pos f i x + cv f x)) = _
    rw [theta_add, Real.cos_add]
  have hs : (fun f i k => Real.sin (theta d (qv k) tw (translate (pos f) (cv f) i)))
      = fun f i k => Real.sin (theta d (qv k) tw (pos f i)) * Real.cos (theta d (qv k) tw (cv f))
          + Real.cos (theta d (qv k) tw (pos f i)) * Real.sin (theta d (qv k) tw (cv f)) := by
    funext f i k
    show Real.sin (theta d (qv k) tw (fun x => pos f i x + cv f x)) = _
    rw [theta_add, Real.sin_add]
  rw [hc, hs]
  exact C07_translation_sq_spec sqrt T N ty _ _ (fun f k => Real.cos (theta d (qv k) tw (cv f)))
    (fun f k => Real.sin (theta d (qv k) tw (cv f)))
    (fun f k => by have := Real.cos_sq_add_sin_sq (theta d (qv k) tw (cv f)); nlinarith [this]) a b k

/-- **Image, S(q): `exp(−i q·(m∘L)) = 1` for box-commensurate q.**  For `q = n·2π/L` (n integer, orthogonal box with
lengths `L k ≠ 0`) moving a particle by whole box lengths `m k · L k` changes its phase by an integer multiple of 2π, so
cosine and sine of the phase — hence every density mode, every partial and the total S(q) — are unchanged. -/
theorem C07_image_sq (d : ℕ) (n m : ℕ → ℤ) (L r : ℕ → ℝ) (hL : ∀ k < d, L k ≠ 0) :
    Real.cos (theta d n (fun k => 2 * Real.pi / L k) (fun k => r k + (m k : ℝ) * L k))
      = Real.cos (theta d n (fun k => 2 * Real.pi / L k) r) ∧
    Real.sin (theta d n (fun k => 2 * Real.pi / L k) (fun k => r k + (m k : ℝ) * L k))
      = Real.sin (theta d n (fun k => 2 * Real.pi / L k) r) := by
  have e : theta d n (fun k => 2 * Real.pi / L k) (fun k => r k + (m k : ℝ) * L k)
      = theta d n (fun k => 2 * Real.pi / L k) r + ((∑ k ∈ range d, n k * m k : ℤ) : ℝ) * (2 * Real.pi) := by
    rw [theta_add]
    congr 1
    simp only [theta, sumRange_eq]
    push_cast
    rw [Finset.sum_mul]
    refine Finset.sum_congr rfl fun k hk => ?_
    have := hL k (Finset.mem_range.mp hk)
    field_simp
  rw [e]
  exact ⟨Real.cos_add_int_mul_two_pi _ _, Real.sin_add_int_mul_two_pi _ _⟩

/-- **Image, S(q) (Spec level).**  The Spec's S(q) of image-shifted frames equals that of the original frames. -/
theorem C07_image_sq_spec (sqrt : ℝ → ℝ) (T N d : ℕ) (ty : ℕ → ℕ → ℕ) (qv : ℕ → ℕ → ℤ) (L : ℕ → ℝ)
    (hL : ∀ k < d, L k ≠ 0) (pos : ℕ → ℕ → ℕ → ℝ) (m : ℕ → ℕ → ℕ → ℤ) (a b k : ℕ) :
    Sq.Spec.S sqrt T N ty
        (fun f i k => Real.cos (theta d (qv k) (fun x => 2 * Real.pi / L x) (fun x => pos f i x + (m f i x : ℝ) * L x)))
        (fun f i k => Real.sin (theta d (qv k) (fun x => 2 * Real.pi / L x) (fun x => pos f i x + (m f i x : ℝ) * L x))) a b k
      = Sq.Spec.S sqrt T N ty (fun f i k => Real.cos (theta d (qv k) (fun x => 2 * Real.pi / L x) (pos f i)))
          (fun f i k => Real.sin (theta d (qv k) (fun x => 2 * Real.pi / L x) (pos f i))) a b k := by
  have hc : (fun f i k => Real.cos (theta d (qv k) (fun x => 2 * Real.pi / L x) (fun x => pos f i x + (m f i x : ℝ) * L x)))
      = fun f i k => Real.cos (theta d (qv k) (fun x => 2 * Real.pi / L x) (pos f i)) := by
    funext f i k; exact (C07_image_sq d (qv k) (m f i) L (pos f i) hL).1
  have hs : (fun f i k => Real.sin (theta d (qv k) (fun x => 2 * Real.pi / L x) (fun x => pos f i x + (m f i x : ℝ) * L x)))
      = fun f i k => Real.sin (theta d (qv k) (fun x => 2 * Real.pi / L x) (pos f i)) := by
    funext f i k; exact (C07_image_sq d (qv k) (m f i) L (pos f i) hL).2
  rw [hc, hs]

end Pms.Sym
