import Pms.Gen.ModShape

/-! # C11 — pinned source text (property theorems only; statements written by tools/mkmodprops.py from the tree the
checks were validated on, hand-owned afterwards).  `Pms.Gen.ModShape` is REGENERATED from /repo on every run; these
theorems say that the module top levels (imports, module-level state, decorators, signatures and defaults) of the files
C11 is anchored in — and, where listed, the statements of the anchored routines — are still the text the model was
written against and the correspondence was run on.  An edit there breaks this obligation; the check then searches for
a failing input and reports `no-failing-input-found` when there is none (a harmless edit). -/
namespace Pms.ModShape
open Pms.Gen.ModShape

/-- module top levels of PyMatterSim/static/hessians.py, PyMatterSim/static/vector.py -/
theorem C11_module_shape :
    shape_static_hessians =
  ["from dataclasses import dataclass",
   "from enum import Enum",
   "from typing import Dict, List, Tuple",
   "import numpy as np",
   "import numpy.typing as npt",
   "import pandas as pd",
   "from ..reader.reader_utils import SingleSnapshot",
   "from ..static.vector import participation_ratio",
   "from ..utils.logging import get_logger_handle",
   "from ..utils.pbc import remove_pbc",
   "logger = get_logger_handle(__name__)",
   "class ModelName(Enum)",
   "  lennard_jones = 1",
   "  inverse_power_law = 2",
   "  harmonic_hertz = 3",
   "@dataclass(frozen=True) class InteractionParams()",
   "  model_name: ModelName",
   "  ipl_n: float = 0",
   "  ipl_A: float = 0",
   "  harmonic_hertz_alpha: float = 0",
   "class PairInteractions()",
   "  def __init__(self, r: float, epsilon: float, sigma: float, r_c: float, shift: bool=True) -> None",
   "  def caller(self, interaction_params: InteractionParams) -> List[float]",
   "  def lennard_jones(self) -> List[float]",
   "  def inverse_power_law(self, n: float, A: float=1.0) -> List[float]",
   "  def harmonic_hertz(self, alpha: float) -> List[float]",
   "class HessianMatrix()",
   "  def __init__(self, snapshot: SingleSnapshot, masses: Dict[int, float], epsilons: npt.NDArray, sigmas: npt.NDArray, r_cuts: npt.NDArray, ppp: npt.NDArray, shiftpotential: bool=True) -> None",
   "  def pair_matrix(self, Rji: npt.NDArray, dudrs: List[float]) -> Tuple[npt.NDArray, npt.NDArray]",
   "  def diagonalize_hessian(self, interaction_params: InteractionParams, saveevecs: bool=True, savehessian: bool=False, outputfile: str='') -> None"] ∧
    shape_static_vector =
  ["from typing import Optional, Tuple",
   "import numpy as np",
   "import numpy.typing as npt",
   "import pandas as pd",
   "from ..dynamic.time_corr import time_correlation",
   "from ..neighbors.read_neighbors import read_neighbors",
   "from ..reader.reader_utils import SingleSnapshot, Snapshots",
   "from ..static.sq import conditional_sq",
   "from ..utils.logging import get_logger_handle",
   "from ..utils.pbc import remove_pbc",
   "logger = get_logger_handle(__name__)",
   "def participation_ratio(vector: npt.NDArray) -> float",
   "def local_vector_alignment(vector: npt.NDArray, neighborfile: str) -> npt.NDArray",
   "def phase_quotient(vector: npt.NDArray, neighborfile: str) -> float",
   "def divergence_curl(snapshot: SingleSnapshot, vector: npt.NDArray, ppp: npt.NDArray, neighborfile: str) -> Tuple[npt.NDArray, Optional[npt.NDArray]]",
   "def kspace_decomposition()",
   "def vibrability(eigenfrequencies: npt.NDArray, eigenvectors: npt.NDArray, num_of_partices: int, outputfile: str='') -> npt.NDArray",
   "def vector_decomposition_sq(snapshot: SingleSnapshot, qvector: npt.NDArray, vector: npt.NDArray, outputfile: str='') -> Tuple[pd.DataFrame, pd.DataFrame]",
   "def vector_fft_corr(snapshots: Snapshots, qvector: npt.NDArray, vectors: npt.NDArray, dt: float=0.002, outputfile: str='') -> dict[str, pd.DataFrame]"] :=
  ⟨rfl, rfl⟩

end Pms.ModShape
