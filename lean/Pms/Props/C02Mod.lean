import Pms.Gen.ModShape

/-! # C02 — pinned source text (property theorems only; statements written by tools/mkmodprops.py from the tree the
checks were validated on, hand-owned afterwards).  `Pms.Gen.ModShape` is REGENERATED from /repo on every run; these
theorems say that the module top levels (imports, module-level state, decorators, signatures and defaults) of the files
C02 is anchored in — and, where listed, the statements of the anchored routines — are still the text the model was
written against and the correspondence was run on.  An edit there breaks this obligation; the check then searches for
a failing input and reports `no-failing-input-found` when there is none (a harmless edit). -/
namespace Pms.ModShape
open Pms.Gen.ModShape

/-- module top levels of PyMatterSim/utils/pbc.py -/
theorem C02_module_shape :
    shape_utils_pbc =
  ["import numpy as np",
   "import numpy.typing as npt",
   "def remove_pbc(RIJ: np.array, hmatrix: np.array, ppp: npt.NDArray=np.array([1, 1, 1])) -> npt.NDArray"] :=
  rfl

/-- statements of remove_pbc -/
theorem C02_body_shape :
    body_utils_pbc__remove_pbc =
  ["ppp = np.array(ppp)[np.newaxis, :]",
   "hmatrixinv = np.linalg.inv(hmatrix)",
   "matrixij = np.dot(RIJ, hmatrixinv)",
   "return np.dot(matrixij - np.rint(matrixij) * ppp, hmatrix)"] :=
  rfl

end Pms.ModShape
