import Pms.Lemmas.Dyn
import Mathlib.Tactic.IntervalCases

/-!
# C06 — relaxation functions (`PyMatterSim/dynamic/dynamics.py`)

Property theorems only.  `K` is any ordered field (so ℝ and ℚ); the trajectory `X` is arbitrary
(any number of frames, particles, dimensions, any positions, cells, masks, neighbour lists);
`cos`, `sin` are arbitrary functions, `rint` any function (contract `IsRintHE` where needed).
`Impl.*` is built from the definitions regenerated from the source on every run (`Pms.Gen.Dyn`).
-/
open Finset
namespace Pms.Dyn
open Pms Pms.Gen.Dyn

set_option linter.unusedSectionVars false
set_option linter.unnecessarySeqFocus false
variable {K : Type} [Field K] [LinearOrder K] [IsStrictOrderedRing K]

/-- the regenerated double loop over end frame `n` and lag `nn`: slot `k` receives exactly the pairs
`(o, o+k+1)` for every origin `o` with `o + k + 1 < T`, and `counts[k] = T − (k+1)` -/
theorem C06_reindex (T : ℕ) (F : ℕ → ℕ → K) (k : ℕ) :
    Impl.relLoop T relIndex F k = ∑ o ∈ range (T - (k + 1)), F (o + (k + 1)) (k + 1) ∧
    Impl.relLoop T relCountIndex (fun _ _ => (1 : K)) k = ((T - (k + 1) : ℕ) : K) :=
  ⟨relLoop_eq T F k, relCount_eq T k⟩

/-- slow = moved less than the cutoff, fast = moved further: the regenerated operators are the definition's -/
theorem C06_overlap_mode (X : Traj K) : Impl.relCmp X = Spec.mobile X.fast ∧ Impl.logCmp X = Spec.mobile X.fast := by
  constructor <;> funext x c
  · unfold Impl.relCmp Spec.mobile relFast relSlow; cases X.fast <;> rfl
  · unfold Impl.logCmp Spec.mobile logFast logSlow; cases X.fast <;> rfl

/-- alpha2 prefactor: 3/5 in three, 1/2 in two dimensions, i.e. d/(d+2) -/
theorem C06_alpha2factor (d : ℕ) (hd : d = 2 ∨ d = 3) :
    alpha2factor (α := K) d = some (((d : ℕ) : K) / ((d + 2 : ℕ) : K)) := by
  rcases hd with h | h <;> subst h <;> simp [alpha2factor] <;> norm_num

/-- row `k` of `Dynamics.relaxation` = the definition at lag `k+1`: ISF, overlap and MSD averaged over ALL
time origins, χ4 = N(⟨Q²⟩ − ⟨Q⟩²), α2 = d/(d+2)·⟨r⁴⟩/⟨r²⟩² − 1, t = (k+1)·interval·dt.
`M` is the number of selected particles (the code takes it from the condition row of frame 0). -/
theorem C06_rows (rint : K → ℤ) (cos : K → K) (X : Traj K) (M interval : K) (k : ℕ)
    (hd : X.d = 2 ∨ X.d = 3) (hM : selCount X 0 = M)
    (hts : ∀ j, X.ts j = X.ts 0 + (j : K) * interval) :
    (Impl.relaxation rint cos X k).t = (Spec.row rint cos X M interval (k + 1)).t ∧
    (Impl.relaxation rint cos X k).isf = (Spec.row rint cos X M interval (k + 1)).isf ∧
    (Impl.relaxation rint cos X k).qt = (Spec.row rint cos X M interval (k + 1)).qt ∧
    (Impl.relaxation rint cos X k).x4 = (Spec.row rint cos X M interval (k + 1)).x4 ∧
    (Impl.relaxation rint cos X k).msd = (Spec.row rint cos X M interval (k + 1)).msd ∧
    (Impl.relaxation rint cos X k).alpha2 = (Spec.row rint cos X M interval (k + 1)).alpha2 := by
  have hcmp := (C06_overlap_mode X).1
  have hisf := avg_of_loop X.T k (fun p f => pairIsf cos X (dispTab rint X p).get f)
  have hq := avg_of_loop X.T k (fun p f => pairQ (Spec.mobile X.fast) X (dispTab rint X p).get f)
  have hq2 := avg_of_loop X.T k (fun p f => pairQ (Spec.mobile X.fast) X (dispTab rint X p).get f
      * pairQ (Spec.mobile X.fast) X (dispTab rint X p).get f)
  have h2 := avg_of_loop X.T k (fun p f => pairR2 X (dispTab rint X p).get f)
  have h4 := avg_of_loop X.T k (fun p f => pairR4 X (dispTab rint X p).get f)
  have hlast : Impl.relLastCount X = M := by
    rw [← hM]; unfold Impl.relLastCount relCond relOuterHi relInnerHi
    have : X.T - 1 - (X.T - 1 + 1 - 1) = 0 := by omega
    simp only [this]
  have haf := C06_alpha2factor (K := K) X.d hd
  refine ⟨?_, ?_, ?_, ?_, ?_, ?_⟩
  · show time X k = ((k + 1 : ℕ) : K) * interval * X.dt
    unfold time; rw [hts (k + 1)]; push_cast; ring
  · exact hisf
  · show _ / _ = _
    rw [hcmp]; exact hq
  · show relX4 _ _ _ = M * (_ - _ * _)
    unfold relX4
    rw [hlast, hcmp]
    erw [hq, hq2]
    unfold Spec.q
    ring
  · exact h2
  · show relAlpha2 _ _ _ = _
    unfold relAlpha2
    rw [haf]
    erw [h2, h4]
    simp only [Option.getD_some, Nat.cast_one]
    rfl

/-- the time axis for evenly spaced frames: row k is at (k+1)·interval·dt (both samplings use `self.time`) -/
theorem C06_time (X : Traj K) (interval : K) (k : ℕ) (hts : ∀ j, X.ts j = X.ts 0 + (j : K) * interval) :
    time X k = ((k + 1 : ℕ) : K) * interval * X.dt := by
  unfold time; rw [hts (k + 1)]; push_cast; ring

/-- `LogDynamics.relaxation`: row k = the same quantities for the single pair (frame 0, frame k+1);
h-matrix, neighbour list and condition of frame 0; χ4 column 0 -/
theorem C06_log (rint : K → ℤ) (cos : K → K) (X : Traj K) (k : ℕ) (hd : X.d = 2 ∨ X.d = 3) (hk : k + 1 < X.T) :
    (Impl.logRelaxation rint cos X k).t = (Spec.logRow rint cos X (k + 1)).t ∧
    (Impl.logRelaxation rint cos X k).isf = (Spec.logRow rint cos X (k + 1)).isf ∧
    (Impl.logRelaxation rint cos X k).qt = (Spec.logRow rint cos X (k + 1)).qt ∧
    (Impl.logRelaxation rint cos X k).x4 = (Spec.logRow rint cos X (k + 1)).x4 ∧
    (Impl.logRelaxation rint cos X k).msd = (Spec.logRow rint cos X (k + 1)).msd ∧
    (Impl.logRelaxation rint cos X k).alpha2 = (Spec.logRow rint cos X (k + 1)).alpha2 := by
  have hcmp := (C06_overlap_mode X).2
  have haf := C06_alpha2factor (K := K) X.d hd
  have hisf := logLoop_eq X.T (fun n => pairIsf cos X (dispTab rint X (Impl.logFr n)).get 0) k hk
  have hq := logLoop_eq X.T (fun n => pairQ (Impl.logCmp X) X (dispTab rint X (Impl.logFr n)).get 0) k hk
  have h2 := logLoop_eq X.T (fun n => pairR2 X (dispTab rint X (Impl.logFr n)).get 0) k hk
  have h4 := logLoop_eq X.T (fun n => pairR4 X (dispTab rint X (Impl.logFr n)).get 0) k hk
  refine ⟨rfl, hisf, ?_, rfl, h2, ?_⟩
  · exact hq.trans (by rw [hcmp]; rfl)
  · show logAlpha2 _ _ _ = _
    unfold logAlpha2
    erw [h2, h4, haf]
    simp only [Option.getD_some, Nat.cast_one]
    rfl

/-- with a single origin the definition's χ4 = N(⟨Q²⟩ − ⟨Q⟩²) is 0, the value the log variant returns -/
theorem C06_log_chi4 (M Q : K) : M * (Q * Q / 1 - (Q / 1) * (Q / 1)) = 0 := by ring

/-- the displacement array of one iteration: `pos_end − pos_init`; minimum image with the regenerated
h-matrix frame only when only wrapped coordinates were given; then, when a neighbour file was given,
minus the mean displacement of the neighbours listed for that particle in frame `p.nbf` -/
theorem C06_cage (rint : K → ℤ) (X : Traj K) (p : Fr) (i k : ℕ) :
    pbcDisp rint X p i k =
      (if X.pbc then Pbc.removePbc X.d rint (X.H p.hm) (X.Hinv p.hm) X.ppp
          (fun k => X.pos p.fin i k - X.pos p.init i k) k
       else X.pos p.fin i k - X.pos p.init i k) ∧
    disp rint X p i k =
      (if X.cage then pbcDisp rint X p i k
          - ((X.nb p.nbf i).map (fun j => pbcDisp rint X p j k)).sum / (((X.nb p.nbf i).length : ℕ) : K)
       else pbcDisp rint X p i k) := by
  constructor
  · unfold pbcDisp; split <;> rfl
  · unfold disp dispTab
    cases hc : X.cage <;> simp [Tab2.get_tab, cageRel, lsum_eq]

/-- wrapped coordinates with periodic flags give the same numbers as unwrapped coordinates whenever no
true displacement reaches half a box length on a periodic axis: `x = xu + (integer lattice vector on the
periodic axes)` per frame and particle, constant cell with `Hinv` its two-sided inverse (`np.linalg.inv`
contract), `rint` meeting the `np.rint` contract.  Holds for the displacement arrays (also after
cage-relative subtraction), hence for every row of both samplings. -/
theorem C06_wrapped_eq_unwrapped (rint : K → ℤ) (hr : IsRintHE rint) (cos : K → K) (X : Traj K)
    (xu : ℕ → ℕ → ℕ → K) (m : ℕ → ℕ → ℕ → ℤ) (H Hinv : ℕ → ℕ → K)
    (hH : ∀ f, X.H f = H) (hHi : ∀ f, X.Hinv f = Hinv)
    (hinv : Pbc.IsInv X.d H Hinv) (hinv' : Pbc.IsInv X.d Hinv H)
    (hp : ∀ a < X.d, X.ppp a = 0 ∨ X.ppp a = 1) (hpbc : X.pbc = true)
    (hx : ∀ f i k, X.pos f i k = xu f i k + Pbc.vecMul X.d (fun a => (m f i a : K) * X.ppp a) H k)
    (hhalf : ∀ o e i, ∀ a < X.d, X.ppp a = 1 →
      |Pbc.frac X.d Hinv (fun k => xu e i k - xu o i k) a| < 1/2) :
    let Xu : Traj K := { X with pos := xu, pbc := false }
    (∀ p i, ∀ k < X.d, disp rint X p i k = disp rint Xu p i k) ∧
    (∀ k, Impl.relaxation rint cos X k = Impl.relaxation rint cos Xu k) ∧
    (∀ k, Impl.logRelaxation rint cos X k = Impl.logRelaxation rint cos Xu k) := by
  intro Xu
  have hU : ∀ p i, ∀ k < X.d, pbcDisp rint X p i k = pbcDisp rint Xu p i k := by
    intro p i k hk
    have hu : pbcDisp rint Xu p i k = xu p.fin i k - xu p.init i k := rfl
    rw [hu]
    unfold pbcDisp
    simp only [hpbc, if_true, hH, hHi]
    have hraw : (fun k => X.pos p.fin i k - X.pos p.init i k)
        = fun k => (xu p.fin i k - xu p.init i k)
            + Pbc.vecMul X.d (fun a => ((m p.fin i a - m p.init i a : ℤ) : K) * X.ppp a) H k := by
      funext k
      rw [hx, hx]
      have : (fun a => ((m p.fin i a - m p.init i a : ℤ) : K) * X.ppp a)
          = fun a => (m p.fin i a : K) * X.ppp a - (m p.init i a : K) * X.ppp a := by
        funext a; push_cast; ring
      rw [this, vecMul_sub]; ring
    rw [hraw]
    exact removePbc_wrapped X.d rint hr H Hinv X.ppp _ _ hinv hinv' hp (hhalf p.init p.fin i) k hk
  have hD : ∀ p i, ∀ k < X.d, disp rint X p i k = disp rint Xu p i k := by
    intro p i k hk
    rw [(C06_cage rint X p i k).2, (C06_cage rint Xu p i k).2]
    show (if X.cage then _ else _) = (if X.cage then _ else _)
    split
    · rw [hU p i k hk]
      congr 3
      exact List.map_congr_left fun j _ => hU p j k hk
    · exact hU p i k hk
  have hpair : ∀ (cmp : K → K → Bool) p f,
      pairIsf cos X (dispTab rint X p).get f = pairIsf cos Xu (dispTab rint Xu p).get f ∧
      pairQ cmp X (dispTab rint X p).get f = pairQ cmp Xu (dispTab rint Xu p).get f ∧
      pairR2 X (dispTab rint X p).get f = pairR2 Xu (dispTab rint Xu p).get f ∧
      pairR4 X (dispTab rint X p).get f = pairR4 Xu (dispTab rint Xu p).get f := by
    intro cmp p f
    exact pair_congr cos cmp X _ _ (fun i k hk => hD p i k hk) f
  have e1 : ∀ (g : ℕ → ℕ → Fr) (c : ℕ → ℕ → ℕ),
      (fun n nn => pairIsf cos X (dispTab rint X (g n nn)).get (c n nn))
        = fun n nn => pairIsf cos Xu (dispTab rint Xu (g n nn)).get (c n nn) :=
    fun g c => funext fun n => funext fun nn => (hpair (fun _ _ => true) _ _).1
  have e2 : ∀ cmp (g : ℕ → ℕ → Fr) (c : ℕ → ℕ → ℕ),
      (fun n nn => pairQ cmp X (dispTab rint X (g n nn)).get (c n nn))
        = fun n nn => pairQ cmp Xu (dispTab rint Xu (g n nn)).get (c n nn) :=
    fun cmp g c => funext fun n => funext fun nn => (hpair cmp _ _).2.1
  have e2' : ∀ cmp (g : ℕ → ℕ → Fr) (c : ℕ → ℕ → ℕ),
      (fun n nn => pairQ cmp X (dispTab rint X (g n nn)).get (c n nn) * pairQ cmp X (dispTab rint X (g n nn)).get (c n nn))
        = fun n nn => pairQ cmp Xu (dispTab rint Xu (g n nn)).get (c n nn)
            * pairQ cmp Xu (dispTab rint Xu (g n nn)).get (c n nn) :=
    fun cmp g c => funext fun n => funext fun nn => by rw [(hpair cmp _ _).2.1]
  have e3 : ∀ (g : ℕ → ℕ → Fr) (c : ℕ → ℕ → ℕ),
      (fun n nn => pairR2 X (dispTab rint X (g n nn)).get (c n nn))
        = fun n nn => pairR2 Xu (dispTab rint Xu (g n nn)).get (c n nn) :=
    fun g c => funext fun n => funext fun nn => (hpair (fun _ _ => true) _ _).2.2.1
  have e4 : ∀ (g : ℕ → ℕ → Fr) (c : ℕ → ℕ → ℕ),
      (fun n nn => pairR4 X (dispTab rint X (g n nn)).get (c n nn))
        = fun n nn => pairR4 Xu (dispTab rint Xu (g n nn)).get (c n nn) :=
    fun g c => funext fun n => funext fun nn => (hpair (fun _ _ => true) _ _).2.2.2
  refine ⟨hD, ?_, ?_⟩
  · intro k
    unfold Impl.relaxation
    dsimp only
    rw [e1, e2, e2', e3, e4]
    rfl
  · intro k
    have l1 : (fun n => pairIsf cos X (dispTab rint X (Impl.logFr n)).get 0)
        = fun n => pairIsf cos Xu (dispTab rint Xu (Impl.logFr n)).get 0 :=
      funext fun n => (hpair (fun _ _ => true) _ _).1
    have l2 : ∀ cmp, (fun n => pairQ cmp X (dispTab rint X (Impl.logFr n)).get 0)
        = fun n => pairQ cmp Xu (dispTab rint Xu (Impl.logFr n)).get 0 :=
      fun cmp => funext fun n => (hpair cmp _ _).2.1
    have l3 : (fun n => pairR2 X (dispTab rint X (Impl.logFr n)).get 0)
        = fun n => pairR2 Xu (dispTab rint Xu (Impl.logFr n)).get 0 :=
      funext fun n => (hpair (fun _ _ => true) _ _).2.2.1
    have l4 : (fun n => pairR4 X (dispTab rint X (Impl.logFr n)).get 0)
        = fun n => pairR4 Xu (dispTab rint Xu (Impl.logFr n)).get 0 :=
      funext fun n => (hpair (fun _ _ => true) _ _).2.2.2
    unfold Impl.logRelaxation
    dsimp only
    rw [l1, l2, l3, l4]
    rfl

/-- the four-point structure factor: for every |q| shell, `sq4` returns the structure factor of the slow (or
fast) subset — mobility judged between origin `o` and `o + n_t`, PBC removal / neighbour list / condition row /
S(q) positions all of the ORIGIN frame — averaged over the shell and over all origins `o` with `o + n_t < T`;
and the `q` column (summed and divided alongside) is returned unscaled -/
theorem C06_sq4 (rint : K → ℤ) (cos sin : K → K) (X : Traj K) (Q : Sq4In K) (nt : ℕ) (members : List ℕ) :
    Impl.sq4Shell rint cos sin X Q nt members = Spec.sq4Shell rint cos sin X Q nt members ∧
    (nt < X.T → Impl.sq4QScale (α := K) X.T nt = 1) := by
  have hcmp : Impl.sq4Cmp X = Spec.mobile X.fast := by
    funext x c; unfold Impl.sq4Cmp Spec.mobile sq4Fast sq4Slow; cases X.fast <;> rfl
  have hmask : ∀ n, Impl.sq4Mask rint X n nt = Spec.mobileMask rint X n (n + nt) := by
    intro n; unfold Impl.sq4Mask Spec.mobileMask; rw [hcmp]; rfl
  constructor
  · unfold Impl.sq4Shell Spec.sq4Shell
    rw [sq4Sum_eq, sumRange_eq]
    simp only [hmask]
    rfl
  · intro h
    unfold Impl.sq4QScale
    rw [sq4Sum_eq]
    have : ((X.T - nt : ℕ) : K) ≠ 0 := by
      have : X.T - nt ≠ 0 := by omega
      exact_mod_cast this
    simp only [Finset.sum_const, Finset.card_range, nsmul_eq_mul, mul_one]
    exact div_self this

/-- the lag in frames: a time that is exactly k sampling intervals gives n_t = k (`round` = half-even `rint`) -/
theorem C06_sq4_lag (rint : K → ℤ) (hr : IsRintHE rint) (X : Traj K) (k : ℕ) (h0 : time X 0 ≠ 0) :
    Impl.sq4Lag rint X ((k : K) * time X 0) = k := by
  unfold Impl.sq4Lag
  rw [mul_div_cancel_right₀ _ h0]
  have h1 := hr.add_int 0 (noTie_of_lt_half 0 (by norm_num)) (k : ℤ)
  have h2 := hr.zero 0 (by norm_num)
  rw [h2] at h1
  simp only [zero_add, Int.cast_natCast] at h1
  rw [h1]; simp

/-- non-vacuity: the hypotheses of `C06_rows` / `C06_log` / `C06_wrapped_eq_unwrapped` are satisfiable
(3-D, evenly spaced timesteps; a 1-D periodic cell of length 4 whose wrapped coordinates differ from the
unwrapped ones by `f` cell lengths in frame `f`, with its inverse) -/
example : ∃ X : Traj ℚ, (X.d = 2 ∨ X.d = 3) ∧ (∀ j, X.ts j = X.ts 0 + (j : ℚ) * 10) ∧ 2 + 1 < X.T :=
  ⟨{ T := 5, N := 2, d := 3, pos := fun f i k => f + i + k, ts := fun j => 100 + j * 10, dt := 1/500,
     diam := fun _ => 1, a := 3/10, qconst := 6, fast := false, pbc := false, H := fun _ _ _ => 0,
     Hinv := fun _ _ _ => 0, ppp := fun _ => 0, cage := false, nb := fun _ _ => [], sel := fun _ _ => true },
   Or.inr rfl, fun j => by ring, by decide⟩

example : Pbc.IsInv (K := ℚ) 1 (fun _ _ => 4) (fun _ _ => 1/4) ∧ Pbc.IsInv (K := ℚ) 1 (fun _ _ => 1/4) (fun _ _ => 4) ∧
    (∀ f i k : ℕ, ((f : ℚ) * 4) = 0 + Pbc.vecMul 1 (fun _ => ((f : ℤ) : ℚ) * 1) (fun _ _ => (4 : ℚ)) k) ∧
    (∀ a < 1, |Pbc.frac 1 (fun _ _ => (1/4 : ℚ)) (fun _ => (0 : ℚ) - 0) a| < 1/2) := by
  refine ⟨?_, ?_, ?_, ?_⟩
  · intro i hi k hk; interval_cases i; interval_cases k; norm_num
  · intro i hi k hk; interval_cases i; interval_cases k; norm_num
  · intro f _ k; simp [Pbc.vecMul, sumRange]
  · intro a ha; simp [Pbc.frac, Pbc.vecMul, sumRange]

/-- every statement of the three routines, of `cage_relative` and of the two constructors that is not
semantically regenerated is pinned as text: an edit anywhere in the anchored code reaches this obligation -/
theorem C06_source_shape :
    relNormalised = ["isf",
   "qt",
   "qt2",
   "r2",
   "r4"] ∧
    relPre = ["self.q_const = qconst / self.diameters",
   "q_const = self.q_const.copy()",
   "a2_cuts = self.a2_cuts.copy()",
   "counts = np.zeros(self.snapshots.nsnapshots - 1)",
   "isf = np.zeros_like(counts)",
   "qt = np.zeros_like(counts)",
   "qt2 = np.zeros_like(counts)",
   "r2 = np.zeros_like(counts)",
   "r4 = np.zeros_like(counts)"] ∧
    relBody = ["index = nn - 1",
   "counts[index] += 1",
   "pos_init = self.snapshots.snapshots[n - nn].positions",
   "pos_end = self.snapshots.snapshots[n].positions",
   "RII = pos_end - pos_init",
   "if self.PBC:\n    RII = remove_pbc(RII, self.snapshots.snapshots[n - nn].hmatrix, self.ppp)",
   "if self.neighborlists:\n    RII = cage_relative(RII, self.neighborlists[n - nn])",
   "if condition is not None:\n    selection = condition[n - nn]\n    q_const = self.q_const[selection]\n    a2_cuts = self.a2_cuts[selection]\n    RII = RII[selection]",
   "isf[index] += np.cos(RII * q_const[:, np.newaxis]).mean()",
   "distance = np.square(RII).sum(axis=1)",
   "if self.cal_type == 'slow':\n    medium = (distance < a2_cuts).mean()\nelse:\n    medium = (distance > a2_cuts).mean()",
   "qt[index] += medium",
   "qt2[index] += medium ** 2",
   "r2[index] += distance.mean()",
   "r4[index] += np.square(distance).mean()"] ∧
    relPost = ["isf /= counts",
   "qt /= counts",
   "qt2 /= counts",
   "x4_qt = (qt2 - np.square(qt)) * len(a2_cuts)",
   "r2 /= counts",
   "r4 /= counts",
   "alpha2 = alpha2factor(self.ndim) * r4 / np.square(r2) - 1",
   "results = np.column_stack((self.time, isf, qt, x4_qt, r2, alpha2))",
   "results = pd.DataFrame(results, columns='t isf Qt X4_Qt msd alpha2'.split())",
   "if outputfile:\n    results.to_csv(outputfile, index=False)",
   "return results"] ∧
    logPre = ["self.q_const = qconst / self.diameters",
   "q_const = self.q_const.copy()",
   "a2_cuts = self.a2_cuts.copy()",
   "isf = np.zeros_like(self.time)",
   "qt = np.zeros_like(self.time)",
   "r2 = np.zeros_like(self.time)",
   "r4 = np.zeros_like(self.time)"] ∧
    logBody = ["index = n - 1",
   "pos_init = self.snapshots.snapshots[0].positions",
   "pos_end = self.snapshots.snapshots[n].positions",
   "RII = pos_end - pos_init",
   "if self.PBC:\n    RII = remove_pbc(RII, self.snapshots.snapshots[0].hmatrix, self.ppp)",
   "if self.neighborlists.any():\n    RII = cage_relative(RII, self.neighborlists)",
   "if condition is not None:\n    q_const = self.q_const[condition]\n    a2_cuts = self.a2_cuts[condition]\n    RII = RII[condition]",
   "isf[index] = np.cos(RII * q_const[:, np.newaxis]).mean()",
   "distance = np.square(RII).sum(axis=1)",
   "if self.cal_type == 'slow':\n    medium = (distance < a2_cuts).mean()\nelse:\n    medium = (distance > a2_cuts).mean()",
   "qt[index] = medium",
   "r2[index] = distance.mean()",
   "r4[index] = np.square(distance).mean()"] ∧
    logPost = ["x4_qt = np.zeros_like(qt)",
   "alpha2 = alpha2factor(self.ndim) * r4 / np.square(r2) - 1",
   "results = np.column_stack((self.time, isf, qt, x4_qt, r2, alpha2))",
   "results = pd.DataFrame(results, columns='t isf Qt X4_Qt msd alpha2'.split())",
   "if outputfile:\n    results.to_csv(outputfile, index=False)",
   "return results"] ∧
    sq4Pre = ["if self.x_snapshots is None:\n    logger.info('Use xu coordinates for dynamics and x/xs coordinates for Sq4')\n    snapshots = self.snapshots\nelse:\n    logger.info('Use only xu or x/xs for calculating both dynamics and Sq4')\n    snapshots = self.x_snapshots",
   "twopidl = 2 * np.pi / snapshots.snapshots[0].boxlength",
   "numofq = int(qrange * 2.0 / twopidl.min())",
   "qvector = choosewavevector(ndim=self.ndim, numofq=numofq, onlypositive=False)",
   "n_t = round(t / self.time[0])",
   "ave_sqresults = 0"] ∧
    sq4Body = ["pos_init = self.snapshots.snapshots[n].positions",
   "pos_end = self.snapshots.snapshots[n + n_t].positions",
   "RII = pos_end - pos_init",
   "if self.PBC:\n    RII = remove_pbc(RII, self.snapshots.snapshots[n].hmatrix, self.ppp)",
   "if self.neighborlists:\n    RII = cage_relative(RII, self.neighborlists[n])",
   "RII = np.square(RII).sum(axis=1)",
   "if self.cal_type == 'slow':\n    mobility_condition = RII < self.a2_cuts\nelse:\n    mobility_condition = RII > self.a2_cuts",
   "if condition is not None:\n    mobility_condition *= condition[n].astype(bool)",
   "ave_sqresults += conditional_sq(snapshots.snapshots[n], qvector=qvector, condition=mobility_condition)[1]"] ∧
    sq4Post = ["ave_sqresults /= self.snapshots.nsnapshots - n_t",
   "if outputfile:\n    ave_sqresults.to_csv(outputfile, index=False)",
   "return ave_sqresults"] ∧
    cageBody = ["RII_relative = np.zeros_like(RII)",
   "for i in range(RII.shape[0]):\n    i_neighbors = cnlist[i, 1:cnlist[i, 0] + 1]\n    RII_relative[i] = RII[i] - RII[i_neighbors].mean(axis=0)",
   "return RII_relative"] ∧
    linInit = ["self.ppp = ppp",
   "self.ndim = len(ppp)",
   "self.cal_type = cal_type",
   "if x_snapshots and xu_snapshots:\n    self.snapshots = xu_snapshots\n    self.x_snapshots = x_snapshots\n    self.PBC = False\n    if xu_snapshots.nsnapshots != x_snapshots.nsnapshots:\n        raise ValueError('incompatible x/xs and xu format coordinates')\nelif xu_snapshots and (not x_snapshots):\n    self.snapshots = xu_snapshots\n    self.x_snapshots = None\n    self.PBC = False\nelif x_snapshots and (not xu_snapshots):\n    self.snapshots = x_snapshots\n    self.x_snapshots = None\n    self.PBC = True\n    if not ppp.any():\n        raise ValueError('No periodic boundary conditions provided')",
   "timesteps = [snapshot.timestep for snapshot in self.snapshots.snapshots]",
   "self.time = (np.array(timesteps)[1:] - timesteps[0]) * dt",
   "self.diameters = pd.Series(self.snapshots.snapshots[0].particle_type).map(diameters).values",
   "self.a2_cuts = np.square(self.diameters * a)",
   "self.neighborlists = []",
   "if neighborfile:\n    fneighbor = open(neighborfile, 'r', encoding='utf-8')\n    for n in range(self.snapshots.nsnapshots):\n        medium = read_neighbors(f=fneighbor, nparticle=self.snapshots.snapshots[n].nparticle, Nmax=max_neighbors)\n        self.neighborlists.append(medium)\n    fneighbor.close()"] ∧
    logInitLines = ["self.ppp = ppp",
   "self.ndim = len(ppp)",
   "self.cal_type = cal_type",
   "if x_snapshots and xu_snapshots:\n    self.snapshots = xu_snapshots\n    self.x_snapshots = x_snapshots\n    self.PBC = False\n    if xu_snapshots.nsnapshots != x_snapshots.nsnapshots:\n        raise ValueError('incompatible x/xs and xu format coordinates')\nelif xu_snapshots and (not x_snapshots):\n    self.snapshots = xu_snapshots\n    self.x_snapshots = None\n    self.PBC = False\nelif x_snapshots and (not xu_snapshots):\n    self.snapshots = x_snapshots\n    self.x_snapshots = None\n    self.PBC = True\n    if not ppp.any():\n        raise ValueError('No periodic boundary conditions provided')",
   "timesteps = [snapshot.timestep for snapshot in self.snapshots.snapshots]",
   "self.time = (np.array(timesteps)[1:] - timesteps[0]) * dt",
   "self.diameters = pd.Series(self.snapshots.snapshots[0].particle_type).map(diameters).values",
   "self.a2_cuts = np.square(self.diameters * a)",
   "if neighborfile:\n    fneighbor = open(neighborfile, 'r', encoding='utf-8')\n    self.neighborlists = read_neighbors(f=fneighbor, nparticle=self.snapshots.snapshots[0].nparticle, Nmax=max_neighbors)\n    fneighbor.close()\nelse:\n    self.neighborlists = np.zeros(3)"] ∧
    sq4Lag = "round(t / self.time[0])" :=
  ⟨rfl, rfl, rfl, rfl, rfl, rfl, rfl, rfl, rfl, rfl, rfl, rfl, rfl, rfl⟩

end Pms.Dyn
