import Pms.Lemmas.Dyn

/-!
# C06 — relaxation functions (`PyMatterSim/dynamic/dynamics.py`)

Property theorems only.  `K` is any ordered field (so ℝ and ℚ); the trajectory `X` is arbitrary
(any number of frames, particles, dimensions, any positions, cells, masks, neighbour lists);
`cos`, `sin` are arbitrary functions, `rint` any function (contract `IsRintHE` where needed).
`Impl.*` is built from the definitions regenerated from the source on every run (`Pms.Gen.Dyn`).
-/
open Finset
namespace Pms.Dyn
open Pms Pms.Gen.Dyn

set_option linter.unusedSectionVars false
set_option linter.unnecessarySeqFocus false
variable {K : Type} [Field K] [LinearOrder K] [IsStrictOrderedRing K]

/-- the regenerated double loop over end frame `n` and lag `nn`: slot `k` receives exactly the pairs
`(o, o+k+1)` for every origin `o` with `o + k + 1 < T`, and `counts[k] = T − (k+1)` -/
theorem C06_reindex (T : ℕ) (F : ℕ → ℕ → K) (k : ℕ) :
    Impl.relLoop T relIndex F k = ∑ o ∈ range (T - (k + 1)), F (o + (k + 1)) (k + 1) ∧
    Impl.relLoop T relCountIndex (fun _ _ => (1 : K)) k = ((T - (k + 1) : ℕ) : K) :=
  ⟨relLoop_eq T F k, relCount_eq T k⟩

/-- slow = moved less than the cutoff, fast = moved further: the regenerated operators are the definition's -/
theorem C06_overlap_mode (X : Traj K) : Impl.relCmp X = Spec.mobile X.fast ∧ Impl.logCmp X = Spec.mobile X.fast := by
  constructor <;> funext x c
  · unfold Impl.relCmp Spec.mobile relFast relSlow; cases X.fast <;> rfl
  · unfold Impl.logCmp Spec.mobile logFast logSlow; cases X.fast <;> rfl

/-- alpha2 prefactor: 3/5 in three, 1/2 in two dimensions, i.e. d/(d+2) -/
theorem C06_alpha2factor (d : ℕ) (hd : d = 2 ∨ d = 3) :
    alpha2factor (α := K) d = some (((d : ℕ) : K) / ((d + 2 : ℕ) : K)) := by
  rcases hd with h | h <;> subst h <;> simp [alpha2factor] <;> norm_num

/-- row `k` of `Dynamics.relaxation` = the definition at lag `k+1`: ISF, overlap and MSD averaged over ALL
time origins, χ4 = N(⟨Q²⟩ − ⟨Q⟩²), α2 = d/(d+2)·⟨r⁴⟩/⟨r²⟩² − 1, t = (k+1)·interval·dt.
`M` is the number of selected particles (the code takes it from the condition row of frame 0). -/
theorem C06_rows (rint : K → ℤ) (cos : K → K) (X : Traj K) (M interval : K) (k : ℕ)
    (hd : X.d = 2 ∨ X.d = 3) (hM : selCount X 0 = M)
    (hts : ∀ j, X.ts j = X.ts 0 + (j : K) * interval) :
    (Impl.relaxation rint cos X k).t = (Spec.row rint cos X M interval (k + 1)).t ∧
    (Impl.relaxation rint cos X k).isf = (Spec.row rint cos X M interval (k + 1)).isf ∧
    (Impl.relaxation rint cos X k).qt = (Spec.row rint cos X M interval (k + 1)).qt ∧
    (Impl.relaxation rint cos X k).x4 = (Spec.row rint cos X M interval (k + 1)).x4 ∧
    (Impl.relaxation rint cos X k).msd = (Spec.row rint cos X M interval (k + 1)).msd ∧
    (Impl.relaxation rint cos X k).alpha2 = (Spec.row rint cos X M interval (k + 1)).alpha2 := by
  have hcmp := (C06_overlap_mode X).1
  have hisf := avg_of_loop X.T k (fun p f => pairIsf cos X (dispTab rint X p).get f)
  have hq := avg_of_loop X.T k (fun p f => pairQ (Spec.mobile X.fast) X (dispTab rint X p).get f)
  have hq2 := avg_of_loop X.T k (fun p f => pairQ (Spec.mobile X.fast) X (dispTab rint X p).get f
      * pairQ (Spec.mobile X.fast) X (dispTab rint X p).get f)
  have h2 := avg_of_loop X.T k (fun p f => pairR2 X (dispTab rint X p).get f)
  have h4 := avg_of_loop X.T k (fun p f => pairR4 X (dispTab rint X p).get f)
  have hlast : Impl.relLastCount X = M := by
    rw [← hM]; unfold Impl.relLastCount relCond relOuterHi relInnerHi
    have : X.T - 1 - (X.T - 1 + 1 - 1) = 0 := by omega
    simp only [this]
  have haf := C06_alpha2factor (K := K) X.d hd
  refine ⟨?_, ?_, ?_, ?_, ?_, ?_⟩
  · show time X k = ((k + 1 : ℕ) : K) * interval * X.dt
    unfold time; rw [hts (k + 1)]; push_cast; ring
  · exact hisf
  · show _ / _ = _
    rw [hcmp]; exact hq
  · show relX4 _ _ _ = M * (_ - _ * _)
    unfold relX4
    rw [hlast, hcmp]
    erw [hq, hq2]
    unfold Spec.q
    ring
  · exact h2
  · show relAlpha2 _ _ _ = _
    unfold relAlpha2
    rw [haf]
    erw [h2, h4]
    simp only [Option.getD_some, Nat.cast_one]
    rfl

end Pms.Dyn
