import Pms.Gen.TimeCorr
import Pms.Lemmas.TimeCorr
import Mathlib.Data.Complex.BigOperators
import Mathlib.Tactic.LinearCombination
import Mathlib.Algebra.Order.BigOperators.Group.Finset

/-!
# C14 — `time_correlation` equals the origin-averaged normalised autocorrelation

Property theorems only.  `Pms.Gen.TimeCorr.program` is REGENERATED from `time_corr.py` on every run (detection
expression, the six branches, normalisation index); `Pms.Gen.TimeCorr.timeAxis` is the regenerated time-axis term.
Impl = `Program.run` / `Branch.final` (interpreter, `Pms/Model/TimeCorr.lean`); Spec = `pair`, `specLinear`, `specLog`, `spec`.
`K` is any field of characteristic zero (ℝ, ℚ); complex values are pairs `Cx K`; `C14_complex` identifies `Cx ℝ` with ℂ.
All statements hold for every frame count `T`, particle count `N`, component counts `d1 d2`, every series and every
timestep sequence.
-/
set_option linter.unusedSectionVars false
open Finset
namespace Pms.TimeCorr
open Pms

variable {K : Type} [Field K] [CharZero K]

/-! ## the regenerated table -/

/-- every regenerated branch is well-formed for the detection outcome that selects it (one conjugated factor, later
frame `n` against earlier frame `n − nn` resp. `0`, slot `nn` resp. `n`, `+=`, counts beside the accumulation,
`results /= counts`), and tests a shape length 2, 3 or 4 -/
theorem C14_table_ok : ∀ b ∈ Pms.Gen.TimeCorr.program.branches,
    (b.whenEven = true → b.OkLin) ∧ (b.whenEven = false → b.OkLog) ∧ b.shapeLen ∈ [2, 3, 4] := by
  decide +kernel

/-- the `if / elif` chain reaches, for each shape length 2, 3, 4 and each detection outcome, a branch for exactly that
combination; the normalisation divides by slot 0; the columns are (t, time_corr) in this order -/
theorem C14_dispatch :
    (∀ L ∈ [2, 3, 4], ∀ e : Bool,
      (Pms.Gen.TimeCorr.program.select L e).map (fun b => (b.shapeLen, b.whenEven)) = some (L, e)) ∧
    Pms.Gen.TimeCorr.program.normIndex = 0 ∧
    Pms.Gen.TimeCorr.columns = ["t", "time_corr"] ∧ Pms.Gen.TimeCorr.stackOrder = ["time", "results"] := by
  decide +kernel

/-- any other `len(condition.shape)` reaches no branch (the routine raises ValueError) -/
theorem C14_bad_shape (L : ℕ) (hL : L ∉ [2, 3, 4]) (e : Bool) : Pms.Gen.TimeCorr.program.select L e = none := by
  unfold Program.select
  rw [List.find?_eq_none]
  intro b hb
  have h := (C14_table_ok b hb).2.2
  have : b.shapeLen ≠ L := fun h' => hL (h' ▸ h)
  simp [this]

/-! ## the two modes -/

/-- **evenly spaced frames.**  A well-formed origin-averaging branch returns, at lag `k`, the mean over all origins
`t` (`t + k < T`) of Re Σ_particles A(t+k)·conj A(t), divided by the same quantity at lag 0.  No hypothesis on the data:
both sides use the field convention x/0 = 0 (the real routine produces NaN there, see `C14_lag0_is_one`). -/
theorem C14_linear (b : Branch) (h : b.OkLin) (T N d1 d2 : ℕ) (A : Series K) (k : ℕ) :
    b.final 0 T N d1 d2 A k
      = specLinear b.shapeLen T N d1 d2 A k / specLinear b.shapeLen T N d1 d2 A 0 := by
  unfold Branch.final
  simp only [raw_lin b h, specLinear, sumRange_eq]
  cases b.countPerParticle
  · simp
  · simp only [if_true]
    by_cases hN : (N : K) = 0
    · have : N = 0 := by exact_mod_cast hN
      subst this
      simp [pair_eq]
    · rw [← div_div, ← div_div, div_div_div_cancel_right₀ hN]

/-- **unevenly spaced frames.**  A well-formed single-origin branch returns Re Σ_particles A(k)·conj A(0) divided by
its value at k = 0. -/
theorem C14_log (b : Branch) (h : b.OkLog) (T N d1 d2 : ℕ) (A : Series K) (k : ℕ) (hk : k < T) :
    b.final 0 T N d1 d2 A k = specLog b.shapeLen N d1 d2 A k / specLog b.shapeLen N d1 d2 A 0 := by
  unfold Branch.final
  have h0 : 0 < T := by omega
  simp only [raw_log b h, specLog, hk, h0, if_true]

/-- **the per-particle `counts += 1` of the tensor branch cancels**: an origin-averaging branch gives the same result
whether `counts` is incremented once per (n, nn) or once per particle -/
theorem C14_tensor_counts (b : Branch) (h : b.OkLin) (T N d1 d2 : ℕ) (A : Series K) (k : ℕ) :
    b.final 0 T N d1 d2 A k = { b with countPerParticle := !b.countPerParticle }.final 0 T N d1 d2 A k := by
  have h' : ({ b with countPerParticle := !b.countPerParticle } : Branch).OkLin := h
  rw [C14_linear b h, C14_linear _ h']

/-- `counts[k]` of an origin-averaging branch is the number of origins `T − k`, times `N` when the increment sits in the
particle loop (the tensor branch) -/
theorem C14_tensor_counts_value (b : Branch) (h : b.OkLin) (T N : ℕ) (k : ℕ) :
    b.loops (α := K) T (b.countStep N) k = ((T - k : ℕ) : K) * (if b.countPerParticle then (N : K) else 1) :=
  counts_lin b h T N k

/-- which factor carries the conjugate does not matter for the real part … -/
theorem C14_conj_symmetry (x y : Cx K) : (Cx.mul x y.conj).re = (Cx.mul x.conj y).re := by
  simp [Cx.mul, Cx.conj]

/-- … but conjugating one of them does: i·i = −1, i·conj i = 1 -/
example : (Cx.mul (⟨0, 1⟩ : Cx ℚ) ⟨0, 1⟩).re = -1 ∧ (Cx.mul (⟨0, 1⟩ : Cx ℚ) (Cx.conj ⟨0, 1⟩)).re = 1 := by
  constructor <;> norm_num [Cx.mul, Cx.conj]

/-! ## detection -/

/-- `len(set(np.diff(timesteps))) == 1` holds exactly when there are at least two frames and all consecutive
differences are equal; in particular a single frame takes the single-origin branch -/
theorem C14_detection {α : Type} [Sub α] [DecidableEq α] (ts : ℕ → α) (T : ℕ) :
    Pms.Gen.TimeCorr.program.detect.eval ts T = true ↔ (2 ≤ T ∧ Evenly ts T) := by
  show (((distinct (diffs ts T)).length == 1) = true) ↔ _
  rw [beq_iff_eq, distinct_length_one]
  constructor
  · rintro ⟨a, hne, ha⟩
    have hT := (diffs_ne_nil ts T).mp hne
    refine ⟨hT, fun i hi => ?_⟩
    have h1 := ha _ ((mem_diffs ts T _).mpr ⟨i, hi, rfl⟩)
    have h0 := ha _ ((mem_diffs ts T _).mpr ⟨0, by omega, rfl⟩)
    rw [h1, ← h0]
  · rintro ⟨hT, hev⟩
    refine ⟨ts 1 - ts 0, (diffs_ne_nil ts T).mpr hT, fun x hx => ?_⟩
    obtain ⟨i, hi, rfl⟩ := (mem_diffs ts T x).mp hx
    exact hev i hi

/-- with a single frame the two definitions coincide (only lag 0 exists) -/
theorem C14_single_frame (L N d1 d2 : ℕ) (A : Series K) :
    spec true L 1 N d1 d2 A 0 = spec false L 1 N d1 d2 A 0 := by
  simp [spec, specLinear, specLog, sumRange]

/-! ## the whole routine -/

/-- **refinement.**  For every shape length 2, 3, 4, every `T ≥ 1` and every timestep sequence, the regenerated
program returns a table whose `time_corr` column is the Spec: origin average when the frames are evenly spaced, first
frame as the only origin otherwise, each divided by its lag-0 value. -/
theorem C14_refines [DecidableEq K] (ts : ℕ → K) (T L N d1 d2 : ℕ) (A : Series K) (hL : L ∈ [2, 3, 4]) (hT : 1 ≤ T) :
    ∃ f, Pms.Gen.TimeCorr.program.run ts T L N d1 d2 A = some f ∧
      ∀ k < T, f k = spec (evenlyB ts T) L T N d1 d2 A k := by
  have hsel := C14_dispatch.1 L hL (Pms.Gen.TimeCorr.program.detect.eval ts T)
  cases hb : Pms.Gen.TimeCorr.program.select L (Pms.Gen.TimeCorr.program.detect.eval ts T) with
  | none => rw [hb] at hsel; cases hsel
  | some b =>
    rw [hb] at hsel
    simp only [Option.map_some, Option.some.injEq, Prod.mk.injEq] at hsel
    obtain ⟨hbL, hbe⟩ := hsel
    have hmem : b ∈ Pms.Gen.TimeCorr.program.branches := List.mem_of_find?_eq_some hb
    have hok := C14_table_ok b hmem
    refine ⟨_, by unfold Program.run; rw [hb]; rfl, fun k hk => ?_⟩
    rw [C14_dispatch.2.1]
    show b.final 0 T N d1 d2 A k = _
    cases he : Pms.Gen.TimeCorr.program.detect.eval ts T with
    | true =>
      have hev : evenlyB ts T = true := (evenlyB_iff ts T).mpr ((C14_detection ts T).mp he).2
      rw [C14_linear b (hok.1 (hbe.trans he)), hev, hbL]; rfl
    | false =>
      rw [C14_log b (hok.2.1 (hbe.trans he)) T N d1 d2 A k hk, hbL]
      cases hev : evenlyB ts T with
      | false => rfl
      | true =>
        have hT1 : T = 1 := by
          by_contra hne
          have : Pms.Gen.TimeCorr.program.detect.eval ts T = true :=
            (C14_detection ts T).mpr ⟨by omega, (evenlyB_iff ts T).mp hev⟩
          rw [he] at this; cases this
        subst hT1
        have hk0 : k = 0 := by omega
        subst hk0
        exact (C14_single_frame L N d1 d2 A).symm

/-- **the value at lag zero is exactly one** whenever the lag-0 sum is not zero (when it is zero the real routine
divides 0 by 0 and returns NaN without raising; that case is excluded here and covered by the edge stream) -/
theorem C14_lag0_is_one [DecidableEq K] (ts : ℕ → K) (T L N d1 d2 : ℕ) (A : Series K) (hL : L ∈ [2, 3, 4]) (hT : 1 ≤ T)
    (h0 : lag0 (evenlyB ts T) L T N d1 d2 A ≠ 0) :
    ∃ f, Pms.Gen.TimeCorr.program.run ts T L N d1 d2 A = some f ∧ f 0 = 1 := by
  obtain ⟨f, hf, hspec⟩ := C14_refines ts T L N d1 d2 A hL hT
  refine ⟨f, hf, ?_⟩
  rw [hspec 0 (by omega)]
  unfold spec
  unfold lag0 at h0
  cases hev : evenlyB ts T with
  | true =>
    rw [hev] at h0
    simp only [if_true] at h0 ⊢
    apply div_self
    unfold specLinear
    rw [Nat.sub_zero]
    have : (T : K) ≠ 0 := by exact_mod_cast (by omega : T ≠ 0)
    exact div_ne_zero h0 this
  | false =>
    rw [hev] at h0
    simp only [Bool.false_eq_true, if_false] at h0 ⊢
    exact div_self h0

/-- the hypothesis of `C14_lag0_is_one` is satisfiable: one particle with value 1 in a single frame -/
example : lag0 (α := ℚ) false 2 1 1 1 1 (fun _ _ _ _ => ⟨1, 0⟩) ≠ 0 := by
  decide +kernel

/-- **when is the lag-0 sum zero?**  Over an ordered field (ℝ), for scalar and vector series the lag-0 sum is a sum of
squares: it is non-negative, and it vanishes exactly when every value in the contributing frames (all frames when
evenly spaced, the first frame otherwise) is zero — the only inputs on which the routine divides by zero. -/
theorem C14_lag0_zero_iff {F : Type} [Field F] [LinearOrder F] [IsStrictOrderedRing F]
    (even : Bool) (L T N d1 d2 : ℕ) (A : Series F) (hL : L ≠ 4) :
    0 ≤ lag0 even L T N d1 d2 A ∧
    (lag0 even L T N d1 d2 A = 0 ↔
      ∀ t < (if even then T else 1), ∀ i < N, ∀ a < d1, ∀ b < d2, (A t i a b).re = 0 ∧ (A t i a b).im = 0) := by
  have hterm : ∀ t i a b, 0 ≤ (A t i a b).re * (A t i a b).re + (A t i a b).im * (A t i a b).im :=
    fun t i a b => add_nonneg (mul_self_nonneg _) (mul_self_nonneg _)
  have hpair : ∀ t, pair L N d1 d2 A t t = ∑ i ∈ range N, ∑ a ∈ range d1, ∑ b ∈ range d2,
      ((A t i a b).re * (A t i a b).re + (A t i a b).im * (A t i a b).im) := by
    intro t; rw [pair_eq]; simp only [if_neg hL]
  have hnn : ∀ t, 0 ≤ pair L N d1 d2 A t t := fun t => by
    rw [hpair]; exact Finset.sum_nonneg fun i _ => Finset.sum_nonneg fun a _ => Finset.sum_nonneg fun b _ => hterm t i a b
  have hz : ∀ t, pair L N d1 d2 A t t = 0 ↔
      ∀ i < N, ∀ a < d1, ∀ b < d2, (A t i a b).re = 0 ∧ (A t i a b).im = 0 := by
    intro t
    rw [hpair, Finset.sum_eq_zero_iff_of_nonneg
      (fun i _ => Finset.sum_nonneg fun a _ => Finset.sum_nonneg fun b _ => hterm t i a b)]
    refine forall_congr' fun i => ?_
    rw [Finset.mem_range]
    refine imp_congr_right fun _ => ?_
    rw [Finset.sum_eq_zero_iff_of_nonneg (fun a _ => Finset.sum_nonneg fun b _ => hterm t i a b)]
    refine forall_congr' fun a => ?_
    rw [Finset.mem_range]
    refine imp_congr_right fun _ => ?_
    rw [Finset.sum_eq_zero_iff_of_nonneg (fun b _ => hterm t i a b)]
    refine forall_congr' fun b => ?_
    rw [Finset.mem_range]
    refine imp_congr_right fun _ => ?_
    exact mul_self_add_mul_self_eq_zero
  unfold lag0
  cases even
  · simp only [Bool.false_eq_true, if_false]
    refine ⟨hnn 0, ?_⟩
    rw [hz 0]
    constructor
    · intro h t ht; have : t = 0 := by omega
      subst this; exact h
    · intro h; exact h 0 (by omega)
  · simp only [if_true, sumRange_eq]
    refine ⟨Finset.sum_nonneg fun t _ => hnn t, ?_⟩
    rw [Finset.sum_eq_zero_iff_of_nonneg (fun t _ => hnn t)]
    refine forall_congr' fun t => ?_
    rw [Finset.mem_range]
    exact imp_congr_right fun _ => hz t

/-- for tensors the traced matrix product is not a norm: a non-zero nilpotent tensor has lag-0 sum 0 -/
example : lag0 (α := ℚ) false 4 1 1 2 2 (fun _ _ a b => if a = 0 ∧ b = 1 then ⟨1, 0⟩ else ⟨0, 0⟩) = 0 := by
  decide +kernel

/-! ## time axis -/

/-- the first column is (timestep − first timestep)·dt; it starts at 0; and for evenly spaced frames lag `k` sits at
time k·(step)·dt -/
theorem C14_time_axis (ts : ℕ → K) (dt : K) (T k : ℕ) :
    Pms.Gen.TimeCorr.timeAxis ts dt k = specTime ts dt k ∧ specTime ts dt k = (ts k - ts 0) * dt ∧
    Pms.Gen.TimeCorr.timeAxis ts dt 0 = 0 ∧
    (Evenly ts T → k < T → Pms.Gen.TimeCorr.timeAxis ts dt k = (k : K) * (ts 1 - ts 0) * dt) := by
  refine ⟨rfl, rfl, by simp [Pms.Gen.TimeCorr.timeAxis], fun hev hk => ?_⟩
  have : ∀ j, j < T → ts j = ts 0 + (j : K) * (ts 1 - ts 0) := by
    intro j
    induction j with
    | zero => intro _; simp
    | succ j ih =>
      intro hj
      have h1 := hev j hj
      have h2 := ih (by omega)
      push_cast
      linear_combination h1 + h2
  show (ts k - ts 0) * dt = _
  rw [this k hk]; ring

/-! ## complex numbers and real series -/

/-- over ℝ the pair product is Mathlib's Re Σ A_n · conj(A_m) -/
theorem C14_complex (L N d1 d2 : ℕ) (A : Series ℝ) (n m : ℕ) :
    pair L N d1 d2 A n m
      = (∑ i ∈ range N, ∑ a ∈ range d1, ∑ b ∈ range d2,
          toC (A n i a b) * (starRingEnd ℂ) (toC (if L = 4 then A m i b a else A m i a b))).re := by
  rw [pair_eq]
  simp only [Complex.re_sum]
  refine Finset.sum_congr rfl fun i _ => Finset.sum_congr rfl fun a _ => Finset.sum_congr rfl fun b _ => ?_
  simp [toC, Complex.mul_re]

/-- for a real series the product is the plain product of the values -/
theorem C14_real (L N d1 d2 : ℕ) (A : Series K) (hre : ∀ t i a b, (A t i a b).im = 0) (n m : ℕ) :
    pair L N d1 d2 A n m
      = ∑ i ∈ range N, ∑ a ∈ range d1, ∑ b ∈ range d2,
          (A n i a b).re * (if L = 4 then A m i b a else A m i a b).re := by
  rw [pair_eq]
  refine Finset.sum_congr rfl fun i _ => Finset.sum_congr rfl fun a _ => Finset.sum_congr rfl fun b _ => ?_
  rw [hre]; ring

end Pms.TimeCorr
