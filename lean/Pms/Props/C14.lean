import Pms.Gen.TimeCorr
import Pms.Lemmas.Basic

namespace Pms.TimeCorr
open Pms

theorem C14_columns : Pms.Gen.TimeCorr.columns = ["t", "time_corr"] ∧ Pms.Gen.TimeCorr.stackOrder = ["time", "results"] := by
  decide +kernel

end Pms.TimeCorr
