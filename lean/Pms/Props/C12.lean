import Pms.GenR.Pair
import Pms.Gen.PairTab
import Mathlib.Analysis.SpecialFunctions.Pow.Deriv
import Mathlib.Analysis.Calculus.Deriv.Pow
import Mathlib.Analysis.Calculus.Deriv.Inv
import Mathlib.Tactic.FieldSimp
import Mathlib.Tactic.Ring
import Mathlib.Tactic.NormNum

/-!
# C12 — pair-potential derivatives (`hessians.py::PairInteractions`)

`Pms.GenR.Pair.*` are regenerated from the source on every run; the documented potentials
below are written by hand from `docs/hessian.md`.  Every statement is an identity for all
real arguments in the stated domain.
-/
open Real
namespace Pms.C12
open Pms.GenR.Pair

noncomputable section
/-- documented Lennard-Jones potential -/
def ljS (ε σ r : ℝ) : ℝ := 4 * ε * ((σ / r) ^ 12 - (σ / r) ^ 6)
/-- documented inverse-power-law potential (real exponent) -/
def iplS (A ε σ n r : ℝ) : ℝ := A * ε * (σ / r) ^ n
/-- documented harmonic / Hertz potential -/
def hhS (ε σ α r : ℝ) : ℝ := ε / α * (1 - r / σ) ^ α
end

theorem hasDerivAt_div_id (σ r : ℝ) (hr : r ≠ 0) : HasDerivAt (fun r : ℝ => σ / r) (-σ / r ^ 2) r := by
  have := (hasDerivAt_inv hr).const_mul σ
  refine (this.congr_deriv ?_).congr_of_eventuallyEq ?_
  · field_simp
  · exact Filter.Eventually.of_forall (fun x => by simp [div_eq_mul_inv])

/-- Lennard-Jones: the returned `s1` is ds/dr for every r ≠ 0 and all ε, σ -/
theorem C12_lj_d1 (ε σ rc r : ℝ) (sh : Bool) (hr : r ≠ 0) :
    HasDerivAt (ljS ε σ) (lj_s1 r ε σ rc sh) r := by
  have h1 := hasDerivAt_div_id σ r hr
  have h := ((h1.pow 12).sub (h1.pow 6)).const_mul (4 * ε)
  refine (h.congr_deriv ?_)
  unfold lj_s1
  norm_num
  field_simp
  ring

/-- Lennard-Jones: the returned `s2` is d(s1)/dr for every r ≠ 0 -/
theorem C12_lj_d2 (ε σ rc r : ℝ) (sh : Bool) (hr : r ≠ 0) :
    HasDerivAt (fun x => lj_s1 x ε σ rc sh) (lj_s2 r ε σ rc sh) r := by
  have h1 := hasDerivAt_div_id σ r hr
  have hinv := hasDerivAt_div_id (-24 * ε) r hr
  have h := hinv.mul ((((h1.pow 6).pow 2).const_mul 2).sub (h1.pow 6))
  have hf : (fun x => lj_s1 x ε σ rc sh)
      = ((fun r => -24 * ε / r) * ((fun x => 2 * ((fun r => σ / r) ^ 6) x ^ 2) - (fun r => σ / r) ^ 6)) := by
    funext x; simp only [lj_s1, Pi.mul_apply, Pi.sub_apply, Pi.pow_apply] <;> ring
  rw [hf]
  unfold lj_s2
  refine (h.congr_deriv ?_)
  simp only [Pi.pow_apply, Pi.sub_apply]
  norm_num
  field_simp
  ring

/-- Lennard-Jones cutoff term: s'(r_c) when shifting, 0 otherwise -/
theorem C12_lj_cut_shift (ε σ rc r : ℝ) :
    lj_s1rc r ε σ rc true = lj_s1 rc ε σ rc true ∧ lj_s1rc r ε σ rc false = 0 := by
  constructor <;> simp [lj_s1rc, lj_s1]

/-- inverse power law, real exponent n: `s1` is ds/dr for r, σ > 0 and all A, ε, n -/
theorem C12_ipl_d1 (A ε σ n rc r : ℝ) (sh : Bool) (hr : 0 < r) (hσ : 0 < σ) :
    HasDerivAt (iplS A ε σ n) (ipl_s1 r ε σ rc n A sh) r := by
  have h1 := hasDerivAt_div_id σ r hr.ne'
  have hpos : 0 < σ / r := div_pos hσ hr
  have h := (h1.rpow_const (p := n) (Or.inl hpos.ne')).const_mul (A * ε)
  refine (h.congr_deriv ?_)
  unfold ipl_s1
  simp only [Real.rpow_eq_pow]
  rw [Real.rpow_sub_one hpos.ne']
  field_simp

/-- inverse power law: `s2` is d(s1)/dr -/
theorem C12_ipl_d2 (A ε σ n rc r : ℝ) (sh : Bool) (hr : 0 < r) (hσ : 0 < σ) :
    HasDerivAt (fun x => ipl_s1 x ε σ rc n A sh) (ipl_s2 r ε σ rc n A sh) r := by
  have h1 := hasDerivAt_div_id σ r hr.ne'
  have hpos : 0 < σ / r := div_pos hσ hr
  have hp := (h1.rpow_const (p := n) (Or.inl hpos.ne'))
  have hinv := hasDerivAt_div_id (-A * ε * n) r hr.ne'
  have h := hinv.mul hp
  have hf : (fun x => ipl_s1 x ε σ rc n A sh) = ((fun r => -A * ε * n / r) * fun y => (σ / y) ^ n) := by
    funext x; simp only [ipl_s1, Real.rpow_eq_pow, Pi.mul_apply] <;> ring
  rw [hf]
  unfold ipl_s2
  simp only [Real.rpow_eq_pow]
  refine (h.congr_deriv ?_)
  rw [Real.rpow_sub_one hpos.ne']
  field_simp
  ring

theorem C12_ipl_cut_shift (A ε σ n rc r : ℝ) :
    ipl_s1rc r ε σ rc n A true = ipl_s1 rc ε σ rc n A true ∧ ipl_s1rc r ε σ rc n A false = 0 := by
  constructor <;> simp [ipl_s1rc, ipl_s1]

theorem hasDerivAt_one_sub_div (σ r : ℝ) : HasDerivAt (fun r : ℝ => 1 - r / σ) (-(1 / σ)) r := by
  have := ((hasDerivAt_id r).div_const σ).const_sub 1
  simpa using this

/-- harmonic / Hertz, real exponent α ≠ 0: `s1` is ds/dr for 0 < r < σ -/
theorem C12_hh_d1 (ε σ α rc r : ℝ) (sh : Bool) (hσ : 0 < σ) (hr : r < σ) (hα : α ≠ 0) :
    HasDerivAt (hhS ε σ α) (hh_s1 r ε σ rc α sh) r := by
  have hpos : 0 < 1 - r / σ := by
    have : r / σ < 1 := (div_lt_one hσ).mpr hr
    linarith
  have h := ((hasDerivAt_one_sub_div σ r).rpow_const (p := α) (Or.inl hpos.ne')).const_mul (ε / α)
  refine (h.congr_deriv ?_)
  unfold hh_s1
  simp only [Real.rpow_eq_pow]
  field_simp

/-- harmonic / Hertz: `s2` is d(s1)/dr for 0 < r < σ -/
theorem C12_hh_d2 (ε σ α rc r : ℝ) (sh : Bool) (hσ : 0 < σ) (hr : r < σ) :
    HasDerivAt (fun x => hh_s1 x ε σ rc α sh) (hh_s2 r ε σ rc α sh) r := by
  have hpos : 0 < 1 - r / σ := by
    have : r / σ < 1 := (div_lt_one hσ).mpr hr
    linarith
  have h := ((hasDerivAt_one_sub_div σ r).rpow_const (p := α - 1) (Or.inl hpos.ne')).const_mul (-ε / σ)
  unfold hh_s1 hh_s2
  simp only [Real.rpow_eq_pow]
  refine (h.congr_deriv ?_)
  have e : α - 1 - 1 = α - 2 := by ring
  rw [e]
  field_simp

/-- harmonic / Hertz cutoff term is the documented 0, which is s'(σ) for α > 1 (cutoff at contact) -/
theorem C12_hh_cut_shift (ε σ α rc r : ℝ) (sh : Bool) (hσ : σ ≠ 0) (hα : 1 < α) :
    hh_s1rc r ε σ rc α sh = 0 ∧ hh_s1 σ ε σ rc α sh = 0 := by
  constructor
  · simp [hh_s1rc]
  · unfold hh_s1
    simp only [Real.rpow_eq_pow]
    rw [div_self hσ, sub_self, Real.zero_rpow (by linarith : α - 1 ≠ 0)]
    ring

/-- harmonic / Hertz with an integer exponent α = m+2 (harmonic m = 0, …): the derivative identities hold
for EVERY distance, also beyond contact (r ≥ σ), where the real power with a negative base is the integer power -/
theorem C12_hh_d1_int (m : ℕ) (ε σ rc r : ℝ) (sh : Bool) :
    HasDerivAt (fun r => ε / ((m + 2 : ℕ) : ℝ) * (1 - r / σ) ^ (m + 2))
      (hh_s1 r ε σ rc ((m + 2 : ℕ) : ℝ) sh) r := by
  have h := ((hasDerivAt_one_sub_div σ r).pow (m + 2)).const_mul (ε / ((m + 2 : ℕ) : ℝ))
  refine (h.congr_deriv ?_)
  unfold hh_s1
  simp only [Real.rpow_eq_pow]
  have e : ((m + 2 : ℕ) : ℝ) - 1 = ((m + 1 : ℕ) : ℝ) := by push_cast; ring
  rw [e, Real.rpow_natCast]
  have hm : ((m + 2 : ℕ) : ℝ) ≠ 0 := by positivity
  have e2 : m + 2 - 1 = m + 1 := rfl
  rw [e2]
  field_simp

theorem C12_hh_d2_int (m : ℕ) (ε σ rc r : ℝ) (sh : Bool) :
    HasDerivAt (fun x => hh_s1 x ε σ rc ((m + 2 : ℕ) : ℝ) sh)
      (hh_s2 r ε σ rc ((m + 2 : ℕ) : ℝ) sh) r := by
  have e1 : ((m + 2 : ℕ) : ℝ) - 1 = ((m + 1 : ℕ) : ℝ) := by push_cast; ring
  have e2 : ((m + 2 : ℕ) : ℝ) - 2 = ((m : ℕ) : ℝ) := by push_cast; ring
  have h := ((hasDerivAt_one_sub_div σ r).pow (m + 1)).const_mul (-ε / σ)
  unfold hh_s1 hh_s2
  simp only [Real.rpow_eq_pow]
  rw [e1, e2]
  simp only [Real.rpow_natCast]
  refine (h.congr_deriv ?_)
  have e3 : m + 1 - 1 = m := rfl
  rw [e3]
  push_cast
  by_cases hσ : σ = 0
  · subst hσ; simp
  · field_simp

/-- the selector dispatches every model to its own method with its own parameters, and every
method returns `[s1, s1rc, s2]` in that order (regenerated table, decided) -/
theorem C12_caller :
    Pms.Gen.PairTab.models = ["lennard_jones", "inverse_power_law", "harmonic_hertz"] ∧
    Pms.Gen.PairTab.caller =
      [("lennard_jones", "lennard_jones", []),
       ("inverse_power_law", "inverse_power_law", [("n", "ipl_n"), ("A", "ipl_A")]),
       ("default", "harmonic_hertz", [("alpha", "harmonic_hertz_alpha")])] ∧
    Pms.Gen.PairTab.lj_returns = ["s1", "s1rc", "s2"] ∧
    Pms.Gen.PairTab.ipl_returns = ["s1", "s1rc", "s2"] ∧
    Pms.Gen.PairTab.hh_returns = ["s1", "s1rc", "s2"] := by
  decide

/-- non-vacuity of the hypotheses -/
example : (1.2 : ℝ) ≠ 0 ∧ (0 : ℝ) < 1.2 ∧ (0.7 : ℝ) < 1 := by norm_num

end Pms.C12
