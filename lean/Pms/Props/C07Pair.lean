import Pms.Props.C07
import Pms.Props.C07Rot
import Pms.Lemmas.SymRot
import Pms.Model.Neigh
import Pms.Model.LocalOrder
import Pms.Model.Hess
import Pms.Model.Boo2d
import Pms.Model.Vec
import Pms.Model.Dyn
import Mathlib.LinearAlgebra.Matrix.Charpoly.Basic
import Mathlib.Data.List.Pairwise
import Mathlib.Data.List.Nodup

/-!
# C07 — neighbour lists, per-particle order parameters, Hessian, relaxation functions

All of these routines read the positions only through minimum-image pair vectors `remove_pbc(r_j − r_i)` (mechanism 1
of the property) or through same-particle displacements between frames (dynamics).  The theorems transfer the
pair-geometry symmetries of `Pms/Props/C07.lean` to the `Spec`s of C05 (neighbour lists), C17 (S2, tetrahedral order),
C11 (Hessian), C06 (relaxation functions), and show how per-particle outputs permute under relabelling.
-/
open Finset
namespace Pms.Sym
open Pms Pms.Pbc

variable {K : Type} [Field K] [LinearOrder K] [IsStrictOrderedRing K]

/-! ## every model reads the same pair vector -/

/-- **Translation, all pair-vector routines.**  The pair vectors used by the models of the neighbour lists (C05), of S2 and
the tetrahedral order (C17), of the Hessian (C11), of ψ_l and its spatial correlation (C10) and of divergence/curl (C15)
are unchanged by a rigid translation; so is everything those models compute from them (their Specs take the pair vectors /
distances as their only geometric input). -/
theorem C07_translation_models (d : ℕ) (rint : K → ℤ) (H Hinv : ℕ → ℕ → K) (ppp : ℕ → K) (pos : ℕ → ℕ → K) (c : ℕ → K) :
    (∀ i j, Neigh.dist2 d rint H Hinv ppp (translate pos c) i j = Neigh.dist2 d rint H Hinv ppp pos i j) ∧
    (∀ i j, LocalOrder.disp d rint H Hinv ppp (translate pos c) i j = LocalOrder.disp d rint H Hinv ppp pos i j) ∧
    Hess.dispOf d rint H Hinv ppp (translate pos c) = Hess.dispOf d rint H Hinv ppp pos ∧
    (∀ nl i, Boo2d.bonds rint H Hinv ppp (translate pos c) nl i = Boo2d.bonds rint H Hinv ppp pos nl i) ∧
    (∀ i j, Boo2d.pairVec rint H Hinv ppp (translate pos c) i j = Boo2d.pairVec rint H Hinv ppp pos i j) ∧
    (∀ i n, Vec.rij d rint H Hinv ppp (translate pos c) i n = Vec.rij d rint H Hinv ppp pos i n) := by
  refine ⟨fun i j => ?_, fun i j => ?_, ?_, fun nl i => ?_, fun i j => ?_, fun i n => ?_⟩
  · simp only [Neigh.dist2]; rw [translate_diff]
  · simp only [LocalOrder.disp]; rw [translate_diff]
  · funext i j; simp only [Hess.dispOf]; rw [translate_diff]
  · funext m; simp only [Boo2d.bonds]; rw [translate_diff]
  · simp only [Boo2d.pairVec]; rw [translate_diff]
  · simp only [Vec.rij]; rw [translate_diff]

/-- **Image, all pair-vector routines** (from `C07_image_disp`, away from half-cell ties). -/
theorem C07_image_models (d : ℕ) (rint : K → ℤ) (hr : IsRintHE rint) (H Hinv : ℕ → ℕ → K) (ppp : ℕ → K)
    (pos : ℕ → ℕ → K) (m : ℕ → ℕ → ℤ) (hinv : IsInv d H Hinv) (hp : ∀ a < d, ppp a = 0 ∨ ppp a = 1)
    (hnt : ∀ i j, ∀ a < d, NoTie (frac d Hinv (fun k => pos j k - pos i k) a)) :
    (∀ i j, Neigh.dist2 d rint H Hinv ppp (latticeShift d H ppp m pos) i j = Neigh.dist2 d rint H Hinv ppp pos i j) ∧
    (∀ i j, LocalOrder.disp d rint H Hinv ppp (latticeShift d H ppp m pos) i j = LocalOrder.disp d rint H Hinv ppp pos i j) ∧
    Hess.dispOf d rint H Hinv ppp (latticeShift d H ppp m pos) = Hess.dispOf d rint H Hinv ppp pos ∧
    (∀ i n, Vec.rij d rint H Hinv ppp (latticeShift d H ppp m pos) i n = Vec.rij d rint H Hinv ppp pos i n) := by
  refine ⟨fun i j => ?_, fun i j => ?_, ?_, fun i n => ?_⟩
  · simp only [Neigh.dist2]; rw [C07_image_disp d rint hr H Hinv ppp pos m hinv hp i j (hnt i j)]
  · simp only [LocalOrder.disp]; rw [C07_image_disp d rint hr H Hinv ppp pos m hinv hp i j (hnt i j)]
  · funext i j; simp only [Hess.dispOf]; rw [C07_image_disp d rint hr H Hinv ppp pos m hinv hp j i (hnt j i)]
  · simp only [Vec.rij]; rw [C07_image_disp d rint hr H Hinv ppp pos m hinv hp i n (hnt i n)]

/-! ## neighbour lists (C05 Specs) -/

/-- **Translation and image, neighbour sets.**  The distance keys of every centre are unchanged, so a list is the
N-nearest list (resp. the cutoff list) of the transformed configuration iff it is that of the original one — the same
ids in the same order. -/
theorem C07_translation_neigh (d : ℕ) (rint : K → ℤ) (H Hinv : ℕ → ℕ → K) (ppp : ℕ → K) (pos : ℕ → ℕ → K) (c : ℕ → K)
    (n i N : ℕ) (L : List ℕ) (within : ℕ → Prop) :
    (Neigh.Spec.IsNNearest (Neigh.dist2 d rint H Hinv ppp (translate pos c) i) n i N L ↔
      Neigh.Spec.IsNNearest (Neigh.dist2 d rint H Hinv ppp pos i) n i N L) ∧
    (Neigh.Spec.IsCutoffList (Neigh.dist2 d rint H Hinv ppp (translate pos c) i) within n i L ↔
      Neigh.Spec.IsCutoffList (Neigh.dist2 d rint H Hinv ppp pos i) within n i L) := by
  have h : Neigh.dist2 d rint H Hinv ppp (translate pos c) i = Neigh.dist2 d rint H Hinv ppp pos i :=
    funext fun j => (C07_translation_models d rint H Hinv ppp pos c).1 i j
  rw [h]; exact ⟨Iff.rfl, Iff.rfl⟩

theorem C07_image_neigh (d : ℕ) (rint : K → ℤ) (hr : IsRintHE rint) (H Hinv : ℕ → ℕ → K) (ppp : ℕ → K)
    (pos : ℕ → ℕ → K) (m : ℕ → ℕ → ℤ) (hinv : IsInv d H Hinv) (hp : ∀ a < d, ppp a = 0 ∨ ppp a = 1)
    (hnt : ∀ i j, ∀ a < d, NoTie (frac d Hinv (fun k => pos j k - pos i k) a))
    (n i N : ℕ) (L : List ℕ) (within : ℕ → Prop) :
    (Neigh.Spec.IsNNearest (Neigh.dist2 d rint H Hinv ppp (latticeShift d H ppp m pos) i) n i N L ↔
      Neigh.Spec.IsNNearest (Neigh.dist2 d rint H Hinv ppp pos i) n i N L) ∧
    (Neigh.Spec.IsCutoffList (Neigh.dist2 d rint H Hinv ppp (latticeShift d H ppp m pos) i) within n i L ↔
      Neigh.Spec.IsCutoffList (Neigh.dist2 d rint H Hinv ppp pos i) within n i L) := by
  have h : Neigh.dist2 d rint H Hinv ppp (latticeShift d H ppp m pos) i = Neigh.dist2 d rint H Hinv ppp pos i :=
    funext fun j => (C07_image_models d rint hr H Hinv ppp pos m hinv hp hnt).1 i j
  rw [h]; exact ⟨Iff.rfl, Iff.rfl⟩

/-- **Axis permutation and rotation, distances.**  The squared minimum-image distance is unchanged when the axes are
permuted together with the cell, and — for an open cluster (`ppp = 0`) — when the cluster is rotated by an orthogonal
map; hence (as above) so are the neighbour lists. -/
theorem C07_axes_rot_dist2 (d : ℕ) (rint : K → ℤ) (H Hinv : ℕ → ℕ → K) (ppp : ℕ → K) (pos : ℕ → ℕ → K) (i j : ℕ) :
    (∀ π : Equiv.Perm ℕ, PermBelow d π →
      Neigh.dist2 d rint (permMat π H) (permMat π Hinv) (permVec π ppp) (permAxes π pos) i j
        = Neigh.dist2 d rint H Hinv ppp pos i j) ∧
    (∀ Rot : ℕ → ℕ → K, IsOrtho d Rot → IsInv d Hinv H → (∀ a < d, ppp a = 0) →
      Neigh.dist2 d rint H Hinv ppp (rotate d Rot pos) i j = Neigh.dist2 d rint H Hinv ppp pos i j) := by
  constructor
  · intro π hπ
    simp only [Neigh.dist2, sumRange_eq]
    rw [← sum_perm d π hπ (fun k => removePbc d rint H Hinv ppp (fun k => pos j k - pos i k) k *
      removePbc d rint H Hinv ppp (fun k => pos j k - pos i k) k)]
    refine Finset.sum_congr rfl fun k _ => ?_
    rw [← removePbc_perm d rint π hπ]
    rfl
  · intro Rot hR hinv hp
    have h := dot_matVec d Rot hR (removePbc d rint H Hinv ppp (fun x => pos j x - pos i x))
      (removePbc d rint H Hinv ppp (fun x => pos j x - pos i x))
    simp only [Neigh.dist2]
    rw [show (sumRange d fun k => removePbc d rint H Hinv ppp (fun x => pos j x - pos i x) k *
        removePbc d rint H Hinv ppp (fun x => pos j x - pos i x) k) = dot d _ _ from rfl, ← h]
    simp only [dot, sumRange_eq]
    refine Finset.sum_congr rfl fun k hk => ?_
    have hk' := Finset.mem_range.mp hk
    rw [C07_rot_open_disp d rint H Hinv ppp pos Rot hinv hp i j k hk']

/-- **Relabelling, neighbour lists.**  If the particle stored at row `i` is the old particle `σ i`, the N-nearest list of
row `i` maps under σ onto the N-nearest list of the old particle `σ i` (the same particles under their new names, in the
same order): per-particle outputs permute, neighbour ids are renamed consistently. -/
theorem C07_relabel_neigh (key : ℕ → K) (σ : Equiv.Perm ℕ) (n i N : ℕ) (hσ : PermBelow n σ) (L : List ℕ)
    (h : Neigh.Spec.IsNNearest (relabel σ key) n i N L) :
    Neigh.Spec.IsNNearest key n (σ i) N (L.map σ) := by
  refine ⟨by rw [List.length_map]; exact h.length, h.nodup.map σ.injective, ?_, ?_, ?_⟩
  · intro j' hj'
    obtain ⟨j, hj, rfl⟩ := List.mem_map.mp hj'
    exact ⟨(hσ j).mpr (h.mem j hj).1, fun e => (h.mem j hj).2 (σ.injective e)⟩
  · rw [List.pairwise_map]; exact h.sorted
  · intro j' hj' hne hnot m' hm'
    obtain ⟨m, hm, rfl⟩ := List.mem_map.mp hm'
    have hj : σ.symm j' < n := (hσ.symm j').mpr hj'
    have hne' : σ.symm j' ≠ i := fun e => hne (by rw [← e]; simp)
    have hnot' : σ.symm j' ∉ L := fun e => hnot (List.mem_map.mpr ⟨σ.symm j', e, by simp⟩)
    have := h.closest (σ.symm j') hj hne' hnot' m hm
    simpa [relabel] using this

/-! ## per-particle order parameters (C17 Specs) permute under relabelling -/

/-- **Relabelling, S2.**  With distances and types listed in the new order (`dist ∘ σ`, `typ ∘ σ`) the pair entropy of
row `i` is the pair entropy of the old particle `σ i`: the per-particle output permutes, its values do not change. -/
theorem C07_relabel_s2 (exp log sqrt : K → K) (pi : K) (d N i ndelta : ℕ) (rdelta rho : K) (dist : ℕ → K) (typ : ℕ → ℕ)
    (sig : ℕ → ℕ → K) (σ : Equiv.Perm ℕ) (hσ : PermBelow N σ) :
    LocalOrder.s2Spec exp log sqrt pi d N i ndelta rdelta rho (relabel σ dist) (relabel σ typ) sig
      = LocalOrder.s2Spec exp log sqrt pi d N (σ i) ndelta rdelta rho dist typ sig := by
  have hg : LocalOrder.gSpec exp sqrt pi d N i ndelta rdelta rho (relabel σ dist) (relabel σ typ) sig
      = LocalOrder.gSpec exp sqrt pi d N (σ i) ndelta rdelta rho dist typ sig := by
    funext k
    simp only [LocalOrder.gSpec, sumRange_eq, relabel]
    congr 1
    rw [← sum_perm N σ hσ (fun j => if j ≠ σ i ∧ dist j < LocalOrder.rmax rdelta ndelta then
      LocalOrder.gauss exp sqrt pi (LocalOrder.bin rdelta k - dist j) (sig (typ (σ i)) (typ j)) else 0)]
    refine Finset.sum_congr rfl fun j _ => ?_
    have : (j ≠ i) ↔ (σ j ≠ σ i) := by simp
    simp only [this]
  unfold LocalOrder.s2Spec
  rw [hg]

/-- **Relabelling, tetrahedral order.**  The pair sum over a neighbour set named by the new ids equals the pair sum over
the same particles under their old ids. -/
theorem C07_relabel_tetra (cos : ℕ → ℕ → K) (σ : ℕ → ℕ) (nbs : List ℕ) :
    LocalOrder.tetraSpec (fun a b => cos (σ a) (σ b)) nbs = LocalOrder.tetraSpec cos (nbs.map σ) := by
  have hfold : ∀ (g : ℕ → K) (t : List ℕ),
      List.foldr (fun b acc => g (σ b) + acc) 0 t = List.foldr (fun b acc => g b + acc) 0 (List.map σ t) := by
    intro g t
    induction t with
    | nil => rfl
    | cons b t' ih' => simp only [List.foldr_cons, List.map_cons, ih']
  have hps : ∀ (f : ℕ → ℕ → K) (l : List ℕ),
      LocalOrder.pairSumList (fun a b => f (σ a) (σ b)) l = LocalOrder.pairSumList f (l.map σ) := by
    intro f l
    induction l with
    | nil => rfl
    | cons a t ih =>
      simp only [LocalOrder.pairSumList, List.map_cons, ih]
      rw [hfold (fun b => f (σ a) b) t]
  unfold LocalOrder.tetraSpec
  rw [← hps (fun a b => (cos a b + 1 / ((3 : ℕ) : K)) * (cos a b + 1 / ((3 : ℕ) : K))) nbs]

/-! ## Hessian (C11 Spec) -/

/-- **Translation and image, Hessian.**  The whole assembled matrix — hence its spectrum and eigenvectors — is unchanged
(the routine reads the positions only through `dispOf`). -/
theorem C07_translation_hess (P : Hess.Prims K) (S : Hess.Sys K) (rint : K → ℤ) (H Hinv : ℕ → ℕ → K) (ppp : ℕ → K)
    (pos : ℕ → ℕ → K) (c : ℕ → K) :
    Hess.hessian P { S with disp := Hess.dispOf S.d rint H Hinv ppp (translate pos c) }
      = Hess.hessian P { S with disp := Hess.dispOf S.d rint H Hinv ppp pos } := by
  rw [(C07_translation_models S.d rint H Hinv ppp pos c).2.2.1]

/-- the restriction of a permutation of `ℕ` preserving `range n` to `Fin n` -/
def permFin (n : ℕ) (σ : Equiv.Perm ℕ) (hσ : PermBelow n σ) : Equiv.Perm (Fin n) where
  toFun i := ⟨σ i, (hσ i).mpr i.isLt⟩
  invFun i := ⟨σ.symm i, (hσ.symm i).mpr i.isLt⟩
  left_inv i := by ext; simp
  right_inv i := by ext; simp

/-- **Relabelling, Hessian spectrum.**  For the mass-weighted Hessian of the property statement (`specD`), relabelling the
particles (masses, cutoff relation and pair blocks renamed consistently) conjugates the dN×dN matrix by a permutation
matrix: entry ((i,a),(j,b)) of the new matrix is entry ((σ i,a),(σ j,b)) of the old one, so the characteristic
polynomial — hence the spectrum — is unchanged. -/
theorem C07_relabel_hess (sqrt : K → K) (n d : ℕ) (m : ℕ → K) (cut : ℕ → ℕ → Bool) (B : ℕ → ℕ → ℕ → ℕ → K)
    (σ : Equiv.Perm ℕ) (hσ : PermBelow n σ) :
    (∀ i a j b, Hess.specD sqrt n (relabel σ m) (fun i j => cut (σ i) (σ j)) (fun i j => B (σ i) (σ j)) i a j b
        = Hess.specD sqrt n m cut B (σ i) a (σ j) b) ∧
    (Matrix.of fun (p q : Fin n × Fin d) =>
        Hess.specD sqrt n (relabel σ m) (fun i j => cut (σ i) (σ j)) (fun i j => B (σ i) (σ j)) p.1 p.2 q.1 q.2).charpoly
      = (Matrix.of fun (p q : Fin n × Fin d) => Hess.specD sqrt n m cut B p.1 p.2 q.1 q.2).charpoly := by
  have hent : ∀ i a j b, Hess.specD sqrt n (relabel σ m) (fun i j => cut (σ i) (σ j)) (fun i j => B (σ i) (σ j)) i a j b
      = Hess.specD sqrt n m cut B (σ i) a (σ j) b := by
    intro i a j b
    simp only [Hess.specD, Hess.specH, relabel, sumRange_eq]
    congr 1
    have hij : (i = j) ↔ (σ i = σ j) := by simp
    by_cases h : i = j
    · rw [if_pos h, if_pos (hij.mp h)]
      rw [← sum_perm n σ hσ (fun k => if k ≠ σ i ∧ cut (σ i) k = true then B (σ i) k a b else 0)]
      refine Finset.sum_congr rfl fun k _ => ?_
      have : (k ≠ i) ↔ (σ k ≠ σ i) := by simp
      simp only [this]
    · rw [if_neg h, if_neg (fun e => h (hij.mpr e))]
  refine ⟨hent, ?_⟩
  let e : Fin n × Fin d ≃ Fin n × Fin d := ((permFin n σ hσ).prodCongr (Equiv.refl (Fin d))).symm
  have : (Matrix.of fun (p q : Fin n × Fin d) =>
        Hess.specD sqrt n (relabel σ m) (fun i j => cut (σ i) (σ j)) (fun i j => B (σ i) (σ j)) p.1 p.2 q.1 q.2)
      = Matrix.reindex e e (Matrix.of fun (p q : Fin n × Fin d) => Hess.specD sqrt n m cut B p.1 p.2 q.1 q.2) := by
    ext p q
    simp only [Matrix.of_apply, Matrix.reindex_apply, Matrix.submatrix_apply, hent]
    rfl
  rw [this, Matrix.charpoly_reindex]

/-! ## relaxation functions (C06 Spec) -/

/-- the dynamics trajectory with every frame translated by the same vector -/
def translateDyn (X : Dyn.Traj K) (c : ℕ → K) : Dyn.Traj K :=
  { X with pos := fun f => translate (X.pos f) c }

/-- **Translation, relaxation functions.**  Displacements `r_i(t) − r_i(0)` of the same particle are unchanged by a rigid
translation of all frames, so every row (t, F_s, Q, χ4, MSD, α2) of C06's `Spec` — linear and log sampling — is
unchanged. -/
theorem C07_translation_dyn (rint : K → ℤ) (cos : K → K) (X : Dyn.Traj K) (c : ℕ → K) (M interval : K) (k : ℕ) :
    Dyn.Spec.row rint cos (translateDyn X c) M interval k = Dyn.Spec.row rint cos X M interval k ∧
    Dyn.Spec.logRow rint cos (translateDyn X c) k = Dyn.Spec.logRow rint cos X k := by
  have hd : ∀ p, Dyn.dispTab rint (translateDyn X c) p = Dyn.dispTab rint X p := by
    intro p
    have h1 : Dyn.pbcDisp rint (translateDyn X c) p = Dyn.pbcDisp rint X p := by
      funext i
      simp only [Dyn.pbcDisp, translateDyn, translate, add_sub_add_right_eq_sub]
    unfold Dyn.dispTab
    rw [h1]
    rfl
  have e1 : Dyn.Spec.isf rint cos (translateDyn X c) = Dyn.Spec.isf rint cos X := by
    funext o e; unfold Dyn.Spec.isf; rw [hd]; rfl
  have e2 : Dyn.Spec.q rint (translateDyn X c) = Dyn.Spec.q rint X := by
    funext o e; unfold Dyn.Spec.q; rw [hd]; rfl
  have e3 : Dyn.Spec.r2 rint (translateDyn X c) = Dyn.Spec.r2 rint X := by
    funext o e; unfold Dyn.Spec.r2; rw [hd]; rfl
  have e4 : Dyn.Spec.r4 rint (translateDyn X c) = Dyn.Spec.r4 rint X := by
    funext o e; unfold Dyn.Spec.r4; rw [hd]; rfl
  constructor
  · unfold Dyn.Spec.row
    rw [e1, e2, e3, e4]
    rfl
  · unfold Dyn.Spec.logRow
    rw [e1, e2, e3, e4]
    rfl

end Pms.Sym
