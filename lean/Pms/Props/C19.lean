import Pms.Lemmas.AuxIo

/-!
# C19 — header writer, auxiliary readers and the dump reader agree on the same data

Property theorems only.  `K` is any ordered field (ℝ — the meaning of the float code — and ℚ, the driver's instance).
`pr : K → Tok K` is ANY rendering of numbers as tokens that `float()` reads back; `rnd d x` is `x` as `f"{x:.<d>f}"`
prints it.  `Gen.Writer.dumpHeader / dataHeader` are REGENERATED from `lammps_writer.py`; `Lammps.Impl.readFrame/readAll`
is C01's model of `read_lammps(_wrapper)`; `Impl.*` of this property are tied to the source by the correspondence.
-/
set_option linter.unusedSectionVars false
set_option linter.unusedSimpArgs false
set_option linter.unusedVariables false
namespace Pms.AuxIo
open Pms Pms.Lammps

variable {K : Type} [Field K] [LinearOrder K] [IsStrictOrderedRing K]

/-! ## writer → dump reader -/

/-- **Header round trip.**  The header written by `write_dump_header(timestep, N, boxbounds, addson)` (2-D or 3-D box,
any timestep, any bounds, any extra column names other than x/xs/xu) followed by `N` atom lines (ids a permutation of
1..N, any order, any extra columns) and then anything is read by ONE `read_lammps` call as the frame the header
describes; what follows is left for the next call.  In 2-D the dummy z-bounds line is consumed. -/
theorem C19_header_roundtrip (pr : K → Tok K) (hpr : ∀ x, Impl.toFloat (pr x) = .ok x) (rnd : ℕ → K → K)
    (nd : ℕ) (hnd : nd = 2 ∨ nd = 3) (d : HeaderData K) (atoms : List (AtomSpec K))
    (hbb : d.nbb = nd) (hN : d.nparticle = (atoms.length : ℤ))
    (hids : (atoms.map (·.id)).Perm ((List.range atoms.length).map fun (k : ℕ) => (k : ℤ) + 1))
    (hadd : "x" ∉ d.addson ∧ "xs" ∉ d.addson ∧ "xu" ∉ d.addson) (rest : Lines K) :
    Lammps.Impl.readFrame nd (render pr rnd Gen.Writer.dumpHeader d ++ atoms.map (Lammps.Spec.atomLine pr nd) ++ rest)
      = .ok (some (Lammps.Spec.expected nd (Spec.writtenFrame nd rnd d atoms), rest)) := by
  rw [render_dump_eq pr rnd nd hnd d atoms hbb hN]
  exact readFrame_emitFrame pr hpr _ (writtenFrame_wf rnd nd d atoms hids hadd) rest nd hnd

/-- what comes back: the same timestep, the same particle count, the bounds as printed (6 decimals), their differences
as box lengths, no real bounds -/
theorem C19_header_fields (rnd : ℕ → K → K) (nd : ℕ) (hnd : nd = 2 ∨ nd = 3) (d : HeaderData K)
    (atoms : List (AtomSpec K)) :
    (Lammps.Spec.expected nd (Spec.writtenFrame nd rnd d atoms)).timestep = d.timestep ∧
    (Lammps.Spec.expected nd (Spec.writtenFrame nd rnd d atoms)).nparticle = atoms.length ∧
    (Lammps.Spec.expected nd (Spec.writtenFrame nd rnd d atoms)).boxbounds
      = (List.range nd).map (fun i => [rnd 6 (d.bb i 0), rnd 6 (d.bb i 1)]) ∧
    (Lammps.Spec.expected nd (Spec.writtenFrame nd rnd d atoms)).boxlength
      = (List.range nd).map (fun i => rnd 6 (d.bb i 1) - rnd 6 (d.bb i 0)) ∧
    (Lammps.Spec.expected nd (Spec.writtenFrame nd rnd d atoms)).realbounds = none := by
  rcases hnd with rfl | rfl <;>
    simp [Lammps.Spec.expected, Spec.writtenFrame, Lammps.Spec.bndLo, Lammps.Spec.bndHi, range2, range3]

/-- bounds agree to the written decimals: if printing with 6 decimals moves a number by at most 5·10⁻⁷, every bound
read back is within 5·10⁻⁷ of the bound handed to the writer -/
theorem C19_header_bounds_close (rnd : ℕ → K → K) (hr : ∀ x, |rnd 6 x - x| ≤ 1 / (2 * 10 ^ 6))
    (nd : ℕ) (hnd : nd = 2 ∨ nd = 3) (d : HeaderData K) (atoms : List (AtomSpec K)) (i : ℕ) (hi : i < nd) :
    ∃ lo hi, (Lammps.Spec.expected nd (Spec.writtenFrame nd rnd d atoms)).boxbounds[i]? = some [lo, hi] ∧
      |lo - d.bb i 0| ≤ 1 / (2 * 10 ^ 6) ∧ |hi - d.bb i 1| ≤ 1 / (2 * 10 ^ 6) := by
  refine ⟨rnd 6 (d.bb i 0), rnd 6 (d.bb i 1), ?_, hr _, hr _⟩
  rw [(C19_header_fields rnd nd hnd d atoms).2.2.1]
  simp [hi]

/-- a whole trajectory written frame by frame (header + atom lines) is read back by `read_lammps_wrapper` as one
snapshot per frame, in order -/
theorem C19_header_roundtrip_all (pr : K → Tok K) (hpr : ∀ x, Impl.toFloat (pr x) = .ok x) (rnd : ℕ → K → K)
    (nd : ℕ) (hnd : nd = 2 ∨ nd = 3) (frames : List (HeaderData K × List (AtomSpec K)))
    (hok : ∀ p ∈ frames, p.1.nbb = nd ∧ p.1.nparticle = (p.2.length : ℤ) ∧
      (p.2.map (·.id)).Perm ((List.range p.2.length).map fun (k : ℕ) => (k : ℤ) + 1) ∧
      ("x" ∉ p.1.addson ∧ "xs" ∉ p.1.addson ∧ "xu" ∉ p.1.addson)) :
    Lammps.Impl.readAll nd
        (frames.flatMap fun p => render pr rnd Gen.Writer.dumpHeader p.1 ++ p.2.map (Lammps.Spec.atomLine pr nd))
      = .ok (frames.map fun p => Lammps.Spec.expected nd (Spec.writtenFrame nd rnd p.1 p.2)) := by
  have h1 : (frames.flatMap fun p => render pr rnd Gen.Writer.dumpHeader p.1 ++ p.2.map (Lammps.Spec.atomLine pr nd))
      = Lammps.Spec.emit pr nd (frames.map fun p => Spec.writtenFrame nd rnd p.1 p.2) := by
    unfold Lammps.Spec.emit
    rw [List.flatMap_map]
    apply flatMap_congr_mem
    intro p hp
    obtain ⟨a, b, _, _⟩ := hok p hp
    rw [render_dump_eq pr rnd nd hnd p.1 p.2 a b]
    rfl
  rw [h1]
  have := readAllFuel_emit pr hpr nd hnd (frames.map fun p => Spec.writtenFrame nd rnd p.1 p.2) (by
    intro f hf
    obtain ⟨p, hp, rfl⟩ := List.mem_map.mp hf
    obtain ⟨_, _, c, e⟩ := hok p hp
    exact writtenFrame_wf rnd nd p.1 p.2 c e) _ (Nat.lt_succ_self _)
  rw [List.map_map] at this
  exact this

/-- the data-file header is the LAMMPS data layout: title, blank, `N atoms`, `T atom types`, blank, the bounds lines
`lo hi xlo xhi` …, for a 2-D box the dummy `-0.5 0.5 zlo zhi`, blank, `Atoms #atomic`, blank -/
theorem C19_data_header_layout (pr : K → Tok K) (rnd : ℕ → K → K) (d : HeaderData K) :
    render pr rnd Gen.Writer.dataHeader d = Spec.dataHeader pr rnd d :=
  render_data_eq pr rnd d

/-! ## the molecule-centre reader -/

/-- **Centre reader.**  For every trajectory of orthogonal frames (any number of frames, style x / xs / xu, atom lines in
any order, any extra columns, 2-D or 3-D) and EVERY type map, `read_lammps_centertype_wrapper` returns one snapshot per
frame, each equal to `Spec.center`: exactly the atoms whose type is a key of the map, relabelled by its values, in
increasing id order, with their Cartesian positions (wrapped for x, `lo + s·L` for xs, verbatim for xu). -/
theorem C19_centertype (pr : K → Tok K) (hpr : ∀ x, Impl.toFloat (pr x) = .ok x) (mol : ℤ → Option ℤ)
    (nd : ℕ) (hnd : nd = 2 ∨ nd = 3) (fs : List (FrameSpec K))
    (hwf : ∀ f ∈ fs, Lammps.Spec.WF f ∧ f.tric = false) :
    Impl.readCenterAll nd mol (Lammps.Spec.emit pr nd fs) = .ok (fs.map (Spec.center nd mol)) :=
  loopFuel_emit pr nd _ _ (fun f => Lammps.Spec.WF f ∧ f.tric = false)
    (fun f rest h => readCenter_emitFrame pr hpr f h.1 rest mol nd hnd h.2) rfl fs hwf _ (Nat.lt_succ_self _)

/-- one call consumes exactly its frame -/
theorem C19_centertype_frame (pr : K → Tok K) (hpr : ∀ x, Impl.toFloat (pr x) = .ok x) (mol : ℤ → Option ℤ)
    (nd : ℕ) (hnd : nd = 2 ∨ nd = 3) (f : FrameSpec K) (hwf : Lammps.Spec.WF f) (htr : f.tric = false) (rest : Lines K) :
    Impl.readCenter nd mol (Lammps.Spec.emitFrame pr nd f ++ rest) = .ok (some (Spec.center nd mol f, rest)) :=
  readCenter_emitFrame pr hpr f hwf rest mol nd hnd htr

/-- what `Spec.center` selects: the kept ids are strictly increasing, an id is kept iff it is an id of the frame whose
atom has a type that is a key of the map, and entry `j` of the result carries the mapped type and the Cartesian position
of the atom line with the `j`-th kept id -/
theorem C19_centertype_exact (nd : ℕ) (mol : ℤ → Option ℤ) (f : FrameSpec K) :
    (Spec.centerIds mol f).Pairwise (· < ·) ∧
    (∀ k, k ∈ Spec.centerIds mol f ↔
      k < f.atoms.length ∧ ∃ t, mol (Lammps.Spec.atId f.atoms k (·.type) 0) = some t) ∧
    (Spec.center nd mol f).nparticle = (Spec.centerIds mol f).length ∧
    (Spec.center nd mol f).ptype
      = (Spec.centerIds mol f).map (fun k => (mol (Lammps.Spec.atId f.atoms k (·.type) 0)).getD 0) ∧
    (Spec.center nd mol f).positions
      = (Spec.centerIds mol f).map (fun k =>
          Lammps.Spec.atId f.atoms k (fun a => (List.range nd).map (Lammps.Spec.cart nd f a)) (List.replicate nd 0)) := by
  refine ⟨?_, ?_, rfl, rfl, rfl⟩
  · exact List.Pairwise.filter _ List.pairwise_lt_range
  · intro k
    simp [Spec.centerIds, Option.isSome_iff_exists]

/-- with a well-formed frame the kept atom is the unique line carrying that id, and its new type is the map's value -/
theorem C19_centertype_relabel (mol : ℤ → Option ℤ) (f : FrameSpec K) (hwf : Lammps.Spec.WF f) (k : ℕ)
    (hk : k ∈ Spec.centerIds mol f) :
    ∃ a ∈ f.atoms, a.id = (k : ℤ) + 1 ∧ ∃ t, mol a.type = some t ∧
      (mol (Lammps.Spec.atId f.atoms k (·.type) 0)).getD 0 = t := by
  have h := ((C19_centertype_exact 2 mol f).2.1 k).mp hk
  obtain ⟨hlt, t, ht⟩ := h
  obtain ⟨a, ha, hid, hby⟩ := byId_some f hwf k hlt
  refine ⟨a, ha, hid, t, ?_, ?_⟩
  · simpa [Lammps.Spec.atId, hby] using ht
  · rw [ht]; rfl

/-! ## the column readers -/

/-- **Column reader.**  For every trajectory of orthogonal frames and EVERY non-empty list of 1-based column ids that
name numeric columns of the atom lines, `read_lammps_vector_wrapper` returns one snapshot per frame whose `positions[k]`
is the list of the requested columns (in the requested order, repetitions allowed) of the atom line with id `k+1`,
whatever the order of the lines; types by id, timestep, count and box as in the file. -/
theorem C19_vector_columns (pr : K → Tok K) (hpr : ∀ x, Impl.toFloat (pr x) = .ok x) (cols : List ℤ) (hne : cols ≠ [])
    (nd : ℕ) (hnd : nd = 2 ∨ nd = 3) (fs : List (FrameSpec K))
    (hwf : ∀ f ∈ fs, Lammps.Spec.WF f ∧ f.tric = false ∧ ∀ a ∈ f.atoms, ∀ c ∈ cols, (Spec.column nd a c).isSome) :
    Impl.readVectorAll nd cols (Lammps.Spec.emit pr nd fs) = .ok (fs.map (Spec.vector nd cols)) := by
  unfold Impl.readVectorAll
  have : cols.isEmpty = false := by cases cols <;> simp_all
  simp only [this, Bool.false_eq_true, if_false]
  exact loopFuel_emit pr nd _ _
    (fun f => Lammps.Spec.WF f ∧ f.tric = false ∧ ∀ a ∈ f.atoms, ∀ c ∈ cols, (Spec.column nd a c).isSome)
    (fun f rest h => readVector_emitFrame pr hpr f h.1 rest cols nd hnd h.2.1 h.2.2) rfl fs hwf _ (Nat.lt_succ_self _)

/-- what a 1-based column id means on the line `id type c_0 … c_{nd-1} extras…`: 1 ↦ id, 2 ↦ type, 3+i ↦ coordinate i,
nd+3+j ↦ the j-th extra column (if numeric); ids ≤ 0 name nothing -/
theorem C19_column_meaning (nd : ℕ) (a : AtomSpec K) :
    Spec.column nd a 1 = some (a.id : K) ∧ Spec.column nd a 2 = some (a.type : K) ∧
    (∀ i, i < nd → Spec.column nd a ((i : ℤ) + 3) = some (a.c i)) ∧
    (∀ j : ℕ, Spec.column nd a ((nd : ℤ) + 3 + (j : ℤ)) = (a.extras[j]?).bind Spec.tokVal) ∧
    (∀ c : ℤ, c ≤ 0 → Spec.column nd a c = none) := by
  refine ⟨by simp [Spec.column, Spec.atomVals], by simp [Spec.column, Spec.atomVals], ?_, ?_, ?_⟩
  · intro i hi
    have h1 : (1 : ℤ) ≤ (i : ℤ) + 3 := by omega
    have h2 : ((i : ℤ) + 3 - 1).toNat = i + 2 := by omega
    simp only [Spec.column, h1, if_true, h2, Spec.atomVals]
    rw [List.append_assoc, List.getElem?_append_right (by simp)]
    simp [hi, List.getElem?_append_left]
  · intro j
    have h1 : (1 : ℤ) ≤ (nd : ℤ) + 3 + (j : ℤ) := by omega
    have h2 : ((nd : ℤ) + 3 + (j : ℤ) - 1).toNat = (2 + nd) + j := by omega
    simp only [Spec.column, h1, if_true, h2, Spec.atomVals]
    rw [List.getElem?_append_right (by simp; omega)]
    have h3 : 2 + nd + j - ([some (a.id : K), some (a.type : K)] ++ List.map (fun i => some (a.c i)) (List.range nd)).length = j := by
      simp; omega
    rw [h3, List.getElem?_map]
    cases a.extras[j]? <;> simp
  · intro c hc
    have : ¬ (1 : ℤ) ≤ c := by omega
    simp [Spec.column, this]

/-- **`read_additions`.**  For every dump file with at least one frame whose frames all have `N` atoms, and every
0-based column `ncol` that is numeric on every atom line, row `n` of the result holds, at index `k`, column `ncol` of the
atom line with id `k+1` of frame `n` — for every frame. -/
theorem C19_additions (pr : K → Tok K) (hpr : ∀ x, Impl.toFloat (pr x) = .ok x) (nd N ncol : ℕ)
    (f0 : FrameSpec K) (more : List (FrameSpec K))
    (hwf : ∀ f ∈ f0 :: more, Lammps.Spec.WF f ∧ f.atoms.length = N ∧
      ∀ a ∈ f.atoms, (Spec.column nd a ((ncol : ℤ) + 1)).isSome) :
    Impl.readAdditions (ncol : ℤ) (Lammps.Spec.emit pr nd (f0 :: more))
      = .ok (Spec.additions nd ncol N (f0 :: more)) :=
  readAdditions_emit pr hpr nd N ncol f0 more hwf

/-! ## HOOMD frames -/

/-- **GSD conversion.**  Every frame sequence whose first frame has the requested dimension is converted frame by
frame, in order: timestep = `configuration.step`, count = `particles.N`, types = `typeid + 1`, positions cut to the
first `ndim` columns, box lengths = the first `ndim` entries of `configuration.box`. -/
theorem C19_gsd (nd : ℕ) (h0 : Impl.HFrame K) (more : List (Impl.HFrame K)) (hd : h0.dims = (nd : ℤ))
    (hpos : ∀ h ∈ h0 :: more, h.position ≠ []) :
    Impl.readGsd nd (h0 :: more) = .ok (some ((h0 :: more).map fun h => Spec.hoomd nd h h.position)) := by
  unfold Impl.readGsd
  simp only [hd, ne_eq, not_true_eq_false, if_false]
  rw [mapM_ok_of _ (fun h => Spec.hoomd nd h h.position) _ (fun h hh => gsdFrame_ok nd h h.position (hpos h hh))]
  rfl

/-- with a DCD trajectory of the same number of frames and atoms, frame `i` carries the DCD positions of frame `i`
(cut to `ndim`); everything else is as for the GSD file alone -/
theorem C19_gsd_dcd (nd : ℕ) (h0 : Impl.HFrame K) (more : List (Impl.HFrame K)) (dcd : List (List (List K)))
    (hd : h0.dims = (nd : ℤ)) (hpos : ∀ h ∈ h0 :: more, h.position ≠ [])
    (hlen : dcd.length = (h0 :: more).length) (hN : h0.N = (dcd.headD []).length) :
    Impl.readGsdDcd nd (h0 :: more) dcd
      = .ok (some (List.zipWith (fun h p => Spec.hoomd nd h p) (h0 :: more) dcd)) := by
  unfold Impl.readGsdDcd
  simp only [hd, ne_eq, not_true_eq_false, if_false]
  rw [mapM_ok_of _ (fun h => Spec.hoomd nd h []) _ (fun h hh => by
    have := gsdFrame_ok nd h [] (hpos h hh)
    simpa using this)]
  simp only [ok_bind, List.length_map, hlen, hN, not_true_eq_false, if_false]
  rw [zipWith_hoomd]

/-- the converted fields, spelled out -/
theorem C19_gsd_fields (nd : ℕ) (h : Impl.HFrame K) (pos : List (List K)) :
    (Spec.hoomd nd h pos).timestep = h.step ∧ (Spec.hoomd nd h pos).nparticle = h.N ∧
    (Spec.hoomd nd h pos).ptype = h.typeid.map (· + 1) ∧
    (Spec.hoomd nd h pos).positions = pos.map (fun r => r.take nd) ∧
    (Spec.hoomd nd h pos).boxlength = h.box.take nd :=
  ⟨rfl, rfl, rfl, rfl, rfl⟩

/-- a wrong `ndim` is reported by returning `None`, never by a converted trajectory -/
theorem C19_gsd_wrong_dim (nd : ℕ) (h0 : Impl.HFrame K) (more : List (Impl.HFrame K)) (dcd : List (List (List K)))
    (hd : h0.dims ≠ (nd : ℤ)) :
    Impl.readGsd nd (h0 :: more) = .ok none ∧ Impl.readGsdDcd nd (h0 :: more) dcd = .ok none := by
  simp [Impl.readGsd, Impl.readGsdDcd, hd]

/-! ## `read_additions` -/

/-- **Slice arithmetic.**  In a dump file whose frames all have `N` atoms, `content[n·N + (n+1)·9 : (n+1)·(N+9)]` is
exactly the block of atom lines of frame `n`, for every `n`. -/
theorem C19_additions_slices (pr : K → Tok K) (nd N : ℕ) (fs : List (FrameSpec K))
    (hN : ∀ f ∈ fs, f.atoms.length = N) (n : ℕ) (hn : n < fs.length) :
    Impl.pySlice (Lammps.Spec.emit pr nd fs) (n * N + (n + 1) * 9) ((n + 1) * (N + 9))
      = (fs[n]).atoms.map (Lammps.Spec.atomLine pr nd) :=
  slice_emit pr nd N fs hN n hn

/-! ### non-vacuity of the reader theorems: a shuffled 3-atom orthogonal `xs` frame with one numeric extra column -/

def exAtoms : List (AtomSpec ℚ) :=
  [⟨3, 1, fun i => [1/4, 1/2, 3/4].getD i 0, [.num (3/2)]⟩, ⟨1, 2, fun i => [0, 1, 1/8].getD i 0, [.int 7]⟩,
   ⟨2, 1, fun i => [9/10, 1/10, 1/2].getD i 0, [.num (-1/4)]⟩]
def exFrame : FrameSpec ℚ :=
  ⟨100, false, .xs, fun i => [-1, 2, 0].getD i 0, fun i => [4, 5, 3].getD i 0, 0, 0, 0, ["pp", "pp", "pp"], ["q"], exAtoms⟩
def exMol : ℤ → Option ℤ := fun t => if t = 1 then some 5 else none

example : Impl.readCenterAll 3 exMol (Lammps.Spec.emit Tok.num 3 [exFrame]) = .ok [Spec.center 3 exMol exFrame] ∧
    (Spec.center 3 exMol exFrame).ptype = [5, 5] :=
  ⟨C19_centertype Tok.num (fun _ => rfl) exMol 3 (Or.inr rfl) [exFrame] (by
      intro f hf
      simp only [List.mem_cons, List.not_mem_nil, or_false] at hf
      subst hf
      exact ⟨(⟨by show List.Perm [3, 1, 2] [((0:ℕ):ℤ) + 1, ((1:ℕ):ℤ) + 1, ((2:ℕ):ℤ) + 1]; decide, by decide, by decide⟩ : Lammps.Spec.WF exFrame), rfl⟩), by decide +kernel⟩

example : Impl.readVectorAll 3 [6, 1] (Lammps.Spec.emit Tok.num 3 [exFrame]) = .ok [Spec.vector 3 [6, 1] exFrame] ∧
    (Spec.vector 3 [6, 1] exFrame).positions = [[7, 1], [-1/4, 2], [3/2, 3]] :=
  ⟨C19_vector_columns Tok.num (fun _ => rfl) [6, 1] (by decide) 3 (Or.inr rfl) [exFrame] (by
      intro f hf
      simp only [List.mem_cons, List.not_mem_nil, or_false] at hf
      subst hf
      refine ⟨(⟨by show List.Perm [3, 1, 2] [((0:ℕ):ℤ) + 1, ((1:ℕ):ℤ) + 1, ((2:ℕ):ℤ) + 1]; decide, by decide, by decide⟩ : Lammps.Spec.WF exFrame), rfl, ?_⟩
      intro a ha c hc
      simp only [exFrame, exAtoms, List.mem_cons, List.not_mem_nil, or_false] at ha hc
      rcases ha with rfl | rfl | rfl <;> rcases hc with rfl | rfl <;> decide +kernel), by decide +kernel⟩

def exD : HeaderData ℚ := ⟨7, 2, 1, 2, fun i j => ([[-5/4, 7/2], [1/2, 9/2]].getD i []).getD j 0, ["order"]⟩
def exHAtoms : List (AtomSpec ℚ) :=
  [⟨2, 1, fun i => [0, 1].getD i 0, [.num (1/2)]⟩, ⟨1, 2, fun i => [1, 2].getD i 0, [.int 3]⟩]

example : Lammps.Impl.readFrame 2
      (render Tok.num (fun _ x => x) Gen.Writer.dumpHeader exD ++ exHAtoms.map (Lammps.Spec.atomLine Tok.num 2) ++ [])
      = .ok (some (Lammps.Spec.expected 2 (Spec.writtenFrame 2 (fun _ x => x) exD exHAtoms), [])) :=
  C19_header_roundtrip Tok.num (fun _ => rfl) (fun _ x => x) 2 (Or.inl rfl) exD exHAtoms rfl rfl
    (by show List.Perm [2, 1] [((0:ℕ):ℤ) + 1, ((1:ℕ):ℤ) + 1]; decide) (by decide) []

/-! ## `read_lammpslog` -/

/-- **Log sections.**  A log made of any leading lines and ANY number `k ≥ 0` of complete thermodynamic sections
(`Step …` header, any number of rows, `Loop time of …` line, any further lines), where no other line starts with
`Step ` / `Loop time of ` and the last line of the file is blank or does not start with digits, yields exactly `k`
tables, in order, table `i` having the header of section `i` and ALL its rows in order. -/
theorem C19_log_sections (pre : Lines K) (ss : List (Spec.Section K)) (hwf : ∀ s ∈ ss, Spec.SectionWF s)
    (hpre : ∀ l ∈ pre, Spec.plain l) (last : Line K) (hlast : (Spec.emitLog pre ss).getLast? = some last)
    (hnum : last.isEmpty = true ∨ Impl.firstNumeric last = false) :
    Impl.readLog (Spec.emitLog pre ss) = .ok (ss.map fun s => ⟨s.header, s.rows⟩) :=
  readLog_emit pre ss hwf hpre last hlast hnum

/-- `k` sections give `k` tables -/
theorem C19_log_count (pre : Lines K) (ss : List (Spec.Section K)) (hwf : ∀ s ∈ ss, Spec.SectionWF s)
    (hpre : ∀ l ∈ pre, Spec.plain l) (last : Line K) (hlast : (Spec.emitLog pre ss).getLast? = some last)
    (hnum : last.isEmpty = true ∨ Impl.firstNumeric last = false) :
    (Impl.readLog (Spec.emitLog pre ss)).toOption.map List.length = some ss.length := by
  rw [C19_log_sections pre ss hwf hpre last hlast hnum]
  simp [Except.toOption]

/-- **Incomplete trailing section** — what happens: if after `k` complete sections the log ends inside a section (a
`Step …` header and `m ≥ 2` rows, the last line starting with digits), the reader returns the `k` complete sections in
full and then the open section WITHOUT its last two rows (the possibly half-written last row and the one before).
(With fewer than two rows `pd.read_csv` is called with a negative `nrows` and raises ValueError — see design/C19.md.) -/
theorem C19_log_incomplete (pre : Lines K) (ss : List (Spec.Section K)) (hwf : ∀ s ∈ ss, Spec.SectionWF s)
    (hpre : ∀ l ∈ pre, Spec.plain l) (hdr : Line K) (rows : Lines K)
    (hh : Impl.isStep hdr = true ∧ Impl.isLoop hdr = false) (hr : ∀ l ∈ rows, Spec.plain l)
    (hm : 2 ≤ rows.length) (last : Line K) (hlast : rows.getLast? = some last)
    (hnum : last.isEmpty = false ∧ Impl.firstNumeric last = true) :
    Impl.readLog (Spec.emitLog pre ss ++ hdr :: rows)
      = .ok ((ss.map fun s => ⟨s.header, s.rows⟩) ++ [⟨hdr, rows.take (rows.length - 2)⟩]) :=
  readLog_incomplete pre ss hwf hpre hdr rows hh hr hm last hlast hnum

/-- non-vacuity: a two-section log with noise lines and a blank line -/
def exLog : List (Spec.Section ℚ) :=
  [ ⟨[.word "Step", .word "Temp"], [[.int 0, .num (3/2)], [.int 10, .num (7/4)]],
      [.word "Loop", .word "time", .word "of", .num (1/100), .word "on"], [[], [.word "run", .int 5]]⟩,
    ⟨[.word "Step", .word "Temp", .word "Press"], [],
      [.word "Loop", .word "time", .word "of", .num (1/50), .word "on"], [[.word "Total", .word "wall", .word "time:"]]⟩ ]

example : (∀ s ∈ exLog, Spec.SectionWF s) ∧
    Impl.readLog (Spec.emitLog [[.word "LAMMPS"]] exLog) = .ok (exLog.map fun s => ⟨s.header, s.rows⟩) := by
  have hwf : ∀ s ∈ exLog, Spec.SectionWF s := by
    intro s hs
    simp only [exLog, List.mem_cons, List.not_mem_nil, or_false] at hs
    rcases hs with rfl | rfl
    · exact ⟨⟨rfl, rfl⟩, ⟨rfl, rfl⟩, by
        intro l hl
        simp only [List.mem_cons, List.not_mem_nil, or_false] at hl
        rcases hl with rfl | rfl <;> exact ⟨rfl, rfl⟩, by
        intro l hl
        simp only [List.mem_cons, List.not_mem_nil, or_false] at hl
        rcases hl with rfl | rfl <;> exact ⟨rfl, rfl⟩⟩
    · exact ⟨⟨rfl, rfl⟩, ⟨rfl, rfl⟩, (by intro l hl; simp at hl), by
        intro l hl
        simp only [List.mem_cons, List.not_mem_nil, or_false] at hl
        rcases hl with rfl
        exact ⟨rfl, rfl⟩⟩
  refine ⟨hwf, C19_log_sections _ _ hwf ?_ [.word "Total", .word "wall", .word "time:"] rfl (Or.inr rfl)⟩
  intro l hl
  simp only [List.mem_cons, List.not_mem_nil, or_false] at hl
  rcases hl with rfl
  exact ⟨rfl, rfl⟩

end Pms.AuxIo
