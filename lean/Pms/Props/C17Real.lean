import Pms.Props.C17
import Mathlib.Analysis.SpecialFunctions.Log.Basic
import Mathlib.Analysis.SpecialFunctions.Sqrt
import Mathlib.Analysis.SpecialFunctions.Trigonometric.Basic

/-!
# C17 over ℝ — the model instantiated with Mathlib's `Real.exp / Real.log / Real.sqrt / Real.pi`

Property theorems only.  These tie the parameters of the polymorphic model to their intended meaning.
-/
set_option linter.unusedSectionVars false
open Finset
namespace Pms.LocalOrder
open Pms

/-- the `distance < rmax` mask can be decided on squared distances (what the exact driver does) -/
theorem C17_s2_filter_sq (a r : ℝ) (hr : 0 < r) : Real.sqrt a < r ↔ a < r ^ 2 :=
  Real.sqrt_lt' hr

/-- `g ln g − g + 1 ≥ 0` for every `g ≥ 0` (with `Real.log 0 = 0`) -/
theorem C17_s2_integrand_nonneg (g : ℝ) (hg : 0 ≤ g) : 0 ≤ g * Real.log g - g + 1 := by
  rcases hg.eq_or_lt with h | h
  · subst h; simp
  · have h1 := Real.log_le_sub_one_of_pos (inv_pos.mpr h)
    rw [Real.log_inv] at h1
    have h2 : g * (-Real.log g) ≤ g * (g⁻¹ - 1) := mul_le_mul_of_nonneg_left h1 h.le
    rw [mul_sub, mul_inv_cancel₀ h.ne'] at h2
    linarith

/-- an ideal-gas profile `g ≡ 1` has zero pair entropy -/
theorem C17_s2_ideal (d n : ℕ) (bins : ℕ → ℝ) :
    s2Integral Real.log d n (fun _ => 1) bins = 0 := by
  unfold s2Integral trapz integrand
  rw [sumRange_eq]
  apply Finset.sum_eq_zero
  intro k _
  simp

/-- the pair entropy of the statement is never positive: for positive density and bin width the
Gaussian-smeared g is non-negative, the integrand is non-negative, the prefactor non-positive -/
theorem C17_s2_nonpos (d N i ndelta : ℕ) (rdelta rho : ℝ) (hrd : 0 < rdelta) (hrho : 0 < rho)
    (dist : ℕ → ℝ) (typ : ℕ → ℕ) (sig : ℕ → ℕ → ℝ) :
    s2Spec Real.exp Real.log Real.sqrt Real.pi d N i ndelta rdelta rho dist typ sig ≤ 0 := by
  have hbin : ∀ k, 0 < bin rdelta k := by
    intro k; unfold bin
    have : (0 : ℝ) ≤ (k : ℝ) := Nat.cast_nonneg k
    push_cast; positivity
  have hshell : ∀ k, 0 < shell d Real.pi rho (bin rdelta k) := by
    intro k; unfold shell
    have := hbin k
    have hpi := Real.pi_pos
    split <;> (push_cast; positivity)
  have hgauss : ∀ x s : ℝ, 0 ≤ gauss Real.exp Real.sqrt Real.pi x s := by
    intro x s; unfold gauss
    exact div_nonneg (Real.exp_pos _).le (Real.sqrt_nonneg _)
  have hg : ∀ k, 0 ≤ gSpec Real.exp Real.sqrt Real.pi d N i ndelta rdelta rho dist typ sig k := by
    intro k; unfold gSpec
    apply div_nonneg _ (hshell k).le
    rw [sumRange_eq]
    apply Finset.sum_nonneg
    intro j _
    split
    · exact hgauss _ _
    · exact le_refl _
  have hpow : ∀ k n, 0 ≤ powNat (bin rdelta k) n := by
    intro k n; rw [powNat_eq]; exact pow_nonneg (hbin k).le n
  unfold s2Spec
  simp only
  have hc : -(((d - 1 : ℕ) : ℝ) * Real.pi * rho) ≤ 0 := by
    have : (0 : ℝ) ≤ ((d - 1 : ℕ) : ℝ) := Nat.cast_nonneg _
    have hpi := Real.pi_pos
    have : 0 ≤ ((d - 1 : ℕ) : ℝ) * Real.pi * rho := by positivity
    linarith
  have hsum : 0 ≤ sumRange (ndelta - 1) fun k =>
      (bin rdelta (k + 1) - bin rdelta k) *
        ((gSpec Real.exp Real.sqrt Real.pi d N i ndelta rdelta rho dist typ sig (k + 1) *
              Real.log (gSpec Real.exp Real.sqrt Real.pi d N i ndelta rdelta rho dist typ sig (k + 1))
            - gSpec Real.exp Real.sqrt Real.pi d N i ndelta rdelta rho dist typ sig (k + 1) + 1)
            * powNat (bin rdelta (k + 1)) (d - 1)
          + (gSpec Real.exp Real.sqrt Real.pi d N i ndelta rdelta rho dist typ sig k *
              Real.log (gSpec Real.exp Real.sqrt Real.pi d N i ndelta rdelta rho dist typ sig k)
            - gSpec Real.exp Real.sqrt Real.pi d N i ndelta rdelta rho dist typ sig k + 1)
            * powNat (bin rdelta k) (d - 1)) / ((2 : ℕ) : ℝ) := by
    rw [sumRange_eq]
    apply Finset.sum_nonneg
    intro k _
    have hstep : 0 ≤ bin rdelta (k + 1) - bin rdelta k := by
      unfold bin; push_cast; nlinarith
    have y1 := mul_nonneg (C17_s2_integrand_nonneg _ (hg (k + 1))) (hpow (k + 1) (d - 1))
    have y0 := mul_nonneg (C17_s2_integrand_nonneg _ (hg k)) (hpow k (d - 1))
    apply div_nonneg (mul_nonneg hstep (add_nonneg y1 y0))
    norm_num
  exact mul_nonpos_of_nonpos_of_nonneg hc hsum

/-- a regular tetrahedron of any size `s > 0` around the central particle (vertices
`s(1,1,1), s(1,−1,−1), s(−1,1,−1), s(−1,−1,1)` as neighbours 1..4) gives exactly 1 -/
theorem C17_tetra_perfect_geometry (s : ℝ) (hs : 0 < s) (R : ℕ → ℕ → ℝ)
    (h1 : R 1 0 = s ∧ R 1 1 = s ∧ R 1 2 = s) (h2 : R 2 0 = s ∧ R 2 1 = -s ∧ R 2 2 = -s)
    (h3 : R 3 0 = -s ∧ R 3 1 = s ∧ R 3 2 = -s) (h4 : R 4 0 = -s ∧ R 4 1 = -s ∧ R 4 2 = s) :
    tetraImpl Real.sqrt R (fun j => j + 1) = 1 := by
  apply C17_tetra_perfect
  have hn : ∀ a, 1 ≤ a → a ≤ 4 → norm Real.sqrt 3 (R a) = Real.sqrt (3 * s ^ 2) := by
    intro a ha ha'
    unfold norm dot
    congr 1
    interval_cases a <;> simp [sumRange, h1, h2, h3, h4] <;> ring
  have hsq : Real.sqrt (3 * s ^ 2) * Real.sqrt (3 * s ^ 2) = 3 * s ^ 2 :=
    Real.mul_self_sqrt (by positivity)
  intro j k hjk hk
  unfold cosPair
  rw [hn (j + 1) (by omega) (by omega), hn (k + 1) (by omega) (by omega), hsq]
  have hd : dot 3 (R (j + 1)) (R (k + 1)) = -(s ^ 2) := by
    unfold dot
    interval_cases k <;> interval_cases j <;> first | omega | (simp [sumRange, h1, h2, h3, h4]; ring)
  rw [hd]
  field_simp

end Pms.LocalOrder
