import Pms.Gen.ModShape

/-! # C09 — pinned source text (property theorems only; statements written by tools/mkmodprops.py from the tree the
checks were validated on, hand-owned afterwards).  `Pms.Gen.ModShape` is REGENERATED from /repo on every run; these
theorems say that the module top levels (imports, module-level state, decorators, signatures and defaults) of the files
C09 is anchored in — and, where listed, the statements of the anchored routines — are still the text the model was
written against and the correspondence was run on.  An edit there breaks this obligation; the check then searches for
a failing input and reports `no-failing-input-found` when there is none (a harmless edit). -/
namespace Pms.ModShape
open Pms.Gen.ModShape

/-- module top levels of PyMatterSim/neighbors/read_neighbors.py, PyMatterSim/static/boo.py, PyMatterSim/utils/funcs.py, PyMatterSim/utils/spherical_harmonics.py -/
theorem C09_module_shape :
    shape_neighbors_read_neighbors =
  ["from typing import TextIO",
   "import numpy as np",
   "import numpy.typing as npt",
   "from ..utils.logging import get_logger_handle",
   "logger = get_logger_handle(__name__)",
   "def read_neighbors(f: TextIO, nparticle: int, Nmax: int=200) -> npt.NDArray"] ∧
    shape_static_boo =
  ["from typing import Tuple",
   "import numpy as np",
   "import numpy.typing as npt",
   "import pandas as pd",
   "from ..dynamic.time_corr import time_correlation",
   "from ..neighbors.read_neighbors import read_neighbors",
   "from ..reader.reader_utils import Snapshots",
   "from ..static.gr import conditional_gr",
   "from ..utils.coarse_graining import time_average as utils_time_average",
   "from ..utils.funcs import Wignerindex",
   "from ..utils.logging import get_logger_handle",
   "from ..utils.pbc import remove_pbc",
   "from ..utils.spherical_harmonics import sph_harm_l",
   "logger = get_logger_handle(__name__)",
   "class boo_3d()",
   "  def __init__(self, snapshots: Snapshots, l: int, neighborfile: str, weightsfile: str=None, ppp: npt.NDArray=np.array([1, 1, 1]), Nmax: int=30) -> None",
   "  def qlm_Qlm(self) -> Tuple[npt.NDArray, npt.NDArray]",
   "  def ql_Ql(self, coarse_graining: bool=False, outputfile: str=None) -> npt.NDArray",
   "  def sij_ql_Ql(self, coarse_graining: bool=False, c: float=0.7, outputqlQl: str=None, outputsij: str=None) -> list[npt.NDArray]",
   "  def w_W_cap(self, coarse_graining: bool=False, outputw: str=None, outputwcap: str=None) -> Tuple[npt.NDArray, npt.NDArray]",
   "  def spatial_corr(self, coarse_graining: bool=False, rdelta: float=0.01, outputfile: str='') -> pd.DataFrame",
   "  def time_corr(self, coarse_graining: bool=False, dt: float=0.002, outputfile: str='') -> pd.DataFrame",
   "class boo_2d()",
   "  def __init__(self, snapshots: Snapshots, l: int, neighborfile: str, weightsfile: str='', ppp: npt.NDArray=np.array([1, 1]), Nmax: int=10, output_phi: str='') -> None",
   "  def lthorder(self, output_phi: str='') -> npt.NDArray",
   "  def time_average(self, time_period: float, dt: float=0.002, average_complex: bool=True, outputfile: str='') -> Tuple[npt.NDArray, npt.NDArray]",
   "  def spatial_corr(self, rdelta: float=0.01, outputfile: str='') -> pd.DataFrame",
   "  def time_corr(self, dt: float=0.002, outputfile: str='') -> pd.DataFrame"] ∧
    shape_utils_funcs =
  ["import numpy as np",
   "import numpy.typing as npt",
   "from sympy.physics.wigner import wigner_3j",
   "from ..utils.logging import get_logger_handle",
   "logger = get_logger_handle(__name__)",
   "def kronecker(i: int, j: int) -> int",
   "def nidealfac(ndim: int=3) -> float",
   "def areafac(ndim: int=3) -> float",
   "def alpha2factor(ndim: int=3) -> float",
   "def moment_of_inertia(positions: npt.NDArray, m: int=1, matrix: bool=False) -> npt.NDArray",
   "def Wignerindex(l: int) -> npt.NDArray",
   "def grid_gaussian(distances: npt.NDArray, sigma: float=1) -> npt.NDArray",
   "def Legendre_polynomials(x, ndim)"] ∧
    shape_utils_spherical_harmonics =
  ["import cmath",
   "import numpy as np",
   "import numpy.typing as npt",
   "try:\n    from scipy.special import sph_harm\nexcept ImportError:\n    from scipy.special import sph_harm_y\n\n    def sph_harm(m, l, az, pol):\n        \"\"\"scipy.special.sph_harm(m, l, azimuth, polar) expressed with sph_harm_y\"\"\"\n        return sph_harm_y(l, m, pol, az)",
   "def SphHarm0() -> float",
   "def SphHarm1(theta: float, phi: float) -> npt.NDArray",
   "def SphHarm2(theta: float, phi: float) -> npt.NDArray",
   "def SphHarm3(theta: float, phi: float) -> npt.NDArray",
   "def SphHarm4(theta: float, phi: float) -> npt.NDArray",
   "def SphHarm5(theta: float, phi: float) -> npt.NDArray",
   "def SphHarm6(theta: float, phi: float) -> npt.NDArray",
   "def SphHarm7(theta: float, phi: float) -> npt.NDArray",
   "def SphHarm8(theta: float, phi: float) -> npt.NDArray",
   "def SphHarm9(theta: float, phi: float) -> npt.NDArray",
   "def SphHarm10(theta: float, phi: float) -> npt.NDArray",
   "def SphHarm_above(l: int, theta: float, phi: float) -> npt.NDArray",
   "def sph_harm_l(l: int, theta: float, phi: float) -> npt.NDArray"] :=
  ⟨rfl, rfl, rfl, rfl⟩

end Pms.ModShape
