import Pms.Gen.ModShape

/-! # C06 — pinned source text (property theorems only; statements written by tools/mkmodprops.py from the tree the
checks were validated on, hand-owned afterwards).  `Pms.Gen.ModShape` is REGENERATED from /repo on every run; these
theorems say that the module top levels (imports, module-level state, decorators, signatures and defaults) of the files
C06 is anchored in — and, where listed, the statements of the anchored routines — are still the text the model was
written against and the correspondence was run on.  An edit there breaks this obligation; the check then searches for
a failing input and reports `no-failing-input-found` when there is none (a harmless edit). -/
namespace Pms.ModShape
open Pms.Gen.ModShape

/-- module top levels of PyMatterSim/dynamic/dynamics.py, PyMatterSim/utils/funcs.py -/
theorem C06_module_shape :
    shape_dynamic_dynamics =
  ["import numpy as np",
   "import numpy.typing as npt",
   "import pandas as pd",
   "from ..neighbors.read_neighbors import read_neighbors",
   "from ..reader.reader_utils import Snapshots",
   "from ..static.sq import conditional_sq",
   "from ..utils.funcs import alpha2factor",
   "from ..utils.logging import get_logger_handle",
   "from ..utils.pbc import remove_pbc",
   "from ..utils.wavevector import choosewavevector",
   "logger = get_logger_handle(__name__)",
   "def cage_relative(RII: npt.NDArray, cnlist: npt.NDArray) -> npt.NDArray",
   "class Dynamics()",
   "  def __init__(self, xu_snapshots: Snapshots=None, x_snapshots: Snapshots=None, dt: float=0.002, ppp: npt.NDArray=np.array([0, 0, 0]), diameters: dict[int, float]={1: 1.0, 2: 1.0}, a: float=0.3, cal_type: str='slow', neighborfile: str='', max_neighbors: int=30) -> None",
   "  def relaxation(self, qconst: float=2 * np.pi, condition: npt.NDArray=None, outputfile: str='') -> pd.DataFrame",
   "  def sq4(self, t: float, qrange: float=10.0, condition: npt.NDArray=None, outputfile: str='') -> pd.DataFrame",
   "class LogDynamics()",
   "  def __init__(self, xu_snapshots: Snapshots=None, x_snapshots: Snapshots=None, dt: float=0.002, ppp: npt.NDArray=np.array([0, 0, 0]), diameters: dict[int, float]={1: 1.0, 2: 1.0}, a: float=0.3, cal_type: str='slow', neighborfile: str='', max_neighbors: int=30) -> None",
   "  def relaxation(self, qconst: float=2 * np.pi, condition: npt.NDArray=None, outputfile: str='') -> pd.DataFrame"] ∧
    shape_utils_funcs =
  ["import numpy as np",
   "import numpy.typing as npt",
   "from sympy.physics.wigner import wigner_3j",
   "from ..utils.logging import get_logger_handle",
   "logger = get_logger_handle(__name__)",
   "def kronecker(i: int, j: int) -> int",
   "def nidealfac(ndim: int=3) -> float",
   "def areafac(ndim: int=3) -> float",
   "def alpha2factor(ndim: int=3) -> float",
   "def moment_of_inertia(positions: npt.NDArray, m: int=1, matrix: bool=False) -> npt.NDArray",
   "def Wignerindex(l: int) -> npt.NDArray",
   "def grid_gaussian(distances: npt.NDArray, sigma: float=1) -> npt.NDArray",
   "def Legendre_polynomials(x, ndim)"] :=
  ⟨rfl, rfl⟩

end Pms.ModShape
