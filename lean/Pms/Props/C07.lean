import Pms.Lemmas.Sym
import Pms.Lemmas.SymGr
import Pms.Model.Sq
import Pms.Props.C02

/-!
# C07 — observables respect translation, image, relabelling, species, axis, rotation and dilation symmetry

Property theorems only (helper lemmas: `Pms/Lemmas/Sym.lean`).  The generators of the symmetry group are the
definitions of `Pms/Model/Sym.lean` (the driver op `sym` executes the same definitions, and the harness feeds the
configurations transformed by them to the real routines).  Every theorem is stated on the `Spec` of the property that
owns the observable (C02 `removePbc`, C03 `Spec.g`, C04 `Spec.S`, C05 neighbour-list Specs, …) and holds for ALL
configurations, sizes, frame counts and group elements.  `K` is any ordered field (ℝ, ℚ).
-/
open Finset
namespace Pms.Sym
open Pms Pms.Pbc

variable {K : Type} [Field K] [LinearOrder K] [IsStrictOrderedRing K]

/-! ## the transformed g(r) trajectory -/

/-- a g(r) trajectory whose positions in frame `f` are replaced by `g f (old positions)` -/
def mapPos (tr : Gr.Traj K) (g : ℕ → (ℕ → ℕ → K) → ℕ → ℕ → K) : Gr.Traj K :=
  { tr with frame := fun f => { tr.frame f with pos := g f (tr.frame f).pos } }

/-! ## translation -/

/-- **Translation, minimum image.**  The minimum-image displacement of any pair is unchanged by a rigid translation:
every routine that reads positions only through `remove_pbc(r_j − r_i)` (g(r), neighbours, BOO, tetrahedral order, S2,
Hessian, divergence/curl) sees the same pair vectors. -/
theorem C07_translation_disp (d : ℕ) (rint : K → ℤ) (H Hinv : ℕ → ℕ → K) (ppp : ℕ → K) (pos : ℕ → ℕ → K)
    (c : ℕ → K) (i j : ℕ) :
    removePbc d rint H Hinv ppp (fun k => translate pos c j k - translate pos c i k)
      = removePbc d rint H Hinv ppp (fun k => pos j k - pos i k) := by
  rw [translate_diff]

/-- **Translation, g(r).**  Translating every frame rigidly (each frame by its own vector `c f`) leaves every partial
and the total g(r) of C03's `Spec` unchanged, in every bin. -/
theorem C07_translation_gr (rint : K → ℤ) (tr : Gr.Traj K) (c : ℕ → ℕ → K) (a b k : ℕ) :
    Gr.Spec.g rint (mapPos tr fun f p => translate p (c f)) a b k = Gr.Spec.g rint tr a b k ∧
    Gr.Spec.gTotal rint (mapPos tr fun f p => translate p (c f)) k = Gr.Spec.gTotal rint tr k := by
  have hd : Gr.dist2 rint (mapPos tr fun f p => translate p (c f)) = Gr.dist2 rint tr := by
    funext f i j
    simp only [Gr.dist2, mapPos]
    rw [translate_diff]
  constructor
  · unfold Gr.Spec.g; rw [hd]; rfl
  · unfold Gr.Spec.gTotal; rw [hd]; rfl

/-- **Translation, S(q): a common unit phase cancels.**  If every particle phase is advanced by the same angle φ
(cos and sin given by the addition formulas with `cφ² + sφ² = 1`), `Re(ρ_A conj ρ_B)` is unchanged for any two
weightings A, B (species indicators: partial S_ab; all ones: total S). -/
theorem C07_translation_sq (N : ℕ) (A B c s : ℕ → K) (cφ sφ : K) (h : cφ * cφ + sφ * sφ = 1) :
    Sq.reMulConj (Sq.mode N A (fun i => c i * cφ - s i * sφ) (fun i => s i * cφ + c i * sφ))
                 (Sq.mode N B (fun i => c i * cφ - s i * sφ) (fun i => s i * cφ + c i * sφ))
      = Sq.reMulConj (Sq.mode N A c s) (Sq.mode N B c s) := by
  simp only [Sq.reMulConj, Sq.mode, Sq.Cx.mul, Sq.Cx.conj, sumRange_eq]
  have e1 : ∀ W : ℕ → K, ∑ i ∈ range N, W i * (c i * cφ - s i * sφ)
      = cφ * ∑ i ∈ range N, W i * c i - sφ * ∑ i ∈ range N, W i * s i := by
    intro W; rw [Finset.mul_sum, Finset.mul_sum, ← Finset.sum_sub_distrib]
    exact Finset.sum_congr rfl fun i _ => by ring
  have e2 : ∀ W : ℕ → K, ∑ i ∈ range N, W i * -(s i * cφ + c i * sφ)
      = -(cφ * ∑ i ∈ range N, W i * s i + sφ * ∑ i ∈ range N, W i * c i) := by
    intro W; rw [Finset.mul_sum, Finset.mul_sum, ← Finset.sum_add_distrib, ← Finset.sum_neg_distrib]
    exact Finset.sum_congr rfl fun i _ => by ring
  have e3 : ∀ W : ℕ → K, ∑ i ∈ range N, W i * -(s i) = -∑ i ∈ range N, W i * s i := by
    intro W; rw [← Finset.sum_neg_distrib]; exact Finset.sum_congr rfl fun i _ => by ring
  rw [e1 A, e1 B, e2 A, e2 B, e3 A, e3 B]
  generalize ∑ i ∈ range N, A i * c i = Ac
  generalize ∑ i ∈ range N, A i * s i = As
  generalize ∑ i ∈ range N, B i * c i = Bc
  generalize ∑ i ∈ range N, B i * s i = Bs
  have : (cφ * Ac - sφ * As) * (cφ * Bc - sφ * Bs) - -(cφ * As + sφ * Ac) * - -(cφ * Bs + sφ * Bc)
      = (cφ * cφ + sφ * sφ) * (Ac * Bc - -As * - -Bs) := by ring
  rw [this, h, one_mul]

/-! ## periodic images -/

/-- **Image, minimum image.**  Shifting the two particles of a pair by whole cell vectors along periodic axes (each by its
own integers `m i`, `m j`) leaves their minimum-image displacement unchanged, away from exact half-cell ties
(from `C02_shift_invariant`). -/
theorem C07_image_disp (d : ℕ) (rint : K → ℤ) (hr : IsRintHE rint) (H Hinv : ℕ → ℕ → K) (ppp : ℕ → K)
    (pos : ℕ → ℕ → K) (m : ℕ → ℕ → ℤ) (hinv : IsInv d H Hinv) (hp : ∀ a < d, ppp a = 0 ∨ ppp a = 1) (i j : ℕ)
    (hnt : ∀ a < d, NoTie (frac d Hinv (fun k => pos j k - pos i k) a)) :
    removePbc d rint H Hinv ppp (fun k => latticeShift d H ppp m pos j k - latticeShift d H ppp m pos i k)
      = removePbc d rint H Hinv ppp (fun k => pos j k - pos i k) := by
  have e : (fun k => latticeShift d H ppp m pos j k - latticeShift d H ppp m pos i k)
      = fun k => (pos j k - pos i k) + vecMul d (fun a => ((m j a - m i a : ℤ) : K) * ppp a) H k := by
    funext k
    rw [← latticeVec_sub]
    simp only [latticeShift]; ring
  rw [e]
  funext k
  exact C02_shift_invariant d rint hr H Hinv ppp _ (fun a => m j a - m i a) hinv hp hnt k

/-- **Image, g(r).**  Replacing any particles of any frames by periodic images leaves every partial and the total g(r)
unchanged (no pair exactly at a half-cell tie). -/
theorem C07_image_gr (rint : K → ℤ) (hr : IsRintHE rint) (tr : Gr.Traj K) (m : ℕ → ℕ → ℕ → ℤ)
    (hinv : ∀ f, IsInv tr.d (tr.frame f).H (tr.frame f).Hinv) (hp : ∀ a < tr.d, tr.ppp a = 0 ∨ tr.ppp a = 1)
    (hnt : ∀ f i j, ∀ a < tr.d, NoTie (frac tr.d (tr.frame f).Hinv (fun k => (tr.frame f).pos j k - (tr.frame f).pos i k) a))
    (a b k : ℕ) :
    Gr.Spec.g rint (mapPos tr fun f p => latticeShift tr.d (tr.frame f).H tr.ppp (m f) p) a b k = Gr.Spec.g rint tr a b k ∧
    Gr.Spec.gTotal rint (mapPos tr fun f p => latticeShift tr.d (tr.frame f).H tr.ppp (m f) p) k = Gr.Spec.gTotal rint tr k := by
  have hd : Gr.dist2 rint (mapPos tr fun f p => latticeShift tr.d (tr.frame f).H tr.ppp (m f) p) = Gr.dist2 rint tr := by
    funext f i j
    simp only [Gr.dist2, mapPos]
    rw [C07_image_disp tr.d rint hr _ _ tr.ppp _ (m f) (hinv f) hp i j (hnt f i j)]
  constructor
  · unfold Gr.Spec.g; rw [hd]; rfl
  · unfold Gr.Spec.gTotal; rw [hd]; rfl

/-! ## relabelling -/

/-- the trajectory with particle ids permuted: row `i` of every frame holds the old particle `σ i` -/
def relabelTraj (tr : Gr.Traj K) (σ : ℕ → ℕ) : Gr.Traj K :=
  { tr with frame := fun f => { tr.frame f with pos := relabel σ (tr.frame f).pos, typ := relabel σ (tr.frame f).typ } }

/-- **Relabelling, g(r).**  The double sums over ordered pairs i ≠ j and the species counts are invariant under any
permutation σ of the particle ids, so every partial and the total g(r) are unchanged. -/
theorem C07_relabel_gr (rint : K → ℤ) (tr : Gr.Traj K) (σ : Equiv.Perm ℕ) (hσ : PermBelow tr.N σ) (a b k : ℕ) :
    Gr.Spec.g rint (relabelTraj tr σ) a b k = Gr.Spec.g rint tr a b k ∧
    Gr.Spec.gTotal rint (relabelTraj tr σ) k = Gr.Spec.gTotal rint tr k := by
  have hbin : ∀ f i j k, Gr.binOf (relabelTraj tr σ) (Gr.dist2 rint (relabelTraj tr σ)) f i j k
      = Gr.binOf tr (Gr.dist2 rint tr) f (σ i) (σ j) k := fun _ _ _ _ => rfl
  have hNa : ∀ x, Gr.Spec.Na (relabelTraj tr σ) x = Gr.Spec.Na tr x := fun x => countType_relabel _ tr.N σ hσ x
  constructor
  · unfold Gr.Spec.g Gr.Spec.gOf Gr.Spec.pairCount
    have h := pairHist_relabel tr (relabelTraj tr σ) rfl rfl σ hσ (Gr.binOf tr (Gr.dist2 rint tr))
      (Gr.binOf (relabelTraj tr σ) (Gr.dist2 rint (relabelTraj tr σ)))
      (fun f i j => Gr.ind (decide ((tr.frame f).typ i = a ∧ (tr.frame f).typ j = b)))
      (fun f i j => Gr.ind (decide (((relabelTraj tr σ).frame f).typ i = a ∧ ((relabelTraj tr σ).frame f).typ j = b)))
      hbin (fun _ _ _ => rfl) k
    rw [hNa, hNa, h]
    rfl
  · unfold Gr.Spec.gTotal Gr.Spec.gTotalOf Gr.Spec.pairCountAll
    have h := pairHist_relabel tr (relabelTraj tr σ) rfl rfl σ hσ (Gr.binOf tr (Gr.dist2 rint tr))
      (Gr.binOf (relabelTraj tr σ) (Gr.dist2 rint (relabelTraj tr σ)))
      (fun _ _ _ => ((1 : ℕ) : K)) (fun _ _ _ => ((1 : ℕ) : K)) hbin (fun _ _ _ => rfl) k
    rw [h]
    rfl

/-! ## species swap -/

/-- the trajectory with the species labels `a` and `b` exchanged in every frame -/
def swapTraj (tr : Gr.Traj K) (a b : ℕ) : Gr.Traj K :=
  { tr with frame := fun f => { tr.frame f with typ := swapTypes a b (tr.frame f).typ } }

/-- **Species swap, g(r).**  Exchanging the labels `a ↔ b` only renames the partial columns: the partial of the swapped
trajectory for the swapped pair of labels is the old partial (so g_aa ↔ g_bb, g_ac ↔ g_bc, g_ab ↔ g_ba = g_ab), and the
total is unchanged. -/
theorem C07_species_swap_gr (rint : K → ℤ) (tr : Gr.Traj K) (a b x y k : ℕ) :
    Gr.Spec.g rint (swapTraj tr a b) (swapLabel a b x) (swapLabel a b y) k = Gr.Spec.g rint tr x y k ∧
    Gr.Spec.gTotal rint (swapTraj tr a b) k = Gr.Spec.gTotal rint tr k := by
  constructor
  · unfold Gr.Spec.g Gr.Spec.gOf Gr.Spec.pairCount Gr.Spec.Na
    have h1 : ∀ z, Gr.countType ((swapTraj tr a b).frame 0).typ (swapTraj tr a b).N (swapLabel a b z)
        = Gr.countType (tr.frame 0).typ tr.N z := fun z => countType_swap _ _ a b z
    rw [h1, h1]
    have hw : (fun f i j => (Gr.ind (decide (((swapTraj tr a b).frame f).typ i = swapLabel a b x ∧
          ((swapTraj tr a b).frame f).typ j = swapLabel a b y)) : K))
        = fun f i j => Gr.ind (decide ((tr.frame f).typ i = x ∧ (tr.frame f).typ j = y)) := by
      funext f i j
      simp only [swapTraj, swapTypes, swapLabel_inj]
    rw [hw]
    rfl
  · rfl

/-! ## axis permutation -/

/-- the trajectory with the coordinate axes permuted together with the cell, its inverse, the mask and the box lengths -/
def permTraj (tr : Gr.Traj K) (π : ℕ → ℕ) : Gr.Traj K :=
  { tr with
    frame := fun f => { tr.frame f with pos := permAxes π (tr.frame f).pos, H := permMat π (tr.frame f).H,
                                        Hinv := permMat π (tr.frame f).Hinv }
    ppp := permVec π tr.ppp
    box := permVec π tr.box }

/-- **Axis permutation, minimum image.**  `remove_pbc` commutes with permuting the axes of the vector together with the
cell, its inverse and the mask (any cell, not only orthogonal ones). -/
theorem C07_axis_perm_disp (d : ℕ) (rint : K → ℤ) (π : Equiv.Perm ℕ) (hπ : PermBelow d π) (H Hinv : ℕ → ℕ → K)
    (ppp r : ℕ → K) (k : ℕ) :
    removePbc d rint (permMat π H) (permMat π Hinv) (permVec π ppp) (permVec π r) k
      = removePbc d rint H Hinv ppp r (π k) := removePbc_perm d rint π hπ H Hinv ppp r k

/-- **Axis permutation, g(r).**  Permuting the coordinate axes together with the box leaves every partial and the
total g(r) unchanged. -/
theorem C07_axis_perm_gr (rint : K → ℤ) (tr : Gr.Traj K) (π : Equiv.Perm ℕ) (hπ : PermBelow tr.d π) (a b k : ℕ) :
    Gr.Spec.g rint (permTraj tr π) a b k = Gr.Spec.g rint tr a b k ∧
    Gr.Spec.gTotal rint (permTraj tr π) k = Gr.Spec.gTotal rint tr k := by
  have hd : Gr.dist2 rint (permTraj tr π) = Gr.dist2 rint tr := by
    funext f i j
    simp only [Gr.dist2, sumRange_eq]
    rw [← sum_perm tr.d π hπ (fun k => Gr.sq (removePbc tr.d rint (tr.frame f).H (tr.frame f).Hinv tr.ppp
      (fun k => (tr.frame f).pos j k - (tr.frame f).pos i k) k))]
    refine Finset.sum_congr rfl fun k _ => ?_
    rw [← removePbc_perm tr.d rint π hπ]
    rfl
  have hV : Gr.Spec.V (permTraj tr π) = Gr.Spec.V tr := by
    unfold Gr.Spec.V
    rw [prodRange_eq, prodRange_eq]
    exact prod_perm tr.d π hπ tr.box
  constructor
  · unfold Gr.Spec.g Gr.Spec.gOf; rw [hV, hd]; rfl
  · unfold Gr.Spec.gTotal Gr.Spec.gTotalOf; rw [hV, hd]; rfl

/-! ## dilation -/

/-- the trajectory with coordinates, cell, box lengths and bin width multiplied by the common factor `s` -/
def dilateTraj (tr : Gr.Traj K) (s : K) : Gr.Traj K :=
  { tr with
    frame := fun f => { tr.frame f with pos := dilate s (tr.frame f).pos, H := fun a b => s * (tr.frame f).H a b,
                                        Hinv := fun a b => (tr.frame f).Hinv a b / s }
    box := dilateVec s tr.box
    rdelta := s * tr.rdelta }

/-- **Dilation, g(r).**  Dilating coordinates, cell, box and bin width by a common factor `s > 0` (same number of bins)
leaves the value of every partial and of the total g(r) in every bin unchanged (d = 2 or 3). -/
theorem C07_dilation_gr (rint : K → ℤ) (tr : Gr.Traj K) (s : K) (hs : 0 < s) (hdim : tr.d = 2 ∨ tr.d = 3) (a b k : ℕ) :
    Gr.Spec.g rint (dilateTraj tr s) a b k = Gr.Spec.g rint tr a b k ∧
    Gr.Spec.gTotal rint (dilateTraj tr s) k = Gr.Spec.gTotal rint tr k := by
  have hs0 : s ≠ 0 := ne_of_gt hs
  have hd : ∀ f i j, Gr.dist2 rint (dilateTraj tr s) f i j = s * s * Gr.dist2 rint tr f i j := by
    intro f i j
    simp only [Gr.dist2, sumRange_eq, Finset.mul_sum]
    refine Finset.sum_congr rfl fun k _ => ?_
    have e : (fun k => ((dilateTraj tr s).frame f).pos j k - ((dilateTraj tr s).frame f).pos i k)
        = fun k => s * ((tr.frame f).pos j k - (tr.frame f).pos i k) := by
      funext k; simp only [dilateTraj, dilate]; ring
    rw [e]
    have := removePbc_dilate tr.d rint s hs0 (tr.frame f).H (tr.frame f).Hinv tr.ppp
      (fun k => (tr.frame f).pos j k - (tr.frame f).pos i k) k
    show Gr.sq (removePbc tr.d rint (fun a b => s * (tr.frame f).H a b) (fun a b => (tr.frame f).Hinv a b / s) tr.ppp _ k) = _
    rw [this]; unfold Gr.sq; ring
  have hbin : Gr.binOf (dilateTraj tr s) (Gr.dist2 rint (dilateTraj tr s)) = Gr.binOf tr (Gr.dist2 rint tr) := by
    funext f i j k
    simp only [Gr.binOf, hd]
    exact inBin_dilate s hs tr.rdelta tr.maxbin _ k
  have hV : Gr.Spec.V (dilateTraj tr s) = s ^ tr.d * Gr.Spec.V tr := by
    unfold Gr.Spec.V
    rw [prodRange_eq, prodRange_eq]
    show ∏ i ∈ range tr.d, s * tr.box i = _
    rw [Finset.prod_mul_distrib, Finset.prod_const, Finset.card_range]
  have hsh : Gr.Spec.shell (dilateTraj tr s) k = s ^ tr.d * Gr.Spec.shell tr k := by
    unfold Gr.Spec.shell
    show (if tr.d = 3 then _ else _) = _
    rcases hdim with h | h
    · have h3 : ¬ tr.d = 3 := by omega
      rw [if_neg h3, if_neg h3, h]
      show tr.pi * _ * (s * tr.rdelta * (s * tr.rdelta)) = _
      ring
    · rw [if_pos h, if_pos h, h]
      show _ * tr.pi * _ * (s * tr.rdelta * (s * tr.rdelta) * (s * tr.rdelta)) = _
      ring
  have hsd : s ^ tr.d ≠ 0 := pow_ne_zero _ hs0
  have key : ∀ V NN Y sh : K, s ^ tr.d * V / NN * Y / (s ^ tr.d * sh) = V / NN * Y / sh := by
    intro V NN Y sh
    have : s ^ tr.d * V / NN * Y / (s ^ tr.d * sh) = (s ^ tr.d * (V / NN * Y)) / (s ^ tr.d * sh) := by ring
    rw [this, mul_div_mul_left _ _ hsd]
  constructor
  · unfold Gr.Spec.g Gr.Spec.gOf
    rw [hV, hsh, hbin, key]; rfl
  · unfold Gr.Spec.gTotal Gr.Spec.gTotalOf
    rw [hV, hsh, hbin, key]; rfl

/-! ## rotation -/

/-- **Rotation preserves every dot product** (`RᵀR = 1`, any dimension): the common root of the rotation invariance of
the tetrahedral order, the participation ratio and the gyration-tensor invariants. -/
theorem C07_rot_dot (d : ℕ) (R : ℕ → ℕ → K) (hR : IsOrtho d R) (u v : ℕ → K) :
    dot d (matVec d R u) (matVec d R v) = dot d u v := dot_matVec d R hR u v

end Pms.Sym
