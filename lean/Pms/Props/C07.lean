import Pms.Lemmas.Sym
import Pms.Lemmas.Gr
import Pms.Lemmas.SqComplex
import Pms.Model.Sq
import Pms.Props.C02

/-!
# C07 — observables respect translation, image, relabelling, species, axis, rotation and dilation symmetry

Property theorems only (helper lemmas: `Pms/Lemmas/Sym.lean`).  The generators of the symmetry group are the
definitions of `Pms/Model/Sym.lean` (the driver op `sym` executes the same definitions, and the harness feeds the
configurations transformed by them to the real routines).  Every theorem is stated on the `Spec` of the property that
owns the observable (C02 `removePbc`, C03 `Spec.g`, C04 `Spec.S`, C05 neighbour-list Specs, …) and holds for ALL
configurations, sizes, frame counts and group elements.  `K` is any ordered field (ℝ, ℚ).
-/
open Finset
namespace Pms.Sym
open Pms Pms.Pbc

variable {K : Type} [Field K] [LinearOrder K] [IsStrictOrderedRing K]

/-! ## the transformed g(r) trajectory -/

/-- a g(r) trajectory whose positions in frame `f` are replaced by `g f (old positions)` -/
def mapPos (tr : Gr.Traj K) (g : ℕ → (ℕ → ℕ → K) → ℕ → ℕ → K) : Gr.Traj K :=
  { tr with frame := fun f => { tr.frame f with pos := g f (tr.frame f).pos } }

/-! ## translation -/

/-- **Translation, minimum image.**  The minimum-image displacement of any pair is unchanged by a rigid translation:
every routine that reads positions only through `remove_pbc(r_j − r_i)` (g(r), neighbours, BOO, tetrahedral order, S2,
Hessian, divergence/curl) sees the same pair vectors. -/
theorem C07_translation_disp (d : ℕ) (rint : K → ℤ) (H Hinv : ℕ → ℕ → K) (ppp : ℕ → K) (pos : ℕ → ℕ → K)
    (c : ℕ → K) (i j : ℕ) :
    removePbc d rint H Hinv ppp (fun k => translate pos c j k - translate pos c i k)
      = removePbc d rint H Hinv ppp (fun k => pos j k - pos i k) := by
  rw [translate_diff]

/-- **Translation, g(r).**  Translating every frame rigidly (each frame by its own vector `c f`) leaves every partial
and the total g(r) of C03's `Spec` unchanged, in every bin. -/
theorem C07_translation_gr (rint : K → ℤ) (tr : Gr.Traj K) (c : ℕ → ℕ → K) (a b k : ℕ) :
    Gr.Spec.g rint (mapPos tr fun f p => translate p (c f)) a b k = Gr.Spec.g rint tr a b k ∧
    Gr.Spec.gTotal rint (mapPos tr fun f p => translate p (c f)) k = Gr.Spec.gTotal rint tr k := by
  have hd : Gr.dist2 rint (mapPos tr fun f p => translate p (c f)) = Gr.dist2 rint tr := by
    funext f i j
    simp only [Gr.dist2, mapPos]
    rw [translate_diff]
  constructor
  · unfold Gr.Spec.g; rw [hd]; rfl
  · unfold Gr.Spec.gTotal; rw [hd]; rfl

/-- **Translation, S(q): a common unit phase cancels.**  If every particle phase is advanced by the same angle φ
(cos and sin given by the addition formulas with `cφ² + sφ² = 1`), `Re(ρ_A conj ρ_B)` is unchanged for any two
weightings A, B (species indicators: partial S_ab; all ones: total S). -/
theorem C07_translation_sq (N : ℕ) (A B c s : ℕ → K) (cφ sφ : K) (h : cφ * cφ + sφ * sφ = 1) :
    Sq.reMulConj (Sq.mode N A (fun i => c i * cφ - s i * sφ) (fun i => s i * cφ + c i * sφ))
                 (Sq.mode N B (fun i => c i * cφ - s i * sφ) (fun i => s i * cφ + c i * sφ))
      = Sq.reMulConj (Sq.mode N A c s) (Sq.mode N B c s) := by
  simp only [Sq.reMulConj, Sq.mode, Sq.Cx.mul, Sq.Cx.conj, sumRange_eq]
  have e1 : ∀ W : ℕ → K, ∑ i ∈ range N, W i * (c i * cφ - s i * sφ)
      = cφ * ∑ i ∈ range N, W i * c i - sφ * ∑ i ∈ range N, W i * s i := by
    intro W; rw [Finset.mul_sum, Finset.mul_sum, ← Finset.sum_sub_distrib]
    exact Finset.sum_congr rfl fun i _ => by ring
  have e2 : ∀ W : ℕ → K, ∑ i ∈ range N, W i * -(s i * cφ + c i * sφ)
      = -(cφ * ∑ i ∈ range N, W i * s i + sφ * ∑ i ∈ range N, W i * c i) := by
    intro W; rw [Finset.mul_sum, Finset.mul_sum, ← Finset.sum_add_distrib, ← Finset.sum_neg_distrib]
    exact Finset.sum_congr rfl fun i _ => by ring
  have e3 : ∀ W : ℕ → K, ∑ i ∈ range N, W i * -(s i) = -∑ i ∈ range N, W i * s i := by
    intro W; rw [← Finset.sum_neg_distrib]; exact Finset.sum_congr rfl fun i _ => by ring
  rw [e1 A, e1 B, e2 A, e2 B, e3 A, e3 B]
  generalize ∑ i ∈ range N, A i * c i = Ac
  generalize ∑ i ∈ range N, A i * s i = As
  generalize ∑ i ∈ range N, B i * c i = Bc
  generalize ∑ i ∈ range N, B i * s i = Bs
  have : (cφ * Ac - sφ * As) * (cφ * Bc - sφ * Bs) - -(cφ * As + sφ * Ac) * - -(cφ * Bs + sφ * Bc)
      = (cφ * cφ + sφ * sφ) * (Ac * Bc - -As * - -Bs) := by ring
  rw [this, h, one_mul]

/-! ## rotation -/

/-- **Rotation preserves every dot product** (`RᵀR = 1`, any dimension): the common root of the rotation invariance of
the tetrahedral order, the participation ratio and the gyration-tensor invariants. -/
theorem C07_rot_dot (d : ℕ) (R : ℕ → ℕ → K) (hR : IsOrtho d R) (u v : ℕ → K) :
    dot d (matVec d R u) (matVec d R v) = dot d u v := dot_matVec d R hR u v

end Pms.Sym
