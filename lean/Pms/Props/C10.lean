import Pms.Lemmas.Boo2d
import Pms.Props.C02

/-!
# C10 — 2D bond-orientational order (`PyMatterSim/static/boo.py::boo_2d`)

Property theorems only.  Reals are ℝ, complex numbers ℂ (Mathlib); `npE l dx dy` is the contract
model of `np.exp(1j*l*np.arctan2(dy,dx))` (see `Pms/Lemmas/Boo2d.lean`); `rint` is any function
meeting the `np.rint` contract, `Hinv` any two-sided inverse of the cell matrix.
-/
open Finset
namespace Pms.Boo2d
open Pms Complex

/-- `exp(i·l·atan2(y,x)) = ((x+iy)/|x+iy|)^l` for a non-zero bond: the value the code computes
with trigonometry is the l-th power of the unit bond vector (the model's `unitPow`, which the
driver evaluates). -/
theorem C10_atan2_form (l : ℕ) (x y : ℝ) (h : ¬ (x = 0 ∧ y = 0)) :
    npE l x y = unitPow Real.sqrt mkC l x y ∧
    npE l x y = (mkC x y / ((‖mkC x y‖ : ℝ) : ℂ)) ^ l := by
  have hz : mkC x y ≠ 0 := fun h0 => h (mkC_eq_zero.mp h0)
  have : npE l x y = (mkC x y / ((‖mkC x y‖ : ℝ) : ℂ)) ^ l := by
    rw [npE_eq_pow, exp_arg_eq _ hz]
  exact ⟨by rw [unitPow_eq]; exact this, this⟩

/-- coincident particles: `np.arctan2(0,0) = 0`, the bond contributes 1 -/
theorem C10_atan2_origin (l : ℕ) : npE l 0 0 = 1 := npE_zero l

/-- unweighted order parameter = mean over the particle's bonds of `exp(i l θ)`, where the bond is
the position difference minus integer multiples of the periodic cell vectors with fractional
coordinates in [−1/2, 1/2] (minimum image, C02) — for every configuration, cell, mask, neighbour
table and `l`. -/
theorem C10_def (l : ℕ) (rint : ℝ → ℤ) (hr : IsRintHE rint) (H Hinv : ℕ → ℕ → ℝ) (ppp : ℕ → ℝ)
    (hinv : Pbc.IsInv 2 Hinv H) (hinv' : Pbc.IsInv 2 H Hinv)
    (pos : ℕ → ℕ → ℝ) (nl : ℕ → ℕ → ℕ) (i : ℕ) :
    let b := bonds rint H Hinv ppp pos nl i
    phi (npE l) rint H Hinv ppp pos nl i
      = (∑ m ∈ range (nl i 0), npE l (b m 0) (b m 1)) / (nl i 0 : ℂ) ∧
    (∀ m, (¬ (b m 0 = 0 ∧ b m 1 = 0)) →
       npE l (b m 0) (b m 1) = (mkC (b m 0) (b m 1) / ((‖mkC (b m 0) (b m 1)‖ : ℝ) : ℂ)) ^ l) ∧
    (∀ m, ∀ k < 2, b m k = (pos (nl i (m+1)) k - pos i k)
        - ∑ a ∈ range 2, ((rint (Pbc.frac 2 Hinv (fun k => pos (nl i (m+1)) k - pos i k) a) : ℤ) : ℝ)
            * ppp a * H a k) ∧
    (∀ m, ∀ a < 2, ppp a = 1 → |Pbc.frac 2 Hinv (b m) a| ≤ 1/2) := by
  intro b
  refine ⟨?_, ?_, ?_, ?_⟩
  · simp only [phi, psi, sumRange_eq]; rfl
  · intro m hm; exact (C10_atan2_form l _ _ hm).2
  · intro m k hk
    exact Pbc.C02_lattice 2 rint H Hinv ppp _ hinv k hk
  · intro m a ha hp
    exact (Pbc.C02_halfcell 2 rint hr H Hinv ppp _ hinv' a ha).1 hp

/-- weighted order parameter = Σ_m (w_m / Σ_k |w_k|) exp(i l θ_m) for every real weight table
(negative weights included) -/
theorem C10_weighted_def (l : ℕ) (rint : ℝ → ℤ) (H Hinv : ℕ → ℕ → ℝ) (ppp : ℕ → ℝ)
    (pos : ℕ → ℕ → ℝ) (nl : ℕ → ℕ → ℕ) (wl : ℕ → ℕ → ℝ) (i : ℕ) :
    let b := bonds rint H Hinv ppp pos nl i
    phiW (npE l) ofRC (fun x => |x|) rint H Hinv ppp pos nl wl i
      = ∑ m ∈ range (nl i 0),
          ((wl i (m+1) / ∑ k ∈ range (nl i 0), |wl i (k+1)| : ℝ) : ℂ) * npE l (b m 0) (b m 1) := by
  intro b
  simp only [phiW, psiW, sumRange_eq, ofRC]
  rfl

/-- equal positive weights reproduce the unweighted value -/
theorem C10_equal_weights (E : ℝ → ℝ → ℂ) (cn : ℕ) (d : ℕ → ℕ → ℝ) (c : ℝ) (hc : 0 < c) :
    psiW E ofRC (fun x => |x|) cn d (fun _ => c) = psi E cn d := by
  simp only [psiW, psi, sumRange_eq, ofRC]
  rcases Nat.eq_zero_or_pos cn with h0 | hpos
  · subst h0; simp
  · have hcn : (cn : ℂ) ≠ 0 := by exact_mod_cast (Nat.pos_iff_ne_zero.mp hpos)
    have hcc : (c : ℂ) ≠ 0 := by exact_mod_cast hc.ne'
    rw [Finset.sum_const, Finset.card_range, nsmul_eq_mul, abs_of_pos hc, Finset.sum_div]
    refine Finset.sum_congr rfl fun m _ => ?_
    push_cast
    field_simp

/-- |ψ| ≤ 1, unweighted: any number of bonds (the empty mean is 0 in the model) -/
theorem C10_modulus_le_one (l : ℕ) (cn : ℕ) (d : ℕ → ℕ → ℝ) : ‖psi (npE l) cn d‖ ≤ 1 := by
  simp only [psi, sumRange_eq]
  rw [norm_div, Complex.norm_natCast]
  rcases Nat.eq_zero_or_pos cn with h0 | hpos
  · subst h0; simp
  · have hc : (0 : ℝ) < cn := by exact_mod_cast hpos
    rw [div_le_one hc]
    calc ‖∑ m ∈ range cn, npE l (d m 0) (d m 1)‖
        ≤ ∑ m ∈ range cn, ‖npE l (d m 0) (d m 1)‖ := norm_sum_le _ _
      _ = ∑ m ∈ range cn, (1 : ℝ) := Finset.sum_congr rfl fun m _ => norm_npE l _ _
      _ = cn := by simp

/-- |ψ| ≤ 1, weighted: ANY real weights, negative ones included (normalisation by Σ|w|) -/
theorem C10_modulus_le_one_weighted (l : ℕ) (cn : ℕ) (d : ℕ → ℕ → ℝ) (w : ℕ → ℝ) :
    ‖psiW (npE l) ofRC (fun x => |x|) cn d w‖ ≤ 1 := by
  simp only [psiW, sumRange_eq, ofRC]
  set s := ∑ k ∈ range cn, |w k| with hs
  have hs0 : 0 ≤ s := Finset.sum_nonneg fun k _ => abs_nonneg _
  calc ‖∑ m ∈ range cn, ((w m / s : ℝ) : ℂ) * npE l (d m 0) (d m 1)‖
      ≤ ∑ m ∈ range cn, ‖((w m / s : ℝ) : ℂ) * npE l (d m 0) (d m 1)‖ := norm_sum_le _ _
    _ = ∑ m ∈ range cn, |w m| / s := by
        refine Finset.sum_congr rfl fun m _ => ?_
        rw [norm_mul, norm_npE, mul_one, Complex.norm_real, Real.norm_eq_abs, abs_div, abs_of_nonneg hs0]
    _ = s / s := by rw [← Finset.sum_div]
    _ ≤ 1 := div_self_le_one s

end Pms.Boo2d
