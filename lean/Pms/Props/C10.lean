import Pms.Lemmas.Boo2d
import Pms.Props.C02

/-!
# C10 — 2D bond-orientational order (`PyMatterSim/static/boo.py::boo_2d`)

Property theorems only.  Reals are ℝ, complex numbers ℂ (Mathlib); `npE l dx dy` is the contract
model of `np.exp(1j*l*np.arctan2(dy,dx))` (see `Pms/Lemmas/Boo2d.lean`); `rint` is any function
meeting the `np.rint` contract, `Hinv` any two-sided inverse of the cell matrix.
-/
open Finset
namespace Pms.Boo2d
open Pms Complex

/-- `exp(i·l·atan2(y,x)) = ((x+iy)/|x+iy|)^l` for a non-zero bond: the value the code computes
with trigonometry is the l-th power of the unit bond vector (the model's `unitPow`, which the
driver evaluates). -/
theorem C10_atan2_form (l : ℕ) (x y : ℝ) (h : ¬ (x = 0 ∧ y = 0)) :
    npE l x y = unitPow Real.sqrt mkC l x y ∧
    npE l x y = (mkC x y / ((‖mkC x y‖ : ℝ) : ℂ)) ^ l := by
  have hz : mkC x y ≠ 0 := fun h0 => h (mkC_eq_zero.mp h0)
  have : npE l x y = (mkC x y / ((‖mkC x y‖ : ℝ) : ℂ)) ^ l := by
    rw [npE_eq_pow, exp_arg_eq _ hz]
  exact ⟨by rw [unitPow_eq]; exact this, this⟩

/-- coincident particles: `np.arctan2(0,0) = 0`, the bond contributes 1 -/
theorem C10_atan2_origin (l : ℕ) : npE l 0 0 = 1 := npE_zero l

/-- unweighted order parameter = mean over the particle's bonds of `exp(i l θ)`, where the bond is
the position difference minus integer multiples of the periodic cell vectors with fractional
coordinates in [−1/2, 1/2] (minimum image, C02) — for every configuration, cell, mask, neighbour
table and `l`. -/
theorem C10_def (l : ℕ) (rint : ℝ → ℤ) (hr : IsRintHE rint) (H Hinv : ℕ → ℕ → ℝ) (ppp : ℕ → ℝ)
    (hinv : Pbc.IsInv 2 Hinv H) (hinv' : Pbc.IsInv 2 H Hinv)
    (pos : ℕ → ℕ → ℝ) (nl : ℕ → ℕ → ℕ) (i : ℕ) :
    let b := bonds rint H Hinv ppp pos nl i
    phi (npE l) rint H Hinv ppp pos nl i
      = (∑ m ∈ range (nl i 0), npE l (b m 0) (b m 1)) / (nl i 0 : ℂ) ∧
    (∀ m, (¬ (b m 0 = 0 ∧ b m 1 = 0)) →
       npE l (b m 0) (b m 1) = (mkC (b m 0) (b m 1) / ((‖mkC (b m 0) (b m 1)‖ : ℝ) : ℂ)) ^ l) ∧
    (∀ m, ∀ k < 2, b m k = (pos (nl i (m+1)) k - pos i k)
        - ∑ a ∈ range 2, ((rint (Pbc.frac 2 Hinv (fun k => pos (nl i (m+1)) k - pos i k) a) : ℤ) : ℝ)
            * ppp a * H a k) ∧
    (∀ m, ∀ a < 2, ppp a = 1 → |Pbc.frac 2 Hinv (b m) a| ≤ 1/2) := by
  intro b
  refine ⟨?_, ?_, ?_, ?_⟩
  · simp only [phi, psi, sumRange_eq]; rfl
  · intro m hm; exact (C10_atan2_form l _ _ hm).2
  · intro m k hk
    exact Pbc.C02_lattice 2 rint H Hinv ppp _ hinv k hk
  · intro m a ha hp
    exact (Pbc.C02_halfcell 2 rint hr H Hinv ppp _ hinv' a ha).1 hp

/-- non-vacuity of the hypotheses of `C10_def` / `C10_spatial_corr_def` over ℝ: a concrete `rint`
meeting the contract and a tilted cell with its two-sided inverse -/
example : IsRintHE rintR ∧
    Pbc.IsInv (K := ℝ) 2 (fun i k => if i = 0 ∧ k = 0 then 1/2 else if i = 1 ∧ k = 0 then -1/8 else if i = 1 ∧ k = 1 then 1/4 else 0)
      (fun i k => if i = 0 ∧ k = 0 then 2 else if i = 1 ∧ k = 0 then 1 else if i = 1 ∧ k = 1 then 4 else 0) := by
  refine ⟨rintR_isRintHE, ?_⟩
  intro i hi k hk
  interval_cases i <;> interval_cases k <;> norm_num [Finset.sum_range_succ]

/-- weighted order parameter = Σ_m (w_m / Σ_k |w_k|) exp(i l θ_m) for every real weight table
(negative weights included) -/
theorem C10_weighted_def (l : ℕ) (rint : ℝ → ℤ) (H Hinv : ℕ → ℕ → ℝ) (ppp : ℕ → ℝ)
    (pos : ℕ → ℕ → ℝ) (nl : ℕ → ℕ → ℕ) (wl : ℕ → ℕ → ℝ) (i : ℕ) :
    let b := bonds rint H Hinv ppp pos nl i
    phiW (npE l) ofRC (fun x => |x|) rint H Hinv ppp pos nl wl i
      = ∑ m ∈ range (nl i 0),
          ((wl i (m+1) / ∑ k ∈ range (nl i 0), |wl i (k+1)| : ℝ) : ℂ) * npE l (b m 0) (b m 1) := by
  intro b
  simp only [phiW, psiW, sumRange_eq, ofRC]
  rfl

/-- equal positive weights reproduce the unweighted value -/
theorem C10_equal_weights (E : ℝ → ℝ → ℂ) (cn : ℕ) (d : ℕ → ℕ → ℝ) (c : ℝ) (hc : 0 < c) :
    psiW E ofRC (fun x => |x|) cn d (fun _ => c) = psi E cn d := by
  simp only [psiW, psi, sumRange_eq, ofRC]
  rcases Nat.eq_zero_or_pos cn with h0 | hpos
  · subst h0; simp
  · have hcn : (cn : ℂ) ≠ 0 := by exact_mod_cast (Nat.pos_iff_ne_zero.mp hpos)
    have hcc : (c : ℂ) ≠ 0 := by exact_mod_cast hc.ne'
    rw [Finset.sum_const, Finset.card_range, nsmul_eq_mul, abs_of_pos hc, Finset.sum_div]
    refine Finset.sum_congr rfl fun m _ => ?_
    push_cast
    field_simp

/-- |ψ| ≤ 1, unweighted: any number of bonds (the empty mean is 0 in the model) -/
theorem C10_modulus_le_one (l : ℕ) (cn : ℕ) (d : ℕ → ℕ → ℝ) : ‖psi (npE l) cn d‖ ≤ 1 := by
  simp only [psi, sumRange_eq]
  rw [norm_div, Complex.norm_natCast]
  rcases Nat.eq_zero_or_pos cn with h0 | hpos
  · subst h0; simp
  · have hc : (0 : ℝ) < cn := by exact_mod_cast hpos
    rw [div_le_one hc]
    calc ‖∑ m ∈ range cn, npE l (d m 0) (d m 1)‖
        ≤ ∑ m ∈ range cn, ‖npE l (d m 0) (d m 1)‖ := norm_sum_le _ _
      _ = ∑ m ∈ range cn, (1 : ℝ) := Finset.sum_congr rfl fun m _ => norm_npE l _ _
      _ = cn := by simp

/-- |ψ| ≤ 1, weighted: ANY real weights, negative ones included (normalisation by Σ|w|) -/
theorem C10_modulus_le_one_weighted (l : ℕ) (cn : ℕ) (d : ℕ → ℕ → ℝ) (w : ℕ → ℝ) :
    ‖psiW (npE l) ofRC (fun x => |x|) cn d w‖ ≤ 1 := by
  simp only [psiW, sumRange_eq, ofRC]
  set s := ∑ k ∈ range cn, |w k| with hs
  have hs0 : 0 ≤ s := Finset.sum_nonneg fun k _ => abs_nonneg _
  calc ‖∑ m ∈ range cn, ((w m / s : ℝ) : ℂ) * npE l (d m 0) (d m 1)‖
      ≤ ∑ m ∈ range cn, ‖((w m / s : ℝ) : ℂ) * npE l (d m 0) (d m 1)‖ := norm_sum_le _ _
    _ = ∑ m ∈ range cn, |w m| / s := by
        refine Finset.sum_congr rfl fun m _ => ?_
        rw [norm_mul, norm_npE, mul_one, Complex.norm_real, Real.norm_eq_abs, abs_div, abs_of_nonneg hs0]
    _ = s / s := by rw [← Finset.sum_div]
    _ ≤ 1 := div_self_le_one s


/-- perfect l-fold environment: every listed bond points at an angle `θ₀ + 2π k_m / l` (any lengths,
any subset of the l directions, any number of bonds ≥ 1) ⇒ ψ = exp(i l θ₀), so |ψ| is exactly one -/
theorem C10_lattice (l : ℕ) (hl : 0 < l) (cn : ℕ) (hcn : 0 < cn) (d : ℕ → ℕ → ℝ) (θ₀ : ℝ)
    (ρ : ℕ → ℝ) (k : ℕ → ℤ) (hρ : ∀ m < cn, 0 < ρ m)
    (hd : ∀ m < cn, d m 0 = ρ m * Real.cos (θ₀ + 2 * Real.pi * (k m) / l) ∧
                    d m 1 = ρ m * Real.sin (θ₀ + 2 * Real.pi * (k m) / l)) :
    psi (npE l) cn d = Complex.exp (I * (l : ℂ) * (θ₀ : ℂ)) ∧ ‖psi (npE l) cn d‖ = 1 := by
  have hE : ∀ m ∈ range cn, npE l (d m 0) (d m 1) = Complex.exp (I * (l : ℂ) * (θ₀ : ℂ)) := by
    intro m hm
    have hm' := Finset.mem_range.mp hm
    rw [(hd m hm').1, (hd m hm').2, npE_polar l _ _ (hρ m hm')]
    have hlc : (l : ℂ) ≠ 0 := by exact_mod_cast hl.ne'
    have : I * (l : ℂ) * ((θ₀ + 2 * Real.pi * (k m) / l : ℝ) : ℂ)
        = I * (l : ℂ) * (θ₀ : ℂ) + (k m : ℂ) * (2 * (Real.pi : ℂ) * I) := by
      push_cast; field_simp
    rw [this, Complex.exp_add, Complex.exp_int_mul_two_pi_mul_I, mul_one]
  have hv : psi (npE l) cn d = Complex.exp (I * (l : ℂ) * (θ₀ : ℂ)) := by
    simp only [psi, sumRange_eq]
    rw [Finset.sum_congr rfl hE, Finset.sum_const, Finset.card_range, nsmul_eq_mul]
    have hc : (cn : ℂ) ≠ 0 := by exact_mod_cast hcn.ne'
    field_simp
  refine ⟨hv, ?_⟩
  rw [hv]
  have : I * (l : ℂ) * (θ₀ : ℂ) = ((l * θ₀ : ℝ) : ℂ) * I := by push_cast; ring
  rw [this, Complex.norm_exp_ofReal_mul_I]

/-- non-vacuity of `C10_lattice`: the six bonds of a hexagon (l = 6, k_m = m, unit length) -/
example : ∃ (d : ℕ → ℕ → ℝ) (ρ : ℕ → ℝ) (k : ℕ → ℤ), (∀ m < 6, 0 < ρ m) ∧
    ∀ m < 6, d m 0 = ρ m * Real.cos (0.3 + 2 * Real.pi * (k m) / (6 : ℕ)) ∧
             d m 1 = ρ m * Real.sin (0.3 + 2 * Real.pi * (k m) / (6 : ℕ)) :=
  ⟨fun m c => if c = 0 then 1 * Real.cos (0.3 + 2 * Real.pi * ((m : ℤ) : ℝ) / (6 : ℕ))
                else 1 * Real.sin (0.3 + 2 * Real.pi * ((m : ℤ) : ℝ) / (6 : ℕ)),
   fun _ => 1, fun m => (m : ℤ), fun _ _ => one_pos, fun m _ => ⟨by simp, by simp⟩⟩

/-- the same with bond weights: ψ = (Σw / Σ|w|) exp(i l θ₀) for ANY real weights; with non-negative
weights that are not all zero the value is exp(i l θ₀) and the modulus is exactly one; with signed
weights the modulus is |Σw| / Σ|w|. -/
theorem C10_lattice_weighted (l : ℕ) (hl : 0 < l) (cn : ℕ) (d : ℕ → ℕ → ℝ) (w : ℕ → ℝ) (θ₀ : ℝ)
    (ρ : ℕ → ℝ) (k : ℕ → ℤ) (hρ : ∀ m < cn, 0 < ρ m)
    (hd : ∀ m < cn, d m 0 = ρ m * Real.cos (θ₀ + 2 * Real.pi * (k m) / l) ∧
                    d m 1 = ρ m * Real.sin (θ₀ + 2 * Real.pi * (k m) / l)) :
    psiW (npE l) ofRC (fun x => |x|) cn d w
      = (((∑ m ∈ range cn, w m) / (∑ m ∈ range cn, |w m|) : ℝ) : ℂ) * Complex.exp (I * (l : ℂ) * (θ₀ : ℂ)) ∧
    ((∀ m < cn, 0 ≤ w m) → (∑ m ∈ range cn, w m) ≠ 0 →
      psiW (npE l) ofRC (fun x => |x|) cn d w = Complex.exp (I * (l : ℂ) * (θ₀ : ℂ)) ∧
      ‖psiW (npE l) ofRC (fun x => |x|) cn d w‖ = 1) := by
  have hE : ∀ m ∈ range cn, npE l (d m 0) (d m 1) = Complex.exp (I * (l : ℂ) * (θ₀ : ℂ)) := by
    intro m hm
    have hm' := Finset.mem_range.mp hm
    rw [(hd m hm').1, (hd m hm').2, npE_polar l _ _ (hρ m hm')]
    have hlc : (l : ℂ) ≠ 0 := by exact_mod_cast hl.ne'
    have : I * (l : ℂ) * ((θ₀ + 2 * Real.pi * (k m) / l : ℝ) : ℂ)
        = I * (l : ℂ) * (θ₀ : ℂ) + (k m : ℂ) * (2 * (Real.pi : ℂ) * I) := by
      push_cast; field_simp
    rw [this, Complex.exp_add, Complex.exp_int_mul_two_pi_mul_I, mul_one]
  have hv : psiW (npE l) ofRC (fun x => |x|) cn d w
      = (((∑ m ∈ range cn, w m) / (∑ m ∈ range cn, |w m|) : ℝ) : ℂ) * Complex.exp (I * (l : ℂ) * (θ₀ : ℂ)) := by
    simp only [psiW, sumRange_eq, ofRC]
    rw [Finset.sum_congr rfl fun m hm => by rw [hE m hm], ← Finset.sum_mul, Finset.sum_div]
    push_cast; rfl
  refine ⟨hv, ?_⟩
  intro hw hs
  have habs : ∑ m ∈ range cn, |w m| = ∑ m ∈ range cn, w m :=
    Finset.sum_congr rfl fun m hm => abs_of_nonneg (hw m (Finset.mem_range.mp hm))
  have h1 : psiW (npE l) ofRC (fun x => |x|) cn d w = Complex.exp (I * (l : ℂ) * (θ₀ : ℂ)) := by
    rw [hv, habs, div_self hs]; simp
  refine ⟨h1, ?_⟩
  rw [h1]
  have : I * (l : ℂ) * (θ₀ : ℂ) = ((l * θ₀ : ℝ) : ℂ) * I := by push_cast; ring
  rw [this, Complex.norm_exp_ofReal_mul_I]

/-- rotation covariance of one particle's value: rotating all its (non-zero) bonds by α multiplies
ψ by exp(i l α) — unweighted and weighted (weights are scalars, unchanged by the rotation) -/
theorem C10_rotation (l : ℕ) (cn : ℕ) (d : ℕ → ℕ → ℝ) (w : ℕ → ℝ) (α : ℝ)
    (hnz : ∀ m < cn, ¬ (d m 0 = 0 ∧ d m 1 = 0)) :
    let d' : ℕ → ℕ → ℝ := fun m k =>
      if k = 0 then d m 0 * Real.cos α - d m 1 * Real.sin α else d m 0 * Real.sin α + d m 1 * Real.cos α
    psi (npE l) cn d' = Complex.exp (I * (l : ℂ) * (α : ℂ)) * psi (npE l) cn d ∧
    psiW (npE l) ofRC (fun x => |x|) cn d' w
      = Complex.exp (I * (l : ℂ) * (α : ℂ)) * psiW (npE l) ofRC (fun x => |x|) cn d w := by
  intro d'
  have hE : ∀ m ∈ range cn, npE l (d' m 0) (d' m 1)
      = Complex.exp (I * (l : ℂ) * (α : ℂ)) * npE l (d m 0) (d m 1) := by
    intro m hm
    have := npE_rot l (d m 0) (d m 1) α (hnz m (Finset.mem_range.mp hm))
    simpa [d'] using this
  constructor
  · simp only [psi, sumRange_eq]
    rw [Finset.sum_congr rfl hE, ← Finset.mul_sum, mul_div_assoc]
  · simp only [psiW, sumRange_eq]
    rw [Finset.mul_sum]
    refine Finset.sum_congr rfl fun m hm => ?_
    rw [hE m hm]; ring

/-- rotation of the whole system (positions AND cell vectors, so it also holds under periodic
boundaries; with `ppp = 0` the cell is irrelevant): every minimum-image bond is rotated, hence
every particle's ψ — unweighted and weighted — is multiplied by exp(i l α). -/
theorem C10_rotation_system (l : ℕ) (rint : ℝ → ℤ) (H Hinv : ℕ → ℕ → ℝ) (ppp : ℕ → ℝ)
    (pos : ℕ → ℕ → ℝ) (nl : ℕ → ℕ → ℕ) (wl : ℕ → ℕ → ℝ) (i : ℕ) (α : ℝ)
    (hnz : ∀ m < nl i 0, ¬ (bonds rint H Hinv ppp pos nl i m 0 = 0 ∧ bonds rint H Hinv ppp pos nl i m 1 = 0)) :
    let R : ℕ → ℕ → ℝ := fun a b => match a, b with
      | 0, 0 => Real.cos α | 0, 1 => Real.sin α | 1, 0 => - Real.sin α | 1, 1 => Real.cos α | _, _ => 0
    let Rinv : ℕ → ℕ → ℝ := fun a b => match a, b with
      | 0, 0 => Real.cos α | 0, 1 => - Real.sin α | 1, 0 => Real.sin α | 1, 1 => Real.cos α | _, _ => 0
    let pos' : ℕ → ℕ → ℝ := fun j => Pbc.vecMul 2 (pos j) R
    let H' := matMul 2 H R
    let Hinv' := matMul 2 Rinv Hinv
    phi (npE l) rint H' Hinv' ppp pos' nl i
      = Complex.exp (I * (l : ℂ) * (α : ℂ)) * phi (npE l) rint H Hinv ppp pos nl i ∧
    phiW (npE l) ofRC (fun x => |x|) rint H' Hinv' ppp pos' nl wl i
      = Complex.exp (I * (l : ℂ) * (α : ℂ)) * phiW (npE l) ofRC (fun x => |x|) rint H Hinv ppp pos nl wl i := by
  intro R Rinv pos' H' Hinv'
  have hR : Pbc.IsInv 2 R Rinv := by
    intro a ha b hb
    have hcs := Real.cos_sq_add_sin_sq α
    interval_cases a <;> interval_cases b <;>
      simp [R, Rinv, Finset.sum_range_succ] <;> nlinarith [hcs]
  have hb : ∀ m k, bonds rint H' Hinv' ppp pos' nl i m k
      = Pbc.vecMul 2 (bonds rint H Hinv ppp pos nl i m) R k := by
    intro m k
    unfold bonds
    have : (fun k => pos' (nl i (m+1)) k - pos' i k)
        = Pbc.vecMul 2 (fun k => pos (nl i (m+1)) k - pos i k) R := by
      funext k; simp only [pos']; rw [vecMul_sub]
    rw [this]
    exact removePbc_linear 2 rint H Hinv R Rinv ppp _ hR k
  have hrot := C10_rotation l (nl i 0) (bonds rint H Hinv ppp pos nl i) (fun m => wl i (m+1)) α hnz
  have hd' : ∀ m, (npE l (bonds rint H' Hinv' ppp pos' nl i m 0) (bonds rint H' Hinv' ppp pos' nl i m 1))
      = npE l (bonds rint H Hinv ppp pos nl i m 0 * Real.cos α - bonds rint H Hinv ppp pos nl i m 1 * Real.sin α)
              (bonds rint H Hinv ppp pos nl i m 0 * Real.sin α + bonds rint H Hinv ppp pos nl i m 1 * Real.cos α) := by
    intro m
    rw [hb m 0, hb m 1]
    simp [Pbc.vecMul, sumRange, R]
    congr 1
  simp only at hrot
  constructor
  · rw [phi, phi, ← hrot.1]
    simp only [psi]
    congr 1
    simp only [sumRange_eq]
    refine Finset.sum_congr rfl fun m _ => ?_
    rw [hd' m]; simp
  · rw [phiW, phiW, ← hrot.2]
    simp only [psiW, sumRange_eq]
    refine Finset.sum_congr rfl fun m _ => ?_
    rw [hd' m]; simp


/-- `time_average`: with `average_complex=True` the value for window start `n` is the complex mean of
the `W` frames `n … n+W−1`; with `average_complex=False` it is (mean of the moduli)·exp(i·mean of the
phases), whose modulus is the mean modulus.  (`W = int(period/interval)` and the `T − W` window starts
come from `utils.coarse_graining.time_average`, C16.) -/
theorem C10_time_average_def (W : ℕ) (x : ℕ → ℕ → ℂ) (n i : ℕ) :
    timeAvg W x n i = (∑ k ∈ range W, x (n + k) i) / (W : ℂ) ∧
    timeAvgSep (fun z : ℂ => ‖z‖) Complex.arg polarC W x n i
      = (((∑ k ∈ range W, ‖x (n + k) i‖) / W : ℝ) : ℂ)
          * Complex.exp (I * (((∑ k ∈ range W, Complex.arg (x (n + k) i)) / W : ℝ) : ℂ)) ∧
    ‖timeAvgSep (fun z : ℂ => ‖z‖) Complex.arg polarC W x n i‖ = (∑ k ∈ range W, ‖x (n + k) i‖) / W := by
  refine ⟨?_, ?_, ?_⟩
  · simp only [timeAvg, sumRange_eq]
  · simp only [timeAvgSep, sumRange_eq, polarC]
  · simp only [timeAvgSep, sumRange_eq]
    apply norm_polarC
    exact div_nonneg (Finset.sum_nonneg fun k _ => norm_nonneg _) (Nat.cast_nonneg _)

/-- the window length (over ℝ): `W = ⌊period/interval⌋` is the number of whole frame intervals that fit
into the period, and `period = m·interval` gives exactly `m` (the float evaluation of this quotient is
C16's subject; C10 judges periods away from these boundaries) -/
theorem C10_window (period dt dstep : ℝ) (hi : 0 < dstep * dt) (hp : 0 ≤ period) :
    ((window Int.floor period dt dstep : ℕ) : ℝ) * (dstep * dt) ≤ period ∧
    period < ((window Int.floor period dt dstep : ℕ) + 1 : ℝ) * (dstep * dt) ∧
    (∀ m : ℕ, period = m * (dstep * dt) → window Int.floor period dt dstep = m) := by
  unfold window
  have hq : 0 ≤ period / (dstep * dt) := div_nonneg hp hi.le
  have hf : 0 ≤ ⌊period / (dstep * dt)⌋ := Int.floor_nonneg.mpr hq
  have hcast : ((⌊period / (dstep * dt)⌋.toNat : ℕ) : ℝ) = (⌊period / (dstep * dt)⌋ : ℝ) := by
    have : ((⌊period / (dstep * dt)⌋.toNat : ℕ) : ℤ) = ⌊period / (dstep * dt)⌋ := Int.toNat_of_nonneg hf
    exact_mod_cast this
  refine ⟨?_, ?_, ?_⟩
  · rw [hcast]
    have := Int.floor_le (period / (dstep * dt))
    rwa [le_div_iff₀ hi] at this
  · rw [hcast]
    have := Int.lt_floor_add_one (period / (dstep * dt))
    rwa [div_lt_iff₀ hi] at this
  · intro m hm
    have : period / (dstep * dt) = (m : ℝ) := by rw [hm]; exact mul_div_cancel_right₀ _ hi.ne'
    rw [this]
    simp

/-- both kinds of time average keep the modulus ≤ 1, are exact on a constant window, and the complex
average is covariant under a global rotation (factor `c`), the separate one keeps its modulus -/
theorem C10_time_average_props (W : ℕ) (hW : 0 < W) (x : ℕ → ℕ → ℂ) (n i : ℕ) :
    ((∀ k < W, ‖x (n + k) i‖ ≤ 1) →
        ‖timeAvg W x n i‖ ≤ 1 ∧ ‖timeAvgSep (fun z : ℂ => ‖z‖) Complex.arg polarC W x n i‖ ≤ 1) ∧
    (∀ z : ℂ, (∀ k < W, x (n + k) i = z) →
        timeAvg W x n i = z ∧ timeAvgSep (fun z : ℂ => ‖z‖) Complex.arg polarC W x n i = z) ∧
    (∀ c : ℂ, timeAvg W (fun n i => c * x n i) n i = c * timeAvg W x n i) ∧
    (∀ c : ℂ, ‖c‖ = 1 →
        ‖timeAvgSep (fun z : ℂ => ‖z‖) Complex.arg polarC W (fun n i => c * x n i) n i‖
          = ‖timeAvgSep (fun z : ℂ => ‖z‖) Complex.arg polarC W x n i‖) := by
  have hWr : (0 : ℝ) < W := by exact_mod_cast hW
  have hWc : (W : ℂ) ≠ 0 := by exact_mod_cast hW.ne'
  refine ⟨?_, ?_, ?_, ?_⟩
  · intro hb
    have hsum : ∑ k ∈ range W, ‖x (n + k) i‖ ≤ W := by
      calc ∑ k ∈ range W, ‖x (n + k) i‖ ≤ ∑ k ∈ range W, (1 : ℝ) :=
            Finset.sum_le_sum fun k hk => hb k (Finset.mem_range.mp hk)
        _ = W := by simp
    constructor
    · rw [(C10_time_average_def W x n i).1, norm_div, Complex.norm_natCast, div_le_one hWr]
      exact (norm_sum_le _ _).trans hsum
    · rw [(C10_time_average_def W x n i).2.2, div_le_one hWr]
      exact hsum
  · intro z hz
    constructor
    · rw [(C10_time_average_def W x n i).1,
        Finset.sum_congr rfl fun k hk => hz k (Finset.mem_range.mp hk), Finset.sum_const,
        Finset.card_range, nsmul_eq_mul]
      field_simp
    · simp only [timeAvgSep, sumRange_eq]
      have h1 : ∀ k ∈ range W, ‖x (n + k) i‖ = ‖z‖ := fun k hk => by rw [hz k (Finset.mem_range.mp hk)]
      have h2 : ∀ k ∈ range W, Complex.arg (x (n + k) i) = Complex.arg z :=
        fun k hk => by rw [hz k (Finset.mem_range.mp hk)]
      rw [Finset.sum_congr rfl h1, Finset.sum_congr rfl h2]
      simp only [Finset.sum_const, Finset.card_range, nsmul_eq_mul]
      have e1 : (W : ℝ) * ‖z‖ / W = ‖z‖ := by field_simp
      have e2 : (W : ℝ) * Complex.arg z / W = Complex.arg z := by field_simp
      rw [e1, e2, polarC_norm_arg]
  · intro c
    simp only [timeAvg, sumRange_eq]
    rw [← Finset.mul_sum, mul_div_assoc]
  · intro c hc
    rw [(C10_time_average_def W _ n i).2.2, (C10_time_average_def W x n i).2.2]
    congr 1
    refine Finset.sum_congr rfl fun k _ => ?_
    rw [norm_mul, hc, one_mul]

/-- `time_corr` (linear dump): after the double loop over (n, nn ≤ n) and the two normalisations, the
value at lag `k` is  ⟨Re Σ_i φ_i(n) conj φ_i(n−k)⟩_{n ≥ k} / ⟨Σ_i |φ_i(n)|²⟩_n  — docs eq. (6);
the number of origins for lag k is T − k. -/
theorem C10_time_corr_def (T N : ℕ) (x : ℕ → ℕ → ℂ) (k : ℕ) :
    tcorr Complex.re conjC T N x k
      = ((∑ n ∈ (range T).filter (fun n => k ≤ n), (∑ i ∈ range N, x n i * conjC (x (n - k) i)).re)
            / ((T - k : ℕ) : ℝ))
        / ((∑ n ∈ range T, ∑ i ∈ range N, ‖x n i‖ ^ 2) / (T : ℝ)) := by
  unfold tcorr
  rw [tcorrCnt_eq, tcorrCnt_eq]
  unfold tcorrAcc
  rw [originLoop_eq, originLoop_eq]
  simp only [dotRe, sumRange_eq, Nat.sub_zero]
  congr 2
  rw [Finset.filter_true_of_mem (fun n _ => Nat.zero_le n)]
  refine Finset.sum_congr rfl fun n _ => ?_
  rw [Complex.re_sum]
  exact Finset.sum_congr rfl fun i _ => mul_conj_re_norm _

/-- lag 0 is exactly 1 (when the trajectory is not identically zero); a global rotation of all ψ
(factor `c`, |c| = 1) leaves every lag unchanged; log-spaced dumps use the single origin 0. -/
theorem C10_time_corr_props (T N : ℕ) (x : ℕ → ℕ → ℂ) (hT : 0 < T)
    (hne : (∑ n ∈ range T, ∑ i ∈ range N, ‖x n i‖ ^ 2) ≠ 0) :
    tcorr Complex.re conjC T N x 0 = 1 ∧
    (∀ c : ℂ, ‖c‖ = 1 → ∀ k, tcorr Complex.re conjC T N (fun n i => c * x n i) k
        = tcorr Complex.re conjC T N x k) ∧
    (∀ k, dotRe Complex.re conjC N x k 0 = (∑ i ∈ range N, x k i * conjC (x 0 i)).re) := by
  refine ⟨?_, ?_, ?_⟩
  · have h := C10_time_corr_def T N x 0
    simp only [Nat.sub_zero] at h
    rw [h]
    have hTr : (T : ℝ) ≠ 0 := by exact_mod_cast hT.ne'
    rw [Finset.filter_true_of_mem (fun n _ => Nat.zero_le n)]
    have : ∀ n ∈ range T, (∑ i ∈ range N, x n i * conjC (x n i)).re = ∑ i ∈ range N, ‖x n i‖ ^ 2 := by
      intro n _
      rw [Complex.re_sum]
      exact Finset.sum_congr rfl fun i _ => mul_conj_re_norm _
    rw [Finset.sum_congr rfl this]
    exact div_self (div_ne_zero hne hTr)
  · intro c hc k
    have hd : ∀ n m, dotRe Complex.re conjC N (fun n i => c * x n i) n m = dotRe Complex.re conjC N x n m := by
      intro n m
      simp only [dotRe, sumRange_eq]
      congr 1
      exact Finset.sum_congr rfl fun i _ => mul_conj_unit c _ _ hc
    unfold tcorr tcorrAcc
    simp only [hd]
  · intro k
    simp only [dotRe, sumRange_eq]

/-- non-vacuity of `C10_time_corr_props`: one frame, one particle with ψ = 1 -/
example : (∑ n ∈ range 1, ∑ i ∈ range 1, ‖(fun _ _ => (1 : ℂ)) n i‖ ^ 2) ≠ 0 := by simp

/-- `spatial_corr` = frame mean of `conditional_gr` with the complex ψ as condition: for every bin b
the half pair loop (i<j) with its factor 2 equals the ordered-pair definition (docs/gr.md):
  g_A(r_b) = (1/(N ρ)) Σ_{i≠j, |r_ij| ∈ bin b} Re(ψ_i conj ψ_j) / (π (r_{b+1}² − r_b²)),  ρ = N/V,
with minimum-image distances; `gr` is the same sum with 1 in place of the product. -/
theorem C10_spatial_corr_def (rint : ℝ → ℤ) (hr : IsRintHE rint) (H Hinv : ℕ → ℕ → ℝ) (ppp : ℕ → ℝ)
    (pos : ℕ → ℕ → ℝ) (A : ℕ → ℂ) (N maxbin : ℕ) (δ V : ℝ) (b : ℕ) :
    let d2 : ℕ → ℕ → ℝ := fun i j => norm2 (pairVec rint H Hinv ppp pos i j)
    let bin : ℕ → ℕ → ℕ → Bool := fun i j b => inBin maxbin δ (d2 i j) b
    let shell : ℝ := Real.pi * ((((b + 1 : ℕ) : ℝ) * δ) * (((b + 1 : ℕ) : ℝ) * δ) - ((b : ℝ) * δ) * ((b : ℝ) * δ))
    (∀ i j, d2 i j = d2 j i) ∧
    grNorm Real.pi δ V N (pairHist N bin (fun i j => (A j * conjC (A i)).re) b) b
      = (∑ i ∈ range N, ∑ j ∈ range N, if i ≠ j then (if bin i j b then (A i * conjC (A j)).re else 0) else 0)
          / (N : ℝ) / (shell * ((N : ℝ) / V)) ∧
    grNorm Real.pi δ V N (pairHist N bin (fun _ _ => (1 : ℝ)) b) b
      = (∑ i ∈ range N, ∑ j ∈ range N, if i ≠ j then (if bin i j b then (1 : ℝ) else 0) else 0)
          / (N : ℝ) / (shell * ((N : ℝ) / V)) := by
  intro d2 bin shell
  have hsym : ∀ i j, d2 i j = d2 j i := by
    intro i j
    simp only [d2, pairVec]
    have : (fun k => pos j k - pos i k) = (fun k => - (pos i k - pos j k)) := by funext k; ring
    rw [this]
    have hodd : Pbc.removePbc 2 rint H Hinv ppp (fun k => - (pos i k - pos j k))
        = fun k => - Pbc.removePbc 2 rint H Hinv ppp (fun k => pos i k - pos j k) k := by
      funext k; exact Pbc.C02_odd 2 rint hr H Hinv ppp _ k
    rw [hodd, norm2_neg]
  have hbin : ∀ i j, bin i j b = bin j i b := by intro i j; simp only [bin, hsym i j]
  have key : ∀ s : ℕ → ℕ → ℝ, (∀ i j, s i j = s j i) →
      grNorm Real.pi δ V N (pairHist N bin s b) b
        = (∑ i ∈ range N, ∑ j ∈ range N, if i ≠ j then (if bin i j b then s i j else 0) else 0)
            / (N : ℝ) / (shell * ((N : ℝ) / V)) := by
    intro s hs
    have hf : ∀ i j, (if bin i j b then s i j else 0) = (if bin j i b then s j i else 0) := by
      intro i j; rw [hbin i j, hs i j]
    have := pairLoop_double N (fun i j => if bin i j b then s i j else 0) hf
    unfold grNorm pairHist
    simp only
    rw [← this]
    simp only [shell]
    push_cast
    ring
  refine ⟨hsym, ?_, ?_⟩
  · have h1 := key (fun i j => (A j * conjC (A i)).re) (fun i j => mul_conj_re_symm _ _)
    rw [h1]
    congr 2
    refine Finset.sum_congr rfl fun i _ => Finset.sum_congr rfl fun j _ => ?_
    rw [mul_conj_re_symm (A j) (A i)]
  · exact key (fun _ _ => 1) (fun _ _ => rfl)

/-- frame average of `spatial_corr` (`glresults /= nsnapshots`) and the histogram convention: bins are
half-open `[bδ, (b+1)δ)` on the distance (decided on squared distances), the last one closed; a
distance falls into at most one bin. -/
theorem C10_spatial_corr_bins (maxbin : ℕ) (δ d2 : ℝ) (hδ : 0 < δ) (b b' : ℕ)
    (hb : inBin maxbin δ d2 b = true) (hb' : inBin maxbin δ d2 b' = true)
    (hlt : b < maxbin) (hlt' : b' < maxbin) :
    b = b' ∧ (∀ (T : ℕ) (f : ℕ → ℝ), frameMean T f = (∑ t ∈ range T, f t) / T) := by
  refine ⟨?_, fun T f => by simp only [frameMean, sumRange_eq]⟩
  simp only [inBin, Bool.and_eq_true, Bool.or_eq_true, decide_eq_true_eq, beq_iff_eq] at hb hb'
  by_contra hne
  rcases Nat.lt_or_gt_of_ne hne with h | h
  · -- b < b' : upper edge of b ≤ lower edge of b'
    have h1 : ((b + 1 : ℕ) : ℝ) * δ ≤ (b' : ℝ) * δ := by
      apply mul_le_mul_of_nonneg_right _ hδ.le; exact_mod_cast h
    have hpos : 0 ≤ ((b + 1 : ℕ) : ℝ) * δ := by positivity
    have h2 : (((b + 1 : ℕ) : ℝ) * δ) * (((b + 1 : ℕ) : ℝ) * δ) ≤ ((b' : ℝ) * δ) * ((b' : ℝ) * δ) :=
      mul_le_mul h1 h1 hpos (hpos.trans h1)
    rcases hb.2 with h3 | ⟨h3, _⟩
    · linarith [hb'.1]
    · omega
  · have h1 : ((b' + 1 : ℕ) : ℝ) * δ ≤ (b : ℝ) * δ := by
      apply mul_le_mul_of_nonneg_right _ hδ.le; exact_mod_cast h
    have hpos : 0 ≤ ((b' + 1 : ℕ) : ℝ) * δ := by positivity
    have h2 : (((b' + 1 : ℕ) : ℝ) * δ) * (((b' + 1 : ℕ) : ℝ) * δ) ≤ ((b : ℝ) * δ) * ((b : ℝ) * δ) :=
      mul_le_mul h1 h1 hpos (hpos.trans h1)
    rcases hb'.2 with h3 | ⟨h3, _⟩
    · linarith [hb.1]
    · omega

end Pms.Boo2d
