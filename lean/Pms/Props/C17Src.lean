import Pms.GenR.LocalOrder
import Pms.Lemmas.LocalOrder

/-!
# C17 — the formula fragments REGENERATED from the source equal the model definitions

`Pms.GenR.LocalOrder` is rewritten from the current pymattersim tree on every run by
`translator/gens/localorder.py`.  Each theorem below states that a regenerated term is the corresponding
piece of the hand-written model `Pms.LocalOrder` (about which `Pms/Props/C17.lean` proves the property), so
a change to one of these source formulas either keeps the theorem true or breaks elaboration.  Property
theorems only.
-/
set_option linter.unusedSectionVars false
namespace Pms.LocalOrder
open Pms

variable {K : Type} [Field K] [LinearOrder K] [IsStrictOrderedRing K]

theorem C17_src_gauss (exp sqrt : K → K) (pi x sigma : K) :
    GenR.LocalOrder.grid_gaussian exp sqrt pi x sigma = gauss exp sqrt pi x sigma := by
  simp only [GenR.LocalOrder.grid_gaussian, gauss, pow_two, Nat.cast_ofNat]

theorem C17_src_s2_integrand (log : K → K) (d : ℕ) (g r : K) :
    GenR.LocalOrder.s2_y log g * GenR.LocalOrder.s2_weight r d = integrand log d g r := by
  simp only [GenR.LocalOrder.s2_y, GenR.LocalOrder.s2_weight, integrand, powNat_eq]

theorem C17_src_s2_bin (rdelta : K) (k : ℕ) : GenR.LocalOrder.s2_bin (k : K) rdelta = bin rdelta k := by
  simp only [GenR.LocalOrder.s2_bin, bin, Nat.cast_ofNat]

theorem C17_src_s2_norms (d : ℕ) (pi rho r : K) :
    shell d pi rho r = if d = 2 then GenR.LocalOrder.s2_norm2 pi r rho else GenR.LocalOrder.s2_norm3 pi r rho := by
  simp only [shell, GenR.LocalOrder.s2_norm2, GenR.LocalOrder.s2_norm3, pow_two, Nat.cast_ofNat]

theorem C17_src_s2_prefactor (exp log sqrt : K → K) (pi : K) (d N i ndelta : ℕ) (hd : 1 ≤ d) (rdelta rho : K)
    (dist : ℕ → K) (typ : ℕ → ℕ) (sig : ℕ → ℕ → K) (keep : ℕ → Bool) :
    s2ImplK exp log sqrt pi d N i ndelta rdelta rho dist typ sig keep
      = GenR.LocalOrder.s2_prefactor pi (d : K) rho
          (s2Integral log d ndelta (grImplK exp sqrt pi d N i rdelta rho dist typ sig keep) (bin rdelta)) := by
  simp only [s2ImplK, GenR.LocalOrder.s2_prefactor, Nat.cast_sub hd, Nat.cast_one]

theorem C17_src_tetra (sqrt : K → K) (R : ℕ → ℕ → K) (nb : ℕ → ℕ) :
    tetraImpl sqrt R nb
      = GenR.LocalOrder.tetra_final
          (pairLoop GenR.LocalOrder.tetra_num_nearest fun j k =>
            GenR.LocalOrder.tetra_term (dot 3 (R (nb j)) (R (nb k)))
              (norm sqrt 3 (R (nb j)) * norm sqrt 3 (R (nb k))))
          (GenR.LocalOrder.tetra_num_nearest : K) := by
  simp only [tetraImpl, GenR.LocalOrder.tetra_final, GenR.LocalOrder.tetra_term,
    GenR.LocalOrder.tetra_num_nearest, tetraTerm, cosPair, pow_two, Nat.cast_ofNat, div_one]

theorem C17_src_nematic_entry (d : ℕ) (u : ℕ → K) (x y : ℕ) :
    GenR.LocalOrder.nematic_entry (d : K) (u x) (u y) (if x = y then 1 else 0) = qRaw d u x y := by
  simp only [GenR.LocalOrder.nematic_entry, qRaw, Nat.cast_ofNat]

theorem C17_src_nematic_scalar (sqrt : K → K) (Q : ℕ → ℕ → K) (lam : K) :
    nematicTrace sqrt 2 Q = sqrt (traceSq 2 Q * GenR.LocalOrder.nematic_factor 2) ∧
    GenR.LocalOrder.nematic_eig lam = nematicEig lam := by
  constructor
  · simp only [nematicTrace, GenR.LocalOrder.nematic_factor]; norm_num
  · simp only [GenR.LocalOrder.nematic_eig, nematicEig, Nat.cast_ofNat, div_one]

theorem C17_src_cg_divisor (n : ℕ) : GenR.LocalOrder.cg_divisor (n : K) = ((1 + n : ℕ) : K) := by
  simp only [GenR.LocalOrder.cg_divisor]; push_cast; rfl

theorem C17_src_gyration (sqrt log10 : K → K) (d N : ℕ) (l : ℕ → K) :
    GenR.LocalOrder.gyr_rg sqrt (sumRange d l) = radGyr sqrt d l ∧
    GenR.LocalOrder.gyr_acyl l = acyl l ∧
    GenR.LocalOrder.gyr_asph l (sumRange 3 l) = asph l ∧
    GenR.LocalOrder.gyr_aniso (asph l) (acyl l) (radGyr sqrt 3 l) = aniso sqrt l ∧
    GenR.LocalOrder.gyr_fractal log10 (N : K) (radGyr sqrt d l) = fractalDim sqrt log10 d N l := by
  refine ⟨rfl, rfl, ?_, ?_, rfl⟩
  · simp only [GenR.LocalOrder.gyr_asph, asph, Nat.cast_ofNat, Nat.cast_one]
  · simp only [GenR.LocalOrder.gyr_aniso, aniso, powNat_eq, Nat.cast_ofNat]

/-- the `combinations` lists are exactly the index pairs `m ≤ n` below the dimension (what `gyrImpl` assumes) -/
theorem C17_src_gyration_combos :
    (∀ m n, (m, n) ∈ GenR.LocalOrder.gyr_combos3 ↔ m ≤ n ∧ n < 3) ∧
    (∀ m n, (m, n) ∈ GenR.LocalOrder.gyr_combos2 ↔ m ≤ n ∧ n < 2) := by
  constructor <;> intro m n <;> simp only [GenR.LocalOrder.gyr_combos3, GenR.LocalOrder.gyr_combos2,
    List.mem_cons, Prod.mk.injEq, List.mem_nil_iff, or_false] <;> omega

/-- the non-arithmetic key statements of the five routines are the ones the model was written against -/
theorem C17_src_statements : GenR.LocalOrder.statements = [
    ("s2_rmax", "rmax = gr_bins.max()"),
    ("s2_rij", "RIJ = np.delete(snapshot.positions, i, axis=0) - snapshot.positions[i]"),
    ("s2_pbc", "RIJ = remove_pbc(RIJ, snapshot.hmatrix, self.ppp)"),
    ("s2_distance", "distance = np.linalg.norm(RIJ, axis=1)"),
    ("s2_condition", "condition = distance < rmax"),
    ("s2_filter", "distance = distance[condition]"),
    ("s2_itype", "itype = int(snapshot.particle_type[i] - 1)"),
    ("s2_jtypes", "jtypes = (np.delete(snapshot.particle_type, i) - 1).astype(np.int64)[condition]"),
    ("s2_sigma", "sigma = self.sigmas[itype, jtypes[j]]"),
    ("s2_accumulate", "gr_i += grid_gaussian(gr_bins - rij, sigma)"),
    ("s2_normalise", "gr_i /= norms"),
    ("s2_rhototal", "self.rhototal = self.nparticle / self.boxvolume"),
    ("s2_boxvolume", "self.boxvolume = np.prod(self.snapshots.snapshots[0].boxlength)"),
    ("tetra_rij", "RIJ = snapshot.positions - snapshot.positions[i]"),
    ("tetra_pbc", "RIJ = remove_pbc(RIJ, snapshot.hmatrix, ppp)"),
    ("tetra_distance", "distance = np.linalg.norm(RIJ, axis=1)"),
    ("tetra_select", "nearests = np.argpartition(distance, num_nearest)[:num_nearest + 1]"),
    ("tetra_drop_self", "nearests = [j for j in nearests if j != i]"),
    ("tetra_medium1", "medium1 = np.dot(RIJ[nearests[j]], RIJ[nearests[k]])"),
    ("tetra_medium2", "medium2 = distance[nearests[j]] * distance[nearests[k]]"),
    ("tetra_loops", "for (n, snapshot) in enumerate(snapshots.snapshots) | for i in range(snapshot.nparticle) | for j in range(num_nearest - 1) | for k in range(j + 1, num_nearest)"),
    ("nematic_mu", "mu = snapshot.positions[i]"),
    ("nematic_trace", "Qtrace[n, i] = np.trace(np.matmul(QIJ[n, i], QIJ[n, i]))"),
    ("nematic_sqrt", "Qtrace = np.sqrt(Qtrace)"),
    ("nematic_cg", "QIJ = spatial_average(input_property=QIJ, neighborfile=neighborfile, Nmax=Nmax)"),
    ("nematic_assert", "assert ndim == 2, 'please set the correction dimensionality'"),
    ("cg_copy", "cg_input_property = np.copy(input_property)"),
    ("cg_read", "cnlist = read_neighbors(fneighbor, input_property.shape[1], Nmax)"),
    ("cg_add", "cg_input_property[n, i] += input_property[n, j]"),
    ("cg_loops", "for n in range(input_property.shape[0]) | for i in range(input_property.shape[1]) | for j in cnlist[i, 1:1 + cnlist[i, 0]]"),
    ("gyr_centre", "center_of_mass = pos_group.mean(axis=0)[np.newaxis, :]"),
    ("gyr_moment", "Smn += pos_group[i, m] * pos_group[i, n]"),
    ("gyr_fill_mn", "results[m, n] = Smn / num_particles"),
    ("gyr_fill_nm", "results[n, m] = Smn / num_particles"),
    ("gyr_eig", "principal_component = np.sort(np.linalg.eig(results)[0])"),
    ("gyr_returns", "[radius_of_gyration, asphericity, acylindricity, shape_anisotropy, fractal_dimension] | [radius_of_gyration, acylindricity, fractal_dimension]"),
    ("gyr_branches", "ndim == 3 | ndim == 2 | ndim == 3")
  ] := by
  decide +kernel

end Pms.LocalOrder
