import Pms.Model.Vec
import Pms.Lemmas.Basic

/-! # C15 — vector-field measures (`PyMatterSim/static/vector.py`) -/
open Finset
namespace Pms.Vec
open Pms

variable {K : Type} [Field K] [LinearOrder K] [IsStrictOrderedRing K]

/-- the code's two-step formula is the property's `(Σ|e|²)² / (N Σ|e|⁴)` (for every field, also the zero field) -/
theorem C15_pr_def (N d : ℕ) (v : ℕ → ℕ → K) : prImpl N d v = prSpec N d v := by
  unfold prImpl prSpec norm2 dot sq
  simp only
  rw [div_mul_eq_mul_div, one_mul, mul_comm ((N : K))]

end Pms.Vec
