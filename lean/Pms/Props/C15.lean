import Pms.Lemmas.Vec
import Mathlib.Tactic.FieldSimp
import Mathlib.Tactic.Ring
import Mathlib.Tactic.Linarith
import Mathlib.Tactic.IntervalCases

/-!
# C15 — vector-field measures (`PyMatterSim/static/vector.py`), real-valued part

Property theorems only.  `K` is any ordered field (so ℝ — the intended meaning of the float code —
and ℚ, the driver instance); `N`, `d`, the field `v`, the neighbour table (`cn`, `nb`), the cell,
the mask, the eigen-data are arbitrary.  The Fourier part is in `Pms/Props/C15F.lean`.
-/
open Finset
namespace Pms.Vec
open Pms

variable {K : Type} [Field K] [LinearOrder K] [IsStrictOrderedRing K]

/-! ### participation ratio -/

omit [LinearOrder K] [IsStrictOrderedRing K] in
/-- the code's two-step formula is the property's `(Σ|e|²)² / (N Σ|e|⁴)`, for every field
(also the zero field, where both sides are the totalised `0/0`) -/
theorem C15_pr_def (N d : ℕ) (v : ℕ → ℕ → K) :
    prImpl N d v
      = (∑ i ∈ range N, ∑ k ∈ range d, v i k * v i k) ^ 2
          / ((N : K) * ∑ i ∈ range N, (∑ k ∈ range d, v i k * v i k) ^ 2) := by
  unfold prImpl sq
  simp only [sumRange_eq]
  rw [div_mul_eq_mul_div, one_mul, mul_comm ((N : K)), pow_two]
  congr 2
  exact Finset.sum_congr rfl fun i _ => (pow_two _).symm

omit [LinearOrder K] [IsStrictOrderedRing K] in
/-- `prSpec` is the same formula (the driver evaluates both) -/
theorem C15_pr_spec (N d : ℕ) (v : ℕ → ℕ → K) : prImpl N d v = prSpec N d v := by
  unfold prImpl prSpec norm2 dot sq
  simp only
  rw [div_mul_eq_mul_div, one_mul, mul_comm ((N : K))]

/-- `1/N ≤ PR ≤ 1` for every field that is not identically zero (Cauchy–Schwarz) -/
theorem C15_pr_bounds (N d : ℕ) (v : ℕ → ℕ → K) (hnz : ∃ i < N, ∃ k < d, v i k ≠ 0) :
    1 / (N : K) ≤ prImpl N d v ∧ prImpl N d v ≤ 1 := by
  obtain ⟨i0, hi0, k0, hk0, hv⟩ := hnz
  rw [C15_pr_spec]
  unfold prSpec sq
  simp only [sumRange_eq]
  set a : ℕ → K := fun i => norm2 d v i with ha
  have hnn : ∀ i, 0 ≤ a i := fun i => norm2_nonneg d v i
  have hNpos : (0 : K) < (N : K) := by
    have : 0 < N := by omega
    exact_mod_cast this
  have hQpos : 0 < ∑ i ∈ range N, a i * a i := by
    have h1 : a i0 * a i0 ≤ ∑ i ∈ range N, a i * a i :=
      Finset.single_le_sum (f := fun i => a i * a i) (fun i _ => mul_self_nonneg _) (Finset.mem_range.mpr hi0)
    have h2 : 0 < a i0 := norm2_pos d v i0 k0 hk0 hv
    have h3 : 0 < a i0 * a i0 := mul_pos h2 h2
    linarith
  have hden : 0 < (N : K) * ∑ i ∈ range N, a i * a i := mul_pos hNpos hQpos
  constructor
  · rw [div_le_div_iff₀ hNpos hden, one_mul]
    have := sum_sq_le_sq_sum N a hnn
    nlinarith [this, hNpos]
  · rw [div_le_one hden]
    exact sq_sum_le_card N a

omit [LinearOrder K] [IsStrictOrderedRing K] in
/-- scale invariance: `PR(c·e) = PR(e)` for every `c ≠ 0` -/
theorem C15_pr_scale (N d : ℕ) (v : ℕ → ℕ → K) (c : K) (hc : c ≠ 0) :
    prImpl N d (fun i k => c * v i k) = prImpl N d v := by
  rw [C15_pr_def, C15_pr_def]
  have h1 : ∀ i, (∑ k ∈ range d, c * v i k * (c * v i k)) = c ^ 2 * ∑ k ∈ range d, v i k * v i k := by
    intro i; rw [Finset.mul_sum]; exact Finset.sum_congr rfl fun k _ => by ring
  simp only [h1]
  rw [← Finset.mul_sum]
  have h2 : ∑ i ∈ range N, (c ^ 2 * ∑ k ∈ range d, v i k * v i k) ^ 2
      = c ^ 4 * ∑ i ∈ range N, (∑ k ∈ range d, v i k * v i k) ^ 2 := by
    rw [Finset.mul_sum]; exact Finset.sum_congr rfl fun i _ => by ring
  rw [h2]
  have hc4 : c ^ 4 ≠ 0 := pow_ne_zero 4 hc
  rw [show (c ^ 2 * ∑ i ∈ range N, ∑ k ∈ range d, v i k * v i k) ^ 2
        = c ^ 4 * (∑ i ∈ range N, ∑ k ∈ range d, v i k * v i k) ^ 2 by ring,
      show (N : K) * (c ^ 4 * ∑ i ∈ range N, (∑ k ∈ range d, v i k * v i k) ^ 2)
        = c ^ 4 * ((N : K) * ∑ i ∈ range N, (∑ k ∈ range d, v i k * v i k) ^ 2) by ring,
      mul_div_mul_left _ _ hc4]

/-- non-vacuity of the hypotheses of `C15_pr_bounds`, and both bounds are attained:
a uniform field has PR = 1, a field localised on one of two particles has PR = 1/2 -/
example : prImpl 2 1 (fun _ _ => (1 : ℚ)) = 1 ∧ prImpl 2 1 (fun i _ => if i = 0 then (1 : ℚ) else 0) = 1 / 2 := by
  constructor <;> decide +kernel

/-! ### local alignment and phase quotient -/

omit [LinearOrder K] [IsStrictOrderedRing K] in
/-- the local alignment of particle `i` is the mean over its neighbours of `e_i · e_j` -/
theorem C15_alignment_def (d : ℕ) (v : ℕ → ℕ → K) (cn : ℕ → ℕ) (nb : ℕ → ℕ → ℕ) (i : ℕ) :
    alignImpl d v cn nb i
      = (∑ j ∈ range (cn i), ∑ k ∈ range d, v i k * v (nb i j) k) / (cn i : K) := by
  simp [alignImpl, medium, sumRange_eq]

/-- the phase quotient is `Σ_i Σ_j e_i·e_j / Σ_i Σ_j |e_i·e_j|` over all neighbour pairs -/
theorem C15_pq_def (N d : ℕ) (v : ℕ → ℕ → K) (cn : ℕ → ℕ) (nb : ℕ → ℕ → ℕ) :
    pqImpl N d v cn nb
      = (∑ i ∈ range N, ∑ j ∈ range (cn i), ∑ k ∈ range d, v i k * v (nb i j) k)
        / (∑ i ∈ range N, ∑ j ∈ range (cn i), |∑ k ∈ range d, v i k * v (nb i j) k|) := by
  unfold pqImpl pqNum pqDen
  rw [foldRange_acc, foldRange_acc]
  simp [medium, sumRange_eq, absv_eq_abs]

/-- the phase quotient lies in `[-1, 1]` whenever it is defined (`sum_1 ≠ 0`; the code returns
`0/0 = nan` otherwise) -/
theorem C15_pq_bounds (N d : ℕ) (v : ℕ → ℕ → K) (cn : ℕ → ℕ) (nb : ℕ → ℕ → ℕ)
    (hden : pqDen N d v cn nb ≠ 0) :
    -1 ≤ pqImpl N d v cn nb ∧ pqImpl N d v cn nb ≤ 1 := by
  have hD : pqDen N d v cn nb = ∑ i ∈ range N, ∑ j ∈ range (cn i), |medium d v nb i j| := by
    unfold pqDen; rw [foldRange_acc]; simp [sumRange_eq, absv_eq_abs]
  have hN : pqNum N d v cn nb = ∑ i ∈ range N, ∑ j ∈ range (cn i), medium d v nb i j := by
    unfold pqNum; rw [foldRange_acc]; simp [sumRange_eq]
  have habs : |pqNum N d v cn nb| ≤ pqDen N d v cn nb := by
    rw [hD, hN]
    refine (Finset.abs_sum_le_sum_abs _ _).trans (Finset.sum_le_sum fun i _ => ?_)
    exact Finset.abs_sum_le_sum_abs _ _
  have hpos : 0 < pqDen N d v cn nb := by
    have h0 : 0 ≤ pqDen N d v cn nb := by
      rw [hD]; exact Finset.sum_nonneg fun i _ => Finset.sum_nonneg fun j _ => abs_nonneg _
    exact lt_of_le_of_ne h0 (Ne.symm hden)
  have := abs_le.mp habs
  unfold pqImpl
  constructor
  · rw [le_div_iff₀ hpos]; linarith [this.1]
  · rw [div_le_one hpos]; exact this.2

/-- non-vacuity of `C15_pq_bounds`, and both bounds are attained (aligned / anti-aligned pair) -/
example : pqDen 2 1 (fun _ _ => (1 : ℚ)) (fun _ => 1) (fun i _ => 1 - i) ≠ 0
    ∧ pqImpl 2 1 (fun _ _ => (1 : ℚ)) (fun _ => 1) (fun i _ => 1 - i) = 1
    ∧ pqImpl 2 1 (fun i _ => if i = 0 then (1 : ℚ) else -1) (fun _ => 1) (fun i _ => 1 - i) = -1 := by
  refine ⟨?_, ?_, ?_⟩ <;> decide +kernel

/-! ### divergence and curl -/

omit [LinearOrder K] [IsStrictOrderedRing K] in
/-- divergence and curl of particle `i` are the neighbour averages of `r_ij · u_ij` and of the
explicit components of `r_ij × u_ij`, where `r_ij` is the minimum image (`remove_pbc`, C02) of
`pos_j − pos_i` and `u_ij = e_j − e_i` -/
theorem C15_div_curl_def (d : ℕ) (rint : K → ℤ) (H Hinv : ℕ → ℕ → K) (ppp : ℕ → K)
    (pos v : ℕ → ℕ → K) (cn : ℕ → ℕ) (nb : ℕ → ℕ → ℕ) (i : ℕ) :
    let r := fun j => Pbc.removePbc d rint H Hinv ppp (fun k => pos (nb i j) k - pos i k)
    let r3 := fun j => Pbc.removePbc 3 rint H Hinv ppp (fun k => pos (nb i j) k - pos i k)
    let u := fun j k => v (nb i j) k - v i k
    divImpl d rint H Hinv ppp pos v cn nb i
        = (∑ j ∈ range (cn i), ∑ k ∈ range d, r j k * u j k) / (cn i : K)
    ∧ curlImpl rint H Hinv ppp pos v cn nb i 0
        = (∑ j ∈ range (cn i), (r3 j 1 * u j 2 - r3 j 2 * u j 1)) / (cn i : K)
    ∧ curlImpl rint H Hinv ppp pos v cn nb i 1
        = (∑ j ∈ range (cn i), (r3 j 2 * u j 0 - r3 j 0 * u j 2)) / (cn i : K)
    ∧ curlImpl rint H Hinv ppp pos v cn nb i 2
        = (∑ j ∈ range (cn i), (r3 j 0 * u j 1 - r3 j 1 * u j 0)) / (cn i : K) := by
  intro r r3 u
  refine ⟨?_, ?_, ?_, ?_⟩
  · simp [divImpl, rij, uij, sumRange_eq, r, u]
  all_goals
    unfold curlImpl
    rw [foldRange_fun_acc]
    simp [cross, rij, uij, r3, u]

omit [LinearOrder K] [IsStrictOrderedRing K] in
/-- analytic value for a linear field `e = A·x` when no displacement is wrapped (mask 0):
`div_i = (1/cn) Σ_j r_ijᵀ A r_ij`, `r_ij = x_j − x_i` — on a symmetric shell `±a ê_k` this is `a²·tr A / d` -/
theorem C15_div_linear (d : ℕ) (rint : K → ℤ) (H Hinv : ℕ → ℕ → K) (hinv : Pbc.IsInv d Hinv H)
    (A : ℕ → ℕ → K) (pos : ℕ → ℕ → K) (cn : ℕ → ℕ) (nb : ℕ → ℕ → ℕ) (i : ℕ) :
    divImpl d rint H Hinv (fun _ => 0) pos (fun p k => ∑ l ∈ range d, A k l * pos p l) cn nb i
      = (∑ j ∈ range (cn i), ∑ k ∈ range d, ∑ l ∈ range d,
            (pos (nb i j) k - pos i k) * A k l * (pos (nb i j) l - pos i l)) / (cn i : K) := by
  have hr : ∀ (r : ℕ → K) (k : ℕ), k < d → Pbc.removePbc d rint H Hinv (fun _ => 0) r k = r k := by
    intro r k hk
    have := Pbc.vecMul_inv d r Hinv H hinv k hk
    unfold Pbc.removePbc
    simp only [mul_zero, sub_zero]
    exact this
  unfold divImpl rij uij
  simp only [sumRange_eq]
  congr 1
  refine Finset.sum_congr rfl fun j _ => Finset.sum_congr rfl fun k hk => ?_
  rw [hr _ k (Finset.mem_range.mp hk), ← Finset.sum_sub_distrib, Finset.mul_sum]
  exact Finset.sum_congr rfl fun l _ => by ring

/-- non-vacuity of `hinv` in `C15_div_linear`: the unit cell -/
example : Pbc.IsInv 2 (fun i j => if i = j then (1 : ℚ) else 0) (fun i j => if i = j then (1 : ℚ) else 0) := by
  intro i hi k hk
  interval_cases i <;> interval_cases k <;> simp

/-! ### vibrability -/

omit [LinearOrder K] [IsStrictOrderedRing K] in
/-- vibrability of particle `p` is the eigenvalue-weighted mode sum `Σ_modes |e_mode,p|² / ω_mode²` -/
theorem C15_vibrability_def (M d : ℕ) (ω : ℕ → K) (E : ℕ → ℕ → K) (p : ℕ) :
    vibImpl M d ω E p = ∑ i ∈ range M, (∑ k ∈ range d, E (p * d + k) i ^ 2) / ω i ^ 2 := by
  unfold vibImpl
  rw [foldRange_fun_acc (g := fun i p => (sumRange d fun k => sq (E (p * d + k) i)) / sq (ω i))]
  simp [sq, sumRange_eq, pow_two]

omit [LinearOrder K] [IsStrictOrderedRing K] in
theorem C15_vibrability_spec (M d : ℕ) (ω : ℕ → K) (E : ℕ → ℕ → K) (p : ℕ) :
    vibImpl M d ω E p = vibSpec M d ω E p := by
  rw [C15_vibrability_def]
  simp [vibSpec, sumRange_eq, pow_two]

end Pms.Vec
