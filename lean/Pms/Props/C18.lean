import Pms.Lemmas.Purity
import Pms.Gen.Purity
import Pms.Model.PurityExpected
/-!
# C18 — analyses are pure

`Pms.Gen.Purity.routines` is REGENERATED from the pymattersim sources on every run (effect IR of every public
analysis entry point, package-internal callees inlined).  The theorems below are about the IR semantics of
`Pms/Model/Purity.lean`; what ties the IR to Python is the translator (trusted, validated at run time by the
SHA-256 monitors of `harness/corr/C18.py`).
-/
namespace Pms.Purity

/-- **Purity (soundness of the analysis).**  If `check` accepts a routine then in EVERY state reachable by ANY
finite sequence of its statements (all loop counts, all branch choices, all aliasing choices, arbitrary written
values) every buffer that existed when the routine was entered has its entry-time contents — provided that at
entry only the declared parameters reach pre-existing buffers. -/
theorem C18_sound (prog : List Stmt) (params : List Nat) (s0 : St)
    (hc : check prog params = true)
    (h0 : ∀ x l, s0.env x l → l < s0.next → params.contains x = true) :
    ∀ s, Reach prog s0 s → ∀ l, l < s0.next → s.heap l = s0.heap l :=
  fun s hr => (sound prog params s0 hc h0 s hr).2

-- non-vacuity of the entry hypothesis: a state in which only parameter 0 reaches the (one) pre-existing buffer
example : ∃ s0 : St, s0.next = 1 ∧ ∀ x l, s0.env x l → l < s0.next → [0].contains x = true :=
  ⟨{ env := fun x l => x = 0 ∧ l = 0, heap := fun _ => 7, next := 1 }, rfl, by intro x l h _; simp [h.1]⟩
-- non-vacuity: `check` accepts a copy-then-modify routine and rejects modify-through-a-view
example : check [.alias 1 [0], .fresh 2, .mutate 2, .ret [2]] [0] = true := by decide
example : check [.alias 1 [0], .mutate 1] [0] = false := by decide
example : check [.fresh 1, .store 1 [0], .alias 2 [1], .mutate 2] [0] = false := by decide

/-- a session: any number of calls of routines from `rs`, in any order, each entered with its parameters bound
to ARBITRARY already existing memory (shared snapshot objects, results of earlier calls, …) -/
inductive Session (rs : List Routine) : St → St → Prop
  | nil (s : St) : Session rs s s
  | call {s0 s1 s2 s3 : St} (r : Routine) (hr : r ∈ rs) (h : Session rs s0 s1)
      (hheap : s2.heap = s1.heap) (hnext : s2.next = s1.next)
      (hframe : ∀ x l, s2.env x l → r.params.contains x = true)
      (hrun : Reach r.prog s2 s3) : Session rs s0 s3

/-- **Interleaving.**  Whatever accepted routines are called in between, in whatever order and however often,
everything that existed at the start of the session is bit-for-bit what it was. -/
theorem C18_interleaving (rs : List Routine) (hall : ∀ r, r ∈ rs → check r.prog r.params = true)
    (s0 s : St) (h : Session rs s0 s) :
    s0.next ≤ s.next ∧ ∀ l, l < s0.next → s.heap l = s0.heap l := by
  induction h with
  | nil => exact ⟨Nat.le_refl _, fun _ _ => rfl⟩
  | call r hr _ hheap hnext hframe hrun ih =>
    obtain ⟨ihn, ihh⟩ := ih
    have := sound r.prog r.params _ (hall r hr) (fun x l hx _ => hframe x l hx) _ hrun
    refine ⟨by omega, ?_⟩
    intro l hl
    rw [this.2 l (by omega), hheap]; exact ihh l hl

/-- **Repeatability.**  A result that is a function of the contents of the session's initial buffers only
(`hdet`: determinism of numpy/pandas given bit-identical inputs — a contract) is the same after any session as
before it: a repeated call returns the identical result regardless of what was computed in between. -/
theorem C18_repeatable {R : Type} (rs : List Routine) (hall : ∀ r, r ∈ rs → check r.prog r.params = true)
    (s0 s : St) (h : Session rs s0 s) (result : (Nat → Nat) → R)
    (hdet : ∀ h1 h2 : Nat → Nat, (∀ l, l < s0.next → h1 l = h2 l) → result h1 = result h2) :
    result s.heap = result s0.heap :=
  hdet _ _ (C18_interleaving rs hall s0 s h).2

/-- **File = returned value.**  If the ordered statement list passes `writesOk`, then for every `write x` whose
value is returned (`scanToRet … = some true`) the statements executed between the write and the `ret` leave what x
reaches, and the contents of everything that existed at the time of the write, unchanged: the object handed to
the file writer is bit-for-bit the object that is returned. -/
theorem C18_written_is_returned (x : Nat) (rest : List Stmt) (h : scanToRet x rest = some true) :
    ∃ mid xs post, rest = mid ++ Stmt.ret xs :: post ∧ x ∈ xs ∧
      ∀ s s', Run s mid s' → s'.env x = s.env x ∧ ∀ l, l < s.next → s'.heap l = s.heap l := by
  obtain ⟨mid, xs, post, e, hx, hm⟩ := scan_split x rest h
  exact ⟨mid, xs, post, e, hx, fun s s' hr => (run_keeps x mid hm s s' hr).2⟩

example : scanToRet 3 [.write 4, .fresh 5, .ret [3, 5]] = some true := by decide
example : scanToRet 3 [.fresh 3, .ret [3]] = some false := by decide
example : scanToRet 3 [.mutate 9, .ret [4]] = none := by decide
example : writesOk [.write 3, .mutate 3, .ret [3]] = false := by decide

end Pms.Purity

namespace Pms.Gen.Purity
open Pms.Purity

/-- **Every regenerated entry point is accepted** by the purity analysis and by the file-vs-returned check
(kernel-evaluated decision over the whole regenerated IR). -/
theorem C18_all_routines : routines.all Routine.ok = true := by decide +kernel

/-- the set of analysed entry points is exactly the expected one (a routine that disappears from, or a new
public routine that appears in, the anchored modules breaks this) -/
theorem C18_registry : routines.map (·.name) = expectedNames := by decide +kernel

/-- the only attribute rebinding done by methods (object state) and the only process-global settings touched are the
reviewed ones; no random-number generator, no `global` statement, no unknown callee -/
theorem C18_hidden_state : stateWrites = expectedStateWrites ∧ globalEffects = expectedGlobalEffects ∧ assumptions = expectedAssumptions := by
  decide +kernel

end Pms.Gen.Purity
