import Pms.Model.Boo
import Pms.Model.BooDriver
import Pms.Gen.Boo
import Pms.GenR.Boo
import Pms.Lemmas.Basic
import Pms.Lemmas.Boo
import Pms.Lemmas.BooSph
import Pms.Lemmas.BooUnsold
import Pms.Props.C08
import Mathlib.Data.Complex.Basic
import Mathlib.Algebra.BigOperators.Field
import Mathlib.Analysis.SpecialFunctions.Sqrt
import Mathlib.Analysis.SpecialFunctions.Pow.Real
import Mathlib.Analysis.SpecialFunctions.Trigonometric.Basic

/-!
# C09 — 3-D bond-orientational order equals Steinhardt's definitions

`Pms.Boo.*Impl` (file `Pms/Model/Boo.lean`) mirror `boo_3d` statement by statement and are the definitions the
compiled driver executes against the real code on every run.  Here they are instantiated at ℝ / ℂ (`cOps`)
and proved equal to the textbook definitions, for every neighbour table, weight table, degree and table of
Y-values; the bounds are proved from the triangle inequality, Cauchy–Schwarz and Unsöld's identity.
-/
open Finset
namespace Pms.Boo

/-! ## definitions -/

/-- unweighted q_lm is the plain average of Y over the N_i bonds -/
theorem C09_qlm_def (cn : ℕ → ℕ) (Yv : ℕ → ℕ → ℕ → ℂ) (i k : ℕ) :
    qlmImpl cn Yv i k = (∑ j ∈ range (cn i), Yv i j k) / (cn i : ℂ) := by
  unfold qlmImpl
  rw [sumRange_eq]

/-- weighted q_lm: each bond enters with its weight divided by the sum of the weights of the N_i bonds of the
particle — provided the parsed weight row is padded with zeros beyond the N_i-th entry (as `read_neighbors` does) -/
theorem C09_weighted_def (cn : ℕ → ℕ) (W : ℕ) (w : ℕ → ℕ → ℝ) (Yv : ℕ → ℕ → ℕ → ℂ) (i k : ℕ)
    (hW : cn i ≤ W) (hpad : ∀ j, cn i ≤ j → j < W → w i j = 0) :
    qlmWImpl cOps cn W w Yv i k
      = ∑ j ∈ range (cn i), ((w i j / ∑ j' ∈ range (cn i), w i j' : ℝ) : ℂ) * Yv i j k := by
  unfold qlmWImpl wfrac
  rw [sumRange_eq, sumRange_eq]
  have hs : ∑ j ∈ range W, w i j = ∑ j ∈ range (cn i), w i j := by
    symm
    apply Finset.sum_subset (Finset.range_subset_range.2 hW)
    intro j hj hnj
    simp only [Finset.mem_range, not_lt] at hj hnj
    exact hpad j hnj hj
  rw [hs]
  exact Finset.sum_congr rfl fun j _ => by
    show Yv i j k * Complex.ofReal _ = _
    rw [mul_comm]

example : ∃ (cn : ℕ → ℕ) (W : ℕ) (w : ℕ → ℕ → ℝ), cn 0 ≤ W ∧ ∀ j, cn 0 ≤ j → j < W → w 0 j = 0 :=
  ⟨fun _ => 2, 3, fun _ j => if j < 2 then 1 else 0, by norm_num, fun j h1 _ => by
    have h1' : 2 ≤ j := h1
    have : ¬ j < 2 := by omega
    simp [this]⟩

/-- equal weights reproduce the unweighted result -/
theorem C09_equal_weights (cn : ℕ → ℕ) (W : ℕ) (w : ℕ → ℕ → ℝ) (Yv : ℕ → ℕ → ℕ → ℂ) (i k : ℕ) (a : ℝ) (ha : a ≠ 0)
    (hW : cn i ≤ W) (hpad : ∀ j, cn i ≤ j → j < W → w i j = 0) (heq : ∀ j, j < cn i → w i j = a) :
    qlmWImpl cOps cn W w Yv i k = qlmImpl cn Yv i k := by
  rw [C09_weighted_def cn W w Yv i k hW hpad, C09_qlm_def]
  have hs : ∑ j' ∈ range (cn i), w i j' = cn i * a := by
    rw [Finset.sum_congr rfl fun j hj => heq j (Finset.mem_range.1 hj)]
    simp
  rw [hs, Finset.sum_div]
  apply Finset.sum_congr rfl
  intro j hj
  rw [heq j (Finset.mem_range.1 hj)]
  have hn : (cn i : ℝ) ≠ 0 := by
    have : 0 < cn i := Nat.lt_of_le_of_lt (Nat.zero_le j) (Finset.mem_range.1 hj)
    exact_mod_cast this.ne'
  have hnc : (cn i : ℂ) ≠ 0 := by exact_mod_cast hn
  have : (a / (cn i * a) : ℝ) = 1 / (cn i : ℝ) := by field_simp
  rw [this]; push_cast; field_simp

/-- coarse graining: the mean over the particle itself and its N_i neighbours -/
theorem C09_coarse_def (cn : ℕ → ℕ) (nb : ℕ → ℕ → ℕ) (q : ℕ → ℕ → ℂ) (i k : ℕ) :
    QlmImpl cn nb q i k = (q i k + ∑ j ∈ range (cn i), q (nb i j) k) / ((1 : ℂ) + cn i) := by
  unfold QlmImpl
  rw [sumRange_eq]; push_cast; rfl

/-- q_l = √(4π/(2l+1) Σ_m |q_lm|²), and this is the REGENERATED expression of `ql_Ql` -/
theorem C09_ql_def (l : ℕ) (q : ℕ → ℂ) :
    ql cOps l q = Real.sqrt (4 * Real.pi / (2 * l + 1) * ∑ k ∈ range (2 * l + 1), Complex.normSq (q k))
    ∧ ql cOps l q = Pms.GenR.Boo.qlExpr l (∑ k ∈ range (2 * l + 1), Complex.normSq (q k)) := by
  have h : ql cOps l q = Real.sqrt (4 * Real.pi / (2 * l + 1) * ∑ k ∈ range (2 * l + 1), Complex.normSq (q k)) := by
    unfold ql qlSq sumSq
    rw [sumRange_eq]
    show Real.sqrt (((4 : ℕ) : ℝ) * Real.pi / ((2 * l + 1 : ℕ) : ℝ) * _) = _
    push_cast; rfl
  exact ⟨h, by rw [h]; unfold Pms.GenR.Boo.qlExpr; rfl⟩

/-- s_ij = Re(q_i · conj q_j) / (|q_i| |q_j|) -/
theorem C09_sij_def (L : ℕ) (qi qj : ℕ → ℂ) :
    sij cOps L qi qj = (∑ k ∈ range L, qi k * (starRingEnd ℂ) (qj k)).re
      / (Real.sqrt (∑ k ∈ range L, Complex.normSq (qi k)) * Real.sqrt (∑ k ∈ range L, Complex.normSq (qj k))) := by
  unfold sij sijUp vnorm sumSq
  simp only [sumRange_eq]
  rfl

/-- the thresholded count is the number of bonds j < N_i with s_ij > c -/
theorem C09_count_def (L : ℕ) (c : ℝ) (cn : ℕ → ℕ) (nb : ℕ → ℕ → ℕ) (q : ℕ → ℕ → ℂ) (i : ℕ) :
    sijCount cOps L c cn nb q i = ((range (cn i)).filter fun j => c < sij cOps L (q i) (q (nb i j))).card := by
  unfold sijCount
  rw [sumRange_eq, Finset.card_filter]

/-! ## bounds -/

/-- |s_ij| ≤ 1 always (Cauchy–Schwarz; also when a vector vanishes, where the model value is 0) -/
theorem C09_sij_bound (L : ℕ) (qi qj : ℕ → ℂ) : |sij cOps L qi qj| ≤ 1 := by
  rw [C09_sij_def, abs_div]
  have h := abs_re_inner_le L qi qj
  have hnn : 0 ≤ Real.sqrt (∑ k ∈ range L, Complex.normSq (qi k)) * Real.sqrt (∑ k ∈ range L, Complex.normSq (qj k)) :=
    mul_nonneg (Real.sqrt_nonneg _) (Real.sqrt_nonneg _)
  rw [abs_of_nonneg hnn]
  exact div_le_one_of_le₀ h hnn

/-- the thresholded count never exceeds the number of neighbours -/
theorem C09_count_le (L : ℕ) (c : ℝ) (cn : ℕ → ℕ) (nb : ℕ → ℕ → ℕ) (q : ℕ → ℕ → ℂ) (i : ℕ) :
    sijCount cOps L c cn nb q i ≤ cn i := by
  rw [C09_count_def]
  exact (Finset.card_filter_le _ _).trans (by simp)

/-- Unsöld's identity as a property of the table of Y-values of particle i -/
def Unsold (l : ℕ) (cn : ℕ → ℕ) (Yv : ℕ → ℕ → ℕ → ℂ) (i : ℕ) : Prop :=
  ∀ j, j < cn i → ∑ k ∈ range (2 * l + 1), Complex.normSq (Yv i j k) = (2 * l + 1) / (4 * Real.pi)

/-- if Σ_m |q_lm|² ≤ (2l+1)/(4π) then 0 ≤ q_l ≤ 1 -/
theorem C09_ql_le_one (l : ℕ) (q : ℕ → ℂ)
    (h : ∑ k ∈ range (2 * l + 1), Complex.normSq (q k) ≤ (2 * l + 1) / (4 * Real.pi)) :
    0 ≤ ql cOps l q ∧ ql cOps l q ≤ 1 := by
  rw [(C09_ql_def l q).1]
  refine ⟨Real.sqrt_nonneg _, ?_⟩
  rw [Real.sqrt_le_one]
  have hp : 0 < 4 * Real.pi / (2 * (l : ℝ) + 1) := by positivity
  calc 4 * Real.pi / (2 * l + 1) * ∑ k ∈ range (2 * l + 1), Complex.normSq (q k)
      ≤ 4 * Real.pi / (2 * l + 1) * ((2 * l + 1) / (4 * Real.pi)) := mul_le_mul_of_nonneg_left h hp.le
    _ = 1 := by
      have := Real.pi_pos
      field_simp

/-- Σ_m |q_lm|² ≤ (2l+1)/(4π) for the unweighted average -/
theorem C09_sumSq_bound (l : ℕ) (cn : ℕ → ℕ) (Yv : ℕ → ℕ → ℕ → ℂ) (i : ℕ) (hcn : 0 < cn i) (hU : Unsold l cn Yv i) :
    ∑ k ∈ range (2 * l + 1), Complex.normSq (qlmImpl cn Yv i k) ≤ (2 * l + 1) / (4 * Real.pi) := by
  have hR : (0 : ℝ) ≤ (2 * l + 1) / (4 * Real.pi) := by positivity
  have hn : (cn i : ℝ) ≠ 0 := by exact_mod_cast hcn.ne'
  have key := sumSq_comb_le (2 * l + 1) (cn i) (fun _ => 1 / (cn i : ℝ)) (Yv i) _ hR
    (fun j _ => by positivity) (by simp [hn]) (fun j hj => (hU j (Finset.mem_range.1 hj)).le)
  refine le_trans (le_of_eq (Finset.sum_congr rfl fun k _ => ?_)) key
  congr 1
  rw [C09_qlm_def, Finset.sum_div]
  exact Finset.sum_congr rfl fun j _ => by push_cast; ring

/-- 0 ≤ q_l ≤ 1 for the unweighted q_lm of a particle with at least one neighbour -/
theorem C09_ql_bounds (l : ℕ) (cn : ℕ → ℕ) (Yv : ℕ → ℕ → ℕ → ℂ) (i : ℕ) (hcn : 0 < cn i) (hU : Unsold l cn Yv i) :
    0 ≤ ql cOps l (qlmImpl cn Yv i) ∧ ql cOps l (qlmImpl cn Yv i) ≤ 1 :=
  C09_ql_le_one l _ (C09_sumSq_bound l cn Yv i hcn hU)

/-- the same for the weighted average with non-negative weights -/
theorem C09_sumSq_bound_weighted (l : ℕ) (cn : ℕ → ℕ) (W : ℕ) (w : ℕ → ℕ → ℝ) (Yv : ℕ → ℕ → ℕ → ℂ) (i : ℕ)
    (hW : cn i ≤ W) (hw : ∀ j, j < W → 0 ≤ w i j) (hU : Unsold l cn Yv i) :
    ∑ k ∈ range (2 * l + 1), Complex.normSq (qlmWImpl cOps cn W w Yv i k) ≤ (2 * l + 1) / (4 * Real.pi) := by
  have hR : (0 : ℝ) ≤ (2 * l + 1) / (4 * Real.pi) := by positivity
  have hS : 0 ≤ ∑ j ∈ range W, w i j := Finset.sum_nonneg fun j hj => hw j (Finset.mem_range.1 hj)
  have key := sumSq_comb_le (2 * l + 1) (cn i) (fun j => w i j / ∑ j' ∈ range W, w i j') (Yv i) _ hR
    (fun j hj => div_nonneg (hw j (lt_of_lt_of_le (Finset.mem_range.1 hj) hW)) hS)
    (by
      rw [← Finset.sum_div]
      apply div_le_one_of_le₀ _ hS
      exact Finset.sum_le_sum_of_subset_of_nonneg (Finset.range_subset_range.2 hW)
        (fun j hj _ => hw j (Finset.mem_range.1 hj)))
    (fun j hj => (hU j (Finset.mem_range.1 hj)).le)
  refine le_trans (le_of_eq (Finset.sum_congr rfl fun k _ => ?_)) key
  congr 1
  unfold qlmWImpl wfrac
  rw [sumRange_eq, sumRange_eq]
  exact Finset.sum_congr rfl fun j _ => by
    show Yv i j k * Complex.ofReal _ = _
    rw [mul_comm]

/-- 0 ≤ q_l ≤ 1 for the weighted q_lm with non-negative weights (any padding) -/
theorem C09_ql_bounds_weighted (l : ℕ) (cn : ℕ → ℕ) (W : ℕ) (w : ℕ → ℕ → ℝ) (Yv : ℕ → ℕ → ℕ → ℂ) (i : ℕ)
    (hW : cn i ≤ W) (hw : ∀ j, j < W → 0 ≤ w i j) (hU : Unsold l cn Yv i) :
    0 ≤ ql cOps l (qlmWImpl cOps cn W w Yv i) ∧ ql cOps l (qlmWImpl cOps cn W w Yv i) ≤ 1 :=
  C09_ql_le_one l _ (C09_sumSq_bound_weighted l cn W w Yv i hW hw hU)

/-- coarse graining preserves the bound: if every particle's vector has Σ_m|q_lm|² ≤ (2l+1)/(4π) then so has Q -/
theorem C09_Ql_bounds (l : ℕ) (cn : ℕ → ℕ) (nb : ℕ → ℕ → ℕ) (q : ℕ → ℕ → ℂ) (i : ℕ)
    (hq : ∀ p, ∑ k ∈ range (2 * l + 1), Complex.normSq (q p k) ≤ (2 * l + 1) / (4 * Real.pi)) :
    0 ≤ ql cOps l (QlmImpl cn nb q i) ∧ ql cOps l (QlmImpl cn nb q i) ≤ 1 := by
  apply C09_ql_le_one
  have hR : (0 : ℝ) ≤ (2 * l + 1) / (4 * Real.pi) := by positivity
  let v : ℕ → ℕ → ℂ := fun j => match j with | 0 => q i | j + 1 => q (nb i j)
  have hn : ((cn i : ℝ) + 1) ≠ 0 := by positivity
  have key := sumSq_comb_le (2 * l + 1) (cn i + 1) (fun _ => 1 / ((cn i : ℝ) + 1)) v _ hR
    (fun j _ => by positivity) (by simp [hn])
    (fun j _ => by cases j <;> exact hq _)
  refine le_trans (le_of_eq (Finset.sum_congr rfl fun k _ => ?_)) key
  congr 1
  rw [C09_coarse_def, Finset.sum_range_succ', ← Finset.mul_sum]
  have hnc : ((1 : ℂ) + (cn i : ℂ)) ≠ 0 := by
    have : ((1 : ℝ) + (cn i : ℝ)) ≠ 0 := by positivity
    exact_mod_cast this
  have hnc' : ((cn i : ℂ) + 1) ≠ 0 := by rw [add_comm]; exact hnc
  show _ = ((1 / ((cn i : ℝ) + 1) : ℝ) : ℂ) * ∑ j ∈ range (cn i), q (nb i j) k + ((1 / ((cn i : ℝ) + 1) : ℝ) : ℂ) * q i k
  push_cast
  field_simp
  ring

/-! ## w_l and ŵ_l -/

/-- w_l = Σ_{m1+m2+m3=0} (l l l; m1 m2 m3) Re(q_{m1} q_{m2} q_{m3}), the m's running over −l..l (array index m+l);
the index triples are the REGENERATED loops and condition of `funcs.Wignerindex`, the shift the regenerated `+ self.l` -/
theorem C09_w_def (l : ℕ) (w3j : ℤ → ℤ → ℤ → ℝ) (q : ℕ → ℂ) :
    wImpl cOps (triples l) w3j (Pms.Gen.Boo.idxShift l) q
      = ∑ a ∈ range (2 * l + 1), ∑ b ∈ range (2 * l + 1), ∑ c ∈ range (2 * l + 1),
          if ((a : ℤ) - l) + ((b : ℤ) - l) + ((c : ℤ) - l) = 0
          then (q a * q b * q c).re * w3j ((a : ℤ) - l) ((b : ℤ) - l) ((c : ℤ) - l) else 0 := by
  unfold wImpl triples
  simp only [Pms.Gen.Boo.wLo1, Pms.Gen.Boo.wLo2, Pms.Gen.Boo.wLo3, Pms.Gen.Boo.wHi1, Pms.Gen.Boo.wHi2,
    Pms.Gen.Boo.wHi3, Pms.Gen.Boo.wCond, Pms.Gen.Boo.idxShift]
  rw [listSum_eq_sum, sum_map_flatMap, sum_map_intRange]
  have hn : ((l : ℤ) + 1 - -(l : ℤ)).toNat = 2 * l + 1 := by omega
  rw [hn]
  apply Finset.sum_congr rfl; intro a _
  rw [sum_map_flatMap, sum_map_intRange, hn]
  apply Finset.sum_congr rfl; intro b _
  rw [List.map_map, sum_map_filter, sum_map_intRange, hn]
  apply Finset.sum_congr rfl; intro c _
  have e1 : ((a : ℤ) - l + l).toNat = a := by omega
  have e2 : ((b : ℤ) - l + l).toNat = b := by omega
  have e3 : ((c : ℤ) - l + l).toNat = c := by omega
  have ea : -(l : ℤ) + (a : ℤ) = (a : ℤ) - l := by ring
  have eb : -(l : ℤ) + (b : ℤ) = (b : ℤ) - l := by ring
  have ec : -(l : ℤ) + (c : ℤ) = (c : ℤ) - l := by ring
  simp only [Function.comp, ea, eb, ec, e1, e2, e3, beq_iff_eq]
  rfl

/-- the rest of `w_W_cap` and `Wignerindex` is the statement sequence the model transcribes -/
theorem C09_w_source :
    Pms.Gen.Boo.wSource =
      ["w_W = np.zeros((cal_qlmQlm.shape[0], cal_qlmQlm.shape[1]))", "Windex = Wignerindex(self.l)", "w3j = Windex[:, 3]",
       "Windex = Windex[:, :3].astype(np.int64) + self.l",
       "w_W[n, i] = (np.real(np.prod(cal_qlmQlm[n, i, Windex], axis=1)) * w3j).sum()",
       "w_W_cap = np.power(np.square(np.abs(cal_qlmQlm)).sum(axis=2), -3 / 2) * w_W"]
    ∧ Pms.Gen.Boo.wReturns = ["(w_W, w_W_cap)"]
    ∧ Pms.Gen.Boo.wCall = "windex = wigner_3j(l, l, l, m1, m2, m3).evalf()"
    ∧ Pms.Gen.Boo.wRow = "selected.append(np.array([m1, m2, m3, windex]))"
    ∧ Pms.Gen.Boo.wReturn = "return np.ravel(np.array(selected)).reshape(-1, 4)" := by decide

/-- **odd degrees: w_l vanishes identically.**  If the table of 3-j numbers changes sign when its first two orders are exchanged —
the symmetry of (l l l; m1 m2 m3) for odd 3l, i.e. for every odd l (a contract on sympy's numbers, monitored on the real table) —
then the value the code computes is 0 for EVERY q_lm: the product q_{m1} q_{m2} q_{m3} and the selection m1 + m2 + m3 = 0 are
symmetric under the exchange, the weight antisymmetric.  Hence w_l, and with it ŵ_l, is trivially invariant under rotations (and
anything else) for odd l; a "reduced" table that keeps one triple of each mirror pair and doubles it is wrong exactly there. -/
theorem C09_w_odd_zero (l : ℕ) (w3j : ℤ → ℤ → ℤ → ℝ) (hanti : ∀ a b c, w3j a b c = -w3j b a c) (q : ℕ → ℂ) :
    wImpl cOps (triples l) w3j (Pms.Gen.Boo.idxShift l) q = 0 := by
  rw [C09_w_def]
  set f : ℕ → ℕ → ℕ → ℝ := fun a b c =>
    if ((a : ℤ) - l) + ((b : ℤ) - l) + ((c : ℤ) - l) = 0
    then (q a * q b * q c).re * w3j ((a : ℤ) - l) ((b : ℤ) - l) ((c : ℤ) - l) else 0 with hf
  have hswap : ∀ a b c, f a b c = -f b a c := by
    intro a b c
    simp only [hf]
    have hc : (((a : ℤ) - l) + ((b : ℤ) - l) + ((c : ℤ) - l) = 0) ↔ (((b : ℤ) - l) + ((a : ℤ) - l) + ((c : ℤ) - l) = 0) := by
      constructor <;> intro h <;> linarith
    by_cases h : ((a : ℤ) - l) + ((b : ℤ) - l) + ((c : ℤ) - l) = 0
    · rw [if_pos h, if_pos (hc.1 h), hanti, mul_comm (q a) (q b)]; ring
    · rw [if_neg h, if_neg (fun h' => h (hc.2 h'))]; simp
  have hS : (∑ a ∈ range (2 * l + 1), ∑ b ∈ range (2 * l + 1), ∑ c ∈ range (2 * l + 1), f a b c) =
      -(∑ a ∈ range (2 * l + 1), ∑ b ∈ range (2 * l + 1), ∑ c ∈ range (2 * l + 1), f a b c) := by
    conv_lhs => rw [Finset.sum_comm]
    rw [← Finset.sum_neg_distrib]
    apply Finset.sum_congr rfl; intro a _
    rw [← Finset.sum_neg_distrib]
    apply Finset.sum_congr rfl; intro b _
    rw [← Finset.sum_neg_distrib]
    apply Finset.sum_congr rfl; intro c _
    exact hswap b a c
  linarith

/-- the hypothesis of `C09_w_odd_zero` is satisfiable by a non-zero table: the Levi-Civita-like weight on orders (−1, 0, 1) of l = 1 -/
example : ∃ w3j : ℤ → ℤ → ℤ → ℝ, (∀ a b c, w3j a b c = -w3j b a c) ∧ w3j (-1) 0 1 ≠ 0 :=
  ⟨fun a b c => ((a - b) * (b - c) * (c - a) : ℤ), fun a b c => by push_cast; ring, by norm_num⟩

/-- ŵ_l = w_l (Σ_m |q_lm|²)^{−3/2}, the exponent being the REGENERATED one -/
theorem C09_wcap_def (L : ℕ) (wv : ℝ) (q : ℕ → ℂ) (hS : 0 < ∑ k ∈ range L, Complex.normSq (q k)) :
    wcapImpl cOps L wv q = (∑ k ∈ range L, Complex.normSq (q k)) ^ ((Pms.Gen.Boo.wcapExponent : ℚ) : ℝ) * wv := by
  unfold wcapImpl sumSq
  rw [sumRange_eq]
  show wv / ((∑ k ∈ range L, Complex.normSq (q k)) * Real.sqrt (∑ k ∈ range L, Complex.normSq (q k))) = _
  generalize (∑ k ∈ range L, Complex.normSq (q k)) = S at hS ⊢
  have he : ((Pms.Gen.Boo.wcapExponent : ℚ) : ℝ) = -(3 / 2 : ℝ) := by
    unfold Pms.Gen.Boo.wcapExponent; push_cast; norm_num
  rw [he, Real.rpow_neg hS.le]
  have h32 : S ^ (3 / 2 : ℝ) = S * Real.sqrt S := by
    rw [show (3 / 2 : ℝ) = 1 + 1 / 2 by norm_num, Real.rpow_add hS, Real.rpow_one, ← Real.sqrt_eq_rpow]
  rw [h32, div_eq_inv_mul]

example : Unsold 0 (fun _ => 1) (fun _ _ _ => ((1 / Real.sqrt (4 * Real.pi) : ℝ) : ℂ)) 0 := by
  intro j _
  have hp : (0 : ℝ) < 4 * Real.pi := by positivity
  simp only [Nat.mul_zero, Nat.zero_add, Finset.sum_range_one, Complex.normSq_ofReal]
  rw [div_mul_div_comm, Real.mul_self_sqrt hp.le]
  norm_num

/-! ## correlations -/

/-- `time_correlation` (linear branch, vector condition): lag k holds the mean over the T−k origins of
Re Σ_i Σ_m q_lm(i, n) conj q_lm(i, n−k) -/
theorem C09_timecorr_def (T N L : ℕ) (q : ℕ → ℕ → ℕ → ℂ) (k : ℕ) :
    tcorrRaw cOps T N L q k
      = (∑ n ∈ (range T).filter (fun n => k ≤ n),
          (∑ i ∈ range N, ∑ m ∈ range L, q n i m * (starRingEnd ℂ) (q (n - k) i m)).re) / ((T - k : ℕ) : ℝ) := by
  unfold tcorrRaw
  rw [originLoop_eq, originLoop_eq]
  congr 1
  · apply Finset.sum_congr rfl
    intro n _
    unfold frameDot
    rw [sumRange_eq]
    simp only [sumRange_eq]
    rfl
  · rw [Finset.sum_const, origin_count]
    simp

/-- `boo_3d.time_corr`: dividing by lag 0, multiplying by the (regenerated) factor 4π/(2l+1) and dividing by lag 0
again returns the plain normalised autocorrelation — the factor cancels -/
theorem C09_corr_def (l : ℕ) (raw : ℕ → ℝ) (k : ℕ) (h0 : raw 0 ≠ 0) :
    timeCorrImpl cOps l raw k = raw k / raw 0
    ∧ ((4 : ℕ) : ℝ) * cOps.pi / ((2 * l + 1 : ℕ) : ℝ) = Pms.GenR.Boo.tcFactor l := by
  constructor
  · unfold timeCorrImpl
    have hf : ((4 : ℕ) : ℝ) * cOps.pi / ((2 * l + 1 : ℕ) : ℝ) ≠ 0 := by
      show ((4 : ℕ) : ℝ) * Real.pi / ((2 * l + 1 : ℕ) : ℝ) ≠ 0
      have := Real.pi_pos
      positivity
    simp only []
    rw [div_self h0, one_mul, mul_div_assoc, div_self hf, mul_one]
  · unfold Pms.GenR.Boo.tcFactor
    show ((4 : ℕ) : ℝ) * Real.pi / ((2 * l + 1 : ℕ) : ℝ) = _
    push_cast; rfl

/-- spatial correlation (documented eq. 8): the ratio of the two returned columns, times 4π/(2l+1), is the
pair-averaged Re Σ_m q_lm(j) conj q_lm(i) over the pairs i<j whose distance falls in bin b — the ideal-gas
normalisation of `conditional_gr` cancels -/
theorem C09_spatial_def (N L : ℕ) (bin : ℕ → ℕ → ℕ) (q : ℕ → ℕ → ℂ) (nr : ℕ → ℝ) (b : ℕ)
    (hN : N ≠ 0) (hnr : nr b ≠ 0) :
    gAFrame cOps N L bin q nr b / grFrame N bin nr b
      = (pairLoop N fun i j => if bin i j = b then (∑ m ∈ range L, q j m * (starRingEnd ℂ) (q i m)).re else 0)
        / (pairLoop N fun i j => if bin i j = b then (1 : ℝ) else 0) := by
  unfold gAFrame grFrame pairHist
  have hN' : ((N : ℕ) : ℝ) ≠ 0 := by exact_mod_cast hN
  have e : (fun i j => if bin i j = b then sijUp cOps L (q j) (q i) else 0)
      = fun i j => if bin i j = b then (∑ m ∈ range L, q j m * (starRingEnd ℂ) (q i m)).re else 0 := by
    funext i j
    unfold sijUp
    rw [sumRange_eq]; rfl
  rw [e]
  simp only [Nat.cast_ofNat, Nat.cast_one]
  by_cases hc : (pairLoop N fun i j => if bin i j = b then (1 : ℝ) else 0) = 0
  · rw [hc]; simp
  · field_simp

/-- the frame average of `spatial_corr` -/
theorem C09_frame_mean (T : ℕ) (f : ℕ → ℝ) : frameMean T f = (∑ t ∈ range T, f t) / (T : ℝ) := by
  unfold frameMean; rw [sumRange_eq]

/-! ## bond angles: Y depends on the unit bond vector only -/

/-- the Y-value the model computes from the minimum-image bond vector (x, y, z) — written with the unit vector
(x, y, z)/r only — is the C08 spherical harmonic at the angles the code uses, θ = arccos(z/r), φ = atan2(y, x)
(= arg(x + iy)); in particular it depends on the bond direction only -/
theorem C09_angles (l : ℕ) (m : ℤ) (x y z : ℝ) (hr : 0 < x * x + y * y + z * z) :
    bondY cOps l x y z m
      = Pms.Sph.Y l m (Real.arccos (z / Real.sqrt (x * x + y * y + z * z))) (Complex.arg ⟨x, y⟩) :=
  bondY_eq_Y l m x y z hr

/-- Unsöld's identity for the C08 spherical harmonics of every degree l ≤ 12, all angles
(from the decided polynomial identity `C08_unsold_poly`) -/
theorem C09_unsold (l : ℕ) (hl : l ≤ 12) (θ φ : ℝ) :
    ∑ k ∈ range (2 * l + 1), Complex.normSq (Pms.Sph.Y l ((k : ℤ) - l) θ φ) = (2 * l + 1) / (4 * Real.pi) :=
  unsold_Y l (by rw [List.mem_range]; omega) θ φ

/-- hence, for l ≤ 12, the Y-table the model computes from ANY non-zero bond vectors satisfies the Unsöld hypothesis -/
theorem C09_unsold_model (l : ℕ) (hl : l ≤ 12) (cn : ℕ → ℕ) (vx vy vz : ℕ → ℕ → ℝ) (i : ℕ)
    (hnz : ∀ j, j < cn i → 0 < vx i j * vx i j + vy i j * vy i j + vz i j * vz i j) :
    Unsold l cn (fun i j k => bondY cOps l (vx i j) (vy i j) (vz i j) ((k : ℤ) - l)) i := by
  intro j hj
  simp only [C09_angles l _ _ _ _ (hnz j hj)]
  exact C09_unsold l hl _ _

/-- 0 ≤ q_l ≤ 1 with no hypothesis left for l ≤ 12: q_lm built by the model from any non-zero bond vectors,
every particle with at least one neighbour -/
theorem C09_ql_bounds_model (l : ℕ) (hl : l ≤ 12) (cn : ℕ → ℕ) (vx vy vz : ℕ → ℕ → ℝ) (i : ℕ) (hcn : 0 < cn i)
    (hnz : ∀ j, j < cn i → 0 < vx i j * vx i j + vy i j * vy i j + vz i j * vz i j) :
    0 ≤ ql cOps l (qlmImpl cn (fun i j k => bondY cOps l (vx i j) (vy i j) (vz i j) ((k : ℤ) - l)) i)
    ∧ ql cOps l (qlmImpl cn (fun i j k => bondY cOps l (vx i j) (vy i j) (vz i j) ((k : ℤ) - l)) i) ≤ 1 :=
  C09_ql_bounds l cn _ i hcn (C09_unsold_model l hl cn vx vy vz i hnz)

end Pms.Boo
