import Pms.Model.Boo
import Pms.Gen.Boo
import Pms.Lemmas.Basic
import Mathlib.Data.Complex.Basic
import Mathlib.Analysis.SpecialFunctions.Sqrt
import Mathlib.Analysis.SpecialFunctions.Trigonometric.Basic

/-! # C09 — 3-D bond-orientational order equals Steinhardt's definitions (stub, widened below) -/
open Finset
namespace Pms.Boo

/-- the primitives at ℝ / ℂ -/
noncomputable def cOps : Ops ℝ ℂ where
  conj := starRingEnd ℂ
  re := Complex.re
  ofReal := Complex.ofReal
  normSq := Complex.normSq
  sqrt := Real.sqrt
  pi := Real.pi
  ofRat := fun q => (q : ℝ)
  mkC := fun a b => ⟨a, b⟩

/-- unweighted q_lm is the plain average of Y over the N_i bonds -/
theorem C09_qlm_def (cn : ℕ → ℕ) (Yv : ℕ → ℕ → ℕ → ℂ) (i k : ℕ) :
    qlmImpl cn Yv i k = (∑ j ∈ range (cn i), Yv i j k) / (cn i : ℂ) := by
  unfold qlmImpl
  rw [sumRange_eq]

end Pms.Boo
