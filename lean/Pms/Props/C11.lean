import Pms.Lemmas.Hess
import Pms.Gen.HessTab
import Pms.Lemmas.HessCalc
import Pms.Props.C12
import Mathlib.Algebra.Order.Chebyshev
import Mathlib.Algebra.BigOperators.Field
/-!
# C11 — the saved Hessian is the mass-weighted second derivative of the documented pair energy

`Pms.GenR.Hess.*` (block entries, placement, `dudr2j`, prefactor, cutoff test, right-hand sides of the two assembly
statements, `frequencies`) and `Pms.Gen.HessTab.*` (slice bounds, operators, loop headers) are REGENERATED from
`hessians.py` / `vector.py` on every run; `Pms.GenR.Pair.*` are C12's regenerated s1/s1rc/s2.  The model
`Pms.Hess.hessian` (hand-written control structure over these terms) is what the correspondence compares with the real
routine.  Every theorem holds for all system sizes, dimensions named, positions, parameters.
-/
open Finset Real
namespace Pms.C11
open Pms Pms.Hess Pms.GenR.Hess

/-- the primitives of the routine over ℝ: every formula is the term regenerated from the source -/
noncomputable def realPrims (caller : ℝ → ℝ → ℝ → ℝ → ℝ × ℝ × ℝ) : Prims ℝ where
  sqrt := Real.sqrt
  ofNat := fun n => (n : ℝ)
  blk2 := GenR.Hess.blk2
  blk3 := GenR.Hess.blk3
  zDefault := GenR.Hess.z_default
  dudr2j := GenR.Hess.dudr2j
  prefactor := GenR.Hess.prefactor
  cond := GenR.Hess.cond
  asm1 := GenR.Hess.asm1_rhs
  asm2 := GenR.Hess.asm2_rhs
  caller := caller
  frequencies := GenR.Hess.frequencies

/-- mass of particle i: `masses[itype + 1]` -/
def massOf (S : Sys ℝ) (i : ℕ) : ℝ := S.masses (tIdx S i + 1)

theorem inCut_self (caller) (S : Sys ℝ) (i : ℕ) : inCut (realPrims caller) S i i = false := by
  simp [inCut, realPrims, GenR.Hess.cond]

/-- **assembly**: the matrix built by the loop nest (regenerated `+=` / `=` right-hand sides, slice bounds, prefactor)
is `M^(-1/2) · H · M^(-1/2)` where `H` is the Hessian of the sum of the pair energies inside the cutoff, for every
system size, dimension, potential (`caller` arbitrary) and positive masses. -/
theorem C11_assembly (caller : ℝ → ℝ → ℝ → ℝ → ℝ × ℝ × ℝ) (S : Sys ℝ) (hm : ∀ i < S.n, 0 < massOf S i)
    (i j a b : ℕ) (hi : i < S.n) (hj : j < S.n) (ha : a < S.d) (hb : b < S.d) :
    hessian (realPrims caller) S (i * S.d + a) (j * S.d + b)
      = specD Real.sqrt S.n (massOf S) (inCut (realPrims caller) S) (block (realPrims caller) S) i a j b := by
  unfold hessian
  rw [assemble_spec S.n S.d _ _ _ (inCut_self caller S) i j a b hi hj ha hb]
  unfold specD specH
  have hmi := hm i hi
  have hmj := hm j hj
  by_cases hij : i = j
  · subst hij
    simp only [if_true, sumRange_eq]
    rw [Real.mul_self_sqrt hmi.le, Finset.sum_div]
    refine Finset.sum_congr rfl fun k _ => ?_
    by_cases hk : k = i
    · subst hk; simp [inCut_self]
    · simp only [hk, ne_eq, not_false_eq_true, true_and]
      split
      · simp only [rhs1, realPrims, asm1_rhs, GenR.Hess.prefactor, massOf] at *
        rw [Real.sqrt_mul_self hmi.le]
        norm_num
        rfl
      · simp
  · simp only [hij, if_false]
    split
    · simp only [rhs2, realPrims, asm2_rhs, GenR.Hess.prefactor, GenR.Hess.dudr2j, massOf] at *
      rw [Real.sqrt_mul hmi.le]
      norm_num
      ring
    · simp


/-! ### symmetry -/

theorem dist2_symm (S : Sys ℝ) (hanti : ∀ i j k, S.disp j i k = - S.disp i j k) (i j : ℕ) : dist2 S j i = dist2 S i j := by
  unfold dist2
  rw [sumRange_eq, sumRange_eq]
  exact Finset.sum_congr rfl fun k _ => by rw [hanti i j k]; ring

theorem block_swap (caller) (S : Sys ℝ) (hanti : ∀ i j k, S.disp j i k = - S.disp i j k)
    (hpar : ∀ s t, S.eps s t = S.eps t s ∧ S.sig s t = S.sig t s ∧ S.rcut s t = S.rcut t s) (i j a b : ℕ) :
    block (realPrims caller) S j i b a = block (realPrims caller) S i j a b := by
  have hd : Hess.dist (realPrims caller) S j i = Hess.dist (realPrims caller) S i j := by
    unfold Hess.dist; rw [dist2_symm S hanti]
  have ht : derivs (realPrims caller) S j i = derivs (realPrims caller) S i j := by
    unfold derivs
    rw [hd, (hpar (tIdx S j) (tIdx S i)).1, (hpar (tIdx S j) (tIdx S i)).2.1, (hpar (tIdx S j) (tIdx S i)).2.2]
  unfold block
  simp only [hd, ht, hanti i j]
  split
  · show GenR.Hess.blk2 _ _ _ _ _ _ _ b a = GenR.Hess.blk2 _ _ _ _ _ _ _ a b
    rw [blk2_even _ _ (realPrims caller).zDefault, blk2_symm]
  · show GenR.Hess.blk3 _ _ _ _ _ _ _ b a = GenR.Hess.blk3 _ _ _ _ _ _ _ a b
    rw [blk3_even, blk3_symm]

theorem block_symm_ab (caller) (S : Sys ℝ) (i j a b : ℕ) :
    block (realPrims caller) S i j b a = block (realPrims caller) S i j a b := by
  unfold block
  split
  · exact blk2_symm _ _ _ _ _ _ _ _ _
  · exact blk3_symm _ _ _ _ _ _ _ _ _

theorem inCut_symm (caller) (S : Sys ℝ) (hanti : ∀ i j k, S.disp j i k = - S.disp i j k)
    (hpar : ∀ s t, S.eps s t = S.eps t s ∧ S.sig s t = S.sig t s ∧ S.rcut s t = S.rcut t s) (i j : ℕ) :
    inCut (realPrims caller) S j i = inCut (realPrims caller) S i j := by
  rw [Bool.eq_iff_iff]
  simp only [inCut, realPrims, GenR.Hess.cond, Hess.dist, Bool.and_eq_true, decide_eq_true_eq]
  rw [dist2_symm S hanti i j, (hpar (tIdx S j) (tIdx S i)).2.2]
  constructor <;> rintro ⟨h1, h2⟩ <;> exact ⟨h1.symm, h2⟩

/-- **symmetry**: with minimum-image displacements that are odd under exchange of the particles (C02) and symmetric
parameter matrices the saved matrix is symmetric -/
theorem C11_symmetric (caller : ℝ → ℝ → ℝ → ℝ → ℝ × ℝ × ℝ) (S : Sys ℝ) (hm : ∀ i < S.n, 0 < massOf S i)
    (hanti : ∀ i j k, S.disp j i k = - S.disp i j k)
    (hpar : ∀ s t, S.eps s t = S.eps t s ∧ S.sig s t = S.sig t s ∧ S.rcut s t = S.rcut t s)
    (i j a b : ℕ) (hi : i < S.n) (hj : j < S.n) (ha : a < S.d) (hb : b < S.d) :
    hessian (realPrims caller) S (i * S.d + a) (j * S.d + b) = hessian (realPrims caller) S (j * S.d + b) (i * S.d + a) := by
  rw [C11_assembly caller S hm i j a b hi hj ha hb, C11_assembly caller S hm j i b a hj hi hb ha]
  unfold specD specH
  by_cases hij : i = j
  · subst hij
    simp only [if_true, sumRange_eq]
    congr 1
    exact Finset.sum_congr rfl fun k _ => by rw [block_symm_ab caller S i k a b]
  · have hji : ¬ j = i := fun e => hij e.symm
    simp only [hij, hji, if_false]
    rw [inCut_symm caller S hanti hpar i j, block_swap caller S hanti hpar i j a b, mul_comm]

/-! ### translations -/

theorem specH_row_sum (n : ℕ) (cut : ℕ → ℕ → Bool) (B : ℕ → ℕ → ℕ → ℕ → ℝ) (i a b : ℕ) (hi : i < n) :
    ∑ j ∈ range n, specH n cut B i a j b = 0 := by
  unfold specH
  rw [sumRange_eq]
  set T := ∑ k ∈ range n, (if k ≠ i ∧ cut i k = true then B i k a b else 0) with hT
  have h1 : ∀ j ∈ range n, (if i = j then T else if cut i j = true then - B i j a b else 0)
      = (if i = j then T else 0) + - (if j ≠ i ∧ cut i j = true then B i j a b else 0) := by
    intro j _
    by_cases h : i = j
    · subst h; simp
    · have : j ≠ i := fun e => h e.symm
      by_cases hc : cut i j = true <;> simp [h, this, hc]
  rw [Finset.sum_congr rfl h1, Finset.sum_add_distrib, Finset.sum_ite_eq, if_pos (mem_range.mpr hi),
    Finset.sum_neg_distrib, ← hT]
  ring

/-- **translations**: the saved matrix annihilates the mass-weighted uniform translation along every axis `b`
(row `(i, a)` of `D · t_b`, `t_b = (√m_j δ_{cb})_{(j,c)}`) — any periodicity mask, in particular full periodicity -/
theorem C11_translations (caller : ℝ → ℝ → ℝ → ℝ → ℝ × ℝ × ℝ) (S : Sys ℝ) (hm : ∀ i < S.n, 0 < massOf S i)
    (i a b : ℕ) (hi : i < S.n) (ha : a < S.d) (hb : b < S.d) :
    ∑ j ∈ range S.n, hessian (realPrims caller) S (i * S.d + a) (j * S.d + b) * Real.sqrt (massOf S j) = 0 := by
  have h1 : ∀ j ∈ range S.n, hessian (realPrims caller) S (i * S.d + a) (j * S.d + b) * Real.sqrt (massOf S j)
      = specH S.n (inCut (realPrims caller) S) (block (realPrims caller) S) i a j b / Real.sqrt (massOf S i) := by
    intro j hj
    have hj' := mem_range.mp hj
    rw [C11_assembly caller S hm i j a b hi hj' ha hb]
    unfold specD
    have h1 : Real.sqrt (massOf S i) ≠ 0 := (Real.sqrt_pos.mpr (hm i hi)).ne'
    have h2 : Real.sqrt (massOf S j) ≠ 0 := (Real.sqrt_pos.mpr (hm j hj')).ne'
    field_simp
  rw [Finset.sum_congr rfl h1, ← Finset.sum_div, specH_row_sum _ _ _ _ _ _ hi, zero_div]

/-! ### participation ratio, frequencies -/

/-- **participation ratio**: for every non-zero vector field on n ≥ 1 particles in any dimension, 0 < PR ≤ 1 -/
theorem C11_pr_range (n d : ℕ) (v : ℕ → ℕ → ℝ) (hv : ∃ i < n, ∃ k < d, v i k ≠ 0) :
    0 < pr (fun m => (m : ℝ)) n d v ∧ pr (fun m => (m : ℝ)) n d v ≤ 1 := by
  obtain ⟨i0, hi0, k0, hk0, hne⟩ := hv
  have hn : (0 : ℝ) < n := by exact_mod_cast (by omega : 0 < n)
  unfold pr
  simp only [sumRange_eq]
  set w : ℕ → ℝ := fun i => ∑ k ∈ range d, v i k * v i k with hw
  have hw0 : ∀ i, 0 ≤ w i := fun i => Finset.sum_nonneg fun k _ => mul_self_nonneg _
  have hwi : 0 < w i0 := by
    apply Finset.sum_pos' (fun k _ => mul_self_nonneg _)
    exact ⟨k0, mem_range.mpr hk0, mul_self_pos.mpr hne⟩
  have hS : 0 < ∑ i ∈ range n, w i :=
    Finset.sum_pos' (fun i _ => hw0 i) ⟨i0, mem_range.mpr hi0, hwi⟩
  have hQ : 0 < ∑ i ∈ range n, w i * w i :=
    Finset.sum_pos' (fun i _ => mul_self_nonneg _) ⟨i0, mem_range.mpr hi0, mul_pos hwi hwi⟩
  have hcs : (∑ i ∈ range n, w i) ^ 2 ≤ n * ∑ i ∈ range n, w i ^ 2 := by
    have := sq_sum_le_card_mul_sum_sq (s := range n) (f := w)
    simpa using this
  have hden : 0 < (∑ i ∈ range n, w i * w i) * (n : ℝ) := mul_pos hQ hn
  constructor
  · exact mul_pos (one_div_pos.mpr hden) (mul_pos hS hS)
  · rw [one_div, inv_mul_le_iff₀ hden, mul_one]
    calc (∑ i ∈ range n, w i) * (∑ i ∈ range n, w i) = (∑ i ∈ range n, w i) ^ 2 := by ring
      _ ≤ n * ∑ i ∈ range n, w i ^ 2 := hcs
      _ = (∑ i ∈ range n, w i * w i) * n := by
          rw [mul_comm]; congr 1; exact Finset.sum_congr rfl fun i _ => by ring

/-- **frequencies**: the regenerated `np.where(evals > 0, np.sqrt(evals), evals)`: a positive eigenvalue is reported as its
positive square root, a non-positive one is passed through -/
theorem C11_frequencies (lam : ℝ) :
    (0 < lam → GenR.Hess.frequencies lam ^ 2 = lam ∧ 0 < GenR.Hess.frequencies lam) ∧
    (lam ≤ 0 → GenR.Hess.frequencies lam = lam) := by
  unfold GenR.Hess.frequencies
  constructor
  · intro h
    simp only [gt_iff_lt, h, decide_true, if_true]
    exact ⟨Real.sq_sqrt h.le, Real.sqrt_pos.mpr h⟩
  · intro h
    have : ¬ 0 < lam := not_lt.mpr h
    simp [this]

/-- the regenerated structural facts the hand-written control structure of `Pms.Hess.step/assemble/block/pr` relies on:
slice targets and operators of the two assembly statements, loop headers, unpacking of `Rji`, data flow of the pair
call, the statements of `participation_ratio`, what is diagonalised and written -/
theorem C11_source_shape :
    Pms.Gen.HessTab.assembly =
      [("+=", ["index_i_0", "index_i_1", "index_i_0", "index_i_1"]),
       ("=", ["index_i_0", "index_i_1", "index_j_0", "index_j_1"])] ∧
    Pms.Gen.HessTab.loops = ["i in range(nparticle)", "j in range(nparticle)"] ∧
    Pms.Gen.HessTab.unpack2 = ["x", "y"] ∧ Pms.Gen.HessTab.unpack3 = ["x", "y", "z"] ∧
    Pms.Gen.HessTab.zDefault = "0" ∧ Pms.Gen.HessTab.rDef = "np.linalg.norm(Rji)" ∧
    Pms.Gen.HessTab.pairReturn = "(dudr2i, dudr2j)" ∧
    Pms.Gen.HessTab.entryNames = ["xi_xi", "xi_yi", "yi_yi", "xi_zi", "yi_zi", "zi_zi"] ∧
    Pms.Gen.HessTab.perParticle = ["RJI = positions[i] - positions",
      "RJI = remove_pbc(RJI, self.snapshot.hmatrix, self.ppp)", "distance = np.linalg.norm(RJI, axis=1)"] ∧
    Pms.Gen.HessTab.pairArgs = [("r", "distance[j]"), ("epsilon", "self.epsilons[itype, jtype]"),
      ("sigma", "self.sigmas[itype, jtype]"), ("r_c", "self.r_cuts[itype, jtype]"), ("shift", "self.shiftpotential")] ∧
    Pms.Gen.HessTab.dudrsCall = "pair_interaction.caller(interaction_params)" ∧
    Pms.Gen.HessTab.pairMatrixCall = "self.pair_matrix(RJI[j], dudrs)" ∧
    Pms.Gen.HessTab.hessianInit = "np.zeros((self.ndim * nparticle, self.ndim * nparticle))" ∧
    Pms.Gen.HessTab.eigCall = "evals, evecs = np.linalg.eigh(hessian_matrix)" ∧
    Pms.Gen.HessTab.prLoop =
      "i in range(evecs.shape[1]): PR[i] = participation_ratio(evecs[:, i].reshape(nparticle, self.ndim))" ∧
    Pms.Gen.HessTab.csvWrite =
      ["pd.DataFrame({'omega': frequencies, 'PR': PR}).to_csv(outputfile + '.omega_PR.csv', index=False)"] ∧
    Pms.Gen.HessTab.participationRatio = ["num_of_particles = vector.shape[0]",
      "value_PR = 1.0 / (np.sum(np.square((vector * vector).sum(axis=1))) * num_of_particles)",
      "value_PR *= np.square((vector * vector).sum())", "return value_PR"] ∧
    Pms.Gen.HessTab.initStores = [("snapshot", "snapshot"), ("masses", "masses"), ("epsilons", "epsilons"),
      ("sigmas", "sigmas"), ("r_cuts", "r_cuts"), ("ppp", "ppp"), ("ndim", "len(ppp)"),
      ("shiftpotential", "shiftpotential")] ∧
    (∀ i j d : ℕ, Pms.Gen.HessTab.index_i_0 i j d 0 0 = i * d ∧ Pms.Gen.HessTab.index_j_0 i j d (i * d) 0 = j * d ∧
      Pms.Gen.HessTab.index_i_1 i j d (i * d) (j * d) = i * d + d ∧ Pms.Gen.HessTab.index_j_1 i j d (i * d) (j * d) = j * d + d) := by
  refine ⟨by decide, by decide, by decide, by decide, by decide, by decide, by decide, by decide, by decide, by decide,
    by decide, by decide, by decide, by decide, by decide, by decide, by decide, by decide, ?_⟩
  intro i j d
  exact ⟨rfl, rfl, rfl, rfl⟩

end Pms.C11
