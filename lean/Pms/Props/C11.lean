import Pms.Model.Hess
import Pms.GenR.Hess
import Pms.Gen.HessTab

/-! # C11 — Hessian (stub; theorems follow) -/
namespace Pms.C11

/-- the regenerated structural facts the hand-written model `Pms.Hess.assemble` relies on -/
theorem C11_source_shape :
    Pms.Gen.HessTab.assembly =
      [("+=", ["index_i_0", "index_i_1", "index_i_0", "index_i_1"]),
       ("=", ["index_i_0", "index_i_1", "index_j_0", "index_j_1"])] ∧
    Pms.Gen.HessTab.loops = ["i in range(nparticle)", "j in range(nparticle)"] := by
  decide

end Pms.C11
