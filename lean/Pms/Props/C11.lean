import Pms.Lemmas.HessReal
import Pms.Gen.HessTab
import Pms.Props.C12
import Mathlib.Algebra.Order.Chebyshev
import Mathlib.Algebra.BigOperators.Field
/-!
# C11 — the saved Hessian is the mass-weighted second derivative of the documented pair energy

`Pms.GenR.Hess.*` (block entries, placement, `dudr2j`, prefactor, cutoff test, right-hand sides of the two assembly
statements, `frequencies`) and `Pms.Gen.HessTab.*` (slice bounds, operators, loop headers) are REGENERATED from
`hessians.py` / `vector.py` on every run; `Pms.GenR.Pair.*` are C12's regenerated s1/s1rc/s2.  The model
`Pms.Hess.hessian` (hand-written control structure over these terms) is what the correspondence compares with the real
routine.  Every theorem holds for all system sizes, dimensions named, positions, parameters.
-/
open Finset Real
namespace Pms.C11
open Pms Pms.Hess Pms.GenR.Hess Pms.GenR.Pair Pms.C12

/-! ### the pair block is the second derivative of the documented pair energy -/

/-- the model's block IS `pairBlock` at the pair's separation vector, distance and `[s1, s1rc, s2]` -/
theorem C11_model_block (caller : ℝ → ℝ → ℝ → ℝ → ℝ × ℝ × ℝ) (S : Sys ℝ) (i j a b : ℕ) :
    block (realPrims caller) S i j a b =
      pairBlock S.d (S.disp i j) (rad S.d (S.disp i j)) (derivs (realPrims caller) S i j).1
        (derivs (realPrims caller) S i j).2.1 (derivs (realPrims caller) S i j).2.2 a b ∧
    Hess.dist (realPrims caller) S i j = rad S.d (S.disp i j) := ⟨rfl, rfl⟩

/-- **entries**: the regenerated entries and their placement are `s''·x_a x_b/r² + (s' − k)(δ_ab/r − x_a x_b/r³)` -/
theorem C11_block_entries (d : ℕ) (hd : d = 2 ∨ d = 3) (v : ℕ → ℝ) (r s1 k s2 : ℝ) (hr : r ≠ 0) (a b : ℕ)
    (ha : a < d) (hb : b < d) : pairBlock d v r s1 k s2 a b = closedB v r s1 k s2 a b := by
  unfold pairBlock
  rcases hd with rfl | rfl
  · simp only [if_true]; exact blk2_closed v _ r s1 k s2 hr a b ha hb
  · simp only [show (3 : ℕ) ≠ 2 by decide, if_false]; exact blk3_closed v r s1 k s2 hr a b ha hb

/-- **gradient**: for every radial pair potential `s` with derivative `s1` at `|v|`, the partial derivative of the
documented pair energy in coordinate `b` is `(s'(|v|) − k)·v_b/|v|` (any dimension) -/
theorem C11_pair_gradient (s s1 : ℝ → ℝ) (k rc : ℝ) (d b : ℕ) (hb : b < d) (v : ℕ → ℝ) (hpos : 0 < nrm2 d v)
    (hs : HasDerivAt s (s1 (rad d v)) (rad d v)) :
    HasDerivAt (fun t => pairEnergy s k rc d (Function.update v b t)) (gradPhi s1 k d v b) (v b) := by
  have h := (radial_gradient s s1 k d b hb v hpos hs).add_const (-(s rc) + rc * k)
  refine h.congr_of_eventuallyEq (Filter.Eventually.of_forall fun t => ?_)
  simp only [pairEnergy, phi]
  ring

/-- **block = second derivative**: the regenerated block entry (a, b) is the partial derivative in coordinate `b` of the
`a`-th component of that gradient field, for every `s1` with derivative `s2` at `|v|`, in 2D and 3D -/
theorem C11_block_is_second_derivative (s1 s2 : ℝ → ℝ) (k : ℝ) (d : ℕ) (hd : d = 2 ∨ d = 3) (a b : ℕ) (ha : a < d)
    (hb : b < d) (v : ℕ → ℝ) (hpos : 0 < nrm2 d v) (hs : HasDerivAt s1 (s2 (rad d v)) (rad d v)) :
    HasDerivAt (fun t => gradPhi s1 k d (Function.update v b t) a)
      (pairBlock d v (rad d v) (s1 (rad d v)) k (s2 (rad d v)) a b) (v b) := by
  have hr : rad d v ≠ 0 := (Real.sqrt_pos.mpr hpos).ne'
  rw [C11_block_entries d hd v (rad d v) _ _ _ hr a b ha hb]
  exact radial_hessian s1 s2 k d a b hb v hpos hs

/-- Lennard-Jones: gradient and block, with the regenerated `lj_s1 / lj_s1rc / lj_s2` of C12 -/
theorem C11_lj_block (ε σ rc : ℝ) (sh : Bool) (d : ℕ) (hd : d = 2 ∨ d = 3) (a b : ℕ) (ha : a < d) (hb : b < d)
    (v : ℕ → ℝ) (hpos : 0 < nrm2 d v) :
    HasDerivAt (fun t => pairEnergy (ljS ε σ) (lj_s1rc (rad d v) ε σ rc sh) rc d (Function.update v b t))
      (gradPhi (fun ρ => lj_s1 ρ ε σ rc sh) (lj_s1rc (rad d v) ε σ rc sh) d v b) (v b) ∧
    HasDerivAt (fun t => gradPhi (fun ρ => lj_s1 ρ ε σ rc sh) (lj_s1rc (rad d v) ε σ rc sh) d (Function.update v b t) a)
      (pairBlock d v (rad d v) (lj_s1 (rad d v) ε σ rc sh) (lj_s1rc (rad d v) ε σ rc sh) (lj_s2 (rad d v) ε σ rc sh) a b)
      (v b) ∧
    lj_s1rc (rad d v) ε σ rc sh = (if sh then lj_s1 rc ε σ rc true else 0) := by
  have hr : rad d v ≠ 0 := (Real.sqrt_pos.mpr hpos).ne'
  refine ⟨C11_pair_gradient _ _ _ rc d b hb v hpos (C12_lj_d1 ε σ rc _ sh hr),
    C11_block_is_second_derivative (fun ρ => lj_s1 ρ ε σ rc sh) (fun ρ => lj_s2 ρ ε σ rc sh) _ d hd a b ha hb v hpos
      (C12_lj_d2 ε σ rc _ sh hr), ?_⟩
  cases sh
  · exact (C12_lj_cut_shift ε σ rc _).2
  · exact (C12_lj_cut_shift ε σ rc _).1

/-- inverse power law (real exponent n, σ > 0) -/
theorem C11_ipl_block (A ε σ n rc : ℝ) (sh : Bool) (hσ : 0 < σ) (d : ℕ) (hd : d = 2 ∨ d = 3) (a b : ℕ) (ha : a < d)
    (hb : b < d) (v : ℕ → ℝ) (hpos : 0 < nrm2 d v) :
    HasDerivAt (fun t => pairEnergy (iplS A ε σ n) (ipl_s1rc (rad d v) ε σ rc n A sh) rc d (Function.update v b t))
      (gradPhi (fun ρ => ipl_s1 ρ ε σ rc n A sh) (ipl_s1rc (rad d v) ε σ rc n A sh) d v b) (v b) ∧
    HasDerivAt (fun t => gradPhi (fun ρ => ipl_s1 ρ ε σ rc n A sh) (ipl_s1rc (rad d v) ε σ rc n A sh) d (Function.update v b t) a)
      (pairBlock d v (rad d v) (ipl_s1 (rad d v) ε σ rc n A sh) (ipl_s1rc (rad d v) ε σ rc n A sh)
        (ipl_s2 (rad d v) ε σ rc n A sh) a b) (v b) ∧
    ipl_s1rc (rad d v) ε σ rc n A sh = (if sh then ipl_s1 rc ε σ rc n A true else 0) := by
  have hr : 0 < rad d v := Real.sqrt_pos.mpr hpos
  refine ⟨C11_pair_gradient _ _ _ rc d b hb v hpos (C12_ipl_d1 A ε σ n rc _ sh hr hσ),
    C11_block_is_second_derivative (fun ρ => ipl_s1 ρ ε σ rc n A sh) (fun ρ => ipl_s2 ρ ε σ rc n A sh) _ d hd a b ha hb v hpos
      (C12_ipl_d2 A ε σ n rc _ sh hr hσ), ?_⟩
  cases sh
  · exact (C12_ipl_cut_shift A ε σ n rc _).2
  · exact (C12_ipl_cut_shift A ε σ n rc _).1

/-- harmonic / Hertz (real exponent α ≠ 0, inside contact |v| < σ): the subtracted slope is the documented 0 -/
theorem C11_hh_block (ε σ α rc : ℝ) (sh : Bool) (hσ : 0 < σ) (hα : α ≠ 0) (d : ℕ) (hd : d = 2 ∨ d = 3) (a b : ℕ)
    (ha : a < d) (hb : b < d) (v : ℕ → ℝ) (hpos : 0 < nrm2 d v) (hin : rad d v < σ) :
    HasDerivAt (fun t => pairEnergy (hhS ε σ α) (hh_s1rc (rad d v) ε σ rc α sh) rc d (Function.update v b t))
      (gradPhi (fun ρ => hh_s1 ρ ε σ rc α sh) (hh_s1rc (rad d v) ε σ rc α sh) d v b) (v b) ∧
    HasDerivAt (fun t => gradPhi (fun ρ => hh_s1 ρ ε σ rc α sh) (hh_s1rc (rad d v) ε σ rc α sh) d (Function.update v b t) a)
      (pairBlock d v (rad d v) (hh_s1 (rad d v) ε σ rc α sh) (hh_s1rc (rad d v) ε σ rc α sh)
        (hh_s2 (rad d v) ε σ rc α sh) a b) (v b) ∧
    hh_s1rc (rad d v) ε σ rc α sh = 0 := by
  refine ⟨C11_pair_gradient _ _ _ rc d b hb v hpos (C12_hh_d1 ε σ α rc _ sh hσ hin hα),
    C11_block_is_second_derivative (fun ρ => hh_s1 ρ ε σ rc α sh) (fun ρ => hh_s2 ρ ε σ rc α sh) _ d hd a b ha hb v hpos
      (C12_hh_d2 ε σ α rc _ sh hσ hin), ?_⟩
  simp [hh_s1rc]

/-- non-vacuity: a 2-D separation vector of length 5/4 inside σ = 3/2 -/
example : 0 < nrm2 2 (fun k => if k = 0 then (1 : ℝ) else 3/4) ∧ rad 2 (fun k => if k = 0 then (1 : ℝ) else 3/4) < 3/2 := by
  have e : nrm2 2 (fun k => if k = 0 then (1 : ℝ) else 3/4) = (5/4) ^ 2 := by
    simp [nrm2, sumRange]; norm_num
  constructor
  · rw [e]; positivity
  · unfold rad; rw [e, Real.sqrt_sq (by norm_num)]; norm_num

/-! ### assembly -/

/-- **assembly**: the matrix built by the loop nest (regenerated `+=` / `=` right-hand sides, slice bounds, prefactor)
is `M^(-1/2) · H · M^(-1/2)` where `H` is the Hessian of the sum of the pair energies inside the cutoff, for every
system size, dimension, potential (`caller` arbitrary) and positive masses. -/
theorem C11_assembly (caller : ℝ → ℝ → ℝ → ℝ → ℝ × ℝ × ℝ) (S : Sys ℝ) (hm : ∀ i < S.n, 0 < massOf S i)
    (i j a b : ℕ) (hi : i < S.n) (hj : j < S.n) (ha : a < S.d) (hb : b < S.d) :
    hessian (realPrims caller) S (i * S.d + a) (j * S.d + b)
      = specD Real.sqrt S.n (massOf S) (inCut (realPrims caller) S) (block (realPrims caller) S) i a j b := by
  unfold hessian
  rw [assemble_spec S.n S.d _ _ _ (inCut_self caller S) i j a b hi hj ha hb]
  unfold specD specH
  have hmi := hm i hi
  have hmj := hm j hj
  by_cases hij : i = j
  · subst hij
    simp only [if_true, sumRange_eq]
    rw [Real.mul_self_sqrt hmi.le, Finset.sum_div]
    refine Finset.sum_congr rfl fun k _ => ?_
    by_cases hk : k = i
    · subst hk; simp [inCut_self]
    · simp only [hk, ne_eq, not_false_eq_true, true_and]
      split
      · simp only [rhs1, realPrims, asm1_rhs, GenR.Hess.prefactor, massOf] at *
        rw [Real.sqrt_mul_self hmi.le]
        norm_num
        rfl
      · simp
  · simp only [hij, if_false]
    split
    · simp only [rhs2, realPrims, asm2_rhs, GenR.Hess.prefactor, GenR.Hess.dudr2j, massOf] at *
      rw [Real.sqrt_mul hmi.le]
      norm_num
      ring
    · simp


/-! ### the assembled matrix is the mass-weighted second derivative of the total energy -/

/-- **gradient of the total energy**: `∂U/∂X_{pα} = G_{pα}` for `U = ½ Σ_{i≠j in cutoff} φ_ij(X_i − X_j + c_ij)` with symmetric pair
parameters, symmetric pair set and antisymmetric lattice shifts -/
theorem C11_energy_gradient (n d : ℕ) (cut : ℕ → ℕ → Bool) (hcut : ∀ i, cut i i = false)
    (hcs : ∀ i j, cut j i = cut i j)
    (s s1 : ℕ → ℕ → ℝ → ℝ) (kk rc : ℕ → ℕ → ℝ) (c : ℕ → ℕ → ℕ → ℝ) (X : ℕ → ℕ → ℝ)
    (hanti : ∀ i j k, c j i k = - c i j k)
    (hsym : ∀ i j, s1 j i = s1 i j ∧ kk j i = kk i j)
    (hpos : ∀ i j, cut i j = true → 0 < nrm2 d (sep c X i j))
    (hs : ∀ i j, cut i j = true →
      HasDerivAt (s i j) (s1 i j (rad d (sep c X i j))) (rad d (sep c X i j)))
    (p α : ℕ) (hp : p < n) (hα : α < d) :
    HasDerivAt (fun t => totalEnergy n d cut s kk rc c (updPos X p α t))
      (gradField n d cut s1 kk c X p α) (X p α) := by
  set g : ℕ → ℝ := fun j => gradPhi (s1 p j) (kk p j) d (sep c X p j) α with hg
  have hterm : ∀ i ∈ range n, ∀ j ∈ range n, HasDerivAt
      (fun t => if cut i j = true then pairEnergy (s i j) (kk i j) (rc i j) d (sep c (updPos X p α t) i j) else 0)
      ((if i = p then (if cut p j = true then g j else 0) else 0)
        + (if j = p then (if cut i p = true then g i else 0) else 0)) (X p α) := by
    intro i _ j _
    by_cases hc : cut i j = true
    · have hji : j ≠ i := by rintro rfl; rw [hcut] at hc; exact Bool.false_ne_true hc
      simp only [hc, if_true]
      have hG := C11_pair_gradient (s i j) (s1 i j) (kk i j) (rc i j) d α hα (sep c X i j) (hpos i j hc) (hs i j hc)
      by_cases hip : i = p
      · subst hip
        have hjp : ¬ j = i := hji
        simp only [if_true, hc, hjp, if_false, add_zero]
        have hin : HasDerivAt (fun t : ℝ => t - X j α + c i j α) 1 (X i α) := by
          simpa using ((hasDerivAt_id (X i α)).sub_const (X j α)).add_const (c i j α)
        have hv : sep c X i j α = X i α - X j α + c i j α := rfl
        rw [hv] at hG
        have := HasDerivAt.comp (X i α) hG hin
        simp only [mul_one] at this
        refine this.congr_of_eventuallyEq (Filter.Eventually.of_forall fun t => ?_)
        simp only [Function.comp, sep_upd_left c X i j α t hji]
      · simp only [hip, if_false, zero_add]
        by_cases hjp : j = p
        · subst hjp
          simp only [if_true, hc]
          have hin : HasDerivAt (fun t : ℝ => X i α - t + c i j α) (-1) (X j α) := by
            simpa using ((hasDerivAt_id (X j α)).const_sub (X i α)).add_const (c i j α)
          have hv : sep c X i j α = X i α - X j α + c i j α := rfl
          rw [hv] at hG
          have := HasDerivAt.comp (X j α) hG hin
          simp only [mul_neg, mul_one] at this
          have e : - gradPhi (s1 i j) (kk i j) d (sep c X i j) α = g i := by
            rw [hg]
            simp only
            rw [sep_swap c hanti X i j, gradPhi_neg, (hsym i j).1, (hsym i j).2]
          rw [e] at this
          refine this.congr_of_eventuallyEq (Filter.Eventually.of_forall fun t => ?_)
          simp only [Function.comp, sep_upd_right c X i j α t hji]
        · simp only [hjp, if_false]
          have : (fun t => pairEnergy (s i j) (kk i j) (rc i j) d (sep c (updPos X p α t) i j))
              = fun _ => pairEnergy (s i j) (kk i j) (rc i j) d (sep c X i j) := by
            funext t; rw [sep_upd_other c X i j p α t (fun e => hip e.symm) (fun e => hjp e.symm)]
          rw [this]
          exact hasDerivAt_const _ _
    · have hc' : cut i j = false := by simpa using hc
      simp only [hc', Bool.false_eq_true, if_false]
      have z : ((if i = p then (if cut p j = true then g j else 0) else 0)
          + (if j = p then (if cut i p = true then g i else 0) else 0)) = 0 := by
        by_cases hip : i = p
        · subst hip
          by_cases hjp : j = i
          · subst hjp; simp [hcut]
          · simp [hc', hjp]
        · by_cases hjp : j = p
          · subst hjp; simp [hip, hc']
          · simp [hip, hjp]
      rw [z]
      exact hasDerivAt_const _ _
  have hsum := HasDerivAt.fun_sum (u := range n) (x := X p α)
    (fun i hi => HasDerivAt.fun_sum (u := range n) (hterm i hi))
  have hfin := hsum.const_mul (1 / 2 : ℝ)
  unfold totalEnergy
  refine hfin.congr_deriv ?_
  unfold gradField
  simp only [Finset.sum_add_distrib]
  have h1 : ∑ i ∈ range n, ∑ j ∈ range n, (if i = p then (if cut p j = true then g j else 0) else 0)
      = ∑ j ∈ range n, (if cut p j = true then g j else 0) := by
    have : ∀ i ∈ range n, ∑ j ∈ range n, (if i = p then (if cut p j = true then g j else 0) else 0)
        = if i = p then ∑ j ∈ range n, (if cut p j = true then g j else 0) else 0 := by
      intro i _; by_cases h : i = p <;> simp [h]
    rw [Finset.sum_congr rfl this, Finset.sum_ite_eq', if_pos (mem_range.mpr hp)]
  have h2 : ∑ i ∈ range n, ∑ j ∈ range n, (if j = p then (if cut i p = true then g i else 0) else 0)
      = ∑ i ∈ range n, (if cut p i = true then g i else 0) := by
    refine Finset.sum_congr rfl fun i _ => ?_
    rw [Finset.sum_ite_eq', if_pos (mem_range.mpr hp), hcs p i]
  rw [h1, h2]
  ring

/-- **Jacobian of the gradient field**: for the energy of the pairs inside the cutoff (pair set and removed lattice vectors
frozen — they are locally constant away from `d = r_c` and minimum-image ties), the partial derivative of `∂U/∂X_{pα}` in
coordinate `(q, β)` is the plain Hessian `specH` built from the closed-form pair blocks: `Σ_k B_pk` on the diagonal block,
`−B_pq` off it.  Any number of particles, any dimension, any per-pair radial potentials. -/
theorem C11_gradient_jacobian (n d : ℕ) (cut : ℕ → ℕ → Bool) (hcut : ∀ i, cut i i = false)
    (s1 s2 : ℕ → ℕ → ℝ → ℝ) (kk : ℕ → ℕ → ℝ) (c : ℕ → ℕ → ℕ → ℝ) (X : ℕ → ℕ → ℝ)
    (hpos : ∀ i j, cut i j = true → 0 < nrm2 d (sep c X i j))
    (hs : ∀ i j, cut i j = true →
      HasDerivAt (s1 i j) (s2 i j (rad d (sep c X i j))) (rad d (sep c X i j)))
    (p q α β : ℕ) (hq : q < n) (hβ : β < d) :
    HasDerivAt (fun t => gradField n d cut s1 kk c (updPos X q β t) p α)
      (specH n cut (fun i j a b => closedB (sep c X i j) (rad d (sep c X i j)) (s1 i j (rad d (sep c X i j))) (kk i j)
        (s2 i j (rad d (sep c X i j))) a b) p α q β) (X q β) := by
  set B : ℕ → ℕ → ℕ → ℕ → ℝ := fun i j a b => closedB (sep c X i j) (rad d (sep c X i j))
    (s1 i j (rad d (sep c X i j))) (kk i j) (s2 i j (rad d (sep c X i j))) a b with hB
  -- derivative of the j-th term
  have hterm : ∀ j ∈ range n, HasDerivAt
      (fun t => if cut p j = true then gradPhi (s1 p j) (kk p j) d (sep c (updPos X q β t) p j) α else 0)
      (if cut p j = true then (if q = p then B p j α β else if q = j then - B p j α β else 0) else 0) (X q β) := by
    intro j _
    by_cases hc : cut p j = true
    · have hjp : j ≠ p := by rintro rfl; rw [hcut] at hc; exact Bool.false_ne_true hc
      simp only [hc, if_true]
      have hH := radial_hessian (s1 p j) (s2 p j) (kk p j) d α β hβ (sep c X p j) (hpos p j hc) (hs p j hc)
      by_cases hqp : q = p
      · subst hqp
        simp only [if_true]
        have hin : HasDerivAt (fun t : ℝ => t - X j β + c q j β) 1 (X q β) := by
          simpa using ((hasDerivAt_id (X q β)).sub_const (X j β)).add_const (c q j β)
        have hv : sep c X q j β = X q β - X j β + c q j β := rfl
        rw [hv] at hH
        have := HasDerivAt.comp (X q β) hH hin
        simp only [mul_one] at this
        refine this.congr_of_eventuallyEq (Filter.Eventually.of_forall fun t => ?_)
        simp only [Function.comp, sep_upd_left c X q j β t hjp]
      · simp only [hqp, if_false]
        by_cases hqj : q = j
        · subst hqj
          simp only [if_true]
          have hin : HasDerivAt (fun t : ℝ => X p β - t + c p q β) (-1) (X q β) := by
            simpa using ((hasDerivAt_id (X q β)).const_sub (X p β)).add_const (c p q β)
          have hv : sep c X p q β = X p β - X q β + c p q β := rfl
          rw [hv] at hH
          have := HasDerivAt.comp (X q β) hH hin
          simp only [mul_neg, mul_one] at this
          refine this.congr_of_eventuallyEq (Filter.Eventually.of_forall fun t => ?_)
          simp only [Function.comp, sep_upd_right c X p q β t hjp]
        · simp only [hqj, if_false]
          have : (fun t => gradPhi (s1 p j) (kk p j) d (sep c (updPos X q β t) p j) α)
              = fun _ => gradPhi (s1 p j) (kk p j) d (sep c X p j) α := by
            funext t; rw [sep_upd_other c X p j q β t hqp hqj]
          rw [this]
          exact hasDerivAt_const _ _
    · simp only [hc, if_false]
      exact hasDerivAt_const _ _
  have hsum := HasDerivAt.fun_sum hterm
  unfold gradField
  refine hsum.congr_deriv ?_
  unfold specH
  rw [sumRange_eq]
  by_cases hpq : p = q
  · subst hpq
    simp only [if_true]
    refine Finset.sum_congr rfl fun j _ => ?_
    by_cases hj : j = p
    · subst hj; simp [hcut]
    · simp [hj]
  · have hqp : ¬ q = p := fun e => hpq e.symm
    simp only [hpq, hqp, if_false]
    have : ∀ j ∈ range n, (if cut p j = true then (if q = j then - B p j α β else 0) else 0)
        = if q = j then (if cut p q = true then - B p q α β else 0) else 0 := by
      intro j _
      by_cases h : q = j
      · subst h; simp
      · simp [h]
    rw [Finset.sum_congr rfl this, Finset.sum_ite_eq, if_pos (mem_range.mpr hq)]


/-- **the saved matrix is the mass-weighted second derivative**: if the model's inputs are those of a configuration `X`
(`disp i j = X_i − X_j + c_ij`, `caller` returns `[s1, s1rc, s2]` of per-pair potentials with `s1' = s2`), then in 2D and 3D
`∂/∂X_{jb} (∂U/∂X_{ia}) = √m_i · √m_j · hessian[(i,a),(j,b)]`, i.e. `hessian = M^(-1/2) (∂²U/∂r_i∂r_j) M^(-1/2)`. -/
theorem C11_hessian_is_second_derivative (caller : ℝ → ℝ → ℝ → ℝ → ℝ × ℝ × ℝ) (S : Sys ℝ) (hd : S.d = 2 ∨ S.d = 3)
    (hm : ∀ i < S.n, 0 < massOf S i) (c : ℕ → ℕ → ℕ → ℝ) (X : ℕ → ℕ → ℝ)
    (hdisp : ∀ i j, S.disp i j = sep c X i j)
    (s1 s2 : ℕ → ℕ → ℝ → ℝ) (kk : ℕ → ℕ → ℝ)
    (hcall : ∀ i j, derivs (realPrims caller) S i j =
      (s1 i j (rad S.d (sep c X i j)), kk i j, s2 i j (rad S.d (sep c X i j))))
    (hpos : ∀ i j, inCut (realPrims caller) S i j = true → 0 < nrm2 S.d (sep c X i j))
    (hs : ∀ i j, inCut (realPrims caller) S i j = true →
      HasDerivAt (s1 i j) (s2 i j (rad S.d (sep c X i j))) (rad S.d (sep c X i j)))
    (i j a b : ℕ) (hi : i < S.n) (hj : j < S.n) (ha : a < S.d) (hb : b < S.d) :
    HasDerivAt (fun t => gradField S.n S.d (inCut (realPrims caller) S) s1 kk c (updPos X j b t) i a)
      (hessian (realPrims caller) S (i * S.d + a) (j * S.d + b)
        * (Real.sqrt (massOf S i) * Real.sqrt (massOf S j))) (X j b) := by
  have J := C11_gradient_jacobian S.n S.d (inCut (realPrims caller) S) (inCut_self caller S) s1 s2 kk c X hpos hs
    i j a b hj hb
  refine J.congr_deriv ?_
  rw [C11_assembly caller S hm i j a b hi hj ha hb]
  unfold specD
  have h1 : Real.sqrt (massOf S i) ≠ 0 := (Real.sqrt_pos.mpr (hm i hi)).ne'
  have h2 : Real.sqrt (massOf S j) ≠ 0 := (Real.sqrt_pos.mpr (hm j hj)).ne'
  rw [div_mul_cancel₀ _ (mul_ne_zero h1 h2)]
  apply specH_congr
  intro k hk
  have hr : rad S.d (sep c X i k) ≠ 0 := (Real.sqrt_pos.mpr (hpos i k hk)).ne'
  rw [(C11_model_block caller S i k a b).1, hcall i k, hdisp i k]
  exact (C11_block_entries S.d hd _ _ _ _ _ hr a b ha hb).symm

/-- non-vacuity of the system hypotheses: a two-particle 2-D system with positive masses -/
example : ∃ S : Sys ℝ, S.n = 2 ∧ (S.d = 2 ∨ S.d = 3) ∧ ∀ i < S.n, 0 < massOf S i :=
  ⟨{ n := 2, d := 2, ptype := fun _ => 1, masses := fun _ => 2, eps := fun _ _ => 1, sig := fun _ _ => 1,
     rcut := fun _ _ => 3, disp := fun i j k => if k = 0 then (i : ℝ) - j else 0 },
   rfl, Or.inl rfl, fun _ _ => by simp [massOf]⟩

/-! ### symmetry -/

/-- **symmetry**: with minimum-image displacements that are odd under exchange of the particles (C02) and symmetric
parameter matrices the saved matrix is symmetric -/
theorem C11_symmetric (caller : ℝ → ℝ → ℝ → ℝ → ℝ × ℝ × ℝ) (S : Sys ℝ) (hm : ∀ i < S.n, 0 < massOf S i)
    (hanti : ∀ i j k, S.disp j i k = - S.disp i j k)
    (hpar : ∀ s t, S.eps s t = S.eps t s ∧ S.sig s t = S.sig t s ∧ S.rcut s t = S.rcut t s)
    (i j a b : ℕ) (hi : i < S.n) (hj : j < S.n) (ha : a < S.d) (hb : b < S.d) :
    hessian (realPrims caller) S (i * S.d + a) (j * S.d + b) = hessian (realPrims caller) S (j * S.d + b) (i * S.d + a) := by
  rw [C11_assembly caller S hm i j a b hi hj ha hb, C11_assembly caller S hm j i b a hj hi hb ha]
  unfold specD specH
  by_cases hij : i = j
  · subst hij
    simp only [if_true, sumRange_eq]
    congr 1
    exact Finset.sum_congr rfl fun k _ => by rw [block_symm_ab caller S i k a b]
  · have hji : ¬ j = i := fun e => hij e.symm
    simp only [hij, hji, if_false]
    rw [inCut_symm caller S hanti hpar i j, block_swap caller S hanti hpar i j a b, mul_comm]

/-! ### translations -/

/-- **translations**: the saved matrix annihilates the mass-weighted uniform translation along every axis `b`
(row `(i, a)` of `D · t_b`, `t_b = (√m_j δ_{cb})_{(j,c)}`) — any periodicity mask, in particular full periodicity -/
theorem C11_translations (caller : ℝ → ℝ → ℝ → ℝ → ℝ × ℝ × ℝ) (S : Sys ℝ) (hm : ∀ i < S.n, 0 < massOf S i)
    (i a b : ℕ) (hi : i < S.n) (ha : a < S.d) (hb : b < S.d) :
    ∑ j ∈ range S.n, hessian (realPrims caller) S (i * S.d + a) (j * S.d + b) * Real.sqrt (massOf S j) = 0 := by
  have h1 : ∀ j ∈ range S.n, hessian (realPrims caller) S (i * S.d + a) (j * S.d + b) * Real.sqrt (massOf S j)
      = specH S.n (inCut (realPrims caller) S) (block (realPrims caller) S) i a j b / Real.sqrt (massOf S i) := by
    intro j hj
    have hj' := mem_range.mp hj
    rw [C11_assembly caller S hm i j a b hi hj' ha hb]
    unfold specD
    have h1 : Real.sqrt (massOf S i) ≠ 0 := (Real.sqrt_pos.mpr (hm i hi)).ne'
    have h2 : Real.sqrt (massOf S j) ≠ 0 := (Real.sqrt_pos.mpr (hm j hj')).ne'
    field_simp
  rw [Finset.sum_congr rfl h1, ← Finset.sum_div, specH_row_sum _ _ _ _ _ _ hi, zero_div]

/-! ### participation ratio, frequencies -/

/-- **participation ratio**: for every non-zero vector field on n ≥ 1 particles in any dimension, 0 < PR ≤ 1 -/
theorem C11_pr_range (n d : ℕ) (v : ℕ → ℕ → ℝ) (hv : ∃ i < n, ∃ k < d, v i k ≠ 0) :
    0 < pr (fun m => (m : ℝ)) n d v ∧ pr (fun m => (m : ℝ)) n d v ≤ 1 := by
  obtain ⟨i0, hi0, k0, hk0, hne⟩ := hv
  have hn : (0 : ℝ) < n := by exact_mod_cast (by omega : 0 < n)
  unfold pr
  simp only [sumRange_eq]
  set w : ℕ → ℝ := fun i => ∑ k ∈ range d, v i k * v i k with hw
  have hw0 : ∀ i, 0 ≤ w i := fun i => Finset.sum_nonneg fun k _ => mul_self_nonneg _
  have hwi : 0 < w i0 := by
    apply Finset.sum_pos' (fun k _ => mul_self_nonneg _)
    exact ⟨k0, mem_range.mpr hk0, mul_self_pos.mpr hne⟩
  have hS : 0 < ∑ i ∈ range n, w i :=
    Finset.sum_pos' (fun i _ => hw0 i) ⟨i0, mem_range.mpr hi0, hwi⟩
  have hQ : 0 < ∑ i ∈ range n, w i * w i :=
    Finset.sum_pos' (fun i _ => mul_self_nonneg _) ⟨i0, mem_range.mpr hi0, mul_pos hwi hwi⟩
  have hcs : (∑ i ∈ range n, w i) ^ 2 ≤ n * ∑ i ∈ range n, w i ^ 2 := by
    have := sq_sum_le_card_mul_sum_sq (s := range n) (f := w)
    simpa using this
  have hden : 0 < (∑ i ∈ range n, w i * w i) * (n : ℝ) := mul_pos hQ hn
  constructor
  · exact mul_pos (one_div_pos.mpr hden) (mul_pos hS hS)
  · rw [one_div, inv_mul_le_iff₀ hden, mul_one]
    calc (∑ i ∈ range n, w i) * (∑ i ∈ range n, w i) = (∑ i ∈ range n, w i) ^ 2 := by ring
      _ ≤ n * ∑ i ∈ range n, w i ^ 2 := hcs
      _ = (∑ i ∈ range n, w i * w i) * n := by
          rw [mul_comm]; congr 1; exact Finset.sum_congr rfl fun i _ => by ring

/-- **frequencies**: the regenerated `np.where(evals > 0, np.sqrt(evals), evals)`: a positive eigenvalue is reported as its
positive square root, a non-positive one is passed through -/
theorem C11_frequencies (lam : ℝ) :
    (0 < lam → GenR.Hess.frequencies lam ^ 2 = lam ∧ 0 < GenR.Hess.frequencies lam) ∧
    (lam ≤ 0 → GenR.Hess.frequencies lam = lam) := by
  unfold GenR.Hess.frequencies
  constructor
  · intro h
    simp only [gt_iff_lt, h, decide_true, if_true]
    exact ⟨Real.sq_sqrt h.le, Real.sqrt_pos.mpr h⟩
  · intro h
    have : ¬ 0 < lam := not_lt.mpr h
    simp [this]

/-- the regenerated structural facts the hand-written control structure of `Pms.Hess.step/assemble/block/pr` relies on:
slice targets and operators of the two assembly statements, loop headers, unpacking of `Rji`, data flow of the pair
call, the statements of `participation_ratio`, what is diagonalised and written -/
theorem C11_source_shape :
    Pms.Gen.HessTab.assembly =
      [("+=", ["index_i_0", "index_i_1", "index_i_0", "index_i_1"]),
       ("=", ["index_i_0", "index_i_1", "index_j_0", "index_j_1"])] ∧
    Pms.Gen.HessTab.loops = ["i in range(nparticle)", "j in range(nparticle)"] ∧
    Pms.Gen.HessTab.unpack2 = ["x", "y"] ∧ Pms.Gen.HessTab.unpack3 = ["x", "y", "z"] ∧
    Pms.Gen.HessTab.zDefault = "0" ∧ Pms.Gen.HessTab.rDef = "np.linalg.norm(Rji)" ∧
    Pms.Gen.HessTab.pairReturn = "(dudr2i, dudr2j)" ∧
    Pms.Gen.HessTab.entryNames = ["xi_xi", "xi_yi", "yi_yi", "xi_zi", "yi_zi", "zi_zi"] ∧
    Pms.Gen.HessTab.perParticle = ["RJI = positions[i] - positions",
      "RJI = remove_pbc(RJI, self.snapshot.hmatrix, self.ppp)", "distance = np.linalg.norm(RJI, axis=1)"] ∧
    Pms.Gen.HessTab.pairArgs = [("r", "distance[j]"), ("epsilon", "self.epsilons[itype, jtype]"),
      ("sigma", "self.sigmas[itype, jtype]"), ("r_c", "self.r_cuts[itype, jtype]"), ("shift", "self.shiftpotential")] ∧
    Pms.Gen.HessTab.dudrsCall = "pair_interaction.caller(interaction_params)" ∧
    Pms.Gen.HessTab.pairMatrixCall = "self.pair_matrix(RJI[j], dudrs)" ∧
    Pms.Gen.HessTab.hessianInit = "np.zeros((self.ndim * nparticle, self.ndim * nparticle))" ∧
    Pms.Gen.HessTab.prefactorInit = "np.zeros_like(self.epsilons, dtype=float)" ∧
    Pms.Gen.HessTab.eigCall = "evals, evecs = np.linalg.eigh(hessian_matrix)" ∧
    Pms.Gen.HessTab.prLoop =
      "i in range(evecs.shape[1]): PR[i] = participation_ratio(evecs[:, i].reshape(nparticle, self.ndim))" ∧
    Pms.Gen.HessTab.csvWrite =
      ["pd.DataFrame({'omega': frequencies, 'PR': PR}).to_csv(outputfile + '.omega_PR.csv', index=False)"] ∧
    Pms.Gen.HessTab.participationRatio = ["num_of_particles = vector.shape[0]",
      "value_PR = 1.0 / (np.sum(np.square((vector * vector).sum(axis=1))) * num_of_particles)",
      "value_PR *= np.square((vector * vector).sum())", "return value_PR"] ∧
    Pms.Gen.HessTab.initStores = [("snapshot", "snapshot"), ("masses", "masses"), ("epsilons", "epsilons"),
      ("sigmas", "sigmas"), ("r_cuts", "r_cuts"), ("ppp", "ppp"), ("ndim", "len(ppp)"),
      ("shiftpotential", "shiftpotential")] ∧
    (∀ i j d : ℕ, Pms.Gen.HessTab.index_i_0 i j d 0 0 = i * d ∧ Pms.Gen.HessTab.index_j_0 i j d (i * d) 0 = j * d ∧
      Pms.Gen.HessTab.index_i_1 i j d (i * d) (j * d) = i * d + d ∧ Pms.Gen.HessTab.index_j_1 i j d (i * d) (j * d) = j * d + d) := by
  refine ⟨by decide, by decide, by decide, by decide, by decide, by decide, by decide, by decide, by decide, by decide, by decide,
    by decide, by decide, by decide, by decide, by decide, by decide, by decide, by decide, ?_⟩
  intro i j d
  exact ⟨rfl, rfl, rfl, rfl⟩

end Pms.C11
