import Pms.Model.Voropp
import Pms.Lemmas.Voropp
import Mathlib.Algebra.BigOperators.Ring.List
import Mathlib.Algebra.BigOperators.Ring.Finset

/-!
# Beyond the 20 listed properties — post-processing of voro++ output (`neighbors/voropp_neighbors.py`)

`voro++` itself is an external program and is not modelled: its output lines are the input.  The theorems say what `voronowalls`
does to EVERY well-formed line and what `indicehis` returns for EVERY index file.  Tie: `./check EXTRA` runs the real routines with a
stand-in `voro++` executable (a script that copies a prepared `dumpused.vol`) against the driver's model (`voropp walls`, `voropp his`)
and against the statements below.
-/
namespace Pms.Voropp

/-- **`voronowalls`, one cell, every well-formed line** (id > 0, cn > 0, as many face areas as neighbours): numpy never raises, and
the three written rows are the Spec — the neighbours with a positive id in their order, each with ITS OWN face area (the boolean mask
is computed on `[id, cn, n_1, …]` and applied to `[id, cn, f_1, …]`: the two leading entries are kept because they are positive, so
the areas stay aligned), the coordination number = the number of kept neighbours, the total area = the sum of the kept areas, the
volume untouched. -/
theorem E_walls_refines (id cn : ℤ) (nbrs : List ℤ) (areas : List ℚ) (fcn vol ocn oarea : ℚ) (idx : String)
    (hid : 0 < id) (hcn : 0 < cn) (hlen : nbrs.length = areas.length) :
    wallsImpl { ov := [(id : ℚ), ocn, vol, oarea], idx := idx, nb := id :: cn :: nbrs, fa := (id : ℚ) :: fcn :: areas }
      = some (wallsSpec id nbrs areas vol) := by
  unfold wallsImpl wallsSpec
  have hmask : (id :: cn :: nbrs).map (fun n => decide (n > 0)) = true :: true :: nbrs.map (fun n => decide (n > 0)) := by
    simp [hid, hcn]
  simp only [hmask, maskBy, if_true]
  rw [maskBy_map_filter (fun n => decide (n > 0)) nbrs, maskBy_map_zip (fun n => decide (n > 0)) nbrs areas hlen]
  have hk : (nbrs.zip areas).filterMap (fun q => if decide (q.1 > 0) = true then some q.2 else none) = keptFa nbrs areas := by
    unfold keptFa; congr 1; funext q; simp
  rw [hk]
  have h2' : (((id : ℚ) :: fcn :: areas).length ≠ (id :: cn :: nbrs).length) = False := by simp [hlen]
  have h1' : ((id :: cn :: nbrs.filter fun n => decide (n > 0)).length < 2) = False := by simp
  simp only [h1', h2', if_false]
  simp [keptNb, List.set]

/-- no wall is left in the written neighbour row -/
theorem E_walls_no_wall (id : ℤ) (nbrs : List ℤ) (areas : List ℚ) (vol : ℚ) :
    ∀ n ∈ (wallsSpec id nbrs areas vol).nb.drop 2, 0 < n := by
  intro n hn
  simp only [wallsSpec, List.drop_succ_cons, List.drop_zero, keptNb, List.mem_filter, decide_eq_true_eq] at hn
  exact hn.2

/-- the new coordination number counts the real neighbours; the areas row has one entry per kept neighbour; a cell without walls is
written back unchanged -/
theorem E_walls_counts (id : ℤ) (nbrs : List ℤ) (areas : List ℚ) (vol : ℚ) (hlen : nbrs.length = areas.length) :
    (keptNb nbrs).length = nbrs.countP (fun n => decide (n > 0)) ∧
    (keptFa nbrs areas).length = (keptNb nbrs).length ∧
    ((∀ n ∈ nbrs, 0 < n) → (wallsSpec id nbrs areas vol).nb = id :: (nbrs.length : ℤ) :: nbrs ∧
                             (wallsSpec id nbrs areas vol).fa = (id : ℚ) :: (nbrs.length : ℚ) :: areas) := by
  refine ⟨by simp [keptNb, List.countP_eq_length_filter], length_keptFa nbrs areas hlen, ?_⟩
  intro hall
  have hk : keptNb nbrs = nbrs := by
    unfold keptNb; rw [List.filter_eq_self]; intro n hn; simpa using hall n hn
  have hf : keptFa nbrs areas = areas := by
    unfold keptFa
    induction nbrs generalizing areas with
    | nil => cases areas <;> simp at hlen ⊢
    | cons a t ih =>
      cases areas with
      | nil => simp at hlen
      | cons b u =>
        have ha : 0 < a := hall a (by simp)
        have := ih u (by simpa using hlen) (fun n hn => hall n (by simp [hn])) (by
          unfold keptNb; rw [List.filter_eq_self]; intro n hn; simpa using hall n (by simp [hn]))
        simp [ha, this]
  simp [wallsSpec, hk, hf]

/-- the recomputed total face area is the sum of the kept areas, at most the original sum when the areas are non-negative -/
theorem E_walls_area (id : ℤ) (nbrs : List ℤ) (areas : List ℚ) (vol : ℚ) (hpos : ∀ a ∈ areas, 0 ≤ a) :
    (wallsSpec id nbrs areas vol).ov = [(id : ℚ), ((keptNb nbrs).length : ℚ), vol, (keptFa nbrs areas).sum] ∧
    (keptFa nbrs areas).sum ≤ areas.sum := by
  refine ⟨by simp [wallsSpec, sumRat_eq_sum], keptFa_sublist_sum_le nbrs areas hpos⟩

/-- the hypotheses of `E_walls_refines` are satisfiable and the statement is not trivial: a cell with two walls -/
example : wallsImpl { ov := [1, 4, 3/2, 6], idx := "1 0 0 0 2 1 1 0 0", nb := [1, 4, 2, -1, 3, -3], fa := [1, 4, 3/2, 1/2, 2, 2] }
    = some { nb := [1, 2, 2, 3], fa := [1, 2, 3/2, 2], ov := [1, 2, 3/2, 7/2] } := by decide +kernel

/-! ### indicehis -/

/-- **`indicehis`, every index file**: each distinct key `<n3 n4 n5 n6>` appears once, with frequency count/total -/
theorem E_his_rows (lines : List (List ℤ)) (k : List ℤ) (f : ℚ) :
    (k, f) ∈ indiceHis lines ↔ k ∈ lines.map hisKey ∧ f = (((lines.map hisKey).count k : ℕ) : ℚ) / ((lines.length : ℕ) : ℚ) := by
  unfold indiceHis countKeys
  simp only [List.mem_map, List.mem_reverse, List.mem_mergeSort, List.length_map, Prod.mk.injEq]
  constructor
  · rintro ⟨p, ⟨k', hk', rfl⟩, rfl, rfl⟩
    exact ⟨(mem_distinct _ _).1 hk' |> List.mem_map.1, rfl⟩
  · rintro ⟨hk, rfl⟩
    exact ⟨(k, (lines.map hisKey).count k), ⟨k, (mem_distinct _ _).2 (List.mem_map.2 hk), rfl⟩, rfl, rfl⟩

/-- **the frequencies add up to one** (for a non-empty file) -/
theorem E_his_total (lines : List (List ℤ)) (hne : lines ≠ []) : ((indiceHis lines).map Prod.snd).sum = 1 := by
  unfold indiceHis countKeys
  simp only [List.map_map, List.map_reverse, List.sum_reverse, List.length_map]
  have hperm : (((((distinct (lines.map hisKey)).map fun k => (k, (lines.map hisKey).count k)).mergeSort fun a b => lexLE a.1 b.1).mergeSort
      fun a b => decide (a.2 ≤ b.2)).map (Prod.snd ∘ fun p => (p.1, ((p.2 : ℕ) : ℚ) / ((lines.length : ℕ) : ℚ)))).Perm
      ((distinct (lines.map hisKey)).map fun k => (((lines.map hisKey).count k : ℕ) : ℚ) / ((lines.length : ℕ) : ℚ)) := by
    refine (((List.mergeSort_perm _ _).trans (List.mergeSort_perm _ _)).map _).trans ?_
    rw [List.map_map]
    exact List.Perm.refl _
  rw [hperm.sum_eq]
  have hlen : ((lines.length : ℕ) : ℚ) ≠ 0 := by
    have : 0 < lines.length := List.length_pos_of_ne_nil hne
    exact_mod_cast this.ne'
  have hdiv : ((distinct (lines.map hisKey)).map fun k => (((lines.map hisKey).count k : ℕ) : ℚ) / ((lines.length : ℕ) : ℚ)).sum =
      ((distinct (lines.map hisKey)).map fun k => (((lines.map hisKey).count k : ℕ) : ℚ)).sum / ((lines.length : ℕ) : ℚ) := by
    simp only [div_eq_mul_inv]
    exact List.sum_map_mul_right _ _ _
  rw [hdiv]
  have hsum : ((distinct (lines.map hisKey)).map fun k => (((lines.map hisKey).count k : ℕ) : ℚ)).sum = ((lines.length : ℕ) : ℚ) := by
    have := sum_count_distinct (lines.map hisKey)
    have hcast : (((distinct (lines.map hisKey)).map fun k => (lines.map hisKey).count k).sum : ℚ) =
        ((distinct (lines.map hisKey)).map fun k => (((lines.map hisKey).count k : ℕ) : ℚ)).sum := by
      rw [Nat.cast_list_sum, List.map_map]; rfl
    rw [← hcast, this]; simp
  rw [hsum, div_self hlen]

/-- **most frequent first**: the frequencies are non-increasing down the table -/
theorem E_his_sorted (lines : List (List ℤ)) : ((indiceHis lines).map Prod.snd).Pairwise (· ≥ ·) := by
  unfold indiceHis
  rw [List.map_map, List.map_reverse, List.pairwise_reverse]
  have hs := List.pairwise_mergeSort (le := fun (a b : List ℤ × ℕ) => decide (a.2 ≤ b.2))
    (fun a b c hab hbc => by simp only [decide_eq_true_eq] at *; omega)
    (fun a b => by simp only [Bool.or_eq_true, decide_eq_true_eq]; omega)
    ((countKeys (lines.map hisKey)).mergeSort fun a b => lexLE a.1 b.1)
  rw [List.pairwise_map]
  refine hs.imp ?_
  intro a b hab
  simp only [decide_eq_true_eq] at hab
  simp only [Function.comp, ge_iff_le]
  have hnn : (0 : ℚ) ≤ (((lines.map hisKey).length : ℕ) : ℚ) := Nat.cast_nonneg _
  exact div_le_div_of_nonneg_right (by exact_mod_cast hab) hnn

end Pms.Voropp
