import Pms.Lemmas.RefShell
import Pms.Lemmas.AdditionCheck

/-!
# C09 — addition theorem, q_l from the bond–bond cosines, reference crystals (property theorems only)

`bondY` is the model's unit-vector form of the C08 spherical harmonics (`C09_angles`: it equals `Y_lm(θ, φ)` at the bond
angles), executed by the driver in the correspondence with `boo_3d`.  For every degree l ≤ 12:

* `C09_addition_theorem`  — Σ_m Y_lm(û) conj Y_lm(v̂) = (2l+1)/(4π) · P_l(û·v̂) for all non-zero bonds u, v
  (a trivariate polynomial identity decided in the kernel + algebra over ℂ; generalises Unsöld's identity `C09_unsold`);
* `C09_ql_cosines`        — q_l² of a particle is the mean of P_l over all ordered pairs of its bonds;
* `C09_reference_shells`  — "perfect fcc, bcc, hcp, simple-cubic environments give the tabulated reference values":
  for every rotated copy of the integer shell, bonds rescaled individually, q_l is EXACTLY √(7/192), √(169/512), …
  and within 1e-6 of the tabulated value (l = 4, 6).  (The icosahedral shell has irrational direction cosines and the
  ŵ_l values need the Wigner-3j contraction: those two stay a labelled numeric test in the harness.)
-/
open Finset
namespace Pms.Boo
open Pms.Sph Pms.PolyN Pms.Sym Pms.RefShell

/-- **Addition theorem**, l ≤ 12, all non-zero u, v ∈ ℝ³ -/
theorem C09_addition_theorem (l : ℕ) (hl : l ∈ List.range 13) (u v : ℕ → ℝ) (hu : 0 < dot 3 u u) (hv : 0 < dot 3 v v) :
    ∑ k ∈ range (2 * l + 1), bondY cOps l (u 0) (u 1) (u 2) ((k : ℤ) - l)
        * (starRingEnd ℂ) (bondY cOps l (v 0) (v 1) (v 2) ((k : ℤ) - l))
      = (((2 * (l : ℝ) + 1) / (4 * Real.pi) * ev (cosG u v) (legendre l) : ℝ) : ℂ) :=
  addition_vec l (additionOK_le12 l hl) u v hu hv

/-- Unsöld's identity is the diagonal case u = v (P_l(1) = 1 is `C08_legendre_sanity`) — stated here as a consistency
corollary: the sum is real and equals (2l+1)/(4π)·P_l(cos 0) -/
theorem C09_addition_diagonal (l : ℕ) (hl : l ∈ List.range 13) (u : ℕ → ℝ) (hu : 0 < dot 3 u u) :
    ∑ k ∈ range (2 * l + 1), bondY cOps l (u 0) (u 1) (u 2) ((k : ℤ) - l)
        * (starRingEnd ℂ) (bondY cOps l (u 0) (u 1) (u 2) ((k : ℤ) - l))
      = (((2 * (l : ℝ) + 1) / (4 * Real.pi) * ev 1 (legendre l) : ℝ) : ℂ) := by
  rw [C09_addition_theorem l hl u u hu hu]
  have : cosG u u = 1 := by
    unfold cosG
    rw [Real.mul_self_sqrt hu.le, div_self hu.ne']
  rw [this]

/-- **q_l² = (1/N²) Σ_{j,j'} P_l(cos γ_jj')** for the model's `q_lm` (unweighted branch), l ≤ 12, any coordination number -/
theorem C09_ql_cosines (l : ℕ) (hl : l ∈ List.range 13) (cn : ℕ → ℕ) (u : ℕ → ℕ → ℕ → ℝ) (i : ℕ)
    (hnz : ∀ j < cn i, 0 < dot 3 (u i j) (u i j)) :
    qlSq cOps l (qlmImpl cn (Yv l u) i)
      = (∑ j ∈ range (cn i), ∑ j' ∈ range (cn i), ev (cosG (u i j) (u i j')) (legendre l)) / ((cn i : ℝ) * (cn i : ℝ)) :=
  qlSq_cosines l (additionOK_le12 l hl) cn u i hnz

/-- **Reference crystals.**  For each tabulated (structure, l, value·10⁶): a particle whose bonds have the squared
direction cosines of the integer shell has q_l² equal to the exact rational `ql2 l shell`, and q_l within 1e-6 of the
tabulated number. -/
theorem C09_reference_shells (e : String × ℕ × ℕ) (he : e ∈ tabulated)
    (cn : ℕ → ℕ) (u : ℕ → ℕ → ℕ → ℝ) (i : ℕ) (hcn : cn i = (shellOf e.1).length)
    (hnz : ∀ j < cn i, 0 < dot 3 (u i j) (u i j))
    (hcos : ∀ j < cn i, ∀ j' < cn i,
      dot 3 (u i j) (u i j') ^ 2 * (((idot ((shellOf e.1).getD j (0,0,0)) ((shellOf e.1).getD j (0,0,0))
            * idot ((shellOf e.1).getD j' (0,0,0)) ((shellOf e.1).getD j' (0,0,0)) : ℤ)) : ℝ)
        = (((idot ((shellOf e.1).getD j (0,0,0)) ((shellOf e.1).getD j' (0,0,0))
            * idot ((shellOf e.1).getD j (0,0,0)) ((shellOf e.1).getD j' (0,0,0)) : ℤ)) : ℝ)
            * (dot 3 (u i j) (u i j) * dot 3 (u i j') (u i j'))) :
    qlSq cOps e.2.1 (qlmImpl cn (Yv e.2.1 u) i) = ((ql2 e.2.1 (shellOf e.1) : ℚ) : ℝ) ∧
    |ql cOps e.2.1 (qlmImpl cn (Yv e.2.1 u) i) - (e.2.2 : ℝ) / 1000000| ≤ 1 / 1000000 := by
  obtain ⟨htab, hshell, hl⟩ := tabulated_ok e he
  have hsq := qlSq_ref_shell e.2.1 (additionOK_le12 _ hl) (shellOf e.1) hshell cn u i hcn hnz hcos
  refine ⟨hsq, ?_⟩
  unfold ql
  rw [hsq]
  show |Real.sqrt _ - _| ≤ _
  simp only [tabOK, Bool.and_eq_true, decide_eq_true_eq] at htab
  obtain ⟨⟨h1, hlo⟩, hhi⟩ := htab
  set R : ℚ := ql2 e.2.1 (shellOf e.1)
  set t : ℕ := e.2.2
  have hloR : ((t : ℝ) - 1) ^ 2 ≤ (R : ℝ) * 1000000000000 := by
    have := (Rat.cast_le (K := ℝ)).2 hlo
    push_cast [Nat.cast_sub h1] at this
    nlinarith [this]
  have hhiR : (R : ℝ) * 1000000000000 ≤ ((t : ℝ) + 1) ^ 2 := by
    have := (Rat.cast_le (K := ℝ)).2 hhi
    push_cast at this
    nlinarith [this]
  have ht1 : (1 : ℝ) ≤ (t : ℝ) := by exact_mod_cast h1
  have hR0 : 0 ≤ (R : ℝ) := by nlinarith [sq_nonneg ((t : ℝ) - 1)]
  have hs := Real.sqrt_nonneg (R : ℝ)
  have hss : Real.sqrt (R : ℝ) * Real.sqrt (R : ℝ) = (R : ℝ) := Real.mul_self_sqrt hR0
  rw [abs_le]
  constructor
  · -- √R ≥ (t − 1)/10⁶
    by_contra hcon
    push_neg at hcon
    have hlt : Real.sqrt (R : ℝ) * 1000000 < (t : ℝ) - 1 := by linarith
    have h0 : 0 ≤ Real.sqrt (R : ℝ) * 1000000 := by positivity
    nlinarith [mul_self_lt_mul_self h0 hlt]
  · by_contra hcon
    push_neg at hcon
    have hlt : (t : ℝ) + 1 < Real.sqrt (R : ℝ) * 1000000 := by linarith
    have h0 : 0 ≤ (t : ℝ) + 1 := by positivity
    nlinarith [mul_self_lt_mul_self h0 hlt]

/-- non-vacuity and the usable form: every ROTATED copy of a reference shell, each bond rescaled by its own factor
s_j > 0 (a perfect crystal environment seen at any orientation, neighbours listed in the shell's order), satisfies the
hypotheses of `C09_reference_shells`. -/
theorem C09_reference_shells_rotated (e : String × ℕ × ℕ) (he : e ∈ tabulated) (Rot : ℕ → ℕ → ℝ) (hR : IsOrtho 3 Rot)
    (s : ℕ → ℝ) (hs : ∀ j, 0 < s j) (cn : ℕ → ℕ) (i : ℕ) (hcn : cn i = (shellOf e.1).length) :
    let bv : ℕ → ℕ → ℝ := fun j k =>
      if k = 0 then ((((shellOf e.1).getD j (0,0,0)).1 : ℤ) : ℝ) else if k = 1 then ((((shellOf e.1).getD j (0,0,0)).2.1 : ℤ) : ℝ)
      else ((((shellOf e.1).getD j (0,0,0)).2.2 : ℤ) : ℝ)
    let u : ℕ → ℕ → ℕ → ℝ := fun _ j => matVec 3 Rot (fun k => s j * bv j k)
    |ql cOps e.2.1 (qlmImpl cn (Yv e.2.1 u) i) - (e.2.2 : ℝ) / 1000000| ≤ 1 / 1000000 := by
  intro bv u
  obtain ⟨_, hshell, _⟩ := tabulated_ok e he
  simp only [shellOK, Bool.and_eq_true, Bool.not_eq_true'] at hshell
  refine (C09_reference_shells e he cn u i hcn ?_ ?_).2
  · intro j hj
    have hb := idot_pos_of_all _ hshell.1.2 j (hcn ▸ hj)
    simp only [u, dot_matVec 3 Rot hR, dot3, bv]
    simp only [if_true, if_false, one_ne_zero, OfNat.ofNat_ne_zero, OfNat.ofNat_ne_one]
    have hbr : (0 : ℝ) < ((idot ((shellOf e.1).getD j (0,0,0)) ((shellOf e.1).getD j (0,0,0)) : ℤ) : ℝ) := by exact_mod_cast hb
    simp only [idot] at hbr
    push_cast at hbr
    have := hs j
    nlinarith [mul_pos (mul_pos this this) hbr]
  · intro j _ j' _
    exact ref_shell_rotated (shellOf e.1) Rot hR s j j'

end Pms.Boo
