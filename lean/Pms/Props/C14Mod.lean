import Pms.Gen.ModShape

/-! # C14 — pinned source text (property theorems only; statements written by tools/mkmodprops.py from the tree the
checks were validated on, hand-owned afterwards).  `Pms.Gen.ModShape` is REGENERATED from /repo on every run; these
theorems say that the module top levels (imports, module-level state, decorators, signatures and defaults) of the files
C14 is anchored in — and, where listed, the statements of the anchored routines — are still the text the model was
written against and the correspondence was run on.  An edit there breaks this obligation; the check then searches for
a failing input and reports `no-failing-input-found` when there is none (a harmless edit). -/
namespace Pms.ModShape
open Pms.Gen.ModShape

/-- module top levels of PyMatterSim/dynamic/time_corr.py -/
theorem C14_module_shape :
    shape_dynamic_time_corr =
  ["import numpy as np",
   "import numpy.typing as npt",
   "import pandas as pd",
   "from ..reader.reader_utils import Snapshots",
   "from ..utils.logging import get_logger_handle",
   "logger = get_logger_handle(__name__)",
   "def time_correlation(snapshots: Snapshots, condition: npt.NDArray, dt: float=0.002, outputfile: str='') -> pd.DataFrame"] :=
  rfl

end Pms.ModShape
