import Pms.Model.Neigh
import Pms.Lemmas.Basic

/-! # C05 — neighbour lists and the neighbour file (stub, widened below) -/
namespace Pms.Neigh
open Pms

/-- the header written by every writer is recognised as a neighbour-list header -/
theorem C05_header_is_neighborlist : isNeighborList header = true := by decide

end Pms.Neigh
