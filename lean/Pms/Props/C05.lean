import Pms.Lemmas.Neigh
import Pms.Lemmas.NeighFile
import Mathlib.Algebra.Order.Field.Basic
import Mathlib.Algebra.Ring.Int.Defs
import Mathlib.Tactic.NormNum

/-!
# C05 — neighbour lists and the neighbour file
(`PyMatterSim/neighbors/calculate_neighbors.py`, `read_neighbors.py`)

Property theorems only.  `K` is any ordered field (ℝ, ℚ); `d` any dimension; `n` any particle number;
`rint` any function meeting the `np.rint` contract; `apart` / `asort` ANY functions meeting the
`np.argpartition` / `argsort` contracts (`IsArgpartition`, `IsArgsort`); positions, cell and mask arbitrary.
"No ties" (`hnt`) is the property's own exclusion: distances from the centre are pairwise different.
The file theorems hold for any number of frames, any neighbour lists, any `Nmax` per call, any trailing
content of the file; `R` is any ring (ℤ for int32 tables, ℝ for float tables).
-/
namespace Pms.Neigh
open Pms Pms.Pbc

section Lists
variable {K : Type} [Field K] [LinearOrder K] [IsStrictOrderedRing K]

/-- N-nearest list of particle `i` (L61-70): defined iff `N < n`; then it has exactly `N` entries, all
other particles, strictly increasing in distance, and every particle left out is strictly farther than
every listed one. -/
theorem C05_nnearest (d : ℕ) (rint : K → ℤ) (hr : IsRintHE rint) (H Hinv : ℕ → ℕ → K) (ppp : ℕ → K)
    (pos : ℕ → ℕ → K) (apart : (ℕ → K) → ℕ → ℕ → List ℕ) (asort : (ℕ → K) → List ℕ → List ℕ)
    (hp : IsArgpartition apart) (hs : IsArgsort asort) (n N i : ℕ) (hi : i < n) (hN : N < n)
    (hnt : ∀ a < n, ∀ b < n,
      dist2 d rint H Hinv ppp pos i a = dist2 d rint H Hinv ppp pos i b → a = b) :
    ∃ L, Impl.nnearest0 apart asort (dist2 d rint H Hinv ppp pos i) n N = some L ∧
      Spec.IsNNearest (dist2 d rint H Hinv ppp pos i) n i N L :=
  nnearest0_spec hp hs _ n N i hi hN hnt (self_closest d rint hr H Hinv ppp pos n i hi hnt)

/-- the Spec pins the list down: any two lists meeting it are equal (so Impl = Spec as functions) -/
theorem C05_nnearest_unique (key : ℕ → K) (n i N : ℕ) (L L' : List ℕ)
    (h : Spec.IsNNearest key n i N L) (h' : Spec.IsNNearest key n i N L') : L = L' :=
  isNNearest_unique h h'

/-- the cutoff Spec pins the list down as well -/
theorem C05_cutoff_unique (key : ℕ → K) (within : ℕ → Prop) (n i : ℕ) (L L' : List ℕ)
    (h : Spec.IsCutoffList key within n i L) (h' : Spec.IsCutoffList key within n i L') : L = L' :=
  isCutoffList_unique h h'

/-- the routine raises exactly when there are not `N` other particles (`N = n-1` is served) -/
theorem C05_nnearest_defined_iff (apart : (ℕ → K) → ℕ → ℕ → List ℕ) (asort : (ℕ → K) → List ℕ → List ℕ)
    (key : ℕ → K) (n N : ℕ) : (Impl.nnearest0 apart asort key n N).isSome ↔ N + 1 ≤ n := by
  unfold Impl.nnearest0 Impl.nnearestGen Gen.Neigh.nnKth
  split <;> simp <;> omega

/-- global cutoff list of particle `i` (L120-128): `j` is listed iff `j ≠ i` and `d²(i,j) ≤ r_c²`
(boundary inclusive), no duplicates, strictly increasing distance; the cn column is the list length. -/
theorem C05_cutoff (d : ℕ) (rint : K → ℤ) (hr : IsRintHE rint) (H Hinv : ℕ → ℕ → K) (ppp : ℕ → K)
    (pos : ℕ → ℕ → K) (asort : (ℕ → K) → List ℕ → List ℕ) (hs : IsArgsort asort)
    (rc : K) (n i : ℕ) (hi : i < n)
    (hnt : ∀ a < n, ∀ b < n,
      dist2 d rint H Hinv ppp pos i a = dist2 d rint H Hinv ppp pos i b → a = b) :
    let key := dist2 d rint H Hinv ppp pos i
    let r := Impl.cutoff0 asort key (withinGlobal key (rc * rc)) n
    Spec.IsCutoffList key (fun j => key j ≤ rc * rc) n i r.2 ∧ r.1 = r.2.length := by
  intro key r
  have hwi : withinGlobal key (rc * rc) i = true := by
    simp only [withinGlobal, decide_eq_true_eq, key]
    rw [dist2_self d rint hr]; exact mul_self_nonneg rc
  obtain ⟨h1, h2⟩ : Spec.IsCutoffList key (fun j => withinGlobal key (rc * rc) j = true) n i r.2 ∧
      r.1 = r.2.length := cutoff0_spec hs key (withinGlobal key (rc * rc)) n i hi hwi hnt
    (self_closest d rint hr H Hinv ppp pos n i hi hnt)
  refine ⟨⟨fun j => ?_, h1.nodup, h1.sorted⟩, h2⟩
  rw [h1.mem j]; simp [withinGlobal]

/-- type-pair cutoff list (L181-205): the cutoff is `r_cut[type(i)-1][type(j)-1]` — row by the centre's
type, column by the neighbour's type; boundary inclusive; ordered; excludes `i`. -/
theorem C05_cutoff_type (d : ℕ) (rint : K → ℤ) (hr : IsRintHE rint) (H Hinv : ℕ → ℕ → K) (ppp : ℕ → K)
    (pos : ℕ → ℕ → K) (asort : (ℕ → K) → List ℕ → List ℕ) (hs : IsArgsort asort)
    (rcm : ℕ → ℕ → K) (ty : ℕ → ℕ) (n i : ℕ) (hi : i < n)
    (hnt : ∀ a < n, ∀ b < n,
      dist2 d rint H Hinv ppp pos i a = dist2 d rint H Hinv ppp pos i b → a = b) :
    let key := dist2 d rint H Hinv ppp pos i
    let rc2 : ℕ → ℕ → K := fun a b => rcm a b * rcm a b
    let r := Impl.cutoffT0 asort key (withinType key rc2 ty i) n
    Spec.IsCutoffList key (fun j => key j ≤ rcm (ty i - 1) (ty j - 1) * rcm (ty i - 1) (ty j - 1)) n i r.2
      ∧ r.1 = r.2.length := by
  intro key rc2 r
  have hwi : withinType key rc2 ty i i = true := by
    simp only [withinType, decide_eq_true_eq, key, rc2]
    rw [dist2_self d rint hr]; exact mul_self_nonneg _
  obtain ⟨h1, h2⟩ : Spec.IsCutoffList key (fun j => withinType key rc2 ty i j = true) n i r.2 ∧
      r.1 = r.2.length := cutoff0_spec hs key (withinType key rc2 ty i) n i hi hwi hnt
    (self_closest d rint hr H Hinv ppp pos n i hi hnt)
  refine ⟨⟨fun j => ?_, h1.nodup, h1.sorted⟩, h2⟩
  rw [h1.mem j]; simp [withinType, rc2]

/-- the global-cutoff relation is symmetric: `j` is in the list of `i` iff `i` is in the list of `j`
(uses the odd symmetry of `remove_pbc`, theorem `C02_odd`) -/
theorem C05_symmetric (d : ℕ) (rint : K → ℤ) (hr : IsRintHE rint) (H Hinv : ℕ → ℕ → K) (ppp : ℕ → K)
    (pos : ℕ → ℕ → K) (rc2 : K) (n i j : ℕ) (hi : i < n) (hj : j < n) (Li Lj : List ℕ)
    (hLi : Spec.IsCutoffList (dist2 d rint H Hinv ppp pos i)
      (fun m => dist2 d rint H Hinv ppp pos i m ≤ rc2) n i Li)
    (hLj : Spec.IsCutoffList (dist2 d rint H Hinv ppp pos j)
      (fun m => dist2 d rint H Hinv ppp pos j m ≤ rc2) n j Lj) :
    j ∈ Li ↔ i ∈ Lj := by
  rw [hLi.mem j, hLj.mem i, dist2_symm d rint hr H Hinv ppp pos i j]
  constructor
  · rintro ⟨_, h, hd⟩; exact ⟨hi, fun e => h e.symm, hd⟩
  · rintro ⟨_, h, hd⟩; exact ⟨hj, fun e => h e.symm, hd⟩

/-- deciding on squares is deciding on `np.linalg.norm` values: for any `sqrt` with the contract
`0 ≤ sqrt x`, `sqrt x * sqrt x = x` (x ≥ 0), comparisons with a cutoff `rc ≥ 0` and between two
distances agree with the comparisons of the squares -/
theorem C05_sqrt_free (sqrt : K → K) (hs0 : ∀ x, 0 ≤ x → 0 ≤ sqrt x)
    (hsq : ∀ x, 0 ≤ x → sqrt x * sqrt x = x) (x y rc : K) (hx : 0 ≤ x) (hy : 0 ≤ y) (hrc : 0 ≤ rc) :
    (sqrt x ≤ rc ↔ x ≤ rc * rc) ∧ (sqrt x ≤ sqrt y ↔ x ≤ y) := by
  constructor
  · rw [mul_self_le_mul_self_iff (hs0 x hx) hrc, hsq x hx]
  · rw [mul_self_le_mul_self_iff (hs0 x hx) (hs0 y hy), hsq x hx, hsq y hy]

/-- the comparison operators of the two cutoff masks in the source are `<=` (what `withinGlobal` /
`withinType` model), and every id offset / drop index / cn expression regenerated from the source is the
one the theorems above were proved with -/
theorem C05_source_constants :
    Gen.Neigh.cutCmp = "LtE" ∧ Gen.Neigh.ctypeCmp = "LtE" ∧
    (∀ N, Gen.Neigh.nnKth N = N ∧ Gen.Neigh.nnTake N = N + 1 ∧ Gen.Neigh.nnCn N = N) ∧
    Gen.Neigh.nnDrop = 1 ∧ Gen.Neigh.nnIdOff = 1 ∧
    Gen.Neigh.cutCnMinus = 1 ∧ Gen.Neigh.cutDrop = 1 ∧ Gen.Neigh.cutIdOff = 1 ∧
    Gen.Neigh.ctypeCnMinus = 1 ∧ Gen.Neigh.ctypeDrop = 1 ∧ Gen.Neigh.ctypeIdOff = 1 := by
  refine ⟨by decide, by decide, fun N => ⟨rfl, rfl, rfl⟩, rfl, rfl, rfl, rfl, rfl, rfl, rfl, rfl⟩

/-- the numpy contracts are satisfiable: the driver's stable merge sort meets both -/
theorem C05_contracts_satisfiable :
    IsArgsort (K := K) sortBy ∧ IsArgpartition (K := K) apartSort :=
  ⟨sortBy_isArgsort, apartSort_isArgpartition⟩

/-- the cn column written by the cutoff writers is the number of ids on the line, for any argsort -/
theorem C05_cutoff_written (asort : (ℕ → K) → List ℕ → List ℕ) (hs : IsArgsort asort)
    (key : ℕ → ℕ → K) (rc2 : K) (n : ℕ) :
    Impl.cutoffFrame asort key rc2 n = render (Impl.cutoffLists asort key rc2 n) := by
  unfold Impl.cutoffFrame Impl.cutoffLists
  refine lines_eq_render n (fun i => (Impl.cutoff0 asort (key i) (withinGlobal (key i) rc2) n).1) _
    fun i _ => ?_
  unfold Impl.cutoff0 Impl.cutoffGen Gen.Neigh.cutCnMinus Gen.Neigh.cutDrop
  simp only [List.length_drop, (hs.perm _ _).length_eq]

theorem C05_cutoff_type_written (asort : (ℕ → K) → List ℕ → List ℕ) (hs : IsArgsort asort)
    (key : ℕ → ℕ → K) (rc2 : ℕ → ℕ → K) (ty : ℕ → ℕ) (n : ℕ) :
    Impl.cutoffTypeFrame asort key rc2 ty n = render (Impl.cutoffTypeLists asort key rc2 ty n) := by
  unfold Impl.cutoffTypeFrame Impl.cutoffTypeLists
  refine lines_eq_render n (fun i => (Impl.cutoffT0 asort (key i) (withinType (key i) rc2 ty i) n).1) _
    fun i _ => ?_
  unfold Impl.cutoffT0 Impl.cutoffGen Gen.Neigh.ctypeCnMinus Gen.Neigh.ctypeDrop
  simp only [List.length_drop, (hs.perm _ _).length_eq]

/-- `Nnearests` writes `cn = N` and the rendered lists (each list has length N by `C05_nnearest`) -/
theorem C05_nnearest_written (apart : (ℕ → K) → ℕ → ℕ → List ℕ) (asort : (ℕ → K) → List ℕ → List ℕ)
    (hp : IsArgpartition apart) (hs : IsArgsort asort) (key : ℕ → ℕ → K) (n N : ℕ) (hN : N < n) :
    Impl.nnearestFrame apart asort key n N = some (render (Impl.nnearestLists apart asort key n N)) := by
  unfold Impl.nnearestFrame Impl.nnearestLists
  rw [if_pos (show Gen.Neigh.nnKth N < n from hN)]
  congr 1
  refine lines_eq_render n (fun _ => Gen.Neigh.nnCn N) _ fun i _ => ?_
  unfold Impl.nnearest0 Impl.nnearestGen Gen.Neigh.nnKth Gen.Neigh.nnTake Gen.Neigh.nnDrop Gen.Neigh.nnCn
  rw [if_pos hN]
  simp only [Option.getD_some, List.length_drop, (hs.perm _ _).length_eq, List.length_take,
    ((hp.perm (key i) n N hN).length_eq), List.length_range]
  omega

end Lists

section File
variable {R : Type} [Ring R]

/-- one `read_neighbors` call on a written neighbour-list frame followed by ANY further content:
per particle id the coordination number (capped at Nmax), the zero-based neighbour indices truncated
to Nmax and zero-padded to the largest (capped) coordination number; the handle is left exactly at the
next frame.  `float()` is any function with `float(str(m)) = m`. -/
theorem C05_file_roundtrip_step (pNum : String → R) (hpn : ∀ m : ℕ, pNum (Nat.repr m) = (m : R))
    (fr : List (List ℕ)) (Nmax : ℕ) (rest : Lines) :
    Impl.readNeighbors pNum (render fr ++ rest) fr.length Nmax = (Spec.expectedTable Nmax fr, rest) := by
  have h := readNeighbors_renderTok pNum header (fr.map idToks) rest Nmax
  rw [List.length_map] at h
  unfold render
  rw [h]
  congr 1
  unfold Spec.expectedTable
  rw [List.map_map]
  congr 1
  apply List.map_congr_left
  intro nb _
  have : isNeighborList header = true := by decide
  simp only [Function.comp, this]
  exact conv_idToks pNum hpn nb

/-- any number of frames written one after the other and read back by successive calls on ONE handle,
each call with its own `Nmax`: the calls return the expected tables of the frames in order, and the handle
ends at the first unread frame (then the rest of the file). -/
theorem C05_file_roundtrip (pNum : String → R) (hpn : ∀ m : ℕ, pNum (Nat.repr m) = (m : R)) (n : ℕ)
    (frames : List (List (List ℕ))) (hn : ∀ fr ∈ frames, fr.length = n)
    (nmaxs : List ℕ) (hlen : nmaxs.length ≤ frames.length) (rest : Lines) :
    Impl.readFrames pNum (frames.flatMap render ++ rest) n nmaxs =
      (List.zipWith Spec.expectedTable nmaxs frames,
       (frames.drop nmaxs.length).flatMap render ++ rest) := by
  induction nmaxs generalizing frames with
  | nil => simp [Impl.readFrames]
  | cons m ms ih =>
    cases frames with
    | nil => simp at hlen
    | cons fr frs =>
      have hfr : fr.length = n := hn fr List.mem_cons_self
      simp only [Impl.readFrames, List.flatMap_cons, List.append_assoc]
      rw [← hfr, C05_file_roundtrip_step pNum hpn fr m]
      simp only
      rw [hfr, ih frs (fun f hf => hn f (List.mem_cons_of_mem _ hf)) (by simpa using hlen)]
      simp

/-- "via the file", end to end for the global-cutoff routine: the frames written for any sequence of
snapshots (`keys` = their squared-distance matrices), read back by successive calls, give the expected tables
of exactly the lists characterised by `C05_cutoff` -/
theorem C05_cutoff_via_file {K : Type} [Field K] [LinearOrder K] [IsStrictOrderedRing K] (pNum : String → R)
    (hpn : ∀ m : ℕ, pNum (Nat.repr m) = (m : R))
    (asort : (ℕ → K) → List ℕ → List ℕ) (hs : IsArgsort asort) (n : ℕ) (keys : List (ℕ → ℕ → K)) (rc2 : K)
    (nmaxs : List ℕ) (hlen : nmaxs.length ≤ keys.length) (rest : Lines) :
    Impl.readFrames pNum ((keys.flatMap fun key => Impl.cutoffFrame asort key rc2 n) ++ rest) n nmaxs =
      (List.zipWith Spec.expectedTable nmaxs (keys.map fun key => Impl.cutoffLists asort key rc2 n),
       ((keys.drop nmaxs.length).flatMap fun key => Impl.cutoffFrame asort key rc2 n) ++ rest) := by
  have h : (fun key => Impl.cutoffFrame asort key rc2 n)
      = fun key => render (Impl.cutoffLists asort key rc2 n) :=
    funext fun key => C05_cutoff_written asort hs key rc2 n
  rw [h]
  have hfm : ∀ l : List (ℕ → ℕ → K), (l.flatMap fun key => render (Impl.cutoffLists asort key rc2 n))
      = (l.map fun key => Impl.cutoffLists asort key rc2 n).flatMap render := by
    intro l; rw [List.flatMap_map]
  rw [hfm, hfm, List.map_drop]
  have := C05_file_roundtrip pNum hpn n (keys.map fun key => Impl.cutoffLists asort key rc2 n)
    (by
      intro fr hfr
      obtain ⟨key, _, rfl⟩ := List.mem_map.mp hfr
      simp [Impl.cutoffLists])
    nmaxs (by simpa using hlen) rest
  exact this

/-- a file whose header does not contain `neighborlist` (weights, Voronoi areas …): values are returned
as they are — no `-1` shift — with the same cn / padding / truncation layout -/
theorem C05_weights_branch (pNum : String → R) (hdr : Line) (hh : isNeighborList hdr = false)
    (fr : List (List String)) (Nmax : ℕ) (rest : Lines) :
    Impl.readNeighbors pNum (renderTok hdr fr ++ rest) fr.length Nmax =
      (Spec.expectedVals Nmax (fr.map fun toks => toks.map pNum), rest) := by
  have hc : conv pNum false = pNum := by funext s; simp [conv]
  rw [readNeighbors_renderTok, hh, hc]

/-- the `int()` / `%d` round trip used for ids and cn is proved, not assumed -/
theorem C05_int_roundtrip (m : ℕ) : (Nat.repr m).toNat? = some m := Nat.toNat?_repr m

end File

/-! non-vacuity -/

/-- the `float()` contract of the file theorems is satisfiable (ℤ-valued tables) -/
example : ∀ m : ℕ, (fun s : String => ((s.toNat?.getD 0 : ℕ) : ℤ)) (Nat.repr m) = (m : ℤ) := by
  intro m; simp

/-- the Spec table of a concrete frame: Nmax = 1 truncates particle 0, pads particle 2 -/
example : Spec.expectedTable (α := ℤ) 1 [[1, 2], [0], []] = [[1, 1], [1, 0], [0, 0]] := by decide

/-- … and with a generous Nmax the width is the largest coordination number -/
example : Spec.expectedTable (α := ℤ) 200 [[1, 2], [0], []] = [[2, 1, 2], [1, 0, 0], [0, 0, 0]] := by
  decide

/-- the no-tie hypothesis is satisfiable: three particles on a line in a periodic box of length 10 -/
example : ∀ a < 3, ∀ b < 3,
    dist2 (α := ℚ) 1 ratRint (fun _ _ => 10) (fun _ _ => 1/10) (fun _ => 1)
      (fun p _ => if p = 0 then 0 else if p = 1 then 1 else 7) 0 a =
    dist2 (α := ℚ) 1 ratRint (fun _ _ => 10) (fun _ _ => 1/10) (fun _ => 1)
      (fun p _ => if p = 0 then 0 else if p = 1 then 1 else 7) 0 b → a = b := by decide +kernel

end Pms.Neigh
