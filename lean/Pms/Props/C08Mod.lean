import Pms.Gen.ModShape

/-! # C08 — pinned source text (property theorems only; statements written by tools/mkmodprops.py from the tree the
checks were validated on, hand-owned afterwards).  `Pms.Gen.ModShape` is REGENERATED from /repo on every run; these
theorems say that the module top levels (imports, module-level state, decorators, signatures and defaults) of the files
C08 is anchored in — and, where listed, the statements of the anchored routines — are still the text the model was
written against and the correspondence was run on.  An edit there breaks this obligation; the check then searches for
a failing input and reports `no-failing-input-found` when there is none (a harmless edit). -/
namespace Pms.ModShape
open Pms.Gen.ModShape

/-- module top levels of PyMatterSim/utils/spherical_harmonics.py -/
theorem C08_module_shape :
    shape_utils_spherical_harmonics =
  ["import cmath",
   "import numpy as np",
   "import numpy.typing as npt",
   "try:\n    from scipy.special import sph_harm\nexcept ImportError:\n    from scipy.special import sph_harm_y\n\n    def sph_harm(m, l, az, pol):\n        \"\"\"scipy.special.sph_harm(m, l, azimuth, polar) expressed with sph_harm_y\"\"\"\n        return sph_harm_y(l, m, pol, az)",
   "def SphHarm0() -> float",
   "def SphHarm1(theta: float, phi: float) -> npt.NDArray",
   "def SphHarm2(theta: float, phi: float) -> npt.NDArray",
   "def SphHarm3(theta: float, phi: float) -> npt.NDArray",
   "def SphHarm4(theta: float, phi: float) -> npt.NDArray",
   "def SphHarm5(theta: float, phi: float) -> npt.NDArray",
   "def SphHarm6(theta: float, phi: float) -> npt.NDArray",
   "def SphHarm7(theta: float, phi: float) -> npt.NDArray",
   "def SphHarm8(theta: float, phi: float) -> npt.NDArray",
   "def SphHarm9(theta: float, phi: float) -> npt.NDArray",
   "def SphHarm10(theta: float, phi: float) -> npt.NDArray",
   "def SphHarm_above(l: int, theta: float, phi: float) -> npt.NDArray",
   "def sph_harm_l(l: int, theta: float, phi: float) -> npt.NDArray"] :=
  rfl

end Pms.ModShape
