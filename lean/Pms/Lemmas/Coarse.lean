import Pms.Model.Coarse
import Pms.Lemmas.Basic
import Pms.Lemmas.Rint
import Mathlib.Algebra.Order.Floor.Ring
import Mathlib.Algebra.Order.BigOperators.Group.Finset
import Mathlib.Tactic.Ring
import Mathlib.Tactic.Linarith
import Mathlib.Tactic.NormNum
import Mathlib.Tactic.Push

/-! Helper lemmas for C16 (coarse-graining). -/
open Finset
namespace Pms.Coarse
open Pms

/-- a `+=` loop is the initial value plus the sum -/
theorem fold_add_eq {M : Type} [AddCommMonoid M] (m : ℕ) (f : ℕ → M) (a : M) :
    foldRange m (fun acc t => acc + f t) a = a + ∑ t ∈ range m, f t := by
  induction m with
  | zero => simp [foldRange]
  | succ m ih => rw [foldRange_succ, ih, Finset.sum_range_succ, add_assoc]

/-! ### loops of array writes -/

/-- `body` overwrites exactly the slots in `dom`, and what it writes into slot `k` is `val k` -/
structure Writes {β : Type} (body : (ℕ → β) → (ℕ → β)) (dom : ℕ → Prop) (val : ℕ → β) : Prop where
  inside : ∀ acc k, dom k → body acc k = val k
  outside : ∀ acc k, ¬ dom k → body acc k = acc k

theorem Writes.set {β : Type} (k0 : ℕ) (v : β) (val : ℕ → β) (h : val k0 = v) :
    Writes (fun acc => Pms.set acc k0 v) (fun k => k = k0) val := by
  constructor
  · intro acc k hk; subst hk; simp [Pms.set, h]
  · intro acc k hk; simp [Pms.set, hk]

/-- a `for` loop of writers is a writer on the union of the domains -/
theorem Writes.loop {β : Type} (n : ℕ) (body : ℕ → (ℕ → β) → (ℕ → β)) (dom : ℕ → ℕ → Prop) (val : ℕ → β)
    (h : ∀ i < n, Writes (body i) (dom i) val) :
    Writes (fun acc => foldRange n (fun acc i => body i acc) acc) (fun k => ∃ i < n, dom i k) val := by
  induction n with
  | zero =>
    constructor
    · intro acc k ⟨i, hi, _⟩; omega
    · intro acc k _; rfl
  | succ n ih =>
    have ih' := ih (fun i hi => h i (by omega))
    constructor
    · intro acc k ⟨i, hi, hd⟩
      show body n (foldRange n (fun acc i => body i acc) acc) k = val k
      by_cases hn : dom n k
      · exact (h n (by omega)).inside _ k hn
      · rw [(h n (by omega)).outside _ k hn]
        have : i < n := by
          rcases Nat.lt_succ_iff_lt_or_eq.mp hi with h1 | h1
          · exact h1
          · subst h1; exact absurd hd hn
        exact ih'.inside acc k ⟨i, this, hd⟩
    · intro acc k hk
      show body n (foldRange n (fun acc i => body i acc) acc) k = acc k
      have hn : ¬ dom n k := fun hd => hk ⟨n, by omega, hd⟩
      rw [(h n (by omega)).outside _ k hn]
      exact ih'.outside acc k (fun ⟨i, hi, hd⟩ => hk ⟨i, by omega, hd⟩)

/-! ### row-major index arithmetic -/

theorem rm_div (n1 i j : ℕ) (hj : j < n1) : (i * n1 + j) / n1 = i := by
  have h : 0 < n1 := by omega
  rw [Nat.add_comm, Nat.add_mul_div_right _ _ h, Nat.div_eq_of_lt hj, Nat.zero_add]

theorem rm_mod (n1 i j : ℕ) (hj : j < n1) : (i * n1 + j) % n1 = j := by
  rw [Nat.add_comm, Nat.add_mul_mod_self_right, Nat.mod_eq_of_lt hj]

theorem rm_lt (n0 n1 i j : ℕ) (hi : i < n0) (hj : j < n1) : i * n1 + j < n0 * n1 := by
  have : (i + 1) * n1 ≤ n0 * n1 := Nat.mul_le_mul_right _ hi
  have e : (i + 1) * n1 = i * n1 + n1 := by ring
  omega

theorem rm_decomp (n1 g : ℕ) : g / n1 * n1 + g % n1 = g := by
  rw [Nat.mul_comm]; exact Nat.div_add_mod g n1

theorem rm_div_lt (n0 n1 g : ℕ) (hg : g < n0 * n1) : g / n1 < n0 := by
  rw [Nat.mul_comm] at hg
  exact Nat.div_lt_of_lt_mul hg

/-- lexicographic order = order of the row-major index -/
theorem rm_lex (n1 i j i' j' : ℕ) (hj : j < n1) (hlt : i < i' ∨ (i = i' ∧ j < j')) :
    i * n1 + j < i' * n1 + j' := by
  rcases hlt with h | ⟨h, h2⟩
  · have : (i + 1) * n1 ≤ i' * n1 := Nat.mul_le_mul_right _ h
    have e : (i + 1) * n1 = i * n1 + n1 := by ring
    omega
  · subst h; omega

/-! ### squares -/

theorem sumRange_sq_nonneg {K : Type} [Field K] [LinearOrder K] [IsStrictOrderedRing K] (d : ℕ) (r : ℕ → K) :
    0 ≤ sumRange d fun k => r k * r k := by
  rw [sumRange_eq]
  exact Finset.sum_nonneg fun k _ => mul_self_nonneg _

/-- contract of `np.sqrt` (and so of `np.linalg.norm`) on non-negative numbers -/
structure IsSqrt {K : Type} [Field K] [LinearOrder K] (sqrtf : K → K) : Prop where
  nonneg : ∀ x, 0 ≤ x → 0 ≤ sqrtf x
  sq : ∀ x, 0 ≤ x → sqrtf x * sqrtf x = x

/-! ### Python `int()` on ℚ -/

theorem ratTrunc_nonneg (x : ℚ) (hx : 0 ≤ x) : ratTrunc x = ⌊x⌋ := by
  unfold ratTrunc
  rw [if_pos hx]
  rfl

end Pms.Coarse
