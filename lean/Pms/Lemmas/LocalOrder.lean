import Pms.Model.LocalOrder
import Pms.Lemmas.Basic
import Mathlib.Algebra.Order.Field.Basic
import Mathlib.Algebra.BigOperators.Fin
import Mathlib.Tactic.Ring
import Mathlib.Tactic.Linarith
import Mathlib.Tactic.FieldSimp
import Mathlib.Tactic.NormNum

/-! Helper lemmas for C17 (local order parameters). -/
open Finset
namespace Pms.LocalOrder
open Pms

variable {K : Type} [Field K]

theorem powNat_eq (x : K) (n : ℕ) : powNat x n = x ^ n := by
  induction n with
  | zero => simp [powNat]
  | succ n ih => simp [powNat, ih, pow_succ]

theorem dot_eq (d : ℕ) (u v : ℕ → K) : dot d u v = ∑ x ∈ range d, u x * v x := by
  simp [dot, sumRange_eq]

theorem dot_comm (d : ℕ) (u v : ℕ → K) : dot d u v = dot d v u := by
  simp only [dot_eq]; exact Finset.sum_congr rfl fun i _ => mul_comm _ _

/-- foldr-sum over a list as a `List.sum` of a map -/
theorem foldr_add_eq (f : ℕ → K) (l : List ℕ) :
    l.foldr (fun b acc => f b + acc) 0 = (l.map f).sum := by
  induction l with
  | nil => simp
  | cons a t ih => simp [ih]

/-- foldl accumulation over a list as start + `List.sum` of a map -/
theorem foldl_add_eq (f : ℕ → K) (l : List ℕ) (s : K) :
    l.foldl (fun acc j => acc + f j) s = s + (l.map f).sum := by
  induction l generalizing s with
  | nil => simp
  | cons a t ih => simp [ih, add_assoc]

/-- the pair sum over a list is invariant under permutations of the list when `f` is symmetric -/
theorem pairSumList_perm (f : ℕ → ℕ → K) (hf : ∀ a b, f a b = f b a) {l₁ l₂ : List ℕ}
    (h : l₁.Perm l₂) : pairSumList f l₁ = pairSumList f l₂ := by
  induction h with
  | nil => rfl
  | cons a h ih =>
    simp only [pairSumList, foldr_add_eq, ih]
    rw [(h.map (f a)).sum_eq]
  | swap a b l =>
    simp only [pairSumList, foldr_add_eq, List.map_cons, List.sum_cons]
    rw [hf b a]; ring
  | trans _ _ ih₁ ih₂ => rw [ih₁, ih₂]

theorem cosPair_symm (sqrt : K → K) (R : ℕ → ℕ → K) (a b : ℕ) :
    cosPair sqrt R a b = cosPair sqrt R b a := by
  unfold cosPair; rw [dot_comm, mul_comm]

/-- `np.delete(·, i)` re-indexing: summing over the deleted array = summing over all `j ≠ i` -/
theorem sum_skip {M : Type} [AddCommMonoid M] (N i : ℕ) (hi : i < N) (f : ℕ → M) :
    ∑ j ∈ range (N - 1), f (skip i j) = ∑ j ∈ range N, if j ≠ i then f j else 0 := by
  rw [← Finset.sum_filter]
  symm
  refine Finset.sum_nbij' (fun j => if j < i then j else j - 1) (skip i) ?_ ?_ ?_ ?_ ?_
  · intro a ha
    simp only [Finset.mem_filter, Finset.mem_range] at ha
    simp only [Finset.mem_range]
    split <;> omega
  · intro a ha
    simp only [Finset.mem_range] at ha
    simp only [Finset.mem_filter, Finset.mem_range, skip]
    split <;> omega
  · intro a ha
    simp only [Finset.mem_filter, Finset.mem_range] at ha
    simp only [skip]
    split_ifs <;> omega
  · intro a ha
    simp only [Finset.mem_range] at ha
    simp only [skip]
    split_ifs <;> omega
  · intro a ha
    simp only [Finset.mem_filter, Finset.mem_range] at ha
    simp only [skip]
    split_ifs <;> first | rfl | (congr 1; omega)

/-- accumulating over the compacted (filtered) index list = masked sum -/
theorem foldl_filter_range (n : ℕ) (keep : ℕ → Bool) (F : ℕ → K) :
    ((List.range n).filter keep).foldl (fun acc j => acc + F j) 0
      = ∑ j ∈ range n, if keep j then F j else 0 := by
  rw [foldl_add_eq, zero_add]
  induction n with
  | zero => simp
  | succ n ih =>
    rw [List.range_succ, List.filter_append, List.map_append, List.sum_append, ih,
      Finset.sum_range_succ]
    congr 1
    by_cases h : keep n <;> simp [h]

end Pms.LocalOrder
