import Pms.Model.LocalOrder
import Pms.Lemmas.Basic
import Mathlib.Algebra.Order.Field.Basic
import Mathlib.Algebra.BigOperators.Fin
import Mathlib.Tactic.Ring
import Mathlib.Tactic.Linarith
import Mathlib.Tactic.FieldSimp
import Mathlib.Tactic.NormNum

/-! Helper lemmas for C17 (local order parameters). -/
open Finset
namespace Pms.LocalOrder
open Pms

variable {K : Type} [Field K]

theorem powNat_eq (x : K) (n : ℕ) : powNat x n = x ^ n := by
  induction n with
  | zero => simp [powNat]
  | succ n ih => simp [powNat, ih, pow_succ]

theorem dot_eq (d : ℕ) (u v : ℕ → K) : dot d u v = ∑ x ∈ range d, u x * v x := by
  simp [dot, sumRange_eq]

theorem dot_comm (d : ℕ) (u v : ℕ → K) : dot d u v = dot d v u := by
  simp only [dot_eq]; exact Finset.sum_congr rfl fun i _ => mul_comm _ _

/-- foldr-sum over a list as a `List.sum` of a map -/
theorem foldr_add_eq (f : ℕ → K) (l : List ℕ) :
    l.foldr (fun b acc => f b + acc) 0 = (l.map f).sum := by
  induction l with
  | nil => simp
  | cons a t ih => simp [ih]

/-- foldl accumulation over a list as start + `List.sum` of a map -/
theorem foldl_add_eq (f : ℕ → K) (l : List ℕ) (s : K) :
    l.foldl (fun acc j => acc + f j) s = s + (l.map f).sum := by
  induction l generalizing s with
  | nil => simp
  | cons a t ih => simp [ih, add_assoc]

/-- the pair sum over a list is invariant under permutations of the list when `f` is symmetric -/
theorem pairSumList_perm (f : ℕ → ℕ → K) (hf : ∀ a b, f a b = f b a) {l₁ l₂ : List ℕ}
    (h : l₁.Perm l₂) : pairSumList f l₁ = pairSumList f l₂ := by
  induction h with
  | nil => rfl
  | cons a h ih =>
    simp only [pairSumList, foldr_add_eq, ih]
    rw [(h.map (f a)).sum_eq]
  | swap a b l =>
    simp only [pairSumList, foldr_add_eq, List.map_cons, List.sum_cons]
    rw [hf b a]; ring
  | trans _ _ ih₁ ih₂ => rw [ih₁, ih₂]

theorem cosPair_symm (sqrt : K → K) (R : ℕ → ℕ → K) (a b : ℕ) :
    cosPair sqrt R a b = cosPair sqrt R b a := by
  unfold cosPair; rw [dot_comm, mul_comm]

/-- `np.delete(·, i)` re-indexing: summing over the deleted array = summing over all `j ≠ i` -/
theorem sum_skip {M : Type} [AddCommMonoid M] (N i : ℕ) (hi : i < N) (f : ℕ → M) :
    ∑ j ∈ range (N - 1), f (skip i j) = ∑ j ∈ range N, if j ≠ i then f j else 0 := by
  rw [← Finset.sum_filter]
  symm
  refine Finset.sum_nbij' (fun j => if j < i then j else j - 1) (skip i) ?_ ?_ ?_ ?_ ?_
  · intro a ha
    simp only [Finset.mem_filter, Finset.mem_range] at ha
    simp only [Finset.mem_range]
    split <;> omega
  · intro a ha
    simp only [Finset.mem_range] at ha
    simp only [Finset.mem_filter, Finset.mem_range, skip]
    split <;> omega
  · intro a ha
    simp only [Finset.mem_filter, Finset.mem_range] at ha
    simp only [skip]
    split_ifs <;> omega
  · intro a ha
    simp only [Finset.mem_range] at ha
    simp only [skip]
    split_ifs <;> omega
  · intro a ha
    simp only [Finset.mem_filter, Finset.mem_range] at ha
    simp only [skip]
    split_ifs <;> first | rfl | (congr 1; omega)

/-- accumulating over the compacted (filtered) index list = masked sum -/
theorem foldl_filter_range (n : ℕ) (keep : ℕ → Bool) (F : ℕ → K) :
    ((List.range n).filter keep).foldl (fun acc j => acc + F j) 0
      = ∑ j ∈ range n, if keep j then F j else 0 := by
  rw [foldl_add_eq, zero_add]
  induction n with
  | zero => simp
  | succ n ih =>
    rw [List.range_succ, List.filter_append, List.map_append, List.sum_append, ih,
      Finset.sum_range_succ]
    congr 1
    by_cases h : keep n <;> simp [h]

theorem trace_eq (d : ℕ) (Q : ℕ → ℕ → K) : trace d Q = ∑ x ∈ range d, Q x x := by
  simp [trace, sumRange_eq]

theorem trace_add (d : ℕ) (A B : ℕ → ℕ → K) :
    trace d (fun x y => A x y + B x y) = trace d A + trace d B := by
  simp [trace_eq, Finset.sum_add_distrib]

/-- trace commutes with the neighbour accumulation loop of `spatial_average` -/
theorem trace_foldl (d : ℕ) (Q : ℕ → ℕ → ℕ → K) (l : List ℕ) (A : ℕ → ℕ → K) :
    trace d (fun x y => l.foldl (fun acc j => acc + Q j x y) (A x y))
      = l.foldl (fun acc j => acc + trace d (Q j)) (trace d A) := by
  induction l generalizing A with
  | nil => rfl
  | cons a t ih =>
    simp only [List.foldl_cons]
    rw [ih (fun x y => A x y + Q a x y), trace_add]

/-- λ is an eigenvalue of the 2×2 matrix `Q` (with a non-zero eigenvector) -/
def IsEig2 (Q : ℕ → ℕ → K) (lam : K) : Prop :=
  ∃ v0 v1 : K, (v0 ≠ 0 ∨ v1 ≠ 0) ∧
    Q 0 0 * v0 + Q 0 1 * v1 = lam * v0 ∧ Q 1 0 * v0 + Q 1 1 * v1 = lam * v1

/-- 3×3 determinant -/
def det3 (S : ℕ → ℕ → K) : K :=
  S 0 0 * (S 1 1 * S 2 2 - S 1 2 * S 2 1) - S 0 1 * (S 1 0 * S 2 2 - S 1 2 * S 2 0)
    + S 0 2 * (S 1 0 * S 2 1 - S 1 1 * S 2 0)

/-- contract of the eigen-solver on a 3×3 matrix: `l 0, l 1, l 2` are the roots of the characteristic
polynomial (Vieta relations; `(tr² − tr S²)/2` is the sum of the principal 2×2 minors) -/
def IsSpectrum3 (S : ℕ → ℕ → K) (l : ℕ → K) : Prop :=
  l 0 + l 1 + l 2 = trace 3 S ∧
  l 0 * l 1 + l 0 * l 2 + l 1 * l 2 = (trace 3 S ^ 2 - traceSq 3 S) / 2 ∧
  l 0 * l 1 * l 2 = det3 S

/-- contract of the eigen-solver on a 2×2 matrix -/
def IsSpectrum2 (S : ℕ → ℕ → K) (l : ℕ → K) : Prop :=
  l 0 + l 1 = trace 2 S ∧ l 0 * l 1 = S 0 0 * S 1 1 - S 0 1 * S 1 0

end Pms.LocalOrder
