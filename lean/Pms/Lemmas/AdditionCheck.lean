import Pms.Model.PolyN
import Pms.Model.RefShell
/-!
Kernel-decided finite checks (no axioms beyond the standard three; no `native_decide`):
* the trivariate polynomial identity behind the spherical-harmonic addition theorem, degrees l = 0..12;
* the reference shells: every bond non-zero, P_l even, and the exact q_l within 1e-6 of the tabulated value.
-/
namespace Pms.PolyN

set_option maxRecDepth 100000 in
theorem additionOK_le12 : ∀ l ∈ List.range 13, additionOK l = true := by decide +kernel

end Pms.PolyN

namespace Pms.RefShell

theorem tabulated_ok : ∀ e ∈ tabulated, tabOK e = true ∧ shellOK e.2.1 (shellOf e.1) = true ∧ e.2.1 ∈ List.range 13 := by
  decide +kernel

end Pms.RefShell
