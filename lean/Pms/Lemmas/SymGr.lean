import Pms.Lemmas.Sym
import Pms.Model.Gr
import Mathlib.Algebra.Order.Field.Basic
import Mathlib.Tactic.Positivity
import Mathlib.Tactic.NormNum

/-! Helper lemmas for C07 on the g(r) model (`Pms/Model/Gr.lean`): how the pair histogram, the species counts and the
normalisation react to a relabelling / species swap / axis permutation / dilation. -/
open Finset
namespace Pms.Sym
open Pms Pms.Pbc

variable {K : Type} [Field K] [LinearOrder K] [IsStrictOrderedRing K]

theorem prodRange_eq (d : ℕ) (f : ℕ → K) : Gr.prodRange d f = ∏ i ∈ range d, f i := by
  induction d with
  | zero => simp [Gr.prodRange]
  | succ n ih => simp [Gr.prodRange, ih, Finset.prod_range_succ]

theorem pairHist_eq' (tr : Gr.Traj K) (bin : ℕ → ℕ → ℕ → ℕ → Bool) (w : ℕ → ℕ → ℕ → K) (k : ℕ) :
    Gr.pairHist tr bin w k = ∑ f ∈ range tr.T, ∑ i ∈ range tr.N, ∑ j ∈ range tr.N,
      if i ≠ j ∧ bin f i j k = true then w f i j else 0 := by
  simp only [Gr.pairHist, sumRange_eq]

/-- the ordered-pair histogram is invariant under a consistent relabelling of bins and weights -/
theorem pairHist_relabel (tr tr' : Gr.Traj K) (hT : tr'.T = tr.T) (hN : tr'.N = tr.N) (σ : Equiv.Perm ℕ)
    (hσ : PermBelow tr.N σ) (bin bin' : ℕ → ℕ → ℕ → ℕ → Bool) (w w' : ℕ → ℕ → ℕ → K)
    (hb : ∀ f i j k, bin' f i j k = bin f (σ i) (σ j) k) (hw : ∀ f i j, w' f i j = w f (σ i) (σ j)) (k : ℕ) :
    Gr.pairHist tr' bin' w' k = Gr.pairHist tr bin w k := by
  rw [pairHist_eq', pairHist_eq', hT, hN]
  refine Finset.sum_congr rfl fun f _ => ?_
  rw [← sum_perm tr.N σ hσ (fun i => ∑ j ∈ range tr.N, if i ≠ j ∧ bin f i j k = true then w f i j else 0)]
  refine Finset.sum_congr rfl fun i _ => ?_
  rw [← sum_perm tr.N σ hσ (fun j => if σ i ≠ j ∧ bin f (σ i) j k = true then w f (σ i) j else 0)]
  refine Finset.sum_congr rfl fun j _ => ?_
  have : (i ≠ j) ↔ (σ i ≠ σ j) := by simp
  simp only [hb, hw, this]

theorem countType_relabel (typ : ℕ → ℕ) (N : ℕ) (σ : Equiv.Perm ℕ) (hσ : PermBelow N σ) (a : ℕ) :
    Gr.countType (relabel σ typ) N a = Gr.countType typ N a := by
  simp only [Gr.countType, sumRange_eq, relabel]
  exact sum_perm N σ hσ (fun i => if typ i = a then 1 else 0)

theorem swapLabel_invol (a b t : ℕ) : swapLabel a b (swapLabel a b t) = t := by
  unfold swapLabel; split_ifs <;> simp_all

theorem swapLabel_inj (a b x y : ℕ) : swapLabel a b x = swapLabel a b y ↔ x = y := by
  constructor
  · intro h
    have := congrArg (swapLabel a b) h
    simpa [swapLabel_invol] using this
  · intro h; rw [h]

theorem countType_swap (typ : ℕ → ℕ) (N a b x : ℕ) :
    Gr.countType (swapTypes a b typ) N (swapLabel a b x) = Gr.countType typ N x := by
  simp only [Gr.countType, swapTypes, swapLabel_inj]

/-- bin membership is scale invariant: distance² ↦ s²·distance², width ↦ s·width (s > 0) -/
theorem inBin_dilate (s : K) (hs : 0 < s) (δ : K) (maxbin : ℕ) (x : K) (k : ℕ) :
    Gr.inBin (s * δ) maxbin (s * s * x) k = Gr.inBin δ maxbin x k := by
  have hss : 0 < s * s := mul_pos hs hs
  have e : ∀ c : K, Gr.sq (c * (s * δ)) = s * s * Gr.sq (c * δ) := by intro c; unfold Gr.sq; ring
  unfold Gr.inBin
  simp only [e]
  have h1 : ∀ y : K, (s * s * y ≤ s * s * x) ↔ (y ≤ x) := fun y => mul_le_mul_iff_right₀ hss
  have h2 : ∀ y : K, (s * s * x < s * s * y) ↔ (x < y) := fun y => mul_lt_mul_iff_right₀ hss
  have h3 : ∀ y : K, (s * s * x ≤ s * s * y) ↔ (x ≤ y) := fun y => mul_le_mul_iff_right₀ hss
  simp only [h1, h2, h3]

end Pms.Sym
