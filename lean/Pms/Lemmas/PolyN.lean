import Pms.Model.PolyN
import Pms.Lemmas.BooUnsold
import Mathlib.Tactic.Ring
import Mathlib.Tactic.LinearCombination

/-!
Soundness of the nested-list polynomial arithmetic of `Pms.Model.PolyN`: evaluation is a ring homomorphism at every
nesting level, so a kernel-decided "all coefficients of LHS − RHS vanish" is an identity of real functions.
-/
open Finset
namespace Pms.PolyN
open Pms.Sph Pms.Boo

/-- an evaluation of a coefficient domain into a commutative ring -/
structure CoefHom (C : Type) [Coef C] (R : Type) [CommRing R] where
  φ : C → R
  map_add : ∀ a b, φ (Coef.add a b) = φ a + φ b
  map_mul : ∀ a b, φ (Coef.mul a b) = φ a * φ b
  map_zero : φ Coef.zero = 0
  map_isZ : ∀ a, Coef.isZ a = true → φ a = 0

section
variable {C : Type} [Coef C] {R : Type} [CommRing R]

/-- Horner evaluation with coefficient evaluation `h` -/
def gev (h : C → R) (x : R) : List C → R
  | [] => 0
  | a :: p => h a + x * gev h x p

theorem gev_gadd (H : CoefHom C R) (x : R) (p q : List C) :
    gev H.φ x (gadd p q) = gev H.φ x p + gev H.φ x q := by
  induction p generalizing q with
  | nil => simp [gadd, gev]
  | cons a p ih =>
    cases q with
    | nil => simp [gadd, gev]
    | cons b q => simp only [gadd, gev, ih, H.map_add]; ring

theorem gev_gscale (H : CoefHom C R) (x : R) (t : C) (p : List C) :
    gev H.φ x (gscale t p) = H.φ t * gev H.φ x p := by
  induction p with
  | nil => simp [gscale, gev]
  | cons a p ih => simp only [gscale, gev, ih, H.map_mul]; ring

theorem gev_gmul (H : CoefHom C R) (x : R) (p q : List C) :
    gev H.φ x (gmul p q) = gev H.φ x p * gev H.φ x q := by
  induction p with
  | nil => simp [gmul, gev]
  | cons a p ih =>
    unfold gmul
    by_cases hz : Coef.isZ a = true
    · rw [if_pos hz]
      simp only [gev, ih, H.map_zero, H.map_isZ a hz]; ring
    · rw [if_neg hz]
      simp only [gev_gadd, gev_gscale, gev, ih, H.map_zero]; ring

theorem gev_gallZ (H : CoefHom C R) (x : R) (p : List C) (h : gallZ p = true) : gev H.φ x p = 0 := by
  induction p with
  | nil => rfl
  | cons a p ih =>
    simp only [gallZ, Bool.and_eq_true] at h
    simp only [gev, H.map_isZ a h.1, ih h.2]; ring

/-- evaluation lifts to lists -/
def CoefHom.poly (H : CoefHom C R) (x : R) : CoefHom (List C) R where
  φ := gev H.φ x
  map_add := gev_gadd H x
  map_mul := gev_gmul H x
  map_zero := rfl
  map_isZ := gev_gallZ H x

end

noncomputable def ratHom : CoefHom Rat ℝ where
  φ := fun q => (q : ℝ)
  map_add := fun a b => by show ((a + b : ℚ) : ℝ) = _; push_cast; rfl
  map_mul := fun a b => by show ((a * b : ℚ) : ℝ) = _; push_cast; rfl
  map_zero := by show ((0 : ℚ) : ℝ) = 0; simp
  map_isZ := fun a h => by
    have : a = 0 := by simpa [Coef.isZ] using h
    subst this; simp

/-- evaluation of a trivariate polynomial at (X₁, X₂, A) = (x1, x2, a) -/
noncomputable def hom3 (x1 x2 a : ℝ) : CoefHom P3 ℝ := ((ratHom.poly x1).poly x2).poly a

noncomputable def ev3 (x1 x2 a : ℝ) (p : P3) : ℝ := (hom3 x1 x2 a).φ p

variable (x1 x2 a : ℝ)

theorem ev3_add (p q : P3) : ev3 x1 x2 a (add3 p q) = ev3 x1 x2 a p + ev3 x1 x2 a q :=
  (hom3 x1 x2 a).map_add p q

theorem ev3_mul (p q : P3) : ev3 x1 x2 a (mul3 p q) = ev3 x1 x2 a p * ev3 x1 x2 a q :=
  (hom3 x1 x2 a).map_mul p q

theorem ev3_nil : ev3 x1 x2 a [] = 0 := rfl

theorem ev3_isZ (p : P3) (h : Coef.isZ p = true) : ev3 x1 x2 a p = 0 := (hom3 x1 x2 a).map_isZ p h

theorem gev_rat_eq_ev (x : ℝ) (p : List Rat) : gev ratHom.φ x p = ev x p := by
  induction p with
  | nil => rfl
  | cons c p ih => rw [gev, ih, ev_cons]; rfl

theorem ev3_c3 (c : Rat) : ev3 x1 x2 a (c3 c) = (c : ℝ) := by
  simp [ev3, hom3, c3, CoefHom.poly, gev, ratHom]

theorem ev3_inX1 (p : List Rat) : ev3 x1 x2 a (inX1 p) = ev x1 p := by
  simp only [ev3, hom3, inX1, CoefHom.poly, gev, mul_zero, add_zero]
  exact gev_rat_eq_ev x1 p

theorem ev3_inX2 (p : List Rat) : ev3 x1 x2 a (inX2 p) = ev x2 p := by
  simp only [ev3, hom3, inX2, CoefHom.poly, gev, mul_zero, add_zero]
  induction p with
  | nil => rfl
  | cons c p ih =>
    simp only [List.map_cons, gev, ih, ev_cons, mul_zero, add_zero]; rfl

theorem ev3_varA : ev3 x1 x2 a varA = a := by
  simp [ev3, hom3, varA, CoefHom.poly, gev, ratHom]

theorem ev3_nPoly : ev3 x1 x2 a nPoly = (1 - x1 ^ 2) * (1 - x2 ^ 2) := by
  unfold nPoly
  rw [ev3_mul, ev3_inX1, ev3_inX2]
  simp only [ev_cons, ev_nil]; push_cast; ring

/-- the real recurrence  E_0 = 2, E_1 = 2A, E_{k+2} = 2A·E_{k+1} − n·E_k  as pairs -/
noncomputable def ePairR (A n : ℝ) : ℕ → ℝ × ℝ
  | 0 => (2, 2 * A)
  | k+1 => ((ePairR A n k).2, 2 * A * (ePairR A n k).2 - n * (ePairR A n k).1)

noncomputable def eR (A n : ℝ) (k : ℕ) : ℝ := (ePairR A n k).1

theorem ev3_ePair (k : ℕ) :
    (ev3 x1 x2 a (ePair k).1, ev3 x1 x2 a (ePair k).2) = ePairR a ((1 - x1 ^ 2) * (1 - x2 ^ 2)) k := by
  induction k with
  | zero => simp only [ePair, ePairR, ev3_mul, ev3_c3, ev3_varA]; push_cast; rfl
  | succ k ih =>
    have h1 := congrArg Prod.fst ih
    have h2 := congrArg Prod.snd ih
    simp only at h1 h2
    simp only [ePair, ePairR, ev3_add, ev3_mul, ev3_c3, ev3_varA, ev3_nPoly, h1, h2]
    push_cast
    congr 1
    ring

theorem ev3_ePoly (k : ℕ) : ev3 x1 x2 a (ePoly k) = eR a ((1 - x1 ^ 2) * (1 - x2 ^ 2)) k :=
  congrArg Prod.fst (ev3_ePair x1 x2 a k)

noncomputable def eHatR (A n : ℝ) (k : ℕ) : ℝ := if k = 0 then 1 else eR A n k

theorem ev3_eHat (k : ℕ) : ev3 x1 x2 a (eHat k) = eHatR a ((1 - x1 ^ 2) * (1 - x2 ^ 2)) k := by
  unfold eHat eHatR
  split
  · rw [ev3_c3]; simp
  · exact ev3_ePoly x1 x2 a k

theorem ev3_compose (Q : P3) (p : List Rat) : ev3 x1 x2 a (compose Q p) = ev (ev3 x1 x2 a Q) p := by
  induction p with
  | nil => rfl
  | cons c p ih => simp only [compose, ev3_add, ev3_mul, ev3_c3, ih, ev_cons]

theorem ev3_foldl (g : ℕ → P3) (ks : List ℕ) (acc : P3) :
    ev3 x1 x2 a (ks.foldl (fun acc k => add3 acc (g k)) acc)
      = ev3 x1 x2 a acc + (ks.map fun k => ev3 x1 x2 a (g k)).sum := by
  induction ks generalizing acc with
  | nil => simp
  | cons k ks ih => simp only [List.foldl_cons, ih, ev3_add, List.map_cons, List.sum_cons]; ring

theorem ev3_addLhs (l : ℕ) :
    ev3 x1 x2 a (addLhs l) = ∑ k ∈ range (l + 1),
      ((normSq l k : ℚ) : ℝ) * (eHatR a ((1 - x1 ^ 2) * (1 - x2 ^ 2)) k
        * (ev x1 (legendreD l k) * ev x2 (legendreD l k))) := by
  unfold addLhs
  rw [ev3_foldl, ev3_nil, zero_add, list_range_sum]
  refine Finset.sum_congr rfl fun k _ => ?_
  simp only [addLhsTerm, ev3_mul, ev3_c3, ev3_eHat, ev3_inX1, ev3_inX2]

theorem ev3_addRhs (l : ℕ) :
    ev3 x1 x2 a (addRhs l) = (2 * (l : ℝ) + 1) / 4 * ev (x1 * x2 + a) (legendre l) := by
  unfold addRhs
  rw [ev3_mul, ev3_c3, ev3_compose, ev3_add, ev3_mul, ev3_inX1, ev3_inX2, ev3_varA]
  simp only [ev_cons, ev_nil]
  push_cast
  ring_nf

/-- the decided check gives the real polynomial identity -/
theorem addition_real (l : ℕ) (h : additionOK l = true) :
    ∑ k ∈ range (l + 1), ((normSq l k : ℚ) : ℝ) * (eHatR a ((1 - x1 ^ 2) * (1 - x2 ^ 2)) k
        * (ev x1 (legendreD l k) * ev x2 (legendreD l k)))
      = (2 * (l : ℝ) + 1) / 4 * ev (x1 * x2 + a) (legendre l) := by
  have hz := ev3_isZ x1 x2 a _ h
  rw [ev3_add, ev3_mul, ev3_c3, ev3_addLhs, ev3_addRhs] at hz
  push_cast at hz
  linear_combination hz

end Pms.PolyN
