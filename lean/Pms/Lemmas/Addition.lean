import Pms.Lemmas.PolyN
import Pms.Lemmas.BooSph

/-!
The spherical-harmonic ADDITION THEOREM for the model's `bondY` (the unit-vector form of the C08 `Y_lm`), degrees
l ≤ 12:   Σ_m Y_lm(û) conj Y_lm(v̂) = (2l+1)/(4π) · P_l(û·v̂)   for all non-zero u, v ∈ ℝ³.
Bridge from the kernel-decided trivariate polynomial identity (`Pms.PolyN.additionOK`) to the complex values.
-/
open Finset
namespace Pms.Boo
open Pms.Sph Pms.PolyN

/-- ζ^k + conj ζ^k is the real recurrence polynomial `E_k(Re ζ, |ζ|²)` -/
theorem pow_add_conj_pow (ζ : ℂ) (A n : ℝ) (hA : ζ + (starRingEnd ℂ) ζ = ((2 * A : ℝ) : ℂ))
    (hn : ζ * (starRingEnd ℂ) ζ = (n : ℂ)) (k : ℕ) :
    ζ ^ k + (starRingEnd ℂ) ζ ^ k = ((ePairR A n k).1 : ℂ) ∧
    ζ ^ (k + 1) + (starRingEnd ℂ) ζ ^ (k + 1) = ((ePairR A n k).2 : ℂ) := by
  induction k with
  | zero =>
    refine ⟨?_, ?_⟩
    · simp only [pow_zero, ePairR]; push_cast; ring
    · simp only [zero_add, pow_one, ePairR]; exact hA
  | succ k ih =>
    refine ⟨ih.2, ?_⟩
    simp only [ePairR]
    push_cast
    rw [← ih.1, ← ih.2]
    have h2A : ((2 : ℂ) * (A : ℂ)) = ζ + (starRingEnd ℂ) ζ := by rw [hA]; push_cast; ring
    rw [h2A, ← hn]
    ring

/-- Σ over m = −l..l as the m = 0 term plus the ±a pairs -/
theorem sum_pm (l : ℕ) (f : ℤ → ℂ) :
    ∑ k ∈ range (2 * l + 1), f ((k : ℤ) - l) = f 0 + ∑ a ∈ range l, (f ((a : ℤ) + 1) + f (-((a : ℤ) + 1))) := by
  have e : 2 * l + 1 = l + (1 + l) := by ring
  rw [e, Finset.sum_range_add, Finset.sum_range_add, Finset.sum_range_one, Finset.sum_add_distrib]
  have h0 : f (((l + 0 : ℕ) : ℤ) - l) = f 0 := by congr 1; omega
  have h1 : ∑ k ∈ range l, f ((k : ℤ) - l) = ∑ a ∈ range l, f (-((a : ℤ) + 1)) := by
    rw [← Finset.sum_range_reflect]
    refine Finset.sum_congr rfl fun j hj => ?_
    have := Finset.mem_range.1 hj
    congr 1
    omega
  have h2 : ∑ k ∈ range l, f (((l + (1 + k) : ℕ) : ℤ) - l) = ∑ a ∈ range l, f ((a : ℤ) + 1) := by
    refine Finset.sum_congr rfl fun j _ => ?_
    congr 1
    omega
  rw [h0, h1, h2]
  ring

/-- the horizontal unit component `(x + iy)/r` and the vertical one `z/r` of a bond -/
noncomputable def wOf (x y z : ℝ) : ℂ := ⟨x / Real.sqrt (x * x + y * y + z * z), y / Real.sqrt (x * x + y * y + z * z)⟩
noncomputable def zOf (x y z : ℝ) : ℝ := z / Real.sqrt (x * x + y * y + z * z)

theorem bondY_nonneg (l a : ℕ) (x y z : ℝ) :
    bondY cOps l x y z (a : ℤ)
      = ((((sgn (a : ℤ) : ℚ) : ℝ) * Real.sqrt (((normSq l a : ℚ) : ℝ) / Real.pi) : ℝ) : ℂ) * wOf x y z ^ a
        * ((ev (zOf x y z) (legendreD l a) : ℝ) : ℂ) := by
  unfold bondY bondYWith wOf zOf ev
  simp only [cOps, powN_eq_pow, Int.natAbs_natCast, castPoly_eq_map]
  rw [if_pos (by omega : (a : ℤ) ≥ 0)]

theorem bondY_neg (l a : ℕ) (ha : 0 < a) (x y z : ℝ) :
    bondY cOps l x y z (-(a : ℤ))
      = ((Real.sqrt (((normSq l a : ℚ) : ℝ) / Real.pi) : ℝ) : ℂ) * (starRingEnd ℂ) (wOf x y z) ^ a
        * ((ev (zOf x y z) (legendreD l a) : ℝ) : ℂ) := by
  unfold bondY bondYWith wOf zOf ev
  simp only [cOps, powN_eq_pow, Int.natAbs_neg, Int.natAbs_natCast, castPoly_eq_map]
  have hneg : ¬ (-(a : ℤ) ≥ 0) := by omega
  rw [if_neg hneg]
  have hs : sgn (-(a : ℤ)) = 1 := by unfold sgn; rw [if_neg hneg]
  rw [hs]
  have hc : (starRingEnd ℂ) (⟨x / Real.sqrt (x * x + y * y + z * z), y / Real.sqrt (x * x + y * y + z * z)⟩ : ℂ)
      = ⟨x / Real.sqrt (x * x + y * y + z * z), -(y / Real.sqrt (x * x + y * y + z * z))⟩ := by
    apply Complex.ext <;> simp
  rw [hc]
  simp only [Rat.cast_one, one_mul]

theorem sgn_mul_self (a : ℕ) : ((sgn (a : ℤ) : ℚ) : ℝ) * ((sgn (a : ℤ) : ℚ) : ℝ) = 1 := by
  have h := sgn_sq (a : ℤ)
  have : ((sgn (a : ℤ) * sgn (a : ℤ) : ℚ) : ℝ) = 1 := by rw [h]; simp
  push_cast at this
  exact this

/-- the m = +a term of the bilinear sum -/
theorem term_pos (l a : ℕ) (x1 y1 z1 x2 y2 z2 : ℝ) :
    bondY cOps l x1 y1 z1 (a : ℤ) * (starRingEnd ℂ) (bondY cOps l x2 y2 z2 (a : ℤ))
      = ((((normSq l a : ℚ) : ℝ) / Real.pi * (ev (zOf x1 y1 z1) (legendreD l a) * ev (zOf x2 y2 z2) (legendreD l a)) : ℝ) : ℂ)
        * (wOf x1 y1 z1 * (starRingEnd ℂ) (wOf x2 y2 z2)) ^ a := by
  rw [bondY_nonneg, bondY_nonneg]
  simp only [map_mul, map_pow, Complex.conj_ofReal]
  have hsq : Real.sqrt (((normSq l a : ℚ) : ℝ) / Real.pi) * Real.sqrt (((normSq l a : ℚ) : ℝ) / Real.pi)
      = ((normSq l a : ℚ) : ℝ) / Real.pi :=
    Real.mul_self_sqrt (div_nonneg (normSq_nonneg' l a) Real.pi_pos.le)
  have hs := sgn_mul_self a
  have key : ((((sgn (a : ℤ) : ℚ) : ℝ) * Real.sqrt (((normSq l a : ℚ) : ℝ) / Real.pi) : ℝ) : ℂ)
      * ((((sgn (a : ℤ) : ℚ) : ℝ) * Real.sqrt (((normSq l a : ℚ) : ℝ) / Real.pi) : ℝ) : ℂ)
      = ((((normSq l a : ℚ) : ℝ) / Real.pi : ℝ) : ℂ) := by
    rw [← Complex.ofReal_mul]
    congr 1
    calc _ = (((sgn (a : ℤ) : ℚ) : ℝ) * ((sgn (a : ℤ) : ℚ) : ℝ))
              * (Real.sqrt (((normSq l a : ℚ) : ℝ) / Real.pi) * Real.sqrt (((normSq l a : ℚ) : ℝ) / Real.pi)) := by ring
      _ = _ := by rw [hs, hsq, one_mul]
  rw [mul_pow]
  push_cast
  push_cast at key
  linear_combination (wOf x1 y1 z1 ^ a * (starRingEnd ℂ) (wOf x2 y2 z2) ^ a
    * ((ev (zOf x1 y1 z1) (legendreD l a) : ℝ) : ℂ) * ((ev (zOf x2 y2 z2) (legendreD l a) : ℝ) : ℂ)) * key

/-- the m = −a term -/
theorem term_neg (l a : ℕ) (ha : 0 < a) (x1 y1 z1 x2 y2 z2 : ℝ) :
    bondY cOps l x1 y1 z1 (-(a : ℤ)) * (starRingEnd ℂ) (bondY cOps l x2 y2 z2 (-(a : ℤ)))
      = ((((normSq l a : ℚ) : ℝ) / Real.pi * (ev (zOf x1 y1 z1) (legendreD l a) * ev (zOf x2 y2 z2) (legendreD l a)) : ℝ) : ℂ)
        * (starRingEnd ℂ) (wOf x1 y1 z1 * (starRingEnd ℂ) (wOf x2 y2 z2)) ^ a := by
  rw [bondY_neg l a ha, bondY_neg l a ha]
  simp only [map_mul, map_pow, Complex.conj_ofReal, Complex.conj_conj]
  have hsq : Real.sqrt (((normSq l a : ℚ) : ℝ) / Real.pi) * Real.sqrt (((normSq l a : ℚ) : ℝ) / Real.pi)
      = ((normSq l a : ℚ) : ℝ) / Real.pi :=
    Real.mul_self_sqrt (div_nonneg (normSq_nonneg' l a) Real.pi_pos.le)
  have key : ((Real.sqrt (((normSq l a : ℚ) : ℝ) / Real.pi) : ℝ) : ℂ) * ((Real.sqrt (((normSq l a : ℚ) : ℝ) / Real.pi) : ℝ) : ℂ)
      = ((((normSq l a : ℚ) : ℝ) / Real.pi : ℝ) : ℂ) := by
    rw [← Complex.ofReal_mul, hsq]
  rw [mul_pow]
  push_cast
  push_cast at key
  linear_combination ((starRingEnd ℂ) (wOf x1 y1 z1) ^ a * wOf x2 y2 z2 ^ a
    * ((ev (zOf x1 y1 z1) (legendreD l a) : ℝ) : ℂ) * ((ev (zOf x2 y2 z2) (legendreD l a) : ℝ) : ℂ)) * key

/-- geometry of two unit bonds: with ζ = w₁ conj w₂,  ζ + conj ζ = 2(x̂₁x̂₂ + ŷ₁ŷ₂),  |ζ|² = (1−ẑ₁²)(1−ẑ₂²),
    ẑ₁ẑ₂ + (x̂₁x̂₂ + ŷ₁ŷ₂) = u·v/(|u||v|) -/
theorem zeta_facts (x1 y1 z1 x2 y2 z2 : ℝ) (h1 : 0 < x1 * x1 + y1 * y1 + z1 * z1) (h2 : 0 < x2 * x2 + y2 * y2 + z2 * z2) :
    let r1 := Real.sqrt (x1 * x1 + y1 * y1 + z1 * z1)
    let r2 := Real.sqrt (x2 * x2 + y2 * y2 + z2 * z2)
    let ζ := wOf x1 y1 z1 * (starRingEnd ℂ) (wOf x2 y2 z2)
    let A := (x1 * x2 + y1 * y2) / (r1 * r2)
    ζ + (starRingEnd ℂ) ζ = ((2 * A : ℝ) : ℂ) ∧
    ζ * (starRingEnd ℂ) ζ = (((1 - zOf x1 y1 z1 ^ 2) * (1 - zOf x2 y2 z2 ^ 2) : ℝ) : ℂ) ∧
    zOf x1 y1 z1 * zOf x2 y2 z2 + A = (x1 * x2 + y1 * y2 + z1 * z2) / (r1 * r2) := by
  intro r1 r2 ζ A
  have hr1 : 0 < r1 := Real.sqrt_pos.2 h1
  have hr2 : 0 < r2 := Real.sqrt_pos.2 h2
  have e1 : r1 * r1 = x1 * x1 + y1 * y1 + z1 * z1 := Real.mul_self_sqrt h1.le
  have e2 : r2 * r2 = x2 * x2 + y2 * y2 + z2 * z2 := Real.mul_self_sqrt h2.le
  have hw1 : wOf x1 y1 z1 = ⟨x1 / r1, y1 / r1⟩ := rfl
  have hw2 : wOf x2 y2 z2 = ⟨x2 / r2, y2 / r2⟩ := rfl
  have hz1 : zOf x1 y1 z1 = z1 / r1 := rfl
  have hz2 : zOf x2 y2 z2 = z2 / r2 := rfl
  refine ⟨?_, ?_, ?_⟩
  · apply Complex.ext
    · simp only [ζ, hw1, hw2, Complex.add_re, Complex.mul_re, Complex.conj_re, Complex.conj_im, Complex.ofReal_re, A]
      field_simp
      ring
    · simp only [ζ, hw1, hw2, Complex.add_im, Complex.mul_im, Complex.conj_re, Complex.conj_im, Complex.ofReal_im]
      ring
  · rw [Complex.mul_conj, Complex.ofReal_inj]
    simp only [ζ, map_mul, Complex.normSq_conj, hw1, hw2, Complex.normSq_mk, hz1, hz2]
    have q1 : x1 / r1 * (x1 / r1) + y1 / r1 * (y1 / r1) = 1 - (z1 / r1) ^ 2 := by
      field_simp
      nlinarith [e1]
    have q2 : x2 / r2 * (x2 / r2) + y2 / r2 * (y2 / r2) = 1 - (z2 / r2) ^ 2 := by
      field_simp
      nlinarith [e2]
    rw [q1, q2]
  · rw [hz1, hz2]
    simp only [A]
    field_simp
    ring

/-- **Addition theorem** for the model's spherical harmonics, every degree that passes the decided polynomial check -/
theorem addition_bondY_of_check (l : ℕ) (hOK : additionOK l = true) (x1 y1 z1 x2 y2 z2 : ℝ)
    (h1 : 0 < x1 * x1 + y1 * y1 + z1 * z1) (h2 : 0 < x2 * x2 + y2 * y2 + z2 * z2) :
    ∑ k ∈ range (2 * l + 1), bondY cOps l x1 y1 z1 ((k : ℤ) - l) * (starRingEnd ℂ) (bondY cOps l x2 y2 z2 ((k : ℤ) - l))
      = (((2 * (l : ℝ) + 1) / (4 * Real.pi)
          * ev ((x1 * x2 + y1 * y2 + z1 * z2)
                / (Real.sqrt (x1 * x1 + y1 * y1 + z1 * z1) * Real.sqrt (x2 * x2 + y2 * y2 + z2 * z2))) (legendre l) : ℝ) : ℂ) := by
  obtain ⟨hA, hn, hdot⟩ := zeta_facts x1 y1 z1 x2 y2 z2 h1 h2
  set r1 := Real.sqrt (x1 * x1 + y1 * y1 + z1 * z1)
  set r2 := Real.sqrt (x2 * x2 + y2 * y2 + z2 * z2)
  set ζ := wOf x1 y1 z1 * (starRingEnd ℂ) (wOf x2 y2 z2) with hζ
  set A := (x1 * x2 + y1 * y2) / (r1 * r2) with hAdef
  set n := (1 - zOf x1 y1 z1 ^ 2) * (1 - zOf x2 y2 z2 ^ 2) with hndef
  set Z1 := zOf x1 y1 z1
  set Z2 := zOf x2 y2 z2
  -- the real weights c_a = N_a/π · P_a(ẑ₁) P_a(ẑ₂)
  set c : ℕ → ℝ := fun a => ((normSq l a : ℚ) : ℝ) / Real.pi * (ev Z1 (legendreD l a) * ev Z2 (legendreD l a)) with hc
  have hE := pow_add_conj_pow ζ A n hA hn
  rw [sum_pm l (fun m => bondY cOps l x1 y1 z1 m * (starRingEnd ℂ) (bondY cOps l x2 y2 z2 m))]
  have hpair : ∀ a ∈ range l,
      (bondY cOps l x1 y1 z1 ((a : ℤ) + 1) * (starRingEnd ℂ) (bondY cOps l x2 y2 z2 ((a : ℤ) + 1))
        + bondY cOps l x1 y1 z1 (-((a : ℤ) + 1)) * (starRingEnd ℂ) (bondY cOps l x2 y2 z2 (-((a : ℤ) + 1))))
      = ((c (a + 1) * eHatR A n (a + 1) : ℝ) : ℂ) := by
    intro a _
    have e1 : ((a : ℤ) + 1) = ((a + 1 : ℕ) : ℤ) := by push_cast; ring
    rw [e1, term_pos l (a + 1), term_neg l (a + 1) (Nat.succ_pos a)]
    have hh := (hE (a + 1)).1
    have : eHatR A n (a + 1) = (ePairR A n (a + 1)).1 := by unfold eHatR eR; rw [if_neg (Nat.succ_ne_zero a)]
    rw [this]
    push_cast
    rw [← hh]
    simp only [hc]
    push_cast
    ring
  rw [Finset.sum_congr rfl hpair]
  have h0 : bondY cOps l x1 y1 z1 0 * (starRingEnd ℂ) (bondY cOps l x2 y2 z2 0) = ((c 0 * eHatR A n 0 : ℝ) : ℂ) := by
    have := term_pos l 0 x1 y1 z1 x2 y2 z2
    simp only [Nat.cast_zero, pow_zero, mul_one] at this
    rw [this]
    simp only [hc, eHatR, if_true, mul_one]
    rfl
  rw [h0, ← Complex.ofReal_sum, ← Complex.ofReal_add, Complex.ofReal_inj]
  have hsum : c 0 * eHatR A n 0 + ∑ a ∈ range l, c (a + 1) * eHatR A n (a + 1) = ∑ a ∈ range (l + 1), c a * eHatR A n a := by
    rw [Finset.sum_range_succ' (fun a => c a * eHatR A n a)]; ring
  rw [hsum]
  have hreal := addition_real Z1 Z2 A l hOK
  rw [hdot, ← hndef] at hreal
  have hpi := Real.pi_pos
  have : ∑ a ∈ range (l + 1), c a * eHatR A n a
      = (∑ k ∈ range (l + 1), ((normSq l k : ℚ) : ℝ) * (eHatR A n k
          * (ev Z1 (legendreD l k) * ev Z2 (legendreD l k)))) / Real.pi := by
    rw [Finset.sum_div]
    refine Finset.sum_congr rfl fun k _ => ?_
    simp only [hc]
    field_simp
  rw [this, hreal]
  field_simp

end Pms.Boo
