import Pms.Model.Sq
import Pms.Lemmas.Basic
import Mathlib.Algebra.Order.Field.Basic
import Mathlib.Algebra.Order.BigOperators.Ring.Finset
import Mathlib.Algebra.Order.BigOperators.Group.Finset
import Mathlib.Data.List.Range
import Mathlib.Algebra.BigOperators.Field
import Mathlib.Tactic.Ring
import Mathlib.Tactic.Linarith
import Mathlib.Tactic.FieldSimp

/-! Helper lemmas for C04 (S(q)): the particle loop as a sum, routing, normalisation, group-by. -/
open Finset
namespace Pms.Sq
open Pms

section ring
variable {F : Type} [CommRing F]

@[simp] theorem Cx.add_re (a b : Cx F) : (a + b).re = a.re + b.re := rfl
@[simp] theorem Cx.add_im (a b : Cx F) : (a + b).im = a.im + b.im := rfl
@[simp] theorem Cx.zero_re : (0 : Cx F).re = 0 := rfl
@[simp] theorem Cx.zero_im : (0 : Cx F).im = 0 := rfl

theorem reMulConj_eq (a b : Cx F) : reMulConj a b = a.re * b.re + a.im * b.im := by
  simp only [reMulConj, Cx.mul, Cx.conj]; ring

theorem reMulConj_comm (a b : Cx F) : reMulConj a b = reMulConj b a := by
  rw [reMulConj_eq, reMulConj_eq]; ring

theorem addAt_proj (π : Cx F → F) (hadd : ∀ a b, π (a + b) = π a + π b) (acc : String → Cx F) (b : String) (v : Cx F)
    (x : String) : π (addAt acc b v x) = π (acc x) + if x = b then π v else 0 := by
  unfold addAt; split <;> simp [hadd]

theorem step_proj (π : Cx F → F) (hadd : ∀ a b, π (a + b) = π a + π b) (m : Method) (ty : ℕ → ℕ) (med : ℕ → Cx F)
    (acc : String → Cx F) (i : ℕ) (x : String) :
    π (m.step ty med acc i x) = π (acc x) + ((if x = m.totalBucket then π (med i) else 0) +
        (if m.bucketOf (ty i) = some x then π (med i) else 0)) := by
  unfold Method.step
  cases hb : m.bucketOf (ty i) with
  | none => simp [addAt_proj π hadd]
  | some b' =>
    simp only [addAt_proj π hadd, Option.some.injEq]
    by_cases h : x = b'
    · subst h; simp [add_assoc]
    · have : ¬ b' = x := fun hh => h hh.symm
      simp [h, this]

/-- the particle loop, seen through an additive projection π (re or im) -/
theorem particleLoop_proj (π : Cx F → F) (hadd : ∀ a b, π (a + b) = π a + π b) (h0 : π 0 = 0)
    (m : Method) (N : ℕ) (ty : ℕ → ℕ) (med : ℕ → Cx F) (b : String) :
    π (m.particleLoop N ty med b) =
      ∑ i ∈ range N, ((if b = m.totalBucket then π (med i) else 0) +
                      (if m.bucketOf (ty i) = some b then π (med i) else 0)) := by
  unfold Method.particleLoop
  induction N with
  | zero => simp [foldRange, h0]
  | succ N ih =>
    rw [foldRange_succ, Finset.sum_range_succ, ← ih, step_proj π hadd]

theorem mode_re (n : ℕ) (A c s : ℕ → F) : (mode n A c s).re = ∑ i ∈ range n, A i * c i := by
  simp [mode, sumRange_eq]

theorem mode_im (n : ℕ) (A c s : ℕ → F) : (mode n A c s).im = ∑ i ∈ range n, A i * (-(s i)) := by
  simp [mode, sumRange_eq]

end ring

/-! ### routing -/

theorem mem_range'_one {K t : ℕ} : t ∈ List.range' 1 K ↔ 1 ≤ t ∧ t ≤ K := by
  rw [List.mem_range'_1]; omega

/-- what `okRouting` gives: inside 1..K the accumulator determines the type -/
theorem okRouting_spec {m : Method} {K : ℕ} (h : m.okRouting K = true) {t : ℕ} (ht : 1 ≤ t ∧ t ≤ K) :
    ∃ b, m.bucketOf t = some b ∧ b ≠ m.totalBucket ∧
      ∀ u, 1 ≤ u ∧ u ≤ K → (m.bucketOf u = some b ↔ u = t) := by
  unfold Method.okRouting at h
  rw [List.all_eq_true] at h
  have h1 := h t (mem_range'_one.2 ht)
  simp only [Bool.and_eq_true, List.all_eq_true] at h1
  obtain ⟨⟨hs, hne⟩, hinj⟩ := h1
  obtain ⟨b, hb⟩ := Option.isSome_iff_exists.1 hs
  refine ⟨b, hb, ?_, ?_⟩
  · intro hbt; rw [hb, hbt] at hne; simp at hne
  · intro u hu
    constructor
    · intro hub
      have := hinj u (mem_range'_one.2 hu)
      simp only [Bool.or_eq_true, beq_iff_eq, bne_iff_ne, ne_eq] at this
      rcases this with h | h
      · exact h.symm
      · exact absurd (hb.trans hub.symm) h
    · intro hut; rw [hut]; exact hb

section field
variable {F : Type} [Field F] [LinearOrder F] [IsStrictOrderedRing F]

/-- contract of `math.sqrt` used by the normalisation: a non-negative root of non-negative arguments -/
def SqrtOK (sqrt : F → F) : Prop := ∀ x, 0 ≤ x → 0 ≤ sqrt x ∧ sqrt x * sqrt x = x

theorem SqrtOK.sq_nat {sqrt : F → F} (hs : SqrtOK sqrt) (n : ℕ) : sqrt ((n * n : ℕ) : F) = (n : F) := by
  have hx : (0 : F) ≤ ((n * n : ℕ) : F) := Nat.cast_nonneg _
  obtain ⟨h0, h1⟩ := hs _ hx
  have hn : (0 : F) ≤ (n : F) := Nat.cast_nonneg _
  have : sqrt ((n * n : ℕ) : F) * sqrt ((n * n : ℕ) : F) = (n : F) * (n : F) := by rw [h1]; push_cast; ring
  exact (mul_self_inj_of_nonneg h0 hn).1 this

/-- accumulator of type `a` after the particle loop = ρ_a -/
theorem bucket_eq_rho {m : Method} {K N : ℕ} (hr : m.okRouting K = true) (ty : ℕ → ℕ)
    (hty : ∀ i < N, 1 ≤ ty i ∧ ty i ≤ K) (c s : ℕ → ℕ → F) (k : ℕ) {a : ℕ} (ha : 1 ≤ a ∧ a ≤ K) {b : String}
    (hb : m.bucketOf a = some b) :
    m.particleLoop N ty (fun i => phase (c i k) (s i k)) b = Spec.rho N ty c s a k := by
  obtain ⟨b', hb', hne, hiff⟩ := okRouting_spec hr ha
  have : b = b' := Option.some.inj (hb.symm.trans hb')
  subst this
  have key : ∀ (π : Cx F → F) (hadd : ∀ x y, π (x + y) = π x + π y) (h0 : π 0 = 0),
      π (m.particleLoop N ty (fun i => phase (c i k) (s i k)) b) =
        ∑ i ∈ range N, if ty i = a then π (phase (c i k) (s i k)) else 0 := by
    intro π hadd h0
    rw [particleLoop_proj π hadd h0]
    refine Finset.sum_congr rfl fun i hi => ?_
    have hi' := hty i (Finset.mem_range.1 hi)
    rw [if_neg hne, zero_add]
    by_cases h : ty i = a
    · rw [if_pos h, if_pos ((hiff _ hi').2 h)]
    · rw [if_neg h, if_neg (fun hh => h ((hiff _ hi').1 hh))]
  have hre := key Cx.re (fun _ _ => rfl) rfl
  have him := key Cx.im (fun _ _ => rfl) rfl
  have e1 : (Spec.rho N ty c s a k).re = ∑ i ∈ range N, if ty i = a then (c i k) else 0 := by
    unfold Spec.rho; rw [mode_re]
    refine Finset.sum_congr rfl fun i _ => ?_
    unfold ind; split <;> simp
  have e2 : (Spec.rho N ty c s a k).im = ∑ i ∈ range N, if ty i = a then -(s i k) else 0 := by
    unfold Spec.rho; rw [mode_im]
    refine Finset.sum_congr rfl fun i _ => ?_
    unfold ind; split <;> simp
  have : ∀ x y : Cx F, x.re = y.re → x.im = y.im → x = y := by
    intro x y h1 h2; cases x; cases y; simp_all
  apply this
  · rw [hre, e1]; rfl
  · rw [him, e2]; rfl

/-- the unconditional accumulator = ρ (all particles), provided no routed accumulator aliases it -/
theorem total_eq_rhoAll {m : Method} {N : ℕ} (ty : ℕ → ℕ) (hno : ∀ i < N, m.bucketOf (ty i) ≠ some m.totalBucket)
    (c s : ℕ → ℕ → F) (k : ℕ) :
    m.particleLoop N ty (fun i => phase (c i k) (s i k)) m.totalBucket = Spec.rhoAll N c s k := by
  have key : ∀ (π : Cx F → F) (hadd : ∀ x y, π (x + y) = π x + π y) (h0 : π 0 = 0),
      π (m.particleLoop N ty (fun i => phase (c i k) (s i k)) m.totalBucket) =
        ∑ i ∈ range N, π (phase (c i k) (s i k)) := by
    intro π hadd h0
    rw [particleLoop_proj π hadd h0]
    refine Finset.sum_congr rfl fun i hi => ?_
    rw [if_pos rfl, if_neg (hno i (Finset.mem_range.1 hi)), add_zero]
  have hre := key Cx.re (fun _ _ => rfl) rfl
  have him := key Cx.im (fun _ _ => rfl) rfl
  have : ∀ x y : Cx F, x.re = y.re → x.im = y.im → x = y := by
    intro x y h1 h2; cases x; cases y; simp_all
  apply this
  · rw [hre]; unfold Spec.rhoAll; rw [mode_re]; simp [phase]
  · rw [him]; unfold Spec.rhoAll; rw [mode_im]; simp [phase]

theorem okNoAlias_spec {m : Method} (h : m.okNoAlias = true) (t : ℕ) : m.bucketOf t ≠ some m.totalBucket := by
  unfold Method.okNoAlias at h
  simp only [Bool.and_eq_true, bne_iff_ne, ne_eq, List.all_eq_true] at h
  unfold Method.bucketOf
  cases hf : m.chain.find? (fun p => p.1 == t) with
  | none => simpa using h.1
  | some p =>
    have hp := List.mem_of_find?_eq_some hf
    simpa using h.2 p hp

theorem typecount_range' {K N : ℕ} (ty0 : ℕ → ℕ) {a : ℕ} (ha : 1 ≤ a ∧ a ≤ K) :
    typecount (List.range' 1 K) N ty0 (a - 1) = countType N ty0 a := by
  unfold typecount
  congr 1
  rw [List.getD_eq_getElem?_getD, List.getElem?_range' (by omega)]; simp; omega

theorem mem_pairs {K : ℕ} {p : ℕ × ℕ} (h : p ∈ Spec.pairs K) :
    2 ≤ K ∧ K ≤ 5 ∧ 1 ≤ p.1 ∧ p.1 ≤ p.2 ∧ p.2 ≤ K := by
  unfold Spec.pairs at h
  split at h
  · simp at h
  · rename_i hK
    simp only [List.mem_append, List.mem_map, List.mem_flatMap, List.mem_filter, mem_range'_one] at h
    rcases h with ⟨a, ha, rfl⟩ | ⟨a, ha, b, ⟨hb, hab⟩, rfl⟩
    · simp; omega
    · simp at hab; simp; omega

/-- raw column of a pair: Σ_f Re(ρ_a conj ρ_b) -/
theorem raw_pair {m : Method} {K T N : ℕ} (hr : m.okRouting K = true) (ty : ℕ → ℕ → ℕ)
    (hty : ∀ f < T, ∀ i < N, 1 ≤ ty f i ∧ ty f i ≤ K) (c s : ℕ → ℕ → ℕ → F) {a b : ℕ} (ha : 1 ≤ a ∧ a ≤ K)
    (hb : 1 ≤ b ∧ b ≤ K) {ba bb : String} (hba : m.bucketOf a = some ba) (hbb : m.bucketOf b = some bb)
    (hprod : m.products.filter (fun p => p.1 == colName a b) = [(colName a b, ba, bb)]) (k : ℕ) :
    m.raw T N ty c s (colName a b) k =
      ∑ f ∈ range T, reMulConj (Spec.rho N (ty f) (c f) (s f) a k) (Spec.rho N (ty f) (c f) (s f) b k) := by
  unfold Method.raw
  rw [sumRange_eq]
  refine Finset.sum_congr rfl fun f hf => ?_
  have hf' := Finset.mem_range.1 hf
  simp only [hprod, List.map, listSum]
  rw [bucket_eq_rho hr (ty f) (hty f hf') (c f) (s f) k ha hba,
      bucket_eq_rho hr (ty f) (hty f hf') (c f) (s f) k hb hbb, add_zero]

theorem value_pair {m : Method} {K T N : ℕ} {sqrt : F → F} (hs : SqrtOK sqrt) (hr : m.okRouting K = true)
    (ty : ℕ → ℕ → ℕ) (hty : ∀ f < T, ∀ i < N, 1 ≤ ty f i ∧ ty f i ≤ K) (c s : ℕ → ℕ → ℕ → F) {a b : ℕ}
    (ha : 1 ≤ a ∧ a ≤ K) (hb : 1 ≤ b ∧ b ≤ K) (hp : m.okPair a b = true) (k : ℕ) :
    m.value sqrt T N (typecount (List.range' 1 K) N (ty 0)) ty c s (colName a b) k = Spec.S sqrt T N ty c s a b k := by
  unfold Method.okPair at hp
  cases hba : m.bucketOf a with
  | none => simp [hba] at hp
  | some ba =>
    cases hbb : m.bucketOf b with
    | none => simp [hba, hbb] at hp
    | some bb =>
      simp only [hba, hbb, Bool.and_eq_true, beq_iff_eq] at hp
      obtain ⟨hprod, hdiv⟩ := hp
      unfold Method.value
      rw [raw_pair hr ty hty c s ha hb hba hbb hprod k, hdiv]
      simp only [List.foldl]
      unfold Spec.S
      rw [sumRange_eq]
      by_cases hab : a = b
      · subst hab
        simp only [if_true, dvVal, typecount_range' (ty 0) ha, hs.sq_nat]
        rw [← Finset.sum_div, div_div, mul_comm]
      · simp only [if_neg hab, dvVal, typecount_range' (ty 0) ha, typecount_range' (ty 0) hb]
        rw [← Finset.sum_div, div_div, mul_comm]

theorem value_total {m : Method} {T N : ℕ} (sqrt : F → F) (hn : m.okNoAlias = true) (ht : m.okTotal = true)
    (tc : ℕ → ℕ) (ty : ℕ → ℕ → ℕ) (c s : ℕ → ℕ → ℕ → F) (k : ℕ) :
    m.value sqrt T N tc ty c s "Sq" k = Spec.Stot T N c s k := by
  unfold Method.okTotal at ht
  simp only [Bool.and_eq_true, beq_iff_eq] at ht
  obtain ⟨hprod, hdiv⟩ := ht
  unfold Method.value Method.raw
  rw [hdiv]
  simp only [List.foldl, hprod, List.map, listSum, dvVal]
  unfold Spec.Stot
  rw [sumRange_eq, sumRange_eq, ← Finset.sum_div, div_div, mul_comm]
  congr 1
  refine Finset.sum_congr rfl fun f _ => ?_
  rw [total_eq_rhoAll (ty f) (fun i _ => okNoAlias_spec hn _) (c f) (s f) k, add_zero]

/-! ### sum rule -/

theorem sq_sum_split (K : ℕ) (x y : ℕ → F) :
    (∑ a ∈ range K, x a) * (∑ a ∈ range K, x a) + (∑ a ∈ range K, y a) * (∑ a ∈ range K, y a)
      = ∑ a ∈ range K, (x a * x a + y a * y a)
        + 2 * ∑ a ∈ range K, ∑ b ∈ range K, if a < b then (x a * x b + y a * y b) else 0 := by
  have h := pairLoop_double K (fun a b => x a * x b + y a * y b) (by intro i j; ring)
  unfold pairLoop at h
  simp only [sumRange_eq] at h
  rw [h, Finset.sum_mul_sum, Finset.sum_mul_sum, ← Finset.sum_add_distrib, ← Finset.sum_add_distrib]
  refine Finset.sum_congr rfl fun a ha => ?_
  rw [← Finset.sum_add_distrib]
  have e : ∀ b ∈ range K, x a * x b + y a * y b =
      (if a = b then x a * x a + y a * y a else 0) + (if a ≠ b then x a * x b + y a * y b else 0) := by
    intro b _; by_cases h : a = b
    · subst h; simp
    · simp [h]
  rw [Finset.sum_congr rfl e, Finset.sum_add_distrib, Finset.sum_ite_eq, if_pos ha]

/-- ρ = Σ_a ρ_a when every type id lies in 1..K -/
theorem rhoAll_split {K N : ℕ} (ty : ℕ → ℕ) (hty : ∀ i < N, 1 ≤ ty i ∧ ty i ≤ K) (c s : ℕ → ℕ → F) (k : ℕ) :
    (Spec.rhoAll N c s k).re = ∑ a ∈ range K, (Spec.rho N ty c s (a + 1) k).re ∧
    (Spec.rhoAll N c s k).im = ∑ a ∈ range K, (Spec.rho N ty c s (a + 1) k).im := by
  have one : ∀ i < N, ∀ v : F, ∑ a ∈ range K, (ind ty (a + 1) i : F) * v = v := by
    intro i hi v
    have h := hty i hi
    rw [Finset.sum_eq_single (ty i - 1)]
    · unfold ind; rw [if_pos (by omega)]; ring
    · intro b _ hb; unfold ind; rw [if_neg (by omega)]; ring
    · intro hn; exact absurd (Finset.mem_range.2 (by omega)) hn
  unfold Spec.rhoAll Spec.rho
  constructor
  · simp only [mode_re]
    rw [Finset.sum_comm]
    refine Finset.sum_congr rfl fun i hi => ?_
    rw [one i (Finset.mem_range.1 hi)]; ring
  · simp only [mode_im]
    rw [Finset.sum_comm]
    refine Finset.sum_congr rfl fun i hi => ?_
    rw [one i (Finset.mem_range.1 hi)]; ring

/-- per frame: |ρ|² = Σ_a |ρ_a|² + 2 Σ_{a<b} Re(ρ_a conj ρ_b) -/
theorem frame_sumrule {K N : ℕ} (ty : ℕ → ℕ) (hty : ∀ i < N, 1 ≤ ty i ∧ ty i ≤ K) (c s : ℕ → ℕ → F) (k : ℕ) :
    reMulConj (Spec.rhoAll N c s k) (Spec.rhoAll N c s k) =
      ∑ a ∈ range K, reMulConj (Spec.rho N ty c s (a + 1) k) (Spec.rho N ty c s (a + 1) k)
      + 2 * ∑ a ∈ range K, ∑ b ∈ range K,
          if a < b then reMulConj (Spec.rho N ty c s (a + 1) k) (Spec.rho N ty c s (b + 1) k) else 0 := by
  obtain ⟨h1, h2⟩ := rhoAll_split ty hty c s k
  simp only [reMulConj_eq]
  rw [h1, h2]
  exact sq_sum_split K _ _

theorem SqrtOK.ne_zero {sqrt : F → F} (hs : SqrtOK sqrt) {n : ℕ} (hn : 0 < n) : sqrt ((n : ℕ) : F) ≠ 0 := by
  intro h
  have := (hs ((n : ℕ) : F) (Nat.cast_nonneg _)).2
  rw [h, mul_zero] at this
  have : (n : F) = 0 := this.symm
  exact absurd (Nat.cast_eq_zero.1 this) (by omega)

theorem countType_pos_N {N : ℕ} {ty : ℕ → ℕ} {a : ℕ} (h : 0 < countType N ty a) : 0 < N := by
  rcases Nat.eq_zero_or_pos N with h0 | h0
  · subst h0; simp [countType, sumRange] at h
  · exact h0

/-- **sum rule, per wave vector**:  N·S = Σ_a N_a S_aa + 2 Σ_{a<b} √(N_a N_b) S_ab  (species a+1, b+1 for a, b < K) -/
theorem sumrule {sqrt : F → F} (hs : SqrtOK sqrt) {K T N : ℕ} (hK : 1 ≤ K) (ty : ℕ → ℕ → ℕ)
    (hty : ∀ f < T, ∀ i < N, 1 ≤ ty f i ∧ ty f i ≤ K)
    (hpos : ∀ a, 1 ≤ a ∧ a ≤ K → 0 < countType N (ty 0) a) (c s : ℕ → ℕ → ℕ → F) (k : ℕ) :
    (N : F) * Spec.Stot T N c s k =
      ∑ a ∈ range K, (countType N (ty 0) (a + 1) : F) * Spec.S sqrt T N ty c s (a + 1) (a + 1) k
      + 2 * ∑ a ∈ range K, ∑ b ∈ range K,
          if a < b then sqrt ((countType N (ty 0) (a + 1) * countType N (ty 0) (b + 1) : ℕ) : F)
                          * Spec.S sqrt T N ty c s (a + 1) (b + 1) k else 0 := by
  have hN : (N : F) ≠ 0 := by
    have := countType_pos_N (hpos 1 ⟨le_refl _, hK⟩)
    exact Nat.cast_ne_zero.2 (by omega)
  have scale : ∀ (w : F) (g : ℕ → F), w ≠ 0 → w * ((∑ f ∈ range T, g f / w) / (T : F)) = (∑ f ∈ range T, g f) / (T : F) := by
    intro w g hw
    rw [← Finset.sum_div]; field_simp
  have e0 : (N : F) * Spec.Stot T N c s k =
      (∑ f ∈ range T, reMulConj (Spec.rhoAll N (c f) (s f) k) (Spec.rhoAll N (c f) (s f) k)) / (T : F) := by
    unfold Spec.Stot; rw [sumRange_eq]; exact scale _ _ hN
  have e1 : ∀ a ∈ range K, (countType N (ty 0) (a + 1) : F) * Spec.S sqrt T N ty c s (a + 1) (a + 1) k =
      (∑ f ∈ range T, reMulConj (Spec.rho N (ty f) (c f) (s f) (a + 1) k) (Spec.rho N (ty f) (c f) (s f) (a + 1) k)) / (T : F) := by
    intro a ha
    have hp := hpos (a + 1) ⟨by omega, by have := Finset.mem_range.1 ha; omega⟩
    unfold Spec.S; rw [sumRange_eq, hs.sq_nat]
    exact scale _ _ (Nat.cast_ne_zero.2 (by omega))
  have e2 : ∀ a ∈ range K, ∀ b ∈ range K,
      (if a < b then sqrt ((countType N (ty 0) (a + 1) * countType N (ty 0) (b + 1) : ℕ) : F)
                          * Spec.S sqrt T N ty c s (a + 1) (b + 1) k else 0) =
      (∑ f ∈ range T, if a < b then reMulConj (Spec.rho N (ty f) (c f) (s f) (a + 1) k) (Spec.rho N (ty f) (c f) (s f) (b + 1) k) else 0) / (T : F) := by
    intro a ha b hb
    split
    · have hpa := hpos (a + 1) ⟨by omega, by have := Finset.mem_range.1 ha; omega⟩
      have hpb := hpos (b + 1) ⟨by omega, by have := Finset.mem_range.1 hb; omega⟩
      unfold Spec.S; rw [sumRange_eq]
      exact scale _ _ (hs.ne_zero (Nat.mul_pos hpa hpb))
    · simp
  rw [e0, Finset.sum_congr rfl e1, Finset.sum_congr rfl (fun a ha => Finset.sum_congr rfl (e2 a ha))]
  simp only [← Finset.sum_div]
  rw [← mul_div_assoc, ← add_div]
  congr 1
  rw [Finset.sum_congr rfl (fun f hf => frame_sumrule (ty f) (hty f (Finset.mem_range.1 hf)) (c f) (s f) k),
      Finset.sum_add_distrib, ← Finset.mul_sum]
  congr 1
  · exact Finset.sum_comm
  · congr 1
    rw [Finset.sum_comm]
    refine Finset.sum_congr rfl fun a _ => Finset.sum_comm

/-- a weighted identity `n·t = Σ u_a d_a + 2 ΣΣ_{a<b} w_ab c_ab` with non-negative weights survives a perturbation of every
term by at most ε up to ε·(n + Σ u_a + 2 ΣΣ_{a<b} w_ab) -/
theorem perturbed_identity (K : ℕ) (n : F) (u : ℕ → F) (w : ℕ → ℕ → F) (hn : 0 ≤ n) (hu : ∀ a, 0 ≤ u a) (hw : ∀ a b, 0 ≤ w a b)
    (t t' : F) (d d' : ℕ → F) (c c' : ℕ → ℕ → F) (ε : F)
    (h : n * t = ∑ a ∈ range K, u a * d a + 2 * ∑ a ∈ range K, ∑ b ∈ range K, if a < b then w a b * c a b else 0)
    (ht : |t' - t| ≤ ε) (hd : ∀ a, |d' a - d a| ≤ ε) (hc : ∀ a b, |c' a b - c a b| ≤ ε) :
    |n * t' - (∑ a ∈ range K, u a * d' a + 2 * ∑ a ∈ range K, ∑ b ∈ range K, if a < b then w a b * c' a b else 0)|
      ≤ ε * (n + (∑ a ∈ range K, u a + 2 * ∑ a ∈ range K, ∑ b ∈ range K, if a < b then w a b else 0)) := by
  have eA : ∑ a ∈ range K, u a * d' a - ∑ a ∈ range K, u a * d a = ∑ a ∈ range K, u a * (d' a - d a) := by
    rw [← Finset.sum_sub_distrib]; exact Finset.sum_congr rfl fun a _ => by ring
  have eB : (∑ a ∈ range K, ∑ b ∈ range K, if a < b then w a b * c' a b else 0)
      - (∑ a ∈ range K, ∑ b ∈ range K, if a < b then w a b * c a b else 0)
      = ∑ a ∈ range K, ∑ b ∈ range K, if a < b then w a b * (c' a b - c a b) else 0 := by
    rw [← Finset.sum_sub_distrib]
    refine Finset.sum_congr rfl fun a _ => ?_
    rw [← Finset.sum_sub_distrib]
    refine Finset.sum_congr rfl fun b _ => ?_
    split <;> ring
  have key : n * t' - (∑ a ∈ range K, u a * d' a + 2 * ∑ a ∈ range K, ∑ b ∈ range K, if a < b then w a b * c' a b else 0)
      = n * (t' - t) - (∑ a ∈ range K, u a * (d' a - d a)
          + 2 * ∑ a ∈ range K, ∑ b ∈ range K, if a < b then w a b * (c' a b - c a b) else 0) := by
    rw [← eA, ← eB, mul_sub, h]; ring
  rw [key]
  have b1 : |n * (t' - t)| ≤ ε * n := by
    rw [abs_mul, abs_of_nonneg hn, mul_comm]; exact mul_le_mul_of_nonneg_right ht hn
  have b2 : |∑ a ∈ range K, u a * (d' a - d a)| ≤ ε * ∑ a ∈ range K, u a := by
    refine (Finset.abs_sum_le_sum_abs _ _).trans ?_
    rw [Finset.mul_sum]
    refine Finset.sum_le_sum fun a _ => ?_
    rw [abs_mul, abs_of_nonneg (hu a), mul_comm]; exact mul_le_mul_of_nonneg_right (hd a) (hu a)
  have b3 : |∑ a ∈ range K, ∑ b ∈ range K, if a < b then w a b * (c' a b - c a b) else 0|
      ≤ ε * ∑ a ∈ range K, ∑ b ∈ range K, if a < b then w a b else 0 := by
    refine (Finset.abs_sum_le_sum_abs _ _).trans ?_
    rw [Finset.mul_sum]
    refine Finset.sum_le_sum fun a _ => ?_
    refine (Finset.abs_sum_le_sum_abs _ _).trans ?_
    rw [Finset.mul_sum]
    refine Finset.sum_le_sum fun b _ => ?_
    split
    · rw [abs_mul, abs_of_nonneg (hw a b), mul_comm]; exact mul_le_mul_of_nonneg_right (hc a b) (hw a b)
    · simp
  have tri : ∀ x y z : F, |x - (y + 2 * z)| ≤ |x| + (|y| + 2 * |z|) := by
    intro x y z
    have h1 := abs_sub x (y + 2 * z)
    have h2 := abs_add_le y (2 * z)
    have h3 : |2 * z| = 2 * |z| := by rw [abs_mul]; simp
    linarith
  refine (tri _ _ _).trans ?_
  have : ε * (n + (∑ a ∈ range K, u a + 2 * ∑ a ∈ range K, ∑ b ∈ range K, if a < b then w a b else 0))
      = ε * n + (ε * ∑ a ∈ range K, u a + 2 * (ε * ∑ a ∈ range K, ∑ b ∈ range K, if a < b then w a b else 0)) := by ring
  rw [this]
  linarith

/-- a linear identity that holds for every row holds for the means over any set of rows -/
theorem mean_identity {ι : Type} (G : Finset ι) (K : ℕ) (n : F) (u : ℕ → F) (w : ℕ → ℕ → F)
    (t : ι → F) (d : ℕ → ι → F) (c : ℕ → ℕ → ι → F)
    (h : ∀ k, n * t k = ∑ a ∈ range K, u a * d a k + 2 * ∑ a ∈ range K, ∑ b ∈ range K, if a < b then w a b * c a b k else 0) :
    n * ((∑ k ∈ G, t k) / (G.card : F)) =
      ∑ a ∈ range K, u a * ((∑ k ∈ G, d a k) / (G.card : F))
      + 2 * ∑ a ∈ range K, ∑ b ∈ range K, if a < b then w a b * ((∑ k ∈ G, c a b k) / (G.card : F)) else 0 := by
  have hs : ∑ k ∈ G, n * t k = ∑ a ∈ range K, u a * ∑ k ∈ G, d a k
      + 2 * ∑ a ∈ range K, ∑ b ∈ range K, if a < b then w a b * ∑ k ∈ G, c a b k else 0 := by
    rw [Finset.sum_congr rfl (fun k _ => h k), Finset.sum_add_distrib, ← Finset.mul_sum]
    congr 1
    · rw [Finset.sum_comm]
      exact Finset.sum_congr rfl fun a _ => (Finset.mul_sum _ _ _).symm
    · congr 1
      rw [Finset.sum_comm]
      refine Finset.sum_congr rfl fun a _ => ?_
      rw [Finset.sum_comm]
      refine Finset.sum_congr rfl fun b _ => ?_
      split
      · exact (Finset.mul_sum _ _ _).symm
      · simp
  have e1 : ∀ a, u a * ((∑ k ∈ G, d a k) / (G.card : F)) = (u a * ∑ k ∈ G, d a k) / (G.card : F) := fun a => (mul_div_assoc _ _ _).symm
  have e2 : ∀ a b, (if a < b then w a b * ((∑ k ∈ G, c a b k) / (G.card : F)) else 0)
      = (if a < b then w a b * ∑ k ∈ G, c a b k else 0) / (G.card : F) := by
    intro a b; split
    · exact (mul_div_assoc _ _ _).symm
    · simp
  simp only [e1, e2, ← Finset.sum_div]
  rw [← mul_div_assoc, ← mul_div_assoc, ← add_div, Finset.mul_sum, hs]

/-- rounding every row by at most ε moves a mean by at most ε -/
theorem mean_perturb {ι : Type} (G : Finset ι) (v v' : ι → F) (ε : F) (hε : 0 ≤ ε) (h : ∀ k, |v' k - v k| ≤ ε) :
    |(∑ k ∈ G, v' k) / (G.card : F) - (∑ k ∈ G, v k) / (G.card : F)| ≤ ε := by
  rcases Nat.eq_zero_or_pos G.card with h0 | h0
  · simp [h0, hε]
  · have hg : (0 : F) < (G.card : F) := Nat.cast_pos.2 h0
    rw [← sub_div, ← Finset.sum_sub_distrib, abs_div, abs_of_pos hg, div_le_iff₀ hg]
    refine (Finset.abs_sum_le_sum_abs _ _).trans ?_
    calc ∑ k ∈ G, |v' k - v k| ≤ ∑ _k ∈ G, ε := Finset.sum_le_sum fun k _ => h k
      _ = ε * (G.card : F) := by rw [Finset.sum_const, nsmul_eq_mul, mul_comm]

/-! ### non-negativity -/

theorem reMulConj_self_nonneg (a : Cx F) : 0 ≤ reMulConj a a := by
  rw [reMulConj_eq]; exact add_nonneg (mul_self_nonneg _) (mul_self_nonneg _)

theorem S_diag_nonneg {sqrt : F → F} (hs : SqrtOK sqrt) (T N : ℕ) (ty : ℕ → ℕ → ℕ) (c s : ℕ → ℕ → ℕ → F) (a k : ℕ) :
    0 ≤ Spec.S sqrt T N ty c s a a k := by
  unfold Spec.S; rw [sumRange_eq]
  refine div_nonneg (Finset.sum_nonneg fun f _ => div_nonneg (reMulConj_self_nonneg _) ?_) (Nat.cast_nonneg _)
  exact (hs _ (Nat.cast_nonneg _)).1

theorem Stot_nonneg (T N : ℕ) (c s : ℕ → ℕ → ℕ → F) (k : ℕ) : 0 ≤ Spec.Stot T N c s k := by
  unfold Spec.Stot; rw [sumRange_eq]
  exact div_nonneg (Finset.sum_nonneg fun f _ => div_nonneg (reMulConj_self_nonneg _) (Nat.cast_nonneg _)) (Nat.cast_nonneg _)

/-! ### group-by -/
section group
variable {κ : Type} [LinearOrder κ]

theorem mem_insertKey (x y : κ) (l : List κ) : y ∈ insertKey x l ↔ y = x ∨ y ∈ l := by
  induction l with
  | nil => simp [insertKey]
  | cons z zs ih =>
    unfold insertKey
    split
    · simp
    · split
      · rename_i h1 h2; subst h2; simp
      · simp [ih]; tauto

theorem sorted_insertKey (x : κ) (l : List κ) (h : l.Pairwise (· < ·)) : (insertKey x l).Pairwise (· < ·) := by
  induction l with
  | nil => simp [insertKey]
  | cons z zs ih =>
    rw [List.pairwise_cons] at h
    unfold insertKey
    split
    · rename_i hxz
      rw [List.pairwise_cons]
      refine ⟨?_, List.pairwise_cons.2 h⟩
      intro w hw
      rcases List.mem_cons.1 hw with rfl | hw
      · exact hxz
      · exact lt_trans hxz (h.1 w hw)
    · split
      · exact List.pairwise_cons.2 h
      · rename_i h1 h2
        rw [List.pairwise_cons]
        refine ⟨?_, ih h.2⟩
        intro w hw
        rcases (mem_insertKey x w zs).1 hw with rfl | hw
        · exact lt_of_le_of_ne (not_lt.1 h1) (Ne.symm h2)
        · exact h.1 w hw

theorem mem_distinctKeys (n : ℕ) (key : ℕ → κ) (x : κ) : x ∈ distinctKeys n key ↔ ∃ k < n, key k = x := by
  unfold distinctKeys
  induction n with
  | zero => simp [foldRange]
  | succ n ih =>
    rw [foldRange_succ, mem_insertKey, ih]
    constructor
    · rintro (rfl | ⟨k, hk, rfl⟩)
      · exact ⟨n, by omega, rfl⟩
      · exact ⟨k, by omega, rfl⟩
    · rintro ⟨k, hk, rfl⟩
      by_cases h : k = n
      · left; rw [h]
      · right; exact ⟨k, by omega, rfl⟩

theorem sorted_distinctKeys (n : ℕ) (key : ℕ → κ) : (distinctKeys n key).Pairwise (· < ·) := by
  unfold distinctKeys
  induction n with
  | zero => simp [foldRange]
  | succ n ih => rw [foldRange_succ]; exact sorted_insertKey _ _ ih

/-- `groupMean` = for each distinct key (ascending) the arithmetic mean over exactly the rows with that key -/
theorem groupMean_eq (n : ℕ) (key : ℕ → κ) (v : ℕ → F) :
    groupMean n key v = (distinctKeys n key).map fun x =>
      (x, (∑ k ∈ (range n).filter (fun k => key k = x), v k) / (((range n).filter (fun k => key k = x)).card : F)) := by
  unfold groupMean groupSize
  simp only [sumRange_eq]
  refine List.map_congr_left fun x _ => ?_
  rw [Finset.sum_filter, Finset.card_filter]

end group

end field
end Pms.Sq
