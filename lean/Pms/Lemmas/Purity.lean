import Pms.Model.Purity
/-! Soundness of the purity analysis of `Pms.Model.Purity` (helper lemmas for `Pms/Props/C18.lean`). -/
namespace Pms.Purity

/-- invariant: only tainted variables reach entry-time locations; entry-time contents are unchanged -/
def PInv (t : List Nat) (s0 s : St) : Prop :=
  s0.next ≤ s.next ∧ (∀ x l, s.env x l → l < s0.next → t.contains x = true) ∧
  (∀ l, l < s0.next → s.heap l = s0.heap l)

theorem hasAny_of_mem {t ys : List Nat} {y : Nat} (hy : y ∈ ys) (ht : t.contains y = true) : hasAny t ys = true :=
  List.any_eq_true.mpr ⟨y, hy, ht⟩

theorem rebind_preserves (t : List Nat) (s0 s s' : St) (x : Nat) (ys : List Nat)
    (hcl : (∃ y, y ∈ ys ∧ t.contains y = true) → t.contains x = true)
    (hs : Rebind s x ys s') (ih : PInv t s0 s) : PInv t s0 s' := by
  obtain ⟨hn, hv, hh⟩ := ih
  obtain ⟨h1, h2, h3, h4⟩ := hs
  refine ⟨Nat.le_trans hn h1, ?_, ?_⟩
  · intro v l hv' hl
    by_cases hvx : v = x
    · subst hvx
      rcases h3 l hv' with ⟨y, hy, hyl⟩ | hge
      · exact hcl ⟨y, hy, hv y l hyl hl⟩
      · exfalso; omega
    · rw [h2 v hvx] at hv'; exact hv v l hv' hl
  · intro l hl
    rw [h4 l (by omega)]; exact hh l hl

theorem step_preserves (prog : List Stmt) (t : List Nat) (s0 s s' : St) (st : Stmt)
    (hclosed : closed prog t = true) (hmut : noTaintedMutate prog t = true)
    (hm : st ∈ prog) (hs : Step s st s') (ih : PInv t s0 s) : PInv t s0 s' := by
  have hc := (List.all_eq_true.mp hclosed) st hm
  have hmu := (List.all_eq_true.mp hmut) st hm
  cases st with
  | fresh x =>
    exact rebind_preserves t s0 s s' x [] (fun ⟨_, hy, _⟩ => by cases hy) hs ih
  | alias x ys =>
    refine rebind_preserves t s0 s s' x ys ?_ hs ih
    rintro ⟨y, hy, hty⟩
    have := hasAny_of_mem hy hty
    simp only [this, Bool.not_true, Bool.false_or] at hc
    exact hc
  | store x ys =>
    refine rebind_preserves t s0 s s' x (x :: ys) ?_ hs ih
    rintro ⟨y, hy, hty⟩
    rcases List.mem_cons.mp hy with rfl | hy'
    · exact hty
    · have := hasAny_of_mem hy' hty
      simp only [this, Bool.not_true, Bool.false_or] at hc
      exact hc
  | mutate x =>
    obtain ⟨hn, hv, hh⟩ := ih
    obtain ⟨h1, h2, h3⟩ := hs
    refine ⟨by omega, ?_, ?_⟩
    · intro v l hv' hl; rw [h2] at hv'; exact hv v l hv' hl
    · intro l hl
      by_cases hne : s'.heap l = s.heap l
      · rw [hne]; exact hh l hl
      · have h5 := hv x l (h3 l hne) hl
        simp only [h5, Bool.not_true] at hmu
        cases hmu
  | write x => cases hs; exact ih
  | ret xs => cases hs; exact ih

/-- **soundness of `check`** -/
theorem sound (prog : List Stmt) (params : List Nat) (s0 : St)
    (hc : check prog params = true)
    (h0 : ∀ x l, s0.env x l → l < s0.next → params.contains x = true) :
    ∀ s, Reach prog s0 s → s0.next ≤ s.next ∧ ∀ l, l < s0.next → s.heap l = s0.heap l := by
  simp only [check, Bool.and_eq_true] at hc
  obtain ⟨⟨⟨hclosed, hparams⟩, hmut⟩, _⟩ := hc
  intro s hr
  have hinv : PInv (taint prog params) s0 s := by
    induction hr with
    | init =>
      refine ⟨Nat.le_refl _, ?_, fun _ _ => rfl⟩
      intro x l hx hl
      have hp := h0 x l hx hl
      have hx' : x ∈ params := by simpa using hp
      exact (List.all_eq_true.mp hparams) x hx'
    | step st _ hm hs ih => exact step_preserves prog _ s0 _ _ st hclosed hmut hm hs ih
  exact ⟨hinv.1, hinv.2.2⟩

/-! ### in-order runs without mutation / rebinding -/

theorem step_keeps (s s' : St) (st : Stmt) (x : Nat) (h1 : isMutate st = false) (h2 : bindsVar x st = false)
    (hs : Step s st s') : s.next ≤ s'.next ∧ s'.env x = s.env x ∧ ∀ l, l < s.next → s'.heap l = s.heap l := by
  cases st with
  | fresh y =>
    obtain ⟨a, b, _, d⟩ := hs
    have : x ≠ y := by intro h; subst h; simp [bindsVar] at h2
    exact ⟨a, b x this, d⟩
  | alias y ys =>
    obtain ⟨a, b, _, d⟩ := hs
    have : x ≠ y := by intro h; subst h; simp [bindsVar] at h2
    exact ⟨a, b x this, d⟩
  | store y ys =>
    obtain ⟨a, b, _, d⟩ := hs
    have : x ≠ y := by intro h; subst h; simp [bindsVar] at h2
    exact ⟨a, b x this, d⟩
  | mutate y => simp [isMutate] at h1
  | write y => cases hs; exact ⟨Nat.le_refl _, rfl, fun _ _ => rfl⟩
  | ret ys => cases hs; exact ⟨Nat.le_refl _, rfl, fun _ _ => rfl⟩

end Pms.Purity
