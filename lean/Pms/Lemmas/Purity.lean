import Pms.Model.Purity
/-! Soundness of the purity analysis of `Pms.Model.Purity` (helper lemmas for `Pms/Props/C18.lean`). -/
namespace Pms.Purity

/-- invariant: only tainted variables reach entry-time locations; entry-time contents are unchanged -/
def PInv (t : List Nat) (s0 s : St) : Prop :=
  s0.next ≤ s.next ∧ (∀ x l, s.env x l → l < s0.next → t.contains x = true) ∧
  (∀ l, l < s0.next → s.heap l = s0.heap l)

theorem hasAny_of_mem {t ys : List Nat} {y : Nat} (hy : y ∈ ys) (ht : t.contains y = true) : hasAny t ys = true :=
  List.any_eq_true.mpr ⟨y, hy, ht⟩

theorem rebind_preserves (t : List Nat) (s0 s s' : St) (x : Nat) (ys : List Nat)
    (hcl : (∃ y, y ∈ ys ∧ t.contains y = true) → t.contains x = true)
    (hs : Rebind s x ys s') (ih : PInv t s0 s) : PInv t s0 s' := by
  obtain ⟨hn, hv, hh⟩ := ih
  obtain ⟨h1, h2, h3, h4⟩ := hs
  refine ⟨Nat.le_trans hn h1, ?_, ?_⟩
  · intro v l hv' hl
    by_cases hvx : v = x
    · subst hvx
      rcases h3 l hv' with ⟨y, hy, hyl⟩ | hge
      · exact hcl ⟨y, hy, hv y l hyl hl⟩
      · exfalso; omega
    · rw [h2 v hvx] at hv'; exact hv v l hv' hl
  · intro l hl
    rw [h4 l (by omega)]; exact hh l hl

theorem step_preserves (prog : List Stmt) (t : List Nat) (s0 s s' : St) (st : Stmt)
    (hclosed : closed prog t = true) (hmut : noTaintedMutate prog t = true)
    (hm : st ∈ prog) (hs : Step s st s') (ih : PInv t s0 s) : PInv t s0 s' := by
  have hc := (List.all_eq_true.mp hclosed) st hm
  have hmu := (List.all_eq_true.mp hmut) st hm
  cases st with
  | fresh x =>
    exact rebind_preserves t s0 s s' x [] (fun ⟨_, hy, _⟩ => by cases hy) hs ih
  | alias x ys =>
    refine rebind_preserves t s0 s s' x ys ?_ hs ih
    rintro ⟨y, hy, hty⟩
    have := hasAny_of_mem hy hty
    simp only [this, Bool.not_true, Bool.false_or] at hc
    exact hc
  | store x ys =>
    refine rebind_preserves t s0 s s' x (x :: ys) ?_ hs ih
    rintro ⟨y, hy, hty⟩
    rcases List.mem_cons.mp hy with rfl | hy'
    · exact hty
    · have := hasAny_of_mem hy' hty
      simp only [this, Bool.not_true, Bool.false_or] at hc
      exact hc
  | mutate x =>
    obtain ⟨hn, hv, hh⟩ := ih
    obtain ⟨h1, h2, h3⟩ := hs
    refine ⟨by omega, ?_, ?_⟩
    · intro v l hv' hl; rw [h2] at hv'; exact hv v l hv' hl
    · intro l hl
      by_cases hne : s'.heap l = s.heap l
      · rw [hne]; exact hh l hl
      · have h5 := hv x l (h3 l hne) hl
        simp only [h5, Bool.not_true] at hmu
        cases hmu
  | write x => cases hs; exact ih
  | ret xs => cases hs; exact ih

/-- **soundness of `check`** -/
theorem sound (prog : List Stmt) (params : List Nat) (s0 : St)
    (hc : check prog params = true)
    (h0 : ∀ x l, s0.env x l → l < s0.next → params.contains x = true) :
    ∀ s, Reach prog s0 s → s0.next ≤ s.next ∧ ∀ l, l < s0.next → s.heap l = s0.heap l := by
  simp only [check, Bool.and_eq_true] at hc
  obtain ⟨⟨⟨hclosed, hparams⟩, hmut⟩, _⟩ := hc
  intro s hr
  have hinv : PInv (taint prog params) s0 s := by
    induction hr with
    | init =>
      refine ⟨Nat.le_refl _, ?_, fun _ _ => rfl⟩
      intro x l hx hl
      have hp := h0 x l hx hl
      have hx' : x ∈ params := by simpa using hp
      exact (List.all_eq_true.mp hparams) x hx'
    | step st _ hm hs ih => exact step_preserves prog _ s0 _ _ st hclosed hmut hm hs ih
  exact ⟨hinv.1, hinv.2.2⟩

/-! ### in-order runs without mutation / rebinding -/

theorem step_keeps (s s' : St) (st : Stmt) (x : Nat) (h1 : isMutate st = false) (h2 : bindsVar x st = false)
    (hs : Step s st s') : s.next ≤ s'.next ∧ s'.env x = s.env x ∧ ∀ l, l < s.next → s'.heap l = s.heap l := by
  cases st with
  | fresh y =>
    obtain ⟨a, b, _, d⟩ := hs
    have : x ≠ y := by intro h; subst h; simp [bindsVar] at h2
    exact ⟨a, b x this, d⟩
  | alias y ys =>
    obtain ⟨a, b, _, d⟩ := hs
    have : x ≠ y := by intro h; subst h; simp [bindsVar] at h2
    exact ⟨a, b x this, d⟩
  | store y ys =>
    obtain ⟨a, b, _, d⟩ := hs
    have : x ≠ y := by intro h; subst h; simp [bindsVar] at h2
    exact ⟨a, b x this, d⟩
  | mutate y => simp [isMutate] at h1
  | write y => cases hs; exact ⟨Nat.le_refl _, rfl, fun _ _ => rfl⟩
  | ret ys => cases hs; exact ⟨Nat.le_refl _, rfl, fun _ _ => rfl⟩

theorem run_keeps (x : Nat) (mid : List Stmt) (hmid : ∀ st, st ∈ mid → isMutate st = false ∧ bindsVar x st = false)
    (s s' : St) (hr : Run s mid s') :
    s.next ≤ s'.next ∧ s'.env x = s.env x ∧ ∀ l, l < s.next → s'.heap l = s.heap l := by
  induction hr with
  | nil => exact ⟨Nat.le_refl _, rfl, fun _ _ => rfl⟩
  | @cons _ _ _ st rest hstep _ ih =>
    have h1 := hmid st (List.mem_cons_self ..)
    obtain ⟨a, b, c⟩ := step_keeps _ _ st x h1.1 h1.2 hstep
    obtain ⟨a', b', c'⟩ := ih (fun st' hm => hmid st' (List.mem_cons_of_mem _ hm))
    refine ⟨by omega, by rw [b', b], ?_⟩
    intro l hl; rw [c' l (by omega), c l hl]

theorem scan_cons (x : Nat) (st : Stmt) (rest : List Stmt) (hnr : ∀ xs, st ≠ .ret xs)
    (h : scanToRet x (st :: rest) = some true) :
    (isMutate st = false ∧ bindsVar x st = false) ∧ scanToRet x rest = some true := by
  have key : scanToRet x (st :: rest) =
      if isMutate st || bindsVar x st then (match scanToRet x rest with | some _ => some false | none => none)
      else scanToRet x rest := by
    cases st <;> first | rfl | exact absurd rfl (hnr _)
  rw [key] at h
  by_cases hd : (isMutate st || bindsVar x st) = true
  · rw [if_pos hd] at h
    cases hq : scanToRet x rest <;> simp [hq] at h
  · rw [if_neg hd] at h
    simp only [Bool.or_eq_true, not_or, Bool.not_eq_true] at hd
    exact ⟨hd, h⟩

theorem scan_split (x : Nat) (rest : List Stmt) (h : scanToRet x rest = some true) :
    ∃ mid xs post, rest = mid ++ Stmt.ret xs :: post ∧ x ∈ xs ∧
      ∀ st, st ∈ mid → isMutate st = false ∧ bindsVar x st = false := by
  induction rest with
  | nil => simp [scanToRet] at h
  | cons st rest ih =>
    by_cases hr : ∃ xs, st = .ret xs
    · obtain ⟨xs, rfl⟩ := hr
      simp only [scanToRet] at h
      by_cases hc : xs.contains x = true
      · exact ⟨[], xs, rest, rfl, by simpa using hc, fun _ hm => by cases hm⟩
      · rw [if_neg hc] at h; cases h
    · have hnr : ∀ xs, st ≠ .ret xs := fun xs e => hr ⟨xs, e⟩
      obtain ⟨hst, hrest⟩ := scan_cons x st rest hnr h
      obtain ⟨mid, xs, post, e, hx, hm⟩ := ih hrest
      refine ⟨st :: mid, xs, post, by simp [e], hx, ?_⟩
      intro st' hst'
      rcases List.mem_cons.mp hst' with rfl | h'
      · exact hst
      · exact hm st' h'

end Pms.Purity
