import Pms.Model.WaveX
import Pms.Lemmas.Wave
import Mathlib.Data.List.Perm.Basic
import Mathlib.Tactic.NormNum
import Mathlib.Algebra.BigOperators.Group.List.Basic

/-! Helper lemmas for `wavevector3d`, `wavevector2d`, `continuousvector` (EXTRA). -/
namespace Pms.WaveX
open Pms.Wave

/-! ### ravel / reshape -/

theorem chunks_flatten (w : ℕ) (hw : 0 < w) (rows : List (List ℤ)) (hr : ∀ r ∈ rows, r.length = w) (fuel : ℕ)
    (hf : rows.length ≤ fuel) : chunks w fuel rows.flatten = some rows := by
  induction rows generalizing fuel with
  | nil => cases fuel <;> simp [chunks]
  | cons r rest ih =>
    have hrl : r.length = w := hr r (by simp)
    cases fuel with
    | zero => simp at hf
    | succ fuel =>
      have hne : (r ++ rest.flatten).isEmpty = false := by
        cases r with
        | nil => simp at hrl; omega
        | cons a t => simp
      have hlen : ¬ (w = 0 ∨ (r ++ rest.flatten).length < w) := by
        simp only [List.length_append]; omega
      simp only [List.flatten_cons, chunks, hne, Bool.false_eq_true, if_false, hlen]
      have h1 : (r ++ rest.flatten).drop w = rest.flatten := by rw [← hrl]; simp
      have h2 : (r ++ rest.flatten).take w = r := by rw [← hrl]; simp
      rw [h1, h2, ih (fun x hx => hr x (by simp [hx])) fuel (by simpa using hf)]
      rfl

theorem length_flatten_ge (rows : List (List ℤ)) (w : ℕ) (hw : 0 < w) (hr : ∀ r ∈ rows, r.length = w) :
    rows.length ≤ rows.flatten.length := by
  induction rows with
  | nil => simp
  | cons r rest ih =>
    have := hr r (by simp)
    have := ih (fun x hx => hr x (by simp [hx]))
    simp only [List.length_cons, List.flatten_cons, List.length_append]
    omega

/-! ### the loop nest `range(numofq)` starts at the zero tuple, which occurs once -/

theorem isZero_iff (t : List ℤ) : isZero t = true ↔ t = List.replicate t.length 0 := by
  unfold isZero
  rw [List.all_eq_true, List.eq_replicate_iff]
  simp

theorem intRange_zero_succ (n : ℕ) : intRange 0 ((n + 1 : ℕ) : ℤ) = 0 :: (List.range n).map (fun (k : ℕ) => ((k : ℤ) + 1)) := by
  unfold intRange
  have : ((((n + 1 : ℕ) : ℤ)) - 0).toNat = n + 1 := by omega
  rw [this, List.range_succ_eq_map]
  simp only [List.map_cons, List.map_map]
  congr 1
  apply List.map_congr_left
  intro k _
  simp only [Function.comp]
  push_cast
  ring

theorem length_nest_mem {n k : ℕ} {t : List ℤ} (h : t ∈ nest n k) : t.length = k := by
  unfold nest at h
  rw [mem_tuples] at h
  have := h.length_eq
  simpa using this.symm

/-- for numofq ≥ 1 the nest is `zeros :: rest` and no tuple of `rest` is zero -/
theorem nest_head (n k : ℕ) (hn : 0 < n) :
    ∃ rest, nest n k = List.replicate k 0 :: rest ∧ ∀ t ∈ rest, isZero t = false := by
  have key : ∃ rest, nest n k = List.replicate k 0 :: rest := by
    unfold nest
    induction k with
    | zero => exact ⟨[], by simp [tuples]⟩
    | succ k ih =>
      obtain ⟨rest, hrest⟩ := ih
      obtain ⟨m, rfl⟩ : ∃ m, n = m + 1 := ⟨n - 1, by omega⟩
      simp only [List.replicate_succ, tuples, Bnd.val]
      rw [intRange_zero_succ, List.flatMap_cons, hrest]
      refine ⟨(rest.map (fun x => (0 : ℤ) :: x)) ++ ((List.range m).map (fun (k : ℕ) => ((k : ℤ) + 1))).flatMap
          (fun x => (List.replicate k 0 :: rest).map (fun t => x :: t)), ?_⟩
      simp
  have hnd : (nest n k).Nodup := nodup_tuples _ _
  obtain ⟨rest, hrest⟩ := key
  refine ⟨rest, hrest, ?_⟩
  intro t ht
  rw [hrest, List.nodup_cons] at hnd
  have hlen : t.length = k := length_nest_mem (n := n) (by rw [hrest]; simp [ht])
  cases hz : isZero t with
  | false => rfl
  | true =>
    rw [isZero_iff, hlen] at hz
    exact absurd (hz ▸ ht) hnd.1

theorem nest_zero (k : ℕ) (hk : 0 < k) : nest 0 k = [] := by
  obtain ⟨m, rfl⟩ : ∃ m, k = m + 1 := ⟨k - 1, by omega⟩
  show tuples ((0 : ℕ) : ℤ) ((Bnd.zero, Bnd.pos) :: List.replicate m (Bnd.zero, Bnd.pos)) = []
  simp only [tuples, Bnd.val, intRange]
  simp

theorem inSquares_iff (n : ℕ) (d : ℤ) : inSquares n d = true ↔ ∃ k : ℕ, k < n ∧ (k : ℤ) * k = d := by
  unfold inSquares
  simp [List.any_eq_true]

theorem filter_and_notZero (p : List ℤ → Bool) (rest : List (List ℤ)) (h : ∀ t ∈ rest, isZero t = false) :
    rest.filter p = rest.filter (fun t => p t && !isZero t) := by
  apply List.filter_congr
  intro t ht
  simp [h t ht]

theorem sumSq_zeros (idx : List ℕ) (k : ℕ) : sumSq idx (List.replicate k 0) = 0 := by
  unfold sumSq
  have : ∀ (acc : ℤ), acc = 0 → idx.foldl (fun acc j => acc + (List.replicate k (0 : ℤ)).getD j 0 * (List.replicate k (0 : ℤ)).getD j 0) acc = 0 := by
    induction idx with
    | nil => intro acc h; simpa using h
    | cons j rest ih =>
      intro acc h
      simp only [List.foldl_cons]
      apply ih
      have : (List.replicate k (0 : ℤ)).getD j 0 = 0 := by
        rw [List.getD_eq_getElem?_getD]
        by_cases hj : j < k <;> simp [hj]
      rw [this, h]; simp
  exact this 0 rfl

theorem length_rowOf (T : SqTable) (t : List ℤ) : (T.rowOf t).length = T.row.length := by
  simp [SqTable.rowOf]

/-! ### continuousvector -/

theorem isZero_zeros (d : ℕ) : isZero (zeros d) = true := by
  simp [isZero, zeros]

theorem filter_replicate_zeros (m d : ℕ) : (List.replicate m (zeros d)).filter (fun v => !isZero v) = [] := by
  rw [List.filter_eq_nil_iff]
  intro v hv
  rw [(List.mem_replicate.1 hv).2, isZero_zeros]
  simp

theorem length_intRange (lo hi : ℤ) : (intRange lo hi).length = (hi - lo).toNat := by
  simp [intRange]

theorem length_tuples_sym (h : ℕ) (k : ℕ) :
    (tuples (h : ℤ) (List.replicate k (Bnd.neg, Bnd.pos))).length = (2 * h) ^ k := by
  induction k with
  | zero => simp [tuples]
  | succ k ih =>
    simp only [List.replicate_succ, tuples, List.length_flatMap, List.length_map, ih]
    rw [List.map_const', List.sum_replicate, length_intRange]
    simp only [Bnd.val]
    have : ((h : ℤ) - -(h : ℤ)).toNat = 2 * h := by omega
    rw [this, pow_succ, Nat.mul_comm]
    simp [Nat.mul_comm]

end Pms.WaveX
