import Pms.Lemmas.Cond

/-! Helper lemmas for C13, S(q) part. -/
namespace Pms.Cond
end Pms.Cond
