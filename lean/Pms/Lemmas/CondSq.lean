import Pms.Lemmas.Cond

/-! Helper lemmas for C13, S(q) part: the regenerated branch table of `conditional_sq`, density modes. -/
set_option linter.unusedSectionVars false
set_option linter.unusedVariables false
open Finset
namespace Pms.Cond
open Pms
open Pms.Sq (Cx reMulConj phase SqrtOK)
open Pms.Gen.Cond

variable {K : Type} [Field K] [LinearOrder K] [IsStrictOrderedRing K]

/-- the part of a branch that determines the returned `Sq` column -/
def SqBranch.sem (b : SqBranch) : Bool × SqWeight × SqDiv × SqRed := (b.select, b.weight, b.div, b.red)

/-- what the branch reached by a condition of a given kind has to do -/
def expectedSem : Spec.Kind → Bool × SqWeight × SqDiv × SqRed
  | .bool => (true, .one, .natom, .abs2)
  | .real | .complex => (false, .scalar, .npart, .abs2)
  | .vector | .tensor => (false, .vector, .npart, .abs2Sum)

def sqKinds : List Spec.Kind := [.bool, .real, .complex, .vector]

/-- the quantifier domain of conditional_sq (kind × dtype of that kind), evaluated by the kernel on the REGENERATED
branch table: a mask reaches the selected-particle branch, a scalar (real or complex) the scalar branch, a vector
field the component-wise branch -/
theorem sq_dispatch_table : ∀ kind ∈ sqKinds, ∀ dt ∈ kind.dtypes,
    (selectBranch sqBranches dt kind.rank).map SqBranch.sem = some (expectedSem kind) := by
  decide +kernel

/-- |F/√n|² = |F|²/n -/
theorem abs2_div (sqrt : K → K) (hs : SqrtOK sqrt) (n : ℕ) (hn : 0 < n) (F : Cx K) :
    reMulConj (⟨F.re / sqrt (n : K), F.im / sqrt (n : K)⟩ : Cx K) ⟨F.re / sqrt (n : K), F.im / sqrt (n : K)⟩
      = reMulConj F F / (n : K) := by
  have hr := hs.ne_zero (F := K) hn
  have h2 := (hs ((n : ℕ) : K) (Nat.cast_nonneg _)).2
  rw [Sq.reMulConj_eq, Sq.reMulConj_eq]
  generalize sqrt (n : K) = r at hr h2
  rw [← h2]
  field_simp

/-- the selected-particle loop is the mode of the 0/1 indicator -/
theorem selmode_eq (N : ℕ) (sel : ℕ → Bool) (c s : ℕ → K) :
    selmode N sel c s = cmode N (fun i => indCx (sel i)) c s := by
  apply cx_eq <;>
  · simp only [selmode, cmode, sumRange_eq, phase, Cx.mul, indCx, Gr.ind]
    refine Finset.sum_congr rfl fun i _ => ?_
    cases sel i <;> simp

/-- the loop over all particles of `exp(-iθ)` alone is the mode of A = 1 -/
theorem sumRange_one (f : ℕ → K) : sumRange 1 f = f 0 := by simp [sumRange]

/-- the regenerated branch reached by a condition of each kind computes Σ_comp |Σ_i A_i e^{-iθ_i}|² / n -/
theorem condSq_eval (sqrt : K → K) (hs : SqrtOK sqrt) (N : ℕ) (hN : 0 < N) (kind : Spec.Kind) (hk : kind ∈ sqKinds)
    (x : Input K) (hx : Valid kind N x) (c s : ℕ → ℕ → K) (k : ℕ) :
    Impl.condSq sqBranches sqrt N x c s k
      = some (Spec.condSq (Spec.nOf kind N x) N (if kind = .vector then x.m else 1) x.A c s k) := by
  have ht := sq_dispatch_table kind hk x.dtype hx.dtype
  rw [← hx.rank] at ht
  unfold Impl.condSq
  cases hb : selectBranch sqBranches x.dtype x.rank with
  | none => rw [hb] at ht; simp at ht
  | some b =>
    rw [hb] at ht
    simp only [Option.map_some, Option.some.injEq, SqBranch.sem] at ht
    have hnpos := nOf_pos kind N hN x hx
    simp only [sqKinds, List.mem_cons, List.not_mem_nil, or_false] at hk
    rcases hk with rfl | rfl | rfl | rfl
    · -- bool
      simp only [expectedSem, Prod.mk.injEq] at ht
      obtain ⟨h1, h2, h3, h4⟩ := ht
      have hn : Spec.nOf .bool N x = countSel N x.sel := by simp [Spec.nOf, Spec.count, countSel]
      simp only [h4, Impl.ftNorm, Impl.ft, Impl.divisor, h1, h2, h3, if_true]
      rw [← hn, abs2_div sqrt hs _ hnpos, selmode_eq]
      simp only [Spec.condSq, sumRange_one, (hx.mask rfl).1, reduceCtorEq, if_false]
    · simp only [expectedSem, Prod.mk.injEq] at ht
      obtain ⟨h1, h2, h3, h4⟩ := ht
      have hn : Spec.nOf .real N x = N := by simp [Spec.nOf]
      simp only [h4, Impl.ftNorm, Impl.ft, Impl.divisor, h1, h2, h3]
      rw [abs2_div sqrt hs _ hN, hn]
      simp only [Spec.condSq, sumRange_one, reduceCtorEq, if_false]
    · simp only [expectedSem, Prod.mk.injEq] at ht
      obtain ⟨h1, h2, h3, h4⟩ := ht
      have hn : Spec.nOf .complex N x = N := by simp [Spec.nOf]
      simp only [h4, Impl.ftNorm, Impl.ft, Impl.divisor, h1, h2, h3]
      rw [abs2_div sqrt hs _ hN, hn]
      simp only [Spec.condSq, sumRange_one, reduceCtorEq, if_false]
    · simp only [expectedSem, Prod.mk.injEq] at ht
      obtain ⟨h1, h2, h3, h4⟩ := ht
      have hn : Spec.nOf .vector N x = N := by simp [Spec.nOf]
      simp only [h4, Impl.ftNorm, Impl.ft, Impl.divisor, h1, h2, h3, hn, if_true, Spec.condSq, sumRange_eq]
      rw [Finset.sum_div]
      congr 1
      exact Finset.sum_congr rfl fun a _ => abs2_div sqrt hs _ hN _

/-! ### reductions to C04's Spec -/

theorem cmode_ind_eq_rho (N : ℕ) (ty : ℕ → ℕ) (a : ℕ) (sel : ℕ → Bool) (hsel : ∀ i, sel i = decide (ty i = a))
    (c s : ℕ → ℕ → K) (k : ℕ) :
    cmode N (fun i => indCx (sel i)) (fun i => c i k) (fun i => s i k) = Sq.Spec.rho N ty c s a k := by
  apply cx_eq <;>
  · simp only [cmode, Sq.Spec.rho, Sq.mode, sumRange_eq, phase, Cx.mul, indCx, Gr.ind, Sq.ind, hsel]
    refine Finset.sum_congr rfl fun i _ => ?_
    by_cases h : ty i = a <;> simp [h]

theorem cmode_one_eq_rhoAll (N : ℕ) (A : ℕ → ℕ → Cx K) (hone : ∀ i c, A i c = ⟨1, 0⟩) (c s : ℕ → ℕ → K) (k : ℕ) :
    cmode N (fun i => A i 0) (fun i => c i k) (fun i => s i k) = Sq.Spec.rhoAll N c s k := by
  apply cx_eq <;>
  · simp only [cmode, Sq.Spec.rhoAll, Sq.mode, sumRange_eq, phase, Cx.mul, hone]
    refine Finset.sum_congr rfl fun i _ => ?_
    ring

theorem count_eq_countType (N : ℕ) (ty : ℕ → ℕ) (a : ℕ) (sel : ℕ → Bool) (hsel : ∀ i, sel i = decide (ty i = a)) :
    Spec.count N sel = Sq.countType N ty a := by
  unfold Spec.count Sq.countType
  rw [sumRange_eq, sumRange_eq]
  refine Finset.sum_congr rfl fun i _ => ?_
  rw [hsel i]; simp

end Pms.Cond
