import Pms.Model.Pbc
import Pms.Lemmas.Basic
import Pms.Lemmas.Rint

/-! Linear-algebra helper lemmas for the index-function matrices of `Pms.Pbc`. -/
open Finset
namespace Pms.Pbc
open Pms

variable {K : Type} [Field K]

/-- `A · B = 1` on indices below `d` -/
def IsInv (d : ℕ) (A B : ℕ → ℕ → K) : Prop :=
  ∀ i < d, ∀ k < d, (∑ j ∈ range d, A i j * B j k) = if i = k then 1 else 0

theorem vecMul_congr (d : ℕ) (u v : ℕ → K) (M : ℕ → ℕ → K) (h : ∀ i < d, u i = v i) (k : ℕ) :
    vecMul d u M k = vecMul d v M k := by
  simp only [vecMul, sumRange_eq]
  exact Finset.sum_congr rfl fun i hi => by rw [h i (Finset.mem_range.mp hi)]

theorem vecMul_add (d : ℕ) (u v : ℕ → K) (M : ℕ → ℕ → K) (k : ℕ) :
    vecMul d (fun i => u i + v i) M k = vecMul d u M k + vecMul d v M k := by
  simp only [vecMul, sumRange_eq, ← Finset.sum_add_distrib]
  exact Finset.sum_congr rfl fun i _ => by ring

theorem vecMul_neg (d : ℕ) (u : ℕ → K) (M : ℕ → ℕ → K) (k : ℕ) :
    vecMul d (fun i => - u i) M k = - vecMul d u M k := by
  simp only [vecMul, sumRange_eq, ← Finset.sum_neg_distrib]
  exact Finset.sum_congr rfl fun i _ => by ring

theorem vecMul_assoc (d : ℕ) (v : ℕ → K) (A B : ℕ → ℕ → K) (k : ℕ) :
    vecMul d (vecMul d v A) B k = ∑ i ∈ range d, v i * ∑ j ∈ range d, A i j * B j k := by
  simp only [vecMul, sumRange_eq]
  simp_rw [Finset.sum_mul, Finset.mul_sum]
  rw [Finset.sum_comm]
  refine Finset.sum_congr rfl fun i _ => Finset.sum_congr rfl fun j _ => by ring

theorem vecMul_inv (d : ℕ) (v : ℕ → K) (A B : ℕ → ℕ → K) (h : IsInv d A B) (k : ℕ) (hk : k < d) :
    vecMul d (vecMul d v A) B k = v k := by
  rw [vecMul_assoc]
  have : ∀ i ∈ range d, v i * ∑ j ∈ range d, A i j * B j k = if i = k then v i else 0 := by
    intro i hi
    rw [h i (Finset.mem_range.mp hi) k hk]; split <;> simp
  rw [Finset.sum_congr rfl this, Finset.sum_ite_eq' (range d) k]
  simp [hk]

end Pms.Pbc
