import Pms.Model.Prelude
import Mathlib.Algebra.BigOperators.Intervals
import Mathlib.Algebra.BigOperators.Ring.Finset
import Mathlib.Algebra.Order.Field.Basic
import Mathlib.Tactic.Ring
import Mathlib.Tactic.Linarith
import Mathlib.Tactic.FieldSimp

/-! Helper lemmas bridging the core-only model combinators to Mathlib's `Finset.sum`. -/
open Finset
namespace Pms

theorem sumRange_eq {M : Type} [AddCommMonoid M] (n : ℕ) (f : ℕ → M) :
    sumRange n f = ∑ i ∈ range n, f i := by
  induction n with
  | zero => simp [sumRange]
  | succ n ih => simp [sumRange, ih, Finset.sum_range_succ]

theorem foldRange_succ {σ : Type} (n : ℕ) (f : σ → ℕ → σ) (s : σ) :
    foldRange (n+1) f s = f (foldRange n f s) n := rfl

theorem memo_eq {α : Type} [Inhabited α] (n : ℕ) (f : ℕ → α) (i : ℕ) : memo n f i = f i := by
  unfold memo
  split
  · simp
  · rfl

theorem memo2_eq {α : Type} [Inhabited α] (n m : ℕ) (f : ℕ → ℕ → α) (i j : ℕ) :
    memo2 n m f i j = f i j := by
  unfold memo2
  split
  · split
    · simp
    · rfl
  · rfl

/-- inner loop: after `for nn in range(m): acc[nn] += g nn` -/
theorem inner_loop {M : Type} [AddCommMonoid M] (m : ℕ) (g : ℕ → M) (acc0 : ℕ → M) (k : ℕ) :
    foldRange m (fun acc nn => upd acc nn (g nn)) acc0 k = acc0 k + (if k < m then g k else 0) := by
  induction m with
  | zero => simp [foldRange]
  | succ m ih =>
    simp only [foldRange, upd]
    by_cases h : k = m
    · subst h; simp [ih]
    · have : (k < m + 1) ↔ (k < m) := by omega
      simp [h, ih, this]

/-- the reindexing theorem used by C06 and C14: after the double loop over (n, nn ≤ n),
slot `k` holds the sum over all `n ≥ k` of `F n k`. -/
theorem originLoop_eq {M : Type} [AddCommMonoid M] (T : ℕ) (F : ℕ → ℕ → M) (k : ℕ) :
    originLoop T F (fun _ => 0) k = ∑ n ∈ (range T).filter (fun n => k ≤ n), F n k := by
  unfold originLoop
  induction T with
  | zero => simp [foldRange]
  | succ T ih =>
    rw [foldRange_succ]
    show foldRange (T+1) (fun acc nn => upd acc nn (F T nn)) _ k = _
    rw [inner_loop, ih, Finset.range_add_one, Finset.filter_insert]
    by_cases h : k ≤ T
    · have : k < T + 1 := by omega
      simp [h, this, add_comm]
    · have : ¬ k < T + 1 := by omega
      simp [h, this]

/-- number of origins for lag k is T - k -/
theorem origin_count (T k : ℕ) : ((range T).filter (fun n => k ≤ n)).card = T - k := by
  induction T with
  | zero => simp
  | succ T ih =>
    rw [Finset.range_add_one, Finset.filter_insert]
    by_cases h : k ≤ T
    · rw [if_pos h, Finset.card_insert_of_notMem (by simp), ih]; omega
    · rw [if_neg h, ih]; omega

/-- ordered pairs i≠j = unordered pairs visited once, contributing f i j + f j i -/
theorem offdiag_eq_pairLoop {M : Type} [AddCommMonoid M] (n : ℕ) (f : ℕ → ℕ → M) :
    (∑ i ∈ range n, ∑ j ∈ range n, if i ≠ j then f i j else 0)
      = pairLoop n (fun i j => f i j + f j i) := by
  unfold pairLoop
  simp only [sumRange_eq]
  have h2 : ∑ i ∈ range n, ∑ j ∈ range n, (if i < j then f j i else 0)
          = ∑ i ∈ range n, ∑ j ∈ range n, (if j < i then f i j else 0) := by
    rw [Finset.sum_comm]
  have split : ∀ i j, (if i < j then f i j + f j i else 0)
      = (if i < j then f i j else 0) + (if i < j then f j i else 0) := by
    intro i j; split <;> simp
  simp_rw [split, Finset.sum_add_distrib]
  rw [h2, ← Finset.sum_add_distrib]
  refine Finset.sum_congr rfl fun i _ => ?_
  rw [← Finset.sum_add_distrib]
  refine Finset.sum_congr rfl fun j _ => ?_
  rcases Nat.lt_trichotomy i j with h | h | h
  · have : ¬ j < i := by omega
    have : i ≠ j := by omega
    simp [*]
  · subst h; simp
  · have : ¬ i < j := by omega
    have : i ≠ j := by omega
    simp [*]

/-- unordered pairs counted once, times 2 = ordered pairs i ≠ j, for symmetric f -/
theorem pairLoop_double {K : Type} [Field K] (n : ℕ) (f : ℕ → ℕ → K) (hsym : ∀ i j, f i j = f j i) :
    2 * pairLoop n f = ∑ i ∈ range n, ∑ j ∈ range n, if i ≠ j then f i j else 0 := by
  rw [offdiag_eq_pairLoop]
  unfold pairLoop
  simp only [sumRange_eq, Finset.mul_sum]
  refine Finset.sum_congr rfl fun i _ => Finset.sum_congr rfl fun j _ => ?_
  split
  · rw [hsym j i]; ring
  · simp

end Pms
