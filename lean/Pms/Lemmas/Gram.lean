import Pms.Lemmas.RefShell
import Pms.Lemmas.AdditionCheck

/-!
The Gram matrix Γ(p, p') = Σ_m q_lm(p) conj q_lm(p') of the local bond-order vectors, written with the addition-theorem
kernel: Γ depends on the bond–bond cosines only.  Everything Steinhardt-like that the code derives from the q_lm — q_l, the
coarse-grained Q_l, the bond coherence s_ij — is a function of Γ, hence invariant under rotations of all bonds.
-/
open Finset
namespace Pms.Boo
open Pms.Sph Pms.PolyN Pms.Sym

/-- Γ_q(p, p') = Σ_k q_p,k · conj q_p',k -/
noncomputable def gram (L : ℕ) (q : ℕ → ℕ → ℂ) (p p' : ℕ) : ℂ := ∑ k ∈ range L, q p k * (starRingEnd ℂ) (q p' k)

/-- Σ_k (mean_j Y1_jk) conj (mean_j' Y2_j'k) with a pair kernel -/
theorem mean_kernel (L n1 n2 : ℕ) (Y1 Y2 : ℕ → ℕ → ℂ) (G : ℕ → ℕ → ℂ)
    (hG : ∀ j ∈ range n1, ∀ j' ∈ range n2, ∑ k ∈ range L, Y1 j k * (starRingEnd ℂ) (Y2 j' k) = G j j') :
    ∑ k ∈ range L, ((∑ j ∈ range n1, Y1 j k) / (n1 : ℂ)) * (starRingEnd ℂ) ((∑ j ∈ range n2, Y2 j k) / (n2 : ℂ))
      = (∑ j ∈ range n1, ∑ j' ∈ range n2, G j j') / ((n1 : ℂ) * (n2 : ℂ)) := by
  have e : ∀ k ∈ range L, ((∑ j ∈ range n1, Y1 j k) / (n1 : ℂ)) * (starRingEnd ℂ) ((∑ j ∈ range n2, Y2 j k) / (n2 : ℂ))
      = (∑ j ∈ range n1, ∑ j' ∈ range n2, Y1 j k * (starRingEnd ℂ) (Y2 j' k)) / ((n1 : ℂ) * (n2 : ℂ)) := by
    intro k _
    rw [map_div₀, map_sum, Complex.conj_natCast, div_mul_div_comm, Finset.sum_mul_sum]
  rw [Finset.sum_congr rfl e, ← Finset.sum_div]
  congr 1
  rw [Finset.sum_comm]
  refine Finset.sum_congr rfl fun j hj => ?_
  rw [Finset.sum_comm]
  exact Finset.sum_congr rfl fun j' hj' => hG j hj j' hj'

/-- **Γ from the cosines**: for l passing the decided check and non-zero bonds of the two particles -/
theorem gram_cosines (l : ℕ) (hOK : additionOK l = true) (cn : ℕ → ℕ) (u : ℕ → ℕ → ℕ → ℝ) (p p' : ℕ)
    (hp : ∀ j < cn p, 0 < dot 3 (u p j) (u p j)) (hp' : ∀ j < cn p', 0 < dot 3 (u p' j) (u p' j)) :
    gram (2 * l + 1) (qlmImpl cn (Yv l u)) p p'
      = (∑ j ∈ range (cn p), ∑ j' ∈ range (cn p'),
          (((2 * (l : ℝ) + 1) / (4 * Real.pi) * ev (cosG (u p j) (u p' j')) (legendre l) : ℝ) : ℂ)) / ((cn p : ℂ) * (cn p' : ℂ)) := by
  unfold gram
  simp only [qlmImpl, sumRange_eq]
  exact mean_kernel (2 * l + 1) (cn p) (cn p') (fun j k => Yv l u p j k) (fun j k => Yv l u p' j k) _
    (fun j hj j' hj' => addition_vec l hOK (u p j) (u p' j') (hp j (Finset.mem_range.1 hj)) (hp' j' (Finset.mem_range.1 hj')))

/-- rotation of all bonds leaves Γ unchanged -/
theorem gram_rot (l : ℕ) (hOK : additionOK l = true) (Rot : ℕ → ℕ → ℝ) (hR : IsOrtho 3 Rot) (cn : ℕ → ℕ)
    (u : ℕ → ℕ → ℕ → ℝ) (p p' : ℕ)
    (hp : ∀ j < cn p, 0 < dot 3 (u p j) (u p j)) (hp' : ∀ j < cn p', 0 < dot 3 (u p' j) (u p' j)) :
    gram (2 * l + 1) (qlmImpl cn (Yv l fun i j => matVec 3 Rot (u i j))) p p'
      = gram (2 * l + 1) (qlmImpl cn (Yv l u)) p p' := by
  rw [gram_cosines l hOK cn (fun i j => matVec 3 Rot (u i j)) p p'
        (fun j hj => by rw [dot_matVec 3 Rot hR]; exact hp j hj) (fun j hj => by rw [dot_matVec 3 Rot hR]; exact hp' j hj),
      gram_cosines l hOK cn u p p' hp hp']
  simp only [cosG_rot Rot hR]

/-- Σ_k |x_k|² as the diagonal of Γ -/
theorem sumSq_eq_gram (L : ℕ) (q : ℕ → ℕ → ℂ) (p : ℕ) :
    ((sumSq cOps L (q p) : ℝ) : ℂ) = gram L q p p := by
  unfold sumSq gram
  rw [sumRange_eq]
  push_cast
  exact Finset.sum_congr rfl fun k _ => (Complex.mul_conj _).symm

/-- the members of the coarse-graining average of particle i: itself, then its listed neighbours -/
def member (nb : ℕ → ℕ → ℕ) (i : ℕ) : ℕ → ℕ
  | 0 => i
  | a+1 => nb i a

theorem Qlm_as_mean (cn : ℕ → ℕ) (nb : ℕ → ℕ → ℕ) (q : ℕ → ℕ → ℂ) (i k : ℕ) :
    QlmImpl cn nb q i k = (∑ a ∈ range (1 + cn i), q (member nb i a) k) / ((1 + cn i : ℕ) : ℂ) := by
  unfold QlmImpl
  rw [sumRange_eq, add_comm 1 (cn i), Finset.sum_range_succ']
  simp only [member]
  rw [add_comm (cn i) 1]
  ring

/-- Σ_m |Q_lm(i)|² is the mean of Γ over the members of the average -/
theorem sumSq_Qlm_gram (L : ℕ) (cn : ℕ → ℕ) (nb : ℕ → ℕ → ℕ) (q : ℕ → ℕ → ℂ) (i : ℕ) :
    ((sumSq cOps L (QlmImpl cn nb q i) : ℝ) : ℂ)
      = (∑ a ∈ range (1 + cn i), ∑ b ∈ range (1 + cn i), gram L q (member nb i a) (member nb i b))
          / (((1 + cn i : ℕ) : ℂ) * ((1 + cn i : ℕ) : ℂ)) := by
  rw [sumSq_eq_gram L (fun p => QlmImpl cn nb q p) i]
  unfold gram
  simp only [Qlm_as_mean]
  exact mean_kernel L (1 + cn i) (1 + cn i) (fun a k => q (member nb i a) k) (fun a k => q (member nb i a) k) _
    (fun a _ b _ => rfl)

end Pms.Boo
