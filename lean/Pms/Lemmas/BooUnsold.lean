import Pms.Lemmas.BooSph
import Mathlib.Analysis.SpecialFunctions.Exponential
import Mathlib.Algebra.BigOperators.Intervals
import Mathlib.Algebra.BigOperators.Field

/-!
Unsöld's identity for the C08 spherical harmonics, l ≤ 12:  Σ_{m=−l}^{l} |Y_lm(θ, φ)|² = (2l+1)/(4π).
Bridge from the decided polynomial identity `C08_unsold_poly` (`unsoldPoly l = [(2l+1)/4]`) to the complex values.
-/
open Finset
namespace Pms.Boo
open Pms.Sph

/-- evaluation of a rational coefficient list at a real point -/
noncomputable def ev (x : ℝ) (p : List Rat) : ℝ := polyEval (castPoly p) x

theorem ev_nil (x : ℝ) : ev x [] = 0 := rfl

theorem ev_cons (x : ℝ) (a : Rat) (p : List Rat) : ev x (a :: p) = (a : ℝ) + x * ev x p := rfl

theorem ev_padd (x : ℝ) (p q : List Rat) : ev x (padd p q) = ev x p + ev x q := by
  induction p generalizing q with
  | nil => simp [padd, ev_nil]
  | cons a p ih =>
    cases q with
    | nil => simp [padd, ev_nil]
    | cons b q =>
      simp only [padd, ev_cons, ih]
      push_cast; ring

theorem ev_pscale (x : ℝ) (t : Rat) (p : List Rat) : ev x (pscale t p) = (t : ℝ) * ev x p :=
  polyEval_scale t p x

theorem ev_pmul (x : ℝ) (p q : List Rat) : ev x (pmul p q) = ev x p * ev x q := by
  induction p with
  | nil => simp [pmul, ev_nil]
  | cons a p ih =>
    simp only [pmul, ev_padd, ev_pscale, ev_cons, ih]
    push_cast; ring

theorem ev_ppow (x : ℝ) (p : List Rat) (n : ℕ) : ev x (ppow p n) = ev x p ^ n := by
  induction n with
  | zero => simp [ppow, ev_cons, ev_nil]
  | succ n ih => simp only [ppow, ev_pmul, ih]; ring

theorem ev_append_zero (x : ℝ) (p : List Rat) : ev x (p ++ [0]) = ev x p := by
  induction p with
  | nil => simp [ev_cons, ev_nil]
  | cons a p ih => simp only [List.cons_append, ev_cons, ih]

theorem ev_trim (x : ℝ) (p : List Rat) : ev x (trim p) = ev x p := by
  unfold trim
  induction p using List.reverseRecOn with
  | nil => rfl
  | append_singleton p a ih =>
    rw [List.reverse_append, List.reverse_singleton, List.singleton_append]
    by_cases h : a = 0
    · subst h
      rw [List.dropWhile_cons_of_pos (by simp), ih, ev_append_zero]
    · rw [List.dropWhile_cons_of_neg (by simpa using h)]
      simp

theorem ev_foldl (x : ℝ) (g : ℕ → List Rat) (ks : List ℕ) (acc : List Rat) :
    ev x (ks.foldl (fun acc k => padd acc (g k)) acc) = ev x acc + (ks.map fun k => ev x (g k)).sum := by
  induction ks generalizing acc with
  | nil => simp
  | cons k ks ih => simp only [List.foldl_cons, ih, ev_padd, List.map_cons, List.sum_cons]; ring

theorem list_range_sum (n : ℕ) (g : ℕ → ℝ) : ((List.range n).map g).sum = ∑ k ∈ range n, g k := by
  induction n with
  | zero => simp
  | succ n ih => rw [List.range_succ, List.map_append, List.sum_append, ih, Finset.sum_range_succ]; simp

/-- the value of `unsoldPoly l` at x: Σ_{k ≤ l} N_{l,k}·(1 or 2)·(1−x²)^k·(D^kP_l(x))² -/
theorem ev_unsoldPoly (x : ℝ) (l : ℕ) :
    ev x (unsoldPoly l) = ∑ k ∈ range (l + 1),
      ((normSq l k : ℚ) : ℝ) * (if k = 0 then 1 else 2) * (1 - x ^ 2) ^ k * (ev x (legendreD l k)) ^ 2 := by
  unfold unsoldPoly
  rw [ev_trim, ev_foldl, ev_nil, zero_add, list_range_sum]
  apply Finset.sum_congr rfl
  intro k _
  rw [ev_pscale, ev_pmul, ev_pmul, ev_ppow]
  have h1 : ev x [1, 0, -1] = 1 - x ^ 2 := by
    simp only [ev_cons, ev_nil]; push_cast; ring
  rw [h1]
  by_cases hk : k = 0
  · subst hk; simp only [↓reduceIte]; push_cast; ring
  · simp only [hk, ↓reduceIte]; push_cast; ring

theorem normSq_nonneg' (l k : ℕ) : (0 : ℝ) ≤ ((normSq l k : ℚ) : ℝ) := by
  have : (0 : ℚ) ≤ normSq l k := by unfold normSq; positivity
  exact_mod_cast this

/-- |Y_lm|² = N_{l,|m|}/π · (sin²θ)^{|m|} · (D^{|m|}P_l(cos θ))² -/
theorem normSq_Y (l : ℕ) (m : ℤ) (θ φ : ℝ) :
    Complex.normSq (Y l m θ φ)
      = ((normSq l m.natAbs : ℚ) : ℝ) / Real.pi * (Real.sin θ ^ 2) ^ m.natAbs * (ev (Real.cos θ) (legendreD l m.natAbs)) ^ 2 := by
  unfold Y ev
  have hE : Complex.normSq (Complex.exp ((m : ℂ) * φ * Complex.I)) = 1 := by
    rw [Complex.normSq_eq_norm_sq]
    have : (m : ℂ) * φ * Complex.I = (((m : ℝ) * φ : ℝ) : ℂ) * Complex.I := by push_cast; ring
    rw [this, Complex.norm_exp_ofReal_mul_I]; norm_num
  have hs : Complex.normSq ((sgn m : ℚ) : ℂ) = 1 := by
    have h := sgn_sq m
    have : ((sgn m : ℚ) : ℂ) = (((sgn m : ℚ) : ℝ) : ℂ) := by push_cast; rfl
    rw [this, Complex.normSq_ofReal]
    exact_mod_cast h
  have hR : Complex.normSq ((Real.sqrt (((normSq l m.natAbs : ℚ) : ℝ) / Real.pi) : ℝ) : ℂ)
      = ((normSq l m.natAbs : ℚ) : ℝ) / Real.pi := by
    rw [Complex.normSq_ofReal, Real.mul_self_sqrt]
    exact div_nonneg (normSq_nonneg' l _) Real.pi_pos.le
  rw [map_mul, map_mul, map_mul, map_mul, hs, hR, hE, map_pow, Complex.normSq_ofReal, Complex.normSq_ofReal]
  ring

/-- Σ_{j<2l+1} g|j−l| = Σ_{k≤l} (1 or 2)·g k -/
theorem sum_symm (l : ℕ) (g : ℕ → ℝ) :
    ∑ j ∈ range (2 * l + 1), g ((j : ℤ) - l).natAbs = ∑ k ∈ range (l + 1), (if k = 0 then 1 else 2) * g k := by
  have e : 2 * l + 1 = (l + 1) + l := by ring
  rw [e, Finset.sum_range_add]
  have h1 : ∑ j ∈ range (l + 1), g ((j : ℤ) - l).natAbs = ∑ k ∈ range (l + 1), g k := by
    rw [← Finset.sum_range_reflect]
    apply Finset.sum_congr rfl
    intro j hj
    have := Finset.mem_range.1 hj
    congr 1
    omega
  have h2 : ∑ i ∈ range l, g (((l + 1 + i : ℕ) : ℤ) - l).natAbs = ∑ i ∈ range l, g (i + 1) := by
    apply Finset.sum_congr rfl
    intro i _
    congr 1
    omega
  rw [h1, h2, Finset.sum_range_succ' (fun k => g k), Finset.sum_range_succ' (fun k => (if k = 0 then 1 else 2) * g k)]
  simp only [Nat.add_eq_zero_iff, one_ne_zero, and_false, if_false, if_true]
  rw [← Finset.mul_sum]
  ring

/-- **Unsöld's identity** for the C08 spherical harmonics of degree l ≤ 12, all angles -/
theorem unsold_Y (l : ℕ) (hl : l ∈ List.range 13) (θ φ : ℝ) :
    ∑ k ∈ range (2 * l + 1), Complex.normSq (Y l ((k : ℤ) - l) θ φ) = (2 * l + 1) / (4 * Real.pi) := by
  have hpoly := C08_unsold_poly l hl
  have hev := ev_unsoldPoly (Real.cos θ) l
  rw [hpoly, ev_cons, ev_nil, mul_zero, add_zero] at hev
  have hsin : Real.sin θ ^ 2 = 1 - Real.cos θ ^ 2 := Real.sin_sq θ
  simp only [normSq_Y]
  rw [sum_symm l (fun a => ((normSq l a : ℚ) : ℝ) / Real.pi * (Real.sin θ ^ 2) ^ a * (ev (Real.cos θ) (legendreD l a)) ^ 2)]
  have hpi := Real.pi_pos
  have : ∑ k ∈ range (l + 1), (if k = 0 then (1 : ℝ) else 2) *
        (((normSq l k : ℚ) : ℝ) / Real.pi * (Real.sin θ ^ 2) ^ k * (ev (Real.cos θ) (legendreD l k)) ^ 2)
      = (∑ k ∈ range (l + 1), ((normSq l k : ℚ) : ℝ) * (if k = 0 then 1 else 2) * (1 - Real.cos θ ^ 2) ^ k
          * (ev (Real.cos θ) (legendreD l k)) ^ 2) / Real.pi := by
    rw [Finset.sum_div]
    apply Finset.sum_congr rfl
    intro k _
    rw [hsin]; field_simp
  rw [this, ← hev]
  push_cast
  field_simp

end Pms.Boo
