import Pms.Model.Dyn
import Pms.Lemmas.Basic
import Pms.Lemmas.Pbc
import Mathlib.Algebra.BigOperators.Intervals
import Mathlib.Algebra.Order.Field.Basic
import Mathlib.Tactic.Ring
import Mathlib.Tactic.Linarith
import Mathlib.Tactic.FieldSimp
import Mathlib.Tactic.NormNum

/-! Helper lemmas for C06 (`Pms.Dyn`). -/
open Finset
namespace Pms.Dyn
open Pms Pms.Gen.Dyn

theorem Tab2.get_tab {α : Type} (n m : ℕ) (f : ℕ → ℕ → α) (i j : ℕ) : (Tab2.tab n m f).get i j = f i j := by
  unfold Tab2.get Tab2.tab
  split
  · split
    · simp
    · rfl
  · rfl

theorem Tab2.get_tab' {α : Type} (n m : ℕ) (f : ℕ → ℕ → α) : (Tab2.tab n m f).get = f := by
  funext i j; exact Tab2.get_tab n m f i j

/-- after the double loop, slot `k` holds the sum over all origins `o` with `k + o < T` -/
theorem originLoop_eq_range {M : Type} [AddCommMonoid M] (T : ℕ) (F : ℕ → ℕ → M) (k : ℕ) :
    originLoop T F (fun _ => 0) k = ∑ o ∈ range (T - k), F (k + o) k := by
  rw [originLoop_eq]
  have : (range T).filter (fun n => k ≤ n) = Ico k T := by
    ext n; simp only [mem_filter, mem_range, mem_Ico]; omega
  rw [this, Finset.sum_Ico_eq_sum_range]

theorem updF_eq {M : Type} [Add M] (acc : ℕ → M) (k : ℕ) (v : Unit → M) : updF acc k v = upd acc k (v ()) := rfl

/-- the regenerated double loop of `Dynamics.relaxation` written as `originLoop` -/
theorem relLoop_eq_originLoop {M : Type} [AddCommMonoid M] (T : ℕ) (idx : ℕ → ℕ → ℕ) (F : ℕ → ℕ → M)
    (hidx : ∀ n nn, idx (1 + n) (1 + nn) = nn) :
    Impl.relLoop T idx F = originLoop (T - 1) (fun n nn => F (1 + n) (1 + nn)) (fun _ => 0) := by
  unfold Impl.relLoop forRange originLoop relOuterLo relOuterHi relInnerLo relInnerHi
  congr 1
  funext acc n
  beta_reduce
  have h : 1 + n + 1 - 1 = n + 1 := by omega
  rw [h]
  congr 1
  funext acc nn
  rw [updF_eq, hidx]

theorem relLoop_eq {M : Type} [AddCommMonoid M] (T : ℕ) (F : ℕ → ℕ → M) (k : ℕ) :
    Impl.relLoop T relIndex F k = ∑ o ∈ range (T - (k + 1)), F (o + (k + 1)) (k + 1) := by
  rw [relLoop_eq_originLoop T relIndex F (by intro n nn; simp [relIndex]), originLoop_eq_range]
  have : T - 1 - k = T - (k + 1) := by omega
  rw [this]
  refine Finset.sum_congr rfl fun o _ => ?_
  have : 1 + (k + o) = o + (k + 1) := by omega
  rw [this, Nat.add_comm 1 k]

theorem relCount_eq {K : Type} [Field K] (T k : ℕ) :
    Impl.relLoop T relCountIndex (fun _ _ => (1 : K)) k = ((T - (k + 1) : ℕ) : K) := by
  rw [relLoop_eq_originLoop T relCountIndex _ (by intro n nn; simp [relCountIndex]), originLoop_eq_range]
  have : T - 1 - k = T - (k + 1) := by omega
  simp [this]

theorem relFr_spec (o k : ℕ) : Impl.relFr (o + (k + 1)) (k + 1) = Fr.spec o (o + (k + 1)) := by
  simp [Impl.relFr, Fr.spec, relInit, relEnd, relHmat, relNeigh, relCond]

theorem relCond_spec (o k : ℕ) : relCond (o + (k + 1)) (k + 1) = o := by simp [relCond]

/-- accumulate-then-divide of the regenerated loops = mean over all time origins at lag k+1 -/
theorem avg_of_loop {K : Type} [Field K] (T k : ℕ) (G : Fr → ℕ → K) :
    Impl.relLoop T relIndex (fun n nn => G (Impl.relFr n nn) (relCond n nn)) k
        / Impl.relLoop T relCountIndex (fun _ _ => (1 : K)) k
      = Spec.avg T (k + 1) (fun o e => G (Fr.spec o e) o) := by
  rw [relLoop_eq, relCount_eq]
  unfold Spec.avg
  rw [sumRange_eq]
  simp only [relFr_spec, relCond_spec]

end Pms.Dyn
