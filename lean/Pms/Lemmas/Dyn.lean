import Pms.Model.Dyn
import Pms.Lemmas.Basic
import Pms.Lemmas.Pbc
import Pms.Lemmas.Rint
import Mathlib.Algebra.BigOperators.Intervals
import Mathlib.Algebra.Order.Field.Basic
import Mathlib.Tactic.Ring
import Mathlib.Tactic.Linarith
import Mathlib.Tactic.FieldSimp
import Mathlib.Tactic.NormNum
import Mathlib.Algebra.Order.Ring.Abs

/-! Helper lemmas for C06 (`Pms.Dyn`). -/
open Finset
set_option linter.unusedSectionVars false
namespace Pms.Dyn
open Pms Pms.Gen.Dyn

theorem Tab2.get_tab {α : Type} (n m : ℕ) (f : ℕ → ℕ → α) (i j : ℕ) : (Tab2.tab n m f).get i j = f i j := by
  unfold Tab2.get Tab2.tab
  split
  · split
    · simp
    · rfl
  · rfl

theorem Tab2.get_tab' {α : Type} (n m : ℕ) (f : ℕ → ℕ → α) : (Tab2.tab n m f).get = f := by
  funext i j; exact Tab2.get_tab n m f i j

/-- after the double loop, slot `k` holds the sum over all origins `o` with `k + o < T` -/
theorem originLoop_eq_range {M : Type} [AddCommMonoid M] (T : ℕ) (F : ℕ → ℕ → M) (k : ℕ) :
    originLoop T F (fun _ => 0) k = ∑ o ∈ range (T - k), F (k + o) k := by
  rw [originLoop_eq]
  have : (range T).filter (fun n => k ≤ n) = Ico k T := by
    ext n; simp only [mem_filter, mem_range, mem_Ico]; omega
  rw [this, Finset.sum_Ico_eq_sum_range]

theorem updF_eq {M : Type} [Add M] (acc : ℕ → M) (k : ℕ) (v : Unit → M) : updF acc k v = upd acc k (v ()) := rfl

/-- the regenerated double loop of `Dynamics.relaxation` written as `originLoop` -/
theorem relLoop_eq_originLoop {M : Type} [AddCommMonoid M] (T : ℕ) (idx : ℕ → ℕ → ℕ) (F : ℕ → ℕ → M)
    (hidx : ∀ n nn, idx (1 + n) (1 + nn) = nn) :
    Impl.relLoop T idx F = originLoop (T - 1) (fun n nn => F (1 + n) (1 + nn)) (fun _ => 0) := by
  unfold Impl.relLoop forRange originLoop relOuterLo relOuterHi relInnerLo relInnerHi
  congr 1
  funext acc n
  beta_reduce
  have h : 1 + n + 1 - 1 = n + 1 := by omega
  rw [h]
  congr 1
  funext acc nn
  rw [updF_eq, hidx]

theorem relLoop_eq {M : Type} [AddCommMonoid M] (T : ℕ) (F : ℕ → ℕ → M) (k : ℕ) :
    Impl.relLoop T relIndex F k = ∑ o ∈ range (T - (k + 1)), F (o + (k + 1)) (k + 1) := by
  rw [relLoop_eq_originLoop T relIndex F (by intro n nn; simp [relIndex]), originLoop_eq_range]
  have : T - 1 - k = T - (k + 1) := by omega
  rw [this]
  refine Finset.sum_congr rfl fun o _ => ?_
  have : 1 + (k + o) = o + (k + 1) := by omega
  rw [this, Nat.add_comm 1 k]

theorem relCount_eq {K : Type} [Field K] (T k : ℕ) :
    Impl.relLoop T relCountIndex (fun _ _ => (1 : K)) k = ((T - (k + 1) : ℕ) : K) := by
  rw [relLoop_eq_originLoop T relCountIndex _ (by intro n nn; simp [relCountIndex]), originLoop_eq_range]
  have : T - 1 - k = T - (k + 1) := by omega
  simp [this]

theorem relFr_spec (o k : ℕ) : Impl.relFr (o + (k + 1)) (k + 1) = Fr.spec o (o + (k + 1)) := by
  simp [Impl.relFr, Fr.spec, relInit, relEnd, relHmat, relNeigh, relCond]

theorem relCond_spec (o k : ℕ) : relCond (o + (k + 1)) (k + 1) = o := by simp [relCond]

/-- accumulate-then-divide of the regenerated loops = mean over all time origins at lag k+1 -/
theorem avg_of_loop {K : Type} [Field K] (T k : ℕ) (G : Fr → ℕ → K) :
    Impl.relLoop T relIndex (fun n nn => G (Impl.relFr n nn) (relCond n nn)) k
        / Impl.relLoop T relCountIndex (fun _ _ => (1 : K)) k
      = Spec.avg T (k + 1) (fun o e => G (Fr.spec o e) o) := by
  rw [relLoop_eq, relCount_eq]
  unfold Spec.avg
  rw [sumRange_eq]
  simp only [relFr_spec, relCond_spec]

theorem logLoop_aux {M : Type} [Zero M] (m : ℕ) (F : ℕ → M) (k : ℕ) :
    foldRange m (fun s j => Pms.set s (1 + j - 1) (F (1 + j))) (fun _ => (0 : M)) k
      = if k < m then F (1 + k) else 0 := by
  induction m with
  | zero => simp [foldRange]
  | succ m ih =>
    rw [foldRange_succ]
    show (if k = 1 + m - 1 then F (1 + m)
      else foldRange m (fun s j => Pms.set s (1 + j - 1) (F (1 + j))) (fun _ => (0 : M)) k) = _
    by_cases h : k = 1 + m - 1
    · have hk : k = m := by omega
      subst hk; simp
    · have hk : k ≠ m := by omega
      have h3 : (k < m + 1) ↔ k < m := by omega
      rw [if_neg h, ih]; simp [h3]

/-- the regenerated single loop of `LogDynamics.relaxation`: slot k holds the value for end frame k+1 -/
theorem logLoop_eq {M : Type} [Zero M] (T : ℕ) (F : ℕ → M) (k : ℕ) (hk : k + 1 < T) :
    Impl.logLoop T F k = F (k + 1) := by
  unfold Impl.logLoop forRange logLo logHi logIndex
  rw [logLoop_aux]
  have : k < T - 1 := by omega
  rw [if_pos this, Nat.add_comm]

theorem lsum_eq {M : Type} [AddCommMonoid M] (l : List ℕ) (f : ℕ → M) : lsum l f = (l.map f).sum := by
  induction l with
  | nil => simp [lsum]
  | cons a l ih => simp only [lsum, List.foldr_cons, List.map_cons, List.sum_cons] at ih ⊢; rw [ih]

theorem logFr_spec (n : ℕ) : Impl.logFr n = Fr.spec 0 n := rfl

theorem foldAdd_eq {M : Type} [AddCommMonoid M] (m : ℕ) (S : ℕ → M) :
    foldRange m (fun acc j => acc + S (0 + j)) 0 = ∑ n ∈ range m, S n := by
  induction m with
  | zero => simp [foldRange]
  | succ m ih => rw [foldRange_succ, ih, Finset.sum_range_succ, Nat.zero_add]

/-- `ave_sqresults = 0; for n in range(T - n_t): ave_sqresults += S n` -/
theorem sq4Sum_eq {M : Type} [AddCommMonoid M] (T nt : ℕ) (S : ℕ → M) :
    Impl.sq4Sum T nt S = ∑ n ∈ range (T - nt), S n := by
  unfold Impl.sq4Sum forRange sq4Lo sq4Hi
  rw [Nat.sub_zero, foldAdd_eq]

theorem sq4Fr_spec (n nt : ℕ) : Impl.sq4Fr n nt = Fr.spec n (n + nt) := rfl

/-! ### wrapped vs unwrapped -/
section wrapped
open Pms.Pbc
variable {K : Type} [Field K] [LinearOrder K] [IsStrictOrderedRing K]

theorem noTie_of_lt_half (x : K) (h : |x| < 1/2) : NoTie x := by
  intro n hn
  by_cases hn0 : n = 0
  · subst hn0; simp at hn; linarith
  · have h1 : (1 : K) ≤ |(n : K)| := by
      have : (1 : ℤ) ≤ |n| := Int.one_le_abs hn0
      have : ((1 : ℤ) : K) ≤ ((|n| : ℤ) : K) := by exact_mod_cast this
      simpa using this
    have h2 := abs_sub_abs_le_abs_sub (n : K) x
    rw [abs_sub_comm] at h2
    linarith

/-- minimum image of (true displacement + a lattice vector on periodic axes) is the true displacement
whenever the true displacement is strictly inside the half cell on every periodic axis -/
theorem removePbc_wrapped (d : ℕ) (rint : K → ℤ) (hr : IsRintHE rint) (H Hinv : ℕ → ℕ → K) (ppp r : ℕ → K)
    (m : ℕ → ℤ) (hinv : IsInv d H Hinv) (hinv' : IsInv d Hinv H) (hp : ∀ i < d, ppp i = 0 ∨ ppp i = 1)
    (hhalf : ∀ i < d, ppp i = 1 → |frac d Hinv r i| < 1/2) (k : ℕ) (hk : k < d) :
    removePbc d rint H Hinv ppp (fun k => r k + vecMul d (fun i => (m i : K) * ppp i) H k) k = r k := by
  unfold removePbc
  have hf : ∀ i < d, vecMul d (fun k => r k + vecMul d (fun i => (m i : K) * ppp i) H k) Hinv i
      = vecMul d r Hinv i + (m i : K) * ppp i := by
    intro i hi; rw [vecMul_add, vecMul_inv d _ H Hinv hinv i hi]
  rw [← vecMul_inv d r Hinv H hinv' k hk]
  apply vecMul_congr
  intro i hi
  rw [hf i hi]
  rcases hp i hi with h0 | h1
  · rw [h0]; simp
  · have hh := hhalf i hi h1
    unfold frac at hh
    have hz : rint (vecMul d r Hinv i) = 0 := hr.zero _ (le_of_lt hh)
    have hnt := noTie_of_lt_half _ hh
    rw [h1, mul_one, hr.add_int _ hnt (m i), hz]; push_cast; ring

theorem vecMul_sub (d : ℕ) (u v : ℕ → K) (M : ℕ → ℕ → K) (k : ℕ) :
    vecMul d (fun i => u i - v i) M k = vecMul d u M k - vecMul d v M k := by
  simp only [vecMul, sumRange_eq, ← Finset.sum_sub_distrib]
  exact Finset.sum_congr rfl fun i _ => by ring

end wrapped

/-! ### congruence: the per-pair quantities read the displacement array only below (N, d) … in fact
only the axes k < d (rows are summed under the mask) -/
section congr
variable {K : Type} [Field K] [LinearOrder K]

theorem dist2_congr (d : ℕ) (D D' : ℕ → ℕ → K) (h : ∀ i, ∀ k < d, D i k = D' i k) (i : ℕ) :
    dist2 d D i = dist2 d D' i := by
  unfold dist2; rw [sumRange_eq, sumRange_eq]
  exact Finset.sum_congr rfl fun k hk => by rw [h i k (Finset.mem_range.mp hk)]

theorem pair_congr (cos : K → K) (cmp : K → K → Bool) (X : Traj K) (D D' : ℕ → ℕ → K)
    (h : ∀ i, ∀ k < X.d, D i k = D' i k) (f : ℕ) :
    pairIsf cos X D f = pairIsf cos X D' f ∧ pairQ cmp X D f = pairQ cmp X D' f ∧
    pairR2 X D f = pairR2 X D' f ∧ pairR4 X D f = pairR4 X D' f := by
  have hd := dist2_congr X.d D D' h
  refine ⟨?_, ?_, ?_, ?_⟩
  · unfold pairIsf
    congr 1
    rw [sumRange_eq, sumRange_eq]
    refine Finset.sum_congr rfl fun i _ => ?_
    split
    · rw [sumRange_eq, sumRange_eq]
      exact Finset.sum_congr rfl fun k hk => by rw [h i k (Finset.mem_range.mp hk)]
    · rfl
  · unfold pairQ selMean; simp only [hd]
  · unfold pairR2 selMean; simp only [hd]
  · unfold pairR4 selMean; simp only [hd]

theorem cageRel_congr (d : ℕ) (U U' : ℕ → ℕ → K) (nbs : ℕ → List ℕ) (h : ∀ i, ∀ k < d, U i k = U' i k)
    (i k : ℕ) (hk : k < d) : cageRel U nbs i k = cageRel U' nbs i k := by
  unfold cageRel
  rw [h i k hk, lsum_eq, lsum_eq]
  congr 3
  exact List.map_congr_left fun j _ => h j k hk

end congr

end Pms.Dyn
