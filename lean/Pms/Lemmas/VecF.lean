import Pms.Lemmas.Vec
import Mathlib.Data.Complex.Basic
import Mathlib.Data.Complex.BigOperators
import Mathlib.Analysis.Complex.Exponential

/-! The ℝ/ℂ instantiation of the Fourier primitives of `Pms/Model/Vec.lean` and `specOf` as a sum of `normSq`. -/
open Finset Complex ComplexConjugate
namespace Pms.Vec
open Pms

/-- `np.exp(-1j * θ)` -/
noncomputable def expNegI (θ : ℝ) : ℂ := Complex.exp (-(Complex.I * (θ : ℂ)))

/-- complex conjugation as a plain function (the `conj` parameter of the model) -/
noncomputable def cconj (z : ℂ) : ℂ := conj z

/-- `(X * conj X).sum().real = Σ_k |X_k|²` -/
theorem specOf_eq (d : ℕ) (X : ℕ → ℂ) :
    specOf cconj Complex.re d X = ∑ k ∈ range d, Complex.normSq (X k) := by
  unfold specOf cconj
  rw [sumRange_eq, Complex.re_sum]
  refine Finset.sum_congr rfl fun k _ => ?_
  rw [Complex.mul_conj, Complex.ofReal_re]

end Pms.Vec
