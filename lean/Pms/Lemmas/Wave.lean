import Pms.Model.Wave
import Mathlib.Data.Nat.Sqrt
import Mathlib.Data.List.Nodup
import Mathlib.Data.List.Forall2
import Mathlib.Data.List.Range
import Mathlib.Tactic.Ring
import Mathlib.Tactic.Linarith

/-! Helper lemmas for the default wave-vector set (C04): the loop nest as a set of tuples, no repetition. -/
namespace Pms.Wave

theorem mem_intRange {lo hi x : ℤ} : x ∈ intRange lo hi ↔ lo ≤ x ∧ x < hi := by
  unfold intRange
  simp only [List.mem_map, List.mem_range]
  constructor
  · rintro ⟨k, hk, rfl⟩; omega
  · intro h; exact ⟨(x - lo).toNat, by omega, by omega⟩

theorem nodup_intRange (lo hi : ℤ) : (intRange lo hi).Nodup := by
  unfold intRange
  refine List.Nodup.map ?_ List.nodup_range
  intro a b h
  simp only at h
  omega

/-- the loop nest visits exactly the tuples within the bounds -/
theorem mem_tuples (h : ℤ) (loops : List (Bnd × Bnd)) (t : List ℤ) :
    t ∈ tuples h loops ↔ List.Forall₂ (fun (l : Bnd × Bnd) x => l.1.val h ≤ x ∧ x < l.2.val h) loops t := by
  induction loops generalizing t with
  | nil => simp [tuples, List.forall₂_nil_left_iff]
  | cons l rest ih =>
    obtain ⟨lo, hi⟩ := l
    simp only [tuples, List.mem_flatMap, List.mem_map, mem_intRange, List.forall₂_cons_left_iff]
    constructor
    · rintro ⟨x, hx, t', ht', rfl⟩
      exact ⟨x, t', hx, (ih t').1 ht', rfl⟩
    · rintro ⟨x, t', hx, ht', rfl⟩
      exact ⟨x, hx, t', (ih t').2 ht', rfl⟩

/-- …each of them once -/
theorem nodup_tuples (h : ℤ) (loops : List (Bnd × Bnd)) : (tuples h loops).Nodup := by
  induction loops with
  | nil => simp [tuples]
  | cons l rest ih =>
    obtain ⟨lo, hi⟩ := l
    simp only [tuples]
    rw [List.nodup_flatMap]
    refine ⟨fun x _ => ih.map (fun a b hab => by simpa using hab), ?_⟩
    refine List.Pairwise.imp_of_mem ?_ (nodup_intRange _ _)
    intro a b _ _ hab
    simp only [Function.onFun, List.disjoint_left, List.mem_map]
    rintro t ⟨t1, _, rfl⟩ ⟨t2, _, h2⟩
    simp only [List.cons.injEq] at h2
    exact hab h2.1.symm

theorem isSq_iff (n : ℕ) : isSq n = true ↔ ∃ r : ℕ, r * r = n := by
  unfold isSq
  rw [beq_iff_eq, Nat.exists_mul_self]

/-- the documented loop nest in d dimensions: every variable runs over `range(-nhalf, nhalf)` -/
def std2 : Branch :=
  { ndim := 2, loops := [(Bnd.neg, Bnd.pos), (Bnd.neg, Bnd.pos)], squares := [0, 1], row := [0, 1],
    filters := [("x", [(0, Cmp.gt0), (1, Cmp.eq0)]), ("y", [(0, Cmp.eq0), (1, Cmp.gt0)])] }

def std3 : Branch :=
  { ndim := 3, loops := [(Bnd.neg, Bnd.pos), (Bnd.neg, Bnd.pos), (Bnd.neg, Bnd.pos)], squares := [0, 1, 2], row := [0, 1, 2],
    filters := [("x", [(0, Cmp.gt0), (1, Cmp.eq0), (2, Cmp.eq0)]), ("y", [(0, Cmp.eq0), (1, Cmp.gt0), (2, Cmp.eq0)]),
                ("z", [(0, Cmp.eq0), (1, Cmp.eq0), (2, Cmp.gt0)])] }

theorem mem_rows2 (h : ℤ) (v : List ℤ) :
    v ∈ std2.rows h ↔ ∃ x y : ℤ, v = [x, y] ∧ (-h ≤ x ∧ x < h) ∧ (-h ≤ y ∧ y < h) ∧ ∃ r : ℕ, (r : ℤ) * r = x * x + y * y := by
  unfold Branch.rows
  simp only [List.mem_map, List.mem_filter, mem_tuples, isSq_iff]
  constructor
  · rintro ⟨t, ⟨ht, r, hr⟩, rfl⟩
    simp only [std2, List.forall₂_cons_left_iff, List.forall₂_nil_left_iff, Bnd.val] at ht
    obtain ⟨x, t1, hx, ⟨y, t2, hy, rfl, rfl⟩, rfl⟩ := ht
    refine ⟨x, y, by simp [std2], hx, hy, r, ?_⟩
    simp only [std2, sumSquares, List.foldl, List.getD_cons_zero, List.getD_cons_succ] at hr
    have hnn : (0 : ℤ) ≤ 0 + x * x + y * y := by nlinarith [mul_self_nonneg x, mul_self_nonneg y]
    have := Int.toNat_of_nonneg hnn
    push_cast [← hr] at this
    linarith
  · rintro ⟨x, y, rfl, hx, hy, r, hr⟩
    refine ⟨[x, y], ⟨?_, r, ?_⟩, by simp [std2]⟩
    · simp only [std2, List.forall₂_cons_left_iff, List.forall₂_nil_left_iff, Bnd.val]
      exact ⟨x, [y], hx, ⟨y, [], hy, rfl, rfl⟩, rfl⟩
    · simp only [std2, sumSquares, List.foldl, List.getD_cons_zero, List.getD_cons_succ]
      have : (0 : ℤ) + x * x + y * y = ((r * r : ℕ) : ℤ) := by push_cast; linarith
      rw [this, Int.toNat_natCast]

theorem mem_rows3 (h : ℤ) (v : List ℤ) :
    v ∈ std3.rows h ↔ ∃ x y z : ℤ, v = [x, y, z] ∧ (-h ≤ x ∧ x < h) ∧ (-h ≤ y ∧ y < h) ∧ (-h ≤ z ∧ z < h) ∧
      ∃ r : ℕ, (r : ℤ) * r = x * x + y * y + z * z := by
  unfold Branch.rows
  simp only [List.mem_map, List.mem_filter, mem_tuples, isSq_iff]
  constructor
  · rintro ⟨t, ⟨ht, r, hr⟩, rfl⟩
    simp only [std3, List.forall₂_cons_left_iff, List.forall₂_nil_left_iff, Bnd.val] at ht
    obtain ⟨x, t1, hx, ⟨y, t2, hy, ⟨z, t3, hz, rfl, rfl⟩, rfl⟩, rfl⟩ := ht
    refine ⟨x, y, z, by simp [std3], hx, hy, hz, r, ?_⟩
    simp only [std3, sumSquares, List.foldl, List.getD_cons_zero, List.getD_cons_succ] at hr
    have hnn : (0 : ℤ) ≤ 0 + x * x + y * y + z * z := by nlinarith [mul_self_nonneg x, mul_self_nonneg y, mul_self_nonneg z]
    have := Int.toNat_of_nonneg hnn
    push_cast [← hr] at this
    linarith
  · rintro ⟨x, y, z, rfl, hx, hy, hz, r, hr⟩
    refine ⟨[x, y, z], ⟨?_, r, ?_⟩, by simp [std3]⟩
    · simp only [std3, List.forall₂_cons_left_iff, List.forall₂_nil_left_iff, Bnd.val]
      exact ⟨x, [y, z], hx, ⟨y, [z], hy, ⟨z, [], hz, rfl, rfl⟩, rfl⟩, rfl⟩
    · simp only [std3, sumSquares, List.foldl, List.getD_cons_zero, List.getD_cons_succ]
      have : (0 : ℤ) + x * x + y * y + z * z = ((r * r : ℕ) : ℤ) := by push_cast; linarith
      rw [this, Int.toNat_natCast]

/-- rows are written in loop order without repetition (the row layout is the identity on the loop variables) -/
theorem nodup_rows2 (h : ℤ) : (std2.rows h).Nodup := by
  unfold Branch.rows
  have : ∀ t ∈ (tuples h std2.loops).filter (fun t => isSq (sumSquares std2.squares t)),
      (std2.row.map fun j => t.getD j 0) = id t := by
    intro t ht
    have ht := (mem_tuples _ _ _).1 (List.mem_filter.1 ht).1
    simp only [std2, List.forall₂_cons_left_iff, List.forall₂_nil_left_iff] at ht
    obtain ⟨x, t1, _, ⟨y, t2, _, rfl, rfl⟩, rfl⟩ := ht
    simp [std2]
  rw [List.map_congr_left this, List.map_id]
  exact (nodup_tuples _ _).filter _

theorem nodup_rows3 (h : ℤ) : (std3.rows h).Nodup := by
  unfold Branch.rows
  have : ∀ t ∈ (tuples h std3.loops).filter (fun t => isSq (sumSquares std3.squares t)),
      (std3.row.map fun j => t.getD j 0) = id t := by
    intro t ht
    have ht := (mem_tuples _ _ _).1 (List.mem_filter.1 ht).1
    simp only [std3, List.forall₂_cons_left_iff, List.forall₂_nil_left_iff] at ht
    obtain ⟨x, t1, _, ⟨y, t2, _, ⟨z, t3, _, rfl, rfl⟩, rfl⟩, rfl⟩ := ht
    simp [std3]
  rw [List.map_congr_left this, List.map_id]
  exact (nodup_tuples _ _).filter _

/-- the `onlypositive` option in 2-D as the code treats it: True → both components ≥ 0; 'x' → (x>0, 0); 'y' → (0, y>0);
any other string (including 'z') → no restriction -/
def posOK2 : Pos → ℤ → ℤ → Prop
  | .no, _, _ => True
  | .yes, x, y => 0 ≤ x ∧ 0 ≤ y
  | .axis s, x, y => if s = "x" then 0 < x ∧ y = 0 else if s = "y" then x = 0 ∧ 0 < y else True

/-- 3-D: 'x' → (x>0,0,0); 'y' → (0,y>0,0); 'z' → (0,0,z>0); any other string → no restriction -/
def posOK3 : Pos → ℤ → ℤ → ℤ → Prop
  | .no, _, _, _ => True
  | .yes, x, y, z => 0 ≤ x ∧ 0 ≤ y ∧ 0 ≤ z
  | .axis s, x, y, z => if s = "x" then 0 < x ∧ y = 0 ∧ z = 0 else if s = "y" then x = 0 ∧ 0 < y ∧ z = 0
                        else if s = "z" then x = 0 ∧ y = 0 ∧ 0 < z else True

theorem choose_std2 (n : ℕ) (pos : Pos) :
    choose [std2, std3] 2 n pos =
      let rows := std2.rows ((n / 2 : ℕ) : ℤ)
      let rows := match pos with
        | .axis s => (match std2.filters.find? (fun (f : String × List (ℕ × Cmp)) => f.1 == s) with
                      | some f => rows.filter (passes f.2)
                      | none => rows)
        | _ => rows
      let rows := rows.filter fun v => !isZero v
      match pos with
      | .yes => rows.filter fun v => v.all (fun x => decide (x ≥ 0))
      | _ => rows := by
  unfold choose
  have : ([std2, std3].find? fun b => b.ndim == 2) = some std2 := by decide
  rw [this]; rfl

theorem choose_std3 (n : ℕ) (pos : Pos) :
    choose [std2, std3] 3 n pos =
      let rows := std3.rows ((n / 2 : ℕ) : ℤ)
      let rows := match pos with
        | .axis s => (match std3.filters.find? (fun (f : String × List (ℕ × Cmp)) => f.1 == s) with
                      | some f => rows.filter (passes f.2)
                      | none => rows)
        | _ => rows
      let rows := rows.filter fun v => !isZero v
      match pos with
      | .yes => rows.filter fun v => v.all (fun x => decide (x ≥ 0))
      | _ => rows := by
  unfold choose
  have : ([std2, std3].find? fun b => b.ndim == 3) = some std3 := by decide
  rw [this]; rfl

theorem nodup_choose (n : ℕ) (pos : Pos) : (choose [std2, std3] 2 n pos).Nodup ∧ (choose [std2, std3] 3 n pos).Nodup := by
  constructor
  · rw [choose_std2]
    have h := nodup_rows2 ((n / 2 : ℕ) : ℤ)
    cases pos with
    | no => exact h.filter _
    | yes => exact (h.filter _).filter _
    | axis s =>
      simp only
      split
      · exact (h.filter _).filter _
      · exact h.filter _
  · rw [choose_std3]
    have h := nodup_rows3 ((n / 2 : ℕ) : ℤ)
    cases pos with
    | no => exact h.filter _
    | yes => exact (h.filter _).filter _
    | axis s =>
      simp only
      split
      · exact (h.filter _).filter _
      · exact h.filter _

theorem find_filter2 (s : String) :
    std2.filters.find? (fun (f : String × List (ℕ × Cmp)) => f.1 == s) =
      if s = "x" then some ("x", [(0, Cmp.gt0), (1, Cmp.eq0)]) else if s = "y" then some ("y", [(0, Cmp.eq0), (1, Cmp.gt0)]) else none := by
  by_cases hx : s = "x"
  · subst hx; decide
  · by_cases hy : s = "y"
    · subst hy; decide
    · have h1 : ("x" == s) = false := by simpa using fun h => hx h.symm
      have h2 : ("y" == s) = false := by simpa using fun h => hy h.symm
      simp [std2, List.find?, h1, h2, hx, hy]

theorem find_filter3 (s : String) :
    std3.filters.find? (fun (f : String × List (ℕ × Cmp)) => f.1 == s) =
      if s = "x" then some ("x", [(0, Cmp.gt0), (1, Cmp.eq0), (2, Cmp.eq0)])
      else if s = "y" then some ("y", [(0, Cmp.eq0), (1, Cmp.gt0), (2, Cmp.eq0)])
      else if s = "z" then some ("z", [(0, Cmp.eq0), (1, Cmp.eq0), (2, Cmp.gt0)]) else none := by
  by_cases hx : s = "x"
  · subst hx; decide
  · by_cases hy : s = "y"
    · subst hy; decide
    · by_cases hz : s = "z"
      · subst hz; decide
      · have h1 : ("x" == s) = false := by simpa using fun h => hx h.symm
        have h2 : ("y" == s) = false := by simpa using fun h => hy h.symm
        have h3 : ("z" == s) = false := by simpa using fun h => hz h.symm
        simp [std3, List.find?, h1, h2, h3, hx, hy, hz]

/-- **default set, 2-D**: exactly the non-zero integer vectors of [-h, h)² with integer norm (+ the option) -/
theorem mem_choose2 (n : ℕ) (pos : Pos) (v : List ℤ) :
    v ∈ choose [std2, std3] 2 n pos ↔
      ∃ x y : ℤ, v = [x, y] ∧ (-((n / 2 : ℕ) : ℤ) ≤ x ∧ x < ((n / 2 : ℕ) : ℤ)) ∧ (-((n / 2 : ℕ) : ℤ) ≤ y ∧ y < ((n / 2 : ℕ) : ℤ)) ∧
        (∃ r : ℕ, (r : ℤ) * r = x * x + y * y) ∧ (x ≠ 0 ∨ y ≠ 0) ∧ posOK2 pos x y := by
  rw [choose_std2]
  cases pos with
  | no =>
    simp only [List.mem_filter, mem_rows2, posOK2]
    constructor
    · rintro ⟨⟨x, y, rfl, hx, hy, hr⟩, hz⟩
      exact ⟨x, y, rfl, hx, hy, hr, by simpa [isZero] using hz, trivial⟩
    · rintro ⟨x, y, rfl, hx, hy, hr, hz, _⟩
      exact ⟨⟨x, y, rfl, hx, hy, hr⟩, by simpa [isZero] using hz⟩
  | yes =>
    simp only [List.mem_filter, mem_rows2, posOK2]
    constructor
    · rintro ⟨⟨⟨x, y, rfl, hx, hy, hr⟩, hz⟩, hp⟩
      exact ⟨x, y, rfl, hx, hy, hr, by simpa [isZero] using hz, by simpa using hp⟩
    · rintro ⟨x, y, rfl, hx, hy, hr, hz, hp⟩
      exact ⟨⟨⟨x, y, rfl, hx, hy, hr⟩, by simpa [isZero] using hz⟩, by simpa using hp⟩
  | axis s =>
    simp only [find_filter2, posOK2]
    by_cases hx : s = "x"
    · simp only [hx, if_true, List.mem_filter, mem_rows2]
      constructor
      · rintro ⟨⟨⟨x, y, rfl, hx, hy, hr⟩, hp⟩, hz⟩
        simp [passes, Cmp.holds] at hp
        exact ⟨x, y, rfl, hx, hy, hr, Or.inl (by omega), hp⟩
      · rintro ⟨x, y, rfl, hx, hy, hr, hz, hp⟩
        refine ⟨⟨⟨x, y, rfl, hx, hy, hr⟩, by simpa [passes, Cmp.holds] using hp⟩, ?_⟩
        simp [isZero]; omega
    · by_cases hy : s = "y"
      · have hyx : ¬ ("y" = "x") := by decide
        simp only [hy, hyx, if_false, if_true, List.mem_filter, mem_rows2]
        constructor
        · rintro ⟨⟨⟨x, y, rfl, hx, hy, hr⟩, hp⟩, hz⟩
          simp [passes, Cmp.holds] at hp
          exact ⟨x, y, rfl, hx, hy, hr, Or.inr (by omega), hp⟩
        · rintro ⟨x, y, rfl, hx, hy, hr, hz, hp⟩
          refine ⟨⟨⟨x, y, rfl, hx, hy, hr⟩, by simpa [passes, Cmp.holds] using hp⟩, ?_⟩
          simp [isZero]; omega
      · simp only [hx, hy, if_false, List.mem_filter, mem_rows2]
        constructor
        · rintro ⟨⟨x, y, rfl, hx, hy, hr⟩, hz⟩
          exact ⟨x, y, rfl, hx, hy, hr, by simpa [isZero] using hz, trivial⟩
        · rintro ⟨x, y, rfl, hx, hy, hr, hz, _⟩
          exact ⟨⟨x, y, rfl, hx, hy, hr⟩, by simpa [isZero] using hz⟩

/-- **default set, 3-D** -/
theorem mem_choose3 (n : ℕ) (pos : Pos) (v : List ℤ) :
    v ∈ choose [std2, std3] 3 n pos ↔
      ∃ x y z : ℤ, v = [x, y, z] ∧ (-((n / 2 : ℕ) : ℤ) ≤ x ∧ x < ((n / 2 : ℕ) : ℤ)) ∧
        (-((n / 2 : ℕ) : ℤ) ≤ y ∧ y < ((n / 2 : ℕ) : ℤ)) ∧ (-((n / 2 : ℕ) : ℤ) ≤ z ∧ z < ((n / 2 : ℕ) : ℤ)) ∧
        (∃ r : ℕ, (r : ℤ) * r = x * x + y * y + z * z) ∧ (x ≠ 0 ∨ y ≠ 0 ∨ z ≠ 0) ∧ posOK3 pos x y z := by
  rw [choose_std3]
  have plain : ∀ w : List ℤ, (w ∈ List.filter (fun v => !isZero v) (std3.rows ((n / 2 : ℕ) : ℤ))) ↔
      ∃ x y z : ℤ, w = [x, y, z] ∧ (-((n / 2 : ℕ) : ℤ) ≤ x ∧ x < ((n / 2 : ℕ) : ℤ)) ∧
        (-((n / 2 : ℕ) : ℤ) ≤ y ∧ y < ((n / 2 : ℕ) : ℤ)) ∧ (-((n / 2 : ℕ) : ℤ) ≤ z ∧ z < ((n / 2 : ℕ) : ℤ)) ∧
        (∃ r : ℕ, (r : ℤ) * r = x * x + y * y + z * z) ∧ (x ≠ 0 ∨ y ≠ 0 ∨ z ≠ 0) := by
    intro w
    simp only [List.mem_filter, mem_rows3]
    constructor
    · rintro ⟨⟨x, y, z, rfl, hx, hy, hz, hr⟩, h0⟩
      exact ⟨x, y, z, rfl, hx, hy, hz, hr, by simpa [isZero, imp_iff_not_or] using h0⟩
    · rintro ⟨x, y, z, rfl, hx, hy, hz, hr, h0⟩
      exact ⟨⟨x, y, z, rfl, hx, hy, hz, hr⟩, by simpa [isZero, imp_iff_not_or] using h0⟩
  cases pos with
  | no =>
    simp only [plain, posOK3]
    constructor
    · rintro ⟨x, y, z, rfl, hx, hy, hz, hr, h0⟩; exact ⟨x, y, z, rfl, hx, hy, hz, hr, h0, trivial⟩
    · rintro ⟨x, y, z, rfl, hx, hy, hz, hr, h0, _⟩; exact ⟨x, y, z, rfl, hx, hy, hz, hr, h0⟩
  | yes =>
    simp only [List.mem_filter, plain, posOK3]
    constructor
    · rintro ⟨⟨x, y, z, rfl, hx, hy, hz, hr, h0⟩, hp⟩
      exact ⟨x, y, z, rfl, hx, hy, hz, hr, h0, by simpa using hp⟩
    · rintro ⟨x, y, z, rfl, hx, hy, hz, hr, h0, hp⟩
      exact ⟨⟨x, y, z, rfl, hx, hy, hz, hr, h0⟩, by simpa using hp⟩
  | axis s =>
    simp only [find_filter3, posOK3]
    by_cases hx : s = "x"
    · simp only [hx, if_true, List.mem_filter, mem_rows3]
      constructor
      · rintro ⟨⟨⟨x, y, z, rfl, hx, hy, hz, hr⟩, hp⟩, h0⟩
        simp [passes, Cmp.holds] at hp
        exact ⟨x, y, z, rfl, hx, hy, hz, hr, Or.inl (by omega), hp⟩
      · rintro ⟨x, y, z, rfl, hx, hy, hz, hr, h0, hp⟩
        refine ⟨⟨⟨x, y, z, rfl, hx, hy, hz, hr⟩, by simpa [passes, Cmp.holds] using hp⟩, ?_⟩
        simp [isZero]; omega
    · by_cases hy : s = "y"
      · have hyx : ¬ ("y" = "x") := by decide
        simp only [hy, hyx, if_false, if_true, List.mem_filter, mem_rows3]
        constructor
        · rintro ⟨⟨⟨x, y, z, rfl, hx, hy, hz, hr⟩, hp⟩, h0⟩
          simp [passes, Cmp.holds] at hp
          exact ⟨x, y, z, rfl, hx, hy, hz, hr, Or.inr (Or.inl (by omega)), hp⟩
        · rintro ⟨x, y, z, rfl, hx, hy, hz, hr, h0, hp⟩
          refine ⟨⟨⟨x, y, z, rfl, hx, hy, hz, hr⟩, by simpa [passes, Cmp.holds] using hp⟩, ?_⟩
          simp [isZero]; omega
      · by_cases hz : s = "z"
        · have hzx : ¬ ("z" = "x") := by decide
          have hzy : ¬ ("z" = "y") := by decide
          simp only [hz, hzx, hzy, if_false, if_true, List.mem_filter, mem_rows3]
          constructor
          · rintro ⟨⟨⟨x, y, z, rfl, hx, hy, hz, hr⟩, hp⟩, h0⟩
            simp [passes, Cmp.holds] at hp
            exact ⟨x, y, z, rfl, hx, hy, hz, hr, Or.inr (Or.inr (by omega)), hp⟩
          · rintro ⟨x, y, z, rfl, hx, hy, hz, hr, h0, hp⟩
            refine ⟨⟨⟨x, y, z, rfl, hx, hy, hz, hr⟩, by simpa [passes, Cmp.holds] using hp⟩, ?_⟩
            simp [isZero]; omega
        · simp only [hx, hy, hz, if_false, plain]
          constructor
          · rintro ⟨x, y, z, rfl, hx, hy, hz, hr, h0⟩; exact ⟨x, y, z, rfl, hx, hy, hz, hr, h0, trivial⟩
          · rintro ⟨x, y, z, rfl, hx, hy, hz, hr, h0, _⟩; exact ⟨x, y, z, rfl, hx, hy, hz, hr, h0⟩

end Pms.Wave
