import Pms.Model.TimeCorr
import Pms.Lemmas.Basic
import Mathlib.Algebra.CharZero.Defs
import Mathlib.Algebra.Order.Interval.Finset.SuccPred
import Mathlib.Tactic.Ring
import Mathlib.Tactic.FieldSimp
import Mathlib.Data.Complex.Basic

/-! Helper lemmas for C14: the interpreter of `Pms.TimeCorr` on a well-formed branch description. -/
open Finset
namespace Pms.TimeCorr
open Pms

/-! ### well-formedness of a regenerated branch (decidable) -/

/-- scalars and vectors: element-wise product; tensors: traced matrix product per particle -/
def kindOf (L : ℕ) : Kind := if L = 4 then .tracePerParticle else .sumAll

/-- the product pairs the later frame `n` with the earlier frame, exactly one factor is conjugated
(either one: the real part is the same), and the reduction fits the rank -/
def Branch.OkProd (b : Branch) (earlier : Idx) : Prop :=
  b.lhs.conj ≠ b.rhs.conj ∧ b.kind = kindOf b.shapeLen ∧
  ((b.lhs.frame = .n ∧ b.rhs.frame = earlier) ∨ (b.kind = .sumAll ∧ b.lhs.frame = earlier ∧ b.rhs.frame = .n))

/-- a branch that computes the origin average -/
def Branch.OkLin (b : Branch) : Prop :=
  b.double = true ∧ b.innerExtra = 1 ∧ b.OkProd .nMinusNn ∧ b.slot = .nn ∧ b.assign = false ∧
  b.counted = true ∧ b.countSlot = .nn ∧ b.divCounts = true

/-- a branch that computes the single-origin products -/
def Branch.OkLog (b : Branch) : Prop :=
  b.double = false ∧ b.OkProd .zero ∧ b.slot = .n ∧ b.divCounts = false ∧
  (b.kind = .sumAll ∨ b.assign = false)

instance (b : Branch) (e : Idx) : Decidable (b.OkProd e) := by unfold Branch.OkProd; infer_instance
instance (b : Branch) : Decidable b.OkLin := by unfold Branch.OkLin; infer_instance
instance (b : Branch) : Decidable b.OkLog := by unfold Branch.OkLog; infer_instance

variable {K : Type} [Field K]

/-! ### complex pairs -/

theorem re_sumRange (n : ℕ) (f : ℕ → Cx K) : (sumRange n f).re = sumRange n (fun i => (f i).re) := by
  induction n with
  | zero => rfl
  | succ n ih =>
    show (sumRange n f).re + (f n).re = sumRange n (fun i => (f i).re) + (f n).re
    rw [ih]

/-- Re(x · conj y) = Re(conj x · y) = x.re y.re + x.im y.im : the real part does not depend on which factor is conjugated -/
theorem term_re (c1 c2 : Bool) (h : c1 ≠ c2) (x y : Cx K) :
    (Cx.mul (if c1 then x.conj else x) (if c2 then y.conj else y)).re = x.re * y.re + x.im * y.im := by
  cases c1 <;> cases c2 <;> simp_all [Cx.mul, Cx.conj]

theorem pair_eq (L N d1 d2 : ℕ) (A : Series K) (n m : ℕ) :
    pair L N d1 d2 A n m = ∑ i ∈ range N, ∑ a ∈ range d1, ∑ b ∈ range d2,
      ((A n i a b).re * (if L = 4 then A m i b a else A m i a b).re
        + (A n i a b).im * (if L = 4 then A m i b a else A m i a b).im) := by
  unfold pair
  simp only [re_sumRange, sumRange_eq]
  refine Finset.sum_congr rfl fun i _ => Finset.sum_congr rfl fun a _ => Finset.sum_congr rfl fun b _ => ?_
  simp [Cx.mul, Cx.conj]

/-! ### the products of a well-formed branch -/

theorem prod_sumAll (b : Branch) (e : Idx) (h : b.OkProd e) (hk : b.kind = .sumAll) (N d1 d2 : ℕ) (A : Series K)
    (n nn : ℕ) :
    sumAllReal N d1 d2 (b.lhs.get A n nn) (b.rhs.get A n nn) = pair b.shapeLen N d1 d2 A n (e.eval n nn) := by
  obtain ⟨hc, hkind, hfr⟩ := h
  have hL : ¬ b.shapeLen = 4 := by
    intro h4; rw [hk] at hkind; simp [kindOf, h4] at hkind
  rw [pair_eq]
  unfold sumAllReal
  simp only [re_sumRange, sumRange_eq, if_neg hL]
  refine Finset.sum_congr rfl fun i _ => Finset.sum_congr rfl fun a _ => Finset.sum_congr rfl fun c _ => ?_
  unfold Operand.get
  rcases hfr with ⟨h1, h2⟩ | ⟨_, h1, h2⟩
  · rw [term_re _ _ hc, h1, h2]; rfl
  · rw [term_re _ _ hc, h1, h2]; show _ = (A n i a c).re * _ + (A n i a c).im * _
    simp only [Idx.eval]; ring

theorem prod_trace (b : Branch) (e : Idx) (h : b.OkProd e) (hk : b.kind = .tracePerParticle) (N d1 d2 : ℕ)
    (A : Series K) (n nn : ℕ) :
    ∑ i ∈ range N, traceReal d1 d2 (b.lhs.get A n nn) (b.rhs.get A n nn) i
      = pair b.shapeLen N d1 d2 A n (e.eval n nn) := by
  obtain ⟨hc, hkind, hfr⟩ := h
  have hL : b.shapeLen = 4 := by
    by_contra h4; rw [hk] at hkind; simp [kindOf, h4] at hkind
  rw [pair_eq]
  unfold traceReal
  simp only [re_sumRange, sumRange_eq, if_pos hL]
  refine Finset.sum_congr rfl fun i _ => Finset.sum_congr rfl fun a _ => Finset.sum_congr rfl fun c _ => ?_
  unfold Operand.get
  rcases hfr with ⟨h1, h2⟩ | ⟨h0, _, _⟩
  · rw [term_re _ _ hc, h1, h2]; rfl
  · rw [hk] at h0; cases h0

/-! ### loops -/

/-- `for i in range(N): acc[k] += g i` adds the sum to slot k -/
theorem fold_upd_same {M : Type} [AddCommMonoid M] (N : ℕ) (g : ℕ → M) (acc : ℕ → M) (k : ℕ) :
    foldRange N (fun acc i => upd acc k (g i)) acc = upd acc k (∑ i ∈ range N, g i) := by
  induction N with
  | zero => funext j; simp [foldRange, upd]
  | succ N ih =>
    rw [foldRange_succ, ih]
    funext j
    simp only [upd, Finset.sum_range_succ]
    split <;> simp [add_assoc]

/-- the step on `results` of a well-formed branch: slot += the pair product (`put` for `=`) -/
theorem step_ok (b : Branch) (e : Idx) (h : b.OkProd e) (hasg : b.kind = .sumAll ∨ b.assign = false)
    (N d1 d2 : ℕ) (A : Series K) (n nn : ℕ) (acc : ℕ → K) :
    b.step N d1 d2 A n nn acc
      = put b.assign acc (b.slot.eval n nn) (pair b.shapeLen N d1 d2 A n (e.eval n nn)) := by
  unfold Branch.step
  cases hk : b.kind with
  | sumAll => simp only [prod_sumAll b e h hk]
  | tracePerParticle =>
    have ha : b.assign = false := by
      rcases hasg with h1 | h1
      · rw [hk] at h1; cases h1
      · exact h1
    simp only [ha, put, Bool.false_eq_true, if_false]
    rw [fold_upd_same, prod_trace b e h hk]

/-- single loop writing one slot per iteration, by `=` or `+=`, starting from zeros -/
theorem single_loop (asg : Bool) (T : ℕ) (g : ℕ → K) (k : ℕ) :
    foldRange T (fun acc n => put asg acc n (g n)) (fun _ => (0 : K)) k = if k < T then g k else 0 := by
  induction T with
  | zero => simp [foldRange]
  | succ T ih =>
    rw [foldRange_succ]
    cases asg
    · simp only [put, Bool.false_eq_true, if_false, upd] at ih ⊢
      by_cases hk : k = T
      · subst hk; simp [ih]
      · have : (k < T + 1) ↔ (k < T) := by omega
        simp [hk, ih, this]
    · simp only [put, if_true, Pms.set] at ih ⊢
      by_cases hk : k = T
      · subst hk; simp
      · have : (k < T + 1) ↔ (k < T) := by omega
        simp [hk, ih, this]

/-- Σ over the origins n ≥ k, reindexed by the origin t = n − k -/
theorem sum_origins (T k : ℕ) (f : ℕ → K) :
    ∑ n ∈ (range T).filter (fun n => k ≤ n), f n = ∑ t ∈ range (T - k), f (t + k) := by
  have : (range T).filter (fun n => k ≤ n) = Finset.Ico k T := by
    ext n; simp only [Finset.mem_filter, Finset.mem_range, Finset.mem_Ico]; omega
  rw [this, Finset.sum_Ico_eq_sum_range]
  exact Finset.sum_congr rfl fun t _ => by rw [add_comm]

/-- the double loop with a constant increment counts the origins -/
theorem count_loop (T : ℕ) (c : K) (k : ℕ) :
    originLoop T (fun _ _ => c) (fun _ => (0 : K)) k = ((T - k : ℕ) : K) * c := by
  rw [originLoop_eq, Finset.sum_const, origin_count, nsmul_eq_mul]

/-- `counts` after the loop nest of an origin-averaging branch: the number of origins, times N when incremented per particle -/
theorem counts_lin (b : Branch) (h : b.OkLin) (T N : ℕ) (k : ℕ) :
    b.loops (α := K) T (b.countStep N) k
      = ((T - k : ℕ) : K) * (if b.countPerParticle then (N : K) else 1) := by
  obtain ⟨hd, hx, _, _, _, hc, hcs, _⟩ := h
  have hcstep : (fun n nn cnt => b.countStep (α := K) N n nn cnt)
      = fun n nn (cnt : ℕ → K) => upd cnt nn (if b.countPerParticle then (N : K) else 1) := by
    funext n nn cnt
    unfold Branch.countStep
    simp only [hc, hcs, if_true, Idx.eval]
    cases b.countPerParticle
    · simp
    · simp only [if_true]
      rw [fold_upd_same]; simp
  have hcnt : b.loops (α := K) T (b.countStep N)
      = originLoop T (fun _ _ => (if b.countPerParticle then (N : K) else 1)) (fun _ => (0 : K)) := by
    unfold Branch.loops
    simp only [hd, hx, if_true]
    show foldRange T (fun acc n => foldRange (n + 1) (fun acc nn => (fun n nn cnt => b.countStep (α := K) N n nn cnt) n nn acc) acc) _ = _
    rw [hcstep]; rfl
  rw [hcnt, count_loop]

/-- `results / counts` after the loop nest of an origin-averaging branch -/
theorem raw_lin (b : Branch) (h : b.OkLin) (T N d1 d2 : ℕ) (A : Series K) (k : ℕ) :
    b.raw T N d1 d2 A k =
      (∑ t ∈ range (T - k), pair b.shapeLen N d1 d2 A (t + k) t)
        / (((T - k : ℕ) : K) * (if b.countPerParticle then (N : K) else 1)) := by
  have hcnt := counts_lin (K := K) b h T N
  obtain ⟨hd, hx, hp, hs, ha, hc, hcs, hdc⟩ := h
  unfold Branch.raw
  simp only [hdc, if_true]
  have hstep : (fun n nn acc => b.step N d1 d2 A n nn acc)
      = fun n nn (acc : ℕ → K) => upd acc nn (pair b.shapeLen N d1 d2 A n (n - nn)) := by
    funext n nn acc
    rw [step_ok b .nMinusNn hp (Or.inr ha), hs, ha]
    rfl
  have hres : b.loops T (b.step N d1 d2 A)
      = originLoop T (fun n nn => pair b.shapeLen N d1 d2 A n (n - nn)) (fun _ => (0 : K)) := by
    unfold Branch.loops
    simp only [hd, hx, if_true]
    show foldRange T (fun acc n => foldRange (n + 1) (fun acc nn => (fun n nn acc => b.step N d1 d2 A n nn acc) n nn acc) acc) _ = _
    rw [hstep]; rfl
  rw [hres, hcnt, originLoop_eq, sum_origins]
  congr 1
  exact Finset.sum_congr rfl fun t _ => by rw [Nat.add_sub_cancel]

/-- `results` after the loop of a single-origin branch -/
theorem raw_log (b : Branch) (h : b.OkLog) (T N d1 d2 : ℕ) (A : Series K) (k : ℕ) :
    b.raw T N d1 d2 A k = if k < T then pair b.shapeLen N d1 d2 A k 0 else 0 := by
  obtain ⟨hd, hp, hs, hdc, hasg⟩ := h
  unfold Branch.raw
  simp only [hdc, Bool.false_eq_true, if_false]
  unfold Branch.loops
  simp only [hd, Bool.false_eq_true, if_false]
  have hstep : (fun (acc : ℕ → K) n => b.step N d1 d2 A n 0 acc)
      = fun acc n => put b.assign acc n (pair b.shapeLen N d1 d2 A n 0) := by
    funext acc n
    rw [step_ok b .zero hp hasg, hs]; rfl
  rw [hstep, single_loop]

end Pms.TimeCorr

/-! ### detection -/
namespace Pms.TimeCorr
open Pms

section detect
variable {α : Type} [DecidableEq α]

theorem mem_distinct (l : List α) (x : α) : x ∈ distinct l ↔ x ∈ l := by
  induction l with
  | nil => simp [distinct]
  | cons y ys ih =>
    unfold distinct
    split
    · rename_i hy
      constructor
      · intro h; exact List.mem_cons_of_mem _ (ih.mp h)
      · intro h
        rcases List.mem_cons.mp h with rfl | h
        · exact hy
        · exact ih.mpr h
    · simp [ih]

theorem distinct_eq_nil (l : List α) : distinct l = [] ↔ l = [] := by
  constructor
  · intro h
    cases l with
    | nil => rfl
    | cons y ys =>
      have : y ∈ distinct (y :: ys) := (mem_distinct _ _).mpr (List.mem_cons_self)
      rw [h] at this; cases this
  · intro h; subst h; rfl

/-- `len(set(l)) == 1` iff `l` is non-empty and constant -/
theorem distinct_length_one (l : List α) :
    (distinct l).length = 1 ↔ ∃ a, l ≠ [] ∧ ∀ x ∈ l, x = a := by
  induction l with
  | nil => simp [distinct]
  | cons y ys ih =>
    unfold distinct
    split
    · rename_i hy
      rw [ih]
      have hy' : y ∈ ys := (mem_distinct _ _).mp hy
      constructor
      · rintro ⟨a, _, ha⟩
        exact ⟨a, by simp, fun x hx => by
          rcases List.mem_cons.mp hx with rfl | hx
          · exact ha _ hy'
          · exact ha _ hx⟩
      · rintro ⟨a, _, ha⟩
        exact ⟨a, List.ne_nil_of_mem hy', fun x hx => ha x (List.mem_cons_of_mem _ hx)⟩
    · rename_i hy
      have hy' : y ∉ ys := fun h => hy ((mem_distinct _ _).mpr h)
      simp only [List.length_cons, Nat.add_eq_right, List.length_eq_zero_iff, distinct_eq_nil]
      constructor
      · intro h; subst h; exact ⟨y, by simp, by simp⟩
      · rintro ⟨a, _, ha⟩
        cases ys with
        | nil => rfl
        | cons z zs =>
          exfalso; apply hy'
          have h1 := ha y List.mem_cons_self
          have h2 := ha z (List.mem_cons_of_mem _ List.mem_cons_self)
          rw [h1, ← h2]; exact List.mem_cons_self

end detect

theorem mem_diffs {α : Type} [Sub α] (ts : ℕ → α) (T : ℕ) (x : α) :
    x ∈ diffs ts T ↔ ∃ i, i + 1 < T ∧ x = ts (i + 1) - ts i := by
  unfold diffs
  simp only [List.mem_map, List.mem_range]
  constructor
  · rintro ⟨i, hi, rfl⟩; exact ⟨i, by omega, rfl⟩
  · rintro ⟨i, hi, rfl⟩; exact ⟨i, by omega, rfl⟩

theorem diffs_ne_nil {α : Type} [Sub α] (ts : ℕ → α) (T : ℕ) : diffs ts T ≠ [] ↔ 2 ≤ T := by
  unfold diffs
  rw [Ne, List.map_eq_nil_iff, List.range_eq_nil]
  omega

/-- `Cx ℝ` is ℂ -/
def toC (x : Cx ℝ) : ℂ := ⟨x.re, x.im⟩

theorem evenlyB_iff {α : Type} [Sub α] [DecidableEq α] (ts : ℕ → α) (T : ℕ) :
    evenlyB ts T = true ↔ Evenly ts T := by
  unfold evenlyB Evenly
  simp only [List.all_eq_true, List.mem_range, decide_eq_true_eq]
  constructor
  · intro h i hi; exact h i (by omega)
  · intro h i hi; exact h i (by omega)

end Pms.TimeCorr
