import Pms.GenR.Hess
import Pms.Lemmas.Basic
import Mathlib.Analysis.SpecialFunctions.Sqrt
import Mathlib.Analysis.SpecialFunctions.Pow.Deriv
import Mathlib.Analysis.Calculus.Deriv.Pow
import Mathlib.Analysis.Calculus.Deriv.Inv
import Mathlib.Tactic.FieldSimp
import Mathlib.Tactic.Ring
import Mathlib.Tactic.Linarith
import Mathlib.Tactic.IntervalCases
import Mathlib.Tactic.SplitIfs
/-! Helper lemmas for C11: algebra of the regenerated block entries; calculus of a radial pair energy in any dimension
(1-D `HasDerivAt` per coordinate, `Function.update`). -/
open Finset Real
namespace Pms.Hess
open Pms.GenR.Hess

/-- closed form of a pair block: s''·x_a x_b/r² + (s' − k)(δ_ab/r − x_a x_b/r³) -/
noncomputable def closedB (v : ℕ → ℝ) (r s1 k s2 : ℝ) (a b : ℕ) : ℝ :=
  s2 * (v a * v b / r ^ 2) + (s1 - k) * ((if a = b then 1 else 0) / r - v a * v b / r ^ 3)

theorem blk3_closed (v : ℕ → ℝ) (r s1 k s2 : ℝ) (hr : r ≠ 0) (a b : ℕ) (ha : a < 3) (hb : b < 3) :
    blk3 (v 0) (v 1) (v 2) r s1 k s2 a b = closedB v r s1 k s2 a b := by
  interval_cases a <;> interval_cases b <;>
    simp [blk3, closedB, xi_xi, xi_yi, yi_yi, xi_zi, yi_zi, zi_zi] <;> field_simp <;> ring

theorem blk2_closed (v : ℕ → ℝ) (z r s1 k s2 : ℝ) (hr : r ≠ 0) (a b : ℕ) (ha : a < 2) (hb : b < 2) :
    blk2 (v 0) (v 1) z r s1 k s2 a b = closedB v r s1 k s2 a b := by
  interval_cases a <;> interval_cases b <;>
    simp [blk2, closedB, xi_xi, xi_yi, yi_yi] <;> field_simp <;> ring

theorem idx_cases (a : ℕ) : a = 0 ∨ a = 1 ∨ a = 2 ∨ (a ≠ 0 ∧ a ≠ 1 ∧ a ≠ 2) := by omega

theorem blk3_symm (x y z r s1 k s2 : ℝ) (a b : ℕ) : blk3 x y z r s1 k s2 a b = blk3 x y z r s1 k s2 b a := by
  rcases idx_cases a with rfl | rfl | rfl | ⟨h0, h1, h2⟩ <;> rcases idx_cases b with rfl | rfl | rfl | ⟨g0, g1, g2⟩ <;>
    simp [blk3, *]

theorem blk2_symm (x y z r s1 k s2 : ℝ) (a b : ℕ) : blk2 x y z r s1 k s2 a b = blk2 x y z r s1 k s2 b a := by
  rcases idx_cases a with rfl | rfl | rfl | ⟨h0, h1, h2⟩ <;> rcases idx_cases b with rfl | rfl | rfl | ⟨g0, g1, g2⟩ <;>
    simp [blk2, *]

theorem blk3_even (x y z r s1 k s2 : ℝ) (a b : ℕ) : blk3 (-x) (-y) (-z) r s1 k s2 a b = blk3 x y z r s1 k s2 a b := by
  rcases idx_cases a with rfl | rfl | rfl | ⟨h0, h1, h2⟩ <;> rcases idx_cases b with rfl | rfl | rfl | ⟨g0, g1, g2⟩ <;>
    simp [blk3, *] <;> (simp only [xi_xi, xi_yi, yi_yi, xi_zi, yi_zi, zi_zi]; ring)

theorem blk2_even (x y z z' r s1 k s2 : ℝ) (a b : ℕ) : blk2 (-x) (-y) z' r s1 k s2 a b = blk2 x y z r s1 k s2 a b := by
  rcases idx_cases a with rfl | rfl | rfl | ⟨h0, h1, h2⟩ <;> rcases idx_cases b with rfl | rfl | rfl | ⟨g0, g1, g2⟩ <;>
    simp [blk2, *] <;> (simp only [xi_xi, xi_yi, yi_yi]; ring)

/-- squared Euclidean norm of the first `d` components (the argument of the root in `np.linalg.norm`) -/
def nrm2 (d : ℕ) (v : ℕ → ℝ) : ℝ := sumRange d fun k => v k * v k
/-- `np.linalg.norm` -/
noncomputable def rad (d : ℕ) (v : ℕ → ℝ) : ℝ := Real.sqrt (nrm2 d v)

theorem nrm2_update (d b : ℕ) (hb : b < d) (v : ℕ → ℝ) (t : ℝ) :
    nrm2 d (Function.update v b t) = t ^ 2 + (nrm2 d v - v b ^ 2) := by
  unfold nrm2
  rw [sumRange_eq, sumRange_eq]
  have hm : b ∈ range d := mem_range.mpr hb
  rw [← Finset.add_sum_erase _ _ hm, ← Finset.add_sum_erase (range d) (fun k => v k * v k) hm]
  have : ∑ x ∈ (range d).erase b, Function.update v b t x * Function.update v b t x
       = ∑ x ∈ (range d).erase b, v x * v x := by
    refine Finset.sum_congr rfl fun x hx => ?_
    have : x ≠ b := (Finset.mem_erase.mp hx).1
    simp [Function.update_of_ne this]
  rw [this]
  simp
  ring

theorem hasDerivAt_radius (x c : ℝ) (hpos : 0 < x^2 + c) :
    HasDerivAt (fun x : ℝ => Real.sqrt (x^2 + c)) (x / Real.sqrt (x^2 + c)) x := by
  have h1 : HasDerivAt (fun x : ℝ => x^2 + c) (2 * x) x := by
    simpa using ((hasDerivAt_pow 2 x).add_const c)
  have := h1.sqrt hpos.ne'
  refine this.congr_deriv ?_
  field_simp

theorem grad_x (s s1 : ℝ → ℝ) (k x c : ℝ) (hpos : 0 < x^2 + c)
    (hs : HasDerivAt s (s1 (Real.sqrt (x^2 + c))) (Real.sqrt (x^2 + c))) :
    HasDerivAt (fun x : ℝ => s (Real.sqrt (x^2 + c)) - k * Real.sqrt (x^2 + c))
      ((s1 (Real.sqrt (x^2 + c)) - k) * x / Real.sqrt (x^2 + c)) x := by
  have hr := hasDerivAt_radius x c hpos
  have h := (hs.comp x hr).sub (hr.const_mul k)
  refine h.congr_deriv ?_
  ring

theorem hess_xx (s1 s2 : ℝ → ℝ) (k x c : ℝ) (hpos : 0 < x^2 + c)
    (hs : HasDerivAt s1 (s2 (Real.sqrt (x^2 + c))) (Real.sqrt (x^2 + c))) :
    HasDerivAt (fun x : ℝ => (s1 (Real.sqrt (x^2 + c)) - k) * x / Real.sqrt (x^2 + c))
      (s2 (Real.sqrt (x^2 + c)) * (x / Real.sqrt (x^2 + c))^2
        + (s1 (Real.sqrt (x^2 + c)) - k) * ((Real.sqrt (x^2 + c))^2 - x^2) / (Real.sqrt (x^2 + c))^3) x := by
  have hr := hasDerivAt_radius x c hpos
  have hrpos : 0 < Real.sqrt (x^2 + c) := Real.sqrt_pos.mpr hpos
  have hcomp : HasDerivAt (fun x : ℝ => s1 (Real.sqrt (x^2 + c)))
      (s2 (Real.sqrt (x^2 + c)) * (x / Real.sqrt (x^2 + c))) x := hs.comp x hr
  have h := ((hcomp.sub_const k).mul (hasDerivAt_id' x)).div hr hrpos.ne'
  refine h.congr_deriv ?_
  simp only [Pi.mul_apply]
  generalize Real.sqrt (x^2 + c) = r at *
  field_simp
  ring

theorem hess_xy (s1 s2 : ℝ → ℝ) (k x y c : ℝ) (hpos : 0 < y^2 + c)
    (hs : HasDerivAt s1 (s2 (Real.sqrt (y^2 + c))) (Real.sqrt (y^2 + c))) :
    HasDerivAt (fun y : ℝ => (s1 (Real.sqrt (y^2 + c)) - k) * x / Real.sqrt (y^2 + c))
      (s2 (Real.sqrt (y^2 + c)) * (x * y / (Real.sqrt (y^2 + c))^2)
        + (s1 (Real.sqrt (y^2 + c)) - k) * (-x * y / (Real.sqrt (y^2 + c))^3)) y := by
  have hr := hasDerivAt_radius y c hpos
  have hrpos : 0 < Real.sqrt (y^2 + c) := Real.sqrt_pos.mpr hpos
  have hcomp : HasDerivAt (fun y : ℝ => s1 (Real.sqrt (y^2 + c)))
      (s2 (Real.sqrt (y^2 + c)) * (y / Real.sqrt (y^2 + c))) y := hs.comp y hr
  have h := ((hcomp.sub_const k).mul_const x).div hr hrpos.ne'
  refine h.congr_deriv ?_
  generalize Real.sqrt (y^2 + c) = r at *
  field_simp
  ring

/-- pair energy up to a constant: φ(v) = s(|v|) − k·|v| -/
noncomputable def phi (s : ℝ → ℝ) (k : ℝ) (d : ℕ) (v : ℕ → ℝ) : ℝ := s (rad d v) - k * rad d v
/-- its gradient field: g_a(v) = (s'(|v|) − k)·v_a/|v| -/
noncomputable def gradPhi (s1 : ℝ → ℝ) (k : ℝ) (d : ℕ) (v : ℕ → ℝ) (a : ℕ) : ℝ := (s1 (rad d v) - k) * v a / rad d v

theorem radial_gradient (s s1 : ℝ → ℝ) (k : ℝ) (d b : ℕ) (hb : b < d) (v : ℕ → ℝ) (hpos : 0 < nrm2 d v)
    (hs : HasDerivAt s (s1 (rad d v)) (rad d v)) :
    HasDerivAt (fun t => phi s k d (Function.update v b t)) (gradPhi s1 k d v b) (v b) := by
  obtain ⟨c, hc⟩ : ∃ c, c = nrm2 d v - v b ^ 2 := ⟨_, rfl⟩
  have e : v b ^ 2 + c = nrm2 d v := by rw [hc]; ring
  have hf : (fun t => phi s k d (Function.update v b t))
      = fun x : ℝ => s (Real.sqrt (x^2 + c)) - k * Real.sqrt (x^2 + c) := by
    funext t; simp only [phi, rad, nrm2_update d b hb, hc]
  have h := grad_x s s1 k (v b) c (by rw [e]; exact hpos) (by rw [e]; exact hs)
  rw [e] at h
  rw [hf]
  exact h

theorem radial_hessian (s1 s2 : ℝ → ℝ) (k : ℝ) (d a b : ℕ) (hb : b < d) (v : ℕ → ℝ) (hpos : 0 < nrm2 d v)
    (hs : HasDerivAt s1 (s2 (rad d v)) (rad d v)) :
    HasDerivAt (fun t => gradPhi s1 k d (Function.update v b t) a)
      (closedB v (rad d v) (s1 (rad d v)) k (s2 (rad d v)) a b) (v b) := by
  obtain ⟨c, hc⟩ : ∃ c, c = nrm2 d v - v b ^ 2 := ⟨_, rfl⟩
  have e : v b ^ 2 + c = nrm2 d v := by rw [hc]; ring
  have hrpos : 0 < rad d v := Real.sqrt_pos.mpr hpos
  by_cases hab : a = b
  · subst hab
    have hf : (fun t => gradPhi s1 k d (Function.update v a t) a)
        = fun x : ℝ => (s1 (Real.sqrt (x^2 + c)) - k) * x / Real.sqrt (x^2 + c) := by
      funext t; simp only [gradPhi, rad, nrm2_update d a hb, Function.update_self, hc]
    have h := hess_xx s1 s2 k (v a) c (by rw [e]; exact hpos) (by rw [e]; exact hs)
    rw [e] at h
    rw [hf]
    refine h.congr_deriv ?_
    unfold closedB rad
    simp only [if_true]
    have : Real.sqrt (nrm2 d v) ≠ 0 := hrpos.ne'
    field_simp
  · have hf : (fun t => gradPhi s1 k d (Function.update v b t) a)
        = fun y : ℝ => (s1 (Real.sqrt (y^2 + c)) - k) * v a / Real.sqrt (y^2 + c) := by
      funext t; simp only [gradPhi, rad, nrm2_update d b hb, Function.update_of_ne hab, hc]
    have h := hess_xy s1 s2 k (v a) (v b) c (by rw [e]; exact hpos) (by rw [e]; exact hs)
    rw [e] at h
    rw [hf]
    refine h.congr_deriv ?_
    unfold closedB rad
    simp only [hab, if_false]
    have : Real.sqrt (nrm2 d v) ≠ 0 := hrpos.ne'
    field_simp
    ring
end Pms.Hess
