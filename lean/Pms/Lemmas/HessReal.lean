import Pms.Lemmas.Hess
import Pms.Lemmas.HessCalc
import Mathlib.Algebra.BigOperators.Field
/-! Helper lemmas for C11 over ℝ: the regenerated terms packaged as `Prims ℝ`, symmetry of blocks / cutoff test,
row sums of the plain Hessian. -/
open Finset Real
namespace Pms.C11
open Pms Pms.Hess Pms.GenR.Hess

/-- the primitives of the routine over ℝ: every formula is the term regenerated from the source -/
noncomputable def realPrims (caller : ℝ → ℝ → ℝ → ℝ → ℝ × ℝ × ℝ) : Prims ℝ where
  sqrt := Real.sqrt
  ofNat := fun n => (n : ℝ)
  blk2 := GenR.Hess.blk2
  blk3 := GenR.Hess.blk3
  zDefault := GenR.Hess.z_default
  dudr2j := GenR.Hess.dudr2j
  prefactor := GenR.Hess.prefactor
  cond := GenR.Hess.cond
  asm1 := GenR.Hess.asm1_rhs
  asm2 := GenR.Hess.asm2_rhs
  caller := caller
  frequencies := GenR.Hess.frequencies

/-- mass of particle i: `masses[itype + 1]` -/
def massOf (S : Sys ℝ) (i : ℕ) : ℝ := S.masses (tIdx S i + 1)

theorem inCut_self (caller) (S : Sys ℝ) (i : ℕ) : inCut (realPrims caller) S i i = false := by
  simp [inCut, realPrims, GenR.Hess.cond]

theorem dist2_symm (S : Sys ℝ) (hanti : ∀ i j k, S.disp j i k = - S.disp i j k) (i j : ℕ) : dist2 S j i = dist2 S i j := by
  unfold dist2
  rw [sumRange_eq, sumRange_eq]
  exact Finset.sum_congr rfl fun k _ => by rw [hanti i j k]; ring

theorem block_swap (caller) (S : Sys ℝ) (hanti : ∀ i j k, S.disp j i k = - S.disp i j k)
    (hpar : ∀ s t, S.eps s t = S.eps t s ∧ S.sig s t = S.sig t s ∧ S.rcut s t = S.rcut t s) (i j a b : ℕ) :
    block (realPrims caller) S j i b a = block (realPrims caller) S i j a b := by
  have hd : Hess.dist (realPrims caller) S j i = Hess.dist (realPrims caller) S i j := by
    unfold Hess.dist; rw [dist2_symm S hanti]
  have ht : derivs (realPrims caller) S j i = derivs (realPrims caller) S i j := by
    unfold derivs
    rw [hd, (hpar (tIdx S j) (tIdx S i)).1, (hpar (tIdx S j) (tIdx S i)).2.1, (hpar (tIdx S j) (tIdx S i)).2.2]
  unfold block
  simp only [hd, ht, hanti i j]
  split
  · show GenR.Hess.blk2 _ _ _ _ _ _ _ b a = GenR.Hess.blk2 _ _ _ _ _ _ _ a b
    rw [blk2_even _ _ (realPrims caller).zDefault, blk2_symm]
  · show GenR.Hess.blk3 _ _ _ _ _ _ _ b a = GenR.Hess.blk3 _ _ _ _ _ _ _ a b
    rw [blk3_even, blk3_symm]

theorem block_symm_ab (caller) (S : Sys ℝ) (i j a b : ℕ) :
    block (realPrims caller) S i j b a = block (realPrims caller) S i j a b := by
  unfold block
  split
  · exact blk2_symm _ _ _ _ _ _ _ _ _
  · exact blk3_symm _ _ _ _ _ _ _ _ _

theorem inCut_symm (caller) (S : Sys ℝ) (hanti : ∀ i j k, S.disp j i k = - S.disp i j k)
    (hpar : ∀ s t, S.eps s t = S.eps t s ∧ S.sig s t = S.sig t s ∧ S.rcut s t = S.rcut t s) (i j : ℕ) :
    inCut (realPrims caller) S j i = inCut (realPrims caller) S i j := by
  rw [Bool.eq_iff_iff]
  simp only [inCut, realPrims, GenR.Hess.cond, Hess.dist, Bool.and_eq_true, decide_eq_true_eq]
  rw [dist2_symm S hanti i j, (hpar (tIdx S j) (tIdx S i)).2.2]
  constructor <;> rintro ⟨h1, h2⟩ <;> exact ⟨h1.symm, h2⟩

theorem specH_row_sum (n : ℕ) (cut : ℕ → ℕ → Bool) (B : ℕ → ℕ → ℕ → ℕ → ℝ) (i a b : ℕ) (hi : i < n) :
    ∑ j ∈ range n, specH n cut B i a j b = 0 := by
  unfold specH
  rw [sumRange_eq]
  set T := ∑ k ∈ range n, (if k ≠ i ∧ cut i k = true then B i k a b else 0) with hT
  have h1 : ∀ j ∈ range n, (if i = j then T else if cut i j = true then - B i j a b else 0)
      = (if i = j then T else 0) + - (if j ≠ i ∧ cut i j = true then B i j a b else 0) := by
    intro j _
    by_cases h : i = j
    · subst h; simp
    · have : j ≠ i := fun e => h e.symm
      by_cases hc : cut i j = true <;> simp [h, this, hc]
  rw [Finset.sum_congr rfl h1, Finset.sum_add_distrib, Finset.sum_ite_eq, if_pos (mem_range.mpr hi),
    Finset.sum_neg_distrib, ← hT]
  ring

/-- the block `pair_matrix` returns, as the model `Pms.Hess.block` selects it: `x, y = Rji` (z = 0) for ndim = 2,
`x, y, z = Rji` otherwise -/
noncomputable def pairBlock (d : ℕ) (v : ℕ → ℝ) (r s1 k s2 : ℝ) (a b : ℕ) : ℝ :=
  if d = 2 then blk2 (v 0) (v 1) z_default r s1 k s2 a b else blk3 (v 0) (v 1) (v 2) r s1 k s2 a b

/-- documented pair energy of one pair as a function of the (minimum-image) separation vector `v`:
`s(|v|) − s(r_c) − (|v| − r_c)·k`, `k = s'(r_c)` when the force shift is on, `0` otherwise -/
noncomputable def pairEnergy (s : ℝ → ℝ) (k rc : ℝ) (d : ℕ) (v : ℕ → ℝ) : ℝ :=
  s (rad d v) - s rc - (rad d v - rc) * k

end Pms.C11
