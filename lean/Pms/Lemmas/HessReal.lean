import Pms.Lemmas.Hess
import Pms.Lemmas.HessCalc
import Mathlib.Algebra.BigOperators.Field
import Mathlib.Analysis.Calculus.Deriv.Add
/-! Helper lemmas for C11 over ℝ: the regenerated terms packaged as `Prims ℝ`, symmetry of blocks / cutoff test,
row sums of the plain Hessian. -/
open Finset Real
namespace Pms.C11
open Pms Pms.Hess Pms.GenR.Hess

/-- the primitives of the routine over ℝ: every formula is the term regenerated from the source -/
noncomputable def realPrims (caller : ℝ → ℝ → ℝ → ℝ → ℝ × ℝ × ℝ) : Prims ℝ where
  sqrt := Real.sqrt
  ofNat := fun n => (n : ℝ)
  blk2 := GenR.Hess.blk2
  blk3 := GenR.Hess.blk3
  zDefault := GenR.Hess.z_default
  dudr2j := GenR.Hess.dudr2j
  prefactor := GenR.Hess.prefactor
  cond := GenR.Hess.cond
  asm1 := GenR.Hess.asm1_rhs
  asm2 := GenR.Hess.asm2_rhs
  caller := caller
  frequencies := GenR.Hess.frequencies

/-- mass of particle i: `masses[itype + 1]` -/
def massOf (S : Sys ℝ) (i : ℕ) : ℝ := S.masses (tIdx S i + 1)

theorem inCut_self (caller) (S : Sys ℝ) (i : ℕ) : inCut (realPrims caller) S i i = false := by
  simp [inCut, realPrims, GenR.Hess.cond]

theorem dist2_symm (S : Sys ℝ) (hanti : ∀ i j k, S.disp j i k = - S.disp i j k) (i j : ℕ) : dist2 S j i = dist2 S i j := by
  unfold dist2
  rw [sumRange_eq, sumRange_eq]
  exact Finset.sum_congr rfl fun k _ => by rw [hanti i j k]; ring

theorem block_swap (caller) (S : Sys ℝ) (hanti : ∀ i j k, S.disp j i k = - S.disp i j k)
    (hpar : ∀ s t, S.eps s t = S.eps t s ∧ S.sig s t = S.sig t s ∧ S.rcut s t = S.rcut t s) (i j a b : ℕ) :
    block (realPrims caller) S j i b a = block (realPrims caller) S i j a b := by
  have hd : Hess.dist (realPrims caller) S j i = Hess.dist (realPrims caller) S i j := by
    unfold Hess.dist; rw [dist2_symm S hanti]
  have ht : derivs (realPrims caller) S j i = derivs (realPrims caller) S i j := by
    unfold derivs
    rw [hd, (hpar (tIdx S j) (tIdx S i)).1, (hpar (tIdx S j) (tIdx S i)).2.1, (hpar (tIdx S j) (tIdx S i)).2.2]
  unfold block
  simp only [hd, ht, hanti i j]
  split
  · show GenR.Hess.blk2 _ _ _ _ _ _ _ b a = GenR.Hess.blk2 _ _ _ _ _ _ _ a b
    rw [blk2_even _ _ (realPrims caller).zDefault, blk2_symm]
  · show GenR.Hess.blk3 _ _ _ _ _ _ _ b a = GenR.Hess.blk3 _ _ _ _ _ _ _ a b
    rw [blk3_even, blk3_symm]

theorem block_symm_ab (caller) (S : Sys ℝ) (i j a b : ℕ) :
    block (realPrims caller) S i j b a = block (realPrims caller) S i j a b := by
  unfold block
  split
  · exact blk2_symm _ _ _ _ _ _ _ _ _
  · exact blk3_symm _ _ _ _ _ _ _ _ _

theorem inCut_symm (caller) (S : Sys ℝ) (hanti : ∀ i j k, S.disp j i k = - S.disp i j k)
    (hpar : ∀ s t, S.eps s t = S.eps t s ∧ S.sig s t = S.sig t s ∧ S.rcut s t = S.rcut t s) (i j : ℕ) :
    inCut (realPrims caller) S j i = inCut (realPrims caller) S i j := by
  rw [Bool.eq_iff_iff]
  simp only [inCut, realPrims, GenR.Hess.cond, Hess.dist, Bool.and_eq_true, decide_eq_true_eq]
  rw [dist2_symm S hanti i j, (hpar (tIdx S j) (tIdx S i)).2.2]
  constructor <;> rintro ⟨h1, h2⟩ <;> exact ⟨h1.symm, h2⟩

theorem specH_row_sum (n : ℕ) (cut : ℕ → ℕ → Bool) (B : ℕ → ℕ → ℕ → ℕ → ℝ) (i a b : ℕ) (hi : i < n) :
    ∑ j ∈ range n, specH n cut B i a j b = 0 := by
  unfold specH
  rw [sumRange_eq]
  set T := ∑ k ∈ range n, (if k ≠ i ∧ cut i k = true then B i k a b else 0) with hT
  have h1 : ∀ j ∈ range n, (if i = j then T else if cut i j = true then - B i j a b else 0)
      = (if i = j then T else 0) + - (if j ≠ i ∧ cut i j = true then B i j a b else 0) := by
    intro j _
    by_cases h : i = j
    · subst h; simp
    · have : j ≠ i := fun e => h e.symm
      by_cases hc : cut i j = true <;> simp [h, this, hc]
  rw [Finset.sum_congr rfl h1, Finset.sum_add_distrib, Finset.sum_ite_eq, if_pos (mem_range.mpr hi),
    Finset.sum_neg_distrib, ← hT]
  ring

/-- the block `pair_matrix` returns, as the model `Pms.Hess.block` selects it: `x, y = Rji` (z = 0) for ndim = 2,
`x, y, z = Rji` otherwise -/
noncomputable def pairBlock (d : ℕ) (v : ℕ → ℝ) (r s1 k s2 : ℝ) (a b : ℕ) : ℝ :=
  if d = 2 then blk2 (v 0) (v 1) z_default r s1 k s2 a b else blk3 (v 0) (v 1) (v 2) r s1 k s2 a b

/-- documented pair energy of one pair as a function of the (minimum-image) separation vector `v`:
`s(|v|) − s(r_c) − (|v| − r_c)·k`, `k = s'(r_c)` when the force shift is on, `0` otherwise -/
noncomputable def pairEnergy (s : ℝ → ℝ) (k rc : ℝ) (d : ℕ) (v : ℕ → ℝ) : ℝ :=
  s (rad d v) - s rc - (rad d v - rc) * k

/-- positions with coordinate (p, β) replaced by t -/
def updPos (X : ℕ → ℕ → ℝ) (p β : ℕ) (t : ℝ) : ℕ → ℕ → ℝ := Function.update X p (Function.update (X p) β t)

/-- separation vector of the ordered pair (i, j): `X_i − X_j + c_ij` (c_ij = the lattice vector removed by the minimum image,
locally constant) -/
def sep (c : ℕ → ℕ → ℕ → ℝ) (X : ℕ → ℕ → ℝ) (i j : ℕ) : ℕ → ℝ := fun k => X i k - X j k + c i j k

/-- gradient field of the total pair energy: `G_{pα}(X) = Σ_{j in cutoff of p} (s'_{pj}(r) − k_{pj})·(sep_{pj})_α / r` -/
noncomputable def gradField (n d : ℕ) (cut : ℕ → ℕ → Bool) (s1 : ℕ → ℕ → ℝ → ℝ) (kk : ℕ → ℕ → ℝ)
    (c : ℕ → ℕ → ℕ → ℝ) (X : ℕ → ℕ → ℝ) (p α : ℕ) : ℝ :=
  ∑ j ∈ range n, if cut p j = true then gradPhi (s1 p j) (kk p j) d (sep c X p j) α else 0

theorem sep_upd_left (c : ℕ → ℕ → ℕ → ℝ) (X : ℕ → ℕ → ℝ) (p j β : ℕ) (t : ℝ) (hj : j ≠ p) :
    sep c (updPos X p β t) p j = Function.update (sep c X p j) β (t - X j β + c p j β) := by
  funext k
  unfold sep updPos
  rw [Function.update_self, Function.update_of_ne hj]
  by_cases hk : k = β
  · subst hk; simp
  · simp [Function.update_of_ne hk]

theorem sep_upd_right (c : ℕ → ℕ → ℕ → ℝ) (X : ℕ → ℕ → ℝ) (p j β : ℕ) (t : ℝ) (hj : j ≠ p) :
    sep c (updPos X j β t) p j = Function.update (sep c X p j) β (X p β - t + c p j β) := by
  funext k
  unfold sep updPos
  rw [Function.update_self, Function.update_of_ne hj.symm]
  by_cases hk : k = β
  · subst hk; simp
  · simp [Function.update_of_ne hk]

theorem sep_upd_other (c : ℕ → ℕ → ℕ → ℝ) (X : ℕ → ℕ → ℝ) (p j q β : ℕ) (t : ℝ) (h1 : q ≠ p) (h2 : q ≠ j) :
    sep c (updPos X q β t) p j = sep c X p j := by
  funext k
  unfold sep updPos
  rw [Function.update_of_ne h1.symm, Function.update_of_ne h2.symm]

/-- total documented pair energy: every unordered pair once (= half the sum over ordered pairs inside the cutoff) -/
noncomputable def totalEnergy (n d : ℕ) (cut : ℕ → ℕ → Bool) (s : ℕ → ℕ → ℝ → ℝ) (kk rc : ℕ → ℕ → ℝ)
    (c : ℕ → ℕ → ℕ → ℝ) (X : ℕ → ℕ → ℝ) : ℝ :=
  (1 / 2) * ∑ i ∈ range n, ∑ j ∈ range n,
    if cut i j = true then pairEnergy (s i j) (kk i j) (rc i j) d (sep c X i j) else 0

theorem nrm2_neg (d : ℕ) (v : ℕ → ℝ) : nrm2 d (fun k => - v k) = nrm2 d v := by
  unfold nrm2
  rw [sumRange_eq, sumRange_eq]
  exact Finset.sum_congr rfl fun k _ => by ring

theorem gradPhi_neg (s1 : ℝ → ℝ) (k : ℝ) (d : ℕ) (v : ℕ → ℝ) (a : ℕ) :
    gradPhi s1 k d (fun k => - v k) a = - gradPhi s1 k d v a := by
  unfold gradPhi rad
  rw [nrm2_neg]
  ring

theorem sep_swap (c : ℕ → ℕ → ℕ → ℝ) (hanti : ∀ i j k, c j i k = - c i j k) (X : ℕ → ℕ → ℝ) (i j : ℕ) :
    sep c X j i = fun k => - sep c X i j k := by
  funext k
  unfold sep
  rw [hanti i j k]
  ring


theorem specH_congr (n : ℕ) (cut : ℕ → ℕ → Bool) (B B' : ℕ → ℕ → ℕ → ℕ → ℝ) (i a j b : ℕ)
    (h : ∀ k, cut i k = true → B i k a b = B' i k a b) : specH n cut B i a j b = specH n cut B' i a j b := by
  unfold specH
  split
  · rw [sumRange_eq, sumRange_eq]
    refine Finset.sum_congr rfl fun k _ => ?_
    by_cases hc : k ≠ i ∧ cut i k = true
    · simp only [hc, and_self, if_true, ne_eq, not_false_eq_true]; exact h k hc.2
    · simp [hc]
  · by_cases hc : cut i j = true
    · simp only [hc, if_true]; rw [h j hc]
    · simp [hc]

end Pms.C11
