import Pms.Model.Gr
import Pms.Gen.Gr
import Pms.Lemmas.Basic
import Pms.Lemmas.Pbc
import Mathlib.Algebra.Order.Floor.Semiring
import Mathlib.Tactic.Ring
import Mathlib.Tactic.Linarith
import Mathlib.Tactic.FieldSimp
import Mathlib.Tactic.NormNum
import Mathlib.Tactic.Positivity
import Mathlib.Tactic.IntervalCases
import Mathlib.Tactic.Tauto
import Mathlib.Tactic.LinearCombination

/-! Helper lemmas for C03: unordered-vs-ordered pair counting with a species selector, symmetry of the
minimum-image distance, evaluation of the regenerated expressions. -/
set_option linter.unusedSectionVars false
set_option linter.unnecessarySeqFocus false
open Finset
namespace Pms.Gr
open Pms

variable {K : Type} [Field K] [LinearOrder K] [IsStrictOrderedRing K]

theorem npow_eq (x : K) (n : ℕ) : npow x n = x ^ n := by
  induction n with
  | zero => simp [npow]
  | succ n ih => simp [npow, ih, pow_succ]

/-- remove_pbc is odd (np.rint is), hence the squared minimum-image distance is symmetric in the pair -/
theorem dist2_symm (rint : K → ℤ) (hr : IsRintHE rint) (tr : Traj K) (f i j : ℕ) :
    dist2 rint tr f i j = dist2 rint tr f j i := by
  unfold dist2
  simp only [sumRange_eq]
  refine Finset.sum_congr rfl fun k _ => ?_
  have hneg : (fun k => (tr.frame f).pos i k - (tr.frame f).pos j k)
      = (fun k => - ((tr.frame f).pos j k - (tr.frame f).pos i k)) := by
    funext k; ring
  have hodd : ∀ (r : ℕ → K) (k : ℕ),
      Pbc.removePbc tr.d rint (tr.frame f).H (tr.frame f).Hinv tr.ppp (fun i => - r i) k
        = - Pbc.removePbc tr.d rint (tr.frame f).H (tr.frame f).Hinv tr.ppp r k := by
    intro r k
    unfold Pbc.removePbc
    rw [← Pbc.vecMul_neg]
    apply Pbc.vecMul_congr
    intro i _
    rw [Pbc.vecMul_neg, hr.odd]; push_cast; ring
  rw [hneg, hodd]
  unfold sq; ring

theorem binOf_symm (rint : K → ℤ) (hr : IsRintHE rint) (tr : Traj K) (f i j k : ℕ) :
    binOf tr (dist2 rint tr) f i j k = binOf tr (dist2 rint tr) f j i k := by
  unfold binOf; rw [dist2_symm rint hr]

/-- one frame: ordered pairs i ≠ j = the code's i<j loop with both orientations of the weight -/
theorem offdiag_weighted (n : ℕ) (B : ℕ → ℕ → Bool) (hB : ∀ i j, B i j = B j i) (w : ℕ → ℕ → K) :
    (∑ i ∈ range n, ∑ j ∈ range n, if i ≠ j ∧ B i j = true then w i j else 0)
      = ∑ i ∈ range n, ∑ j ∈ range n, if i < j then (if B i j = true then w i j + w j i else 0) else 0 := by
  have h1 : ∀ i j, (if i ≠ j ∧ B i j = true then w i j else 0)
      = if i ≠ j then (if B i j = true then w i j else 0) else 0 := by
    intro i j; by_cases h : i ≠ j <;> simp [h]
  simp_rw [h1]
  rw [offdiag_eq_pairLoop n (fun i j => if B i j = true then w i j else 0)]
  unfold pairLoop
  simp only [sumRange_eq]
  refine Finset.sum_congr rfl fun i _ => Finset.sum_congr rfl fun j _ => ?_
  by_cases hij : i < j
  · simp only [hij, if_true]
    rw [hB j i]
    by_cases hb : B i j = true <;> simp [hb]
  · simp [hij]

/-- `ind` of a selector that accepts exactly {a,b}: both orientations of the ordered-pair weight -/
theorem weight_pair (a b x y : ℕ) (s : Bool)
    (hs : s = (decide (y = a ∧ x = b) || decide (y = b ∧ x = a))) :
    (ind (decide (x = a ∧ y = b)) : K) + ind (decide (y = a ∧ x = b))
      = (if a = b then 2 else 1) * ind s := by
  subst hs
  unfold ind
  by_cases hab : a = b
  · subst hab
    by_cases h1 : x = a <;> by_cases h2 : y = a <;> simp [h1, h2] <;> norm_num
  · by_cases h1 : x = a <;> by_cases h2 : y = b <;> by_cases h3 : y = a <;> by_cases h4 : x = b <;>
      simp_all

/-- what `selOK K c = true` says -/
theorem selOK_spec (Ksp : ℕ) (c : Col) (h : selOK Ksp c = true) (x y : ℕ)
    (hx : 1 ≤ x ∧ x ≤ Ksp) (hy : 1 ≤ y ∧ y ≤ Ksp) :
    c.sel.eval x y = (if c.a == 0 then true else ((x == c.a && y == c.b) || (x == c.b && y == c.a))) := by
  unfold selOK at h
  rw [List.all_eq_true] at h
  have h1 := h (x - 1) (List.mem_range.mpr (by omega))
  rw [List.all_eq_true] at h1
  have h2 := h1 (y - 1) (List.mem_range.mpr (by omega))
  have ex : x - 1 + 1 = x := by omega
  have ey : y - 1 + 1 = y := by omega
  rw [ex, ey] at h2
  exact beq_iff_eq.mp h2

section hist
variable (tr : Traj K) (bin : ℕ → ℕ → ℕ → ℕ → Bool)

theorem pairHist_eq (w : ℕ → ℕ → ℕ → K) (k : ℕ) :
    pairHist tr bin w k = ∑ f ∈ range tr.T, ∑ i ∈ range tr.N, ∑ j ∈ range tr.N,
      if i ≠ j ∧ bin f i j k = true then w f i j else 0 := by
  unfold pairHist; simp only [sumRange_eq]

theorem loopHist_eq (w : ℕ → ℕ → ℕ → K) (k : ℕ) :
    loopHist tr bin w k = ∑ f ∈ range tr.T, ∑ i ∈ range tr.N, ∑ j ∈ range tr.N,
      if i < j then (if bin f i j k = true then w f i j else 0) else 0 := by
  unfold loopHist pairLoop; simp only [sumRange_eq]

/-- ordered-pair histogram = loop histogram, when on the visited pairs the loop weight is the sum of both
orientations of the ordered weight (up to the factor m) -/
theorem pairHist_loopHist (w v : ℕ → ℕ → ℕ → K) (m : K) (k : ℕ)
    (hB : ∀ f i j, bin f i j k = bin f j i k)
    (hw : ∀ f < tr.T, ∀ i < tr.N, ∀ j < tr.N, w f i j + w f j i = m * v f i j) :
    pairHist tr bin w k = m * loopHist tr bin v k := by
  rw [pairHist_eq, loopHist_eq, Finset.mul_sum]
  refine Finset.sum_congr rfl fun f hf => ?_
  rw [offdiag_weighted tr.N (fun i j => bin f i j k) (fun i j => hB f i j) (w f), Finset.mul_sum]
  refine Finset.sum_congr rfl fun i hi => ?_
  rw [Finset.mul_sum]
  refine Finset.sum_congr rfl fun j hj => ?_
  by_cases hij : i < j
  · simp only [hij, if_true]
    by_cases hb : bin f i j k = true
    · simp only [hb, if_true]
      exact hw f (mem_range.mp hf) i (mem_range.mp hi) j (mem_range.mp hj)
    · simp [hb]
  · simp [hij]

end hist

/-! ### counting: the code's selector loop against ordered species pairs -/

/-- the five methods, in the order K = 1..5 -/
def methodOfK : List (ℕ × Method) :=
  [(1, Pms.Gen.Gr.unary), (2, Pms.Gen.Gr.binary), (3, Pms.Gen.Gr.ternary), (4, Pms.Gen.Gr.quarternary), (5, Pms.Gen.Gr.quinary)]

/-- the regenerated method that must serve a K-species system -/
def methodFor (Kn : ℕ) : Method :=
  match Kn with
  | 2 => Pms.Gen.Gr.binary | 3 => Pms.Gen.Gr.ternary | 4 => Pms.Gen.Gr.quarternary | 5 => Pms.Gen.Gr.quinary
  | _ => Pms.Gen.Gr.unary

/-- a partial column whose selector passed `selOK`: the ordered a-b pair count is the loop count (×2 on the diagonal) -/
theorem pairCount_eq (tr : Traj K) (bin : ℕ → ℕ → ℕ → ℕ → Bool) (Ksp : ℕ) (c : Col)
    (hsel : selOK Ksp c = true) (hca : c.a ≠ 0)
    (htypes : ∀ f < tr.T, ∀ i < tr.N, 1 ≤ (tr.frame f).typ i ∧ (tr.frame f).typ i ≤ Ksp) (k : ℕ)
    (hB : ∀ f i j, bin f i j k = bin f j i k) :
    Spec.pairCount tr bin c.a c.b k
      = (if c.a = c.b then 2 else 1) * Impl.rawCountOf tr bin c.sel k := by
  unfold Spec.pairCount Impl.rawCountOf
  apply pairHist_loopHist tr _ _ _ _ k hB
  intro f hf i hi j hj
  apply weight_pair
  rw [selOK_spec Ksp c hsel _ _ (htypes f hf j hj) (htypes f hf i hi)]
  have : (c.a == 0) = false := by simpa using hca
  rw [this]
  simp only [Bool.false_eq_true, if_false, Bool.decide_and]
  congr 1

/-- the total column: every ordered pair is visited once in each orientation -/
theorem pairCountAll_eq (tr : Traj K) (bin : ℕ → ℕ → ℕ → ℕ → Bool) (sel : Sel)
    (hsel : ∀ x y, sel.eval x y = true) (k : ℕ) (hB : ∀ f i j, bin f i j k = bin f j i k) :
    Spec.pairCountAll tr bin k = 2 * Impl.rawCountOf tr bin sel k := by
  unfold Spec.pairCountAll Impl.rawCountOf
  apply pairHist_loopHist tr _ _ _ _ k hB
  intro f _ i _ j _
  simp only [hsel, ind, if_true, Nat.cast_one]
  norm_num

/-! ### evaluation of the regenerated normalisers -/

/-- N for the total (a = 0), otherwise the count np.unique reports for the a-th smallest type id -/
def nOf (tr : Traj K) (a : ℕ) : K := if a = 0 then (tr.N : K) else ((tr.typecount (a - 1) : ℕ) : K)

/-- V/(n_a n_b) · (m·cnt/T) / shell_k with m = 2 on the diagonal (and for the total), 1 otherwise -/
def target (tr : Traj K) (c : Col) (k : ℕ) (cnt : K) : K :=
  Spec.V tr / (nOf tr c.a * nOf tr c.b) * ((if c.a = c.b then 2 else 1) * cnt / (tr.T : K)) / Spec.shell tr k

theorem shellfac3 (k : ℕ) : ((k : K) + 1) ^ 3 - (k : K) ^ 3 ≠ 0 := by
  have : (0 : K) ≤ k := Nat.cast_nonneg k
  nlinarith [sq_nonneg (k : K)]

theorem shellfac2 (k : ℕ) : ((k : K) + 1) ^ 2 - (k : K) ^ 2 ≠ 0 := by
  have : (0 : K) ≤ k := Nat.cast_nonneg k
  nlinarith [sq_nonneg (k : K)]

/-- hypotheses under which the normalisers are meaningful (no division by zero) -/
structure NonDeg (tr : Traj K) (Ksp : ℕ) : Prop where
  dim : tr.d = 2 ∨ tr.d = 3
  V_ne : Spec.V tr ≠ 0
  T_ne : (tr.T : K) ≠ 0
  N_ne : (tr.N : K) ≠ 0
  pi_ne : tr.pi ≠ 0
  delta_ne : tr.rdelta ≠ 0
  tc_ne : ∀ i < Ksp, ((tr.typecount i : ℕ) : K) ≠ 0

open Pms.Gen.Gr in
/-- unfold the regenerated expressions in the environment of `Impl.env` and close the field identity -/
local macro "norm_tac" hd:ident m:ident : tactic =>
  `(tactic| (simp only [NExpr.eval, Impl.env, Impl.env0, Env.get, Pms.Gen.Gr.defs, $m:ident, lookupNat, $hd:ident, target, nOf,
               Spec.shell, Spec.V, npow_eq]
             simp [NExpr.eval]
             try field_simp
             try ring))

open Pms.Gen.Gr in
theorem norm_eval_unary (tr : Traj K) (h : NonDeg tr 0) (k : ℕ) (cnt : K) :
    ∀ c ∈ unary.cols, c.norm.eval (Impl.env defs unary tr k cnt) = target tr c k cnt := by
  intro c hc
  obtain ⟨hd, hV, hT, hN, hpi, hδ, htc⟩ := h
  have hs3 := shellfac3 (K := K) k; have hs2 := shellfac2 (K := K) k
  simp only [unary, List.mem_cons, List.not_mem_nil, or_false] at hc
  rcases hd with hd | hd <;> rcases hc with rfl <;> norm_tac hd unary

open Pms.Gen.Gr in
theorem norm_eval_binary (tr : Traj K) (h : NonDeg tr 2) (k : ℕ) (cnt : K) :
    ∀ c ∈ binary.cols, c.norm.eval (Impl.env defs binary tr k cnt) = target tr c k cnt := by
  intro c hc
  obtain ⟨hd, hV, hT, hN, hpi, hδ, htc⟩ := h
  have h0 := htc 0 (by omega); have h1 := htc 1 (by omega)
  have hs3 := shellfac3 (K := K) k; have hs2 := shellfac2 (K := K) k
  simp only [binary, List.mem_cons, List.not_mem_nil, or_false] at hc
  rcases hd with hd | hd <;> rcases hc with rfl | rfl | rfl | rfl <;> norm_tac hd binary

open Pms.Gen.Gr in
theorem norm_eval_ternary (tr : Traj K) (h : NonDeg tr 3) (k : ℕ) (cnt : K) :
    ∀ c ∈ ternary.cols, c.norm.eval (Impl.env defs ternary tr k cnt) = target tr c k cnt := by
  intro c hc
  obtain ⟨hd, hV, hT, hN, hpi, hδ, htc⟩ := h
  have h0 := htc 0 (by omega); have h1 := htc 1 (by omega); have h2 := htc 2 (by omega)
  have hs3 := shellfac3 (K := K) k; have hs2 := shellfac2 (K := K) k
  simp only [ternary, List.mem_cons, List.not_mem_nil, or_false] at hc
  rcases hd with hd | hd <;> rcases hc with rfl | rfl | rfl | rfl | rfl | rfl | rfl <;> norm_tac hd ternary

open Pms.Gen.Gr in
theorem norm_eval_quarternary (tr : Traj K) (h : NonDeg tr 4) (k : ℕ) (cnt : K) :
    ∀ c ∈ quarternary.cols, c.norm.eval (Impl.env defs quarternary tr k cnt) = target tr c k cnt := by
  intro c hc
  obtain ⟨hd, hV, hT, hN, hpi, hδ, htc⟩ := h
  have h0 := htc 0 (by omega); have h1 := htc 1 (by omega); have h2 := htc 2 (by omega); have h3 := htc 3 (by omega)
  have hs3 := shellfac3 (K := K) k; have hs2 := shellfac2 (K := K) k
  simp only [quarternary, List.mem_cons, List.not_mem_nil, or_false] at hc
  rcases hd with hd | hd <;> rcases hc with rfl | rfl | rfl | rfl | rfl | rfl | rfl | rfl | rfl | rfl | rfl <;>
    norm_tac hd quarternary

open Pms.Gen.Gr in
theorem norm_eval_quinary (tr : Traj K) (h : NonDeg tr 5) (k : ℕ) (cnt : K) :
    ∀ c ∈ quinary.cols, c.norm.eval (Impl.env defs quinary tr k cnt) = target tr c k cnt := by
  intro c hc
  obtain ⟨hd, hV, hT, hN, hpi, hδ, htc⟩ := h
  have h0 := htc 0 (by omega); have h1 := htc 1 (by omega); have h2 := htc 2 (by omega); have h3 := htc 3 (by omega)
  have h4 := htc 4 (by omega)
  have hs3 := shellfac3 (K := K) k; have hs2 := shellfac2 (K := K) k
  simp only [quinary, List.mem_cons, List.not_mem_nil, or_false] at hc
  rcases hd with hd | hd <;>
    rcases hc with rfl | rfl | rfl | rfl | rfl | rfl | rfl | rfl | rfl | rfl | rfl | rfl | rfl | rfl | rfl | rfl <;>
    norm_tac hd quinary

/-- all five regenerated methods: every normaliser evaluates to V/(n_a n_b)·(m·count/T)/shell_k -/
theorem norm_eval (tr : Traj K) (p : ℕ × Method) (hp : p ∈ methodOfK) (h : NonDeg tr p.1) (k : ℕ) (cnt : K) :
    ∀ c ∈ p.2.cols, c.norm.eval (Impl.env Pms.Gen.Gr.defs p.2 tr k cnt) = target tr c k cnt := by
  simp only [methodOfK, List.mem_cons, List.not_mem_nil, or_false] at hp
  rcases hp with rfl | rfl | rfl | rfl | rfl
  · exact norm_eval_unary tr { h with tc_ne := fun i hi => absurd hi (by omega) } k cnt
  · exact norm_eval_binary tr h k cnt
  · exact norm_eval_ternary tr h k cnt
  · exact norm_eval_quarternary tr h k cnt
  · exact norm_eval_quinary tr h k cnt

/-! ### well-formed trajectories -/

/-- the hypotheses of the property: np.rint contract; 2D or 3D; at least one frame and one particle; non-degenerate
cell, bin width and π; type ids in every frame are within 1..K; every species is present (frame 0) and
`typecount` is what np.unique reports for ids 1..K (count of id a in slot a−1).  "Same N and same box in every
frame" is built into `Traj` (gr.__init__ asserts it). -/
structure WF (rint : K → ℤ) (tr : Traj K) (Ksp : ℕ) : Prop where
  rint_he : IsRintHE rint
  dim : tr.d = 2 ∨ tr.d = 3
  T_pos : 0 < tr.T
  N_pos : 0 < tr.N
  V_ne : Spec.V tr ≠ 0
  pi_ne : tr.pi ≠ 0
  delta_ne : tr.rdelta ≠ 0
  types : ∀ f < tr.T, ∀ i < tr.N, 1 ≤ (tr.frame f).typ i ∧ (tr.frame f).typ i ≤ Ksp
  present : ∀ a, 1 ≤ a → a ≤ Ksp → 0 < Spec.Na tr a
  unique : ∀ a, 1 ≤ a → a ≤ Ksp → tr.typecount (a - 1) = Spec.Na tr a

theorem WF.nonDeg {rint : K → ℤ} {tr : Traj K} {Ksp : ℕ} (h : WF rint tr Ksp) : NonDeg tr Ksp where
  dim := h.dim
  V_ne := h.V_ne
  T_ne := Nat.cast_ne_zero.mpr (by have := h.T_pos; omega)
  N_ne := Nat.cast_ne_zero.mpr (by have := h.N_pos; omega)
  pi_ne := h.pi_ne
  delta_ne := h.delta_ne
  tc_ne := by
    intro i hi
    have h1 := h.unique (i + 1) (by omega) (by omega)
    have h2 := h.present (i + 1) (by omega) (by omega)
    simp only [Nat.add_sub_cancel] at h1
    rw [h1]
    exact Nat.cast_ne_zero.mpr (by omega)

/-- table facts used by the refinement proof (kernel-evaluated over the regenerated tables): the total column has
no mask; the species announced by a partial column are within 1..K -/
theorem table_shape : ∀ p ∈ methodOfK, ∀ c ∈ p.2.cols,
    (c.a = 0 → c.sel = Sel.all ∧ c.b = 0) ∧ (c.a ≠ 0 → 1 ≤ c.a ∧ c.a ≤ p.1 ∧ 1 ≤ c.b ∧ c.b ≤ p.1) := by
  decide +kernel

theorem table_selOK : ∀ p ∈ methodOfK, ∀ c ∈ p.2.cols, selOK p.1 c = true := by
  decide +kernel

/-! ### linearity of the ordered-pair histogram in the weight -/

theorem pairHist_congr (tr : Traj K) (bin : ℕ → ℕ → ℕ → ℕ → Bool) (w v : ℕ → ℕ → ℕ → K) (k : ℕ)
    (h : ∀ f < tr.T, ∀ i < tr.N, ∀ j < tr.N, w f i j = v f i j) :
    pairHist tr bin w k = pairHist tr bin v k := by
  rw [pairHist_eq, pairHist_eq]
  refine Finset.sum_congr rfl fun f hf => Finset.sum_congr rfl fun i hi => Finset.sum_congr rfl fun j hj => ?_
  rw [h f (mem_range.mp hf) i (mem_range.mp hi) j (mem_range.mp hj)]

theorem pairHist_sum {ι : Type} (S : Finset ι) (tr : Traj K) (bin : ℕ → ℕ → ℕ → ℕ → Bool)
    (w : ι → ℕ → ℕ → ℕ → K) (k : ℕ) :
    pairHist tr bin (fun f i j => ∑ s ∈ S, w s f i j) k = ∑ s ∈ S, pairHist tr bin (w s) k := by
  simp only [pairHist_eq]
  symm
  rw [Finset.sum_comm]
  refine Finset.sum_congr rfl fun f _ => ?_
  rw [Finset.sum_comm]
  refine Finset.sum_congr rfl fun i _ => ?_
  rw [Finset.sum_comm]
  refine Finset.sum_congr rfl fun j _ => ?_
  by_cases h : i ≠ j ∧ bin f i j k = true <;> simp [h]

/-- a particle of type x ∈ 1..K and one of type y ∈ 1..K form exactly one ordered species pair -/
theorem ind_pair_sum (Ksp x y : ℕ) (hx : 1 ≤ x ∧ x ≤ Ksp) (hy : 1 ≤ y ∧ y ≤ Ksp) :
    ∑ a ∈ Icc 1 Ksp, ∑ b ∈ Icc 1 Ksp, (ind (decide (x = a ∧ y = b)) : K) = 1 := by
  have h1 : ∀ a b, (ind (decide (x = a ∧ y = b)) : K) = if x = a then (if y = b then 1 else 0) else 0 := by
    intro a b; unfold ind
    by_cases h : x = a <;> by_cases h' : y = b <;> simp [h, h']
  simp_rw [h1]
  have h2 : ∀ a, (∑ b ∈ Icc 1 Ksp, if x = a then (if y = b then (1 : K) else 0) else 0) = if x = a then 1 else 0 := by
    intro a
    by_cases h : x = a
    · simp only [h, if_true]
      rw [Finset.sum_ite_eq (Icc 1 Ksp) y]
      simp [hy.1, hy.2]
    · simp [h]
  simp_rw [h2]
  rw [Finset.sum_ite_eq (Icc 1 Ksp) x]
  simp [hx.1, hx.2]

theorem shell_ne (tr : Traj K) (hd : tr.d = 2 ∨ tr.d = 3) (hpi : tr.pi ≠ 0) (hδ : tr.rdelta ≠ 0) (k : ℕ) :
    Spec.shell tr k ≠ 0 := by
  have hs3 := shellfac3 (K := K) k; have hs2 := shellfac2 (K := K) k
  unfold Spec.shell
  rcases hd with hd | hd
  · have h23 : ¬ (2 = 3) := by omega
    simp only [hd, h23, if_false]
    have : ((((k + 1 : ℕ) : K) * ((k + 1 : ℕ) : K)) - ((k : K) * (k : K))) ≠ 0 := by
      intro h; apply hs2; push_cast at h; linear_combination h
    simp only [ne_eq, mul_eq_zero, not_or]
    exact ⟨⟨hpi, this⟩, ⟨hδ, hδ⟩⟩
  · simp only [hd, if_true]
    have : ((((k + 1 : ℕ) : K) * ((k + 1 : ℕ) : K) * ((k + 1 : ℕ) : K)) - ((k : K) * (k : K) * (k : K))) ≠ 0 := by
      intro h; apply hs3; push_cast at h; linear_combination h
    have h43 : ((4 : ℕ) : K) / ((3 : ℕ) : K) ≠ 0 := by norm_num
    simp only [ne_eq, mul_eq_zero, not_or]
    exact ⟨⟨⟨h43, hpi⟩, this⟩, ⟨⟨hδ, hδ⟩, hδ⟩⟩

/-- `minRange` is the minimum of the first d entries -/
theorem minRange_le (d : ℕ) (f : ℕ → K) (i : ℕ) (hi : i < d) : minRange d f ≤ f i := by
  induction d with
  | zero => omega
  | succ n ih =>
    cases n with
    | zero =>
      have : i = 0 := by omega
      subst this; simp [minRange]
    | succ m =>
      simp only [minRange]
      by_cases hlast : i = m + 1
      · subst hlast
        split
        · exact le_refl _
        · rename_i h; exact not_lt.mp h
      · have := ih (by omega)
        split
        · rename_i h; exact le_trans (le_of_lt h) this
        · exact this

theorem minRange_mem (d : ℕ) (hd : 0 < d) (f : ℕ → K) : ∃ i < d, minRange d f = f i := by
  induction d with
  | zero => omega
  | succ n ih =>
    cases n with
    | zero => exact ⟨0, by omega, rfl⟩
    | succ m =>
      simp only [minRange]
      split
      · exact ⟨m + 1, by omega, rfl⟩
      · obtain ⟨i, hi, h⟩ := ih (by omega)
        exact ⟨i, by omega, h⟩

end Pms.Gr
