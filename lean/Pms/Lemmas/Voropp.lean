import Pms.Model.Voropp
import Mathlib.Algebra.BigOperators.Group.List.Basic
import Mathlib.Algebra.Order.BigOperators.Group.List
import Mathlib.Data.List.Count
import Mathlib.Data.List.Dedup
import Mathlib.Algebra.BigOperators.Group.List.Lemmas
import Mathlib.Data.List.Perm.Basic
import Mathlib.Data.Rat.Defs
import Mathlib.Algebra.Order.Field.Rat
import Mathlib.Tactic.Ring
import Mathlib.Tactic.Linarith
import Mathlib.Tactic.FieldSimp

/-! Helper lemmas for the voro++ post-processing (EXTRA). -/
namespace Pms.Voropp

theorem maskBy_map_filter {β : Type} (p : β → Bool) (l : List β) : maskBy (l.map p) l = l.filter p := by
  induction l with
  | nil => simp [maskBy]
  | cons a t ih => by_cases h : p a <;> simp [maskBy, h, ih]

theorem maskBy_map_zip {β γ : Type} (p : β → Bool) (l : List β) (m : List γ) (h : l.length = m.length) :
    maskBy (l.map p) m = (l.zip m).filterMap fun q => if p q.1 then some q.2 else none := by
  induction l generalizing m with
  | nil => cases m <;> simp [maskBy]
  | cons a t ih =>
    cases m with
    | nil => simp at h
    | cons b u =>
      have hl : t.length = u.length := by simpa using h
      by_cases hp : p a <;> simp [maskBy, hp, ih u hl]

theorem sumRat_eq_sum (l : List ℚ) : sumRat l = l.sum := by
  unfold sumRat
  have : ∀ a : ℚ, l.foldl (· + ·) a = a + l.sum := by
    induction l with
    | nil => intro a; simp
    | cons x t ih => intro a; simp only [List.foldl_cons, List.sum_cons]; rw [ih]; ring
  rw [this 0]; simp

theorem length_keptFa (nbrs : List ℤ) (areas : List ℚ) (h : nbrs.length = areas.length) :
    (keptFa nbrs areas).length = (keptNb nbrs).length := by
  unfold keptFa keptNb
  induction nbrs generalizing areas with
  | nil => simp
  | cons a t ih =>
    cases areas with
    | nil => simp at h
    | cons b u =>
      have hl : t.length = u.length := by simpa using h
      by_cases hp : a > 0 <;> simp [hp, ih u hl]

theorem keptFa_sublist_sum_le (nbrs : List ℤ) (areas : List ℚ) (hpos : ∀ a ∈ areas, 0 ≤ a) :
    (keptFa nbrs areas).sum ≤ areas.sum := by
  unfold keptFa
  induction nbrs generalizing areas with
  | nil => simp; exact List.sum_nonneg hpos
  | cons a t ih =>
    cases areas with
    | nil => simp
    | cons b u =>
      have hb : 0 ≤ b := hpos b (by simp)
      have hu := ih u (fun x hx => hpos x (by simp [hx]))
      by_cases hp : a > 0 <;> simp [hp] <;> linarith

/-! ### counting keys -/

theorem mem_distinct (l : List (List ℤ)) (x : List ℤ) : x ∈ distinct l ↔ x ∈ l := by
  induction l with
  | nil => simp [distinct]
  | cons k t ih =>
    simp only [distinct, List.mem_cons, List.mem_filter, ih]
    by_cases h : x = k <;> simp [h]

theorem nodup_distinct (l : List (List ℤ)) : (distinct l).Nodup := by
  induction l with
  | nil => simp [distinct]
  | cons k t ih =>
    simp only [distinct, List.nodup_cons]
    exact ⟨by simp [List.mem_filter], ih.filter _⟩

/-- Σ over the distinct keys of the number of occurrences = number of lines -/
theorem sum_count_distinct (keys : List (List ℤ)) : ((distinct keys).map fun k => keys.count k).sum = keys.length := by
  have hperm : (distinct keys).Perm keys.dedup :=
    (List.perm_ext_iff_of_nodup (nodup_distinct keys) (List.nodup_dedup keys)).2 (fun a => by rw [mem_distinct, List.mem_dedup])
  rw [(hperm.map _).sum_eq]
  have hinst : ∀ (x : List ℤ) (l : List (List ℤ)), @List.count _ List.instBEq x l = @List.count _ instBEqOfDecidableEq x l := by
    intro x l
    induction l with
    | nil => rfl
    | cons a t ih => simp only [List.count_cons, ih, beq_iff_eq]
  simp only [hinst]
  exact List.sum_map_count_dedup_eq_length keys

end Pms.Voropp
