import Pms.Model.Sym
import Pms.Lemmas.Basic
import Pms.Lemmas.Pbc
import Mathlib.Logic.Equiv.Defs
import Mathlib.Algebra.BigOperators.Group.Finset.Basic

/-! Helper lemmas for C07: how the generators of the symmetry group act on differences, dot products, sums. -/
open Finset
namespace Pms.Sym
open Pms Pms.Pbc

section ring
variable {K : Type} [Field K]

/-- a rigid translation does not change any difference vector -/
theorem translate_diff (pos : ℕ → ℕ → K) (c : ℕ → K) (i j : ℕ) :
    (fun k => translate pos c j k - translate pos c i k) = fun k => pos j k - pos i k := by
  funext k; simp [translate]

/-- `Rᵀ R = 1` on indices below `d` -/
def IsOrtho (d : ℕ) (R : ℕ → ℕ → K) : Prop :=
  ∀ a < d, ∀ b < d, (∑ k ∈ range d, R k a * R k b) = if a = b then 1 else 0

theorem matVec_eq (d : ℕ) (R : ℕ → ℕ → K) (v : ℕ → K) (k : ℕ) :
    matVec d R v k = ∑ a ∈ range d, R k a * v a := by simp [matVec, sumRange_eq]

theorem matVec_sub (d : ℕ) (R : ℕ → ℕ → K) (u v : ℕ → K) (k : ℕ) :
    matVec d R (fun a => u a - v a) k = matVec d R u k - matVec d R v k := by
  simp only [matVec_eq, ← Finset.sum_sub_distrib]
  exact Finset.sum_congr rfl fun a _ => by ring

/-- an orthogonal map preserves every dot product -/
theorem dot_matVec (d : ℕ) (R : ℕ → ℕ → K) (hR : IsOrtho d R) (u v : ℕ → K) :
    dot d (matVec d R u) (matVec d R v) = dot d u v := by
  simp only [dot, sumRange_eq, matVec_eq]
  have h1 : ∀ k ∈ range d, (∑ a ∈ range d, R k a * u a) * (∑ b ∈ range d, R k b * v b)
      = ∑ a ∈ range d, ∑ b ∈ range d, u a * v b * (R k a * R k b) := by
    intro k _
    rw [Finset.sum_mul_sum]
    exact Finset.sum_congr rfl fun a _ => Finset.sum_congr rfl fun b _ => by ring
  rw [Finset.sum_congr rfl h1, Finset.sum_comm]
  refine Finset.sum_congr rfl fun a ha => ?_
  rw [Finset.sum_comm]
  have h2 : ∀ b ∈ range d, ∑ k ∈ range d, u a * v b * (R k a * R k b) = if a = b then u a * v b else 0 := by
    intro b hb
    rw [← Finset.mul_sum, hR a (Finset.mem_range.mp ha) b (Finset.mem_range.mp hb)]
    split <;> simp
  rw [Finset.sum_congr rfl h2, Finset.sum_ite_eq (range d) a]
  simp [ha]

/-- the phase is additive in the position -/
theorem theta_add (d : ℕ) (n : ℕ → ℤ) (tw r c : ℕ → K) :
    theta d n tw (fun k => r k + c k) = theta d n tw r + theta d n tw c := by
  simp only [theta, sumRange_eq, ← Finset.sum_add_distrib]
  exact Finset.sum_congr rfl fun k _ => by ring

/-- sums over `range n` are invariant under a permutation of `ℕ` that preserves `range n` -/
theorem sum_perm {M : Type} [AddCommMonoid M] (n : ℕ) (σ : Equiv.Perm ℕ) (hσ : ∀ i, σ i < n ↔ i < n) (f : ℕ → M) :
    ∑ i ∈ range n, f (σ i) = ∑ i ∈ range n, f i :=
  Finset.sum_equiv σ (by intro i; simp [hσ i]) (fun _ _ => rfl)

theorem prod_perm {M : Type} [CommMonoid M] (n : ℕ) (σ : Equiv.Perm ℕ) (hσ : ∀ i, σ i < n ↔ i < n) (f : ℕ → M) :
    ∏ i ∈ range n, f (σ i) = ∏ i ∈ range n, f i :=
  Finset.prod_equiv σ (by intro i; simp [hσ i]) (fun _ _ => rfl)

end ring
end Pms.Sym
