import Pms.Model.Sym
import Pms.Lemmas.Basic
import Pms.Lemmas.Pbc
import Mathlib.Logic.Equiv.Defs
import Mathlib.Algebra.BigOperators.Group.Finset.Basic

/-! Helper lemmas for C07: how the generators of the symmetry group act on differences, dot products, sums. -/
open Finset
namespace Pms.Sym
open Pms Pms.Pbc

section ring
variable {K : Type} [Field K]

/-- a rigid translation does not change any difference vector -/
theorem translate_diff (pos : ℕ → ℕ → K) (c : ℕ → K) (i j : ℕ) :
    (fun k => translate pos c j k - translate pos c i k) = fun k => pos j k - pos i k := by
  funext k; simp [translate]

/-- `Rᵀ R = 1` on indices below `d` -/
def IsOrtho (d : ℕ) (R : ℕ → ℕ → K) : Prop :=
  ∀ a < d, ∀ b < d, (∑ k ∈ range d, R k a * R k b) = if a = b then 1 else 0

theorem matVec_eq (d : ℕ) (R : ℕ → ℕ → K) (v : ℕ → K) (k : ℕ) :
    matVec d R v k = ∑ a ∈ range d, R k a * v a := by simp [matVec, sumRange_eq]

theorem matVec_sub (d : ℕ) (R : ℕ → ℕ → K) (u v : ℕ → K) (k : ℕ) :
    matVec d R (fun a => u a - v a) k = matVec d R u k - matVec d R v k := by
  simp only [matVec_eq, ← Finset.sum_sub_distrib]
  exact Finset.sum_congr rfl fun a _ => by ring

/-- an orthogonal map preserves every dot product -/
theorem dot_matVec (d : ℕ) (R : ℕ → ℕ → K) (hR : IsOrtho d R) (u v : ℕ → K) :
    dot d (matVec d R u) (matVec d R v) = dot d u v := by
  simp only [dot, sumRange_eq, matVec_eq]
  have h1 : ∀ k ∈ range d, (∑ a ∈ range d, R k a * u a) * (∑ b ∈ range d, R k b * v b)
      = ∑ a ∈ range d, ∑ b ∈ range d, u a * v b * (R k a * R k b) := by
    intro k _
    rw [Finset.sum_mul_sum]
    exact Finset.sum_congr rfl fun a _ => Finset.sum_congr rfl fun b _ => by ring
  rw [Finset.sum_congr rfl h1, Finset.sum_comm]
  refine Finset.sum_congr rfl fun a ha => ?_
  rw [Finset.sum_comm]
  have h2 : ∀ b ∈ range d, ∑ k ∈ range d, u a * v b * (R k a * R k b) = if a = b then u a * v b else 0 := by
    intro b hb
    rw [← Finset.mul_sum, hR a (Finset.mem_range.mp ha) b (Finset.mem_range.mp hb)]
    split <;> simp
  rw [Finset.sum_congr rfl h2, Finset.sum_ite_eq (range d) a]
  simp [ha]

/-- the phase is additive in the position -/
theorem theta_add (d : ℕ) (n : ℕ → ℤ) (tw r c : ℕ → K) :
    theta d n tw (fun k => r k + c k) = theta d n tw r + theta d n tw c := by
  simp only [theta, sumRange_eq, ← Finset.sum_add_distrib]
  exact Finset.sum_congr rfl fun k _ => by ring

/-- sums over `range n` are invariant under a permutation of `ℕ` that preserves `range n` -/
theorem sum_perm {M : Type} [AddCommMonoid M] (n : ℕ) (σ : Equiv.Perm ℕ) (hσ : ∀ i, σ i < n ↔ i < n) (f : ℕ → M) :
    ∑ i ∈ range n, f (σ i) = ∑ i ∈ range n, f i :=
  Finset.sum_equiv σ (by intro i; simp [hσ i]) (fun _ _ => rfl)

theorem prod_perm {M : Type} [CommMonoid M] (n : ℕ) (σ : Equiv.Perm ℕ) (hσ : ∀ i, σ i < n ↔ i < n) (f : ℕ → M) :
    ∏ i ∈ range n, f (σ i) = ∏ i ∈ range n, f i :=
  Finset.prod_equiv σ (by intro i; simp [hσ i]) (fun _ _ => rfl)

end ring
end Pms.Sym

namespace Pms.Sym
open Pms Pms.Pbc Finset

section field
variable {K : Type} [Field K]

/-- a permutation of `ℕ` that maps `range d` onto itself -/
def PermBelow (d : ℕ) (π : Equiv.Perm ℕ) : Prop := ∀ i, π i < d ↔ i < d

theorem PermBelow.symm {d : ℕ} {π : Equiv.Perm ℕ} (h : PermBelow d π) : PermBelow d π.symm := by
  intro i
  have := h (π.symm i)
  simp only [Equiv.apply_symm_apply] at this
  exact this.symm

/-- row-vector × matrix commutes with a simultaneous permutation of all indices -/
theorem vecMul_perm (d : ℕ) (π : Equiv.Perm ℕ) (hπ : PermBelow d π) (v : ℕ → K) (M : ℕ → ℕ → K) (k : ℕ) :
    vecMul d (permVec π v) (permMat π M) k = vecMul d v M (π k) := by
  simp only [vecMul, sumRange_eq, permVec, permMat]
  exact sum_perm d π hπ (fun i => v i * M i (π k))

/-- `remove_pbc` commutes with a simultaneous permutation of the axes of the vector, the cell, its inverse and the mask -/
theorem removePbc_perm (d : ℕ) (rint : K → ℤ) (π : Equiv.Perm ℕ) (hπ : PermBelow d π) (H Hinv : ℕ → ℕ → K)
    (ppp r : ℕ → K) (k : ℕ) :
    removePbc d rint (permMat π H) (permMat π Hinv) (permVec π ppp) (permVec π r) k
      = removePbc d rint H Hinv ppp r (π k) := by
  unfold removePbc
  have hf : vecMul d (permVec π r) (permMat π Hinv) = permVec π (vecMul d r Hinv) := by
    funext i; rw [vecMul_perm d π hπ]; rfl
  simp only [hf]
  have hg : (fun i => permVec π (vecMul d r Hinv) i - ((rint (permVec π (vecMul d r Hinv) i) : ℤ) : K) * permVec π ppp i)
      = permVec π (fun i => vecMul d r Hinv i - ((rint (vecMul d r Hinv i) : ℤ) : K) * ppp i) := by
    funext i; rfl
  rw [hg, vecMul_perm d π hπ]

/-- `remove_pbc` is homogeneous of degree one under a common dilation of vector and cell -/
theorem removePbc_dilate (d : ℕ) (rint : K → ℤ) (s : K) (hs : s ≠ 0) (H Hinv : ℕ → ℕ → K) (ppp r : ℕ → K) (k : ℕ) :
    removePbc d rint (fun a b => s * H a b) (fun a b => Hinv a b / s) ppp (fun a => s * r a) k
      = s * removePbc d rint H Hinv ppp r k := by
  unfold removePbc
  have hf : vecMul d (fun a => s * r a) (fun a b => Hinv a b / s) = vecMul d r Hinv := by
    funext i
    simp only [vecMul, sumRange_eq]
    exact Finset.sum_congr rfl fun a _ => by field_simp
  simp only [hf]
  simp only [vecMul, sumRange_eq, Finset.mul_sum]
  exact Finset.sum_congr rfl fun a _ => by ring

/-- with no periodic axis `remove_pbc` is the identity (given `Hinv · H = 1`) -/
theorem removePbc_open (d : ℕ) (rint : K → ℤ) (H Hinv : ℕ → ℕ → K) (ppp r : ℕ → K) (hinv : IsInv d Hinv H)
    (hp : ∀ i < d, ppp i = 0) (k : ℕ) (hk : k < d) :
    removePbc d rint H Hinv ppp r k = r k := by
  unfold removePbc
  rw [← vecMul_inv d r Hinv H hinv k hk]
  apply vecMul_congr
  intro i hi
  rw [hp i hi]; ring

/-- the difference of two lattice vectors is the lattice vector of the difference of the integer coefficients -/
theorem latticeVec_sub (d : ℕ) (H : ℕ → ℕ → K) (ppp : ℕ → K) (m n : ℕ → ℤ) (k : ℕ) :
    latticeVec d H ppp m k - latticeVec d H ppp n k = vecMul d (fun a => ((m a - n a : ℤ) : K) * ppp a) H k := by
  simp only [latticeVec, vecMul, sumRange_eq, ← Finset.sum_sub_distrib]
  exact Finset.sum_congr rfl fun a _ => by push_cast; ring

end field
end Pms.Sym
